import Driver.Json
