import EudoxiaModel.Props.C01
import EudoxiaModel.Props.C02
import EudoxiaModel.Model.Obs
