import EudoxiaModel.Model.Exec
