import EudoxiaModel.Model.Rest
/-! # C19 — the REST bridge is transparent and keeps its protocol promises  (PARTIAL)

Proved: the bookkeeping (when a call is made, what the pipeline lists contain, completion reported once).
Not expressible in the model: sockets, JSON text, `requests`, the Go peer — exercised over loop-back HTTP by the tie. -/
namespace Eudoxia.C19
open Eudoxia.Rest

/-- **a call is made whenever something arrived or finished, and otherwise exactly when the poll interval has passed** -/
theorem call_condition (c : Cfg) (st : St) (newP : List Nat) (hasResults : Bool) (complete : Nat → Bool) :
    ((step c st newP hasResults complete).2.isSome ↔
      (newP ≠ [] ∨ hasResults = true ∨ c.pollNum * c.tps ≤ ((st.tick + 1) - st.lastCall) * c.pollDen)) := by
  unfold step
  by_cases h : mustCall c st newP hasResults
  · simp only [h, ↓reduceIte, Option.isSome_some, true_iff]
    unfold mustCall at h
    simp only [Bool.or_eq_true, Bool.not_eq_true', List.isEmpty_eq_false_iff, decide_eq_false_iff_not, Nat.not_lt] at h
    rcases h with (h | h) | h
    · exact Or.inl h
    · exact Or.inr (Or.inl h)
    · exact Or.inr (Or.inr h)
  · simp only [h, Bool.false_eq_true, ↓reduceIte, Option.isSome_none, false_iff]
    unfold mustCall at h
    simp only [Bool.or_eq_true, Bool.not_eq_true', List.isEmpty_eq_false_iff, decide_eq_false_iff_not, Nat.not_lt, not_or] at h
    rintro (h1 | h1 | h1)
    · exact h.1.1 h1
    · exact h.1.2 h1
    · exact h.2 h1

/-- **new and previously known pipelines are disjoint** (given that arriving pipelines are new) -/
theorem new_other_disjoint (c : Cfg) (st : St) (newP : List Nat) (hr : Bool) (complete : Nat → Bool) (p : Payload)
    (hfresh : ∀ x ∈ newP, x ∉ st.known) (h : (step c st newP hr complete).2 = some p) :
    ∀ x ∈ p.newP, x ∉ p.other.map (·.1) := by
  unfold step at h
  split at h
  · simp at h; subst h
    intro x hx
    simp only [List.map_map, Function.comp_def, List.map_id']
    exact hfresh x hx
  · cases h

/-- after a call, no pipeline that was complete at that call is still known -/
theorem complete_dropped_after_call (c : Cfg) (st : St) (newP : List Nat) (hr : Bool) (complete : Nat → Bool) (p : Payload)
    (h : (step c st newP hr complete).2 = some p) : ∀ x ∈ (step c st newP hr complete).1.known, complete x = false := by
  unfold step at h ⊢
  split at h
  · rename_i hc
    simp only [hc, ↓reduceIte]
    intro x hx
    have := (List.mem_filter.mp hx).2
    simpa using this
  · cases h

/-- a pipeline stays out of the known set unless it arrives (again) -/
theorem known_only_grows_by_arrivals (c : Cfg) (st : St) (newP : List Nat) (hr : Bool) (complete : Nat → Bool) (x : Nat)
    (hx : x ∉ st.known) (hn : x ∉ newP) : x ∉ (step c st newP hr complete).1.known := by
  unfold step
  split
  · intro hmem
    have := (List.mem_filter.mp hmem).1
    rcases List.mem_append.mp this with h1 | h1
    · exact hx h1
    · exact hn (List.mem_filter.mp h1).1
  · exact hx

/-- **a completed pipeline is reported once as complete and then never again**: if call `k` reports `x` complete, then — as long as
`x` does not arrive again — `x` appears in no later payload's `other_pipelines` -/
theorem reported_complete_then_never_again (c : Cfg) : ∀ (ins : List In) (st : St) (x : Nat),
    x ∉ st.known → (∀ i ∈ ins, x ∉ i.newP) → ∀ p ∈ run c st ins, ∀ q, p = some q → x ∉ q.other.map (·.1) := by
  intro ins
  induction ins with
  | nil => intro st x _ _ p hp; cases hp
  | cons i is ih =>
    intro st x hx hn p hp q hq
    simp only [run] at hp
    rcases List.mem_cons.mp hp with rfl | hp'
    · unfold step at hq
      split at hq
      · simp at hq; subst hq
        simpa [List.map_map, Function.comp_def] using hx
      · cases hq
    · exact ih _ x (known_only_grows_by_arrivals c st i.newP i.hasResults i.complete x hx (hn i (by simp)))
        (fun j hj => hn j (by simp [hj])) p hp' q hq

/-- **every call carries every known pipeline with its current completion flag** — in particular a pipeline that has completed since the last call
*is* reported complete at the next one (the "exactly once" of the property: `reported_complete_then_never_again` is the "at most once") -/
theorem every_known_pipeline_is_listed_with_its_flag (c : Cfg) (st : St) (newP : List Nat) (hr : Bool) (complete : Nat → Bool) (p : Payload)
    (h : (step c st newP hr complete).2 = some p) (x : Nat) (hx : x ∈ st.known) : (x, complete x) ∈ p.other := by
  unfold step at h
  split at h
  · simp at h; subst h
    exact List.mem_map.mpr ⟨x, hx, rfl⟩
  · cases h

/-- a pipeline stays known — through rounds without a call and through calls at which it is not complete — so it is listed again at every later call
until the call that reports it complete -/
theorem known_until_reported_complete (c : Cfg) (st : St) (newP : List Nat) (hr : Bool) (complete : Nat → Bool) (x : Nat)
    (hx : x ∈ st.known) (hc : complete x = false) : x ∈ (step c st newP hr complete).1.known := by
  unfold step
  split
  · simp only
    exact List.mem_filter.mpr ⟨List.mem_append_left _ hx, by simp [hc]⟩
  · exact hx

/-- a pipeline that arrives (and is not complete on arrival) is known from then on -/
theorem arrivals_become_known (c : Cfg) (st : St) (newP : List Nat) (hr : Bool) (complete : Nat → Bool) (x : Nat)
    (hx : x ∈ newP) (hc : complete x = false) : x ∈ (step c st newP hr complete).1.known := by
  unfold step
  have hm : mustCall c st newP hr = true := by
    unfold mustCall
    have : newP.isEmpty = false := by cases newP with | nil => cases hx | cons a l => rfl
    simp [this]
  simp only [hm, ↓reduceIte]
  apply List.mem_filter.mpr
  refine ⟨?_, by simp [hc]⟩
  by_cases hk : x ∈ st.known
  · exact List.mem_append_left _ hk
  · exact List.mem_append_right _ (List.mem_filter.mpr ⟨hx, by simpa using hk⟩)

/-- **the decisions in the reply are executed exactly as given**: decoding does not alter an assignment whose operators are registered,
and refuses one that names an unknown operator -/
theorem decode_is_identity_or_refusal (registered : List Nat) (m : AsgMsg) :
    decodeAsg registered m = some m ∨ (decodeAsg registered m = none ∧ ∃ o ∈ m.opIds, o ∉ registered) := by
  unfold decodeAsg
  cases h : m.opIds.all (registered.contains ·)
  · right
    refine ⟨by simp, ?_⟩
    rw [List.all_eq_false] at h
    obtain ⟨o, ho, hn⟩ := h
    exact ⟨o, ho, by simpa using hn⟩
  · left; simp

/-! ### exactly once, over a whole run -/

theorem run_append (c : Cfg) : ∀ (a b : List In) (st : St), run c st (a ++ b) = run c st a ++ run c (finalSt c st a) b := by
  intro a
  induction a with
  | nil => intro b st; rfl
  | cons i is ih => intro b st; simp only [List.cons_append, run, finalSt, ih]

theorem run_length (c : Cfg) : ∀ (l : List In) (st : St), (run c st l).length = l.length := by
  intro l
  induction l with
  | nil => intro st; rfl
  | cons i is ih => intro st; simp only [run, List.length_cons, ih]

/-- a known pipeline that is not complete stays known, and no payload on the way lists it as complete -/
theorem known_while_incomplete (c : Cfg) : ∀ (pre : List In) (st : St) (x : Nat), x ∈ st.known → (∀ i ∈ pre, i.complete x = false) →
    x ∈ (finalSt c st pre).known ∧ ∀ p ∈ run c st pre, ∀ q, p = some q → (x, true) ∉ q.other := by
  intro pre
  induction pre with
  | nil => intro st x hx _; exact ⟨hx, fun p hp => by cases hp⟩
  | cons i is ih =>
    intro st x hx hc
    have hci := hc i (by simp)
    obtain ⟨i1, i2⟩ := ih _ x (known_until_reported_complete c st i.newP i.hasResults i.complete x hx hci) (fun j hj => hc j (by simp [hj]))
    refine ⟨i1, fun p hp q hq => ?_⟩
    simp only [run] at hp
    rcases List.mem_cons.mp hp with rfl | hp'
    · intro hin
      unfold step at hq
      split at hq
      · simp at hq; subst hq
        obtain ⟨y, _, e⟩ := List.mem_map.mp hin
        simp only [Prod.mk.injEq] at e
        rw [e.1] at e
        rw [hci] at e
        exact absurd e.2 (by simp)
      · cases hq
    · exact i2 p hp' q hq

/-- **a pipeline that completes is reported as complete exactly once.**  Take any run of the bridge in which the known pipeline `x` is incomplete during the
rounds `pre`, is complete from round `j` on, in which round the executor also returned a result (it always does when a pipeline completes:
`C06.completion_comes_with_a_success_result_in_the_same_tick`), and does not arrive again.  Then no call before round `j` lists `x` as complete, round `j` makes a
call and that call lists `x` as complete, and no call after round `j` mentions `x` at all. -/
theorem completed_pipeline_is_reported_complete_exactly_once (c : Cfg) (st : St) (x : Nat) (pre post : List In) (j : In)
    (hx : x ∈ st.known) (hpre : ∀ i ∈ pre, i.complete x = false) (hj : j.complete x = true) (hres : j.hasResults = true)
    (hpost : ∀ i ∈ post, x ∉ i.newP) :
    ∃ before q after, run c st (pre ++ j :: post) = before ++ some q :: after ∧ before.length = pre.length ∧
      (∀ p ∈ before, ∀ q', p = some q' → (x, true) ∉ q'.other) ∧ (x, true) ∈ q.other ∧
      (∀ p ∈ after, ∀ q', p = some q' → x ∉ q'.other.map (·.1)) := by
  obtain ⟨k1, k2⟩ := known_while_incomplete c pre st x hx hpre
  have hcall : mustCall c (finalSt c st pre) j.newP j.hasResults = true := by
    unfold mustCall; simp [hres]
  have hstep : (step c (finalSt c st pre) j.newP j.hasResults j.complete).2 =
      some { tick := (finalSt c st pre).tick + 1, newP := j.newP, other := (finalSt c st pre).known.map (fun p => (p, j.complete p)) } := by
    unfold step; simp only [hcall, ↓reduceIte]
  refine ⟨run c st pre, { tick := (finalSt c st pre).tick + 1, newP := j.newP, other := (finalSt c st pre).known.map (fun p => (p, j.complete p)) },
    run c (step c (finalSt c st pre) j.newP j.hasResults j.complete).1 post, ?_, ?_, k2, ?_, ?_⟩
  · rw [run_append]
    simp only [run]
    rw [hstep]
  · exact run_length c pre st
  · exact List.mem_map.mpr ⟨x, k1, by rw [hj]⟩
  · apply reported_complete_then_never_again c post _ x _ hpost
    intro hin
    have := complete_dropped_after_call c (finalSt c st pre) j.newP j.hasResults j.complete _ hstep x hin
    rw [hj] at this; cases this

example : (run { tps := 10, pollNum := 1, pollDen := 1 } {} [⟨[1, 2], false, fun _ => false⟩, ⟨[], false, fun _ => false⟩,
    ⟨[], true, fun p => p == 1⟩, ⟨[], false, fun p => p == 1⟩]).map (fun o => o.map (fun p => (p.tick, p.newP, p.other))) =
    [some (1, [1, 2], []), none, some (3, [], [(1, true), (2, false)]), none] := by decide

end Eudoxia.C19
