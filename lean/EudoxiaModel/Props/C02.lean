import EudoxiaModel.Proofs.Reach
import EudoxiaModel.Proofs.Counts
/-! # C02 — operator lifecycle follows the documented state machine; completion is final -/
namespace Eudoxia.C02
open Eudoxia Extracted OpState

/-- **C02.1.**  The transition table read from the source (`VALID_TRANSITIONS`, regenerated on every run)
is exactly the documented one: PENDING→ASSIGNED→RUNNING→COMPLETED with FAILED (from ASSIGNED or RUNNING,
back to ASSIGNED) and SUSPENDING (from ASSIGNED, back to PENDING) as the only detours. -/
theorem transition_table_documented :
    validNext pending = [assigned] ∧
    validNext assigned = [running, suspending, failed] ∧
    validNext running = [completed, failed] ∧
    validNext suspending = [pending] ∧
    validNext completed = [] ∧
    validNext failed = [assigned] ∧
    assignable = [pending, failed] := by decide

/-- **C02.2a.**  An accepted state change is an arrow of the table (and for RUNNING the parents are completed);
the new table differs from the old one exactly at that operator. -/
theorem accepted_is_valid {s s' : Store} {r : Nat} {t : OpState} (h : s.transition r t = .ok s') :
    t ∈ validNext (s.stOf r) ∧ (t = running → ∀ p ∈ s.parentsOf r, s.stOf p = completed) ∧
    s'.stOf r = t ∧ ∀ r', r' ≠ r → s'.stOf r' = s.stOf r' := by
  obtain ⟨h1, h2, _, hb⟩ := transition_ok h
  exact ⟨h1, h2, transition_self h hb, fun r' hne => transition_other h (Ne.symm hne)⟩

/-- **C02.2b.**  Any request that is not an arrow of the table is refused. (A refusal is the value
`Except.error _`, which carries no new table: states and counts are unchanged by construction; that the
*implementation* leaves them unchanged is what the correspondence check observes.) -/
theorem invalid_is_refused (s : Store) (r : Nat) (t : OpState) (h : t ∉ validNext (s.stOf r)) :
    ∃ e, s.transition r t = .error e := by
  cases hres : s.transition r t with
  | error e => exact ⟨e, rfl⟩
  | ok s' => exact absurd (transition_ok hres).1 h

/-- **C02.3.**  The per-state counts are the histogram of the operator states, in every world reachable
under arbitrary commands. -/
theorem counts_are_histogram {w0 w : World} (h0 : CountsInv w0.store) (h : Reach w0 w) (pid : Nat) (x : OpState) :
    w.store.count pid x = w.store.hist pid x :=
  (countsInv_steps h.steps h0).ok pid x

/-- **C02.4a.**  A completed operator never changes state again, whatever commands follow. -/
theorem completed_is_final {w w' : World} (h : Reach w w') (r : Nat) (hc : w.store.stOf r = completed) :
    w'.store.stOf r = completed :=
  completed_final h.steps r hc

theorem assignOps_none_completed : ∀ (l : List Nat) (s s' : Store), assignOps s l = .ok s' →
    ∀ r ∈ l, s.stOf r ≠ completed := by
  intro l
  induction l with
  | nil => intro _ _ _ r hr; cases hr
  | cons x xs ih =>
    intro s s' h r hr
    unfold assignOps at h
    split at h
    · cases h
    · rename_i s1 hs1
      rcases List.mem_cons.mp hr with rfl | hr'
      · intro hc
        have := (transition_ok hs1).1
        rw [hc] at this
        have hnone : validNext completed = [] := by decide
        rw [hnone] at this; cases this
      · intro hc
        exact ih _ _ h r hr' (completed_final_step hs1 hc)

/-- **C02.4b.**  A completed operator is never handed to a container again: building an `Assignment`
that contains it is refused. -/
theorem completed_never_reassigned (w : World) (a : Asg) (r : Nat) (hr : r ∈ a.ops)
    (hc : w.store.stOf r = completed) : ∃ e w', w.mkAssignment a = .error (e, w') := by
  cases h : w.mkAssignment a with
  | error e => exact ⟨e.1, e.2, rfl⟩
  | ok w' =>
    exfalso
    unfold World.mkAssignment at h
    split at h
    · cases h
    · split at h
      · cases h
      · split at h
        · cases h
        · split at h
          · cases h
          · rename_i hs
            exact assignOps_none_completed _ _ _ hs r hr hc

/-- non-vacuity: a two-operator chain in which the first operator is completed -/
example : (({ ops := #[⟨0, [], []⟩, ⟨0, [0], []⟩], st := #[completed, pending], cnt := #[1, 0, 0, 0, 1, 0] } : Store).stOf 0 = completed) := by
  decide

end Eudoxia.C02
