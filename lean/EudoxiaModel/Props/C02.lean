import EudoxiaModel.Proofs.Reach
import EudoxiaModel.Proofs.Counts
import EudoxiaModel.Proofs.Live
import EudoxiaModel.Proofs.Built
import EudoxiaModel.Proofs.WorldLive
import EudoxiaModel.Proofs.FreshWorlds
/-! # C02 — operator lifecycle follows the documented state machine; completion is final -/
namespace Eudoxia.C02
open Eudoxia Extracted OpState

/-- **C02.1.**  The transition table read from the source (`VALID_TRANSITIONS`, regenerated on every run)
is exactly the documented one: PENDING→ASSIGNED→RUNNING→COMPLETED with FAILED (from ASSIGNED or RUNNING,
back to ASSIGNED) and SUSPENDING (from ASSIGNED, back to PENDING) as the only detours. -/
theorem transition_table_documented :
    validNext pending = [assigned] ∧
    validNext assigned = [running, suspending, failed] ∧
    validNext running = [completed, failed] ∧
    validNext suspending = [pending] ∧
    validNext completed = [] ∧
    validNext failed = [assigned] ∧
    assignable = [pending, failed] := by decide

/-- **C02.2a.**  An accepted state change is an arrow of the table (and for RUNNING the parents are completed);
the new table differs from the old one exactly at that operator. -/
theorem accepted_is_valid {s s' : Store} {r : Nat} {t : OpState} (h : s.transition r t = .ok s') :
    t ∈ validNext (s.stOf r) ∧ (t = running → ∀ p ∈ s.parentsOf r, s.stOf p = completed) ∧
    s'.stOf r = t ∧ ∀ r', r' ≠ r → s'.stOf r' = s.stOf r' := by
  obtain ⟨h1, h2, _, hb⟩ := transition_ok h
  exact ⟨h1, h2, transition_self h hb, fun r' hne => transition_other h (Ne.symm hne)⟩

/-- **C02.2b.**  Any request that is not an arrow of the table is refused. (A refusal is the value
`Except.error _`, which carries no new table: states and counts are unchanged by construction; that the
*implementation* leaves them unchanged is what the correspondence check observes.) -/
theorem invalid_is_refused (s : Store) (r : Nat) (t : OpState) (h : t ∉ validNext (s.stOf r)) :
    ∃ e, s.transition r t = .error e := by
  cases hres : s.transition r t with
  | error e => exact ⟨e, rfl⟩
  | ok s' => exact absurd (transition_ok hres).1 h

/-- **C02.3.**  The per-state counts are the histogram of the operator states, in every world reachable
under arbitrary commands. -/
theorem counts_are_histogram {w0 w : World} (h0 : CountsInv w0.store) (h : Reach w0 w) (pid : Nat) (x : OpState) :
    w.store.count pid x = w.store.hist pid x :=
  (countsInv_steps h.steps h0).ok pid x

/-- **C02.4a.**  A completed operator never changes state again, whatever commands follow. -/
theorem completed_is_final {w w' : World} (h : Reach w w') (r : Nat) (hc : w.store.stOf r = completed) :
    w'.store.stOf r = completed :=
  completed_final h.steps r hc

theorem assignOps_none_completed : ∀ (l : List Nat) (s s' : Store), assignOps s l = .ok s' →
    ∀ r ∈ l, s.stOf r ≠ completed := by
  intro l
  induction l with
  | nil => intro _ _ _ r hr; cases hr
  | cons x xs ih =>
    intro s s' h r hr
    unfold assignOps at h
    split at h
    · cases h
    · rename_i s1 hs1
      rcases List.mem_cons.mp hr with rfl | hr'
      · intro hc
        have := (transition_ok hs1).1
        rw [hc] at this
        have hnone : validNext completed = [] := by decide
        rw [hnone] at this; cases this
      · intro hc
        exact ih _ _ h r hr' (completed_final_step hs1 hc)

/-- **C02.4b.**  A completed operator is never handed to a container again: building an `Assignment`
that contains it is refused. -/
theorem completed_never_reassigned (w : World) (a : Asg) (r : Nat) (hr : r ∈ a.ops)
    (hc : w.store.stOf r = completed) : ∃ e w', w.mkAssignment a = .error (e, w') := by
  cases h : w.mkAssignment a with
  | error e => exact ⟨e.1, e.2, rfl⟩
  | ok w' =>
    exfalso
    unfold World.mkAssignment at h
    split at h
    · cases h
    · split at h
      · cases h
      · split at h
        · cases h
        · split at h
          · cases h
          · rename_i hs
            exact assignOps_none_completed _ _ _ hs r hr hc

/-- non-vacuity: a two-operator chain in which the first operator is completed -/
example : (({ ops := #[⟨0, [], []⟩, ⟨0, [0], []⟩], st := #[completed, pending], cnt := #[1, 0, 0, 0, 1, 0] } : Store).stOf 0 = completed) := by
  decide


/-! ### one live container per operator -/

/-- the ownership invariant of a world at a tick boundary: every pool is well-formed, the operators of the unfinished suffixes of all live
(running or suspending) containers of all pools are pairwise distinct, and each of them is ASSIGNED, RUNNING or SUSPENDING -/
structure WorldLive (w : World) : Prop where
  pools : ∀ p ∈ w.pools, PoolGoodMem w.cfg p w.nextCid ∧ PoolLive w.cfg w.store p
  nd : (w.pools.flatMap ownP).Nodup

/-- **C02 — an operator is in at most one live container.**  If the invariant holds, the scheduler then builds any chain of accepted
`Assignment`s (of operators that have segments), and the executor tick that is handed exactly those assignments (and any suspensions) succeeds,
then the invariant holds again.  In particular the list of all operators in the unfinished suffixes of all live containers has no duplicates
(`WorldLive.nd`), and every one of them is ASSIGNED, RUNNING or SUSPENDING (`PoolLive.busy`). -/
theorem tick_keeps_one_live_container_per_operator (w0 w1 w2 : World) (asgs : List Asg) (sus : List (Nat × Nat)) (res : List Res)
    (hl : WorldLive w0) (hb : Built w0 asgs w1) (hseg : ∀ a ∈ asgs, ∀ r ∈ a.ops, w0.store.segsOf r ≠ [])
    (h : w1.execTick sus asgs = .ok (w2, res)) : WorldLive w2 := by
  obtain ⟨b1, _, b3, b4⟩ := built_spec hb
  have hsame := built_frame hb
  obtain ⟨e1, e2, e3, est⟩ := hsame
  have hsegs : ∀ r, w1.store.segsOf r = w0.store.segsOf r := by
    intro r; unfold Store.segsOf; rw [est.ops]
  -- owned operators are busy, so the chain did not touch them
  have howned : ∀ p ∈ w0.pools, ∀ o ∈ ownP p, Busy (w0.store.stOf o) ∧ o ∉ asgs.flatMap (·.ops) := by
    intro p hp o ho
    obtain ⟨_, lp⟩ := hl.pools p hp
    simp only [ownP, own] at ho
    obtain ⟨c, hc, hoc⟩ := List.mem_flatMap.mp ho
    obtain ⟨hc1, hc2⟩ := List.mem_filter.mp hc
    have hbusy := lp.busy c hc1 (by simpa using hc2) o hoc
    refine ⟨hbusy, fun hx => ?_⟩
    have := (b3 o hx).1
    rcases hbusy with e | e | e <;> (rw [e] at this; simp [assignable] at this)
  unfold World.execTick at h
  split at h
  · cases h
  · split at h
    · cases h
    · cases h
    · rename_i s ps n r hex
      simp only [Except.ok.injEq, Prod.mk.injEq] at h
      obtain ⟨rfl, _⟩ := h
      have hJ : PoolsLive w1.cfg asgs w1.store w1.nextCid [] w1.pools := by
        refine ⟨?_, ?_, ?_⟩
        · intro p hp
          simp only [List.nil_append] at hp
          rw [e1] at hp
          obtain ⟨gp, lp⟩ := hl.pools p hp
          rw [e2, e3]
          exact ⟨gp, poolLive_frame lp (fun o ho => b4 o (howned p hp o ho).2)⟩
        · simp only [List.nil_append, List.length_nil, pendFor_zero, opsOf]
          rw [e1]
          refine List.nodup_append.mpr ⟨hl.nd, b1, ?_⟩
          intro a ha b hb' e
          subst e
          obtain ⟨p, hp, hop⟩ := List.mem_flatMap.mp ha
          exact (howned p hp a hop).2 hb'
        · simp only [List.length_nil, pendFor_zero]
          intro a ha
          refine ⟨?_, fun r hr => ⟨by rw [hsegs]; exact hseg a ha r hr, (b3 r (List.mem_flatMap.mpr ⟨a, ha, hr⟩)).2⟩⟩
          have := ops_sublist_flatMap asgs a ha
          exact this.nodup b1
      have hfin := execPools_live _ sus asgs _ _ _ _ _ _ _ _ _ hJ hex
      refine ⟨?_, ?_⟩
      · intro p hp
        have := hfin.pools p (by simpa using hp)
        exact this
      · have := hfin.nd
        simp only [List.append_nil] at this
        exact (List.nodup_append.mp this).1

/-- the invariant holds in a world that has not started anything yet (non-vacuity of the hypothesis above) -/
theorem fresh_world_live (cfg : Cfg) (store : Store) (caps : List (Nat × Nat)) :
    WorldLive { cfg := cfg, store := store, pools := caps.map (fun c => Pool.fresh c.1 c.2), pipes := #[] } := by
  refine ⟨?_, ?_⟩
  · intro p hp
    simp only [List.mem_map] at hp
    obtain ⟨c, _, rfl⟩ := hp
    refine ⟨⟨⟨poolInv_fresh _ _ _, ?_⟩, memOK_fresh _ _⟩, ⟨by simp [Pool.fresh], by simp [Pool.fresh], by simp [ownP, own, Pool.fresh], by intro c hc; simp [Pool.fresh] at hc⟩⟩
    simp [Pool.NonNeg, Pool.fresh]
  · have : ∀ (l : List (Nat × Nat)), (l.map (fun c => Pool.fresh c.1 c.2)).flatMap ownP = [] := by
      intro l; induction l with
      | nil => rfl
      | cons x xs ih => simp only [List.map_cons, List.flatMap_cons, ih]; simp [ownP, own, Pool.fresh]
    simp only [this]
    exact List.nodup_nil

/-! ### full simulations under the shipped schedulers

The ownership invariant is part of `WorldReady`, which the whole-run theorems of C08 / C18 carry through every tick of every run (`arrivals` is any list of
arrival batches, one per tick: the world after the run is the world at an arbitrary tick boundary). -/

/-- what `WorldReady` says about ownership: the unfinished operators of all running and suspending containers of all pools are pairwise distinct (no operator
is held by two live containers), and each of them is ASSIGNED, RUNNING or SUSPENDING -/
theorem ready_world_one_live_container_per_operator {w : World} (hr : WorldReady w) :
    (w.pools.flatMap ownP).Nodup ∧
    ∀ p ∈ w.pools, ∀ c ∈ p.active ++ p.suspending, c.completed = false ∧
      ∀ o ∈ c.unfinished, w.store.stOf o = OpState.assigned ∨ w.store.stOf o = OpState.running ∨ w.store.stOf o = OpState.suspending := by
  refine ⟨hr.nd, fun p hp c hc => ?_⟩
  have l := (hr.pools p hp).2.1
  exact ⟨l.nc c hc, fun o ho => l.busy c hc (l.nc c hc) o ho⟩

/-- **`priority` with multi-operator containers** (pre-emption, write-outs, re-queued work): on every tick of every run from a fresh world no operator is
in two live containers -/
theorem one_live_container_per_operator_on_every_tick_of_every_priority_run (cfg : Cfg) (store : Store) (pipes : Array PipeInfo) (caps : List (Nat × Nat))
    (arrivals : List (List Nat)) (hm : cfg.multiOp = true) (ho : cfg.overcommit = false) (hq : 0 < cfg.q)
    (wf : (freshWorld cfg store pipes caps).WFP) (hs : (freshWorld cfg store pipes caps).SegsOK) (hp : (freshWorld cfg store pipes caps).PidOK)
    (ht : (freshWorld cfg store pipes caps).Topo) (hF : arrivals.flatten.Nodup)
    (hfut : ∀ pid ∈ arrivals.flatten, (pipes.getD pid default).order ≠ [] ∧ ∀ o ∈ (pipes.getD pid default).order, store.stOf o = OpState.pending) :
    ∃ w' st' res', Prio.loop (freshWorld cfg store pipes caps) {} [] arrivals = .ok (w', st', res') ∧ (w'.pools.flatMap ownP).Nodup ∧
      ∀ p ∈ w'.pools, ∀ c ∈ p.active ++ p.suspending, c.completed = false ∧
        ∀ o ∈ c.unfinished, w'.store.stOf o = OpState.assigned ∨ w'.store.stOf o = OpState.running ∨ w'.store.stOf o = OpState.suspending := by
  obtain ⟨w', st', cs', js', h, inv⟩ := PM.run_never_raises arrivals _ {} [] [] (PM.fresh_inv cfg store pipes caps _ hm ho hq wf hs hp ht hF hfut)
  exact ⟨w', st', _, h, ready_world_one_live_container_per_operator inv.ready⟩

/-- **`priority-pool` with multi-operator containers** -/
theorem one_live_container_per_operator_on_every_tick_of_every_priority_pool_run (cfg : Cfg) (store : Store) (pipes : Array PipeInfo) (c0 c1 : Nat × Nat)
    (arrivals : List (List Nat)) (hm : cfg.multiOp = true) (hq : 0 < cfg.q) (h0 : 0 < c0.1 ∧ 0 < c0.2) (h1 : 0 < c1.1 ∧ 0 < c1.2)
    (wf : (freshWorld cfg store pipes [c0, c1]).WFP) (hs : (freshWorld cfg store pipes [c0, c1]).SegsOK) (hp : (freshWorld cfg store pipes [c0, c1]).PidOK)
    (ht : (freshWorld cfg store pipes [c0, c1]).Topo) (hF : arrivals.flatten.Nodup)
    (hfut : ∀ pid ∈ arrivals.flatten, (pipes.getD pid default).order ≠ [] ∧ ∀ o ∈ (pipes.getD pid default).order, store.stOf o = OpState.pending) :
    ∃ w' st' res', PP.loop (freshWorld cfg store pipes [c0, c1]) {} [] arrivals = .ok (w', st', res') ∧ (w'.pools.flatMap ownP).Nodup ∧
      ∀ p ∈ w'.pools, ∀ c ∈ p.active ++ p.suspending, c.completed = false ∧
        ∀ o ∈ c.unfinished, w'.store.stOf o = OpState.assigned ∨ w'.store.stOf o = OpState.running ∨ w'.store.stOf o = OpState.suspending := by
  obtain ⟨w', st', cs', h, inv⟩ := PP.run_never_raises arrivals _ {} [] (PP.fresh_inv cfg store pipes c0 c1 _ hm hq h0 h1 wf hs hp ht hF hfut)
  exact ⟨w', st', _, h, ready_world_one_live_container_per_operator inv.ready⟩

/-- **`overbook`** -/
theorem one_live_container_per_operator_on_every_tick_of_every_overbook_run (cfg : Cfg) (store : Store) (pipes : Array PipeInfo) (caps : List (Nat × Nat))
    (arrivals : List (List Nat)) (ho : cfg.overcommit = true) (hc : ∀ c ∈ caps, 0 < c.2)
    (wf : (freshWorld cfg store pipes caps).WFP) (hs : (freshWorld cfg store pipes caps).SegsOK) :
    ∃ w' st' res', Overbook.loop (freshWorld cfg store pipes caps) {} [] arrivals = .ok (w', st', res') ∧ (w'.pools.flatMap ownP).Nodup ∧
      ∀ p ∈ w'.pools, ∀ c ∈ p.active ++ p.suspending, c.completed = false ∧
        ∀ o ∈ c.unfinished, w'.store.stOf o = OpState.assigned ∨ w'.store.stOf o = OpState.running ∨ w'.store.stOf o = OpState.suspending := by
  obtain ⟨w', st', res', h, inv⟩ := Overbook.run_never_raises arrivals _ {} [] (Overbook.fresh_inv cfg store pipes caps ho hc wf hs)
  exact ⟨w', st', res', h, ready_world_one_live_container_per_operator inv.ready⟩

/-- **`priority` with single-operator containers** -/
theorem one_live_container_per_operator_on_every_tick_of_every_priority_single_operator_run (cfg : Cfg) (store : Store) (pipes : Array PipeInfo)
    (caps : List (Nat × Nat)) (arrivals : List (List Nat)) (hm : cfg.multiOp = false) (ho : cfg.overcommit = false) (hq : 0 < cfg.q)
    (wf : (freshWorld cfg store pipes caps).WFP) (hs : (freshWorld cfg store pipes caps).SegsOK) (hp : (freshWorld cfg store pipes caps).PidOK)
    (hn : ∀ newP ∈ arrivals, newP.Nodup) :
    ∃ w' st' res', Prio.loop (freshWorld cfg store pipes caps) {} [] arrivals = .ok (w', st', res') ∧ (w'.pools.flatMap ownP).Nodup ∧
      ∀ p ∈ w'.pools, ∀ c ∈ p.active ++ p.suspending, c.completed = false ∧
        ∀ o ∈ c.unfinished, w'.store.stOf o = OpState.assigned ∨ w'.store.stOf o = OpState.running ∨ w'.store.stOf o = OpState.suspending := by
  obtain ⟨w', st', res', h, inv⟩ := Prio.run_single_never_raises arrivals _ {} [] hn (Prio.fresh_inv_single cfg store pipes caps hm ho hq wf hs hp)
  exact ⟨w', st', res', h, ready_world_one_live_container_per_operator inv.ready⟩

end Eudoxia.C02
