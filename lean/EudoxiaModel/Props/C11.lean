import EudoxiaModel.Proofs.Oom
/-! # C11 — pool-level OOM kills take highest scorers first and stop once usage fits

`cands` are the containers the pool-level step may choose from (not finished in this tick, using memory,
not already killed for exceeding their own limit); they are killed in the order `sortDesc cands`
(descending usage²/allocation, stable) while the pool's usage exceeds its capacity. -/
namespace Eudoxia.C11
open Eudoxia

/-- the kill order is the candidates sorted by descending score: a permutation of them, pairwise ordered
(allocations are positive — `Assignment` refuses anything else) -/
theorem kill_order_is_descending_score (cands : List Ctr) (hpos : ∀ c ∈ cands, 0 < c.ram) :
    (sortDesc cands).Perm cands ∧ (sortDesc cands).Pairwise (fun a b => scoreGe a b = true) :=
  ⟨SortP.sortDesc_perm scoreGe cands,
   SortP.sortDesc_sorted_on scoreGe (fun c => 0 < c.ram) scoreGe_total (fun a b c hb => scoreGe_trans a b c hb) cands hpos⟩

/-- **no container is killed while one with a strictly higher score survives**: every victim scores at least as high as every
candidate that survives the tick -/
theorem no_higher_scorer_survives (cands : List Ctr) (hpos : ∀ c ∈ cands, 0 < c.ram) (capR : Nat) (usage : Int) (v s : Ctr)
    (hv : v ∈ (sortDesc cands).take (nVictims capR usage (sortDesc cands)))
    (hs : s ∈ (sortDesc cands).drop (nVictims capR usage (sortDesc cands))) : scoreGe v s = true := by
  have hsorted := (kill_order_is_descending_score cands hpos).2
  rw [← List.take_append_drop (nVictims capR usage (sortDesc cands)) (sortDesc cands)] at hsorted
  exact (List.pairwise_append.mp hsorted).2.2 v hv s hs

/-- **no kill happens that was not needed**: before each pool-level kill the usage exceeds the capacity -/
theorem every_kill_was_needed (capR : Nat) (order : List Ctr) (usage : Int) (j : Nat) (h : j < nVictims capR usage order) :
    usage - memSum (order.take j) > capR := kills_are_needed capR order usage j h

/-- **killing stops as soon as the remaining usage fits into the pool** (or nobody is left to kill) -/
theorem killing_stops_when_usage_fits (capR : Nat) (order : List Ctr) (usage : Int) :
    nVictims capR usage order = order.length ∨ usage - memSum (order.take (nVictims capR usage order)) ≤ capR :=
  stops_once_usage_fits capR order usage

/-- the executable killer does exactly that: it marks as killed the first `nVictims` containers of the order it is given,
and lowers the pool's usage counter by their memory -/
theorem killer_kills_exactly_the_prefix (capR : Nat) (order : List Ctr) (w : Store) (act : List Ctr) (usage : Int)
    (w' : Store) (act' : List Ctr) (usage' : Int) (h : killVictims w capR act usage order = .ok (w', act', usage')) :
    usage' = usage - memSum (order.take (nVictims capR usage order)) ∧
    ∀ u, (findCtr act u.cid).isSome →
      killedIn act' u = (killedIn act u || ((order.take (nVictims capR usage order)).map (·.cid)).contains u.cid) :=
  ⟨killVictims_usage capR order w act usage w' act' usage' h, killVictims_marks capR order w act usage w' act' usage' h⟩

/-- **containers that finished in this tick or use no memory are never chosen** -/
theorem finished_or_idle_never_chosen (act : List Ctr) (v : Ctr) (hv : v ∈ sortDesc (oomCandidates act)) :
    v.completed = false ∧ 0 < v.mem := by
  have := (List.mem_filter.mp (mem_sortDesc hv)).2
  simpa using this

/-- **the pool's OOM step as a whole** (`ResourcePool._run_out_of_memory_killer`, the function the pool tick calls): first every container above its
own allocation is killed; if the pool's usage then fits its capacity nothing else happens; otherwise the candidates — the containers that, after those
kills, are unfinished and hold memory — are taken in descending score order, and exactly the first `k` of them are killed, where `k` is the least number
after which the usage fits (or all of them): the usage reported afterwards is the usage minus what those `k` held, every one of them was needed, no
candidate that survives scores strictly higher than one that was killed, and no other container's kill flag changes. -/
theorem pool_oom_step_kills_highest_scorers_until_usage_fits (w w' : Store) (p p' : Pool) (hpos : ∀ c ∈ p.active, 0 < c.ram)
    (h : oomKiller w p = .ok (w', p')) :
    ∃ w1 act1 cons1, killIndividual w p.active p.consumed = .ok (w1, act1, cons1) ∧
      (cons1 ≤ p.capR → p'.active = act1 ∧ p'.consumed = cons1 ∧ w' = w1) ∧
      (¬ cons1 ≤ p.capR →
        let order := sortDesc (oomCandidates act1)
        let k := nVictims p.capR cons1 order
        order.Perm (oomCandidates act1) ∧
        p'.consumed = cons1 - memSum (order.take k) ∧
        (k = order.length ∨ p'.consumed ≤ p.capR) ∧
        (∀ j, j < k → cons1 - memSum (order.take j) > p.capR) ∧
        (∀ v ∈ order.take k, ∀ s ∈ order.drop k, scoreGe v s = true) ∧
        (∀ u, (findCtr act1 u.cid).isSome → killedIn p'.active u = (killedIn act1 u || ((order.take k).map (·.cid)).contains u.cid))) := by
  unfold oomKiller at h
  simp only at h
  split at h
  · cases h
  · rename_i w1 act1 cons1 hk
    refine ⟨w1, act1, cons1, hk, ?_, ?_⟩
    · intro hle
      rw [if_pos hle] at h
      simp only [Except.ok.injEq, Prod.mk.injEq] at h
      obtain ⟨rfl, rfl⟩ := h
      exact ⟨rfl, rfl, rfl⟩
    · intro hgt
      rw [if_neg hgt] at h
      split at h
      · cases h
      · rename_i w2 act2 cons2 hv
        simp only [Except.ok.injEq, Prod.mk.injEq] at h
        obtain ⟨rfl, rfl⟩ := h
        have hpos1 : ∀ c ∈ oomCandidates act1, 0 < c.ram := by
          intro c hc
          have hc1 : c ∈ act1 := (List.mem_filter.mp hc).1
          have hkeys := killIndividual_keys p.active w p.consumed w1 act1 cons1 hk
          have : key c ∈ p.active.map key := by rw [← hkeys]; exact List.mem_map.mpr ⟨c, hc1, rfl⟩
          obtain ⟨c0, hc0, e⟩ := List.mem_map.mp this
          have : c0.ram = c.ram := by simp only [key, Prod.mk.injEq] at e; exact e.2.2
          rw [← this]; exact hpos c0 hc0
        have husage := killVictims_usage p.capR _ w1 act1 cons1 w2 act2 cons2 hv
        refine ⟨(kill_order_is_descending_score _ hpos1).1, husage, ?_, ?_, ?_, ?_⟩
        · rcases killing_stops_when_usage_fits p.capR (sortDesc (oomCandidates act1)) cons1 with h1 | h1
          · exact Or.inl h1
          · exact Or.inr (by simp only; rw [husage]; exact h1)
        · intro j hj; exact every_kill_was_needed p.capR _ cons1 j hj
        · intro v hv' s hs; exact no_higher_scorer_survives _ hpos1 p.capR cons1 v s hv' hs
        · exact killVictims_marks p.capR _ w1 act1 cons1 w2 act2 cons2 hv

/-- non-vacuity: three containers on a pool of capacity 100 using 60+50+30: the highest scorer alone is killed -/
example :
    let a : Ctr := { cid := 0, ops := [0], cpu := 1, ram := 100, mem := 60, pos := { ops := [] } }
    let b : Ctr := { cid := 1, ops := [1], cpu := 1, ram := 50, mem := 50, pos := { ops := [] } }
    let c : Ctr := { cid := 2, ops := [2], cpu := 1, ram := 200, mem := 30, pos := { ops := [] } }
    (sortDesc (oomCandidates [a, b, c])).map (·.cid) = [1, 0, 2] ∧ nVictims 100 140 (sortDesc (oomCandidates [a, b, c])) = 1 := by
  decide

end Eudoxia.C11
