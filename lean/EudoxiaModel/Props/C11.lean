import EudoxiaModel.Proofs.Reach
namespace Eudoxia.C11
theorem placeholder : True := trivial
end Eudoxia.C11
