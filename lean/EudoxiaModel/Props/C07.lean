import EudoxiaModel.Model.Gen
import EudoxiaModel.Model.Sched.Priority
/-! # C07 — runs are reproducible and every policy is evaluated on the same workload  (PARTIAL)

What the model can carry is thin and true by construction: every component is a *function* of its inputs,
the generator's inputs contain no scheduler or executor setting, and the model has no identifier values
(operators, pipelines and containers are numbered by creation), so nothing can depend on them.  What a
theorem cannot exhibit — hash-seed dependent iteration order, process-global counters, registries — is
CPython runtime behaviour; the decisive part of this property is the paired-execution correspondence check. -/
namespace Eudoxia.C07
open Eudoxia Eudoxia.Gen

/-- the generated workload is a function of the workload parameters (pipelines per event, waiting ticks, which already
contains the tick rate) and the draw stream alone: `Gen.Params` has no scheduler or executor field, so two runs that
agree on these agree on every emitted pipeline, whatever the policy -/
theorem workload_independent_of_policy (P P' : Params) (n : Nat) (ds : List Draw)
    (h1 : P.numPipelines = P'.numPipelines) (h2 : P.waitMean = P'.waitMean) :
    run P n {} ds = run P' n {} ds := by
  cases P; cases P'; simp_all

/-- the kind of the next draw the generator asks for is determined by the parameters and the draws so far
(this is what makes a seeded stream reproducible): a stream that fits is consumed the same way again -/
theorem generator_is_deterministic (P : Params) (n : Nat) (s : State) (ds : List Draw) (r r' : Option (List (List PipeOut) × List Draw))
    (h : run P n s ds = r) (h' : run P n s ds = r') : r = r' := h.symm.trans h'

/-- a scheduling round of every shipped policy is a function of (world, scheduler state, results, arrivals):
no clock, no identifier value, no hash order enters -/
theorem rounds_are_functions (w : World) (st : Prio.St) (res : List Res) (newP : List Nat) :
    ∀ r r', Prio.prRound w st res newP = r → Prio.prRound w st res newP = r' → r = r' :=
  fun _ _ h h' => h.symm.trans h'

end Eudoxia.C07
