import EudoxiaModel.Model.Gen
/-! # C15 — the workload generator emits well-formed pipelines that follow its parameters

The generator is a function of the recorded draw stream; theorems hold for every stream.
Distributional clauses (averages, class frequencies) are about numpy and are sampled, not proved. -/
namespace Eudoxia.C15
open Eudoxia Eudoxia.Gen Extracted

/-- the prototype table read from the source is the documented one, ordered from I/O-heavy to CPU-heavy -/
theorem prototype_table_documented :
    protoTable = [
      ⟨none, some ⟨-1, 1⟩, ⟨1, 1⟩, .const, ⟨55, 1⟩⟩,
      ⟨some ⟨-1, 1⟩, some ⟨-1, 2⟩, ⟨2, 1⟩, .sqrt, ⟨55, 1⟩⟩,
      ⟨some ⟨-1, 2⟩, some ⟨0, 1⟩, ⟨5, 1⟩, .linear3, ⟨45, 1⟩⟩,
      ⟨some ⟨0, 1⟩, some ⟨1, 2⟩, ⟨15, 1⟩, .linear3, ⟨75, 2⟩⟩,
      ⟨some ⟨1, 2⟩, some ⟨1, 1⟩, ⟨20, 1⟩, .linear7, ⟨30, 1⟩⟩,
      ⟨some ⟨1, 1⟩, some ⟨3, 2⟩, ⟨40, 1⟩, .linear7, ⟨20, 1⟩⟩,
      ⟨some ⟨3, 2⟩, none, ⟨80, 1⟩, .squared, ⟨10, 1⟩⟩] ∧
    queryProto = ⟨none, none, ⟨15, 1⟩, .linear3, ⟨35, 1⟩⟩ ∧ notHeavyClamp = ⟨-1, 1⟩ := by
  refine ⟨rfl, rfl, rfl⟩

/-- the first operator of a chain is the most I/O-heavy prototype -/
theorem first_prototype_is_io_heavy : protoIdxChain protoTable ⟨-2, 1⟩ = some 0 := by decide

theorem laterOps_length : ∀ (n : Nat) (ds : List Draw) (is : List Nat) (r : List Draw), laterOps n ds = some (is, r) → is.length = n := by
  intro n
  induction n with
  | zero => intro ds is r h; simp [laterOps] at h; simp [h.1]
  | succ n ih =>
    intro ds is r h
    cases ds with
    | nil => simp [laterOps] at h
    | cons d ds =>
      cases d with
      | choice k => simp [laterOps] at h
      | normal v =>
        simp only [laterOps] at h
        split at h
        · rename_i i is' r' _ hl'
          simp at h; rw [← h.1]; simp [ih _ _ _ hl']
        · cases h

theorem genChain_shape (counter prio : Nat) (ds : List Draw) (p : PipeOut) (rest : List Draw)
    (h : genChain counter prio ds = some (p, rest)) :
    p.id = counter + 1 ∧ p.prio = prio ∧ ∃ v ds', ds = Draw.normal v :: ds' ∧
      p.protos.length = max 1 (opCount v) ∧ p.protos.head? = some 0 := by
  unfold genChain at h
  split at h
  · rename_i v ds'
    split at h
    · rename_i first later rest' hf hl
      simp at h; rw [← h.1]
      have hfirst : first = 0 := by
        have := first_prototype_is_io_heavy; rw [this] at hf; simpa using hf.symm
      have hl' := laterOps_length _ _ _ _ hl
      refine ⟨rfl, rfl, v, ds', rfl, ?_, by simp [hfirst]⟩
      simp only [List.length_cons, hl']
      have : 1 ≤ opCount v := by unfold opCount; split <;> omega
      omega
    · cases h
  · cases h

theorem genPipeline_id (counter : Nat) (ds : List Draw) (p : PipeOut) (rest : List Draw)
    (h : genPipeline counter ds = some (p, rest)) : p.id = counter + 1 := by
  unfold genPipeline at h
  split at h
  · split at h
    · simp at h; rw [← h.1]
    · exact (genChain_shape _ _ _ _ _ h).1
  · cases h

/-- an arrival event delivers exactly `n` pipelines with consecutive fresh ids -/
theorem exactly_n_pipelines_fresh_ids : ∀ (n counter : Nat) (ds : List Draw) (ps : List PipeOut) (rest : List Draw),
    genPipelines n counter ds = some (ps, rest) → ps.map (·.id) = (List.range n).map (fun i => counter + 1 + i) := by
  intro n
  induction n with
  | zero => intro c ds ps rest h; simp [genPipelines] at h; simp [h.1]
  | succ n ih =>
    intro c ds ps rest h
    unfold genPipelines at h
    split at h
    · cases h
    · rename_i p ds' hp
      split at h
      · cases h
      · rename_i ps' rest' hps
        simp at h
        have hid : p.id = c + 1 := (genPipeline_id _ _ _ _ hp)
        rw [← h.1]
        simp only [List.map_cons, hid, ih _ _ _ _ hps, List.range_succ_eq_map, List.map_map]
        simp [Function.comp_def]; intro a _; omega

/-- a query pipeline has exactly one operator (the query prototype); any other pipeline is a chain of
`max 1 ⌊draw⌋` operators whose first is the I/O-heavy prototype -/
theorem pipeline_shape (counter : Nat) (ds : List Draw) (p : PipeOut) (rest : List Draw)
    (h : genPipeline counter ds = some (p, rest)) :
    (p.prio = prioQuery → p.protos = [queryIdx]) ∧
    (p.prio ≠ prioQuery → ∃ k v ds', ds = Draw.choice k :: Draw.normal v :: ds' ∧
        p.protos.length = max 1 (opCount v) ∧ p.protos.head? = some 0 ∧ 1 ≤ p.protos.length) := by
  unfold genPipeline at h
  split at h
  · rename_i k ds0
    split at h
    · rename_i hq
      simp at h; rw [← h.1]
      exact ⟨fun _ => rfl, fun hne => absurd (by simpa using hq) hne⟩
    · rename_i hq
      obtain ⟨_, hprio, v, ds', rfl, hlen, hhead⟩ := genChain_shape _ _ _ _ _ h
      refine ⟨fun hp => absurd (hprio ▸ hp) (by simpa using hq), fun _ => ⟨k, v, ds', rfl, hlen, hhead, ?_⟩⟩
      rw [hlen]; omega
  · cases h

/-- gap between events: `⌊draw⌋`, or the mean when that is not positive -/
theorem gap_is_floor_or_mean (P : Params) (v : Q) :
    nextWait P v = (if Q.trunc v ≤ 0 then P.waitMean else (Q.trunc v).toNat) := rfl

/-- no event before the waiting time has passed: events are at least one tick apart -/
theorem no_event_while_waiting (P : Params) (s : State) (ds : List Draw) (h : s.sinceLast ≠ s.curWait) :
    tick P s ds = some ({ s with sinceLast := s.sinceLast + 1 }, [], ds) := by
  unfold tick; simp [h]

/-- on its whole domain the if-chain equals "number of thresholds at or below the value" -/
theorem chain_is_threshold_count (n : Int) (d : Nat) (hd : 0 < d) :
    protoIdxChain protoTable ⟨n, d⟩ = some (protoIdxCount protoTable ⟨n, d⟩) := by
  have hd' : (0 : Int) < d := by exact_mod_cast hd
  simp only [protoIdxChain, protoIdxChain.go, protoTable, protoIdxCount, thresholds, Q.le, Q.lt, List.filterMap_cons,
    List.filterMap_nil, List.filter_cons, List.filter_nil, Bool.and_eq_true, decide_eq_true_eq, Bool.true_and, Bool.and_true]
  by_cases c0 : n < -(d:Int)
  · have l0 : n < -(d:Int) := by omega
    have g0 : ¬ (-(d:Int) ≤ n) := by omega
    have l1 : n * 2 < -(d:Int) := by omega
    have g1 : ¬ (-(d:Int) ≤ n * 2) := by omega
    have l2 : n < 0 := by omega
    have g2 : ¬ (0 ≤ n) := by omega
    have l3 : n * 2 < (d:Int) := by omega
    have g3 : ¬ ((d:Int) ≤ n * 2) := by omega
    have l4 : n < (d:Int) := by omega
    have g4 : ¬ ((d:Int) ≤ n) := by omega
    have l5 : n * 2 < 3 * (d:Int) := by omega
    have g5 : ¬ (3 * (d:Int) ≤ n * 2) := by omega
    simp [l0, g0, l1, g1, l2, g2, l3, g3, l4, g4, l5, g5]
  · by_cases c1 : n * 2 < -(d:Int)
    · have l0 : ¬ (n < -(d:Int)) := by omega
      have g0 : -(d:Int) ≤ n := by omega
      have l1 : n * 2 < -(d:Int) := by omega
      have g1 : ¬ (-(d:Int) ≤ n * 2) := by omega
      have l2 : n < 0 := by omega
      have g2 : ¬ (0 ≤ n) := by omega
      have l3 : n * 2 < (d:Int) := by omega
      have g3 : ¬ ((d:Int) ≤ n * 2) := by omega
      have l4 : n < (d:Int) := by omega
      have g4 : ¬ ((d:Int) ≤ n) := by omega
      have l5 : n * 2 < 3 * (d:Int) := by omega
      have g5 : ¬ (3 * (d:Int) ≤ n * 2) := by omega
      simp [l0, g0, l1, g1, l2, g2, l3, g3, l4, g4, l5, g5]
    · by_cases c2 : n < 0
      · have l0 : ¬ (n < -(d:Int)) := by omega
        have g0 : -(d:Int) ≤ n := by omega
        have l1 : ¬ (n * 2 < -(d:Int)) := by omega
        have g1 : -(d:Int) ≤ n * 2 := by omega
        have l2 : n < 0 := by omega
        have g2 : ¬ (0 ≤ n) := by omega
        have l3 : n * 2 < (d:Int) := by omega
        have g3 : ¬ ((d:Int) ≤ n * 2) := by omega
        have l4 : n < (d:Int) := by omega
        have g4 : ¬ ((d:Int) ≤ n) := by omega
        have l5 : n * 2 < 3 * (d:Int) := by omega
        have g5 : ¬ (3 * (d:Int) ≤ n * 2) := by omega
        simp [l0, g0, l1, g1, l2, g2, l3, g3, l4, g4, l5, g5]
      · by_cases c3 : n * 2 < (d:Int)
        · have l0 : ¬ (n < -(d:Int)) := by omega
          have g0 : -(d:Int) ≤ n := by omega
          have l1 : ¬ (n * 2 < -(d:Int)) := by omega
          have g1 : -(d:Int) ≤ n * 2 := by omega
          have l2 : ¬ (n < 0) := by omega
          have g2 : 0 ≤ n := by omega
          have l3 : n * 2 < (d:Int) := by omega
          have g3 : ¬ ((d:Int) ≤ n * 2) := by omega
          have l4 : n < (d:Int) := by omega
          have g4 : ¬ ((d:Int) ≤ n) := by omega
          have l5 : n * 2 < 3 * (d:Int) := by omega
          have g5 : ¬ (3 * (d:Int) ≤ n * 2) := by omega
          simp [l0, g0, l1, g1, l2, g2, l3, g3, l4, g4, l5, g5]
        · by_cases c4 : n < (d:Int)
          · have l0 : ¬ (n < -(d:Int)) := by omega
            have g0 : -(d:Int) ≤ n := by omega
            have l1 : ¬ (n * 2 < -(d:Int)) := by omega
            have g1 : -(d:Int) ≤ n * 2 := by omega
            have l2 : ¬ (n < 0) := by omega
            have g2 : 0 ≤ n := by omega
            have l3 : ¬ (n * 2 < (d:Int)) := by omega
            have g3 : (d:Int) ≤ n * 2 := by omega
            have l4 : n < (d:Int) := by omega
            have g4 : ¬ ((d:Int) ≤ n) := by omega
            have l5 : n * 2 < 3 * (d:Int) := by omega
            have g5 : ¬ (3 * (d:Int) ≤ n * 2) := by omega
            simp [l0, g0, l1, g1, l2, g2, l3, g3, l4, g4, l5, g5]
          · by_cases c5 : n * 2 < 3 * (d:Int)
            · have l0 : ¬ (n < -(d:Int)) := by omega
              have g0 : -(d:Int) ≤ n := by omega
              have l1 : ¬ (n * 2 < -(d:Int)) := by omega
              have g1 : -(d:Int) ≤ n * 2 := by omega
              have l2 : ¬ (n < 0) := by omega
              have g2 : 0 ≤ n := by omega
              have l3 : ¬ (n * 2 < (d:Int)) := by omega
              have g3 : (d:Int) ≤ n * 2 := by omega
              have l4 : ¬ (n < (d:Int)) := by omega
              have g4 : (d:Int) ≤ n := by omega
              have l5 : n * 2 < 3 * (d:Int) := by omega
              have g5 : ¬ (3 * (d:Int) ≤ n * 2) := by omega
              simp [l0, g0, l1, g1, l2, g2, l3, g3, l4, g4, l5, g5]
            · have l0 : ¬ (n < -(d:Int)) := by omega
              have g0 : -(d:Int) ≤ n := by omega
              have l1 : ¬ (n * 2 < -(d:Int)) := by omega
              have g1 : -(d:Int) ≤ n * 2 := by omega
              have l2 : ¬ (n < 0) := by omega
              have g2 : 0 ≤ n := by omega
              have l3 : ¬ (n * 2 < (d:Int)) := by omega
              have g3 : (d:Int) ≤ n * 2 := by omega
              have l4 : ¬ (n < (d:Int)) := by omega
              have g4 : (d:Int) ≤ n := by omega
              have l5 : ¬ (n * 2 < 3 * (d:Int)) := by omega
              have g5 : 3 * (d:Int) ≤ n * 2 := by omega
              simp [l0, g0, l1, g1, l2, g2, l3, g3, l4, g4, l5, g5]

/-- **coupling form of "raising cpu_io_ratio shifts the mix towards CPU-heavy"**: for the same underlying
normal draw, a larger centre gives a prototype at least as CPU-heavy (values over a common denominator) -/
theorem prototype_index_monotone (n1 n2 : Int) (d : Nat) (hd : 0 < d) (h : n1 ≤ n2) :
    protoIdxCount protoTable ⟨n1, d⟩ ≤ protoIdxCount protoTable ⟨n2, d⟩ := by
  unfold protoIdxCount
  rw [← List.countP_eq_length_filter, ← List.countP_eq_length_filter]
  apply List.countP_mono_left
  intro l hl hle
  have hd' : (0 : Int) < d := by exact_mod_cast hd
  simp only [thresholds, protoTable, List.filterMap_cons, List.filterMap_nil, List.mem_cons, List.not_mem_nil, or_false] at hl
  simp only [Q.le, decide_eq_true_eq] at hle ⊢
  rcases hl with rfl | rfl | rfl | rfl | rfl | rfl <;> simp only at hle ⊢ <;> omega

/-- the operator count is monotone in its draw -/
theorem op_count_monotone (n1 n2 : Int) (d : Nat) (hd : 0 < d) (h : n1 ≤ n2) : opCount ⟨n1, d⟩ ≤ opCount ⟨n2, d⟩ := by
  have hd' : (0 : Int) < d := by exact_mod_cast hd
  have hm : Int.tdiv n1 d ≤ Int.tdiv n2 d := Int.tdiv_le_tdiv hd' h
  unfold opCount Q.trunc
  simp only
  split <;> split <;> omega

example : genPipeline 4 [Draw.choice 2, Draw.normal ⟨7, 2⟩, Draw.normal ⟨3, 10⟩, Draw.normal ⟨-5, 1⟩] =
    some ({ id := 5, prio := 3, protos := [0, 3, 1] }, []) := by decide

end Eudoxia.C15
