import EudoxiaModel.Proofs.Reach
import EudoxiaModel.Proofs.Dag
/-! # C01 — operators never start before their parents have completed; DAG iteration

Property theorems only; helper lemmas live in `Proofs/`. -/
namespace Eudoxia.C01
open Eudoxia OpState

/-- **C01.1 (state form, full strength).**  In every world reachable from a fresh one under arbitrary —
also inadmissible — commands, an operator is running or completed only if all its parents are completed. -/
theorem running_or_completed_implies_parents_completed {w0 w : World} (h0 : w0.Fresh) (h : Reach w0 w) :
    ∀ r, (w.store.stOf r = running ∨ w.store.stOf r = completed) →
      ∀ p ∈ w.store.parentsOf r, w.store.stOf p = completed :=
  parentsInv_steps h.steps (fresh_parentsInv h0)

/-- **C01.1 (history form).**  The parents of an operator that is running or completed at some reachable
world were already completed at the moment it started: at *every* later world they still are, because
completion is final — so "completed before it started" and "completed now" coincide. -/
theorem parents_stay_completed {w0 w w' : World} (h0 : w0.Fresh) (h : Reach w0 w) (h' : Reach w w')
    (r : Nat) (hr : w.store.stOf r = running ∨ w.store.stOf r = completed) :
    ∀ p ∈ w.store.parentsOf r, w'.store.stOf p = completed := by
  intro p hp
  exact completed_final h'.steps p (running_or_completed_implies_parents_completed h0 h r hr p hp)

/-- **C01.2.**  A container whose next operator has a parent that is not completed cannot start it:
the tick is refused with the dependency error and (the error value carrying no new table) nothing changes. -/
theorem start_with_unfinished_parent_rejected (cfg : Cfg) (w : Store) (c : Ctr) (cons : Int)
    (r : Nat) (segs : List Seg) (rest : List (Nat × List Seg))
    (hf : c.frozen = false) (hops : c.pos.ops = (r, segs) :: rest) (hst : c.pos.started = false)
    (hr : w.stOf r = assigned) (hb : r < w.st.size)
    (hpar : ∃ p ∈ w.parentsOf r, w.stOf p ≠ completed) :
    advance cfg w c cons = .error .deps := by
  have hseek : seek w cfg c = .error .deps := by
    unfold seek
    split
    · rename_i h; rw [hops] at h; cases h
    · rename_i r' s' rest' h
      rw [hops] at h
      cases h
      simp only [hst, Bool.not_false, ↓reduceDIte]
      have : w.transition r running = .error .deps := by
        unfold Store.transition Store.check
        have hv : running ∈ Extracted.validNext assigned := by decide
        obtain ⟨p, hp, hne⟩ := hpar
        have hall : (w.parentsOf r).all (fun p => w.stOf p == completed) = false := by
          rw [Bool.eq_false_iff]
          intro hall
          rw [List.all_eq_true] at hall
          have := hall p hp
          simp at this
          exact hne this
        simp [hb, hr, hv, hall]
      rw [this]
  unfold advance
  simp only [hf, Bool.false_eq_true, ↓reduceIte, hseek]

/-- **C01.3.**  Iterating a DAG built by `add_node` (every parent is an earlier node, parent lists are
duplicate-free) visits every node exactly once, parents before children. -/
theorem iteration_visits_each_node_once_parents_first {d : Dag.Dag} (wf : Dag.WF d) :
    (Dag.iterOrder d).Perm (List.range d.length) ∧ Dag.Topo d (Dag.iterOrder d) :=
  Dag.iterOrder_perm_topo wf

/-- non-vacuity: a diamond with an extra root satisfies the hypotheses, and the iterator's answer on it -/
example : Dag.WF [[], [0], [0], [1, 2], []] ∧ Dag.iterOrder [[], [0], [0], [1, 2], []] = [0, 4, 1, 2, 3] := by
  refine ⟨⟨?_, ?_⟩, by decide⟩
  · intro i p hp
    match i, hp with
    | 0, hp => simp [Dag.parentsOf] at hp
    | 1, hp => simp [Dag.parentsOf] at hp; omega
    | 2, hp => simp [Dag.parentsOf] at hp; omega
    | 3, hp => simp [Dag.parentsOf] at hp; omega
    | 4, hp => simp [Dag.parentsOf] at hp
    | n+5, hp => simp [Dag.parentsOf] at hp
  · intro i
    match i with
    | 0 | 1 | 2 | 3 | 4 => simp [Dag.parentsOf]
    | n+5 => simp [Dag.parentsOf]

end Eudoxia.C01
