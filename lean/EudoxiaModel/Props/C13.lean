import EudoxiaModel.Proofs.Trace
/-! # C13 — trace replay delivers each pipeline once, at the first tick ≥ its arrival

Arrival times are exact fractions `n/d` seconds (the decimal written in the trace file); tick `k`
starts at `k/tps`. -/
namespace Eudoxia.C13
open Eudoxia.Trace

/-- **never before its arrival**: the tick in which a pipeline is delivered starts at or after its arrival time -/
theorem never_before_arrival (n d tps : Nat) (hd : 0 < d) : n * tps ≤ deliverTick n d tps * d :=
  deliver_ge n d tps hd

/-- **in the first such tick**: no earlier tick starts at or after the arrival time -/
theorem first_tick_at_or_after (n d tps k : Nat) (hd : 0 < d) (hk : n * tps ≤ k * d) : deliverTick n d tps ≤ k :=
  deliver_first n d tps k hd hk

/-- rows in arrival order have non-decreasing delivery ticks (the hypothesis of the replay theorems) -/
theorem arrival_order_gives_tick_order (n1 d1 n2 d2 tps : Nat) (h1 : 0 < d1) (h2 : 0 < d2) (h : n1 * d2 ≤ n2 * d1) :
    deliverTick n1 d1 tps ≤ deliverTick n2 d2 tps := deliverTick_mono n1 d1 n2 d2 tps h1 h2 h

/-- **each tick returns exactly the pipelines whose delivery tick it is, in file order** (so pipelines with
equal arrival keep their file order, nothing is returned early, nothing twice) -/
theorem tick_returns_exactly_its_pipelines (ticks : List Nat) (hs : ticks.Pairwise (· ≤ ·)) (n j : Nat) (hj : j < n) :
    (replay ticks 0 n)[j]'(by rw [replay_length]; exact hj) = ticks.filter (· == j) := by
  have := replay_spec n ticks 0 hs (fun _ _ => Nat.zero_le _) j hj
  simpa using this

/-- **exactly once, and not at all after the end**: over a run of `n` ticks the replay returns, in order,
exactly the pipelines whose delivery tick is below `n` -/
theorem delivered_exactly_once_before_end (ticks : List Nat) (hs : ticks.Pairwise (· ≤ ·)) (n : Nat) :
    (replay ticks 0 n).flatten = ticks.filter (fun t => decide (t < n)) := by
  have := replay_flatten n ticks 0 hs (fun _ _ => Nat.zero_le _)
  simpa using this

/-- **gentrace round trip**: the arrival written for tick `k` (`k/tps` seconds) is delivered in tick `k` -/
theorem gentrace_roundtrip (k tps : Nat) (ht : 0 < tps) : deliverTick k tps tps = k := deliver_on_grid k tps ht

/-- non-vacuity: 0.1 s at 10 ticks/s is tick 1; 0.11 s is tick 2; three pipelines over three ticks -/
example : deliverTick 1 10 10 = 1 ∧ deliverTick 11 100 10 = 2 ∧ replay [0, 1, 1, 5] 0 3 = [[0], [1, 1], []] := by decide

end Eudoxia.C13
