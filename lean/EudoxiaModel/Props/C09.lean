import EudoxiaModel.Proofs.Account
import EudoxiaModel.Props.C10
import EudoxiaModel.Proofs.Cids
import EudoxiaModel.Proofs.FreshWorlds
/-! # C09 — every accepted assignment becomes exactly one container with exactly one outcome -/
namespace Eudoxia.C09
open Eudoxia OpState

/-- **a command naming a pool that does not exist is rejected, not silently dropped** — and nothing changes -/
theorem unknown_pool_rejected (w : World) (sus : List (Nat × Nat)) (asgs : List Asg)
    (h : (∃ s ∈ sus, s.1 ≥ w.pools.length) ∨ (∃ a ∈ asgs, a.pool ≥ w.pools.length)) :
    w.execTick sus asgs = .error (.unknownPool, some w) := by
  unfold World.execTick
  have : (sus.any (fun s => decide (s.1 ≥ w.pools.length)) || asgs.any (fun a => decide (a.pool ≥ w.pools.length))) = true := by
    rcases h with ⟨s, hs, h1⟩ | ⟨a, ha, h1⟩
    · simp only [Bool.or_eq_true, List.any_eq_true, decide_eq_true_eq]; exact Or.inl ⟨s, hs, h1⟩
    · simp only [Bool.or_eq_true, List.any_eq_true, decide_eq_true_eq]; exact Or.inr ⟨a, ha, h1⟩
  simp [this]

/-- **accounting (full strength)**: in every world reachable under arbitrary command sequences, for every pool,
containers created (= assignments the pool accepted) = running + suspending + suspended + results reported, and the
successes are among the reported results (the remainder are the failures) -/
theorem assignments_equal_outcomes_plus_live {w0 w : World} (g0 : w0.AllPools PoolAcct) (h : Reach w0 w) :
    ∀ p ∈ w.pools, p.created = p.active.length + p.suspending.length + p.suspended.length + p.tickTimes.length ∧
      p.numCompleted ≤ p.tickTimes.length := by
  intro p hp
  obtain ⟨_, a⟩ := reach_lift poolAcct_tick h g0 p hp
  exact ⟨a.total, a.okLe⟩

theorem fresh_world_good (cfg : Cfg) (npools cpus ram : Nat) :
    ({ cfg := cfg, pools := List.replicate npools (Pool.fresh cpus ram) } : World).AllPools PoolAcct := by
  intro p hp
  have := List.eq_of_mem_replicate hp
  subst this
  exact ⟨⟨⟨poolInv_fresh _ _ _, by simp [Pool.NonNeg, Pool.fresh]⟩, memOK_fresh _ _⟩, ⟨rfl, Nat.le_refl _⟩⟩

/-- **each tick of a pool: one container per accepted assignment, one result per container that ends** — the pool's containers
grow by exactly the number it creates, and the results of the tick are exactly the containers that leave the running list finished -/
theorem one_result_per_finished_container (p : Pool) :
    (collect p).2 = (p.active.filter (·.completed)).map mkRes ∧ (collect p).1.active = p.active.filter (fun c => !c.completed) :=
  ⟨by simp [collect], (collect_fields p).1⟩

/-- a result is a success exactly when the container ended without an error -/
theorem success_iff_no_error (c : Ctr) : (mkRes c).ok = !c.err := rfl

/-- **failure shape**: a killed container reports an error and its current and later operators are FAILED -/
theorem killed_container_fails_unfinished_suffix {w w' : Store} {c c' : Ctr} {cons cons' : Int}
    (h : c.kill w cons = .ok (w', c', cons')) :
    c'.err = true ∧ c'.completed = true ∧ (∀ o ∈ c.ops.drop c.curOpIdx, w'.stOf o = failed) ∧
    (∀ o, w.stOf o = completed → w'.stOf o = completed) := by
  obtain ⟨e1, _⟩ := kill_eq h
  refine ⟨by rw [e1]; rfl, by rw [e1]; rfl, ?_, ?_⟩
  · unfold Ctr.kill at h
    split at h
    · cases h
    · rename_i w1 hw1
      have : w1 = w' := ok_fst h
      subst this
      exact C10.transAll_sets _ _ _ _ hw1
  · intro o ho
    exact completed_final (kill_steps h) o ho

/-- a finished suspension reports no result -/
theorem suspended_container_reports_nothing (p : Pool) : ∀ r ∈ (collect p).2, ∃ c ∈ p.active, r = mkRes c := by
  intro r hr
  obtain ⟨c, hc, _, e⟩ := C10.results_come_from_running_containers p r hr
  exact ⟨c, hc, e⟩

/-- **what a result says about the operators, over a whole executor tick.**  In any world reached by ticks from one whose containers have their record straight
(`World.FinS`: e.g. a world without containers; the tick hands the property on), every result of a tick with any admissible commands is the result of a container
whose operators are COMPLETED up to where it got; it is a **success exactly when nothing is left** after that point; and a **failure leaves a non-empty rest,
all FAILED** — the completed prefix followed by failed operators of the property, however many pools, kills and write-outs the tick contained. -/
theorem result_is_completed_prefix_then_failed (w0 w1 : World) (asgs : List Asg) (sus : List (Nat × Nat)) (hr : WorldReady w0) (hb : Built w0 asgs w1)
    (hseg : ∀ a ∈ asgs, ∀ r ∈ a.ops, w0.store.segsOf r ≠ []) (hpar : ∀ a ∈ asgs, ParentsOK w1.store a.ops)
    (hsus : ∀ i, ((sus.filter (·.1 == i)).map (·.2)).Nodup) (hf : w0.FinS)
    {w2 : World} {res : List Res} (hx : w1.execTick sus asgs = .ok (w2, res)) :
    w2.FinS ∧ ∀ r ∈ res, ∃ c, r = mkRes c ∧ r.ops = c.ops.take c.curOpIdx ++ c.unfinished ∧
      (∀ o ∈ c.ops.take c.curOpIdx, w2.store.stOf o = completed) ∧
      (r.ok = true → c.unfinished = []) ∧ (r.ok = false → c.unfinished ≠ [] ∧ ∀ o ∈ c.unfinished, w2.store.stOf o = failed) := by
  obtain ⟨f2, cs, js, e, hc, _, _, _, _, _⟩ := execTick_finS w0 w1 asgs sus hr hb hseg hpar hsus hf hx
  refine ⟨f2, fun r hrr => ?_⟩
  rw [e] at hrr
  obtain ⟨c, hcm, rfl⟩ := List.mem_map.mp hrr
  obtain ⟨f, hcc⟩ := hc c hcm
  refine ⟨c, rfl, by simp [mkRes, Ctr.unfinished], f.pre, fun hok => ?_, fun hok => ?_⟩
  · apply f.done hcc
    simpa [mkRes] using hok
  · apply f.dead hcc
    simpa [mkRes] using hok

/-- non-vacuity: a world without containers has every container's record straight -/
theorem fresh_world_finS (cfg : Cfg) (store : Store) (pipes : Array PipeInfo) (caps : List (Nat × Nat)) :
    World.FinS { cfg := cfg, store := store, pools := caps.map (fun c => Pool.fresh c.1 c.2), pipes := pipes } := by
  intro p hp c hc
  obtain ⟨x, _, rfl⟩ := List.mem_map.mp hp
  simp [Pool.fresh] at hc

/-- **one container per accepted assignment, told apart for ever.**  If the containers of all pools — running, being written out, suspended — carry pairwise
different numbers, all below the executor's counter (`World.CidsOK`), the same holds after an executor tick with any commands: a number handed out is never
handed out again, so results, suspension requests and the scheduler's remembered jobs, which all name a container by its number, name exactly one. -/
theorem container_numbers_never_reused {w w2 : World} {sus : List (Nat × Nat)} {asgs : List Asg} {res : List Res}
    (hg : ∀ p ∈ w.pools, PoolGoodMem w.cfg p w.nextCid) (hc : w.CidsOK) (hx : w.execTick sus asgs = .ok (w2, res)) : w2.CidsOK :=
  execTick_cids hg hc hx

/-- non-vacuity: a world without containers -/
theorem fresh_world_numbers (cfg : Cfg) (store : Store) (pipes : Array PipeInfo) (caps : List (Nat × Nat)) :
    World.CidsOK { cfg := cfg, store := store, pools := caps.map (fun c => Pool.fresh c.1 c.2), pipes := pipes } :=
  fresh_world_cidsOK cfg store pipes caps

/-- **over whole runs of `priority` with multi-operator containers** (the mode that suspends and resumes): on every tick of every run from a fresh world the
containers of all pools — running, being written out, suspended — carry pairwise different numbers below the executor's counter (a resumed job gets a
container of its own, never the number of the one that was written out), and every container's record of what it has finished is straight (`World.FinS`:
operators before its index COMPLETED) — the two invariants behind "one container per accepted assignment, one outcome per container" -/
theorem numbers_and_records_stay_straight_on_every_tick_of_every_priority_run (cfg : Cfg) (store : Store) (pipes : Array PipeInfo) (caps : List (Nat × Nat))
    (arrivals : List (List Nat)) (hm : cfg.multiOp = true) (ho : cfg.overcommit = false) (hq : 0 < cfg.q)
    (wf : (freshWorld cfg store pipes caps).WFP) (hs : (freshWorld cfg store pipes caps).SegsOK) (hp : (freshWorld cfg store pipes caps).PidOK)
    (ht : (freshWorld cfg store pipes caps).Topo) (hF : arrivals.flatten.Nodup)
    (hfut : ∀ pid ∈ arrivals.flatten, (pipes.getD pid default).order ≠ [] ∧ ∀ o ∈ (pipes.getD pid default).order, store.stOf o = OpState.pending) :
    ∃ w' st' res', Prio.loop (freshWorld cfg store pipes caps) {} [] arrivals = .ok (w', st', res') ∧ w'.CidsOK ∧ w'.FinS := by
  obtain ⟨w', st', cs', js', h, inv⟩ := PM.run_never_raises arrivals _ {} [] [] (PM.fresh_inv cfg store pipes caps _ hm ho hq wf hs hp ht hF hfut)
  exact ⟨w', st', _, h, inv.cids, inv.fins⟩

end Eudoxia.C09
