import EudoxiaModel.Proofs.Reach
namespace Eudoxia.C09
theorem placeholder : True := trivial
end Eudoxia.C09
