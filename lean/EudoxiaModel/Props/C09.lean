import EudoxiaModel.Proofs.Account
import EudoxiaModel.Props.C10
/-! # C09 — every accepted assignment becomes exactly one container with exactly one outcome -/
namespace Eudoxia.C09
open Eudoxia OpState

/-- **a command naming a pool that does not exist is rejected, not silently dropped** — and nothing changes -/
theorem unknown_pool_rejected (w : World) (sus : List (Nat × Nat)) (asgs : List Asg)
    (h : (∃ s ∈ sus, s.1 ≥ w.pools.length) ∨ (∃ a ∈ asgs, a.pool ≥ w.pools.length)) :
    w.execTick sus asgs = .error (.unknownPool, some w) := by
  unfold World.execTick
  have : (sus.any (fun s => decide (s.1 ≥ w.pools.length)) || asgs.any (fun a => decide (a.pool ≥ w.pools.length))) = true := by
    rcases h with ⟨s, hs, h1⟩ | ⟨a, ha, h1⟩
    · simp only [Bool.or_eq_true, List.any_eq_true, decide_eq_true_eq]; exact Or.inl ⟨s, hs, h1⟩
    · simp only [Bool.or_eq_true, List.any_eq_true, decide_eq_true_eq]; exact Or.inr ⟨a, ha, h1⟩
  simp [this]

/-- **accounting (full strength)**: in every world reachable under arbitrary command sequences, for every pool,
containers created (= assignments the pool accepted) = running + suspending + suspended + results reported, and the
successes are among the reported results (the remainder are the failures) -/
theorem assignments_equal_outcomes_plus_live {w0 w : World} (g0 : w0.AllPools PoolAcct) (h : Reach w0 w) :
    ∀ p ∈ w.pools, p.created = p.active.length + p.suspending.length + p.suspended.length + p.tickTimes.length ∧
      p.numCompleted ≤ p.tickTimes.length := by
  intro p hp
  obtain ⟨_, a⟩ := reach_lift poolAcct_tick h g0 p hp
  exact ⟨a.total, a.okLe⟩

theorem fresh_world_good (cfg : Cfg) (npools cpus ram : Nat) :
    ({ cfg := cfg, pools := List.replicate npools (Pool.fresh cpus ram) } : World).AllPools PoolAcct := by
  intro p hp
  have := List.eq_of_mem_replicate hp
  subst this
  exact ⟨⟨⟨poolInv_fresh _ _ _, by simp [Pool.NonNeg, Pool.fresh]⟩, memOK_fresh _ _⟩, ⟨rfl, Nat.le_refl _⟩⟩

/-- **each tick of a pool: one container per accepted assignment, one result per container that ends** — the pool's containers
grow by exactly the number it creates, and the results of the tick are exactly the containers that leave the running list finished -/
theorem one_result_per_finished_container (p : Pool) :
    (collect p).2 = (p.active.filter (·.completed)).map mkRes ∧ (collect p).1.active = p.active.filter (fun c => !c.completed) :=
  ⟨by simp [collect], (collect_fields p).1⟩

/-- a result is a success exactly when the container ended without an error -/
theorem success_iff_no_error (c : Ctr) : (mkRes c).ok = !c.err := rfl

/-- **failure shape**: a killed container reports an error and its current and later operators are FAILED -/
theorem killed_container_fails_unfinished_suffix {w w' : Store} {c c' : Ctr} {cons cons' : Int}
    (h : c.kill w cons = .ok (w', c', cons')) :
    c'.err = true ∧ c'.completed = true ∧ (∀ o ∈ c.ops.drop c.curOpIdx, w'.stOf o = failed) ∧
    (∀ o, w.stOf o = completed → w'.stOf o = completed) := by
  obtain ⟨e1, _⟩ := kill_eq h
  refine ⟨by rw [e1]; rfl, by rw [e1]; rfl, ?_, ?_⟩
  · unfold Ctr.kill at h
    split at h
    · cases h
    · rename_i w1 hw1
      have : w1 = w' := ok_fst h
      subst this
      exact C10.transAll_sets _ _ _ _ hw1
  · intro o ho
    exact completed_final (kill_steps h) o ho

/-- a finished suspension reports no result -/
theorem suspended_container_reports_nothing (p : Pool) : ∀ r ∈ (collect p).2, ∃ c ∈ p.active, r = mkRes c := by
  intro r hr
  obtain ⟨c, hc, _, e⟩ := C10.results_come_from_running_containers p r hr
  exact ⟨c, hc, e⟩

end Eudoxia.C09
