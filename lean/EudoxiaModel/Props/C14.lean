import EudoxiaModel.Proofs.Csv
/-! # C14 — trace files round-trip: what is written is what is read, for any pipeline DAG -/
namespace Eudoxia.C14
open Eudoxia.Csv

/-- **write → read is the identity**, for every list of well-formed pipelines: any DAG (parents are any earlier
operators — several roots, multi-parent), any priority, any numeric cells, explicit `0` versus unset memory. -/
theorem write_then_read (ps : List CPipe) (h : ∀ p ∈ ps, p.WF) : fromRows (toRows ps) = .ok ps :=
  read_write_id ps h

/-- **read → write reproduces every row** of a file in the writer's format -/
theorem read_then_write (ps : List CPipe) (h : ∀ p ∈ ps, p.WF) :
    (fromRows (toRows ps)).map toRows = .ok (toRows ps) := by
  rw [read_write_id ps h]; rfl

theorem mkPipe_ok_first {r : Row} {rs : List Row} {p : CPipe} (h : mkPipe (r :: rs) = .ok p) :
    validPrio r.prio = true ∧ r.arrival.isSome ∧ laterRowsOk rs = .ok () ∧ buildOps [] 0 (r :: rs) = .ok p.ops := by
  unfold mkPipe at h
  cases hp : validPrio r.prio
  · simp [hp] at h
  · cases ha : r.arrival with
    | none => simp [hp, ha] at h
    | some a =>
      cases hl : laterRowsOk rs with
      | error e => simp [hp, ha, hl] at h
      | ok u =>
        cases hb : buildOps [] 0 (r :: rs) with
        | error e => simp [hp, ha, hl, hb] at h
        | ok os =>
          simp [hp, ha, hl, hb] at h
          subst h
          exact ⟨rfl, rfl, rfl, rfl⟩

/-- **malformed: priority missing or unknown on a pipeline's first row** -/
theorem refuses_bad_priority (r : Row) (rs : List Row) (h : validPrio r.prio = false) :
    mkPipe (r :: rs) = .error .badPriority := by
  unfold mkPipe; simp [h]

/-- **malformed: arrival missing on a pipeline's first row** -/
theorem refuses_missing_arrival (r : Row) (rs : List Row) (h : r.arrival = none) : ∃ e, mkPipe (r :: rs) = .error e := by
  cases hm : mkPipe (r :: rs) with
  | error e => exact ⟨e, rfl⟩
  | ok p => have := (mkPipe_ok_first hm).2.1; rw [h] at this; cases this

theorem laterRowsOk_ok : ∀ (rs : List Row), laterRowsOk rs = .ok () → ∀ x ∈ rs, x.prio = "" ∧ x.arrival = none := by
  intro rs
  induction rs with
  | nil => intro _ x hx; cases hx
  | cons r rs ih =>
    intro h x hx
    unfold laterRowsOk at h
    split at h
    · cases h
    · rename_i h1
      split at h
      · cases h
      · rename_i h2
        rcases List.mem_cons.mp hx with rfl | hx'
        · exact ⟨by simpa using h1, by simpa using h2⟩
        · exact ih h x hx'

/-- **malformed: priority or arrival set on a later row** -/
theorem refuses_later_priority_or_arrival (r : Row) (rs : List Row)
    (h : ∃ x ∈ rs, x.prio ≠ "" ∨ x.arrival ≠ none) : ∃ e, mkPipe (r :: rs) = .error e := by
  cases hm : mkPipe (r :: rs) with
  | error e => exact ⟨e, rfl⟩
  | ok p =>
    exfalso
    obtain ⟨x, hx, hbad⟩ := h
    have := laterRowsOk_ok rs (mkPipe_ok_first hm).2.2.1 x hx
    rcases hbad with hb | hb
    · exact hb this.1
    · exact hb this.2

theorem buildOps_ok : ∀ (rows : List Row) (tbl : List (Nat × Nat)) (n : Nat) (os : List COp),
    buildOps tbl n rows = .ok os → ∀ x ∈ rows, validLaw x.law = true := by
  intro rows
  induction rows with
  | nil => intro _ _ _ _ x hx; cases hx
  | cons r rs ih =>
    intro tbl n os h x hx
    unfold buildOps at h
    split at h
    · cases h
    · split at h
      · cases h
      · rename_i hl
        split at h
        · cases h
        · rename_i os' hb
          rcases List.mem_cons.mp hx with rfl | hx'
          · simpa using hl
          · exact ih _ _ _ hb x hx'

/-- **malformed: unknown scaling law** -/
theorem refuses_unknown_law (r : Row) (rs : List Row) (h : ∃ x ∈ r :: rs, validLaw x.law = false) :
    ∃ e, mkPipe (r :: rs) = .error e := by
  cases hm : mkPipe (r :: rs) with
  | error e => exact ⟨e, rfl⟩
  | ok p =>
    exfalso
    obtain ⟨x, hx, hbad⟩ := h
    have := buildOps_ok _ _ _ _ (mkPipe_ok_first hm).2.2.2 x hx
    rw [hbad] at this; cases this

theorem lookup_some {tbl : List (Nat × Nat)} {id i : Nat} (h : lookup tbl id = some i) : ∃ e ∈ tbl, e.1 = id := by
  unfold lookup at h
  split at h
  · rename_i e he
    exact ⟨e, by have := List.mem_of_find?_eq_some he; simpa using this, by have := List.find?_some he; simpa using this⟩
  · cases h

theorem resolveAll_some : ∀ (ps : List Nat) (tbl : List (Nat × Nat)) (is : List Nat),
    resolveAll tbl ps = some is → ∀ q ∈ ps, ∃ e ∈ tbl, e.1 = q := by
  intro ps
  induction ps with
  | nil => intro _ _ _ q hq; cases hq
  | cons x xs ih =>
    intro tbl is h q hq
    unfold resolveAll at h
    split at h
    · rename_i i is' hl hr
      rcases List.mem_cons.mp hq with rfl | hq'
      · exact lookup_some hl
      · exact ih _ _ hr q hq'
    · cases h

/-- **malformed: undefined parent** — a parent id that no earlier row of the pipeline defines -/
theorem refuses_undefined_parent (r : Row) (rs : List Row) (q : Nat) (hq : q ∈ r.parents) : ∃ e, mkPipe (r :: rs) = .error e := by
  cases hm : mkPipe (r :: rs) with
  | error e => exact ⟨e, rfl⟩
  | ok p =>
    exfalso
    have hb := (mkPipe_ok_first hm).2.2.2
    unfold buildOps at hb
    split at hb
    · cases hb
    · rename_i ps hr
      obtain ⟨e, he, _⟩ := resolveAll_some _ _ _ hr q hq
      cases he

/-- non-vacuity: a diamond with an extra root, explicit zero memory on one operator, unset on the others,
    meets the well-formedness hypothesis -/
example : ∀ p ∈ [(⟨"QUERY", "0.5", [⟨[], "1", "const", none, "10"⟩]⟩ : CPipe),
    ⟨"BATCH_PIPELINE", "0.5", [⟨[], "1", "const", some "0", "55"⟩, ⟨[0], "2", "sqrt", none, "55"⟩, ⟨[0], "5", "linear3", none, "45"⟩,
                               ⟨[1, 2], "80", "squared", some "4", "10"⟩, ⟨[], "1", "exp", none, "0"⟩]⟩], p.WF := by
  intro p hp
  simp only [List.mem_cons, List.not_mem_nil, or_false] at hp
  rcases hp with rfl | rfl <;> simp [CPipe.WF, COpsWF, validPrio, validLaw, Law.ofName, Law.all, Law.name]

end Eudoxia.C14
