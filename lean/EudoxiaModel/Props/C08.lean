import EudoxiaModel.Model.SObs
namespace Eudoxia.C08
theorem placeholder : True := trivial
end Eudoxia.C08
