import EudoxiaModel.Model.Sched.Priority
import EudoxiaModel.Props.C12
import EudoxiaModel.Props.C16
import EudoxiaModel.Props.C17
import EudoxiaModel.Props.C18
import EudoxiaModel.Proofs.Store
import EudoxiaModel.Proofs.Built
import EudoxiaModel.Proofs.Progress
import EudoxiaModel.Proofs.NaiveSafe
import EudoxiaModel.Proofs.WorldLive
import EudoxiaModel.Proofs.NaiveLoop
import EudoxiaModel.Proofs.NaiveMulti
import EudoxiaModel.Proofs.NaiveExample
import EudoxiaModel.Proofs.PrioBudget
import EudoxiaModel.Proofs.PriorityLoop
import EudoxiaModel.Proofs.PriorityExample
import EudoxiaModel.Proofs.PoolLoop
import EudoxiaModel.Proofs.PoolExample
import EudoxiaModel.Proofs.GatesSusp
import EudoxiaModel.Proofs.PrioMulti
import EudoxiaModel.Proofs.PrioMultiExample
import EudoxiaModel.Proofs.FreshWorlds
import EudoxiaModel.Proofs.HypCheck
/-! # C08 — shipped schedulers decide admissibly, and the closed loop of scheduler and executor runs to the end without raising

`partial`.  Proved for every world and queue state: one round of `priority` / `priority-pool` asks each pool for no more CPU and RAM than the pool has free
(so `verify_valid_assignment` accepts the round), every assignment was built by the checked `Assignment` constructor (operators PENDING/FAILED with
parents satisfied, each assigned once), `priority` names only suspendable containers; the executor raises only at its gates.  Proved over whole runs
(scheduler and executor in closed loop, any number of ticks, any arrivals): naive in both container modes, overbook (`C18`), and `priority` with
single-operator containers, `priority` with multi-operator containers (where it pre-empts: suspension requests, write-outs, re-queued suspended work), and
`priority-pool` with multi-operator containers — every shipped scheduler in every container mode but one.  For `priority-pool` with single-operator containers the statement is false for the shipped code (known finding D11).  Helper lemmas: `Proofs/PrioBudget.lean`,
`Proofs/PriorityLoop.lean`, `Proofs/PrioMulti.lean`, `Proofs/PoolLoop.lean`, `Proofs/Naive*.lean`, `Proofs/Progress.lean`, `Proofs/Dead*.lean`, `Proofs/Cids.lean`.
`partial` remains because the theorems start from a world in which the pipelines are already registered (workload generation, parameter validation and the
end-of-run statistics are tied to the code by the correspondence check, not proved) and because amounts are integers of the quantum lattice. -/
namespace Eudoxia.C08
open Eudoxia Eudoxia.Prio OpState Extracted


/-- **priority never oversells**: whatever the queues hold, the assignments of one round pass the executor's capacity check on every pool,
provided no pool's free CPU/RAM is negative when the round starts (true in every reachable world: `reach_good`). -/
theorem priority_round_not_oversold (w w' : World) (st st' : St) (res : List Res) (newP : List Nat) (dec : Decision)
    (h : prRound w st res newP = .ok (w', st', dec)) (hnn : ∀ p ∈ w.pools, 0 ≤ p.availC ∧ 0 ≤ p.availR)
    (p : Nat) (hp : p < w.pools.length) : verifyAssignments w.cfg (w.pools.getD p default) (dec.asgs.filter (·.pool == p)) = .ok () := by
  have h0 : NonNegS (snaps w) := by
    intro s hs
    simp only [snaps, List.mem_map] at hs
    obtain ⟨pl, hpl, rfl⟩ := hs
    exact hnn pl hpl
  unfold prRound at h
  simp only at h
  split at h
  · cases h
  · rename_i hq1
    split at h
    · cases h
    · rename_i hq2
      split at h
      · cases h
      · rename_i hq3
        simp only [Except.ok.injEq, Prod.mk.injEq] at h
        obtain ⟨_, _, hdec⟩ := h
        obtain ⟨n1, _, x1, e1, b1⟩ := prQueue_budget _ _ _ _ _ _ _ _ _ _ hq1 h0
        obtain ⟨n2, _, x2, e2, b2⟩ := prQueue_budget _ _ _ _ _ _ _ _ _ _ hq2 n1
        obtain ⟨n3, _, x3, e3, b3⟩ := prQueue_budget _ _ _ _ _ _ _ _ _ _ hq3 n2
        simp only [List.nil_append] at e1 e2 e3
        subst e1 e2 e3
        rw [← hdec]
        exact accepted_of_budget w _ _ (budget_trans (budget_trans b1 b2) b3) n3 p hp

/-- **priority-pool never oversells** -/
theorem priority_pool_round_not_oversold (w w' : World) (st st' : St) (res : List Res) (newP : List Nat) (dec : Decision)
    (h : ppRound w st res newP = .ok (w', st', dec)) (hnn : ∀ p ∈ w.pools, 0 ≤ p.availC ∧ 0 ≤ p.availR)
    (p : Nat) (hp : p < w.pools.length) : verifyAssignments w.cfg (w.pools.getD p default) (dec.asgs.filter (·.pool == p)) = .ok () := by
  have h0 : NonNegS (snaps w) := by
    intro s hs
    simp only [snaps, List.mem_map] at hs
    obtain ⟨pl, hpl, rfl⟩ := hs
    exact hnn pl hpl
  unfold ppRound at h
  split at h
  · cases h
  · simp only at h
    split at h
    · cases h
    · rename_i hq1
      split at h
      · cases h
      · rename_i hq2
        split at h
        · cases h
        · rename_i hq3
          simp only [Except.ok.injEq, Prod.mk.injEq] at h
          obtain ⟨_, _, hdec⟩ := h
          obtain ⟨n1, _, x1, e1, b1⟩ := ppQueue_budget _ _ _ _ _ _ _ _ _ _ _ hq1 h0
          obtain ⟨n2, _, x2, e2, b2⟩ := ppQueue_budget _ _ _ _ _ _ _ _ _ _ _ hq2 n1
          obtain ⟨n3, _, x3, e3, b3⟩ := ppQueue_budget _ _ _ _ _ _ _ _ _ _ _ hq3 n2
          simp only [List.nil_append] at e1 e2 e3
          subst e1 e2 e3
          rw [← hdec]
          exact accepted_of_budget w _ _ (budget_trans (budget_trans b1 b2) b3) n3 p hp


/-! ### every assignment is built by the checked constructor, and no operator is assigned twice -/

/-! `Built` (a chain of accepted `Assignment(...)` constructions), `assignOps_spec`, `mkAssignment_spec` and `built_spec` live in
`Proofs/Built.lean`; the statement used here: -/

/-- **admissible by construction.**  Along a chain of accepted constructions no operator occurs twice (neither inside one assignment nor in two),
every operator was PENDING or FAILED when the chain started and is ASSIGNED when it ends, and every container asks for positive CPU and RAM. -/
theorem built_chain_spec {w w' : World} {as : List Asg} (h : Built w as w') :
    (as.flatMap (·.ops)).Nodup ∧ (∀ a ∈ as, a.ops ≠ [] ∧ 0 < a.cpu ∧ 0 < a.ram) ∧
    (∀ o ∈ as.flatMap (·.ops), w.store.stOf o ∈ assignable ∧ w'.store.stOf o = assigned) ∧
    (∀ o, o ∉ as.flatMap (·.ops) → w'.store.stOf o = w.store.stOf o) := built_spec h


/-- **priority: a round's assignments are a chain of accepted constructions from the world the round started in** (hence `built_spec`) -/
theorem priority_round_built (w w' : World) (st st' : St) (res : List Res) (newP : List Nat) (dec : Decision)
    (h : prRound w st res newP = .ok (w', st', dec)) : Built w dec.asgs w' := by
  unfold prRound at h
  simp only at h
  split at h
  · cases h
  · rename_i hq1
    split at h
    · cases h
    · rename_i hq2
      split at h
      · cases h
      · rename_i hq3
        simp only [Except.ok.injEq, Prod.mk.injEq] at h
        obtain ⟨rfl, _, hdec⟩ := h
        obtain ⟨x1, e1, b1⟩ := prQueue_built _ _ _ _ _ _ _ _ _ _ hq1
        obtain ⟨x2, e2, b2⟩ := prQueue_built _ _ _ _ _ _ _ _ _ _ hq2
        obtain ⟨x3, e3, b3⟩ := prQueue_built _ _ _ _ _ _ _ _ _ _ hq3
        simp only [List.nil_append] at e1 e2 e3
        subst e1 e2 e3
        rw [← hdec]
        exact (b1.append b2).append b3

theorem priority_pool_round_built (w w' : World) (st st' : St) (res : List Res) (newP : List Nat) (dec : Decision)
    (h : ppRound w st res newP = .ok (w', st', dec)) : Built w dec.asgs w' := by
  unfold ppRound at h
  split at h
  · cases h
  · simp only at h
    split at h
    · cases h
    · rename_i hq1
      split at h
      · cases h
      · rename_i hq2
        split at h
        · cases h
        · rename_i hq3
          simp only [Except.ok.injEq, Prod.mk.injEq] at h
          obtain ⟨rfl, _, hdec⟩ := h
          obtain ⟨x1, e1, b1⟩ := ppQueue_built _ _ _ _ _ _ _ _ _ _ _ hq1
          obtain ⟨x2, e2, b2⟩ := ppQueue_built _ _ _ _ _ _ _ _ _ _ _ hq2
          obtain ⟨x3, e3, b3⟩ := ppQueue_built _ _ _ _ _ _ _ _ _ _ _ hq3
          simp only [List.nil_append] at e1 e2 e3
          subst e1 e2 e3
          rw [← hdec]
          exact (b1.append b2).append b3

/-! ### only suspendable containers are suspended -/

/-- **priority suspends only what the executor accepts** -/
theorem priority_round_suspensions_accepted (w w' : World) (st st' : St) (res : List Res) (newP : List Nat) (dec : Decision)
    (h : prRound w st res newP = .ok (w', st', dec)) (p : Nat)
    (hnd : ((w.pools.getD p default).active.map (·.cid)).Nodup) :
    verifySuspends (w.pools.getD p default) ((dec.sus.filter (·.1 == p)).map (·.2)) = .ok () := by
  apply verifySuspends_ok _ hnd
  intro cid hcid
  obtain ⟨x, hx, rfl⟩ := List.mem_map.mp hcid
  obtain ⟨hx1, hx2⟩ := List.mem_filter.mp hx
  have hp : x.1 = p := by simpa using hx2
  obtain ⟨c, hc, e1, _, e3⟩ := (C12.round_preemption w w' st st' res newP dec h).2.2 x hx1
  rw [hp] at hc
  exact ⟨c, hc, e1, e3⟩


/-! ### execution never gets stuck

The executor-side assertions that could fire in the middle of a tick are the refused state changes (`transition`) and the exhausted tick
generator.  For *consistent* containers — operators in the states their position implies (head RUNNING once started, the rest ASSIGNED),
every parent COMPLETED or earlier in the same container, something left to run — none of them can fire.  Consistency is kept by every phase. -/

/-- **`Container.tick` never raises on a consistent container**, and the container stays consistent until it is finished -/
theorem container_tick_never_raises (cfg : Cfg) (w : Store) (c : Ctr) (cons : Int) (rd : CtrReady cfg w c) (hfc : c.completed = false → c.frozen = false) :
    ∃ w' c' cons', c.tick cfg w cons = .ok (w', c', cons') ∧ (c'.completed = false → CtrReady cfg w' c') :=
  tick_succeeds cfg w c cons rd hfc

/-- killing (OOM) never raises: ASSIGNED → FAILED and RUNNING → FAILED are arrows of the table -/
theorem container_kill_never_raises (cfg : Cfg) (w : Store) (c : Ctr) (cons : Int) (rd : CtrReady cfg w c) : ∃ w' c' cons', c.kill w cons = .ok (w', c', cons') :=
  kill_succeeds cfg w c cons rd

/-- suspending at an operator boundary never raises -/
theorem container_suspend_never_raises (cfg : Cfg) (w : Store) (c : Ctr) (rd : CtrReady cfg w c) (hb : headRunning c = false) : ∃ w' c', c.suspend cfg w = .ok (w', c') :=
  suspend_succeeds cfg w c rd hb

/-- **phases 3–6 of a pool tick (write-outs, container ticks, both steps of the OOM killer, collection) never raise on a consistent pool**,
and leave it consistent: by induction, no later tick raises there either as long as the commands it is given pass the gate checks -/
theorem pool_run_never_raises {cfg : Cfg} {w : Store} {p : Pool} {n : Nat} (pinv : PoolInv p n) (m : MemOK p) (rd : PoolReady cfg w p) :
    ∃ w' p' res, poolRun cfg w p = .ok (w', p', res) ∧ PoolReady cfg w' p' :=
  poolRun_succeeds pinv m rd

/-- **a pool tick raises only at its gates.**  On a ready pool, with assignments built by the checked constructor in dependency order and distinct
suspension requests, `ResourcePool.run_one_tick` either succeeds and leaves the pool ready for the next tick, or refuses its commands up front with
one of the gate errors (no such / unsuspendable container, oversold CPU or RAM, wrong operator count), in a well-defined state.
It never fails in the middle of a tick.  (`PoolReadyF`, `AsgsReady`: Proofs/Progress.lean.) -/
theorem pool_tick_raises_only_at_the_gates {cfg : Cfg} {w : Store} {p : Pool} {n : Nat} {cm : Cmds}
    (g : PoolGoodMem cfg p n) (rd : PoolReadyF cfg w p) (ha : AsgsReady w cm.asgs) (hs : cm.susp.Nodup)
    (hnd : (ownP p ++ cm.asgs.flatMap (·.ops)).Nodup) :
    (∃ w' p' n' res, poolTick cfg w p n cm = .ok (w', p', n', res) ∧ PoolReadyF cfg w' p') ∨
    (∃ e st, poolTick cfg w p n cm = .error (e, some st) ∧ e.isGate = true) :=
  poolTick_raises_only_at_the_gates g rd ha hs hnd

/-- **`Executor.run_one_tick` raises only at its gates.**  From a ready world, after any chain of accepted `Assignment` constructions whose operator lists are
in dependency order and have segments, and with suspension requests naming each container at most once, the executor tick either succeeds and leaves a
ready world, or refuses the commands up front (unknown pool; unknown or unsuspendable container; oversold CPU or RAM; wrong operator count) in a well-defined
state.  Nothing fails in the middle of a tick.  (`WorldReady`, `ParentsOK`: Proofs/WorldLive.lean, Proofs/Progress.lean.) -/
theorem executor_tick_raises_only_at_the_gates (w0 w1 : World) (asgs : List Asg) (sus : List (Nat × Nat))
    (hr : WorldReady w0) (hb : Built w0 asgs w1) (hseg : ∀ a ∈ asgs, ∀ r ∈ a.ops, w0.store.segsOf r ≠ [])
    (hpar : ∀ a ∈ asgs, ParentsOK w1.store a.ops) (hsus : ∀ i, ((sus.filter (·.1 == i)).map (·.2)).Nodup) :
    (∃ w2 res, w1.execTick sus asgs = .ok (w2, res) ∧ WorldReady w2) ∨
    (∃ e st, w1.execTick sus asgs = .error (e, some st) ∧ (e.isGate = true ∨ e = .unknownPool)) :=
  execTick_raises_only_at_the_gates w0 w1 asgs sus hr hb hseg hpar hsus

/-- **if the gates let the commands through, the tick succeeds** and the world is ready for the next one -/
theorem executor_tick_succeeds_when_the_gates_pass (w0 w1 : World) (asgs : List Asg)
    (hr : WorldReady w0) (hb : Built w0 asgs w1) (hseg : ∀ a ∈ asgs, ∀ r ∈ a.ops, w0.store.segsOf r ≠ [])
    (hpar : ∀ a ∈ asgs, ParentsOK w1.store a.ops) (hpool : ∀ a ∈ asgs, a.pool < w1.pools.length)
    (hv : ∀ k p, w1.pools[k]? = some p → (asgs.filter (·.pool == k)).isEmpty = true ∨ verifyAssignments w1.cfg p (asgs.filter (·.pool == k)) = .ok ())
    (hcnt : ∀ a ∈ asgs, opCountOk w1.cfg a = true) :
    ∃ w2 res, w1.execTick [] asgs = .ok (w2, res) ∧ WorldReady w2 :=
  let ⟨w2, res, h, r, _⟩ := execTick_succeeds_of_gates w0 w1 asgs hr hb hseg hpar hpool hv hcnt; ⟨w2, res, h, r⟩

/-- **… and with suspension requests too**: pools that exist, per pool requests that `verify_valid_suspend` accepts and a batch that `verify_valid_assignment`
accepts with the right operator count ⇒ the tick succeeds and the world is ready for the next one -/
theorem executor_tick_with_suspensions_succeeds_when_the_gates_pass (w0 w1 : World) (asgs : List Asg) (sus : List (Nat × Nat))
    (hr : WorldReady w0) (hb : Built w0 asgs w1) (hseg : ∀ a ∈ asgs, ∀ r ∈ a.ops, w0.store.segsOf r ≠ [])
    (hpar : ∀ a ∈ asgs, ParentsOK w1.store a.ops) (hsus : ∀ i, ((sus.filter (·.1 == i)).map (·.2)).Nodup)
    (hpoolA : ∀ a ∈ asgs, a.pool < w1.pools.length) (hpoolS : ∀ x ∈ sus, x.1 < w1.pools.length)
    (hv : ∀ k p, w1.pools[k]? = some p →
      ((cmdsFor k sus asgs).susp.isEmpty = true ∨ verifySuspends p (cmdsFor k sus asgs).susp = .ok ()) ∧
      ((cmdsFor k sus asgs).asgs.isEmpty = true ∨ verifyAssignments w1.cfg p (cmdsFor k sus asgs).asgs = .ok ()))
    (hcnt : ∀ a ∈ asgs, opCountOk w1.cfg a = true) :
    ∃ w2 res, w1.execTick sus asgs = .ok (w2, res) ∧ WorldReady w2 :=
  let ⟨w2, res, h, r, _⟩ := execTick_succeeds_of_gates_susp w0 w1 asgs sus hr hb hseg hpar hsus hpoolA hpoolS hv hcnt; ⟨w2, res, h, r⟩

/-- **the whole run, for one shipped policy.**  The naive scheduler with single-operator containers — which is also the starter scheduler written by
`eudoxia init` — drives the simulation to its last tick without raising: from a ready world (e.g. a fresh one, `fresh_world_ready`) whose pipelines list
existing operators once and give each a segment, for every sequence of arrival batches. -/
theorem naive_single_operator_run_never_raises (arrivals : List (List Nat)) (w : World) (st : Naive.St) (res : List Res)
    (hr : WorldReady w) (wf : w.WFP) (hs : w.SegsOK) (hm : w.cfg.multiOp = false) : ∃ out, Naive.loop w st res arrivals = .ok out :=
  Naive.run_never_raises arrivals w st res hr wf hs hm

/-- **the whole run, default configuration of the naive scheduler.**  With multi-operator containers the naive scheduler drives the simulation to its last
tick without raising: from a ready world without write-outs whose pipelines are well-formed DAGs listed in topological order (`NaiveInv`: operators exist, are
listed once, have a segment, belong to the pipeline that lists them, come after their parents; the counts are the histogram), for every sequence of arrival
batches.  The proof carries "a pipeline with an operator in a container has no operator waiting" through rounds and ticks. -/
theorem naive_multi_operator_run_never_raises (arrivals : List (List Nat)) (w : World) (st : Naive.St) (res : List Res)
    (hr : WorldReady w) (inv : NaiveInv w) (hns : w.NoSusp) (hm : w.cfg.multiOp = true) : ∃ out, Naive.loopM true w st res arrivals = .ok out :=
  Naive.run_multi_never_raises arrivals w st res hr inv hns hm

/-- the hypotheses of both whole-run theorems are met by a concrete world (a diamond DAG a → {b, c} → d on two pools, nothing started): non-vacuity -/
theorem whole_run_theorems_apply_to_a_concrete_world (arrivals : List (List Nat)) :
    (∃ out, Naive.loop (NaiveExample.world false) {} [] arrivals = .ok out) ∧ (∃ out, Naive.loopM true (NaiveExample.world true) {} [] arrivals = .ok out) :=
  NaiveExample.runs arrivals

/-- **the whole run, `priority` with single-operator containers.**  From a world that satisfies `Prio.PRInv` (ready pools without write-outs, well-formed
pipelines, no memory overcommit, positive RAM quantum; queues holding distinct ready operators, one per job, with positive retry figures; every container and
every pending result for one operator with a positive allocation) the priority scheduler and the executor run to the last tick without raising, for every
sequence of arrival batches in which the pipelines arriving together are distinct.  With one operator per container nothing is ever suspendable, so the
proof also shows that the pre-emption machinery stays idle in this mode.  (Multi-operator mode, where `priority` does suspend, is not covered: PARTIAL.) -/
theorem priority_single_operator_run_never_raises (arrivals : List (List Nat)) (w : World) (st : Prio.St) (res : List Res)
    (hn : ∀ newP ∈ arrivals, newP.Nodup) (inv : Prio.PRInv w st res) :
    ∃ w' st' res', Prio.loop w st res arrivals = .ok (w', st', res') ∧ Prio.PRInv w' st' res' :=
  Prio.run_single_never_raises arrivals w st res hn inv

/-- **one round of `priority` with single-operator containers never raises**: it suspends nothing, every assignment goes through the checked constructor,
is for one ready operator on an existing pool, the executor's capacity check accepts the batch of every pool, and the queues it leaves hold distinct ready
operators again -/
theorem priority_single_operator_round_never_raises (w : World) (st : Prio.St) (results : List Res) (newP : List Nat) (hm : w.cfg.multiOp = false) (hq : 0 < w.cfg.q)
    (wf : w.WFP) (hs : w.SegsOK) (hpid : w.PidOK) (hj : Prio.JobsOK w st.jobs) (hsu : st.susp = []) (hns : w.NoSusp) (hnd : newP.Nodup)
    (hres : ∀ r ∈ results, 0 < r.cpu ∧ 0 < r.ram) (hnn : ∀ p ∈ w.pools, 0 ≤ p.availC ∧ 0 ≤ p.availR)
    (hcs : ∀ p ∈ w.pools, ∀ c ∈ p.active, c.canSuspend = false) :
    ∃ w' st' asgs, prRound w st results newP = .ok (w', st', { sus := [], asgs := asgs }) ∧ Built w asgs w' ∧ Prio.JobsOK w' st'.jobs ∧ st'.susp = [] ∧
      (∀ a ∈ asgs, a.pool < w.pools.length ∧ ∃ o, a.ops = [o] ∧ Prio.OpOK w o) ∧
      (∀ p, p < w.pools.length → verifyAssignments w.cfg (w.pools.getD p default) (asgs.filter (·.pool == p)) = .ok ()) :=
  Prio.prRound_single w st results newP hm hq wf hs hpid hj hsu hns hnd hres hnn hcs

/-- the hypotheses of the priority whole-run theorem are met by a concrete world (the diamond DAG on two pools, single-operator containers): non-vacuity -/
theorem priority_theorem_applies_to_a_concrete_world (arrivals : List (List Nat)) (h : ∀ newP ∈ arrivals, newP.Nodup) :
    ∃ out, Prio.loop (NaiveExample.world false) {} [] arrivals = .ok out :=
  PriorityExample.runs arrivals h

/-- **the whole run, `priority-pool` with multi-operator containers.**  From a world that satisfies `PP.PPInv` (two ready pools without write-outs whose free CPU
is zero exactly when their free RAM is; well-formed pipelines listed in dependency order; queues holding distinct good jobs; every container and every pending
result with its record straight) the priority-pool scheduler and the executor run to the last tick without raising — neither the executor, nor the `Assignment`
constructor, nor the scheduler's own two assertions ("failed container has incomplete operators", "free RAM is zero iff free CPU is zero") — for every sequence
of arrival batches in which no pipeline arrives twice.  The proof carries, through every phase of the executor tick, what a *failed* result says about the
operator table: the unfinished suffix of its container is not empty and all FAILED (Proofs/Dead.lean).  With single-operator containers the statement is false
for the shipped code (known finding D11). -/
theorem priority_pool_multi_operator_run_never_raises (arrivals : List (List Nat)) (w : World) (st : Prio.St) (cs : List Ctr)
    (inv : PP.PPInv w st cs arrivals.flatten) :
    ∃ w' st' cs', PP.loop w st (cs.map mkRes) arrivals = .ok (w', st', cs'.map mkRes) ∧ PP.PPInv w' st' cs' [] :=
  PP.run_never_raises arrivals w st cs inv

/-- the hypotheses of the priority-pool whole-run theorem are met by a concrete world (the diamond DAG on two pools, its pipeline arriving in the first tick) -/
theorem priority_pool_theorem_applies_to_a_concrete_world (n : Nat) :
    ∃ out, PP.loop (NaiveExample.world true) {} [] ([0] :: List.replicate n []) = .ok out :=
  PoolExample.runs n

/-- **the whole run, `priority` with multi-operator containers — the mode in which it pre-empts.**  From a world that satisfies `PM.PMInv` (ready pools; container
numbers never re-used; no memory overcommit; well-formed pipelines listed in dependency order; queues holding distinct good jobs, each *all* the unfinished work
of its pipeline; every running container, every container being written out and every pending result with its record straight; one remembered job per container
being written out, none for a container whose write-out ended earlier) the priority scheduler and the executor run to the last tick without raising, for every
sequence of arrival batches in which no pipeline arrives twice.  Along the way: every suspension request names a running container that may be suspended, no
container is named twice (`verify_valid_suspend` accepts), the job remembered for a suspended container is exactly its unfinished suffix with its old allocation,
it is re-queued exactly once — in the round after its write-out ended — and never while any of its operators is still SUSPENDING (so the `Assignment`
constructor accepts the resume), and no pool is oversold. -/
theorem priority_multi_operator_run_never_raises (arrivals : List (List Nat)) (w : World) (st : Prio.St) (cs js : List Ctr)
    (inv : PM.PMInv w st cs js arrivals.flatten) :
    ∃ w' st' cs' js', Prio.loop w st (cs.map mkRes) arrivals = .ok (w', st', cs'.map mkRes) ∧ PM.PMInv w' st' cs' js' [] :=
  PM.run_never_raises arrivals w st cs js inv

/-- one step of it: a scheduling round of `priority` (multi-operator containers) and the executor tick that follows succeed and re-establish the invariant -/
theorem priority_multi_operator_tick_never_raises (w : World) (st : Prio.St) (cs js : List Ctr) (newP F : List Nat) (inv : PM.PMInv w st cs js (newP ++ F)) :
    ∃ w1 st1 dec w2 cs2 js2, prRound w st (cs.map mkRes) newP = .ok (w1, st1, dec) ∧ w1.execTick dec.sus dec.asgs = .ok (w2, cs2.map mkRes) ∧
      PM.PMInv w2 st1 cs2 js2 F :=
  PM.pm_tick_never_raises w st cs js newP F inv

/-- the hypotheses of that theorem are met by a concrete world (the diamond DAG on two pools, its pipeline arriving in the first tick) -/
theorem priority_multi_theorem_applies_to_a_concrete_world (n : Nat) :
    ∃ out, Prio.loop (NaiveExample.world true) {} [] ([0] :: List.replicate n []) = .ok out :=
  PrioMultiExample.runs n


/-! ### from every fresh world: any configuration, any pools, any registered workload of well-formed pipelines, any arrivals

`freshWorld cfg store pipes caps` is a world in which nothing has been started: the pools `caps` are empty, the pipelines `pipes` are registered in the operator
table `store`.  "Well-formed" is: each pipeline lists existing operators once (`WFP`), each operator has a segment (`SegsOK`) and knows its pipeline (`PidOK`),
the listing is topological (`Topo`); the pipelines that will arrive (`arrivals.flatten`) arrive once, are non-empty and untouched.  Under exactly these
hypotheses every shipped scheduler runs to the last tick. -/

theorem priority_multi_operator_runs_from_every_fresh_world (cfg : Cfg) (store : Store) (pipes : Array PipeInfo) (caps : List (Nat × Nat))
    (arrivals : List (List Nat)) (hm : cfg.multiOp = true) (ho : cfg.overcommit = false) (hq : 0 < cfg.q)
    (wf : (freshWorld cfg store pipes caps).WFP) (hs : (freshWorld cfg store pipes caps).SegsOK) (hp : (freshWorld cfg store pipes caps).PidOK)
    (ht : (freshWorld cfg store pipes caps).Topo) (hF : arrivals.flatten.Nodup)
    (hfut : ∀ pid ∈ arrivals.flatten, (pipes.getD pid default).order ≠ [] ∧ ∀ o ∈ (pipes.getD pid default).order, store.stOf o = pending) :
    ∃ out, Prio.loop (freshWorld cfg store pipes caps) {} [] arrivals = .ok out := by
  obtain ⟨w', st', cs', js', h, _⟩ := PM.run_never_raises arrivals _ {} [] [] (PM.fresh_inv cfg store pipes caps _ hm ho hq wf hs hp ht hF hfut)
  exact ⟨_, h⟩

theorem priority_pool_multi_operator_runs_from_every_fresh_world (cfg : Cfg) (store : Store) (pipes : Array PipeInfo) (c0 c1 : Nat × Nat)
    (arrivals : List (List Nat)) (hm : cfg.multiOp = true) (hq : 0 < cfg.q) (h0 : 0 < c0.1 ∧ 0 < c0.2) (h1 : 0 < c1.1 ∧ 0 < c1.2)
    (wf : (freshWorld cfg store pipes [c0, c1]).WFP) (hs : (freshWorld cfg store pipes [c0, c1]).SegsOK) (hp : (freshWorld cfg store pipes [c0, c1]).PidOK)
    (ht : (freshWorld cfg store pipes [c0, c1]).Topo) (hF : arrivals.flatten.Nodup)
    (hfut : ∀ pid ∈ arrivals.flatten, (pipes.getD pid default).order ≠ [] ∧ ∀ o ∈ (pipes.getD pid default).order, store.stOf o = pending) :
    ∃ out, PP.loop (freshWorld cfg store pipes [c0, c1]) {} [] arrivals = .ok out := by
  obtain ⟨w', st', cs', h, _⟩ := PP.run_never_raises arrivals _ {} [] (PP.fresh_inv cfg store pipes c0 c1 _ hm hq h0 h1 wf hs hp ht hF hfut)
  exact ⟨_, h⟩

theorem priority_single_operator_runs_from_every_fresh_world (cfg : Cfg) (store : Store) (pipes : Array PipeInfo) (caps : List (Nat × Nat))
    (arrivals : List (List Nat)) (hm : cfg.multiOp = false) (ho : cfg.overcommit = false) (hq : 0 < cfg.q)
    (wf : (freshWorld cfg store pipes caps).WFP) (hs : (freshWorld cfg store pipes caps).SegsOK) (hp : (freshWorld cfg store pipes caps).PidOK)
    (hn : ∀ newP ∈ arrivals, newP.Nodup) :
    ∃ out, Prio.loop (freshWorld cfg store pipes caps) {} [] arrivals = .ok out := by
  obtain ⟨w', st', res', h, _⟩ := Prio.run_single_never_raises arrivals _ {} [] hn (Prio.fresh_inv_single cfg store pipes caps hm ho hq wf hs hp)
  exact ⟨_, h⟩

theorem overbook_runs_from_every_fresh_world (cfg : Cfg) (store : Store) (pipes : Array PipeInfo) (caps : List (Nat × Nat))
    (arrivals : List (List Nat)) (ho : cfg.overcommit = true) (hc : ∀ c ∈ caps, 0 < c.2)
    (wf : (freshWorld cfg store pipes caps).WFP) (hs : (freshWorld cfg store pipes caps).SegsOK) :
    ∃ out, Overbook.loop (freshWorld cfg store pipes caps) {} [] arrivals = .ok out := by
  obtain ⟨w', st', res', h, _⟩ := Overbook.run_never_raises arrivals _ {} [] (Overbook.fresh_inv cfg store pipes caps ho hc wf hs)
  exact ⟨_, h⟩

/-- naive with single-operator containers — also the starter scheduler written by `eudoxia init` -/
theorem naive_single_operator_runs_from_every_fresh_world (cfg : Cfg) (store : Store) (pipes : Array PipeInfo) (caps : List (Nat × Nat))
    (arrivals : List (List Nat)) (hm : cfg.multiOp = false)
    (wf : (freshWorld cfg store pipes caps).WFP) (hs : (freshWorld cfg store pipes caps).SegsOK) :
    ∃ out, Naive.loop (freshWorld cfg store pipes caps) {} [] arrivals = .ok out :=
  Naive.run_never_raises arrivals _ {} [] (fresh_world_ready _ _ _ _) wf hs hm

/-- naive with multi-operator containers (the default configuration) -/
theorem naive_multi_operator_runs_from_every_fresh_world (cfg : Cfg) (store : Store) (pipes : Array PipeInfo) (caps : List (Nat × Nat))
    (arrivals : List (List Nat)) (hm : cfg.multiOp = true) (inv : NaiveInv (freshWorld cfg store pipes caps)) :
    ∃ out, Naive.loopM true (freshWorld cfg store pipes caps) {} [] arrivals = .ok out :=
  Naive.run_multi_never_raises arrivals _ {} [] (fresh_world_ready _ _ _ _) inv (fun p hp => (fresh_nopool cfg store pipes caps p hp).2.1) hm

/-- **the hypotheses about the workload are decidable, and are evaluated on every workload the correspondence check runs** (driver command `hyp`): if the five
Boolean checks of `Model/Hyp.lean` pass on a world, the world's registered pipelines are well-formed in the sense of the theorems above and the pipelines `F`
are distinct, non-empty and untouched -/
theorem checked_hypotheses_are_the_theorems_hypotheses (w : World) (F : List Nat)
    (h : (w.wfpB && w.segsB && w.pidB && w.topoB && w.futureB F) = true) :
    w.WFP ∧ w.SegsOK ∧ w.PidOK ∧ w.Topo ∧ F.Nodup ∧
      ∀ pid ∈ F, (w.pipes.getD pid default).order ≠ [] ∧ ∀ o ∈ (w.pipes.getD pid default).order, w.store.stOf o = pending := by
  simp only [Bool.and_eq_true] at h
  obtain ⟨⟨⟨⟨h1, h2⟩, h3⟩, h4⟩, h5⟩ := h
  obtain ⟨f1, f2⟩ := futureB_sound w F h5
  exact ⟨wfpB_sound w h1, segsB_sound w h2, pidB_sound w h3, topoB_sound w h4, f1, f2⟩

/-- a fresh pool is ready (non-vacuity of the hypotheses above) -/
theorem fresh_pool_ready (cfg : Cfg) (w : Store) (cpus ram : Nat) : PoolReadyF cfg w (Pool.fresh cpus ram) :=
  ⟨⟨⟨by simp [Pool.fresh], by simp [Pool.fresh], by simp [ownP, own, Pool.fresh], by intro c hc; simp [Pool.fresh] at hc⟩,
    by intro c hc; simp [Pool.fresh] at hc, by intro c hc; simp [Pool.fresh] at hc⟩, by intro c hc; simp [Pool.fresh] at hc⟩

/-- **the naive scheduler and the `eudoxia init` starter never raise**: in any world whose pipelines list existing operators without repetition,
a round returns a decision, whatever the queue, the results and the arrivals are -/
theorem naive_round_never_raises (multi : Bool) (w : World) (st : Naive.St) (results : List Res) (newP : List Nat) (wf : w.WFP) :
    ∃ w' st' dec, Naive.round multi w st results newP = .ok (w', st', dec) ∧ w'.WFP :=
  Naive.round_never_raises multi w st results newP wf

end Eudoxia.C08
