import EudoxiaModel.Model.Sched.Priority
import EudoxiaModel.Props.C12
import EudoxiaModel.Props.C16
import EudoxiaModel.Props.C17
import EudoxiaModel.Props.C18
import EudoxiaModel.Proofs.Store
import EudoxiaModel.Proofs.Built
import EudoxiaModel.Proofs.Progress
import EudoxiaModel.Proofs.NaiveSafe
import EudoxiaModel.Proofs.WorldLive
import EudoxiaModel.Proofs.NaiveLoop
import EudoxiaModel.Proofs.NaiveMulti
import EudoxiaModel.Proofs.NaiveExample
/-! # C08 — shipped schedulers decide admissibly (per-round theorems; the run-to-the-end statement is checked on traces, see DESIGN.md)

`partial`: what is proved here is, for every world and queue state, that one round of `priority` / `priority-pool` asks each pool for no more
CPU and RAM than the pool has free (so `verify_valid_assignment` accepts the round), that every assignment was built by the checked
`Assignment` constructor (operators PENDING/FAILED with parents satisfied, each assigned once), and that `priority` names only suspendable
containers.  Naive and overbook: `C17.one_container_per_pool_with_all_free_resources`, `C18.assign_spec`.  Not proved: that the *composition*
of rounds and executor ticks over a whole run never raises — that statement is false for the shipped code in one mode (known finding D11). -/
namespace Eudoxia.C08
open Eudoxia Eudoxia.Prio OpState Extracted

def NonNegS (sn : List Snap) : Prop := ∀ s ∈ sn, 0 ≤ s.availC ∧ 0 ≤ s.availR

theorem getD_nonneg {sn : List Snap} (h : NonNegS sn) (p : Nat) : 0 ≤ (sn.getD p default).availC ∧ 0 ≤ (sn.getD p default).availR := by
  rw [List.getD_eq_getElem?_getD]
  cases hg : sn[p]? with
  | none => simp; decide
  | some s => simp; exact h s (List.mem_of_getElem? hg)

theorem snapSub_getD (sn : List Snap) (k p cpu ram : Nat) (hk : k < sn.length) :
    (snapSub sn k cpu ram).getD p default =
      if p = k then { sn.getD k default with availC := (sn.getD k default).availC - cpu, availR := (sn.getD k default).availR - ram }
      else sn.getD p default := by
  unfold snapSub
  rw [List.getD_eq_getElem?_getD, List.getElem?_set]
  by_cases e : k = p
  · subst e; simp [hk]
  · simp [e, List.getD_eq_getElem?_getD]
    intro h; exact absurd h.symm e

theorem snapSub_nonneg (sn : List Snap) (k cpu ram : Nat) (h : NonNegS sn)
    (hc : (cpu : Int) ≤ (sn.getD k default).availC) (hr : (ram : Int) ≤ (sn.getD k default).availR) : NonNegS (snapSub sn k cpu ram) := by
  intro s hs
  unfold snapSub at hs
  rcases List.mem_or_eq_of_mem_set hs with hs | rfl
  · exact h s hs
  · simp only; omega

theorem cpuReq_append (a b : List Asg) : cpuReq (a ++ b) = cpuReq a + cpuReq b := by simp [cpuReq]
theorem ramReq_append (a b : List Asg) : ramReq (a ++ b) = ramReq a + ramReq b := by simp [ramReq]

def on (as : List Asg) (p : Nat) : List Asg := as.filter (·.pool == p)

theorem on_cons (a : Asg) (as : List Asg) (p : Nat) : on (a :: as) p = if a.pool = p then a :: on as p else on as p := by
  unfold on; rw [List.filter_cons]; by_cases h : a.pool = p <;> simp [h]

theorem on_append (a b : List Asg) (p : Nat) : on (a ++ b) p = on a p ++ on b p := by simp [on]

/-- what the scheduler still shows free on pool `p` plus what it has handed out there equals what was free before -/
def Budget (sn sn' : List Snap) (new : List Asg) : Prop :=
  ∀ p, (sn'.getD p default).availC + cpuReq (on new p) = (sn.getD p default).availC ∧
       (sn'.getD p default).availR + ramReq (on new p) = (sn.getD p default).availR

theorem budget_refl (sn : List Snap) : Budget sn sn [] := by intro p; simp [on, cpuReq, ramReq]

theorem budget_step {sn sn' : List Snap} {new : List Asg} {k cpu ram : Nat} (a : Asg) (hk : k < sn.length)
    (ha : a.pool = k ∧ a.cpu = cpu ∧ a.ram = ram) (h : Budget (snapSub sn k cpu ram) sn' new) : Budget sn sn' (a :: new) := by
  intro p
  obtain ⟨h1, h2⟩ := h p
  rw [snapSub_getD _ _ _ _ _ hk] at h1 h2
  rw [on_cons, ha.1]
  by_cases e : k = p
  · subst e
    simp only [↓reduceIte] at h1 h2 ⊢
    simp only [cpuReq, ramReq, List.map_cons, List.sum_cons, ha.2.1, ha.2.2] at *
    omega
  · have e' : ¬ p = k := fun x => e x.symm
    simp only [e, e', ↓reduceIte] at h1 h2 ⊢
    exact ⟨h1, h2⟩

/-! ### sizes fit -/

theorem newSize_fits (q : Nat) (s : Snap) (h0 : 0 < s.availC) (h1 : 0 < s.availR) :
    ((newSize q s).1 : Int) ≤ s.availC ∧ ((newSize q s).2 : Int) ≤ s.availR := by
  simp only [newSize]
  split
  · refine ⟨?_, ?_⟩ <;> simp only <;> omega
  · rename_i h
    simp only [Bool.or_eq_true, decide_eq_true_eq, not_or, Int.not_le] at h
    exact ⟨Int.le_of_lt h.1, Int.le_of_lt h.2⟩

theorem fits_of_eq {q : Nat} {s : Snap} {jc jr : Nat} (h : some (newSize q s) = some (jc, jr))
    (hn : ((newSize q s).1 : Int) ≤ s.availC ∧ ((newSize q s).2 : Int) ≤ s.availR) :
    (jc : Int) ≤ s.availC ∧ (jr : Int) ≤ s.availR := by
  have e := Option.some.inj h
  have e1 : jc = (newSize q s).1 := by rw [e]
  have e2 : jr = (newSize q s).2 := by rw [e]
  subst e1 e2
  exact hn

theorem prSize_fits (q : Nat) (s : Snap) (job : Job) (jc jr : Nat) (h0 : 0 < s.availC) (h1 : 0 < s.availR)
    (h : prSize q s job = some (jc, jr)) : (jc : Int) ≤ s.availC ∧ (jr : Int) ≤ s.availR := by
  unfold prSize at h
  have hn := newSize_fits q s h0 h1
  split at h
  · split at h
    · split at h
      · cases h
      · rename_i hfit
        split at h
        · cases h
        · cases h
          simp only [Bool.or_eq_true, decide_eq_true_eq, not_or, Int.not_lt] at hfit
          exact hfit
    · split at h
      · rename_i hfit
        cases h
        simp only [Bool.and_eq_true, decide_eq_true_eq] at hfit
        omega
      · exact fits_of_eq h hn
  · exact fits_of_eq h hn

theorem ppSize_fits (q : Nat) (s : Snap) (job : Job) (jc jr : Nat) (h0 : 0 < s.availC) (h1 : 0 < s.availR)
    (h : ppSize q s job = some (jc, jr)) : (jc : Int) ≤ s.availC ∧ (jr : Int) ≤ s.availR := by
  unfold ppSize at h
  have hn := newSize_fits q s h0 h1
  split at h
  · split at h
    · split at h
      · cases h
      · split at h
        · cases h; exact ⟨by omega, by omega⟩
        · rename_i hfit
          cases h
          simp only [Bool.or_eq_true, decide_eq_true_eq, not_or, Int.not_le] at hfit
          omega
    · split at h
      · rename_i hfit
        simp only [Bool.and_eq_true, decide_eq_true_eq] at hfit
        split at h
        · cases h; exact ⟨by omega, by omega⟩
        · cases h; exact hfit
      · exact fits_of_eq h hn
  · exact fits_of_eq h hn

/-! ### one queue never asks a pool for more than it has -/

theorem prQueue_budget (q : Nat) : ∀ (jobs : List Job) (w : World) (sn : List Snap) (k : Nat) (acc : List Asg)
    (w' : World) (sn' : List Snap) (k' : Nat) (out : List Asg),
    prQueue q w jobs sn k acc = .ok (w', sn', k', out) → NonNegS sn →
    NonNegS sn' ∧ sn'.length = sn.length ∧ ∃ new, out = acc ++ new ∧ Budget sn sn' new := by
  intro jobs
  induction jobs with
  | nil =>
    intro w sn k acc w' sn' k' out h hn
    simp [prQueue] at h
    obtain ⟨_, rfl, _, rfl⟩ := h
    exact ⟨hn, rfl, [], by simp, budget_refl _⟩
  | cons job rest ih =>
    intro w sn k acc w' sn' k' out h hn
    unfold prQueue at h
    split at h
    · simp at h
      obtain ⟨_, rfl, _, rfl⟩ := h
      exact ⟨hn, rfl, [], by simp, budget_refl _⟩
    · rename_i pool hb
      obtain ⟨hp, hopen, _⟩ := C12.bestPool_spec sn pool hb
      split at h
      · exact ih _ _ _ _ _ _ _ _ h hn
      · rename_i jc jr hsz
        split at h
        · cases h
        · rename_i w1 a1 hmk
          obtain ⟨ea, _⟩ := mkA_ok hmk
          obtain ⟨fc, fr⟩ := prSize_fits q _ job jc jr hopen.1 hopen.2 hsz
          obtain ⟨n1, n2, new, e, b⟩ := ih _ _ _ _ _ _ _ _ h (snapSub_nonneg sn pool jc jr hn fc fr)
          refine ⟨n1, by rw [n2]; simp [snapSub], a1 :: new, by simp [e], budget_step a1 hp (by rw [ea]; exact ⟨rfl, rfl, rfl⟩) b⟩

theorem ppQueue_budget (q pool : Nat) : ∀ (jobs : List Job) (w : World) (sn : List Snap) (k : Nat) (acc : List Asg)
    (w' : World) (sn' : List Snap) (k' : Nat) (out : List Asg),
    ppQueue q pool w jobs sn k acc = .ok (w', sn', k', out) → NonNegS sn →
    NonNegS sn' ∧ sn'.length = sn.length ∧ ∃ new, out = acc ++ new ∧ Budget sn sn' new := by
  intro jobs
  induction jobs with
  | nil =>
    intro w sn k acc w' sn' k' out h hn
    simp [ppQueue] at h
    obtain ⟨_, rfl, _, rfl⟩ := h
    exact ⟨hn, rfl, [], by simp, budget_refl _⟩
  | cons job rest ih =>
    intro w sn k acc w' sn' k' out h hn
    unfold ppQueue at h
    split at h
    · split at h
      · simp at h
        obtain ⟨_, rfl, _, rfl⟩ := h
        exact ⟨hn, rfl, [], by simp, budget_refl _⟩
      · cases h
    · rename_i hz
      simp only [Bool.or_eq_true, beq_iff_eq, not_or] at hz
      have hnn := getD_nonneg hn pool
      have hp : pool < sn.length := by
        apply Decidable.byContradiction
        intro hge
        have : sn.getD pool default = default := by
          rw [List.getD_eq_getElem?_getD, List.getElem?_eq_none (by omega)]; rfl
        rw [this] at hz
        exact hz.1 rfl
      split at h
      · exact ih _ _ _ _ _ _ _ _ h hn
      · rename_i jc jr hsz
        split at h
        · cases h
        · rename_i w1 a1 hmk
          obtain ⟨ea, _⟩ := mkA_ok hmk
          obtain ⟨fc, fr⟩ := ppSize_fits q _ job jc jr (by omega) (by omega) hsz
          obtain ⟨n1, n2, new, e, b⟩ := ih _ _ _ _ _ _ _ _ h (snapSub_nonneg sn pool jc jr hn fc fr)
          refine ⟨n1, by rw [n2]; simp [snapSub], a1 :: new, by simp [e], budget_step a1 hp (by rw [ea]; exact ⟨rfl, rfl, rfl⟩) b⟩

theorem budget_trans {a b c : List Snap} {x y : List Asg} (h1 : Budget a b x) (h2 : Budget b c y) : Budget a c (x ++ y) := by
  intro p
  obtain ⟨p1, p2⟩ := h1 p
  obtain ⟨q1, q2⟩ := h2 p
  rw [on_append, cpuReq_append, ramReq_append]
  omega

theorem snaps_getD (w : World) (p : Nat) (hp : p < w.pools.length) :
    ((snaps w).getD p default).availC = (w.pools.getD p default).availC ∧ ((snaps w).getD p default).availR = (w.pools.getD p default).availR := by
  unfold snaps
  rw [List.getD_eq_getElem?_getD, List.getD_eq_getElem?_getD, List.getElem?_map]
  rw [List.getElem?_eq_getElem hp]
  simp

/-- what three chained queue runs hand out stays within what each pool had free, so the executor's `verify_valid_assignment` accepts it -/
theorem accepted_of_budget (w : World) (snEnd : List Snap) (asgs : List Asg) (hb : Budget (snaps w) snEnd asgs) (hn : NonNegS snEnd)
    (p : Nat) (hp : p < w.pools.length) : verifyAssignments w.cfg (w.pools.getD p default) (on asgs p) = .ok () := by
  obtain ⟨b1, b2⟩ := hb p
  obtain ⟨s1, s2⟩ := snaps_getD w p hp
  obtain ⟨n1, n2⟩ := getD_nonneg hn p
  unfold verifyAssignments
  rw [if_neg (by omega)]
  split
  · rename_i h
    simp only [Bool.and_eq_true, Bool.not_eq_true', decide_eq_true_eq] at h
    omega
  · rfl

/-- **priority never oversells**: whatever the queues hold, the assignments of one round pass the executor's capacity check on every pool,
provided no pool's free CPU/RAM is negative when the round starts (true in every reachable world: `reach_good`). -/
theorem priority_round_not_oversold (w w' : World) (st st' : St) (res : List Res) (newP : List Nat) (dec : Decision)
    (h : prRound w st res newP = .ok (w', st', dec)) (hnn : ∀ p ∈ w.pools, 0 ≤ p.availC ∧ 0 ≤ p.availR)
    (p : Nat) (hp : p < w.pools.length) : verifyAssignments w.cfg (w.pools.getD p default) (dec.asgs.filter (·.pool == p)) = .ok () := by
  have h0 : NonNegS (snaps w) := by
    intro s hs
    simp only [snaps, List.mem_map] at hs
    obtain ⟨pl, hpl, rfl⟩ := hs
    exact hnn pl hpl
  unfold prRound at h
  simp only at h
  split at h
  · cases h
  · rename_i hq1
    split at h
    · cases h
    · rename_i hq2
      split at h
      · cases h
      · rename_i hq3
        simp only [Except.ok.injEq, Prod.mk.injEq] at h
        obtain ⟨_, _, hdec⟩ := h
        obtain ⟨n1, _, x1, e1, b1⟩ := prQueue_budget _ _ _ _ _ _ _ _ _ _ hq1 h0
        obtain ⟨n2, _, x2, e2, b2⟩ := prQueue_budget _ _ _ _ _ _ _ _ _ _ hq2 n1
        obtain ⟨n3, _, x3, e3, b3⟩ := prQueue_budget _ _ _ _ _ _ _ _ _ _ hq3 n2
        simp only [List.nil_append] at e1 e2 e3
        subst e1 e2 e3
        rw [← hdec]
        exact accepted_of_budget w _ _ (budget_trans (budget_trans b1 b2) b3) n3 p hp

/-- **priority-pool never oversells** -/
theorem priority_pool_round_not_oversold (w w' : World) (st st' : St) (res : List Res) (newP : List Nat) (dec : Decision)
    (h : ppRound w st res newP = .ok (w', st', dec)) (hnn : ∀ p ∈ w.pools, 0 ≤ p.availC ∧ 0 ≤ p.availR)
    (p : Nat) (hp : p < w.pools.length) : verifyAssignments w.cfg (w.pools.getD p default) (dec.asgs.filter (·.pool == p)) = .ok () := by
  have h0 : NonNegS (snaps w) := by
    intro s hs
    simp only [snaps, List.mem_map] at hs
    obtain ⟨pl, hpl, rfl⟩ := hs
    exact hnn pl hpl
  unfold ppRound at h
  split at h
  · cases h
  · simp only at h
    split at h
    · cases h
    · rename_i hq1
      split at h
      · cases h
      · rename_i hq2
        split at h
        · cases h
        · rename_i hq3
          simp only [Except.ok.injEq, Prod.mk.injEq] at h
          obtain ⟨_, _, hdec⟩ := h
          obtain ⟨n1, _, x1, e1, b1⟩ := ppQueue_budget _ _ _ _ _ _ _ _ _ _ _ hq1 h0
          obtain ⟨n2, _, x2, e2, b2⟩ := ppQueue_budget _ _ _ _ _ _ _ _ _ _ _ hq2 n1
          obtain ⟨n3, _, x3, e3, b3⟩ := ppQueue_budget _ _ _ _ _ _ _ _ _ _ _ hq3 n2
          simp only [List.nil_append] at e1 e2 e3
          subst e1 e2 e3
          rw [← hdec]
          exact accepted_of_budget w _ _ (budget_trans (budget_trans b1 b2) b3) n3 p hp


/-! ### every assignment is built by the checked constructor, and no operator is assigned twice -/

/-! `Built` (a chain of accepted `Assignment(...)` constructions), `assignOps_spec`, `mkAssignment_spec` and `built_spec` live in
`Proofs/Built.lean`; the statement used here: -/

/-- **admissible by construction.**  Along a chain of accepted constructions no operator occurs twice (neither inside one assignment nor in two),
every operator was PENDING or FAILED when the chain started and is ASSIGNED when it ends, and every container asks for positive CPU and RAM. -/
theorem built_chain_spec {w w' : World} {as : List Asg} (h : Built w as w') :
    (as.flatMap (·.ops)).Nodup ∧ (∀ a ∈ as, a.ops ≠ [] ∧ 0 < a.cpu ∧ 0 < a.ram) ∧
    (∀ o ∈ as.flatMap (·.ops), w.store.stOf o ∈ assignable ∧ w'.store.stOf o = assigned) ∧
    (∀ o, o ∉ as.flatMap (·.ops) → w'.store.stOf o = w.store.stOf o) := built_spec h

theorem prQueue_built (q : Nat) : ∀ (jobs : List Job) (w : World) (sn : List Snap) (k : Nat) (acc : List Asg)
    (w' : World) (sn' : List Snap) (k' : Nat) (out : List Asg),
    prQueue q w jobs sn k acc = .ok (w', sn', k', out) → ∃ new, out = acc ++ new ∧ Built w new w' := by
  intro jobs
  induction jobs with
  | nil =>
    intro w sn k acc w' sn' k' out h
    simp [prQueue] at h
    obtain ⟨rfl, _, _, rfl⟩ := h
    exact ⟨[], by simp, .nil _⟩
  | cons job rest ih =>
    intro w sn k acc w' sn' k' out h
    unfold prQueue at h
    split at h
    · simp at h
      obtain ⟨rfl, _, _, rfl⟩ := h
      exact ⟨[], by simp, .nil _⟩
    · split at h
      · exact ih _ _ _ _ _ _ _ _ h
      · split at h
        · cases h
        · rename_i w1 a1 hmk
          obtain ⟨_, hm⟩ := mkA_ok hmk
          obtain ⟨new, e, b⟩ := ih _ _ _ _ _ _ _ _ h
          exact ⟨a1 :: new, by simp [e], .cons hm b⟩

theorem ppQueue_built (q pool : Nat) : ∀ (jobs : List Job) (w : World) (sn : List Snap) (k : Nat) (acc : List Asg)
    (w' : World) (sn' : List Snap) (k' : Nat) (out : List Asg),
    ppQueue q pool w jobs sn k acc = .ok (w', sn', k', out) → ∃ new, out = acc ++ new ∧ Built w new w' := by
  intro jobs
  induction jobs with
  | nil =>
    intro w sn k acc w' sn' k' out h
    simp [ppQueue] at h
    obtain ⟨rfl, _, _, rfl⟩ := h
    exact ⟨[], by simp, .nil _⟩
  | cons job rest ih =>
    intro w sn k acc w' sn' k' out h
    unfold ppQueue at h
    split at h
    · split at h
      · simp at h
        obtain ⟨rfl, _, _, rfl⟩ := h
        exact ⟨[], by simp, .nil _⟩
      · cases h
    · split at h
      · exact ih _ _ _ _ _ _ _ _ h
      · split at h
        · cases h
        · rename_i w1 a1 hmk
          obtain ⟨_, hm⟩ := mkA_ok hmk
          obtain ⟨new, e, b⟩ := ih _ _ _ _ _ _ _ _ h
          exact ⟨a1 :: new, by simp [e], .cons hm b⟩

/-- **priority: a round's assignments are a chain of accepted constructions from the world the round started in** (hence `built_spec`) -/
theorem priority_round_built (w w' : World) (st st' : St) (res : List Res) (newP : List Nat) (dec : Decision)
    (h : prRound w st res newP = .ok (w', st', dec)) : Built w dec.asgs w' := by
  unfold prRound at h
  simp only at h
  split at h
  · cases h
  · rename_i hq1
    split at h
    · cases h
    · rename_i hq2
      split at h
      · cases h
      · rename_i hq3
        simp only [Except.ok.injEq, Prod.mk.injEq] at h
        obtain ⟨rfl, _, hdec⟩ := h
        obtain ⟨x1, e1, b1⟩ := prQueue_built _ _ _ _ _ _ _ _ _ _ hq1
        obtain ⟨x2, e2, b2⟩ := prQueue_built _ _ _ _ _ _ _ _ _ _ hq2
        obtain ⟨x3, e3, b3⟩ := prQueue_built _ _ _ _ _ _ _ _ _ _ hq3
        simp only [List.nil_append] at e1 e2 e3
        subst e1 e2 e3
        rw [← hdec]
        exact (b1.append b2).append b3

theorem priority_pool_round_built (w w' : World) (st st' : St) (res : List Res) (newP : List Nat) (dec : Decision)
    (h : ppRound w st res newP = .ok (w', st', dec)) : Built w dec.asgs w' := by
  unfold ppRound at h
  split at h
  · cases h
  · simp only at h
    split at h
    · cases h
    · rename_i hq1
      split at h
      · cases h
      · rename_i hq2
        split at h
        · cases h
        · rename_i hq3
          simp only [Except.ok.injEq, Prod.mk.injEq] at h
          obtain ⟨rfl, _, hdec⟩ := h
          obtain ⟨x1, e1, b1⟩ := ppQueue_built _ _ _ _ _ _ _ _ _ _ _ hq1
          obtain ⟨x2, e2, b2⟩ := ppQueue_built _ _ _ _ _ _ _ _ _ _ _ hq2
          obtain ⟨x3, e3, b3⟩ := ppQueue_built _ _ _ _ _ _ _ _ _ _ _ hq3
          simp only [List.nil_append] at e1 e2 e3
          subst e1 e2 e3
          rw [← hdec]
          exact (b1.append b2).append b3

/-! ### only suspendable containers are suspended -/

theorem findCtr_of_mem_nodup : ∀ (l : List Ctr) (c : Ctr), c ∈ l → (l.map (·.cid)).Nodup → findCtr l c.cid = some c := by
  intro l
  induction l with
  | nil => intro c h; simp at h
  | cons x xs ih =>
    intro c hc hnd
    simp only [List.map_cons, List.nodup_cons] at hnd
    unfold findCtr
    rw [List.find?_cons]
    rcases List.mem_cons.mp hc with rfl | hc
    · simp
    · have : (x.cid == c.cid) = false := by
        simp only [beq_eq_false_iff_ne, ne_eq]
        intro e
        exact hnd.1 (e ▸ List.mem_map.mpr ⟨c, hc, rfl⟩)
      rw [this]
      exact ih c hc hnd.2

/-- the executor's `verify_valid_suspend` accepts a list of requests each of which names a suspendable active container (container numbers being
distinct within the pool — part of the pool invariant `PoolInv`, proved for every reachable world) -/
theorem verifySuspends_ok (p : Pool) (hnd : (p.active.map (·.cid)).Nodup) : ∀ (l : List Nat),
    (∀ cid ∈ l, ∃ c ∈ p.active, c.cid = cid ∧ c.canSuspend = true) → verifySuspends p l = .ok () := by
  intro l
  induction l with
  | nil => intro _; rfl
  | cons x xs ih =>
    intro h
    obtain ⟨c, hc, e, hs⟩ := h x (by simp)
    unfold verifySuspends
    rw [← e, findCtr_of_mem_nodup _ c hc hnd]
    simp only [hs, ↓reduceIte]
    exact ih (fun cid hcid => h cid (List.mem_cons_of_mem _ hcid))

/-- **priority suspends only what the executor accepts** -/
theorem priority_round_suspensions_accepted (w w' : World) (st st' : St) (res : List Res) (newP : List Nat) (dec : Decision)
    (h : prRound w st res newP = .ok (w', st', dec)) (p : Nat)
    (hnd : ((w.pools.getD p default).active.map (·.cid)).Nodup) :
    verifySuspends (w.pools.getD p default) ((dec.sus.filter (·.1 == p)).map (·.2)) = .ok () := by
  apply verifySuspends_ok _ hnd
  intro cid hcid
  obtain ⟨x, hx, rfl⟩ := List.mem_map.mp hcid
  obtain ⟨hx1, hx2⟩ := List.mem_filter.mp hx
  have hp : x.1 = p := by simpa using hx2
  obtain ⟨c, hc, e1, _, e3⟩ := (C12.round_preemption w w' st st' res newP dec h).2.2 x hx1
  rw [hp] at hc
  exact ⟨c, hc, e1, e3⟩


/-! ### execution never gets stuck

The executor-side assertions that could fire in the middle of a tick are the refused state changes (`transition`) and the exhausted tick
generator.  For *consistent* containers — operators in the states their position implies (head RUNNING once started, the rest ASSIGNED),
every parent COMPLETED or earlier in the same container, something left to run — none of them can fire.  Consistency is kept by every phase. -/

/-- **`Container.tick` never raises on a consistent container**, and the container stays consistent until it is finished -/
theorem container_tick_never_raises (cfg : Cfg) (w : Store) (c : Ctr) (cons : Int) (rd : CtrReady cfg w c) (hfc : c.completed = false → c.frozen = false) :
    ∃ w' c' cons', c.tick cfg w cons = .ok (w', c', cons') ∧ (c'.completed = false → CtrReady cfg w' c') :=
  tick_succeeds cfg w c cons rd hfc

/-- killing (OOM) never raises: ASSIGNED → FAILED and RUNNING → FAILED are arrows of the table -/
theorem container_kill_never_raises (cfg : Cfg) (w : Store) (c : Ctr) (cons : Int) (rd : CtrReady cfg w c) : ∃ w' c' cons', c.kill w cons = .ok (w', c', cons') :=
  kill_succeeds cfg w c cons rd

/-- suspending at an operator boundary never raises -/
theorem container_suspend_never_raises (cfg : Cfg) (w : Store) (c : Ctr) (rd : CtrReady cfg w c) (hb : headRunning c = false) : ∃ w' c', c.suspend cfg w = .ok (w', c') :=
  suspend_succeeds cfg w c rd hb

/-- **phases 3–6 of a pool tick (write-outs, container ticks, both steps of the OOM killer, collection) never raise on a consistent pool**,
and leave it consistent: by induction, no later tick raises there either as long as the commands it is given pass the gate checks -/
theorem pool_run_never_raises {cfg : Cfg} {w : Store} {p : Pool} {n : Nat} (pinv : PoolInv p n) (m : MemOK p) (rd : PoolReady cfg w p) :
    ∃ w' p' res, poolRun cfg w p = .ok (w', p', res) ∧ PoolReady cfg w' p' :=
  poolRun_succeeds pinv m rd

/-- **a pool tick raises only at its gates.**  On a ready pool, with assignments built by the checked constructor in dependency order and distinct
suspension requests, `ResourcePool.run_one_tick` either succeeds and leaves the pool ready for the next tick, or refuses its commands up front with
one of the gate errors (no such / unsuspendable container, oversold CPU or RAM, wrong operator count), in a well-defined state.
It never fails in the middle of a tick.  (`PoolReadyF`, `AsgsReady`: Proofs/Progress.lean.) -/
theorem pool_tick_raises_only_at_the_gates {cfg : Cfg} {w : Store} {p : Pool} {n : Nat} {cm : Cmds}
    (g : PoolGoodMem cfg p n) (rd : PoolReadyF cfg w p) (ha : AsgsReady w cm.asgs) (hs : cm.susp.Nodup)
    (hnd : (ownP p ++ cm.asgs.flatMap (·.ops)).Nodup) :
    (∃ w' p' n' res, poolTick cfg w p n cm = .ok (w', p', n', res) ∧ PoolReadyF cfg w' p') ∨
    (∃ e st, poolTick cfg w p n cm = .error (e, some st) ∧ e.isGate = true) :=
  poolTick_raises_only_at_the_gates g rd ha hs hnd

/-- **`Executor.run_one_tick` raises only at its gates.**  From a ready world, after any chain of accepted `Assignment` constructions whose operator lists are
in dependency order and have segments, and with suspension requests naming each container at most once, the executor tick either succeeds and leaves a
ready world, or refuses the commands up front (unknown pool; unknown or unsuspendable container; oversold CPU or RAM; wrong operator count) in a well-defined
state.  Nothing fails in the middle of a tick.  (`WorldReady`, `ParentsOK`: Proofs/WorldLive.lean, Proofs/Progress.lean.) -/
theorem executor_tick_raises_only_at_the_gates (w0 w1 : World) (asgs : List Asg) (sus : List (Nat × Nat))
    (hr : WorldReady w0) (hb : Built w0 asgs w1) (hseg : ∀ a ∈ asgs, ∀ r ∈ a.ops, w0.store.segsOf r ≠ [])
    (hpar : ∀ a ∈ asgs, ParentsOK w1.store a.ops) (hsus : ∀ i, ((sus.filter (·.1 == i)).map (·.2)).Nodup) :
    (∃ w2 res, w1.execTick sus asgs = .ok (w2, res) ∧ WorldReady w2) ∨
    (∃ e st, w1.execTick sus asgs = .error (e, some st) ∧ (e.isGate = true ∨ e = .unknownPool)) :=
  execTick_raises_only_at_the_gates w0 w1 asgs sus hr hb hseg hpar hsus

/-- **if the gates let the commands through, the tick succeeds** and the world is ready for the next one -/
theorem executor_tick_succeeds_when_the_gates_pass (w0 w1 : World) (asgs : List Asg)
    (hr : WorldReady w0) (hb : Built w0 asgs w1) (hseg : ∀ a ∈ asgs, ∀ r ∈ a.ops, w0.store.segsOf r ≠ [])
    (hpar : ∀ a ∈ asgs, ParentsOK w1.store a.ops) (hpool : ∀ a ∈ asgs, a.pool < w1.pools.length)
    (hv : ∀ k p, w1.pools[k]? = some p → (asgs.filter (·.pool == k)).isEmpty = true ∨ verifyAssignments w1.cfg p (asgs.filter (·.pool == k)) = .ok ())
    (hcnt : ∀ a ∈ asgs, opCountOk w1.cfg a = true) :
    ∃ w2 res, w1.execTick [] asgs = .ok (w2, res) ∧ WorldReady w2 :=
  let ⟨w2, res, h, r, _⟩ := execTick_succeeds_of_gates w0 w1 asgs hr hb hseg hpar hpool hv hcnt; ⟨w2, res, h, r⟩

/-- **the whole run, for one shipped policy.**  The naive scheduler with single-operator containers — which is also the starter scheduler written by
`eudoxia init` — drives the simulation to its last tick without raising: from a ready world (e.g. a fresh one, `fresh_world_ready`) whose pipelines list
existing operators once and give each a segment, for every sequence of arrival batches. -/
theorem naive_single_operator_run_never_raises (arrivals : List (List Nat)) (w : World) (st : Naive.St) (res : List Res)
    (hr : WorldReady w) (wf : w.WFP) (hs : w.SegsOK) (hm : w.cfg.multiOp = false) : ∃ out, Naive.loop w st res arrivals = .ok out :=
  Naive.run_never_raises arrivals w st res hr wf hs hm

/-- **the whole run, default configuration of the naive scheduler.**  With multi-operator containers the naive scheduler drives the simulation to its last
tick without raising: from a ready world without write-outs whose pipelines are well-formed DAGs listed in topological order (`NaiveInv`: operators exist, are
listed once, have a segment, belong to the pipeline that lists them, come after their parents; the counts are the histogram), for every sequence of arrival
batches.  The proof carries "a pipeline with an operator in a container has no operator waiting" through rounds and ticks. -/
theorem naive_multi_operator_run_never_raises (arrivals : List (List Nat)) (w : World) (st : Naive.St) (res : List Res)
    (hr : WorldReady w) (inv : NaiveInv w) (hns : w.NoSusp) (hm : w.cfg.multiOp = true) : ∃ out, Naive.loopM true w st res arrivals = .ok out :=
  Naive.run_multi_never_raises arrivals w st res hr inv hns hm

/-- the hypotheses of both whole-run theorems are met by a concrete world (a diamond DAG a → {b, c} → d on two pools, nothing started): non-vacuity -/
theorem whole_run_theorems_apply_to_a_concrete_world (arrivals : List (List Nat)) :
    (∃ out, Naive.loop (NaiveExample.world false) {} [] arrivals = .ok out) ∧ (∃ out, Naive.loopM true (NaiveExample.world true) {} [] arrivals = .ok out) :=
  NaiveExample.runs arrivals

/-- a fresh pool is ready (non-vacuity of the hypotheses above) -/
theorem fresh_pool_ready (cfg : Cfg) (w : Store) (cpus ram : Nat) : PoolReadyF cfg w (Pool.fresh cpus ram) :=
  ⟨⟨⟨by simp [Pool.fresh], by simp [Pool.fresh], by simp [ownP, own, Pool.fresh], by intro c hc; simp [Pool.fresh] at hc⟩,
    by intro c hc; simp [Pool.fresh] at hc, by intro c hc; simp [Pool.fresh] at hc⟩, by intro c hc; simp [Pool.fresh] at hc⟩

/-- **the naive scheduler and the `eudoxia init` starter never raise**: in any world whose pipelines list existing operators without repetition,
a round returns a decision, whatever the queue, the results and the arrivals are -/
theorem naive_round_never_raises (multi : Bool) (w : World) (st : Naive.St) (results : List Res) (newP : List Nat) (wf : w.WFP) :
    ∃ w' st' dec, Naive.round multi w st results newP = .ok (w', st', dec) ∧ w'.WFP :=
  Naive.round_never_raises multi w st results newP wf

end Eudoxia.C08
