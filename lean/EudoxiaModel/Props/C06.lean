import EudoxiaModel.Model.Sim
import EudoxiaModel.Model.Sweep
import EudoxiaModel.Proofs.Store
import EudoxiaModel.Proofs.Complete
import EudoxiaModel.Proofs.PrioMulti
import EudoxiaModel.Proofs.OnePipeRounds
/-! # C06 — completion, latency and returned statistics match an independent recount -/
namespace Eudoxia.C06
open Eudoxia.Sim Extracted

theorem foldl_stepC (es : List TickEv) (c : Counters) :
    es.foldl stepC c =
      { created := c.created + (es.map (·.arrivals.length)).sum,
        asg := c.asg + (es.map (·.nAsg)).sum,
        sus := c.sus + (es.map (·.nSus)).sum,
        failures := c.failures + (es.flatMap (·.results)).countP (!·.1),
        okContainers := c.okContainers + (es.flatMap (·.results)).countP (·.1),
        tickTimes := c.tickTimes ++ (es.flatMap (·.results)).map (·.2),
        arrQ := c.arrQ + countPrio prioQuery (es.flatMap (·.arrivals)),
        arrI := c.arrI + countPrio prioInteractive (es.flatMap (·.arrivals)),
        arrB := c.arrB + countPrio prioBatch (es.flatMap (·.arrivals)),
        latQ := c.latQ ++ latOf prioQuery (es.flatMap (·.finished)),
        latI := c.latI ++ latOf prioInteractive (es.flatMap (·.finished)),
        latB := c.latB ++ latOf prioBatch (es.flatMap (·.finished)) } := by
  induction es generalizing c with
  | nil => simp [countPrio, latOf]
  | cons e es ih =>
    rw [List.foldl_cons, ih]
    simp only [stepC, List.map_cons, List.sum_cons, List.flatMap_cons, List.countP_append, List.map_append, countPrio,
      latOf, List.filter_append, List.length_append, List.append_assoc, Nat.add_assoc, List.countP_eq_length_filter]

/-- **the statistics the loop accumulates equal an independent recount of the run** -/
theorem loop_equals_recount (es : List TickEv) : loopC es = recount es := by
  unfold loopC recount
  rw [foldl_stepC]
  simp

/-- the returned statistics are those of the recount -/
theorem stats_equal_recount (es : List TickEv) : statsOf (loopC es) = statsOf (recount es) := by
  rw [loop_equals_recount]

/-- **arrivals per priority partition the total** (every pipeline has one of the three priorities) -/
theorem arrivals_partition (l : List Nat) (h : ∀ p ∈ l, p = prioQuery ∨ p = prioInteractive ∨ p = prioBatch) :
    countPrio prioQuery l + countPrio prioInteractive l + countPrio prioBatch l = l.length := by
  induction l with
  | nil => rfl
  | cons p ps ih =>
    have hp := h p (by simp)
    have ih' := ih (fun x hx => h x (by simp [hx]))
    have e1 : prioQuery = 1 := rfl
    have e2 : prioInteractive = 2 := rfl
    have e3 : prioBatch = 3 := rfl
    simp only [countPrio, e1, e2, e3] at *
    rcases hp with rfl | rfl | rfl <;> simp [List.filter_cons] <;> omega

/-- **completions per priority partition the completed pipelines**, and mean / p99 are over exactly those latencies -/
theorem completions_partition (c : Counters) :
    (statsOf c).all.completions = (statsOf c).query.completions + (statsOf c).interactive.completions + (statsOf c).batch.completions ∧
    (statsOf c).all.mean = mean? (c.latQ ++ c.latI ++ c.latB) ∧ (statsOf c).all.p99 = p99? (c.latQ ++ c.latI ++ c.latB) := by
  simp [statsOf, classStats, Nat.add_assoc]

/-- **empty cases**: a class in which nothing completed has count 0 and undefined (NaN) latency figures -/
theorem empty_class_undefined (arr : Nat) : classStats arr [] = { arrivals := arr, completions := 0, mean := none, p99 := none } := rfl

/-- a run in which nothing arrives and nothing finishes -/
theorem empty_run : statsOf (loopC []) =
    { created := 0, containersCompleted := 0, asg := 0, sus := 0, failures := 0, ctrP99 := none,
      all := ⟨0, 0, none, none⟩, query := ⟨0, 0, none, none⟩, interactive := ⟨0, 0, none, none⟩, batch := ⟨0, 0, none, none⟩ } := by
  decide

example : p99? [10, 20, 30, 40, 50] = some (4960, 100) ∧ mean? [1, 2, 6] = some (9, 3) := by decide


/-! ### counted as completed exactly once, in the first swept tick in which all its operators are completed -/
open Eudoxia Eudoxia.Sweep OpState

/-- the bookkeeping is consistent: no pipeline is outstanding twice, none is both outstanding and finished, none is finished twice -/
structure TrackOK (tr : Track) : Prop where
  nd : (tr.outstanding.map (·.1) ++ tr.finished.map (·.1)).Nodup

theorem trackOK_init : TrackOK {} := ⟨by simp⟩

theorem arrive_ok (tr : Track) (pid t : Nat) (ops : List Nat) (h : TrackOK tr)
    (hnew : pid ∉ tr.outstanding.map (·.1) ∧ pid ∉ tr.finished.map (·.1)) : TrackOK (arrive tr pid t ops) := by
  constructor
  have := h.nd
  simp only [arrive, List.map_append, List.map_cons, List.map_nil, List.append_assoc]
  rw [List.nodup_append] at this ⊢
  obtain ⟨n1, n2, n3⟩ := this
  refine ⟨n1, ?_, ?_⟩
  · simp only [List.singleton_append, List.nodup_cons]
    exact ⟨hnew.2, n2⟩
  · intro a ha b hb
    rcases List.mem_append.mp hb with hb | hb
    · simp at hb; subst hb; intro e; subst e; exact hnew.1 ha
    · exact n3 a ha b hb

/-- **exactly once.**  The sweep keeps the bookkeeping consistent: whatever it records as finished leaves the outstanding set in the same step,
so no pipeline can ever be recorded twice. -/
theorem sweep_ok (s : Store) (t : Nat) (hasRes : Bool) (tr : Track) (h : TrackOK tr) : TrackOK (sweep s t hasRes tr) := by
  unfold sweep
  split
  · exact h
  · constructor
    simp only [List.map_append, List.map_map]
    have hperm : (List.map (fun p => p.1) (tr.outstanding.filter (fun p => !allCompleted s p.2.2)) ++
        (List.map (fun p => p.1) tr.finished ++ List.map ((fun p => p.1) ∘ fun p => (p.1, t, t - p.2.1)) (tr.outstanding.filter (fun p => allCompleted s p.2.2)))).Perm
        (List.map (fun p => p.1) tr.outstanding ++ List.map (fun p => p.1) tr.finished) := by
      have hsplit : (tr.outstanding.filter (fun p => !allCompleted s p.2.2) ++ tr.outstanding.filter (fun p => allCompleted s p.2.2)).Perm tr.outstanding := by
        have := List.filter_append_perm (fun (p : Nat × Nat × List Nat) => !allCompleted s p.2.2) tr.outstanding
        simpa using this
      have hm := hsplit.map (fun p => p.1)
      simp only [List.map_append] at hm
      have e : List.map ((fun p => p.1) ∘ fun (p : Nat × Nat × List Nat) => (p.1, t, t - p.2.1)) (tr.outstanding.filter (fun p => allCompleted s p.2.2)) =
          List.map (fun p => p.1) (tr.outstanding.filter (fun p => allCompleted s p.2.2)) := by
        apply List.map_congr_left; intro x _; rfl
      rw [e]
      refine (List.Perm.append_left _ List.perm_append_comm).trans ?_
      rw [← List.append_assoc]
      exact List.Perm.append_right _ hm
    exact hperm.nodup_iff.mpr h.nd

/-- **in the tick its last operator completes.**  In a swept tick (one in which the executor reported a result) an outstanding pipeline is recorded as
finished if and only if all its operators are COMPLETED at that moment, with the latency `t − arrival tick`; otherwise it stays outstanding. -/
theorem sweep_records_exactly_the_complete_ones (s : Store) (t : Nat) (tr : Track) (p : Nat × Nat × List Nat) (hp : p ∈ tr.outstanding) :
    (allCompleted s p.2.2 = true → (p.1, t, t - p.2.1) ∈ (sweep s t true tr).finished ∧ p ∉ (sweep s t true tr).outstanding) ∧
    (allCompleted s p.2.2 = false → p ∈ (sweep s t true tr).outstanding) := by
  simp only [sweep, Bool.not_true, Bool.false_eq_true, ↓reduceIte]
  constructor
  · intro hc
    refine ⟨List.mem_append_right _ (List.mem_map.mpr ⟨p, List.mem_filter.mpr ⟨hp, hc⟩, rfl⟩), ?_⟩
    intro hx
    have := (List.mem_filter.mp hx).2
    simp [hc] at this
  · intro hc
    exact List.mem_filter.mpr ⟨hp, by simp [hc]⟩

/-- nothing is recorded in a tick without results, and a finished pipeline stays finished with the same finish tick -/
theorem sweep_monotone (s : Store) (t : Nat) (hasRes : Bool) (tr : Track) : ∀ x ∈ tr.finished, x ∈ (sweep s t hasRes tr).finished := by
  intro x hx
  unfold sweep
  split
  · exact hx
  · exact List.mem_append_left _ hx

/-- **not later.**  Completion is final (C02), so a pipeline all of whose operators are completed stays so through any further accepted transitions:
it is recorded by the next sweep that runs at all. -/
theorem complete_stays_complete {s s' : Store} (h : Steps s s') (ops : List Nat) (hc : allCompleted s ops = true) : allCompleted s' ops = true := by
  simp only [allCompleted, List.all_eq_true, beq_iff_eq] at hc ⊢
  intro o ho
  exact completed_final h o (hc o ho)

/-! ### the tick in which the last operator completes is a swept tick -/

/-- **an operator completes only inside a container, and the container that completes a pipeline's last operator reports success in that very tick.**  From a
ready world whose containers each hold operators of one pipeline only (as every shipped scheduler builds them; `World.OnePipe`, handed on by the tick), with
container numbers never re-used and every container's record straight: if after an executor tick — any pools, any admissible assignments and suspension
requests, kills and write-outs included — all operators of a pipeline are COMPLETED and one of them was not before the tick, then the tick returns a successful
result naming an operator of that pipeline.  So the tick has results, and the simulator's completion sweep, which looks only then, runs. -/
theorem completion_comes_with_a_success_result_in_the_same_tick (w0 w1 : World) (asgs : List Asg) (sus : List (Nat × Nat)) (hr : WorldReady w0)
    (hb : Built w0 asgs w1) (hseg : ∀ a ∈ asgs, ∀ r ∈ a.ops, w0.store.segsOf r ≠ []) (hpar : ∀ a ∈ asgs, ParentsOK w1.store a.ops)
    (hsus : ∀ i, ((sus.filter (·.1 == i)).map (·.2)).Nodup) (hf : w0.FinS) (hc : w0.CidsOK) (hpid : w0.PidOK) (h1 : w0.OnePipe)
    (ha1 : ∀ a ∈ asgs, InOne w0.pipes a.ops) {w2 : World} {res : List Res} (hx : w1.execTick sus asgs = .ok (w2, res)) :
    w2.OnePipe ∧ (∀ r ∈ res, InOne w0.pipes r.ops) ∧ ∀ pid, (∀ o ∈ (w0.pipes.getD pid default).order, w2.store.stOf o = completed) →
      (∃ o ∈ (w0.pipes.getD pid default).order, w1.store.stOf o ≠ completed) →
      ∃ r ∈ res, r.ok = true ∧ ∃ o ∈ r.ops, o ∈ (w0.pipes.getD pid default).order :=
  execTick_completion w0 w1 asgs sus hr hb hseg hpar hsus hf hc hpid h1 ha1 hx

/-- **counted in the tick in which its last operator completes.**  Under the same hypotheses: an outstanding pipeline whose operators are all COMPLETED after
the tick, one of them not before, is recorded as finished by the sweep of this very tick (`hasRes` is what the main loop computes: the tick returned a
result), with latency `t − arrival`, and leaves the outstanding set. -/
theorem pipeline_is_counted_in_the_tick_its_last_operator_completes (w0 w1 : World) (asgs : List Asg) (sus : List (Nat × Nat)) (hr : WorldReady w0)
    (hb : Built w0 asgs w1) (hseg : ∀ a ∈ asgs, ∀ r ∈ a.ops, w0.store.segsOf r ≠ []) (hpar : ∀ a ∈ asgs, ParentsOK w1.store a.ops)
    (hsus : ∀ i, ((sus.filter (·.1 == i)).map (·.2)).Nodup) (hf : w0.FinS) (hc : w0.CidsOK) (hpid : w0.PidOK) (h1 : w0.OnePipe)
    (ha1 : ∀ a ∈ asgs, InOne w0.pipes a.ops) {w2 : World} {res : List Res} (hx : w1.execTick sus asgs = .ok (w2, res))
    (t : Nat) (tr : Track) (pid arrival : Nat) (hp : (pid, arrival, (w0.pipes.getD pid default).order) ∈ tr.outstanding)
    (hall : allCompleted w2.store (w0.pipes.getD pid default).order = true) (hnew : allCompleted w1.store (w0.pipes.getD pid default).order = false) :
    (pid, t, t - arrival) ∈ (sweep w2.store t (!res.isEmpty) tr).finished ∧
    (pid, arrival, (w0.pipes.getD pid default).order) ∉ (sweep w2.store t (!res.isEmpty) tr).outstanding := by
  have hall' : ∀ o ∈ (w0.pipes.getD pid default).order, w2.store.stOf o = completed := by
    simpa [allCompleted] using hall
  have hnew' : ∃ o ∈ (w0.pipes.getD pid default).order, w1.store.stOf o ≠ completed := by
    simpa [allCompleted] using hnew
  obtain ⟨r, hrr, _, _⟩ := (execTick_completion w0 w1 asgs sus hr hb hseg hpar hsus hf hc hpid h1 ha1 hx).2.2 pid hall' hnew'
  have hne : (!res.isEmpty) = true := by
    cases res with
    | nil => cases hrr
    | cons x xs => rfl
  rw [hne]
  exact (sweep_records_exactly_the_complete_ones w2.store t tr _ hp).1 hall

/-! ### over a whole run: no pipeline is ever recorded twice, and a recorded finish is never revised -/

/-- the pipelines a bookkeeping state knows of -/
def trackPids (tr : Track) : List Nat := tr.outstanding.map (·.1) ++ tr.finished.map (·.1)

theorem sweep_pids_subset (s : Store) (t : Nat) (hasRes : Bool) (tr : Track) : ∀ x ∈ trackPids (sweep s t hasRes tr), x ∈ trackPids tr := by
  intro x hx
  unfold sweep at hx
  split at hx
  · exact hx
  · simp only [trackPids, List.map_append, List.map_map, List.mem_append, List.mem_map, List.mem_filter, Function.comp_apply] at hx ⊢
    rcases hx with ⟨a, ⟨ha, _⟩, rfl⟩ | ⟨a, ha, rfl⟩ | ⟨a, ⟨ha, _⟩, rfl⟩
    · exact Or.inl ⟨a, ha, rfl⟩
    · exact Or.inr ⟨a, ha, rfl⟩
    · exact Or.inl ⟨a, ha, rfl⟩

theorem arrivals_ok (t : Nat) : ∀ (arr : List (Nat × List Nat)) (tr : Track), TrackOK tr → (arr.map (·.1)).Nodup →
    (∀ x ∈ trackPids tr, x ∉ arr.map (·.1)) →
    TrackOK (arr.foldl (fun tr a => arrive tr a.1 t a.2) tr) ∧
    ∀ x ∈ trackPids (arr.foldl (fun tr a => arrive tr a.1 t a.2) tr), x ∈ trackPids tr ∨ x ∈ arr.map (·.1)
  | [], tr, h, _, _ => ⟨h, fun x hx => Or.inl hx⟩
  | a :: arr, tr, h, hnd, hdis => by
    simp only [List.map_cons, List.nodup_cons] at hnd
    have hnew : a.1 ∉ tr.outstanding.map (·.1) ∧ a.1 ∉ tr.finished.map (·.1) := by
      constructor
      · intro hm; exact hdis a.1 (List.mem_append_left _ hm) (by simp)
      · intro hm; exact hdis a.1 (List.mem_append_right _ hm) (by simp)
    have hpids : ∀ x ∈ trackPids (arrive tr a.1 t a.2), x ∈ trackPids tr ∨ x = a.1 := by
      intro x hx
      simp only [trackPids, arrive, List.map_append, List.map_cons, List.map_nil, List.mem_append, List.mem_cons, List.not_mem_nil, or_false] at hx ⊢
      rcases hx with (hx | hx) | hx
      · exact Or.inl (Or.inl hx)
      · exact Or.inr hx
      · exact Or.inl (Or.inr hx)
    obtain ⟨r1, r2⟩ := arrivals_ok t arr (arrive tr a.1 t a.2) (arrive_ok tr a.1 t a.2 h hnew) hnd.2 (by
      intro x hx hm
      rcases hpids x hx with hx | rfl
      · exact hdis x hx (by simp [hm])
      · exact hnd.1 hm)
    refine ⟨r1, fun x hx => ?_⟩
    rcases r2 x hx with hx | hx
    · rcases hpids x hx with hx | rfl
      · exact Or.inl hx
      · exact Or.inr (by simp)
    · exact Or.inr (by simp [hx])

/-- one tick of the main loop's bookkeeping, as `runSweep` folds it -/
def sweepStep (n : Nat) (acc : Track × Nat) (h : TickH) : Track × Nat :=
  (sweep (storeOf n h.completed) acc.2 h.hasRes (h.arr.foldl (fun tr a => arrive tr a.1 acc.2 a.2) acc.1), acc.2 + 1)

theorem runSweep_eq (n : Nat) (hist : List TickH) : runSweep n hist = (hist.foldl (sweepStep n) ({}, 0)).1 := rfl

theorem history_ok (n : Nat) : ∀ (hist : List TickH) (acc : Track × Nat), TrackOK acc.1 →
    (hist.flatMap (fun h => h.arr.map (·.1))).Nodup → (∀ x ∈ trackPids acc.1, x ∉ hist.flatMap (fun h => h.arr.map (·.1))) →
    TrackOK (hist.foldl (sweepStep n) acc).1 ∧ ∀ x ∈ acc.1.finished, x ∈ (hist.foldl (sweepStep n) acc).1.finished
  | [], acc, h, _, _ => ⟨h, fun x hx => hx⟩
  | hh :: hist, acc, h, hnd, hdis => by
    simp only [List.flatMap_cons] at hnd hdis
    rw [List.nodup_append] at hnd
    obtain ⟨n1, n2, n3⟩ := hnd
    obtain ⟨a1, a2⟩ := arrivals_ok acc.2 hh.arr acc.1 h n1 (fun x hx hm => hdis x hx (List.mem_append_left _ hm))
    have hstep : TrackOK (sweepStep n acc hh).1 := sweep_ok _ _ _ _ a1
    have hsub : ∀ x ∈ trackPids (sweepStep n acc hh).1, x ∈ trackPids acc.1 ∨ x ∈ hh.arr.map (·.1) :=
      fun x hx => a2 x (sweep_pids_subset _ _ _ _ x hx)
    obtain ⟨r1, r2⟩ := history_ok n hist (sweepStep n acc hh) hstep n2 (by
      intro x hx hm
      rcases hsub x hx with hx | hx
      · exact hdis x hx (List.mem_append_right _ hm)
      · exact n3 x hx x hm rfl)
    refine ⟨r1, fun x hx => r2 x ?_⟩
    apply sweep_monotone
    clear r1 r2 hsub hstep a1 a2
    generalize acc.1 = tr at hx
    induction hh.arr generalizing tr with
    | nil => exact hx
    | cons a arr ih => exact ih (arrive tr a.1 acc.2 a.2) hx

/-- **counted as completed exactly once, over a whole run.**  For every history of ticks — any arrivals (each pipeline arriving once), any ticks with or
without results, any operators completed — the bookkeeping of the main loop never holds a pipeline twice: no pipeline is recorded as finished twice,
none is at once outstanding and finished.  (The per-tick theorems above say *which* pipelines a sweep records; this one lifts "at most once" from one sweep
to all of them.) -/
theorem no_pipeline_is_counted_twice_over_a_whole_run (n : Nat) (hist : List TickH)
    (harr : (hist.flatMap (fun h => h.arr.map (·.1))).Nodup) :
    ((runSweep n hist).finished.map (·.1)).Nodup ∧
    ∀ p ∈ (runSweep n hist).outstanding, p.1 ∉ (runSweep n hist).finished.map (·.1) := by
  rw [runSweep_eq]
  have h := (history_ok n hist ({}, 0) trackOK_init harr (by intro x hx; simp [trackPids] at hx)).1.nd
  rw [List.nodup_append] at h
  exact ⟨h.2.1, fun p hp hm => h.2.2 p.1 (List.mem_map.mpr ⟨p, hp, rfl⟩) p.1 hm rfl⟩

/-- **a recorded completion is never revised**: what the bookkeeping has recorded after a prefix of the run (pipeline, finish tick, latency) is still
recorded, unchanged, after the whole run. -/
theorem recorded_completions_are_kept_over_a_whole_run (n : Nat) (hist more : List TickH)
    (harr : ((hist ++ more).flatMap (fun h => h.arr.map (·.1))).Nodup) :
    ∀ x ∈ (runSweep n hist).finished, x ∈ (runSweep n (hist ++ more)).finished := by
  rw [runSweep_eq, runSweep_eq, List.foldl_append]
  simp only [List.flatMap_append] at harr
  rw [List.nodup_append] at harr
  obtain ⟨n1, n2, n3⟩ := harr
  have h1 := history_ok n hist ({}, 0) trackOK_init n1 (by intro x hx; simp [trackPids] at hx)
  -- the pipelines known after the prefix all arrived in the prefix
  have hknown : ∀ (hs : List TickH) (acc : Track × Nat), ∀ x ∈ trackPids (hs.foldl (sweepStep n) acc).1,
      x ∈ trackPids acc.1 ∨ x ∈ hs.flatMap (fun h => h.arr.map (·.1)) := by
    intro hs
    induction hs with
    | nil => intro acc x hx; exact Or.inl hx
    | cons hh hs ih =>
      intro acc x hx
      rcases ih (sweepStep n acc hh) x hx with hx | hx
      · have := sweep_pids_subset _ _ _ _ x hx
        -- arrivals only add their own pipelines
        have hadd : ∀ (arr : List (Nat × List Nat)) (tr : Track), ∀ y ∈ trackPids (arr.foldl (fun tr a => arrive tr a.1 acc.2 a.2) tr),
            y ∈ trackPids tr ∨ y ∈ arr.map (·.1) := by
          intro arr
          induction arr with
          | nil => intro tr y hy; exact Or.inl hy
          | cons a arr iha =>
            intro tr y hy
            rcases iha (arrive tr a.1 acc.2 a.2) y hy with hy | hy
            · simp only [trackPids, arrive, List.map_append, List.map_cons, List.map_nil, List.mem_append, List.mem_cons, List.not_mem_nil, or_false] at hy ⊢
              rcases hy with (hy | hy) | hy
              · exact Or.inl (Or.inl hy)
              · exact Or.inr (Or.inl hy)
              · exact Or.inl (Or.inr hy)
            · exact Or.inr (by simp [hy])
        rcases hadd hh.arr acc.1 x this with h | h
        · exact Or.inl h
        · exact Or.inr (by simp only [List.flatMap_cons, List.mem_append]; exact Or.inl h)
      · exact Or.inr (by simp only [List.flatMap_cons, List.mem_append]; exact Or.inr hx)
  exact (history_ok n more _ h1.1 n2 (by
    intro x hx hm
    rcases hknown hist ({}, 0) x hx with h | h
    · simp [trackPids] at h
    · exact n3 x h x hm rfl)).2

/-- non-vacuity: a three-tick history in which a pipeline arrives, completes and is counted once, while a second one stays outstanding -/
example : (runSweep 3 [{ arr := [(0, [0, 1]), (1, [2])] }, { hasRes := true, completed := [0] }, { hasRes := true, completed := [0, 1] },
    { hasRes := true, completed := [0, 1] }]).finished = [(0, 2, 2)] := by decide

/-- non-vacuity: a world without containers satisfies `World.OnePipe` -/
theorem fresh_world_onePipe (cfg : Cfg) (store : Store) (pipes : Array PipeInfo) (caps : List (Nat × Nat)) :
    World.OnePipe { cfg := cfg, store := store, pools := caps.map (fun c => Pool.fresh c.1 c.2), pipes := pipes } := by
  refine ⟨fun p hp c hc => ?_, fun p hp c hc => ?_⟩
  · obtain ⟨x, _, rfl⟩ := List.mem_map.mp hp
    simp [Pool.fresh] at hc
  · obtain ⟨x, _, rfl⟩ := List.mem_map.mp hp
    simp [Pool.fresh] at hc

/-- the hypotheses of the two theorems above hold at every tick of every run of `priority` with multi-operator containers (pre-emption included): they are
part of the loop invariant that `C08.priority_multi_operator_run_never_raises` re-establishes tick after tick -/
theorem priority_runs_meet_the_hypotheses (w : World) (st : Prio.St) (cs js : List Ctr) (F : List Nat) (inv : PM.PMInv w st cs js F) :
    WorldReady w ∧ w.FinS ∧ w.CidsOK ∧ w.PidOK ∧ w.OnePipe := by
  refine ⟨inv.ready, inv.fins, inv.cids, inv.pid, ⟨fun p hp c hc => ?_, inv.sne⟩⟩
  rcases List.mem_append.mp hc with h | h
  · obtain ⟨P, hP, _⟩ := (inv.goodA p hp c h).2
    exact ⟨P, hP⟩
  · obtain ⟨P, hP, _⟩ := (inv.goodS p hp c h).2
    exact ⟨P, hP⟩

/-- … and every container the naive scheduler (either container mode; the `eudoxia init` starter is the single-operator mode) builds holds operators of one
pipeline, so with `completion_comes_with_a_success_result_in_the_same_tick` handing `World.OnePipe` on from tick to tick the hypothesis holds in all its runs -/
theorem naive_builds_one_pipeline_containers (multi : Bool) (w w' : World) (st st' : Naive.St) (res : List Res) (newP : List Nat) (dec : Decision)
    (h : Naive.round multi w st res newP = .ok (w', st', dec)) : ∀ a ∈ dec.asgs, InOne w.pipes a.ops :=
  Naive.round_inOne multi w w' st st' res newP dec h

/-- likewise overbook: one operator per container, of a registered pipeline, as long as its queue holds registered operators only — which the round hands on -/
theorem overbook_builds_one_pipeline_containers (w w' : World) (st st' : Overbook.St) (res : List Res) (newP : List Nat) (dec : Decision)
    (h : Overbook.round w st res newP = .ok (w', st', dec)) (hq : ∀ r ∈ st.opq, Overbook.Reg w.pipes r) :
    (∀ a ∈ dec.asgs, InOne w.pipes a.ops) ∧ (∀ r ∈ st'.opq, Overbook.Reg w.pipes r) :=
  Overbook.round_inOne w w' st st' res newP dec h hq

/-- likewise priority-pool: if the waiting jobs and the results it is handed hold operators of one pipeline each, so do its assignments and the jobs it keeps -/
theorem priority_pool_builds_one_pipeline_containers (w w' : World) (st st' : Prio.St) (results : List Res) (newP : List Nat) (dec : Decision)
    (h : Prio.ppRound w st results newP = .ok (w', st', dec)) (hj : PP.JobsOne w.pipes st) (hr : ∀ r ∈ results, InOne w.pipes r.ops) :
    (∀ a ∈ dec.asgs, InOne w.pipes a.ops) ∧ PP.JobsOne w.pipes st' :=
  PP.ppRound_inOne w w' st st' results newP dec h hj hr

end Eudoxia.C06
