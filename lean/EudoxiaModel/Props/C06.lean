import EudoxiaModel.Model.Sim
/-! # C06 — completion, latency and returned statistics match an independent recount -/
namespace Eudoxia.C06
open Eudoxia.Sim Extracted

theorem foldl_stepC (es : List TickEv) (c : Counters) :
    es.foldl stepC c =
      { created := c.created + (es.map (·.arrivals.length)).sum,
        asg := c.asg + (es.map (·.nAsg)).sum,
        sus := c.sus + (es.map (·.nSus)).sum,
        failures := c.failures + (es.flatMap (·.results)).countP (!·.1),
        okContainers := c.okContainers + (es.flatMap (·.results)).countP (·.1),
        tickTimes := c.tickTimes ++ (es.flatMap (·.results)).map (·.2),
        arrQ := c.arrQ + countPrio prioQuery (es.flatMap (·.arrivals)),
        arrI := c.arrI + countPrio prioInteractive (es.flatMap (·.arrivals)),
        arrB := c.arrB + countPrio prioBatch (es.flatMap (·.arrivals)),
        latQ := c.latQ ++ latOf prioQuery (es.flatMap (·.finished)),
        latI := c.latI ++ latOf prioInteractive (es.flatMap (·.finished)),
        latB := c.latB ++ latOf prioBatch (es.flatMap (·.finished)) } := by
  induction es generalizing c with
  | nil => simp [countPrio, latOf]
  | cons e es ih =>
    rw [List.foldl_cons, ih]
    simp only [stepC, List.map_cons, List.sum_cons, List.flatMap_cons, List.countP_append, List.map_append, countPrio,
      latOf, List.filter_append, List.length_append, List.append_assoc, Nat.add_assoc, List.countP_eq_length_filter]

/-- **the statistics the loop accumulates equal an independent recount of the run** -/
theorem loop_equals_recount (es : List TickEv) : loopC es = recount es := by
  unfold loopC recount
  rw [foldl_stepC]
  simp

/-- the returned statistics are those of the recount -/
theorem stats_equal_recount (es : List TickEv) : statsOf (loopC es) = statsOf (recount es) := by
  rw [loop_equals_recount]

/-- **arrivals per priority partition the total** (every pipeline has one of the three priorities) -/
theorem arrivals_partition (l : List Nat) (h : ∀ p ∈ l, p = prioQuery ∨ p = prioInteractive ∨ p = prioBatch) :
    countPrio prioQuery l + countPrio prioInteractive l + countPrio prioBatch l = l.length := by
  induction l with
  | nil => rfl
  | cons p ps ih =>
    have hp := h p (by simp)
    have ih' := ih (fun x hx => h x (by simp [hx]))
    have e1 : prioQuery = 1 := rfl
    have e2 : prioInteractive = 2 := rfl
    have e3 : prioBatch = 3 := rfl
    simp only [countPrio, e1, e2, e3] at *
    rcases hp with rfl | rfl | rfl <;> simp [List.filter_cons] <;> omega

/-- **completions per priority partition the completed pipelines**, and mean / p99 are over exactly those latencies -/
theorem completions_partition (c : Counters) :
    (statsOf c).all.completions = (statsOf c).query.completions + (statsOf c).interactive.completions + (statsOf c).batch.completions ∧
    (statsOf c).all.mean = mean? (c.latQ ++ c.latI ++ c.latB) ∧ (statsOf c).all.p99 = p99? (c.latQ ++ c.latI ++ c.latB) := by
  simp [statsOf, classStats, Nat.add_assoc]

/-- **empty cases**: a class in which nothing completed has count 0 and undefined (NaN) latency figures -/
theorem empty_class_undefined (arr : Nat) : classStats arr [] = { arrivals := arr, completions := 0, mean := none, p99 := none } := rfl

/-- a run in which nothing arrives and nothing finishes -/
theorem empty_run : statsOf (loopC []) =
    { created := 0, containersCompleted := 0, asg := 0, sus := 0, failures := 0, ctrP99 := none,
      all := ⟨0, 0, none, none⟩, query := ⟨0, 0, none, none⟩, interactive := ⟨0, 0, none, none⟩, batch := ⟨0, 0, none, none⟩ } := by
  decide

example : p99? [10, 20, 30, 40, 50] = some (4960, 100) ∧ mean? [1, 2, 6] = some (9, 3) := by decide

end Eudoxia.C06
