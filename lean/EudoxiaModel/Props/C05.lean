import EudoxiaModel.Model.Profile
/-! # C05 — container execution follows the documented time and memory model

The documented model is the specification `specRun` (Model/Profile.lean), which does not mention the tick generator;
the correspondence check runs thousands of real containers against it.  Theorems here: the tick counts and the memory
profile are the documented formulas, an operator occupies at least one tick, and the scaling laws behave as documented. -/
namespace Eudoxia.C05
open Eudoxia Extracted

/-- I/O ticks are ⌊read_gb / 20 · ticks_per_second⌋ (in quanta: ⌊read / g⌋ with g·tps = 20·q) -/
theorem io_ticks_formula (cfg : Cfg) (s : Seg) : s.ioTicks cfg = s.read / cfg.g := rfl

/-- CPU ticks of the rational laws are ⌊baseline · tps / s(law, cpus)⌋ -/
theorem cpu_ticks_formula (cfg : Cfg) (cpus : Nat) (s : Seg) (h : s.law ≠ .sqrt ∧ s.law ≠ .log) :
    s.cpuTicks cfg cpus = s.baseNum * cfg.tps / (s.baseDen * s.law.divisor cpus) := by
  unfold Seg.cpuTicks Seg.cpuTicks?
  cases hl : s.law <;> simp_all

/-- the divisors of the documented laws: const 1, linear3 min(c,3), linear7 min(c,7), squared c², exp 2^min(c,4) -/
theorem law_divisors (c : Nat) :
    Law.divisor .const c = 1 ∧ Law.divisor .linear3 c = min c 3 ∧ Law.divisor .linear7 c = min c 7 ∧
    Law.divisor .squared c = c ^ 2 ∧ Law.divisor .exp c = 2 ^ (min c 4) := by
  refine ⟨rfl, ?_, ?_, rfl, ?_⟩
  · simp only [Law.divisor, linear3Cut]; by_cases h : c < 3 <;> simp [h] <;> omega
  · simp only [Law.divisor, linear7Cut]; by_cases h : c < 7 <;> simp [h] <;> omega
  · simp only [Law.divisor, expCut, expBase, expCap]
    by_cases h : c < 4
    · simp only [h, ↓reduceIte]; rw [Nat.min_eq_left (by omega)]
    · simp only [h, ↓reduceIte]; rw [Nat.min_eq_right (by omega)]

/-- more cores never make a segment slower (rational laws): the divisor is monotone in the core count … -/
theorem divisor_monotone (l : Law) (c c' : Nat) (h : c ≤ c') (hc : 1 ≤ c) : l.divisor c ≤ l.divisor c' := by
  cases l <;> simp only [Law.divisor, linear3Cut, linear7Cut, squaredExp, expCut, expBase, expCap, Nat.le_refl]
  · by_cases h1 : c < 3 <;> by_cases h2 : c' < 3 <;> simp [h1, h2] <;> omega
  · by_cases h1 : c < 7 <;> by_cases h2 : c' < 7 <;> simp [h1, h2] <;> omega
  · exact Nat.pow_le_pow_left h 2
  · by_cases h1 : c < 4 <;> by_cases h2 : c' < 4 <;> simp only [h1, h2, ↓reduceIte]
    · exact Nat.pow_le_pow_right (by omega) h
    · have : 2 ^ c ≤ 2 ^ 4 := Nat.pow_le_pow_right (by omega) (by omega)
      omega
    · omega
    · omega

/-- … hence the CPU tick count is antitone in the core count -/
theorem cpu_ticks_antitone (cfg : Cfg) (s : Seg) (c c' : Nat) (h : c ≤ c') (hc : 1 ≤ c) (hl : s.law ≠ .sqrt ∧ s.law ≠ .log) (hd : 0 < s.baseDen) :
    s.cpuTicks cfg c' ≤ s.cpuTicks cfg c := by
  rw [cpu_ticks_formula cfg c' s hl, cpu_ticks_formula cfg c s hl]
  have hm := divisor_monotone s.law c c' h hc
  have hpos : 0 < s.law.divisor c := by
    cases hlaw : s.law <;> simp only [Law.divisor, linear3Cut, linear7Cut, squaredExp, expCut, expBase, expCap]
    · omega
    · omega
    · omega
    · by_cases h1 : c < 3 <;> simp [h1] <;> omega
    · by_cases h1 : c < 7 <;> simp [h1] <;> omega
    · exact Nat.pow_pos (by omega)
    · by_cases h1 : c < 4 <;> simp only [h1, ↓reduceIte]
      · exact Nat.pow_pos (by omega)
      · omega
  exact Nat.div_le_div_left (Nat.mul_le_mul_left _ hm) (Nat.mul_pos hd hpos)

/-- linear3 / linear7 / exp are flat beyond 3 / 7 / 4 cores (README) -/
theorem laws_flat_beyond_their_bound (c : Nat) :
    (3 ≤ c → Law.divisor .linear3 c = 3) ∧ (7 ≤ c → Law.divisor .linear7 c = 7) ∧ (4 ≤ c → Law.divisor .exp c = 16) := by
  simp only [Law.divisor, linear3Cut, linear7Cut, expCut, expCap]
  refine ⟨fun h => ?_, fun h => ?_, fun h => ?_⟩
  · have : ¬ c < 3 := by omega
    simp [this]
  · have : ¬ c < 7 := by omega
    simp [this]
  · have : ¬ c < 4 := by omega
    simp [this]

/-- during I/O a segment without fixed memory holds 20 GB per simulated second (g quanta per tick), afterwards the amount read;
    a segment with fixed memory holds that amount from its first tick -/
theorem memory_profile (cfg : Cfg) (s : Seg) (io i : Nat) :
    segMem cfg s io i = (if i < io then (match s.fixed with | some m => m | none => (i + 1) * cfg.g) else s.peak) := rfl

/-- **an operator occupies at least one tick** -/
theorem operator_occupies_at_least_one_tick (cfg : Cfg) (cpu : Nat) (segs : List Seg) (h : segs ≠ []) :
    1 ≤ tickSum (opTickTable cfg cpu segs) := by
  unfold opTickTable
  have hne : segs.isEmpty = false := by cases segs <;> simp_all
  by_cases h0 : tickSum (rawTickTable cfg cpu segs) = 0
  · simp only [hne, Bool.not_false, h0, beq_self_eq_true, Bool.and_self, ↓reduceIte]
    simp [tickSum]
  · have : (tickSum (rawTickTable cfg cpu segs) == 0) = false := by simpa using h0
    simp only [hne, Bool.not_false, this, Bool.and_false, Bool.false_eq_true, ↓reduceIte]
    omega

/-- the specification on a small example: two operators (3 I/O ticks growing by g, then 2 CPU ticks at the amount read; then fixed memory),
    success after the summed tick count -/
example :
    let cfg : Cfg := { tps := 1, q := 64, g := 1280 }
    let ops : List (List Seg) := [[{ baseNum := 2, read := 3840 }], [{ baseNum := 1, fixed := some 64, read := 0 }]]
    (specRun cfg 1 4000 ops).mem = [1280, 2560, 3840, 3840, 3840] ∧ (specRun cfg 1 4000 ops).endTick = 6 ∧ (specRun cfg 1 4000 ops).ok = true ∧
    (specRun cfg 1 3000 ops).ok = false ∧ (specRun cfg 1 3000 ops).endTick = 3 ∧ (specRun cfg 1 3000 ops).completedOps = 0 := by
  decide

end Eudoxia.C05
