import EudoxiaModel.Model.Profile
import EudoxiaModel.Model.Pool
import EudoxiaModel.Proofs.Profile
import EudoxiaModel.Proofs.SpecRun
import EudoxiaModel.Proofs.OpIndex
/-! # C05 — container execution follows the documented time and memory model

The documented model is the specification `specRun` (Model/Profile.lean), which does not mention the tick generator;
the correspondence check runs thousands of real containers against it.  Theorems here: the tick counts and the memory
profile are the documented formulas, an operator occupies at least one tick, and the scaling laws behave as documented. -/
namespace Eudoxia.C05
open Eudoxia Extracted

/-- I/O ticks are ⌊read_gb / 20 · ticks_per_second⌋ (in quanta: ⌊read / g⌋ with g·tps = 20·q) -/
theorem io_ticks_formula (cfg : Cfg) (s : Seg) : s.ioTicks cfg = s.read / cfg.g := rfl

/-- CPU ticks of the rational laws are ⌊baseline · tps / s(law, cpus)⌋ -/
theorem cpu_ticks_formula (cfg : Cfg) (cpus : Nat) (s : Seg) (h : s.law ≠ .sqrt ∧ s.law ≠ .log) :
    s.cpuTicks cfg cpus = s.baseNum * cfg.tps / (s.baseDen * s.law.divisor cpus) := by
  unfold Seg.cpuTicks Seg.cpuTicks?
  cases hl : s.law <;> simp_all

/-- the divisors of the documented laws: const 1, linear3 min(c,3), linear7 min(c,7), squared c², exp 2^min(c,4) -/
theorem law_divisors (c : Nat) :
    Law.divisor .const c = 1 ∧ Law.divisor .linear3 c = min c 3 ∧ Law.divisor .linear7 c = min c 7 ∧
    Law.divisor .squared c = c ^ 2 ∧ Law.divisor .exp c = 2 ^ (min c 4) := by
  refine ⟨rfl, ?_, ?_, rfl, ?_⟩
  · simp only [Law.divisor, linear3Cut]; by_cases h : c < 3 <;> simp [h] <;> omega
  · simp only [Law.divisor, linear7Cut]; by_cases h : c < 7 <;> simp [h] <;> omega
  · simp only [Law.divisor, expCut, expBase, expCap]
    by_cases h : c < 4
    · simp only [h, ↓reduceIte]; rw [Nat.min_eq_left (by omega)]
    · simp only [h, ↓reduceIte]; rw [Nat.min_eq_right (by omega)]

/-- more cores never make a segment slower (rational laws): the divisor is monotone in the core count … -/
theorem divisor_monotone (l : Law) (c c' : Nat) (h : c ≤ c') (hc : 1 ≤ c) : l.divisor c ≤ l.divisor c' := by
  cases l <;> simp only [Law.divisor, linear3Cut, linear7Cut, squaredExp, expCut, expBase, expCap, Nat.le_refl]
  · by_cases h1 : c < 3 <;> by_cases h2 : c' < 3 <;> simp [h1, h2] <;> omega
  · by_cases h1 : c < 7 <;> by_cases h2 : c' < 7 <;> simp [h1, h2] <;> omega
  · exact Nat.pow_le_pow_left h 2
  · by_cases h1 : c < 4 <;> by_cases h2 : c' < 4 <;> simp only [h1, h2, ↓reduceIte]
    · exact Nat.pow_le_pow_right (by omega) h
    · have : 2 ^ c ≤ 2 ^ 4 := Nat.pow_le_pow_right (by omega) (by omega)
      omega
    · omega
    · omega

/-- … hence the CPU tick count is antitone in the core count -/
theorem cpu_ticks_antitone (cfg : Cfg) (s : Seg) (c c' : Nat) (h : c ≤ c') (hc : 1 ≤ c) (hl : s.law ≠ .sqrt ∧ s.law ≠ .log) (hd : 0 < s.baseDen) :
    s.cpuTicks cfg c' ≤ s.cpuTicks cfg c := by
  rw [cpu_ticks_formula cfg c' s hl, cpu_ticks_formula cfg c s hl]
  have hm := divisor_monotone s.law c c' h hc
  have hpos : 0 < s.law.divisor c := by
    cases hlaw : s.law <;> simp only [Law.divisor, linear3Cut, linear7Cut, squaredExp, expCut, expBase, expCap]
    · omega
    · omega
    · omega
    · by_cases h1 : c < 3 <;> simp [h1] <;> omega
    · by_cases h1 : c < 7 <;> simp [h1] <;> omega
    · exact Nat.pow_pos (by omega)
    · by_cases h1 : c < 4 <;> simp only [h1, ↓reduceIte]
      · exact Nat.pow_pos (by omega)
      · omega
  exact Nat.div_le_div_left (Nat.mul_le_mul_left _ hm) (Nat.mul_pos hd hpos)

/-- linear3 / linear7 / exp are flat beyond 3 / 7 / 4 cores (README) -/
theorem laws_flat_beyond_their_bound (c : Nat) :
    (3 ≤ c → Law.divisor .linear3 c = 3) ∧ (7 ≤ c → Law.divisor .linear7 c = 7) ∧ (4 ≤ c → Law.divisor .exp c = 16) := by
  simp only [Law.divisor, linear3Cut, linear7Cut, expCut, expCap]
  refine ⟨fun h => ?_, fun h => ?_, fun h => ?_⟩
  · have : ¬ c < 3 := by omega
    simp [this]
  · have : ¬ c < 7 := by omega
    simp [this]
  · have : ¬ c < 4 := by omega
    simp [this]

/-- during I/O a segment without fixed memory holds 20 GB per simulated second (g quanta per tick), afterwards the amount read;
    a segment with fixed memory holds that amount from its first tick -/
theorem memory_profile (cfg : Cfg) (s : Seg) (io i : Nat) :
    segMem cfg s io i = (if i < io then (match s.fixed with | some m => m | none => (i + 1) * cfg.g) else s.peak) := rfl

/-- **an operator occupies at least one tick** -/
theorem operator_occupies_at_least_one_tick (cfg : Cfg) (cpu : Nat) (segs : List Seg) (h : segs ≠ []) :
    1 ≤ tickSum (opTickTable cfg cpu segs) := by
  unfold opTickTable
  have hne : segs.isEmpty = false := by cases segs <;> simp_all
  by_cases h0 : tickSum (rawTickTable cfg cpu segs) = 0
  · simp only [hne, Bool.not_false, h0, beq_self_eq_true, Bool.and_self, ↓reduceIte]
    simp [tickSum]
  · have : (tickSum (rawTickTable cfg cpu segs) == 0) = false := by simpa using h0
    simp only [hne, Bool.not_false, this, Bool.and_false, Bool.false_eq_true, ↓reduceIte]
    omega

/-! ### the tick generator realises the specification -/

/-- **a new container starts with exactly the documented list of demands still to come**: the position-derived list `remL` of the container that
the pool creates for an assignment is, after renaming the labels from "operators that follow" to "operator index", the specification's
`ctrDemands` for the operators' segments and the documented tick counts at the assigned CPU count. -/
theorem new_container_has_the_documented_demands (cfg : Cfg) (w : Store) (cid : Nat) (a : Asg) :
    let c := mkCtr w cid a
    let ops := a.ops.map (fun r => w.segsOf r)
    c.frozen = false ∧ c.completed = false ∧ PosOK cfg c ∧ c.mem = 0 ∧ c.elapsed = 0 ∧ c.ram = a.ram ∧
    (remL cfg c).map (fun x => (ops.length - 1 - x.1, x.2)) = ctrDemands cfg ops (specTicks cfg a.cpu ops) := by
  intro c ops
  refine ⟨rfl, rfl, fun h => by simp [c, mkCtr, mkPos] at h, rfl, rfl, rfl, ?_⟩
  have hL : remL cfg c = labelOps cfg a.cpu (a.ops.map (fun r => (r, w.segsOf r))) := by
    simp only [remL, remHead, c, mkCtr, mkPos]
    cases a.ops with
    | nil => simp [labelOps]
    | cons r rs => simp [labelOps]
  have := labelOps_eq_ctrDemands cfg a.cpu (a.ops.map (fun r => (r, w.segsOf r))) 0
  simp only [List.length_map, Nat.zero_add, List.map_map] at this
  rw [hL]
  simp only [ctrDemands, ops, List.length_map]
  exact this

/-- **one tick, one demand** (`Container.tick` on a running container): the next documented demand `m` is looked at; above the allocation the
container stops there holding `m` (the pool's OOM check then kills it: C04); otherwise it holds `m` for this tick (0 if it has just finished),
the demand is consumed, the operator index advances and suspension becomes possible exactly at an operator's last demand, and the container is
complete exactly when no demand is left. -/
theorem tick_consumes_one_demand (cfg : Cfg) (w : Store) (c : Ctr) (cons : Int) (w' : Store) (c' : Ctr) (cons' : Int)
    (hf : c.frozen = false) (hc : c.completed = false) (hp : PosOK cfg c) (hseg : ∀ o ∈ c.pos.ops, o.2 ≠ [])
    (h : c.tick cfg w cons = .ok (w', c', cons')) :
    ∃ k m tl, remL cfg c = (k, m) :: tl ∧ c'.ram = c.ram ∧ c'.cpu = c.cpu ∧ (∀ o ∈ c'.pos.ops, o.2 ≠ []) ∧ c'.elapsed = c.elapsed + 1 ∧
      (c.ram < m → c'.frozen = true ∧ c'.mem = m ∧ c'.completed = false ∧ c'.curOpIdx = c.curOpIdx) ∧
      (m ≤ c.ram → c'.frozen = false ∧ remL cfg c' = tl ∧ PosOK cfg c' ∧ (c'.completed = true ↔ tl = []) ∧
        c'.mem = (if tl = [] then 0 else m) ∧
        c'.curOpIdx = (if ∀ x ∈ tl, x.1 ≠ k then c.curOpIdx + 1 else c.curOpIdx) ∧
        (c'.canSuspend = true ↔ ((∀ x ∈ tl, x.1 ≠ k) ∧ tl ≠ []))) :=
  tick_consumes cfg w c cons w' c' cons' hf hc hp hseg h

/-- **the whole run**: while the demands fit, after `n` ticks the container has consumed exactly the first `n` documented demands, holds the
`n`-th one, and is complete exactly when `n` is the total tick count `Σ (I/O ticks + CPU ticks)` — neither earlier nor later. -/
theorem run_follows_the_documented_demands (cfg : Cfg) (n : Nat) (w : Store) (c : Ctr) (cons : Int) (w' : Store) (c' : Ctr) (cons' : Int)
    (hf : c.frozen = false) (hc : c.completed = false) (hp : PosOK cfg c) (hseg : ∀ o ∈ c.pos.ops, o.2 ≠ [])
    (hn : n ≤ (remL cfg c).length) (hfit : ∀ x ∈ (remL cfg c).take n, x.2 ≤ c.ram)
    (h : runN cfg n w c cons = .ok (w', c', cons')) :
    remL cfg c' = (remL cfg c).drop n ∧ c'.elapsed = c.elapsed + n ∧ c'.frozen = false ∧
    (0 < n → (c'.completed = true ↔ n = (remL cfg c).length) ∧
      c'.mem = (if n = (remL cfg c).length then 0 else ((remL cfg c).getD (n - 1) (0, 0)).2)) := by
  obtain ⟨a1, a2, a3, _, _, _, _, a8⟩ := run_follows_demands cfg n w c cons w' c' cons' hf hc hp hseg hn hfit h
  exact ⟨a1, a2, a3, a8⟩

/-- **out of memory at the first demand above the allocation, not before**: if the first `n` demands fit and the next one does not, the tick after
the `n`-th leaves the container stopped, holding that demand (> its allocation), with the operators completed so far unchanged. -/
theorem oom_at_first_excess (cfg : Cfg) (n : Nat) (w : Store) (c : Ctr) (cons : Int) (w1 : Store) (c1 : Ctr) (cons1 : Int) (w2 : Store) (c2 : Ctr) (cons2 : Int)
    (hf : c.frozen = false) (hc : c.completed = false) (hp : PosOK cfg c) (hseg : ∀ o ∈ c.pos.ops, o.2 ≠ [])
    (hn : n < (remL cfg c).length) (hfit : ∀ x ∈ (remL cfg c).take n, x.2 ≤ c.ram) (hex : c.ram < ((remL cfg c).getD n (0, 0)).2)
    (h1 : runN cfg n w c cons = .ok (w1, c1, cons1)) (h2 : c1.tick cfg w1 cons1 = .ok (w2, c2, cons2)) :
    c2.frozen = true ∧ c2.mem = ((remL cfg c).getD n (0, 0)).2 ∧ c2.ram < c2.mem ∧ c2.completed = false ∧ c2.curOpIdx = c1.curOpIdx ∧
    c2.elapsed = c.elapsed + n + 1 := by
  obtain ⟨a1, a2, a3, a4, a5, a6, a7, a8⟩ := run_follows_demands cfg n w c cons w1 c1 cons1 hf hc hp hseg (by omega) hfit h1
  have hc1 : c1.completed = false := by
    by_cases h0 : n = 0
    · subst h0
      simp only [runN, Except.ok.injEq, Prod.mk.injEq] at h1
      rw [← h1.2.1]; exact hc
    · cases hcc : c1.completed with
      | false => rfl
      | true => have := (a8 (by omega)).1.mp hcc; omega
  obtain ⟨k, m, tl, b1, b2, _, _, b5, b6, _⟩ := tick_consumes cfg w1 c1 cons1 w2 c2 cons2 a3 hc1 a6 a7 h2
  have hm : ((remL cfg c).getD n (0, 0)).2 = m := by
    have : (remL cfg c).drop n = (k, m) :: tl := by rw [← a1, b1]
    rw [List.getD_eq_getElem?_getD, ← List.head?_drop, this]
    rfl
  rw [hm] at hex ⊢
  rw [← a4] at hex
  obtain ⟨d1, d2, d3, d4⟩ := b6 hex
  exact ⟨d1, d2, by rw [b2, d2]; exact hex, d3, d4, by omega⟩

/-- **the specification's summary is what the container does.**  Let `S = specRun cfg cpu ram ops` be the documented run of the operators of an
assignment (memory held after each tick, the tick in which the result is reported, the verdict) and `c` the container the pool creates for that
assignment.  Then, whenever the ticks themselves succeed (they do on consistent state: C08): strictly before `S.endTick` the container is running,
neither complete nor stopped, and after its `n`-th tick it holds exactly `S.mem[n-1]`; if `S.ok`, the `S.endTick`-th tick completes it (holding
nothing) and no earlier one does; if not, the `S.endTick`-th tick stops it holding more than its allocation — the out-of-memory failure the pool
reports in that tick — and no earlier one does.  So the record the correspondence check compares with the code is a consequence of
`Container.tick`, not a second description that could drift from it. -/
theorem specification_summary_is_what_the_container_does (cfg : Cfg) (w : Store) (cid : Nat) (a : Asg)
    (hseg : ∀ r ∈ a.ops, w.segsOf r ≠ []) :
    let c := mkCtr w cid a
    let S := specRun cfg a.cpu a.ram (a.ops.map (fun r => w.segsOf r))
    S.mem.length = S.endTick - 1 ∧
    (∀ n cons w' c' cons', 1 ≤ n → n < S.endTick → runN cfg n w c cons = .ok (w', c', cons') →
        c'.mem = S.mem.getD (n - 1) 0 ∧ c'.mem ≤ c'.ram ∧ c'.completed = false ∧ c'.frozen = false ∧ c'.elapsed = n) ∧
    (S.ok = true → ∀ cons w' c' cons', runN cfg S.endTick w c cons = .ok (w', c', cons') →
        (1 ≤ S.endTick → c'.completed = true ∧ c'.mem = 0) ∧ c'.frozen = false ∧ c'.elapsed = S.endTick) ∧
    (S.ok = false → ∀ cons w' c' cons', runN cfg S.endTick w c cons = .ok (w', c', cons') →
        c'.frozen = true ∧ c'.ram < c'.mem ∧ c'.completed = false ∧ c'.elapsed = S.endTick) := by
  intro c S
  obtain ⟨hf, hc, hp, _, hel, hram, hD⟩ := new_container_has_the_documented_demands cfg w cid a
  have hsegc : ∀ o ∈ c.pos.ops, o.2 ≠ [] := by
    intro o ho
    simp only [c, mkCtr, mkPos, List.mem_map] at ho
    obtain ⟨r, hr, rfl⟩ := ho
    exact hseg r hr
  have hD' : (remL cfg c).map (fun x => ((a.ops.map (fun r => w.segsOf r)).length - 1 - x.1, x.2)) =
      ctrDemands cfg (a.ops.map (fun r => w.segsOf r)) (specTicks cfg a.cpu (a.ops.map (fun r => w.segsOf r))) := hD
  obtain ⟨s1, s2, s3, s4⟩ := specRunWith_summary cfg a.ram (a.ops.map (fun r => w.segsOf r)) (specTicks cfg a.cpu (a.ops.map (fun r => w.segsOf r)))
    (remL cfg c) hD'
  have hcr : c.ram = a.ram := hram
  have hkle := takeWhile_length_le (fun x : Nat × Nat => decide (x.2 ≤ a.ram)) (remL cfg c)
  have hfit : ∀ n, n ≤ ((remL cfg c).takeWhile (fun x => decide (x.2 ≤ a.ram))).length → ∀ x ∈ (remL cfg c).take n, x.2 ≤ c.ram := by
    intro n hn x hx
    have := takeWhile_all (fun x : Nat × Nat => decide (x.2 ≤ a.ram)) (remL cfg c) n hn x hx
    rw [hcr]; simpa using this
  refine ⟨s3, ?_, ?_, ?_⟩
  · intro n cons w' c' cons' h1 hlt h
    have hnk : n ≤ ((remL cfg c).takeWhile (fun x => decide (x.2 ≤ a.ram))).length ∧ n < (remL cfg c).length := by
      change n < (specRunWith _ _ _ _).endTick at hlt
      rw [s2] at hlt
      split at hlt <;> omega
    obtain ⟨_, b2, b3, b4, _, _, _, b8⟩ := run_follows_demands cfg n w c cons w' c' cons' hf hc hp hsegc (by omega) (hfit n hnk.1) h
    obtain ⟨b9, b10⟩ := b8 h1
    have hne : ¬ n = (remL cfg c).length := by omega
    rw [if_neg hne] at b10
    have hmem : c'.mem = S.mem.getD (n - 1) 0 := by
      rw [b10]; symm
      exact s4 (n - 1) (by rw [s3]; change n < (specRunWith _ _ _ _).endTick at hlt; omega)
    refine ⟨hmem, ?_, ?_, b3, by rw [b2, hel]; omega⟩
    · rw [b10, b4]
      have : (remL cfg c).getD (n - 1) (0, 0) ∈ (remL cfg c).take n := by
        rw [List.getD_eq_getElem?_getD, List.getElem?_eq_getElem (by omega)]
        simp only [Option.getD_some]
        rw [List.mem_take_iff_getElem]
        exact ⟨n - 1, by omega, rfl⟩
      exact hfit n hnk.1 _ this
    · cases hcc : c'.completed with
      | false => rfl
      | true => exact absurd (b9.mp hcc) hne
  · intro hok cons w' c' cons' h
    have hall := s1.mp hok
    have hend : S.endTick = (remL cfg c).length := by
      change (specRunWith _ _ _ _).endTick = _
      rw [s2, if_pos hall]
    rw [hend] at h ⊢
    obtain ⟨_, b2, b3, _, _, _, _, b8⟩ := run_follows_demands cfg _ w c cons w' c' cons' hf hc hp hsegc (Nat.le_refl _) (hfit _ (by omega)) h
    refine ⟨fun h1 => ?_, b3, by rw [b2, hel]; omega⟩
    obtain ⟨b9, b10⟩ := b8 h1
    exact ⟨b9.mpr rfl, by rw [b10, if_pos rfl]⟩
  · intro hok cons w' c' cons' h
    have hall : ¬ ((remL cfg c).takeWhile (fun x => decide (x.2 ≤ a.ram))).length = (remL cfg c).length := by
      intro e; have h2 : S.ok = true := s1.mpr e; rw [hok] at h2; cases h2
    have hend : S.endTick = ((remL cfg c).takeWhile (fun x => decide (x.2 ≤ a.ram))).length + 1 := by
      change (specRunWith _ _ _ _).endTick = _
      rw [s2, if_neg hall]
    rw [hend, runN_snoc] at h
    rw [hend]
    split at h
    · cases h
    · rename_i w1 c1 cons1 h1
      have hstop := takeWhile_stop (fun x : Nat × Nat => decide (x.2 ≤ a.ram)) (0, 0) (remL cfg c) (by omega)
      have hex : c.ram < ((remL cfg c).getD ((remL cfg c).takeWhile (fun x => decide (x.2 ≤ a.ram))).length (0, 0)).2 := by
        rw [hcr]; simpa using hstop
      obtain ⟨d1, _, d3, d4, _, d6⟩ := oom_at_first_excess cfg _ w c cons w1 c1 cons1 w' c' cons' hf hc hp hsegc (by omega) (hfit _ (Nat.le_refl _)) hex h1 h
      exact ⟨d1, d3, d4, by rw [d6, hel]; omega⟩

/-- **the operators the specification counts as completed are the ones the container has completed when it ends.**  Along the run the container's
operator index (`_current_op_idx`, the number of its operators that are done — what the pool reads to decide which operators a failure or a
suspension leaves unfinished) is always the operator of the next documented demand (`run_keeps_idxOK`); so when the run ends — after `S.endTick`
ticks, by success or by the out-of-memory stop — it equals `S.completedOps`: all operators after a success, otherwise the index of the operator whose
demand did not fit. -/
theorem specification_completed_operators_is_the_containers_operator_index (cfg : Cfg) (w : Store) (cid : Nat) (a : Asg)
    (hseg : ∀ r ∈ a.ops, w.segsOf r ≠ []) :
    let c := mkCtr w cid a
    let S := specRun cfg a.cpu a.ram (a.ops.map (fun r => w.segsOf r))
    ∀ cons w' c' cons', runN cfg S.endTick w c cons = .ok (w', c', cons') →
      c'.curOpIdx = S.completedOps ∧ (S.ok = true → S.completedOps = a.ops.length) ∧ (S.ok = false → S.completedOps < a.ops.length) := by
  intro c S cons w' c' cons' h
  obtain ⟨hf, hc, hp, _, _, hram, hD⟩ := new_container_has_the_documented_demands cfg w cid a
  have hsegc : ∀ o ∈ c.pos.ops, o.2 ≠ [] := by
    intro o ho
    simp only [c, mkCtr, mkPos, List.mem_map] at ho
    obtain ⟨r, hr, rfl⟩ := ho
    exact hseg r hr
  have hD' : (remL cfg c).map (fun x => ((a.ops.map (fun r => w.segsOf r)).length - 1 - x.1, x.2)) =
      ctrDemands cfg (a.ops.map (fun r => w.segsOf r)) (specTicks cfg a.cpu (a.ops.map (fun r => w.segsOf r))) := hD
  obtain ⟨s1, s2, _, _⟩ := specRunWith_summary cfg a.ram (a.ops.map (fun r => w.segsOf r)) (specTicks cfg a.cpu (a.ops.map (fun r => w.segsOf r)))
    (remL cfg c) hD'
  obtain ⟨t1, t2⟩ := specRunWith_completedOps cfg a.ram (a.ops.map (fun r => w.segsOf r)) (specTicks cfg a.cpu (a.ops.map (fun r => w.segsOf r)))
    (remL cfg c) hD'
  simp only [List.length_map] at t1 t2
  have hcr : c.ram = a.ram := hram
  have hkle := takeWhile_length_le (fun x : Nat × Nat => decide (x.2 ≤ a.ram)) (remL cfg c)
  have hfit : ∀ n, n ≤ ((remL cfg c).takeWhile (fun x => decide (x.2 ≤ a.ram))).length → ∀ x ∈ (remL cfg c).take n, x.2 ≤ c.ram := by
    intro n hn x hx
    have := takeWhile_all (fun x : Nat × Nat => decide (x.2 ≤ a.ram)) (remL cfg c) n hn x hx
    rw [hcr]; simpa using this
  have hi0 : IdxOK cfg a.ops.length c := idxOK_new cfg w cid a hseg
  by_cases hall : ((remL cfg c).takeWhile (fun x => decide (x.2 ≤ a.ram))).length = (remL cfg c).length
  · have hok : S.ok = true := s1.mpr hall
    have hend : S.endTick = (remL cfg c).length := by
      change (specRunWith _ _ _ _).endTick = _
      rw [s2, if_pos hall]
    have hco : S.completedOps = a.ops.length := t1 hall
    rw [hend] at h
    have hi := run_keeps_idxOK cfg a.ops.length _ w c cons w' c' cons' hf hc hp hsegc (Nat.le_refl _) (hfit _ (by omega)) hi0 h
    obtain ⟨r1, _⟩ := run_follows_demands cfg _ w c cons w' c' cons' hf hc hp hsegc (Nat.le_refl _) (hfit _ (by omega)) h
    refine ⟨?_, fun _ => hco, fun hno => by rw [hok] at hno; cases hno⟩
    rw [hco]
    exact hi.2.1 (by rw [r1]; simp)
  · have hok : S.ok = false := by
      cases hs : S.ok with
      | false => rfl
      | true => exact absurd (s1.mp hs) hall
    have hend : S.endTick = ((remL cfg c).takeWhile (fun x => decide (x.2 ≤ a.ram))).length + 1 := by
      change (specRunWith _ _ _ _).endTick = _
      rw [s2, if_neg hall]
    have hlt : ((remL cfg c).takeWhile (fun x => decide (x.2 ≤ a.ram))).length < (remL cfg c).length := by omega
    have hco : S.completedOps = a.ops.length - 1 - ((remL cfg c).getD ((remL cfg c).takeWhile (fun x => decide (x.2 ≤ a.ram))).length (0, 0)).1 := t2 hlt
    rw [hend, runN_snoc] at h
    split at h
    · cases h
    · rename_i w1 c1 cons1 h1
      have hstop := takeWhile_stop (fun x : Nat × Nat => decide (x.2 ≤ a.ram)) (0, 0) (remL cfg c) hlt
      have hex : c.ram < ((remL cfg c).getD ((remL cfg c).takeWhile (fun x => decide (x.2 ≤ a.ram))).length (0, 0)).2 := by
        rw [hcr]; simpa using hstop
      obtain ⟨_, _, _, _, d5, _⟩ := oom_at_first_excess cfg _ w c cons w1 c1 cons1 w' c' cons' hf hc hp hsegc hlt (hfit _ (Nat.le_refl _)) hex h1 h
      have hi := run_keeps_idxOK cfg a.ops.length _ w c cons w1 c1 cons1 hf hc hp hsegc (by omega) (hfit _ (Nat.le_refl _)) hi0 h1
      obtain ⟨r1, _⟩ := run_follows_demands cfg _ w c cons w1 c1 cons1 hf hc hp hsegc (by omega) (hfit _ (Nat.le_refl _)) h1
      -- the next demand after the fitting prefix
      obtain ⟨k, m, tl, hdrop⟩ : ∃ k m tl, (remL cfg c).drop ((remL cfg c).takeWhile (fun x => decide (x.2 ≤ a.ram))).length = (k, m) :: tl := by
        cases hd : (remL cfg c).drop ((remL cfg c).takeWhile (fun x => decide (x.2 ≤ a.ram))).length with
        | nil =>
          have := congrArg List.length hd
          simp only [List.length_drop, List.length_nil] at this
          omega
        | cons x tl => exact ⟨x.1, x.2, tl, rfl⟩
      have hk := hi.2.2 k m tl (by rw [r1]; exact hdrop)
      have hget : ((remL cfg c).getD ((remL cfg c).takeWhile (fun x => decide (x.2 ≤ a.ram))).length (0, 0)).1 = k := by
        rw [List.getD_eq_getElem?_getD, ← List.head?_drop, hdrop]; rfl
      rw [hget] at hco
      refine ⟨by rw [d5, hco]; omega, fun hyes => (by rw [hok] at hyes; cases hyes), fun _ => by rw [hco]; omega⟩

/-- **after every tick the operator index is the operator of the next documented demand**: for every `n` below the number of demands whose first `n`
fit, after `n` ticks of the container the pool creates, `_current_op_idx` is the operator (counted from the front, as the specification labels them) that
the `(n+1)`-th entry of `ctrDemands` belongs to — operators are completed one after the other, each exactly when its last demand has been consumed. -/
theorem operator_index_is_the_operator_of_the_next_demand (cfg : Cfg) (w : Store) (cid : Nat) (a : Asg)
    (hseg : ∀ r ∈ a.ops, w.segsOf r ≠ []) :
    let c := mkCtr w cid a
    let ops := a.ops.map (fun r => w.segsOf r)
    let d := ctrDemands cfg ops (specTicks cfg a.cpu ops)
    ∀ n cons w' c' cons', n < d.length → (∀ x ∈ d.take n, x.2 ≤ a.ram) → runN cfg n w c cons = .ok (w', c', cons') →
      c'.curOpIdx = (d.getD n (0, 0)).1 ∧ c'.curOpIdx < a.ops.length := by
  intro c ops d n cons w' c' cons' hn hfitd h
  obtain ⟨hf, hc, hp, _, _, hram, hD⟩ := new_container_has_the_documented_demands cfg w cid a
  have hsegc : ∀ o ∈ c.pos.ops, o.2 ≠ [] := by
    intro o ho
    simp only [c, mkCtr, mkPos, List.mem_map] at ho
    obtain ⟨r, hr, rfl⟩ := ho
    exact hseg r hr
  have hD' : (remL cfg c).map (fun x => (ops.length - 1 - x.1, x.2)) = d := hD
  have hlen : d.length = (remL cfg c).length := by rw [← hD']; simp
  have hcr : c.ram = a.ram := hram
  have hfit : ∀ x ∈ (remL cfg c).take n, x.2 ≤ c.ram := by
    intro x hx
    rw [hcr]
    have : (ops.length - 1 - x.1, x.2) ∈ d.take n := by
      rw [← hD', ← List.map_take]
      exact List.mem_map.mpr ⟨x, hx, rfl⟩
    exact hfitd (ops.length - 1 - x.1, x.2) this
  have hi := run_keeps_idxOK cfg a.ops.length n w c cons w' c' cons' hf hc hp hsegc (by omega) hfit (idxOK_new cfg w cid a hseg) h
  obtain ⟨r1, _⟩ := run_follows_demands cfg n w c cons w' c' cons' hf hc hp hsegc (by omega) hfit h
  obtain ⟨k, m, tl, hdrop⟩ : ∃ k m tl, (remL cfg c).drop n = (k, m) :: tl := by
    cases hd : (remL cfg c).drop n with
    | nil =>
      have := congrArg List.length hd
      simp only [List.length_drop, List.length_nil] at this
      omega
    | cons x tl => exact ⟨x.1, x.2, tl, rfl⟩
  have hk := hi.2.2 k m tl (by rw [r1]; exact hdrop)
  have hget : ((remL cfg c).getD n (0, 0)).1 = k := by
    rw [List.getD_eq_getElem?_getD, ← List.head?_drop, hdrop]; rfl
  have hd : (d.getD n (0, 0)).1 = ops.length - 1 - k := by
    rw [← hD', relabel_getD_fst _ _ _ (by omega), hget]
  have hol : ops.length = a.ops.length := by simp [ops]
  rw [hd, hol]
  omega

/-- the specification on a small example: two operators (3 I/O ticks growing by g, then 2 CPU ticks at the amount read; then fixed memory),
    success after the summed tick count -/
example :
    let cfg : Cfg := { tps := 1, q := 64, g := 1280 }
    let ops : List (List Seg) := [[{ baseNum := 2, read := 3840 }], [{ baseNum := 1, fixed := some 64, read := 0 }]]
    (specRun cfg 1 4000 ops).mem = [1280, 2560, 3840, 3840, 3840] ∧ (specRun cfg 1 4000 ops).endTick = 6 ∧ (specRun cfg 1 4000 ops).ok = true ∧
    (specRun cfg 1 3000 ops).ok = false ∧ (specRun cfg 1 3000 ops).endTick = 3 ∧ (specRun cfg 1 3000 ops).completedOps = 0 := by
  decide

end Eudoxia.C05
