import EudoxiaModel.Model.Profile
namespace Eudoxia.C05
theorem placeholder : True := trivial
end Eudoxia.C05
