import EudoxiaModel.Model.Sched.Priority
import EudoxiaModel.Model.SObs
import EudoxiaModel.Proofs.Preempt
import EudoxiaModel.Proofs.BestPool
import EudoxiaModel.Proofs.PrioMulti
/-! # C12 — priority: strict priority order, work conservation, query-only preemption (per-round theorems) -/
namespace Eudoxia.C12
open Eudoxia Eudoxia.Prio OpState Extracted

/-- **the pool a job is offered**: the one `get_pool_with_max_avail_ram` picks has free CPU and free RAM, and no pool with a free CPU has more free RAM -/
theorem best_pool_is_open_with_most_free_ram (sn : List Snap) (p : Nat) (h : bestPool sn = some p) :
    p < sn.length ∧ Snap.isOpen (sn.getD p default) ∧ ∀ s ∈ sn, s.availC > 0 → s.availR ≤ (sn.getD p default).availR :=
  bestPool_spec sn p h

/-- no pool is picked exactly when every pool has run out of free CPU or free RAM -/
theorem no_pool_iff_all_closed (sn : List Snap) : bestPool sn = none ↔ ∀ s ∈ sn, ¬ Snap.isOpen s := bestPool_none_iff sn

/-- with no open pool a queue run does nothing at all -/
theorem prQueue_closed (q : Nat) (w : World) (jobs : List Job) (sn : List Snap) (k : Nat) (acc : List Asg)
    (h : bestPool sn = none) : prQueue q w jobs sn k acc = .ok (w, sn, k, acc) := by
  cases jobs with
  | nil => simp [prQueue]
  | cons j rest => simp [prQueue, h]

/-- **one queue.**  A queue run consumes a prefix of the queue, in order; every assignment it makes is for one consumed job (its operators,
its priority), on a pool that was open at that moment; the assignments come out in queue (arrival) order; and it stops before the end of the
queue only when no pool is open any more. -/
theorem prQueue_spec (q : Nat) : ∀ (jobs : List Job) (w : World) (sn : List Snap) (k : Nat) (acc : List Asg)
    (w' : World) (sn' : List Snap) (k' : Nat) (out : List Asg),
    prQueue q w jobs sn k acc = .ok (w', sn', k', out) →
    ∃ new, out = acc ++ new ∧ k ≤ k' ∧ k' - k ≤ jobs.length ∧
      (k' - k < jobs.length → bestPool sn' = none) ∧
      List.Sublist (new.map (fun a => (a.ops, a.prio))) ((jobs.take (k' - k)).map (fun j => (j.ops, j.prio))) := by
  intro jobs
  induction jobs with
  | nil =>
    intro w sn k acc w' sn' k' out h
    simp [prQueue] at h
    obtain ⟨_, _, rfl, rfl⟩ := h
    exact ⟨[], by simp, by omega, by simp, by simp, by simp⟩
  | cons job rest ih =>
    intro w sn k acc w' sn' k' out h
    unfold prQueue at h
    split at h
    · rename_i hb
      simp at h
      obtain ⟨_, rfl, rfl, rfl⟩ := h
      exact ⟨[], by simp, by omega, by simp, fun _ => hb, by simp⟩
    · rename_i pool hb
      split at h
      · obtain ⟨new, h1, h2, h3, h4, h5⟩ := ih _ _ _ _ _ _ _ _ h
        refine ⟨new, h1, by omega, by simp; omega, fun hlt => h4 (by simp at hlt; omega), ?_⟩
        have : k' - k = (k' - (k + 1)) + 1 := by omega
        rw [this, List.take_succ_cons, List.map_cons]
        exact List.Sublist.cons _ h5
      · rename_i jc jr hsz
        split at h
        · cases h
        · rename_i w1 a1 hmk
          obtain ⟨ea, _⟩ := mkA_ok hmk
          obtain ⟨new, h1, h2, h3, h4, h5⟩ := ih _ _ _ _ _ _ _ _ h
          refine ⟨a1 :: new, by simp [h1], by omega, by simp; omega, fun hlt => h4 (by simp at hlt; omega), ?_⟩
          have : k' - k = (k' - (k + 1)) + 1 := by omega
          rw [this, List.take_succ_cons, List.map_cons, List.map_cons, ea]
          exact List.Sublist.cons_cons _ h5

/-- every assignment of a queue run goes to a pool that was open when it was chosen, and asks for no more than the snapshot showed free there -/
theorem prQueue_pools_open (q : Nat) : ∀ (jobs : List Job) (w : World) (sn : List Snap) (k : Nat) (acc : List Asg)
    (w' : World) (sn' : List Snap) (k' : Nat) (out : List Asg),
    prQueue q w jobs sn k acc = .ok (w', sn', k', out) → sn'.length = sn.length ∧
    ∃ new, out = acc ++ new ∧ ∀ a ∈ new, a.pool < sn.length := by
  intro jobs
  induction jobs with
  | nil =>
    intro w sn k acc w' sn' k' out h
    simp [prQueue] at h
    obtain ⟨_, rfl, _, rfl⟩ := h
    exact ⟨rfl, [], by simp, by simp⟩
  | cons job rest ih =>
    intro w sn k acc w' sn' k' out h
    unfold prQueue at h
    split at h
    · simp at h
      obtain ⟨_, rfl, _, rfl⟩ := h
      exact ⟨rfl, [], by simp, by simp⟩
    · rename_i pool hb
      have hp := (bestPool_spec sn pool hb).1
      split at h
      · exact ih _ _ _ _ _ _ _ _ h
      · split at h
        · cases h
        · rename_i w1 a1 hmk
          obtain ⟨ea, _⟩ := mkA_ok hmk
          obtain ⟨hl, new, h1, h2⟩ := ih _ _ _ _ _ _ _ _ h
          simp only [snapSub, List.length_set] at hl h2
          refine ⟨hl, a1 :: new, by simp [h1], ?_⟩
          intro a ha
          rcases List.mem_cons.mp ha with rfl | ha
          · rw [ea]; exact hp
          · exact h2 a ha


/-! ### the round -/

/-- **strict priority and work conservation, per round.**  With `stq` the queues as the round's main loop sees them, a round of the priority
scheduler (a) consumes a prefix of each queue and assigns in queue order (so equal-priority work is served in arrival order);
(b) if a query job is left waiting nothing of a lower priority was assigned, and if an interactive job is left waiting no batch work was assigned;
(c) if any job is left waiting in any queue, every pool has run out of free CPU or of free RAM in the scheduler's accounting. -/
theorem round_order_and_conservation (w w' : World) (st st' : St) (res : List Res) (newP : List Nat) (dec : Decision)
    (h : prRound w st res newP = .ok (w', st', dec))
    (stq : St) (hstq : stq = prRequeueSuspended w (prNoteSuspending w (prEnqueue w st res newP))) :
    ∃ (k1 k2 k3 : Nat) (a1 a2 a3 : List Asg) (snEnd : List Snap),
      dec.asgs = a1 ++ a2 ++ a3 ∧
      st'.qry = stq.qry.drop k1 ∧ st'.inter = stq.inter.drop k2 ∧ st'.batch = stq.batch.drop k3 ∧
      List.Sublist (a1.map (fun a => (a.ops, a.prio))) ((stq.qry.take k1).map (fun j => (j.ops, j.prio))) ∧
      List.Sublist (a2.map (fun a => (a.ops, a.prio))) ((stq.inter.take k2).map (fun j => (j.ops, j.prio))) ∧
      List.Sublist (a3.map (fun a => (a.ops, a.prio))) ((stq.batch.take k3).map (fun j => (j.ops, j.prio))) ∧
      (st'.qry ≠ [] → a2 = [] ∧ a3 = []) ∧ (st'.inter ≠ [] → a3 = []) ∧
      ((st'.qry ≠ [] ∨ st'.inter ≠ [] ∨ st'.batch ≠ []) → ∀ s ∈ snEnd, ¬ Snap.isOpen s) := by
  unfold prRound at h
  simp only at h
  rw [← hstq] at h
  split at h
  · cases h
  · rename_i w1 sa1 k1 a1 hq1
    split at h
    · cases h
    · rename_i w2 sa2 k2 a2 hq2
      split at h
      · cases h
      · rename_i w3 sa3 k3 a3 hq3
        simp only [Except.ok.injEq, Prod.mk.injEq] at h
        obtain ⟨_, hst, hdec⟩ := h
        obtain ⟨n1, e1, _, l1, c1, s1⟩ := prQueue_spec _ _ _ _ _ _ _ _ _ _ hq1
        simp only [List.nil_append, Nat.sub_zero] at e1 l1 c1 s1
        subst e1
        have hsus : ∀ (l : List (Nat × Nat)) (s0 : St), (l.foldl (fun (s : St) (x : Nat × Nat) =>
            match findCtr (w.pools.getD x.1 default).active x.2 with
            | some c => { s with susp := dictSet s.susp c.cid (jobOfCtr w3 x.1 c) }
            | none => s) s0).qry = s0.qry ∧ (l.foldl (fun (s : St) (x : Nat × Nat) =>
            match findCtr (w.pools.getD x.1 default).active x.2 with
            | some c => { s with susp := dictSet s.susp c.cid (jobOfCtr w3 x.1 c) }
            | none => s) s0).inter = s0.inter ∧ (l.foldl (fun (s : St) (x : Nat × Nat) =>
            match findCtr (w.pools.getD x.1 default).active x.2 with
            | some c => { s with susp := dictSet s.susp c.cid (jobOfCtr w3 x.1 c) }
            | none => s) s0).batch = s0.batch := by
          intro l
          induction l with
          | nil => intro s0; simp
          | cons x xs ih =>
            intro s0
            simp only [List.foldl_cons]
            split
            · exact ih _
            · exact ih _
        have hq := (hsus _ _).1.symm.trans (congrArg St.qry hst) |>.symm
        have hi := (hsus _ _).2.1.symm.trans (congrArg St.inter hst) |>.symm
        have hb := (hsus _ _).2.2.symm.trans (congrArg St.batch hst) |>.symm
        simp only at hq hi hb
        -- case split on whether the query queue was drained
        by_cases hd1 : k1 < stq.qry.length
        · have hc1 := c1 hd1
          rw [prQueue_closed _ _ _ _ _ _ hc1] at hq2
          simp only [Except.ok.injEq, Prod.mk.injEq] at hq2
          obtain ⟨rfl, rfl, rfl, rfl⟩ := hq2
          rw [prQueue_closed _ _ _ _ _ _ hc1] at hq3
          simp only [Except.ok.injEq, Prod.mk.injEq] at hq3
          obtain ⟨rfl, rfl, rfl, rfl⟩ := hq3
          refine ⟨k1, 0, 0, a1, [], [], sa1, by rw [← hdec], hq, hi, hb, s1, by simp, by simp, fun _ => ⟨rfl, rfl⟩, fun _ => rfl, ?_⟩
          intro _
          exact (bestPool_none_iff sa1).mp hc1
        · obtain ⟨n2, e2, _, l2, c2, s2⟩ := prQueue_spec _ _ _ _ _ _ _ _ _ _ hq2
          simp only [List.nil_append, Nat.sub_zero] at e2 l2 c2 s2
          subst e2
          have hq' : st'.qry = [] := by rw [hq]; exact List.drop_eq_nil_of_le (by omega)
          by_cases hd2 : k2 < stq.inter.length
          · have hc2 := c2 hd2
            rw [prQueue_closed _ _ _ _ _ _ hc2] at hq3
            simp only [Except.ok.injEq, Prod.mk.injEq] at hq3
            obtain ⟨rfl, rfl, rfl, rfl⟩ := hq3
            refine ⟨k1, k2, 0, a1, a2, [], sa2, by rw [← hdec], hq, hi, hb, s1, s2, by simp, fun hne => absurd hq' hne, fun _ => rfl, ?_⟩
            intro _
            exact (bestPool_none_iff sa2).mp hc2
          · obtain ⟨n3, e3, _, l3, c3, s3⟩ := prQueue_spec _ _ _ _ _ _ _ _ _ _ hq3
            simp only [List.nil_append, Nat.sub_zero] at e3 l3 c3 s3
            subst e3
            have hi' : st'.inter = [] := by rw [hi]; exact List.drop_eq_nil_of_le (by omega)
            refine ⟨k1, k2, k3, a1, a2, a3, sa3, by rw [← hdec], hq, hi, hb, s1, s2, s3, fun hne => absurd hq' hne, fun hne => absurd hi' hne, ?_⟩
            intro hw
            have : st'.batch ≠ [] := by
              rcases hw with hw | hw | hw
              · exact absurd hq' hw
              · exact absurd hi' hw
              · exact hw
            have hd3 : k3 < stq.batch.length := by
              rw [hb] at this
              apply Decidable.byContradiction
              intro hge
              exact this (List.drop_eq_nil_of_le (by omega))
            exact (bestPool_none_iff sa3).mp (c3 hd3)


/-! ### preemption -/

/-- what a preemption request may name: a container of the pool's active list that is not a query container and sits at an operator boundary -/
abbrev Preemptible := Preempt.Preemptible

/-- **query-only preemption: what may be suspended.**  The scan asks for at most `need` suspensions, and each names a container of the pool's
active list that is not a query container and can be suspended (it sits at an operator boundary). -/
theorem prSuspend_spec (pools : List (List Ctr)) (need : Nat) :
    (∀ x ∈ prSuspend pools need, Preemptible pools x) ∧ (prSuspend pools need).length ≤ need :=
  Preempt.prSuspend_spec pools need

/-- **query-only preemption, per round**: the priority scheduler suspends only while a query job is still waiting after the round's assignments,
at most one container per waiting query job, and only active non-query containers at an operator boundary. -/
theorem round_preemption (w w' : World) (st st' : St) (res : List Res) (newP : List Nat) (dec : Decision)
    (h : prRound w st res newP = .ok (w', st', dec)) :
    (dec.sus ≠ [] → st'.qry ≠ []) ∧ dec.sus.length ≤ st'.qry.length ∧
    ∀ x ∈ dec.sus, ∃ c ∈ (w.pools.getD x.1 default).active, c.cid = x.2 ∧ c.prio ≠ prioQuery ∧ c.canSuspend = true := by
  unfold prRound at h
  simp only at h
  split at h
  · cases h
  · split at h
    · cases h
    · split at h
      · cases h
      · rename_i k1 _ _ _ _ _ k2 _ _ _ _ _ k3 _ _
        simp only [Except.ok.injEq, Prod.mk.injEq] at h
        obtain ⟨_, hst, hdec⟩ := h
        have hsus : ∀ (f : St → Nat × Nat → St), (∀ s x, (f s x).qry = s.qry) → ∀ (l : List (Nat × Nat)) (s0 : St), (l.foldl f s0).qry = s0.qry := by
          intro f hf l
          induction l with
          | nil => intro s0; rfl
          | cons x xs ih => intro s0; simp only [List.foldl_cons]; rw [ih, hf]
        have hq : st'.qry = (prRequeueSuspended w (prNoteSuspending w (prEnqueue w st res newP))).qry.drop k1 := by
          rw [← hst]
          rw [hsus]
          intro s x
          split <;> rfl
        rw [← hdec]
        simp only
        rw [hq]
        split
        · simp
        · rename_i hne
          have hne' : List.drop k1 (prRequeueSuspended w (prNoteSuspending w (prEnqueue w st res newP))).qry ≠ [] := by
            intro e; rw [e] at hne; simp at hne
          obtain ⟨hp, hl⟩ := prSuspend_spec (w.pools.map (·.active)) (List.drop k1 (prRequeueSuspended w (prNoteSuspending w (prEnqueue w st res newP))).qry).length
          refine ⟨fun _ => hne', hl, ?_⟩
          intro x hx
          obtain ⟨c, hc, e1, e2, e3⟩ := hp x hx
          refine ⟨c, ?_, e1, e2, e3⟩
          rw [List.getD_eq_getElem?_getD, List.getElem?_map] at hc
          rw [List.getD_eq_getElem?_getD]
          cases hgx : w.pools[x.1]? with
          | none => rw [hgx] at hc; simp at hc
          | some pl => rw [hgx] at hc; simpa using hc


/-! ### suspended work is offered again -/

def _root_.Eudoxia.Prio.St.has (s : St) (j : Job) : Prop := j ∈ s.qry ∨ j ∈ s.inter ∨ j ∈ s.batch

theorem push_has (s : St) (j : Job) (p : Nat) : (s.push j p).has j := by
  unfold St.push St.has
  split
  · left; simp
  · split
    · right; left; simp
    · right; right; simp

theorem push_mono (s : St) (j j' : Job) (p : Nat) (h : s.has j') : (s.push j p).has j' := by
  unfold St.push St.has at *
  split
  · rcases h with h | h | h
    · left; simp [h]
    · right; left; exact h
    · right; right; exact h
  · split
    · rcases h with h | h | h
      · left; exact h
      · right; left; simp [h]
      · right; right; exact h
    · rcases h with h | h | h
      · left; exact h
      · right; left; exact h
      · right; right; simp [h]

theorem push_susp (s : St) (j : Job) (p : Nat) : (s.push j p).susp = s.susp := by
  unfold St.push; split; rfl; split <;> rfl

/-- one step of the re-queue loop -/
def requeueStep (st : St) (c : Ctr) : St :=
  match st.susp.find? (·.1 == c.cid) with
  | some (_, job) => ({ st with susp := st.susp.filter (·.1 != c.cid) }).push job job.prio
  | none => st

theorem find_filter_ne (l : List (Nat × Job)) (a b : Nat) (h : a ≠ b) :
    (l.filter (·.1 != b)).find? (·.1 == a) = l.find? (·.1 == a) := by
  induction l with
  | nil => rfl
  | cons x xs ih =>
    by_cases hx : x.1 = b
    · have hxa : (x.1 == a) = false := by rw [hx]; simpa using fun e => h e.symm
      rw [List.filter_cons, List.find?_cons, hxa]
      simp [hx, ih]
    · rw [List.filter_cons]
      have : (x.1 != b) = true := by simpa using hx
      rw [this]
      simp only [↓reduceIte, List.find?_cons, ih]

theorem St.has_of_qry {s t : St} {j : Job} (h : s.has j) (e1 : t.qry = s.qry) (e2 : t.inter = s.inter) (e3 : t.batch = s.batch) : t.has j := by
  unfold St.has at *; rw [e1, e2, e3]; exact h

theorem requeueStep_mono (job : Job) (st : St) (c : Ctr) (h : st.has job) : (requeueStep st c).has job := by
  unfold requeueStep
  split
  · exact push_mono _ _ _ _ (St.has_of_qry h rfl rfl rfl)
  · exact h

theorem requeue_list_mono (job : Job) : ∀ (l : List Ctr) (st : St), st.has job → (l.foldl requeueStep st).has job := by
  intro l
  induction l with
  | nil => intro st h; exact h
  | cons x xs ih => intro st h; exact ih _ (requeueStep_mono job st x h)

/-- the invariant carried through the loop for a remembered job: it is already queued, or it is still remembered under its container -/
def Pending (cid : Nat) (job : Job) (st : St) : Prop := st.has job ∨ ∃ k, st.susp.find? (·.1 == cid) = some (k, job)

theorem requeueStep_pending (cid : Nat) (job : Job) (st : St) (c : Ctr) (h : Pending cid job st) : Pending cid job (requeueStep st c) := by
  rcases h with h | ⟨k, h⟩
  · exact Or.inl (requeueStep_mono job st c h)
  · by_cases hc : c.cid = cid
    · unfold requeueStep
      rw [hc, h]
      exact Or.inl (push_has _ _ _)
    · unfold requeueStep
      split
      · right
        refine ⟨k, ?_⟩
        rw [push_susp]
        simp only
        rw [find_filter_ne _ _ _ (fun e => hc e.symm)]
        exact h
      · exact Or.inr ⟨k, h⟩

theorem requeueStep_hit (cid : Nat) (job : Job) (st : St) (c : Ctr) (hc : c.cid = cid) (h : Pending cid job st) : (requeueStep st c).has job := by
  rcases h with h | ⟨k, h⟩
  · exact requeueStep_mono job st c h
  · unfold requeueStep; rw [hc, h]; exact push_has _ _ _

theorem requeue_list (cid : Nat) (job : Job) : ∀ (l : List Ctr) (st : St), Pending cid job st →
    Pending cid job (l.foldl requeueStep st) ∧ ((∃ c ∈ l, c.cid = cid) → (l.foldl requeueStep st).has job) := by
  intro l
  induction l with
  | nil => intro st h; exact ⟨h, by simp⟩
  | cons x xs ih =>
    intro st h
    simp only [List.foldl_cons]
    obtain ⟨i1, i2⟩ := ih _ (requeueStep_pending cid job st x h)
    refine ⟨i1, ?_⟩
    rintro ⟨c, hc, e⟩
    rcases List.mem_cons.mp hc with rfl | hc
    · exact requeue_list_mono job _ _ (requeueStep_hit cid job st c e h)
    · exact i2 ⟨c, hc, e⟩

theorem prRequeueSuspended_eq (w : World) (st : St) :
    prRequeueSuspended w st = (List.range w.pools.length).foldl (fun st k => (w.pools.getD k default).suspended.foldl requeueStep st) st := rfl

/-- **suspended work is offered again.**  If, when a round starts, a container sits in some pool's suspended list and the scheduler has a job
remembered under that container, the re-queue step puts exactly that job back into one of the waiting queues (from where the main loop of the same
round serves it in priority order). -/
theorem suspended_work_is_requeued (w : World) (st : St) (k : Nat) (c : Ctr) (key : Nat) (job : Job)
    (hk : k < w.pools.length) (hc : c ∈ (w.pools.getD k default).suspended)
    (hj : st.susp.find? (·.1 == c.cid) = some (key, job)) :
    (prRequeueSuspended w st).has job := by
  rw [prRequeueSuspended_eq]
  have stay : ∀ (ks : List Nat) (s : St), s.has job → (ks.foldl (fun st k => (w.pools.getD k default).suspended.foldl requeueStep st) s).has job := by
    intro ks
    induction ks with
    | nil => intro s hs; exact hs
    | cons y ys ihy => intro s hs; exact ihy _ (requeue_list_mono job _ _ hs)
  have gen : ∀ (ks : List Nat) (s : St), Pending c.cid job s →
      Pending c.cid job (ks.foldl (fun st k => (w.pools.getD k default).suspended.foldl requeueStep st) s) ∧
      (k ∈ ks → (ks.foldl (fun st k => (w.pools.getD k default).suspended.foldl requeueStep st) s).has job) := by
    intro ks
    induction ks with
    | nil => intro s h; exact ⟨h, by simp⟩
    | cons x xs ih =>
      intro s h
      simp only [List.foldl_cons]
      obtain ⟨p1, p2⟩ := requeue_list c.cid job (w.pools.getD x default).suspended s h
      obtain ⟨i1, i2⟩ := ih _ p1
      refine ⟨i1, ?_⟩
      intro hm
      rcases List.mem_cons.mp hm with rfl | hm
      · exact stay _ _ (p2 ⟨c, hc, rfl⟩)
      · exact i2 hm
  exact (gen _ st (Or.inr ⟨key, hj⟩)).2 (List.mem_range.mpr hk)

/-- the job remembered when a suspension is requested (or seen in progress) is found again under the container's number -/
theorem dictSet_find (d : List (Nat × Job)) (k : Nat) (j : Job) : (dictSet d k j).find? (·.1 == k) = some (k, j) := by
  unfold dictSet
  split
  · rename_i h
    induction d with
    | nil => simp at h
    | cons x xs ih =>
      by_cases hx : x.1 = k
      · simp [List.find?_cons, hx]
      · have hx' : (x.1 == k) = false := by simpa using hx
        simp only [List.map_cons, hx', Bool.false_eq_true, ↓reduceIte, List.find?_cons]
        apply ih
        simpa [hx'] using h
  · rename_i h
    rw [List.find?_append]
    have : d.find? (·.1 == k) = none := by
      rw [List.find?_eq_none]
      intro x hx hk
      exact h (List.any_eq_true.mpr ⟨x, hx, hk⟩)
    simp [this]


/-! ### first come, first served across rounds -/

/-- `t` extends `s`: every queue of `t` is the corresponding queue of `s` with jobs appended at the end -/
def Extends (s t : St) : Prop := (∃ a, t.qry = s.qry ++ a) ∧ (∃ a, t.inter = s.inter ++ a) ∧ (∃ a, t.batch = s.batch ++ a)

theorem Extends.refl (s : St) : Extends s s := ⟨⟨[], by simp⟩, ⟨[], by simp⟩, ⟨[], by simp⟩⟩

theorem Extends.trans {a b c : St} (h1 : Extends a b) (h2 : Extends b c) : Extends a c := by
  obtain ⟨⟨x1, e1⟩, ⟨x2, e2⟩, ⟨x3, e3⟩⟩ := h1
  obtain ⟨⟨y1, f1⟩, ⟨y2, f2⟩, ⟨y3, f3⟩⟩ := h2
  exact ⟨⟨x1 ++ y1, by rw [f1, e1, List.append_assoc]⟩, ⟨x2 ++ y2, by rw [f2, e2, List.append_assoc]⟩, ⟨x3 ++ y3, by rw [f3, e3, List.append_assoc]⟩⟩

theorem push_extends (s : St) (j : Job) (p : Nat) : Extends s (s.push j p) := by
  unfold St.push
  split
  · exact ⟨⟨[j], rfl⟩, ⟨[], by simp⟩, ⟨[], by simp⟩⟩
  · split
    · exact ⟨⟨[], by simp⟩, ⟨[j], rfl⟩, ⟨[], by simp⟩⟩
    · exact ⟨⟨[], by simp⟩, ⟨[], by simp⟩, ⟨[j], rfl⟩⟩

theorem foldl_extends {α : Type} (f : St → α → St) (hf : ∀ s x, Extends s (f s x)) : ∀ (l : List α) (s : St), Extends s (l.foldl f s) := by
  intro l
  induction l with
  | nil => intro s; exact Extends.refl s
  | cons x xs ih => intro s; exact (hf s x).trans (ih (f s x))

theorem susp_only_extends (s : St) (d : List (Nat × Job)) : Extends s { s with susp := d } := ⟨⟨[], by simp⟩, ⟨[], by simp⟩, ⟨[], by simp⟩⟩

/-- **nothing jumps the queue.**  What the priority scheduler does to its queues before the main loop of a round — queueing new and failed work,
remembering suspending containers, re-queueing suspended work — only appends at the end: every job already waiting keeps its place ahead of
everything queued later.  With `round_order_and_conservation` (each queue is consumed from its head, in order) this is first come, first served
within a class across rounds. -/
theorem queues_only_grow_at_the_end (w : World) (st : St) (res : List Res) (newP : List Nat) :
    Extends st (prRequeueSuspended w (prNoteSuspending w (prEnqueue w st res newP))) := by
  have h1 : Extends st (prEnqueue w st res newP) := by
    unfold prEnqueue
    simp only
    split
    · exact Extends.refl st
    · apply foldl_extends
      intro s pid
      split
      · exact Extends.refl s
      · split
        · exact push_extends _ _ _
        · apply foldl_extends
          intro s' o
          exact push_extends _ _ _
  have h2 : ∀ s, Extends s (prNoteSuspending w s) := by
    intro s
    unfold prNoteSuspending
    apply foldl_extends
    intro s' k
    apply foldl_extends
    intro s'' c
    exact susp_only_extends _ _
  have h3 : ∀ s, Extends s (prRequeueSuspended w s) := by
    intro s
    unfold prRequeueSuspended
    apply foldl_extends
    intro s' k
    apply foldl_extends
    intro s'' c
    split
    · exact (susp_only_extends s'' _).trans (push_extends _ _ _)
    · exact Extends.refl s''
  exact h1.trans ((h2 _).trans (h3 _))

/-! ### over whole runs -/

theorem find_of_mem_nodup {l : List (Nat × Job)} (h : (l.map (·.1)).Nodup) {x : Nat × Job} (hx : x ∈ l) : l.find? (·.1 == x.1) = some x := by
  induction l with
  | nil => cases hx
  | cons z zs ih =>
    simp only [List.map_cons, List.nodup_cons] at h
    rcases List.mem_cons.mp hx with rfl | hx'
    · simp
    · have hne : z.1 ≠ x.1 := fun e => h.1 (by rw [e]; exact List.mem_map_of_mem hx')
      rw [List.find?_cons_of_neg (by simpa using hne)]
      exact ih h.2 hx'

/-- **suspended work is offered again, whole and in the very next round — in every round of every run.**  In a world that satisfies the loop invariant `PM.PMInv` of `priority` with multi-operator containers
(which every round and tick of every run re-establishes: `C08.priority_multi_operator_run_never_raises`),
for every container whose write-out ended in the last tick the round's re-queue step puts a job into the waiting queues whose operators are exactly the
container's unfinished suffix -/
theorem suspended_work_is_offered_again_whole_in_every_round_of_every_run (w : World) (st : St) (cs js : List Ctr) (newP F : List Nat) (inv : PM.PMInv w st cs js (newP ++ F)) :
    ∀ c ∈ js, ∃ job, (prRequeueSuspended w (prNoteSuspending w (prEnqueue w st (cs.map mkRes) newP))).has job ∧ job.ops = c.unfinished := by
  intro c hc
  obtain ⟨_, _, _, cDS, _⟩ := cidsOK_facts inv.cids
  obtain ⟨x, hx, e⟩ := List.mem_map.mp (inv.has c hc)
  obtain ⟨_, _, _, _, _, p, hp, hcp⟩ := inv.park c hc
  obtain ⟨k, hk, hkp⟩ := PM.pool_index hp
  have hndN : newP.Nodup := (List.nodup_append.mp inv.fnd).1
  have hres : ∀ r ∈ cs.map mkRes, 0 < r.cpu ∧ 0 < r.ram := by
    intro r hr
    obtain ⟨c', hc', rfl⟩ := List.mem_map.mp hr
    obtain ⟨_, _, hg⟩ := inv.res c' hc'
    exact ⟨hg.1.2.2.2.1, hg.1.2.2.2.2⟩
  obtain ⟨_, _, sas, _⟩ := PM.prEnqueueM_ok w st (cs.map mkRes) newP inv.multi inv.wfp inv.segs inv.pid inv.topo inv.jobs inv.whole hndN hres
    (PM.quiet_touched w st cs js newP F inv)
  generalize prEnqueue w st (cs.map mkRes) newP = sa at sas
  rw [PM.prNoteSuspending_eq]
  have hk0 : (sa.susp.map (·.1)).Nodup := by rw [sas]; exact inv.keys
  obtain ⟨n1, _, n3, _⟩ := PM.setAll_spec (PM.noteList w) sa.susp hk0
  have hxin : x ∈ PM.setAll sa.susp (PM.noteList w) := by
    apply n3 x (by rw [sas]; exact hx)
    rw [PM.noteList_keys', e]
    exact (cDS c.cid (List.mem_map_of_mem (List.mem_flatMap.mpr ⟨p, hp, hcp⟩))).1
  have hfind := find_of_mem_nodup n1 hxin
  rw [e] at hfind
  refine ⟨x.2, suspended_work_is_requeued w _ k c x.1 x.2 hk (by rw [hkp]; exact hcp) hfind, (inv.ent x hx c (Or.inl hc) e.symm).1⟩

/-- **what waits in the queues, in every round of every run** (`priority`, multi-operator containers): under the loop invariant, the queued jobs share no
operator; each holds at least one operator; every operator of it is PENDING or FAILED — never ASSIGNED, RUNNING, SUSPENDING or COMPLETED; each operator's parents
are COMPLETED or earlier in the same job (so the job can be handed to the `Assignment` constructor as it is); and the job is *all* the unfinished work of its
pipeline.  This is the link between "is in a queue" and "is ready, pending work" that the per-round theorems above take as given. -/
theorem queued_jobs_are_ready_whole_and_distinct (w : World) (st : St) (cs js : List Ctr) (F : List Nat) (inv : PM.PMInv w st cs js F) :
    (st.jobs.flatMap (·.ops)).Nodup ∧ ∀ j ∈ st.jobs, j.ops ≠ [] ∧ (∀ o ∈ j.ops, w.store.stOf o = pending ∨ w.store.stOf o = failed) ∧
      ParentsOK w.store j.ops ∧ PM.WholeOps w.pipes w.store j.ops := by
  refine ⟨inv.jobs.nd, fun j hj => ⟨(inv.jobs.ok j hj).ne, fun o ho => ?_, (inv.jobs.ok j hj).par, inv.whole j hj⟩⟩
  have := ((inv.jobs.ok j hj).ok o ho).2.1
  simpa [assignable] using this

/-- the same link with single-operator containers: under the loop invariant of that mode (`C08.priority_single_operator_run_never_raises` re-establishes it tick
after tick) every queued job is exactly one operator, no operator is queued twice, and each is PENDING or FAILED with *all its parents COMPLETED* — ready -/
theorem queued_operators_are_ready_and_distinct_single (w : World) (st : St) (res : List Res) (inv : Prio.PRInv w st res) :
    (st.jobs.flatMap (·.ops)).Nodup ∧ ∀ j ∈ st.jobs, ∃ o, j.ops = [o] ∧ (w.store.stOf o = pending ∨ w.store.stOf o = failed) ∧
      ∀ p ∈ w.store.parentsOf o, w.store.stOf p = completed := by
  refine ⟨inv.jobs.nd, fun j hj => ?_⟩
  obtain ⟨o, e, ok⟩ := (inv.jobs.ok j hj).one
  exact ⟨o, e, by simpa [assignable] using ok.2.1, ok.2.2.1⟩

/-- the same link for `priority-pool` (multi-operator containers): under its loop invariant (`C08.priority_pool_run_never_raises` re-establishes it tick after
tick, from every fresh world) the queued jobs share no operator, none is empty, every operator of a queued job is PENDING or FAILED, and each operator's parents
are COMPLETED or earlier in the same job; and nothing queued belongs to a pipeline that has not arrived yet -/
theorem queued_jobs_are_ready_and_distinct_priority_pool (w : World) (st : St) (cs : List Ctr) (F : List Nat) (inv : PP.PPInv w st cs F) :
    (st.jobs.flatMap (·.ops)).Nodup ∧ (∀ o ∈ st.jobs.flatMap (·.ops), w.store.pidOf o ∉ F) ∧
    ∀ j ∈ st.jobs, j.ops ≠ [] ∧ (∀ o ∈ j.ops, w.store.stOf o = pending ∨ w.store.stOf o = failed) ∧ ParentsOK w.store j.ops := by
  refine ⟨inv.jobs.nd, inv.jobsF, fun j hj => ⟨(inv.jobs.ok j hj).ne, fun o ho => ?_, (inv.jobs.ok j hj).par⟩⟩
  have := ((inv.jobs.ok j hj).ok o ho).2.1
  simpa [assignable] using this

end Eudoxia.C12
