import EudoxiaModel.Model.SObs
namespace Eudoxia.C12
theorem placeholder : True := trivial
end Eudoxia.C12
