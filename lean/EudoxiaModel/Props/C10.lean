import EudoxiaModel.Proofs.Lift
import EudoxiaModel.Proofs.WorldDeadSusp
import EudoxiaModel.Proofs.FreshWorlds
/-! # C10 — suspension only between operators, lasts RAM/20 s, returns work intact -/
namespace Eudoxia.C10
open Eudoxia OpState Extracted

/-- **C10.1a — the boundary flag.**  After a tick of a running container (that is not frozen over its limit), `can_suspend` holds
exactly if that tick completed an operator and another operator remains. -/
theorem can_suspend_iff_operator_boundary {w w' : Store} {c c' : Ctr} {cons cons' : Int} {r : Nat} {last : Bool} {m : Nat}
    (hc : c.completed = false) (h : runAt w c cons r last m = .ok (w', c', cons')) (hf : c'.frozen = false) :
    (c'.canSuspend = true ↔ (c'.curOpIdx = c.curOpIdx + 1 ∧ c'.completed = false)) :=
  (runAt_spec h).2.2.2.2.2.2.2.2.2.2.2.2 hc hf

/-- **C10.1b — a request at any other time, or for a container that is not running, is rejected.** -/
theorem suspend_request_validated (p : Pool) (l : List Nat) :
    verifySuspends p l = .ok () ↔ ∀ cid ∈ l, ∃ c, findCtr p.active cid = some c ∧ c.canSuspend = true := by
  induction l with
  | nil => simp [verifySuspends]
  | cons cid rest ih =>
    unfold verifySuspends
    cases hf : findCtr p.active cid with
    | none =>
      simp only [List.mem_cons, forall_eq_or_imp, hf]
      constructor
      · intro h; cases h
      · rintro ⟨⟨c, hc, _⟩, _⟩; cases hc
    | some c =>
      simp only [List.mem_cons, forall_eq_or_imp, hf, Option.some.injEq, exists_eq_left']
      by_cases hs : c.canSuspend
      · simp only [hs, ↓reduceIte, true_and]; exact ih
      · simp only [hs, Bool.false_eq_true, ↓reduceIte, false_and, iff_false]
        intro h; cases h

/-- **C10.2a — duration.**  The write-out takes ⌊ram/20 · tps⌋ = ⌊ram/g⌋ ticks, at least one. -/
theorem write_out_ticks (cfg : Cfg) (c : Ctr) : c.writeOutTicks cfg = max 1 (c.ram / cfg.g) ∧ 1 ≤ c.writeOutTicks cfg := by
  unfold Ctr.writeOutTicks; exact ⟨rfl, by omega⟩

/-- `k` executor ticks of a suspending container -/
def suspendTicks : Nat → Store → Ctr → Except Err (Store × Ctr)
  | 0, w, c => .ok (w, c)
  | k + 1, w, c => match c.suspendTick w with
    | .error e => .error e
    | .ok (w1, c1) => suspendTicks k w1 c1

/-- **C10.2b — a suspension accepted now ends exactly `writeOutTicks` ticks later and not before**: after `k` ticks the countdown
stands at `W − k`; the container makes no progress meanwhile (position, completed prefix and allocation are untouched). -/
theorem suspension_lasts_exactly (k : Nat) : ∀ (w w' : Store) (c c' : Ctr),
    suspendTicks k w c = .ok (w', c') →
    c'.suspLeft = c.suspLeft - (k : Int) ∧ key c' = key c ∧ c'.curOpIdx = c.curOpIdx ∧ c'.ops = c.ops ∧ c'.pos = c.pos ∧ c'.mem = c.mem := by
  induction k with
  | zero => intro w w' c c' h; simp [suspendTicks] at h; obtain ⟨_, rfl⟩ := h; simp
  | succ k ih =>
    intro w w' c c' h
    unfold suspendTicks at h
    split at h
    · cases h
    · rename_i w1 c1 h1
      have e : c1 = { c with suspLeft := c.suspLeft - 1 } := by
        unfold Ctr.suspendTick at h1
        split at h1
        · split at h1
          · cases h1
          · cases h1; rfl
        · cases h1; rfl
      obtain ⟨i1, i2, i3, i4, i5, i6⟩ := ih _ _ _ _ h
      rw [e] at i1 i2 i3 i4 i5 i6
      refine ⟨by simp only [] at i1; rw [i1]; push_cast; omega, i2, i3, i4, i5, i6⟩

theorem no_self_loops (t : OpState) : t ∉ validNext t := by cases t <;> decide

theorem transAll_sets (t : OpState) : ∀ (l : List Nat) (w w' : Store), w.transAll t l = .ok w' → ∀ r ∈ l, w'.stOf r = t := by
  intro l
  induction l with
  | nil => intro _ _ _ r hr; cases hr
  | cons x xs ih =>
    intro w w' h r hr
    unfold Store.transAll at h
    split at h
    · cases h
    · rename_i w1 hw1
      by_cases hmem : r ∈ xs
      · exact ih _ _ h r hmem
      · have hrx : r = x := by rcases List.mem_cons.mp hr with e | e; exact e; exact absurd e hmem
        subst hrx
        -- r is not touched again
        have hself : w1.stOf r = t := transition_self hw1 (transition_ok hw1).2.2.2
        have : ∀ (ys : List Nat) (u u' : Store), u.transAll t ys = .ok u' → r ∉ ys → u'.stOf r = u.stOf r := by
          intro ys
          induction ys with
          | nil => intro u u' hu _; simp [Store.transAll] at hu; rw [hu]
          | cons y ys ihy =>
            intro u u' hu hnot
            unfold Store.transAll at hu
            split at hu
            · cases hu
            · rename_i u1 hu1
              rw [ihy _ _ hu (fun hm => hnot (List.mem_cons_of_mem _ hm))]
              exact transition_other hu1 (fun e => hnot (by rw [e]; simp))
        rw [this xs w1 w' h hmem, hself]

/-- **C10.3 — returns work intact.**  In the tick its write-out ends, the container's unfinished operators return to PENDING
(assignable again) and its finished ones stay COMPLETED. -/
theorem suspension_end_returns_work {w w' : Store} {c c' : Ctr} (hend : c.suspLeft - 1 = 0)
    (h : c.suspendTick w = .ok (w', c')) :
    (∀ o ∈ c.unfinished, w'.stOf o = pending ∧ pending ∈ assignable) ∧ (∀ o, w.stOf o = completed → w'.stOf o = completed) := by
  unfold Ctr.suspendTick at h
  simp only [hend, beq_self_eq_true, ↓reduceIte] at h
  split at h
  · cases h
  · rename_i w1 hw1
    have e : w1 = w' := ok_fst h
    subst e
    exact ⟨fun o ho => ⟨transAll_sets _ _ _ _ hw1 o ho, by decide⟩, fun o ho => completed_final (transAll_steps _ _ _ _ hw1) o ho⟩

/-- while the write-out is still running nothing happens to operator states -/
theorem suspension_midway_unchanged {w w' : Store} {c c' : Ctr} (hmid : c.suspLeft - 1 ≠ 0)
    (h : c.suspendTick w = .ok (w', c')) : w' = w := by
  unfold Ctr.suspendTick at h
  have : (c.suspLeft - 1 == 0) = false := by simpa using hmid
  simp only [this, Bool.false_eq_true, ↓reduceIte] at h
  exact (ok_fst h).symm

/-- a suspending container keeps its whole allocation until the end and then exactly its allocation is freed: this is the conservation
invariant of C03 (`PoolInv`) at every tick boundary — restated here for the suspension phase alone -/
theorem allocation_held_then_freed {w w' : Store} {p p' : Pool} {n : Nat} (inv : PoolInv p n) (h : suspTickAll w p = .ok (w', p')) :
    p'.availC + cpuSum p'.active + cpuSum p'.suspending = p'.capC ∧ p'.availR + ramSum p'.active + ramSum p'.suspending = p'.capR :=
  let ⟨i, _⟩ := suspTickAll_inv inv h; ⟨i.cpu, i.ram⟩

/-- suspended containers report no result: results are built from running containers only -/
theorem results_come_from_running_containers (p : Pool) : ∀ r ∈ (collect p).2, ∃ c ∈ p.active, c.completed = true ∧ r = mkRes c := by
  intro r hr
  simp only [collect] at hr
  obtain ⟨c, hc, rfl⟩ := List.mem_map.mp hr
  exact ⟨c, (List.mem_filter.mp hc).1, by simpa using (List.mem_filter.mp hc).2, rfl⟩

example : suspendTicks 3 {} { cid := 0, ops := [], cpu := 1, ram := 60, pos := { ops := [] }, suspLeft := 3 } =
    .ok ({}, { cid := 0, ops := [], cpu := 1, ram := 60, pos := { ops := [] }, suspLeft := 0 }) := by
  simp [suspendTicks, Ctr.suspendTick, Ctr.unfinished, Store.transAll]

/-- **C10 over a whole executor tick — the work comes back intact.**  In any world reached by ticks from one whose containers have their record straight
(`World.FinS`: e.g. a world without containers, and the property is handed on from tick to tick), after a tick with any admissible commands every container
that is in a suspended list is one that was there before, or one whose write-out ended in this tick — and of those, the operators it had got through are
COMPLETED and the *whole* rest is PENDING again, none of it touched by anything else that happened in the tick (other pools, OOM kills, new containers). -/
theorem write_out_end_returns_the_unfinished_operators (w0 w1 : World) (asgs : List Asg) (sus : List (Nat × Nat)) (hr : WorldReady w0) (hb : Built w0 asgs w1)
    (hseg : ∀ a ∈ asgs, ∀ r ∈ a.ops, w0.store.segsOf r ≠ []) (hpar : ∀ a ∈ asgs, ParentsOK w1.store a.ops)
    (hsus : ∀ i, ((sus.filter (·.1 == i)).map (·.2)).Nodup) (hf : w0.FinS)
    {w2 : World} {res : List Res} (hx : w1.execTick sus asgs = .ok (w2, res)) :
    w2.FinS ∧ ∀ p ∈ w2.pools, ∀ c ∈ p.suspended, (∃ q ∈ w1.pools, c ∈ q.suspended) ∨
      (c.completed = false ∧ (∀ o ∈ c.ops.take c.curOpIdx, w2.store.stOf o = completed) ∧ ∀ o ∈ c.unfinished, w2.store.stOf o = pending) := by
  obtain ⟨f2, cs, js, _, _, hj, _, _, hsd, _⟩ := execTick_finS w0 w1 asgs sus hr hb hseg hpar hsus hf hx
  refine ⟨f2, fun p hp c hc => ?_⟩
  rcases hsd p hp c hc with h | h
  · exact Or.inl h
  · obtain ⟨x1, x2, x3, _⟩ := hj c h
    exact Or.inr ⟨x2, x1.pre, x3⟩

/-- **over whole runs of `priority` with multi-operator containers** (the shipped scheduler that suspends): on every tick of every run from a fresh world
with a well-formed workload, every container that is being written out still has work left (it was suspended between two operators, never after its last),
and every container whose write-out ended in the last tick is in a suspended list, not ended, with a non-empty unfinished suffix all of which is PENDING
again — the work comes back intact — and the scheduler remembers a job for it under its number (so it is offered again: C12) -/
theorem suspended_work_comes_back_intact_on_every_tick_of_every_priority_run (cfg : Cfg) (store : Store) (pipes : Array PipeInfo) (caps : List (Nat × Nat))
    (arrivals : List (List Nat)) (hm : cfg.multiOp = true) (ho : cfg.overcommit = false) (hq : 0 < cfg.q)
    (wf : (freshWorld cfg store pipes caps).WFP) (hs : (freshWorld cfg store pipes caps).SegsOK) (hp : (freshWorld cfg store pipes caps).PidOK)
    (ht : (freshWorld cfg store pipes caps).Topo) (hF : arrivals.flatten.Nodup)
    (hfut : ∀ pid ∈ arrivals.flatten, (pipes.getD pid default).order ≠ [] ∧ ∀ o ∈ (pipes.getD pid default).order, store.stOf o = pending) :
    ∃ (w' : World) (st' : Prio.St) (cs' js' : List Ctr), Prio.loop (freshWorld cfg store pipes caps) {} [] arrivals = .ok (w', st', cs'.map mkRes) ∧
      (∀ p ∈ w'.pools, ∀ c ∈ p.suspending, c.unfinished ≠ []) ∧
      (∀ c ∈ js', c.completed = false ∧ c.unfinished ≠ [] ∧ (∀ o ∈ c.unfinished, w'.store.stOf o = pending) ∧ (∃ p ∈ w'.pools, c ∈ p.suspended) ∧
        c.cid ∈ st'.susp.map (·.1)) := by
  obtain ⟨w', st', cs', js', h, inv⟩ := PM.run_never_raises arrivals _ {} [] [] (PM.fresh_inv cfg store pipes caps _ hm ho hq wf hs hp ht hF hfut)
  refine ⟨w', st', cs', js', h, inv.sne, fun c hc => ?_⟩
  obtain ⟨_, a2, a3, _, a5, a6⟩ := inv.park c hc
  exact ⟨a2, a5, a3, a6, inv.has c hc⟩

end Eudoxia.C10
