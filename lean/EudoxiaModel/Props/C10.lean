import EudoxiaModel.Proofs.Reach
namespace Eudoxia.C10
theorem placeholder : True := trivial
end Eudoxia.C10
