import EudoxiaModel.Proofs.Reach
namespace Eudoxia.C04
theorem placeholder : True := trivial
end Eudoxia.C04
