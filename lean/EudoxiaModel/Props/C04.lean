import EudoxiaModel.Proofs.Lift
import EudoxiaModel.Model.Obs
import EudoxiaModel.Proofs.FreshWorlds
/-! # C04 — memory limits hold after every tick and reported usage is the real usage -/
namespace Eudoxia.C04
open Eudoxia

/-- **C04.1–C04.3 (full strength).**  In every world reachable under arbitrary command sequences, at every tick boundary,
in every pool: no running container uses more memory than it was allocated (and none is finished or frozen), the usage
the pool reports is the sum of the current use of its running containers, and it does not exceed the pool's capacity. -/
theorem limits_and_reported_usage {w0 w : World} (g0 : w0.AllPools PoolGoodMem) (h : Reach w0 w) :
    ∀ p ∈ w.pools,
      (∀ c ∈ p.active, c.mem ≤ c.ram ∧ c.completed = false ∧ c.frozen = false) ∧
      p.consumed = memSum p.active ∧ p.consumed ≤ p.capR := by
  intro p hp
  obtain ⟨_, m⟩ := reach_lift poolGoodMem_tick h g0 p hp
  exact ⟨fun c hc => ⟨(m.ok c hc).2.2, (m.ok c hc).1, (m.ok c hc).2.1⟩, m.sum, m.cap⟩

/-- a freshly configured executor satisfies the hypothesis -/
theorem fresh_world_good (cfg : Cfg) (npools cpus ram : Nat) :
    ({ cfg := cfg, pools := List.replicate npools (Pool.fresh cpus ram) } : World).AllPools PoolGoodMem := by
  intro p hp
  have := List.eq_of_mem_replicate hp
  subst this
  exact ⟨⟨poolInv_fresh _ _ _, by simp [Pool.NonNeg, Pool.fresh]⟩, memOK_fresh _ _⟩

/-- a pool with no running container reports zero -/
theorem idle_pool_reports_zero (p : Pool) (m : MemOK p) (h : p.active = []) : p.consumed = 0 := by
  rw [m.sum, h]; rfl

/-- **C04.4a — kills are justified.**  The killer's first step kills exactly the containers whose own demand exceeds their own
allocation; its second (pool-level) step does nothing unless the usage that is left still exceeds the pool's capacity. -/
theorem kills_are_justified {w w' : Store} {p p' : Pool} (hnd : (cids p.active).Nodup) (hT : ∀ c ∈ p.active, CtrTicked c)
    (hs : p.consumed = memSum p.active) (h : oomKiller w p = .ok (w', p')) :
    ∃ act1, act1 = p.active.map (fun c => if c.mem > c.ram then killedCtr c else c) ∧ (memSum act1 ≤ p.capR → p'.active = act1) :=
  (oomKiller_mem hnd hT hs h).2.2.2

/-- **C04.4b — without overcommit a container that stays within its allocation is never killed**: the usage left after the
first step is at most the allocated RAM, which without overcommit is at most the capacity, so the pool-level step never runs. -/
theorem no_overcommit_no_innocent_kill {cfg : Cfg} {w w' : Store} {p p' : Pool} {n : Nat} (ho : cfg.overcommit = false)
    (g : p.Good cfg n) (hT : ∀ c ∈ p.active, CtrTicked c) (hs : p.consumed = memSum p.active)
    (h : oomKiller w p = .ok (w', p')) :
    p'.active = p.active.map (fun c => if c.mem > c.ram then killedCtr c else c) := by
  have hnd : (cids p.active).Nodup := (List.nodup_append.mp g.1.nodup).1
  obtain ⟨act1, e1, himp⟩ := kills_are_justified hnd hT hs h
  rw [← e1]
  apply himp
  -- after step 1 everybody is within the own allocation (or killed, using nothing)
  have hle : memSum act1 ≤ ramSum act1 := by
    apply memSum_le_ramSum
    intro c hc
    rw [e1] at hc
    obtain ⟨x, _, rfl⟩ := List.mem_map.mp hc
    split
    · simp [killedCtr]
    · rename_i hx; omega
  have hram : ramSum act1 = ramSum p.active := by
    apply ramSum_keys
    rw [e1, List.map_map]
    apply List.map_congr_left
    intro x _
    simp only [Function.comp]; split <;> rfl
  have h1 := g.1.ram
  have h2 := g.2.2 ho
  have h3 := ramSum_nonneg p.suspending
  omega

theorem isum_map_mem (l : List Ctr) : isum ((l.map Ctr.toObs).map (fun c => (c.mem : Int))) = memSum l := by
  simp [isum, memSum, Ctr.toObs, List.map_map, Function.comp_def]

/-- the checker evaluated on implementation traces (`memoryOkB`, clause memory-limits of `check_C04`) accepts every state that satisfies the invariant -/
theorem checker_accepts_invariant {p : Pool} (m : MemOK p) : memoryOkB p.toObs = true := by
  unfold memoryOkB Pool.toObs
  simp only [isum_map_mem, Bool.and_eq_true, List.all_eq_true, decide_eq_true_eq, beq_iff_eq, List.mem_map]
  refine ⟨⟨?_, m.sum⟩, m.cap⟩
  rintro _ ⟨c, hc, rfl⟩
  exact (m.ok c hc).2.2

/-! ### full simulations under the shipped schedulers (the property's "for all full simulations")

The executor's invariant `WorldReady`, which the whole-run theorems of C08 / C18 carry through every tick of every run, contains the memory invariant.
`arrivals` is any list of arrival batches, one per tick, so the world after the run is the world at an arbitrary tick boundary. -/

/-- what `WorldReady` says about memory -/
theorem ready_world_keeps_limits {w : World} (hr : WorldReady w) :
    ∀ p ∈ w.pools,
      (∀ c ∈ p.active, c.mem ≤ c.ram ∧ c.completed = false ∧ c.frozen = false) ∧
      p.consumed = memSum p.active ∧ p.consumed ≤ p.capR := by
  intro p hp
  have m := (hr.pools p hp).1.2
  exact ⟨fun c hc => ⟨(m.ok c hc).2.2, (m.ok c hc).1, (m.ok c hc).2.1⟩, m.sum, m.cap⟩

/-- **`priority` (multi-operator containers, pre-emption)**: on every tick of every run from a fresh world, every running container is within its allocation
and the reported usage is the real usage and fits the pool -/
theorem limits_hold_on_every_tick_of_every_priority_run (cfg : Cfg) (store : Store) (pipes : Array PipeInfo) (caps : List (Nat × Nat))
    (arrivals : List (List Nat)) (hm : cfg.multiOp = true) (ho : cfg.overcommit = false) (hq : 0 < cfg.q)
    (wf : (freshWorld cfg store pipes caps).WFP) (hs : (freshWorld cfg store pipes caps).SegsOK) (hp : (freshWorld cfg store pipes caps).PidOK)
    (ht : (freshWorld cfg store pipes caps).Topo) (hF : arrivals.flatten.Nodup)
    (hfut : ∀ pid ∈ arrivals.flatten, (pipes.getD pid default).order ≠ [] ∧ ∀ o ∈ (pipes.getD pid default).order, store.stOf o = OpState.pending) :
    ∃ w' st' res', Prio.loop (freshWorld cfg store pipes caps) {} [] arrivals = .ok (w', st', res') ∧
      ∀ p ∈ w'.pools, (∀ c ∈ p.active, c.mem ≤ c.ram ∧ c.completed = false ∧ c.frozen = false) ∧ p.consumed = memSum p.active ∧ p.consumed ≤ p.capR := by
  obtain ⟨w', st', cs', js', h, inv⟩ := PM.run_never_raises arrivals _ {} [] [] (PM.fresh_inv cfg store pipes caps _ hm ho hq wf hs hp ht hF hfut)
  exact ⟨w', st', _, h, ready_world_keeps_limits inv.ready⟩

/-- **`priority-pool` (multi-operator containers)** -/
theorem limits_hold_on_every_tick_of_every_priority_pool_run (cfg : Cfg) (store : Store) (pipes : Array PipeInfo) (c0 c1 : Nat × Nat)
    (arrivals : List (List Nat)) (hm : cfg.multiOp = true) (hq : 0 < cfg.q) (h0 : 0 < c0.1 ∧ 0 < c0.2) (h1 : 0 < c1.1 ∧ 0 < c1.2)
    (wf : (freshWorld cfg store pipes [c0, c1]).WFP) (hs : (freshWorld cfg store pipes [c0, c1]).SegsOK) (hp : (freshWorld cfg store pipes [c0, c1]).PidOK)
    (ht : (freshWorld cfg store pipes [c0, c1]).Topo) (hF : arrivals.flatten.Nodup)
    (hfut : ∀ pid ∈ arrivals.flatten, (pipes.getD pid default).order ≠ [] ∧ ∀ o ∈ (pipes.getD pid default).order, store.stOf o = OpState.pending) :
    ∃ w' st' res', PP.loop (freshWorld cfg store pipes [c0, c1]) {} [] arrivals = .ok (w', st', res') ∧
      ∀ p ∈ w'.pools, (∀ c ∈ p.active, c.mem ≤ c.ram ∧ c.completed = false ∧ c.frozen = false) ∧ p.consumed = memSum p.active ∧ p.consumed ≤ p.capR := by
  obtain ⟨w', st', cs', h, inv⟩ := PP.run_never_raises arrivals _ {} [] (PP.fresh_inv cfg store pipes c0 c1 _ hm hq h0 h1 wf hs hp ht hF hfut)
  exact ⟨w', st', _, h, ready_world_keeps_limits inv.ready⟩

/-- **`overbook` (memory overcommit enabled)**: allocations may add up to more than the pool, the memory actually used never does after a tick -/
theorem limits_hold_on_every_tick_of_every_overbook_run (cfg : Cfg) (store : Store) (pipes : Array PipeInfo) (caps : List (Nat × Nat))
    (arrivals : List (List Nat)) (ho : cfg.overcommit = true) (hc : ∀ c ∈ caps, 0 < c.2)
    (wf : (freshWorld cfg store pipes caps).WFP) (hs : (freshWorld cfg store pipes caps).SegsOK) :
    ∃ w' st' res', Overbook.loop (freshWorld cfg store pipes caps) {} [] arrivals = .ok (w', st', res') ∧
      ∀ p ∈ w'.pools, (∀ c ∈ p.active, c.mem ≤ c.ram ∧ c.completed = false ∧ c.frozen = false) ∧ p.consumed = memSum p.active ∧ p.consumed ≤ p.capR := by
  obtain ⟨w', st', res', h, inv⟩ := Overbook.run_never_raises arrivals _ {} [] (Overbook.fresh_inv cfg store pipes caps ho hc wf hs)
  exact ⟨w', st', res', h, ready_world_keeps_limits inv.ready⟩

/-- **`priority` with single-operator containers** -/
theorem limits_hold_on_every_tick_of_every_priority_single_operator_run (cfg : Cfg) (store : Store) (pipes : Array PipeInfo) (caps : List (Nat × Nat))
    (arrivals : List (List Nat)) (hm : cfg.multiOp = false) (ho : cfg.overcommit = false) (hq : 0 < cfg.q)
    (wf : (freshWorld cfg store pipes caps).WFP) (hs : (freshWorld cfg store pipes caps).SegsOK) (hp : (freshWorld cfg store pipes caps).PidOK)
    (hn : ∀ newP ∈ arrivals, newP.Nodup) :
    ∃ w' st' res', Prio.loop (freshWorld cfg store pipes caps) {} [] arrivals = .ok (w', st', res') ∧
      ∀ p ∈ w'.pools, (∀ c ∈ p.active, c.mem ≤ c.ram ∧ c.completed = false ∧ c.frozen = false) ∧ p.consumed = memSum p.active ∧ p.consumed ≤ p.capR := by
  obtain ⟨w', st', res', h, inv⟩ := Prio.run_single_never_raises arrivals _ {} [] hn (Prio.fresh_inv_single cfg store pipes caps hm ho hq wf hs hp)
  exact ⟨w', st', res', h, ready_world_keeps_limits inv.ready⟩

end Eudoxia.C04
