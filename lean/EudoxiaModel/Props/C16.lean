import EudoxiaModel.Model.SObs
namespace Eudoxia.C16
theorem placeholder : True := trivial
end Eudoxia.C16
