import EudoxiaModel.Model.Sched.Priority
import EudoxiaModel.Proofs.WorldInv
import EudoxiaModel.Proofs.CtrKept
import EudoxiaModel.Proofs.NaiveMulti
import EudoxiaModel.Proofs.PrioBudget
import EudoxiaModel.Proofs.WorldLive
import EudoxiaModel.Proofs.PoolLoop
import EudoxiaModel.Proofs.PoolExample
import EudoxiaModel.Proofs.FreshWorlds
/-! # C16 — priority-pool keeps batch work and latency-sensitive work on separate pools -/
namespace Eudoxia.C16
open Eudoxia Eudoxia.Prio OpState Extracted

/-- building an Assignment never trips the *scheduler's* own assertion -/
theorem mkA_not_schedAssert {w : World} {ops : List Nat} {cpu ram prio pool : Nat} {w' : World}
    (h : mkA w ops cpu ram prio pool = .error (.schedAssert, w')) : False := by
  unfold mkA at h
  split at h
  · rename_i e hm
    cases h
    unfold World.mkAssignment at hm
    split at hm
    · cases hm
    · split at hm
      · cases hm
      · split at hm
        · cases hm
        · split at hm
          · rename_i e2 s hs
            cases hm
            -- the error of assignOps comes from a refused transition to ASSIGNED: badTransition
            have : ∀ (l : List Nat) (st st' : Store), assignOps st l = .error (.schedAssert, st') → False := by
              intro l
              induction l with
              | nil => intro st st' h; simp [assignOps] at h
              | cons x xs ih =>
                intro st st' h
                unfold assignOps at h
                split at h
                · rename_i e3 he3
                  simp at h
                  unfold Store.transition Store.check at he3
                  split at he3
                  · rename_i hc
                    split at hc <;> (try split at hc) <;> (try split at hc) <;> simp at hc
                    all_goals (cases he3; simp_all)
                  · cases he3
                · exact ih _ _ h
            exact this _ _ _ hs
          · cases hm
  · cases h

/-- every assignment a queue run makes goes to that queue's pool, with the priority of its job, for a job of the queue -/
theorem ppQueue_spec (q pool : Nat) : ∀ (jobs : List Job) (w : World) (sn : List Snap) (k : Nat) (acc : List Asg)
    (w' : World) (sn' : List Snap) (k' : Nat) (out : List Asg),
    ppQueue q pool w jobs sn k acc = .ok (w', sn', k', out) →
    ∃ new, out = acc ++ new ∧ k ≤ k' ∧ k' ≤ k + jobs.length ∧
      ∀ a ∈ new, a.pool = pool ∧ ∃ j ∈ jobs, a.prio = j.prio ∧ a.ops = j.ops ∧
        -- an abandoned retry (doubled request reaching half of the pool) is never the job of an assignment
        ∀ rs, j.retry = some rs → rs.hasErr = true → ∀ s : Snap, ppSize q s j ≠ none →
          2 * (2 * rs.oldCpu) < s.totC ∧ 2 * (2 * rs.oldRam) < s.totR := by
  intro jobs
  induction jobs with
  | nil => intro w sn k acc w' sn' k' out h; simp [ppQueue] at h; exact ⟨[], by simp [h.2.2.2], by omega, by omega, by simp⟩
  | cons job rest ih =>
    intro w sn k acc w' sn' k' out h
    unfold ppQueue at h
    split at h
    · split at h
      · simp at h; exact ⟨[], by simp [h.2.2.2], by omega, by omega, by simp⟩
      · cases h
    · split at h
      · obtain ⟨new, h1, h2, h3, h4⟩ := ih _ _ _ _ _ _ _ _ h
        exact ⟨new, h1, by omega, by simp; omega, fun a ha => let ⟨e, j, hj, r⟩ := h4 a ha; ⟨e, j, List.mem_cons_of_mem _ hj, r⟩⟩
      · rename_i jc jr hsz
        split at h
        · cases h
        · rename_i w1 a1 hmk
          obtain ⟨ea, _⟩ := mkA_ok hmk
          obtain ⟨new, h1, h2, h3, h4⟩ := ih _ _ _ _ _ _ _ _ h
          refine ⟨a1 :: new, by simp [h1], by omega, by simp; omega, ?_⟩
          intro a ha
          rcases List.mem_cons.mp ha with rfl | ha'
          · rw [ea]
            refine ⟨rfl, job, by simp, rfl, rfl, ?_⟩
            intro rs hrs herr s hne
            unfold ppSize at hne
            simp only [hrs, herr, ↓reduceIte] at hne
            by_cases hcut : (2 * (2 * rs.oldCpu) ≥ s.totC || 2 * (2 * rs.oldRam) ≥ s.totR) = true
            · simp [hcut] at hne
            · simp only [Bool.or_eq_true, decide_eq_true_eq, not_or, Nat.not_le] at hcut
              exact hcut
          · obtain ⟨e, j, hj, r⟩ := h4 a ha'
            exact ⟨e, j, List.mem_cons_of_mem _ hj, r⟩

/-- the three queues hold only jobs of their class -/
def ClassOK (st : St) : Prop :=
  (∀ j ∈ st.qry, j.prio = prioQuery) ∧ (∀ j ∈ st.inter, j.prio = prioInteractive) ∧
  (∀ j ∈ st.batch, j.prio ≠ prioQuery ∧ j.prio ≠ prioInteractive)

theorem push_classOK (st : St) (j : Job) (h : ClassOK st) : ClassOK (st.push j j.prio) := by
  unfold St.push
  obtain ⟨h1, h2, h3⟩ := h
  by_cases hq : j.prio = prioQuery
  · simp only [hq, beq_self_eq_true, ↓reduceIte]
    exact ⟨fun x hx => by rcases List.mem_append.mp hx with e | e; exact h1 x e; simp at e; rw [e]; exact hq, h2, h3⟩
  · have hq' : (j.prio == prioQuery) = false := by simpa using hq
    by_cases hi : j.prio = prioInteractive
    · simp only [hq', Bool.false_eq_true, ↓reduceIte, hi, beq_self_eq_true]
      exact ⟨h1, fun x hx => by rcases List.mem_append.mp hx with e | e; exact h2 x e; simp at e; rw [e]; exact hi, h3⟩
    · have hi' : (j.prio == prioInteractive) = false := by simpa using hi
      simp only [hq', Bool.false_eq_true, ↓reduceIte, hi']
      exact ⟨h1, h2, fun x hx => by rcases List.mem_append.mp hx with e | e; exact h3 x e; simp at e; rw [e]; exact ⟨hq, hi⟩⟩

theorem ppEnqueue_classOK (w : World) (st st1 : St) (res : List Res) (newP : List Nat) (h : ClassOK st)
    (henq : ppEnqueue w st res newP = .ok st1) : ClassOK st1 := by
  unfold ppEnqueue at henq
  have h1 : ∀ (l : List Nat) (s : St), ClassOK s → ClassOK (l.foldl (fun st pid =>
      st.push { prio := w.prioOf pid, pid := pid, ops := (w.pipes.getD pid default).order } (w.prioOf pid)) s) := by
    intro l
    induction l with
    | nil => intro s hs; exact hs
    | cons x xs ih => intro s hs; exact ih _ (push_classOK s { prio := w.prioOf x, pid := x, ops := (w.pipes.getD x default).order } hs)
  have h2 : ∀ (l : List Res) (s s' : St), ClassOK s → l.foldlM (fun st f =>
      match nonCompleted w f.ops with
      | [] => (.error .schedAssert : Except Err St)
      | o :: _ => .ok (st.push { prio := f.prio, pid := w.store.pidOf o, ops := nonCompleted w f.ops, retry := some (retryOf f) } f.prio)) s = .ok s' → ClassOK s' := by
    intro l
    induction l with
    | nil => intro s s' hs e; simp [List.foldlM] at e; cases e; exact hs
    | cons x xs ih =>
      intro s s' hs e
      simp only [List.foldlM] at e
      split at e
      · cases e
      · rename_i o os ho
        exact ih _ _ (push_classOK s { prio := x.prio, pid := w.store.pidOf o, ops := nonCompleted w x.ops, retry := some (retryOf x) } hs) e
  exact h2 _ _ _ (h1 _ _ h) henq

/-- **C16 per round.**  Given queues that hold only jobs of their class, a round of priority-pool (a) never suspends; (b) puts every
container of query and interactive work on pool 0 and every container of other (batch) work on pool 1 — first attempts and retries alike;
(c) assigns an OOM retry only if its doubled request stays below half of the pool. -/
theorem classes_on_separate_pools (w w' : World) (st st1 st' : St) (res : List Res) (newP : List Nat) (dec : Decision)
    (henq : ppEnqueue w st res newP = .ok st1) (hclass0 : ClassOK st)
    (h : ppRound w st res newP = .ok (w', st', dec)) :
    dec.sus = [] ∧ ∀ a ∈ dec.asgs, (a.prio = prioQuery ∨ a.prio = prioInteractive → a.pool = 0) ∧
      (a.prio ≠ prioQuery ∧ a.prio ≠ prioInteractive → a.pool = 1) := by
  have hclass := ppEnqueue_classOK w st st1 res newP hclass0 henq
  unfold ppRound at h
  rw [henq] at h
  simp only at h
  split at h
  · cases h
  · rename_i w1 sn1 k1 a1 hq1
    split at h
    · cases h
    · rename_i w2 sn2 k2 a2 hq2
      split at h
      · cases h
      · rename_i w3 sn3 k3 a3 hq3
        simp at h; obtain ⟨_, _, rfl⟩ := h
        obtain ⟨n1, e1, _, _, s1⟩ := ppQueue_spec _ _ _ _ _ _ _ _ _ _ _ hq1
        obtain ⟨n2, e2, _, _, s2⟩ := ppQueue_spec _ _ _ _ _ _ _ _ _ _ _ hq2
        obtain ⟨n3, e3, _, _, s3⟩ := ppQueue_spec _ _ _ _ _ _ _ _ _ _ _ hq3
        simp only [List.nil_append] at e1 e2 e3
        subst e1 e2 e3
        refine ⟨rfl, ?_⟩
        intro a ha
        have dq : prioQuery ≠ prioInteractive := by decide
        have hlat : ∀ a, (a ∈ a1 ∨ a ∈ a2) → a.pool = 0 ∧ (a.prio = prioQuery ∨ a.prio = prioInteractive) := by
          intro a h12
          rcases h12 with h1 | h2
          · obtain ⟨e, j, hj, ep, _⟩ := s1 a h1
            exact ⟨e, Or.inl (by rw [ep]; exact hclass.1 j hj)⟩
          · obtain ⟨e, j, hj, ep, _⟩ := s2 a h2
            exact ⟨e, Or.inr (by rw [ep]; exact hclass.2.1 j hj)⟩
        have hmem : a ∈ a1 ∨ a ∈ a2 ∨ a ∈ a3 := by simpa [List.mem_append, or_assoc] using ha
        rcases hmem with h1 | h2 | h3
        · have hpool := hlat a (Or.inl h1)
          exact ⟨fun _ => hpool.1, fun hn => by rcases hpool.2 with e | e; exact absurd e hn.1; exact absurd e hn.2⟩
        · have hpool := hlat a (Or.inr h2)
          exact ⟨fun _ => hpool.1, fun hn => by rcases hpool.2 with e | e; exact absurd e hn.1; exact absurd e hn.2⟩
        · obtain ⟨e, j, hj, ep, _⟩ := s3 a h3
          have := hclass.2.2 j hj
          exact ⟨fun hp => by rw [ep] at hp; rcases hp with e' | e'; exact absurd e' this.1; exact absurd e' this.2, fun _ => e⟩

/-- the class invariant holds at start and is kept by every round, so (by induction over the rounds of any run) it holds at every round -/
theorem classOK_init : ClassOK {} := by simp [ClassOK]

theorem ppRound_classOK (w w' : World) (st st' : St) (res : List Res) (newP : List Nat) (dec : Decision)
    (hc : ClassOK st) (h : ppRound w st res newP = .ok (w', st', dec)) : ClassOK st' := by
  unfold ppRound at h
  split at h
  · cases h
  · rename_i st1 henq
    have hclass := ppEnqueue_classOK w st st1 res newP hc henq
    simp only at h
    split at h
    · cases h
    · split at h
      · cases h
      · split at h
        · cases h
        · simp at h; obtain ⟨_, rfl, _⟩ := h
          exact ⟨fun j hj => hclass.1 j (List.mem_of_mem_drop hj), fun j hj => hclass.2.1 j (List.mem_of_mem_drop hj),
            fun j hj => hclass.2.2 j (List.mem_of_mem_drop hj)⟩

/-- after a failure only the unfinished operators of the failed container are queued, together, as one job with the container's priority -/
theorem retry_job_is_unfinished_operators (w : World) (st : St) (f : Res) (o : Nat) (os : List Nat) (h : nonCompleted w f.ops = o :: os) :
    ppEnqueue w st [f] [] = (if f.ok then .ok st else
      .ok (st.push { prio := f.prio, pid := w.store.pidOf o, ops := o :: os, retry := some (retryOf f) } f.prio)) := by
  unfold ppEnqueue
  cases hf : f.ok <;> simp [hf, h, List.foldlM] <;> rfl

/-- **the scheduler's own assertion ("free RAM is zero iff free CPU is zero") can never fire**: a queue run started on a snapshot where
free CPU and free RAM are both positive or both zero keeps it that way, because every container takes either strictly less than both or all of both -/
theorem newSize_keeps_both_or_none (q : Nat) (s : Snap) (h0 : 0 < s.availC) (h1 : 0 < s.availR) :
    let sz := newSize q s
    ((s.availC - (sz.1 : Int) = 0 ∧ s.availR - (sz.2 : Int) = 0) ∨ (0 < s.availC - (sz.1 : Int) ∧ 0 < s.availR - (sz.2 : Int))) := by
  simp only [newSize]
  split
  · left; constructor <;> (rw [Int.toNat_of_nonneg (by omega)]; omega)
  · rename_i h
    simp only [Bool.or_eq_true, decide_eq_true_eq, not_or, Int.not_le] at h
    right; omega

/-! ### over whole runs -/

/-- a container sits where its class belongs: query / interactive work on pool 0, everything else (batch) on pool 1.  (`c.pool` is the `pool_id` of the
assignment the container was made from, which is also the pool the executor routes it to.) -/
def Placed (c : Ctr) : Prop :=
  (c.prio = prioQuery ∨ c.prio = prioInteractive → c.pool = 0) ∧ (c.prio ≠ prioQuery ∧ c.prio ≠ prioInteractive → c.pool = 1)

theorem runAt_placed {w w' : Store} {c c' : Ctr} {cons cons' : Int} {r : Nat} {last : Bool} {m : Nat}
    (h : runAt w c cons r last m = .ok (w', c', cons')) : c'.prio = c.prio ∧ c'.pool = c.pool := by
  unfold runAt at h
  split at h
  · cases h; exact ⟨rfl, rfl⟩
  · split at h
    · split at h
      · cases h
      · split at h <;> (cases h; exact ⟨rfl, rfl⟩)
    · cases h; exact ⟨rfl, rfl⟩

theorem tick_placed (cfg : Cfg) (w : Store) (c : Ctr) (cons : Int) (w' : Store) (c' : Ctr) (cons' : Int)
    (h : c.tick cfg w cons = .ok (w', c', cons')) (hc : Placed c) : Placed c' := by
  have key : c'.prio = c.prio ∧ c'.pool = c.pool := by
    unfold Ctr.tick at h
    split at h
    · cases h; exact ⟨rfl, rfl⟩
    · split at h
      · cases h
      · rename_i w1 c1 cons1 hadv
        simp only [Except.ok.injEq, Prod.mk.injEq] at h
        obtain ⟨_, rfl, _⟩ := h
        show c1.prio = c.prio ∧ c1.pool = c.pool
        unfold advance at hadv
        split at hadv
        · cases hadv; exact ⟨rfl, rfl⟩
        · split at hadv
          · cases hadv
          · rename_i w2 c2 hs
            obtain ⟨_, hsame, _⟩ := seek_spec _ _ _ _ _ hs
            have h2 : c2.prio = c.prio ∧ c2.pool = c.pool := by unfold Ctr.SameButPos at hsame; rw [hsame]; exact ⟨rfl, rfl⟩
            unfold runTick at hadv
            split at hadv
            · obtain ⟨a, b⟩ := runAt_placed hadv
              exact ⟨a.trans h2.1, b.trans h2.2⟩
            · cases hadv
  unfold Placed
  rw [key.1, key.2]
  exact hc

theorem kill_placed (w : Store) (c : Ctr) (cons : Int) (w' : Store) (c' : Ctr) (cons' : Int)
    (h : c.kill w cons = .ok (w', c', cons')) (hc : Placed c) : Placed c' := by
  unfold Ctr.kill at h
  split at h
  · cases h
  · simp only [Ctr.setMem, Except.ok.injEq, Prod.mk.injEq] at h
    obtain ⟨_, rfl, _⟩ := h
    exact hc

theorem placed_kept (cfg : Cfg) : Kept cfg Placed := ⟨tick_placed cfg, kill_placed⟩

/-- what holds at every tick boundary of a priority-pool run: the queues hold jobs of their class, nothing is being suspended, every container of every pool
and every result reported sits where its class belongs -/
structure SepInv (w : World) (st : St) (res : List Res) : Prop where
  cls : ClassOK st
  nosusp : w.NoSusp
  ctrs : ∀ p ∈ w.pools, AllC Placed p.active
  rs : ∀ r ∈ res, ∃ c, Placed c ∧ r = mkRes c

theorem ppRound_pools (w w1 : World) (st st1 : St) (res : List Res) (newP : List Nat) (dec : Decision)
    (h : ppRound w st res newP = .ok (w1, st1, dec)) : w1.pools = w.pools := by
  unfold ppRound at h
  split at h
  · cases h
  · simp only at h
    split at h
    · cases h
    · rename_i hq1
      split at h
      · cases h
      · rename_i hq2
        split at h
        · cases h
        · rename_i hq3
          simp only [Except.ok.injEq, Prod.mk.injEq] at h
          obtain ⟨rfl, _, _⟩ := h
          obtain ⟨_, _, b1⟩ := C08.ppQueue_built _ _ _ _ _ _ _ _ _ _ _ hq1
          obtain ⟨_, _, b2⟩ := C08.ppQueue_built _ _ _ _ _ _ _ _ _ _ _ hq2
          obtain ⟨_, _, b3⟩ := C08.ppQueue_built _ _ _ _ _ _ _ _ _ _ _ hq3
          rw [(built_frame b3).1, (built_frame b2).1, (built_frame b1).1]

/-- one round plus one executor tick keep the separation -/
theorem tick_keeps_classes_apart (w : World) (st : St) (res : List Res) (newP : List Nat) (w1 : World) (st1 : St) (dec : Decision) (w2 : World) (res2 : List Res)
    (inv : SepInv w st res) (hr : ppRound w st res newP = .ok (w1, st1, dec)) (hx : w1.execTick dec.sus dec.asgs = .ok (w2, res2)) : SepInv w2 st1 res2 := by
  have henq : ∃ s, ppEnqueue w st res newP = .ok s := by
    unfold ppRound at hr
    split at hr
    · cases hr
    · rename_i s hs; exact ⟨s, hs⟩
  obtain ⟨s, hs⟩ := henq
  obtain ⟨hsus, hplace⟩ := classes_on_separate_pools w w1 st s st1 res newP dec hs inv.cls hr
  have hcls := ppRound_classOK w w1 st st1 res newP dec inv.cls hr
  have hpools : w1.pools = w.pools := ppRound_pools w w1 st st1 res newP dec hr
  rw [hsus] at hx
  unfold World.execTick at hx
  split at hx
  · cases hx
  · split at hx
    · cases hx
    · cases hx
    · rename_i s' ps n rr hexp
      simp only [Except.ok.injEq, Prod.mk.injEq] at hx
      obtain ⟨rfl, rfl⟩ := hx
      obtain ⟨o1, o2⟩ := execPools_kept w1.cfg dec.asgs (placed_kept w1.cfg)
        (fun a ha s'' j => by
          obtain ⟨p1, p2⟩ := hplace a ha
          exact ⟨p1, p2⟩)
        w1.pools w1.store w1.nextCid [] [] s' ps n rr
        (by intro p hp; simp only [List.nil_append] at hp; rw [hpools] at hp; exact ⟨inv.ctrs p hp, inv.nosusp p hp⟩) (by simp) hexp
      exact ⟨hcls, fun p hp => (o1 p hp).2, fun p hp => (o1 p hp).1, o2⟩

/-- **C16 over whole runs.**  Starting from a world in which every container sits where its class belongs (e.g. one without containers), every run of the
priority-pool scheduler and the executor that reaches its end reaches it in such a world again — and so does every prefix of the run: at no tick boundary is
there a batch container on pool 0, or a query / interactive container on pool 1, or a write-out in progress; retries included. -/
theorem classes_stay_apart_over_whole_runs : ∀ (arrivals : List (List Nat)) (w : World) (st : St) (res : List Res) (w' : World) (st' : St) (res' : List Res),
    SepInv w st res → PP.loop w st res arrivals = .ok (w', st', res') → SepInv w' st' res' := by
  intro arrivals
  induction arrivals with
  | nil => intro w st res w' st' res' inv h; simp only [PP.loop, Except.ok.injEq, Prod.mk.injEq] at h; obtain ⟨rfl, rfl, rfl⟩ := h; exact inv
  | cons newP rest ih =>
    intro w st res w' st' res' inv h
    unfold PP.loop at h
    split at h
    · cases h
    · rename_i w1 st1 dec hr
      split at h
      · cases h
      · rename_i w2 res2 hx
        exact ih w2 st1 res2 w' st' res' (tick_keeps_classes_apart w st res newP w1 st1 dec w2 res2 inv hr hx) h

/-- non-vacuity: a world without containers and an empty scheduler state satisfy the invariant -/
theorem fresh_world_separated (cfg : Cfg) (store : Store) (pipes : Array PipeInfo) (caps : List (Nat × Nat)) :
    SepInv { cfg := cfg, store := store, pools := caps.map (fun c => Pool.fresh c.1 c.2), pipes := pipes } {} [] := by
  refine ⟨classOK_init, ?_, ?_, by simp⟩
  · intro p hp
    obtain ⟨c, _, rfl⟩ := List.mem_map.mp hp
    rfl
  · intro p hp c hc
    obtain ⟨x, _, rfl⟩ := List.mem_map.mp hp
    simp [Pool.fresh] at hc

/-- **C16 over whole runs, unconditionally (multi-operator containers).**  From a world that satisfies the closed-loop invariant `PP.PPInv` (Proofs/PoolLoop.lean)
and in which every container sits where its class belongs, the run of priority-pool and the executor *does* reach its end — it never raises — and ends with the
classes still apart.  (With single-operator containers the shipped scheduler raises on its first multi-operator pipeline: known finding D11.) -/
theorem run_completes_with_classes_apart (arrivals : List (List Nat)) (w : World) (st : St) (cs : List Ctr)
    (inv : PP.PPInv w st cs arrivals.flatten) (sep : SepInv w st (cs.map mkRes)) :
    ∃ w' st' res', PP.loop w st (cs.map mkRes) arrivals = .ok (w', st', res') ∧ SepInv w' st' res' := by
  obtain ⟨w', st', cs', h, _⟩ := PP.run_never_raises arrivals w st cs inv
  exact ⟨w', st', cs'.map mkRes, h, classes_stay_apart_over_whole_runs arrivals w st _ w' st' _ sep h⟩

/-- non-vacuity: the diamond-DAG world with two pools meets both hypotheses -/
theorem run_completes_in_a_concrete_world (n : Nat) :
    ∃ w' st' res', PP.loop (NaiveExample.world true) {} [] ([0] :: List.replicate n []) = .ok (w', st', res') ∧ SepInv w' st' res' := by
  have := run_completes_with_classes_apart ([0] :: List.replicate n []) (NaiveExample.world true) {} []
    (by rw [PoolExample.flatten_arrivals]; exact PoolExample.inv) (fresh_world_separated _ _ _ _)
  simpa using this

/-- **from every fresh world**: whatever the configuration (multi-operator containers), the two pools (each with some CPU and RAM) and the registered workload
of well-formed pipelines, and whatever the arrival batches, the run of priority-pool and the executor reaches its last tick with batch work only ever on pool 1
and query / interactive work only ever on pool 0 -/
theorem classes_stay_apart_from_every_fresh_world (cfg : Cfg) (store : Store) (pipes : Array PipeInfo) (c0 c1 : Nat × Nat) (arrivals : List (List Nat))
    (hm : cfg.multiOp = true) (hq : 0 < cfg.q) (h0 : 0 < c0.1 ∧ 0 < c0.2) (h1 : 0 < c1.1 ∧ 0 < c1.2)
    (wf : (freshWorld cfg store pipes [c0, c1]).WFP) (hs : (freshWorld cfg store pipes [c0, c1]).SegsOK) (hp : (freshWorld cfg store pipes [c0, c1]).PidOK)
    (ht : (freshWorld cfg store pipes [c0, c1]).Topo) (hF : arrivals.flatten.Nodup)
    (hfut : ∀ pid ∈ arrivals.flatten, (pipes.getD pid default).order ≠ [] ∧ ∀ o ∈ (pipes.getD pid default).order, store.stOf o = pending) :
    ∃ w' st' res', PP.loop (freshWorld cfg store pipes [c0, c1]) {} [] arrivals = .ok (w', st', res') ∧ SepInv w' st' res' := by
  have := run_completes_with_classes_apart arrivals (freshWorld cfg store pipes [c0, c1]) {} []
    (PP.fresh_inv cfg store pipes c0 c1 _ hm hq h0 h1 wf hs hp ht hF hfut) (fresh_world_separated _ _ _ _)
  simpa using this

end Eudoxia.C16
