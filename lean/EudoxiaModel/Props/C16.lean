import EudoxiaModel.Model.Sched.Priority
import EudoxiaModel.Proofs.WorldInv
/-! # C16 — priority-pool keeps batch work and latency-sensitive work on separate pools -/
namespace Eudoxia.C16
open Eudoxia Eudoxia.Prio OpState Extracted

/-- building an Assignment never trips the *scheduler's* own assertion -/
theorem mkA_not_schedAssert {w : World} {ops : List Nat} {cpu ram prio pool : Nat} {w' : World}
    (h : mkA w ops cpu ram prio pool = .error (.schedAssert, w')) : False := by
  unfold mkA at h
  split at h
  · rename_i e hm
    cases h
    unfold World.mkAssignment at hm
    split at hm
    · cases hm
    · split at hm
      · cases hm
      · split at hm
        · cases hm
        · split at hm
          · rename_i e2 s hs
            cases hm
            -- the error of assignOps comes from a refused transition to ASSIGNED: badTransition
            have : ∀ (l : List Nat) (st st' : Store), assignOps st l = .error (.schedAssert, st') → False := by
              intro l
              induction l with
              | nil => intro st st' h; simp [assignOps] at h
              | cons x xs ih =>
                intro st st' h
                unfold assignOps at h
                split at h
                · rename_i e3 he3
                  simp at h
                  unfold Store.transition Store.check at he3
                  split at he3
                  · rename_i hc
                    split at hc <;> (try split at hc) <;> (try split at hc) <;> simp at hc
                    all_goals (cases he3; simp_all)
                  · cases he3
                · exact ih _ _ h
            exact this _ _ _ hs
          · cases hm
  · cases h

/-- every assignment a queue run makes goes to that queue's pool, with the priority of its job, for a job of the queue -/
theorem ppQueue_spec (q pool : Nat) : ∀ (jobs : List Job) (w : World) (sn : List Snap) (k : Nat) (acc : List Asg)
    (w' : World) (sn' : List Snap) (k' : Nat) (out : List Asg),
    ppQueue q pool w jobs sn k acc = .ok (w', sn', k', out) →
    ∃ new, out = acc ++ new ∧ k ≤ k' ∧ k' ≤ k + jobs.length ∧
      ∀ a ∈ new, a.pool = pool ∧ ∃ j ∈ jobs, a.prio = j.prio ∧ a.ops = j.ops ∧
        -- an abandoned retry (doubled request reaching half of the pool) is never the job of an assignment
        ∀ rs, j.retry = some rs → rs.hasErr = true → ∀ s : Snap, ppSize q s j ≠ none →
          2 * (2 * rs.oldCpu) < s.totC ∧ 2 * (2 * rs.oldRam) < s.totR := by
  intro jobs
  induction jobs with
  | nil => intro w sn k acc w' sn' k' out h; simp [ppQueue] at h; exact ⟨[], by simp [h.2.2.2], by omega, by omega, by simp⟩
  | cons job rest ih =>
    intro w sn k acc w' sn' k' out h
    unfold ppQueue at h
    split at h
    · split at h
      · simp at h; exact ⟨[], by simp [h.2.2.2], by omega, by omega, by simp⟩
      · cases h
    · split at h
      · obtain ⟨new, h1, h2, h3, h4⟩ := ih _ _ _ _ _ _ _ _ h
        exact ⟨new, h1, by omega, by simp; omega, fun a ha => let ⟨e, j, hj, r⟩ := h4 a ha; ⟨e, j, List.mem_cons_of_mem _ hj, r⟩⟩
      · rename_i jc jr hsz
        split at h
        · cases h
        · rename_i w1 a1 hmk
          obtain ⟨ea, _⟩ := mkA_ok hmk
          obtain ⟨new, h1, h2, h3, h4⟩ := ih _ _ _ _ _ _ _ _ h
          refine ⟨a1 :: new, by simp [h1], by omega, by simp; omega, ?_⟩
          intro a ha
          rcases List.mem_cons.mp ha with rfl | ha'
          · rw [ea]
            refine ⟨rfl, job, by simp, rfl, rfl, ?_⟩
            intro rs hrs herr s hne
            unfold ppSize at hne
            simp only [hrs, herr, ↓reduceIte] at hne
            by_cases hcut : (2 * (2 * rs.oldCpu) ≥ s.totC || 2 * (2 * rs.oldRam) ≥ s.totR) = true
            · simp [hcut] at hne
            · simp only [Bool.or_eq_true, decide_eq_true_eq, not_or, Nat.not_le] at hcut
              exact hcut
          · obtain ⟨e, j, hj, r⟩ := h4 a ha'
            exact ⟨e, j, List.mem_cons_of_mem _ hj, r⟩

/-- the three queues hold only jobs of their class -/
def ClassOK (st : St) : Prop :=
  (∀ j ∈ st.qry, j.prio = prioQuery) ∧ (∀ j ∈ st.inter, j.prio = prioInteractive) ∧
  (∀ j ∈ st.batch, j.prio ≠ prioQuery ∧ j.prio ≠ prioInteractive)

theorem push_classOK (st : St) (j : Job) (h : ClassOK st) : ClassOK (st.push j j.prio) := by
  unfold St.push
  obtain ⟨h1, h2, h3⟩ := h
  by_cases hq : j.prio = prioQuery
  · simp only [hq, beq_self_eq_true, ↓reduceIte]
    exact ⟨fun x hx => by rcases List.mem_append.mp hx with e | e; exact h1 x e; simp at e; rw [e]; exact hq, h2, h3⟩
  · have hq' : (j.prio == prioQuery) = false := by simpa using hq
    by_cases hi : j.prio = prioInteractive
    · simp only [hq', Bool.false_eq_true, ↓reduceIte, hi, beq_self_eq_true]
      exact ⟨h1, fun x hx => by rcases List.mem_append.mp hx with e | e; exact h2 x e; simp at e; rw [e]; exact hi, h3⟩
    · have hi' : (j.prio == prioInteractive) = false := by simpa using hi
      simp only [hq', Bool.false_eq_true, ↓reduceIte, hi']
      exact ⟨h1, h2, fun x hx => by rcases List.mem_append.mp hx with e | e; exact h3 x e; simp at e; rw [e]; exact ⟨hq, hi⟩⟩

theorem ppEnqueue_classOK (w : World) (st st1 : St) (res : List Res) (newP : List Nat) (h : ClassOK st)
    (henq : ppEnqueue w st res newP = .ok st1) : ClassOK st1 := by
  unfold ppEnqueue at henq
  have h1 : ∀ (l : List Nat) (s : St), ClassOK s → ClassOK (l.foldl (fun st pid =>
      st.push { prio := w.prioOf pid, pid := pid, ops := (w.pipes.getD pid default).order } (w.prioOf pid)) s) := by
    intro l
    induction l with
    | nil => intro s hs; exact hs
    | cons x xs ih => intro s hs; exact ih _ (push_classOK s { prio := w.prioOf x, pid := x, ops := (w.pipes.getD x default).order } hs)
  have h2 : ∀ (l : List Res) (s s' : St), ClassOK s → l.foldlM (fun st f =>
      match nonCompleted w f.ops with
      | [] => (.error .schedAssert : Except Err St)
      | o :: _ => .ok (st.push { prio := f.prio, pid := w.store.pidOf o, ops := nonCompleted w f.ops, retry := some (retryOf f) } f.prio)) s = .ok s' → ClassOK s' := by
    intro l
    induction l with
    | nil => intro s s' hs e; simp [List.foldlM] at e; cases e; exact hs
    | cons x xs ih =>
      intro s s' hs e
      simp only [List.foldlM] at e
      split at e
      · cases e
      · rename_i o os ho
        exact ih _ _ (push_classOK s { prio := x.prio, pid := w.store.pidOf o, ops := nonCompleted w x.ops, retry := some (retryOf x) } hs) e
  exact h2 _ _ _ (h1 _ _ h) henq

/-- **C16 per round.**  Given queues that hold only jobs of their class, a round of priority-pool (a) never suspends; (b) puts every
container of query and interactive work on pool 0 and every container of other (batch) work on pool 1 — first attempts and retries alike;
(c) assigns an OOM retry only if its doubled request stays below half of the pool. -/
theorem classes_on_separate_pools (w w' : World) (st st1 st' : St) (res : List Res) (newP : List Nat) (dec : Decision)
    (henq : ppEnqueue w st res newP = .ok st1) (hclass0 : ClassOK st)
    (h : ppRound w st res newP = .ok (w', st', dec)) :
    dec.sus = [] ∧ ∀ a ∈ dec.asgs, (a.prio = prioQuery ∨ a.prio = prioInteractive → a.pool = 0) ∧
      (a.prio ≠ prioQuery ∧ a.prio ≠ prioInteractive → a.pool = 1) := by
  have hclass := ppEnqueue_classOK w st st1 res newP hclass0 henq
  unfold ppRound at h
  rw [henq] at h
  simp only at h
  split at h
  · cases h
  · rename_i w1 sn1 k1 a1 hq1
    split at h
    · cases h
    · rename_i w2 sn2 k2 a2 hq2
      split at h
      · cases h
      · rename_i w3 sn3 k3 a3 hq3
        simp at h; obtain ⟨_, _, rfl⟩ := h
        obtain ⟨n1, e1, _, _, s1⟩ := ppQueue_spec _ _ _ _ _ _ _ _ _ _ _ hq1
        obtain ⟨n2, e2, _, _, s2⟩ := ppQueue_spec _ _ _ _ _ _ _ _ _ _ _ hq2
        obtain ⟨n3, e3, _, _, s3⟩ := ppQueue_spec _ _ _ _ _ _ _ _ _ _ _ hq3
        simp only [List.nil_append] at e1 e2 e3
        subst e1 e2 e3
        refine ⟨rfl, ?_⟩
        intro a ha
        have dq : prioQuery ≠ prioInteractive := by decide
        have hlat : ∀ a, (a ∈ a1 ∨ a ∈ a2) → a.pool = 0 ∧ (a.prio = prioQuery ∨ a.prio = prioInteractive) := by
          intro a h12
          rcases h12 with h1 | h2
          · obtain ⟨e, j, hj, ep, _⟩ := s1 a h1
            exact ⟨e, Or.inl (by rw [ep]; exact hclass.1 j hj)⟩
          · obtain ⟨e, j, hj, ep, _⟩ := s2 a h2
            exact ⟨e, Or.inr (by rw [ep]; exact hclass.2.1 j hj)⟩
        have hmem : a ∈ a1 ∨ a ∈ a2 ∨ a ∈ a3 := by simpa [List.mem_append, or_assoc] using ha
        rcases hmem with h1 | h2 | h3
        · have hpool := hlat a (Or.inl h1)
          exact ⟨fun _ => hpool.1, fun hn => by rcases hpool.2 with e | e; exact absurd e hn.1; exact absurd e hn.2⟩
        · have hpool := hlat a (Or.inr h2)
          exact ⟨fun _ => hpool.1, fun hn => by rcases hpool.2 with e | e; exact absurd e hn.1; exact absurd e hn.2⟩
        · obtain ⟨e, j, hj, ep, _⟩ := s3 a h3
          have := hclass.2.2 j hj
          exact ⟨fun hp => by rw [ep] at hp; rcases hp with e' | e'; exact absurd e' this.1; exact absurd e' this.2, fun _ => e⟩

/-- the class invariant holds at start and is kept by every round, so (by induction over the rounds of any run) it holds at every round -/
theorem classOK_init : ClassOK {} := by simp [ClassOK]

theorem ppRound_classOK (w w' : World) (st st' : St) (res : List Res) (newP : List Nat) (dec : Decision)
    (hc : ClassOK st) (h : ppRound w st res newP = .ok (w', st', dec)) : ClassOK st' := by
  unfold ppRound at h
  split at h
  · cases h
  · rename_i st1 henq
    have hclass := ppEnqueue_classOK w st st1 res newP hc henq
    simp only at h
    split at h
    · cases h
    · split at h
      · cases h
      · split at h
        · cases h
        · simp at h; obtain ⟨_, rfl, _⟩ := h
          exact ⟨fun j hj => hclass.1 j (List.mem_of_mem_drop hj), fun j hj => hclass.2.1 j (List.mem_of_mem_drop hj),
            fun j hj => hclass.2.2 j (List.mem_of_mem_drop hj)⟩

/-- after a failure only the unfinished operators of the failed container are queued, together, as one job with the container's priority -/
theorem retry_job_is_unfinished_operators (w : World) (st : St) (f : Res) (o : Nat) (os : List Nat) (h : nonCompleted w f.ops = o :: os) :
    ppEnqueue w st [f] [] = (if f.ok then .ok st else
      .ok (st.push { prio := f.prio, pid := w.store.pidOf o, ops := o :: os, retry := some (retryOf f) } f.prio)) := by
  unfold ppEnqueue
  cases hf : f.ok <;> simp [hf, h, List.foldlM] <;> rfl

/-- **the scheduler's own assertion ("free RAM is zero iff free CPU is zero") can never fire**: a queue run started on a snapshot where
free CPU and free RAM are both positive or both zero keeps it that way, because every container takes either strictly less than both or all of both -/
theorem newSize_keeps_both_or_none (q : Nat) (s : Snap) (h0 : 0 < s.availC) (h1 : 0 < s.availR) :
    let sz := newSize q s
    ((s.availC - (sz.1 : Int) = 0 ∧ s.availR - (sz.2 : Int) = 0) ∨ (0 < s.availC - (sz.1 : Int) ∧ 0 < s.availR - (sz.2 : Int))) := by
  simp only [newSize]
  split
  · left; constructor <;> (rw [Int.toNat_of_nonneg (by omega)]; omega)
  · rename_i h
    simp only [Bool.or_eq_true, decide_eq_true_eq, not_or, Int.not_le] at h
    right; omega

end Eudoxia.C16
