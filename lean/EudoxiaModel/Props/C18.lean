import EudoxiaModel.Model.Sched.Overbook
import EudoxiaModel.Proofs.WorldInv
import EudoxiaModel.Proofs.OverbookLoop
import EudoxiaModel.Proofs.OverbookExample
import EudoxiaModel.Proofs.FreshWorlds
/-! # C18 — overbook: one operator and one CPU per container, full-pool RAM, CPU-bound -/
namespace Eudoxia.C18
open Eudoxia Eudoxia.Overbook OpState Extracted

/-- the scheduler's CPU snapshot after handing out the assignments `new` -/
def spend (avail : List Int) (new : List Asg) : List Int := new.foldl (fun av a => av.set a.pool (av.getD a.pool 0 - 1)) avail

theorem firstFree_some {avail : List Int} {k : Nat} (h : firstFree avail = some k) : k < avail.length ∧ avail.getD k 0 ≥ 1 := by
  unfold firstFree at h
  have h1 := List.find?_some h
  have h2 := List.mem_of_find?_eq_some h
  exact ⟨List.mem_range.mp h2, by simpa using h1⟩

/-- **C18 per round** (`make_assignments`): every container gets exactly one operator, one CPU and a memory limit equal to its pool's whole RAM;
it goes to a pool that still had a free CPU in the scheduler's snapshot; the operator belongs to a pipeline with fewer than three failed
containers; and if operators are left in the queue, no pool has a free CPU any more. -/
theorem assign_spec (fails : List (Nat × Nat)) : ∀ (q : List Nat) (w : World) (avail : List Int) (acc : List Asg) (w' : World) (q' : List Nat) (out : List Asg),
    assign fails w q avail acc = .ok (w', q', out) →
    ∃ new, out = acc ++ new ∧
      (∀ a ∈ new, a.cpu = 1 ∧ (∃ r, a.ops = [r] ∧ r ∈ q ∧ getFail fails (w.store.pidOf r) < maxFailures) ∧
          a.ram = (w.pools.getD a.pool default).capR) ∧
      (q' ≠ [] → firstFree (spend avail new) = none) ∧ (∀ k, (spend avail new).getD k 0 ≤ avail.getD k 0) ∧
      ((∀ k, 0 ≤ avail.getD k 0) → ∀ k, 0 ≤ (spend avail new).getD k 0) := by
  intro q
  induction q with
  | nil =>
    intro w avail acc w' q' out h
    simp [assign] at h
    exact ⟨[], by simp [h.2.2], by simp, by simp [h.2.1], by simp [spend], by simp [spend]⟩
  | cons r rest ih =>
    intro w avail acc w' q' out h
    unfold assign at h
    split at h
    · obtain ⟨new, h1, h2, h3, h4, h5⟩ := ih _ _ _ _ _ _ h
      exact ⟨new, h1, fun a ha => let ⟨x, ⟨r', e1, e2, e3⟩, z⟩ := h2 a ha; ⟨x, ⟨r', e1, List.mem_cons_of_mem _ e2, e3⟩, z⟩, h3, h4, h5⟩
    · rename_i hlt
      split at h
      · cases h
      · split at h
        · rename_i hnone
          simp at h; obtain ⟨_, rfl, rfl⟩ := h
          exact ⟨[], by simp, by simp, fun _ => by simpa [spend] using hnone, by simp [spend], by simp [spend]⟩
        · rename_i k hk
          split at h
          · cases h
          · rename_i w1 a1 hmk
            obtain ⟨ea, hmk'⟩ := mkA_ok hmk
            obtain ⟨new, h1, h2, h3, h4, h5⟩ := ih _ _ _ _ _ _ h
            obtain ⟨hk1, hk2⟩ := firstFree_some hk
            have hset : ∀ j, (avail.set k (avail.getD k 0 - 1)).getD j 0 = if j = k then avail.getD k 0 - 1 else avail.getD j 0 := by
              intro j
              by_cases hj : j = k
              · subst hj; simp [List.getD_eq_getElem?_getD, hk1]
              · simp [List.getD_eq_getElem?_getD, List.getElem?_set_ne (Ne.symm hj), hj]
            -- the world changes only in operator states: pools, pipelines and their operator table are the same
            have hpools : w1.pools = w.pools := (mkAssignment_pools_ok hmk').1
            have hops : w1.store.ops = w.store.ops := (mkAssignment_steps_ok hmk').ops
            have hpid : ∀ x, w1.store.pidOf x = w.store.pidOf x := fun x => by simp [Store.pidOf, hops]
            refine ⟨a1 :: new, by simp [h1], ?_, ?_, ?_, ?_⟩
            · intro a ha
              rcases List.mem_cons.mp ha with rfl | ha'
              · rw [ea]
                exact ⟨rfl, ⟨r, rfl, by simp, by simpa using hlt⟩, rfl⟩
              · obtain ⟨x, ⟨r', e1, e2, e3⟩, z⟩ := h2 a ha'
                exact ⟨x, ⟨r', e1, List.mem_cons_of_mem _ e2, by rw [← hpid]; exact e3⟩, by rw [← hpools]; exact z⟩
            · intro hq
              have : spend avail (a1 :: new) = spend (avail.set k (avail.getD k 0 - 1)) new := by
                simp only [spend, List.foldl_cons, ea]
              rw [this]; exact h3 hq
            · intro j
              have : spend avail (a1 :: new) = spend (avail.set k (avail.getD k 0 - 1)) new := by
                simp only [spend, List.foldl_cons, ea]
              rw [this]
              refine Int.le_trans (h4 j) ?_
              rw [hset j]
              by_cases hj : j = k
              · subst hj; simp only [↓reduceIte]; omega
              · simp [hj]
            · intro hnn j
              have : spend avail (a1 :: new) = spend (avail.set k (avail.getD k 0 - 1)) new := by
                simp only [spend, List.foldl_cons, ea]
              rw [this]
              apply h5
              intro i
              rw [hset i]
              by_cases hi : i = k
              · subst hi; simp only [↓reduceIte]; omega
              · simp only [hi, ↓reduceIte]; exact hnn i

/-- overbook never suspends -/
theorem never_suspends (w w' : World) (st st' : St) (res : List Res) (newP : List Nat) (dec : Decision)
    (h : round w st res newP = .ok (w', st', dec)) : dec.sus = [] := by
  unfold round at h
  split at h
  · simp at h; rw [← h.2.2]
  · split at h
    · cases h
    · split at h
      · cases h
      · simp at h; rw [← h.2.2]


/-- **the overbook scheduler never raises over whole runs** (closed loop with the executor, memory overcommit on, either container mode): its queue holds
distinct, existing, ready operators (`QOK`); every container it starts holds one operator, one CPU and the whole pool's RAM on a pool whose free CPUs it does not
exceed, so the executor's gates let every round through; an executor tick without suspensions never touches a PENDING or FAILED operator, so the queue stays good.
By induction over ticks, for every sequence of arrival batches.  The invariant holds again in the world the run ends in — hence at every tick boundary of every
run: **every container holds exactly one operator and no write-out is ever in progress** (`OBInv.single`, `OBInv.nosusp`). -/
theorem overbook_run_never_raises (arrivals : List (List Nat)) (w : World) (st : St) (res : List Res) (inv : OBInv w st res) :
    ∃ w' st' res', Overbook.loop w st res arrivals = .ok (w', st', res') ∧ OBInv w' st' res' :=
  Overbook.run_never_raises arrivals w st res inv

/-- the hypotheses are met by a concrete world (diamond DAG, two pools, overcommit on, nothing started): non-vacuity -/
theorem overbook_theorem_applies_to_a_concrete_world (multi : Bool) (arrivals : List (List Nat)) :
    ∃ out, Overbook.loop (OverbookExample.world multi) {} [] arrivals = .ok out :=
  OverbookExample.runs multi arrivals

/-- **from every fresh world**: any configuration with memory overcommit on (either container mode), any pools with some RAM, any registered workload whose
pipelines list existing operators once and give each a segment, any arrival batches: the run of overbook and the executor reaches its last tick, and ends — as
it was at every tick boundary — with one operator per container and no write-out in progress -/
theorem overbook_runs_from_every_fresh_world (cfg : Cfg) (store : Store) (pipes : Array PipeInfo) (caps : List (Nat × Nat)) (arrivals : List (List Nat))
    (ho : cfg.overcommit = true) (hc : ∀ c ∈ caps, 0 < c.2)
    (wf : (freshWorld cfg store pipes caps).WFP) (hs : (freshWorld cfg store pipes caps).SegsOK) :
    ∃ w' st' res', Overbook.loop (freshWorld cfg store pipes caps) {} [] arrivals = .ok (w', st', res') ∧ OBInv w' st' res' :=
  Overbook.run_never_raises arrivals _ {} [] (Overbook.fresh_inv cfg store pipes caps ho hc wf hs)

end Eudoxia.C18
