import EudoxiaModel.Model.SObs
namespace Eudoxia.C18
theorem placeholder : True := trivial
end Eudoxia.C18
