import EudoxiaModel.Model.SObs
namespace Eudoxia.C17
theorem placeholder : True := trivial
end Eudoxia.C17
