import EudoxiaModel.Model.Sched.Naive
import EudoxiaModel.Proofs.Reach
/-! # C17 — naive scheduler: whole-pool FIFO without retries or preemption
    (`Naive.round multi`; the starter scheduler written by `eudoxia init` is `Naive.round false`) -/
namespace Eudoxia.C17
open Eudoxia Eudoxia.Naive OpState Extracted

/-- what the scan of the waiting queue for one pool hands out -/
theorem pop_spec (multi : Bool) (pool cpu ram : Nat) : ∀ (queue : List Nat) (w : World) (req : List Nat) (w' : World) (rest req' : List Nat) (a : Asg),
    pop w multi pool cpu ram queue req = .ok (w', rest, req', some a) →
    a.pool = pool ∧ a.cpu = cpu ∧ a.ram = ram ∧ a.ops ≠ [] ∧
    ∃ pid ∈ queue, w.hasFailures pid = false ∧ w.successful pid = false ∧ a.prio = w.prioOf pid ∧
      a.ops = opsFor w multi pid := by
  intro queue
  induction queue with
  | nil => intro w req w' rest req' a h; simp [pop] at h
  | cons pid q ih =>
    intro w req w' rest req' a h
    unfold pop at h
    split at h
    · obtain ⟨h1, h2, h3, h4, p, hp, h5⟩ := ih _ _ _ _ _ _ h
      exact ⟨h1, h2, h3, h4, p, List.mem_cons_of_mem _ hp, h5⟩
    · rename_i hskip
      split at h
      · obtain ⟨h1, h2, h3, h4, p, hp, h5⟩ := ih _ _ _ _ _ _ h
        exact ⟨h1, h2, h3, h4, p, List.mem_cons_of_mem _ hp, h5⟩
      · rename_i hne
        split at h
        · cases h
        · rename_i w1 a1 hmk
          simp at h
          obtain ⟨_, _, _, rfl⟩ := h
          obtain ⟨rfl, _⟩ := mkA_ok hmk
          simp only [Bool.or_eq_true, not_or, Bool.not_eq_true] at hskip
          exact ⟨rfl, rfl, rfl, by simpa using hne, pid, by simp, hskip.2, hskip.1, rfl, rfl⟩

/-- the loop over the pools: the new assignments go to distinct pools in pool order, each with all of its pool's free CPU and RAM -/
theorem pools_spec (multi : Bool) : ∀ (ips : List (Nat × Pool)) (w : World) (queue req : List Nat) (acc : List Asg)
    (w' : World) (queue' req' : List Nat) (out : List Asg),
    pools multi w ips queue req acc = .ok (w', queue', req', out) →
    ∃ new, out = acc ++ new ∧ (new.map (·.pool)).Sublist (ips.map (·.1)) ∧
      ∀ a ∈ new, ∃ ip ∈ ips, ip.1 = a.pool ∧ 0 < ip.2.availC ∧ 0 < ip.2.availR ∧
        (a.cpu : Int) = ip.2.availC ∧ (a.ram : Int) = ip.2.availR ∧ a.ops ≠ [] := by
  intro ips
  induction ips with
  | nil => intro w queue req acc w' queue' req' out h; simp [pools] at h; exact ⟨[], by simp [h.2.2.2], by simp, by simp⟩
  | cons ip ips ih =>
    intro w queue req acc w' queue' req' out h
    obtain ⟨i, p⟩ := ip
    unfold pools at h
    split at h
    · obtain ⟨new, h1, h2, h3⟩ := ih _ _ _ _ _ _ _ _ h
      exact ⟨new, h1, h2.trans (by simp), fun a ha => let ⟨x, hx, r⟩ := h3 a ha; ⟨x, List.mem_cons_of_mem _ hx, r⟩⟩
    · rename_i hfree
      simp only [Bool.or_eq_true, decide_eq_true_eq, not_or, Int.not_le] at hfree
      split at h
      · cases h
      · rename_i w1 q1 r1 oa hp
        cases oa with
        | none =>
          obtain ⟨new, h1, h2, h3⟩ := ih _ _ _ _ _ _ _ _ h
          exact ⟨new, h1, h2.trans (by simp), fun a ha => let ⟨x, hx, r⟩ := h3 a ha; ⟨x, List.mem_cons_of_mem _ hx, r⟩⟩
        | some a0 =>
          obtain ⟨new, h1, h2, h3⟩ := ih _ _ _ _ _ _ _ _ h
          obtain ⟨e1, e2, e3, e4, _⟩ := pop_spec multi i _ _ _ _ _ _ _ _ _ hp
          refine ⟨a0 :: new, by simp [h1], by simp only [List.map_cons, e1]; exact h2.cons_cons i, ?_⟩
          intro a ha
          rcases List.mem_cons.mp ha with rfl | ha'
          · refine ⟨(i, p), by simp, e1.symm, hfree.1, hfree.2, ?_, ?_, e4⟩
            · rw [e2]; exact Int.toNat_of_nonneg (by omega)
            · rw [e3]; exact Int.toNat_of_nonneg (by omega)
          · obtain ⟨x, hx, r⟩ := h3 a ha'
            exact ⟨x, List.mem_cons_of_mem _ hx, r⟩

theorem indexed_mem {l : List Pool} {ip : Nat × Pool} (h : ip ∈ indexed l) : l[ip.1]? = some ip.2 := by
  unfold indexed at h
  obtain ⟨i, hi⟩ := List.mem_iff_getElem.mp h
  obtain ⟨hlt, he⟩ := hi
  simp only [List.getElem_zip, List.getElem_range] at he
  rw [← he]
  simp only [List.length_zip, List.length_range, Nat.min_self] at hlt
  simp [hlt]

theorem indexed_fst (l : List Pool) : (indexed l).map (·.1) = List.range l.length := by
  unfold indexed
  rw [List.map_fst_zip]
  simp

/-- **C17 per round.**  The naive scheduler (a) never suspends; (b) starts at most one container per pool — the assignments go to distinct
pools, in pool order; (c) gives each all the CPU and RAM its pool has free at the start of the round. -/
theorem one_container_per_pool_with_all_free_resources (multi : Bool) (w w' : World) (st st' : St) (res : List Res) (newP : List Nat) (dec : Decision)
    (h : round multi w st res newP = .ok (w', st', dec)) :
    dec.sus = [] ∧ (dec.asgs.map (·.pool)).Sublist (List.range w.pools.length) ∧
    ∀ a ∈ dec.asgs, ∃ p, w.pools[a.pool]? = some p ∧ (a.cpu : Int) = p.availC ∧ (a.ram : Int) = p.availR ∧ a.ops ≠ [] := by
  unfold round at h
  split at h
  · simp at h; obtain ⟨_, _, rfl⟩ := h; simp
  · split at h
    · cases h
    · rename_i w1 q1 r1 asgs hp
      simp at h; obtain ⟨_, _, rfl⟩ := h
      obtain ⟨new, h1, h2, h3⟩ := pools_spec multi _ _ _ _ _ _ _ _ _ hp
      simp only [List.nil_append] at h1
      subst h1
      refine ⟨rfl, by rw [← indexed_fst]; exact h2, ?_⟩
      intro a ha
      obtain ⟨ip, hip, e1, _, _, e2, e3, e4⟩ := h3 a ha
      exact ⟨ip.2, by rw [← e1]; exact indexed_mem hip, e2, e3, e4⟩

/-- **no retries; single-operator mode.**  Whatever the scan hands out belongs to one pipeline of the queue that has no failed operator (at that
moment), and with multi-operator containers disabled it is exactly one operator, assignable and with all parents completed. -/
theorem assigned_work_is_failure_free_and_ready (multi : Bool) (pool cpu ram : Nat) (queue : List Nat) (w : World) (req : List Nat)
    (w' : World) (rest req' : List Nat) (a : Asg) (h : pop w multi pool cpu ram queue req = .ok (w', rest, req', some a)) :
    ∃ pid ∈ queue, w.hasFailures pid = false ∧ (∀ o ∈ a.ops, o ∈ (w.pipes.getD pid default).order ∧ w.store.stOf o ∈ assignable) ∧
      (multi = false → a.ops.length = 1 ∧ ∀ o ∈ a.ops, ∀ q ∈ w.store.parentsOf o, w.store.stOf q = completed) := by
  obtain ⟨_, _, _, hne, pid, hpid, hf, _, _, hops⟩ := pop_spec multi pool cpu ram queue w req w' rest req' a h
  refine ⟨pid, hpid, hf, ?_, ?_⟩
  · intro o ho
    rw [hops] at ho
    unfold opsFor at ho
    have hmem : o ∈ w.getOps pid assignable false ∨ o ∈ w.getOps pid assignable true := by
      cases multi
      · right; simp only [Bool.false_eq_true, ↓reduceIte] at ho; exact List.mem_of_mem_take ho
      · left; simpa using ho
    rcases hmem with hm | hm <;>
    · unfold World.getOps at hm
      obtain ⟨h1, h2⟩ := List.mem_filter.mp hm
      simp only [Bool.and_eq_true, List.contains_iff_mem] at h2
      exact ⟨h1, h2.1⟩
  · intro hm
    subst hm
    simp only [opsFor, Bool.false_eq_true, ↓reduceIte] at hops
    constructor
    · have hl : a.ops.length ≤ 1 := by rw [hops]; simp [List.length_take]; omega
      have : a.ops.length ≠ 0 := by intro h0; exact hne (List.length_eq_zero_iff.mp h0)
      omega
    · intro o ho q hq
      rw [hops] at ho
      have hm := List.mem_of_mem_take ho
      unfold World.getOps at hm
      have h2 := (List.mem_filter.mp hm).2
      simp only [Bool.and_eq_true, Bool.not_true, Bool.false_or, List.all_eq_true, beq_iff_eq] at h2
      exact h2.2 q hq

/-- a pipeline the scan passes over: finished or with a failure (dropped), or with nothing ready at the moment (put back) -/
def Skipped (w : World) (multi : Bool) (pid : Nat) : Prop :=
  (w.successful pid || w.hasFailures pid) = true ∨ (opsFor w multi pid).isEmpty = true

/-- **first come, first served (one pool).**  The container of a pool goes to the *first* pipeline of the waiting queue that is neither finished nor
failed and has something ready; every pipeline before it was passed over for exactly one of those reasons, the ones behind it keep their order, and the
ones put back (and the served one) are appended, in scan order, to the list of pipelines to be queued again. -/
theorem first_eligible_pipeline_is_served (multi : Bool) (pool cpu ram : Nat) : ∀ (queue : List Nat) (w : World) (req : List Nat) (w' : World) (rest req' : List Nat) (a : Asg),
    pop w multi pool cpu ram queue req = .ok (w', rest, req', some a) →
    ∃ pre pid, queue = pre ++ pid :: rest ∧ (∀ x ∈ pre, Skipped w multi x) ∧ ¬ Skipped w multi pid ∧ a.ops = opsFor w multi pid ∧
      req' = req ++ pre.filter (fun x => !(w.successful x || w.hasFailures x)) ++ [pid] := by
  intro queue
  induction queue with
  | nil => intro w req w' rest req' a h; simp [pop] at h
  | cons x q ih =>
    intro w req w' rest req' a h
    unfold pop at h
    split at h
    · rename_i hs
      obtain ⟨pre, pid, e, h1, h2, h3, h4⟩ := ih _ _ _ _ _ _ h
      refine ⟨x :: pre, pid, by rw [e]; rfl, ?_, h2, h3, ?_⟩
      · intro y hy
        rcases List.mem_cons.mp hy with rfl | hy
        · exact Or.inl hs
        · exact h1 y hy
      · rw [h4, List.filter_cons]; simp [hs]
    · rename_i hs
      split at h
      · rename_i he
        obtain ⟨pre, pid, e, h1, h2, h3, h4⟩ := ih _ _ _ _ _ _ h
        refine ⟨x :: pre, pid, by rw [e]; rfl, ?_, h2, h3, ?_⟩
        · intro y hy
          rcases List.mem_cons.mp hy with rfl | hy
          · exact Or.inr he
          · exact h1 y hy
        · rw [h4, List.filter_cons]; simp [hs]
      · rename_i he
        split at h
        · cases h
        · rename_i w1 a1 hmk
          simp at h
          obtain ⟨_, rfl, rfl, rfl⟩ := h
          obtain ⟨rfl, _⟩ := mkA_ok hmk
          refine ⟨[], x, rfl, by simp, ?_, rfl, by simp⟩
          rintro (h' | h')
          · exact hs h'
          · exact he h'

/-- `Pairs R as pids`: the two lists have the same length and are related position by position -/
inductive Pairs (R : Asg → Nat → Prop) : List Asg → List Nat → Prop
  | nil : Pairs R [] []
  | cons {a : Asg} {p : Nat} {as : List Asg} {ps : List Nat} : R a p → Pairs R as ps → Pairs R (a :: as) (p :: ps)

/-- a scan that serves nobody has passed over the whole queue -/
theorem pop_none (multi : Bool) (pool cpu ram : Nat) : ∀ (queue : List Nat) (w : World) (req : List Nat) (w' : World) (rest req' : List Nat),
    pop w multi pool cpu ram queue req = .ok (w', rest, req', none) →
    rest = [] ∧ (∀ x ∈ queue, Skipped w multi x) ∧ req' = req ++ queue.filter (fun x => !(w.successful x || w.hasFailures x)) := by
  intro queue
  induction queue with
  | nil => intro w req w' rest req' h; simp [pop] at h; simp [h]
  | cons x q ih =>
    intro w req w' rest req' h
    unfold pop at h
    split at h
    · rename_i hs
      obtain ⟨e, h1, h4⟩ := ih _ _ _ _ _ h
      refine ⟨e, ?_, by rw [h4, List.filter_cons]; simp [hs]⟩
      intro y hy
      rcases List.mem_cons.mp hy with rfl | hy
      · exact Or.inl hs
      · exact h1 y hy
    · rename_i hs
      split at h
      · rename_i he
        obtain ⟨e, h1, h4⟩ := ih _ _ _ _ _ h
        refine ⟨e, ?_, by rw [h4, List.filter_cons]; simp [hs]⟩
        intro y hy
        rcases List.mem_cons.mp hy with rfl | hy
        · exact Or.inr he
        · exact h1 y hy
      · split at h
        · cases h
        · simp at h

/-- **first come, first served (one round).**  Over the pools of one round the waiting queue is consumed from the front: the pipelines served are a
subsequence of the queue in queue order — pool after pool, each container goes to the first eligible pipeline behind the one served before — and the
part of the queue that was not reached stays as it is. -/
theorem pipelines_are_served_in_queue_order (multi : Bool) : ∀ (ips : List (Nat × Pool)) (w : World) (queue req : List Nat) (acc : List Asg)
    (w' : World) (queue' req' : List Nat) (out : List Asg),
    pools multi w ips queue req acc = .ok (w', queue', req', out) →
    ∃ (scanned served : List Nat) (new : List Asg), queue = scanned ++ queue' ∧ out = acc ++ new ∧ served.Sublist scanned ∧
      Pairs (fun (a : Asg) pid => ∃ wi, a.ops = opsFor wi multi pid ∧ ¬ Skipped wi multi pid) new served ∧
      ∃ kept, req' = req ++ kept ∧ kept.Sublist scanned ∧ served.Sublist kept := by
  intro ips
  induction ips with
  | nil =>
    intro w queue req acc w' queue' req' out h
    simp [pools] at h
    obtain ⟨_, rfl, rfl, rfl⟩ := h
    exact ⟨[], [], [], by simp, by simp, List.Sublist.refl _, .nil, [], by simp, List.Sublist.refl _, List.Sublist.refl _⟩
  | cons ip ips ih =>
    intro w queue req acc w' queue' req' out h
    obtain ⟨i, p⟩ := ip
    unfold pools at h
    split at h
    · exact ih _ _ _ _ _ _ _ _ h
    · split at h
      · cases h
      · rename_i w1 q1 r1 oa hp
        cases oa with
        | none =>
          obtain ⟨e, _, h4⟩ := pop_none multi _ _ _ _ _ _ _ _ _ hp
          subst e
          obtain ⟨sc, sv, new, e1, e2, s1, f, kept, k1, k2, k3⟩ := ih _ _ _ _ _ _ _ _ h
          have hsc : sc = [] ∧ queue' = [] := by simpa using e1.symm
          obtain ⟨rfl, rfl⟩ := hsc
          have : sv = [] := by simpa using s1
          subst this
          have hk : kept = [] := by simpa using k2
          subst hk
          refine ⟨queue, [], new, by simp, e2, by simp, f, queue.filter (fun x => !(w.successful x || w.hasFailures x)), ?_, List.filter_sublist, by simp⟩
          rw [k1, h4]; simp
        | some a =>
          obtain ⟨pre, pid, e, _, hns, ha, h4⟩ := first_eligible_pipeline_is_served multi _ _ _ _ _ _ _ _ _ _ hp
          obtain ⟨sc, sv, new, e1, e2, s1, f, kept, k1, k2, k3⟩ := ih _ _ _ _ _ _ _ _ h
          refine ⟨pre ++ pid :: sc, pid :: sv, a :: new, ?_, ?_, ?_, .cons ⟨w, ha, hns⟩ f,
            pre.filter (fun x => !(w.successful x || w.hasFailures x)) ++ pid :: kept, ?_, ?_, ?_⟩
          · rw [e, e1]; simp
          · rw [e2]; simp
          · exact (List.Sublist.cons_cons pid s1).trans (List.sublist_append_right _ _)
          · rw [k1, h4]; simp
          · exact List.Sublist.append List.filter_sublist (List.Sublist.cons_cons pid k2)
          · exact (List.Sublist.cons_cons pid k3).trans (List.sublist_append_right _ _)

/-- **first come, first served (across rounds).**  New arrivals join the back of the waiting queue; the pipelines served in a round are a subsequence of
(queue ++ arrivals) in that order; the queue handed to the next round is the part not reached followed by the pipelines that were scanned and kept. -/
theorem round_is_first_come_first_served (multi : Bool) (w w' : World) (st st' : St) (res : List Res) (newP : List Nat) (dec : Decision)
    (h : round multi w st res newP = .ok (w', st', dec)) (hne : ¬ (newP.isEmpty && res.isEmpty) = true) :
    ∃ (scanned unreached served kept : List Nat), st.queue ++ newP = scanned ++ unreached ∧ served.Sublist scanned ∧ kept.Sublist scanned ∧ served.Sublist kept ∧
      st'.queue = unreached ++ kept ∧
      Pairs (fun (a : Asg) pid => ∃ wi, a.ops = opsFor wi multi pid ∧ ¬ Skipped wi multi pid) dec.asgs served := by
  unfold round at h
  rw [if_neg hne] at h
  split at h
  · cases h
  · rename_i w1 q1 r1 asgs hp
    simp at h
    obtain ⟨_, rfl, rfl⟩ := h
    obtain ⟨sc, sv, new, e1, e2, s1, f, kept, k1, k2, k3⟩ := pipelines_are_served_in_queue_order multi _ _ _ _ _ _ _ _ _ hp
    simp only [List.nil_append] at e2 k1
    subst e2
    exact ⟨sc, q1, sv, kept, e1, s1, k2, k3, by rw [k1], f⟩

/-- non-vacuity: three one-operator pipelines arrive together on two pools: pipelines 0 and 1 are served (in that order, pool 0 then pool 1), pipeline 2
was not reached and now heads the queue, in front of the two that were served and kept -/
def exWorld : World :=
  { cfg := { tps := 1, q := 64, g := 1280, multiOp := false },
    store := ((({} : Store).addOp 0 [] [{ baseNum := 1, read := 0 }]).addOp 1 [] [{ baseNum := 1, read := 0 }]).addOp 2 [] [{ baseNum := 1, read := 0 }],
    pools := [Pool.fresh 4 512, Pool.fresh 4 512],
    pipes := #[{ prio := 3, order := [0], first := 0, n := 1 }, { prio := 3, order := [1], first := 1, n := 1 }, { prio := 3, order := [2], first := 2, n := 1 }] }

example : (match round false exWorld {} [] [0, 1, 2] with
    | .ok (_, st', dec) => some (st'.queue, dec.asgs.map (fun a => (a.pool, a.ops)))
    | .error _ => none) = some ([2, 0, 1], [(0, [0]), (1, [1])]) := by decide

end Eudoxia.C17
