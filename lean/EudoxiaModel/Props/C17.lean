import EudoxiaModel.Model.Sched.Naive
import EudoxiaModel.Proofs.Reach
/-! # C17 — naive scheduler: whole-pool FIFO without retries or preemption
    (`Naive.round multi`; the starter scheduler written by `eudoxia init` is `Naive.round false`) -/
namespace Eudoxia.C17
open Eudoxia Eudoxia.Naive OpState Extracted

/-- what the scan of the waiting queue for one pool hands out -/
theorem pop_spec (multi : Bool) (pool cpu ram : Nat) : ∀ (queue : List Nat) (w : World) (req : List Nat) (w' : World) (rest req' : List Nat) (a : Asg),
    pop w multi pool cpu ram queue req = .ok (w', rest, req', some a) →
    a.pool = pool ∧ a.cpu = cpu ∧ a.ram = ram ∧ a.ops ≠ [] ∧
    ∃ pid ∈ queue, w.hasFailures pid = false ∧ w.successful pid = false ∧ a.prio = w.prioOf pid ∧
      a.ops = opsFor w multi pid := by
  intro queue
  induction queue with
  | nil => intro w req w' rest req' a h; simp [pop] at h
  | cons pid q ih =>
    intro w req w' rest req' a h
    unfold pop at h
    split at h
    · obtain ⟨h1, h2, h3, h4, p, hp, h5⟩ := ih _ _ _ _ _ _ h
      exact ⟨h1, h2, h3, h4, p, List.mem_cons_of_mem _ hp, h5⟩
    · rename_i hskip
      split at h
      · obtain ⟨h1, h2, h3, h4, p, hp, h5⟩ := ih _ _ _ _ _ _ h
        exact ⟨h1, h2, h3, h4, p, List.mem_cons_of_mem _ hp, h5⟩
      · rename_i hne
        split at h
        · cases h
        · rename_i w1 a1 hmk
          simp at h
          obtain ⟨_, _, _, rfl⟩ := h
          obtain ⟨rfl, _⟩ := mkA_ok hmk
          simp only [Bool.or_eq_true, not_or, Bool.not_eq_true] at hskip
          exact ⟨rfl, rfl, rfl, by simpa using hne, pid, by simp, hskip.2, hskip.1, rfl, rfl⟩

/-- the loop over the pools: the new assignments go to distinct pools in pool order, each with all of its pool's free CPU and RAM -/
theorem pools_spec (multi : Bool) : ∀ (ips : List (Nat × Pool)) (w : World) (queue req : List Nat) (acc : List Asg)
    (w' : World) (queue' req' : List Nat) (out : List Asg),
    pools multi w ips queue req acc = .ok (w', queue', req', out) →
    ∃ new, out = acc ++ new ∧ (new.map (·.pool)).Sublist (ips.map (·.1)) ∧
      ∀ a ∈ new, ∃ ip ∈ ips, ip.1 = a.pool ∧ 0 < ip.2.availC ∧ 0 < ip.2.availR ∧
        (a.cpu : Int) = ip.2.availC ∧ (a.ram : Int) = ip.2.availR ∧ a.ops ≠ [] := by
  intro ips
  induction ips with
  | nil => intro w queue req acc w' queue' req' out h; simp [pools] at h; exact ⟨[], by simp [h.2.2.2], by simp, by simp⟩
  | cons ip ips ih =>
    intro w queue req acc w' queue' req' out h
    obtain ⟨i, p⟩ := ip
    unfold pools at h
    split at h
    · obtain ⟨new, h1, h2, h3⟩ := ih _ _ _ _ _ _ _ _ h
      exact ⟨new, h1, h2.trans (by simp), fun a ha => let ⟨x, hx, r⟩ := h3 a ha; ⟨x, List.mem_cons_of_mem _ hx, r⟩⟩
    · rename_i hfree
      simp only [Bool.or_eq_true, decide_eq_true_eq, not_or, Int.not_le] at hfree
      split at h
      · cases h
      · rename_i w1 q1 r1 oa hp
        cases oa with
        | none =>
          obtain ⟨new, h1, h2, h3⟩ := ih _ _ _ _ _ _ _ _ h
          exact ⟨new, h1, h2.trans (by simp), fun a ha => let ⟨x, hx, r⟩ := h3 a ha; ⟨x, List.mem_cons_of_mem _ hx, r⟩⟩
        | some a0 =>
          obtain ⟨new, h1, h2, h3⟩ := ih _ _ _ _ _ _ _ _ h
          obtain ⟨e1, e2, e3, e4, _⟩ := pop_spec multi i _ _ _ _ _ _ _ _ _ hp
          refine ⟨a0 :: new, by simp [h1], by simp only [List.map_cons, e1]; exact h2.cons_cons i, ?_⟩
          intro a ha
          rcases List.mem_cons.mp ha with rfl | ha'
          · refine ⟨(i, p), by simp, e1.symm, hfree.1, hfree.2, ?_, ?_, e4⟩
            · rw [e2]; exact Int.toNat_of_nonneg (by omega)
            · rw [e3]; exact Int.toNat_of_nonneg (by omega)
          · obtain ⟨x, hx, r⟩ := h3 a ha'
            exact ⟨x, List.mem_cons_of_mem _ hx, r⟩

theorem indexed_mem {l : List Pool} {ip : Nat × Pool} (h : ip ∈ indexed l) : l[ip.1]? = some ip.2 := by
  unfold indexed at h
  obtain ⟨i, hi⟩ := List.mem_iff_getElem.mp h
  obtain ⟨hlt, he⟩ := hi
  simp only [List.getElem_zip, List.getElem_range] at he
  rw [← he]
  simp only [List.length_zip, List.length_range, Nat.min_self] at hlt
  simp [hlt]

theorem indexed_fst (l : List Pool) : (indexed l).map (·.1) = List.range l.length := by
  unfold indexed
  rw [List.map_fst_zip]
  simp

/-- **C17 per round.**  The naive scheduler (a) never suspends; (b) starts at most one container per pool — the assignments go to distinct
pools, in pool order; (c) gives each all the CPU and RAM its pool has free at the start of the round. -/
theorem one_container_per_pool_with_all_free_resources (multi : Bool) (w w' : World) (st st' : St) (res : List Res) (newP : List Nat) (dec : Decision)
    (h : round multi w st res newP = .ok (w', st', dec)) :
    dec.sus = [] ∧ (dec.asgs.map (·.pool)).Sublist (List.range w.pools.length) ∧
    ∀ a ∈ dec.asgs, ∃ p, w.pools[a.pool]? = some p ∧ (a.cpu : Int) = p.availC ∧ (a.ram : Int) = p.availR ∧ a.ops ≠ [] := by
  unfold round at h
  split at h
  · simp at h; obtain ⟨_, _, rfl⟩ := h; simp
  · split at h
    · cases h
    · rename_i w1 q1 r1 asgs hp
      simp at h; obtain ⟨_, _, rfl⟩ := h
      obtain ⟨new, h1, h2, h3⟩ := pools_spec multi _ _ _ _ _ _ _ _ _ hp
      simp only [List.nil_append] at h1
      subst h1
      refine ⟨rfl, by rw [← indexed_fst]; exact h2, ?_⟩
      intro a ha
      obtain ⟨ip, hip, e1, _, _, e2, e3, e4⟩ := h3 a ha
      exact ⟨ip.2, by rw [← e1]; exact indexed_mem hip, e2, e3, e4⟩

/-- **no retries; single-operator mode.**  Whatever the scan hands out belongs to one pipeline of the queue that has no failed operator (at that
moment), and with multi-operator containers disabled it is exactly one operator, assignable and with all parents completed. -/
theorem assigned_work_is_failure_free_and_ready (multi : Bool) (pool cpu ram : Nat) (queue : List Nat) (w : World) (req : List Nat)
    (w' : World) (rest req' : List Nat) (a : Asg) (h : pop w multi pool cpu ram queue req = .ok (w', rest, req', some a)) :
    ∃ pid ∈ queue, w.hasFailures pid = false ∧ (∀ o ∈ a.ops, o ∈ (w.pipes.getD pid default).order ∧ w.store.stOf o ∈ assignable) ∧
      (multi = false → a.ops.length = 1 ∧ ∀ o ∈ a.ops, ∀ q ∈ w.store.parentsOf o, w.store.stOf q = completed) := by
  obtain ⟨_, _, _, hne, pid, hpid, hf, _, _, hops⟩ := pop_spec multi pool cpu ram queue w req w' rest req' a h
  refine ⟨pid, hpid, hf, ?_, ?_⟩
  · intro o ho
    rw [hops] at ho
    unfold opsFor at ho
    have hmem : o ∈ w.getOps pid assignable false ∨ o ∈ w.getOps pid assignable true := by
      cases multi
      · right; simp only [Bool.false_eq_true, ↓reduceIte] at ho; exact List.mem_of_mem_take ho
      · left; simpa using ho
    rcases hmem with hm | hm <;>
    · unfold World.getOps at hm
      obtain ⟨h1, h2⟩ := List.mem_filter.mp hm
      simp only [Bool.and_eq_true, List.contains_iff_mem] at h2
      exact ⟨h1, h2.1⟩
  · intro hm
    subst hm
    simp only [opsFor, Bool.false_eq_true, ↓reduceIte] at hops
    constructor
    · have hl : a.ops.length ≤ 1 := by rw [hops]; simp [List.length_take]; omega
      have : a.ops.length ≠ 0 := by intro h0; exact hne (List.length_eq_zero_iff.mp h0)
      omega
    · intro o ho q hq
      rw [hops] at ho
      have hm := List.mem_of_mem_take ho
      unfold World.getOps at hm
      have h2 := (List.mem_filter.mp hm).2
      simp only [Bool.and_eq_true, Bool.not_true, Bool.false_or, List.all_eq_true, beq_iff_eq] at h2
      exact h2.2 q hq

end Eudoxia.C17
