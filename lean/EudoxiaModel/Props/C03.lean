import EudoxiaModel.Proofs.Reach
namespace Eudoxia.C03
theorem placeholder : True := trivial
end Eudoxia.C03
