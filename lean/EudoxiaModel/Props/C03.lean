import EudoxiaModel.Proofs.WorldInv
import EudoxiaModel.Model.Obs
import EudoxiaModel.Proofs.TickFrame
import EudoxiaModel.Proofs.FreshWorlds
/-! # C03 — pool CPU and RAM are conserved: never lost, never double-freed, never oversold -/
namespace Eudoxia.C03
open Eudoxia

/-- **C03.1 + C03.2 (full strength).**  In every world reachable under arbitrary command sequences
(assignments of any size, suspensions at any moment, legal or not, continuing after refused batches),
in every pool: free CPU plus the CPU allocated to all running and suspending containers equals the
pool's CPU capacity, the same for RAM; free CPU is never negative and free RAM is never negative unless
memory overcommit is enabled; capacities never change.  Because this holds at *every* tick boundary with
constant capacity, an allocation is returned exactly once — in the tick its container leaves the
running/suspending lists — and never twice. -/
theorem conserved_nonneg {w0 w : World} (g0 : w0.PoolsGood) (h : Reach w0 w) :
    (∀ p ∈ w.pools,
      p.availC + cpuSum p.active + cpuSum p.suspending = p.capC ∧
      p.availR + ramSum p.active + ramSum p.suspending = p.capR ∧
      0 ≤ p.availC ∧ (w.cfg.overcommit = false → 0 ≤ p.availR)) ∧
    w.caps = w0.caps := by
  obtain ⟨g, hc, _⟩ := reach_good h g0
  exact ⟨fun p hp => ⟨(g p hp).1.cpu, (g p hp).1.ram, (g p hp).2.1, (g p hp).2.2⟩, hc⟩

/-- a freshly configured executor satisfies the hypothesis of `conserved_nonneg` -/
theorem fresh_world_good (cfg : Cfg) (npools cpus ram : Nat) :
    ({ cfg := cfg, pools := List.replicate npools (Pool.fresh cpus ram) } : World).PoolsGood := by
  intro p hp
  have := List.eq_of_mem_replicate hp
  subst this
  exact ⟨poolInv_fresh _ _ _, by simp [Pool.NonNeg, Pool.fresh]⟩

/-- **C03.3a.**  A batch whose summed CPU exceeds the pool's free CPU is refused. -/
theorem oversold_cpu_is_refused (cfg : Cfg) (p : Pool) (as : List Asg) (h : (cpuReq as : Int) > p.availC) :
    verifyAssignments cfg p as = .error .overCpu := oversell_cpu_refused cfg p as h

/-- **C03.3b.**  Without overcommit, a batch whose summed RAM exceeds the pool's free RAM is refused. -/
theorem oversold_ram_is_refused (cfg : Cfg) (p : Pool) (as : List Asg) (hc : (cpuReq as : Int) ≤ p.availC)
    (ho : cfg.overcommit = false) (h : (ramReq as : Int) > p.availR) :
    verifyAssignments cfg p as = .error .overRam := oversell_ram_refused cfg p as hc ho h

/-- **C03.3c.**  A refused batch is rejected as a whole: no container of it exists afterwards (the container
counter is unchanged and the running containers are among those that ran before). -/
theorem refused_batch_creates_no_container {cfg : Cfg} {w w' : Store} {p p' : Pool} {n n' : Nat} {cm : Cmds} {e : Err}
    (he : e = .overCpu ∨ e = .overRam) (h : poolTick cfg w p n cm = .error (e, some (w', p', n'))) :
    n' = n ∧ (cids p'.active).Sublist (cids p.active) := rejected_batch_creates_nothing he h

theorem isum_map_cpu (l : List Ctr) : isum ((l.map Ctr.toObs).map (fun c => (c.cpu : Int))) = cpuSum l := by
  simp [isum, cpuSum, Ctr.toObs, List.map_map, Function.comp_def]
theorem isum_map_ram (l : List Ctr) : isum ((l.map Ctr.toObs).map (fun c => (c.ram : Int))) = ramSum l := by
  simp [isum, ramSum, Ctr.toObs, List.map_map, Function.comp_def]
theorem isum_map_cpuS (l : List Ctr) : isum ((l.map Ctr.toSusObs).map (fun c => (c.cpu : Int))) = cpuSum l := by
  simp [isum, cpuSum, Ctr.toSusObs, List.map_map, Function.comp_def]
theorem isum_map_ramS (l : List Ctr) : isum ((l.map Ctr.toSusObs).map (fun c => (c.ram : Int))) = ramSum l := by
  simp [isum, ramSum, Ctr.toSusObs, List.map_map, Function.comp_def]

/-- **The checker evaluated on implementation traces is the theorem's statement**: on the observation of any
pool satisfying the invariant, `conservedB` (the conservation clause of `check_C03`) is true — so every
trace of the model passes it, and a trace of the implementation that fails it exhibits a violation. -/
theorem checker_accepts_invariant {cfg : Cfg} {p : Pool} {n : Nat} (g : p.Good cfg n) :
    conservedB cfg.overcommit p.toObs = true := by
  obtain ⟨⟨hc, hr, _, _⟩, h0, h1⟩ := g
  unfold conservedB Pool.toObs
  simp only [isum_map_cpu, isum_map_ram, isum_map_cpuS, isum_map_ramS, Bool.and_eq_true, beq_iff_eq, decide_eq_true_eq,
    Bool.or_eq_true]
  refine ⟨⟨⟨hc, hr⟩, h0⟩, ?_⟩
  cases ho : cfg.overcommit
  · right; exact h1 ho
  · left; rfl

/-- non-vacuity: a pool with one running and one suspending container meets the invariant -/
example : PoolInv { capC := 8, capR := 512, availC := 5, availR := 128,
                    active := [{ cid := 0, ops := [0], cpu := 2, ram := 256, pos := { ops := [] } }],
                    suspending := [{ cid := 1, ops := [1], cpu := 1, ram := 128, pos := { ops := [] } }] } 2 := by
  constructor <;> simp [cpuSum, ramSum, cids]

/-- **a container's allocation is returned in the tick it completes**: in a ready world — every world between two ticks of a run — a container that still holds
an allocation as a running container has an operator left to run; so the clause `unfinishedB` ("returned-when-finished") of `check_C03` is true on every state
of the model, and an implementation state that fails it shows a finished container still holding its CPU and RAM -/
theorem running_containers_have_work_left {w : World} (hr : WorldReady w) : (w.toObs.pools.all unfinishedB) = true := by
  simp only [World.toObs, List.all_map, List.all_eq_true, Function.comp]
  intro p hp
  simp only [unfinishedB, Pool.toObs, List.all_map, List.all_eq_true, Function.comp, Ctr.toObs, decide_eq_true_eq]
  intro c hc
  have hne := active_unf_ne hr hp hc
  apply decide_eq_true
  apply Classical.byContradiction
  intro hge
  apply hne
  unfold Ctr.unfinished
  exact List.drop_eq_nil_of_le (by omega)

/-! ### full simulations under the shipped schedulers

The property also quantifies over *full simulations under the shipped schedulers*.  The whole-run theorems of C08 / C18 carry the executor's invariant
(`WorldReady`) through every tick of every run; conservation is part of it.  Since `arrivals` is any list of arrival batches — one per tick — the world
"after the run" is the world at an arbitrary tick boundary. -/

/-- what `WorldReady` says about resources -/
theorem ready_world_is_conserved {w : World} (hr : WorldReady w) :
    ∀ p ∈ w.pools,
      p.availC + cpuSum p.active + cpuSum p.suspending = p.capC ∧
      p.availR + ramSum p.active + ramSum p.suspending = p.capR ∧
      0 ≤ p.availC ∧ (w.cfg.overcommit = false → 0 ≤ p.availR) := by
  intro p hp
  have g := (hr.pools p hp).1.1
  exact ⟨g.1.cpu, g.1.ram, g.2.1, g.2.2⟩

/-- **`priority` (multi-operator containers: pre-emption, write-outs, re-queued work)**: from every fresh world with a well-formed workload, for any arrival
batches, the run reaches its last tick and at that tick boundary CPU and RAM are conserved in every pool and neither is oversold -/
theorem conserved_on_every_tick_of_every_priority_run (cfg : Cfg) (store : Store) (pipes : Array PipeInfo) (caps : List (Nat × Nat))
    (arrivals : List (List Nat)) (hm : cfg.multiOp = true) (ho : cfg.overcommit = false) (hq : 0 < cfg.q)
    (wf : (freshWorld cfg store pipes caps).WFP) (hs : (freshWorld cfg store pipes caps).SegsOK) (hp : (freshWorld cfg store pipes caps).PidOK)
    (ht : (freshWorld cfg store pipes caps).Topo) (hF : arrivals.flatten.Nodup)
    (hfut : ∀ pid ∈ arrivals.flatten, (pipes.getD pid default).order ≠ [] ∧ ∀ o ∈ (pipes.getD pid default).order, store.stOf o = OpState.pending) :
    ∃ w' st' res', Prio.loop (freshWorld cfg store pipes caps) {} [] arrivals = .ok (w', st', res') ∧
      ∀ p ∈ w'.pools,
        p.availC + cpuSum p.active + cpuSum p.suspending = p.capC ∧ p.availR + ramSum p.active + ramSum p.suspending = p.capR ∧
        0 ≤ p.availC ∧ 0 ≤ p.availR := by
  obtain ⟨w', st', cs', js', h, inv⟩ := PM.run_never_raises arrivals _ {} [] [] (PM.fresh_inv cfg store pipes caps _ hm ho hq wf hs hp ht hF hfut)
  refine ⟨w', st', _, h, fun p hp => ?_⟩
  obtain ⟨a, b, c, d⟩ := ready_world_is_conserved inv.ready p hp
  exact ⟨a, b, c, d inv.over⟩

/-- **`priority-pool` (multi-operator containers)**: the same, on its two pools -/
theorem conserved_on_every_tick_of_every_priority_pool_run (cfg : Cfg) (store : Store) (pipes : Array PipeInfo) (c0 c1 : Nat × Nat)
    (arrivals : List (List Nat)) (hm : cfg.multiOp = true) (hq : 0 < cfg.q) (h0 : 0 < c0.1 ∧ 0 < c0.2) (h1 : 0 < c1.1 ∧ 0 < c1.2)
    (wf : (freshWorld cfg store pipes [c0, c1]).WFP) (hs : (freshWorld cfg store pipes [c0, c1]).SegsOK) (hp : (freshWorld cfg store pipes [c0, c1]).PidOK)
    (ht : (freshWorld cfg store pipes [c0, c1]).Topo) (hF : arrivals.flatten.Nodup)
    (hfut : ∀ pid ∈ arrivals.flatten, (pipes.getD pid default).order ≠ [] ∧ ∀ o ∈ (pipes.getD pid default).order, store.stOf o = OpState.pending) :
    ∃ w' st' res', PP.loop (freshWorld cfg store pipes [c0, c1]) {} [] arrivals = .ok (w', st', res') ∧
      ∀ p ∈ w'.pools,
        p.availC + cpuSum p.active + cpuSum p.suspending = p.capC ∧ p.availR + ramSum p.active + ramSum p.suspending = p.capR ∧
        0 ≤ p.availC ∧ (w'.cfg.overcommit = false → 0 ≤ p.availR) := by
  obtain ⟨w', st', cs', h, inv⟩ := PP.run_never_raises arrivals _ {} [] (PP.fresh_inv cfg store pipes c0 c1 _ hm hq h0 h1 wf hs hp ht hF hfut)
  exact ⟨w', st', _, h, ready_world_is_conserved inv.ready⟩

/-- **`overbook` (memory overcommit enabled)**: CPU and RAM are conserved and CPU is never oversold; free RAM may be negative — that is what overcommit means -/
theorem conserved_on_every_tick_of_every_overbook_run (cfg : Cfg) (store : Store) (pipes : Array PipeInfo) (caps : List (Nat × Nat))
    (arrivals : List (List Nat)) (ho : cfg.overcommit = true) (hc : ∀ c ∈ caps, 0 < c.2)
    (wf : (freshWorld cfg store pipes caps).WFP) (hs : (freshWorld cfg store pipes caps).SegsOK) :
    ∃ w' st' res', Overbook.loop (freshWorld cfg store pipes caps) {} [] arrivals = .ok (w', st', res') ∧
      ∀ p ∈ w'.pools,
        p.availC + cpuSum p.active + cpuSum p.suspending = p.capC ∧ p.availR + ramSum p.active + ramSum p.suspending = p.capR ∧ 0 ≤ p.availC := by
  obtain ⟨w', st', res', h, inv⟩ := Overbook.run_never_raises arrivals _ {} [] (Overbook.fresh_inv cfg store pipes caps ho hc wf hs)
  refine ⟨w', st', res', h, fun p hp => ?_⟩
  obtain ⟨a, b, c, _⟩ := ready_world_is_conserved inv.ready p hp
  exact ⟨a, b, c⟩

/-- **`priority` with single-operator containers** (the mode in which it never pre-empts): the same, for any arrival batches without repetitions inside a batch -/
theorem conserved_on_every_tick_of_every_priority_single_operator_run (cfg : Cfg) (store : Store) (pipes : Array PipeInfo) (caps : List (Nat × Nat))
    (arrivals : List (List Nat)) (hm : cfg.multiOp = false) (ho : cfg.overcommit = false) (hq : 0 < cfg.q)
    (wf : (freshWorld cfg store pipes caps).WFP) (hs : (freshWorld cfg store pipes caps).SegsOK) (hp : (freshWorld cfg store pipes caps).PidOK)
    (hn : ∀ newP ∈ arrivals, newP.Nodup) :
    ∃ w' st' res', Prio.loop (freshWorld cfg store pipes caps) {} [] arrivals = .ok (w', st', res') ∧
      ∀ p ∈ w'.pools,
        p.availC + cpuSum p.active + cpuSum p.suspending = p.capC ∧ p.availR + ramSum p.active + ramSum p.suspending = p.capR ∧
        0 ≤ p.availC ∧ 0 ≤ p.availR ∧ p.suspending = [] := by
  obtain ⟨w', st', res', h, inv⟩ := Prio.run_single_never_raises arrivals _ {} [] hn (Prio.fresh_inv_single cfg store pipes caps hm ho hq wf hs hp)
  refine ⟨w', st', res', h, fun p hp => ?_⟩
  obtain ⟨a, b, c, d⟩ := ready_world_is_conserved inv.ready p hp
  exact ⟨a, b, c, d inv.over, inv.nosusp p hp⟩

end Eudoxia.C03
