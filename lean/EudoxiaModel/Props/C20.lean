import EudoxiaModel.Proofs.Trace
import EudoxiaModel.Proofs.Sort
/-! # C20 — trace tools change only arrival times, within their stated bounds -/
namespace Eudoxia.C20
open Eudoxia.Trace

/-- `snap` never moves an arrival up: snapNum/tps ≤ n/d -/
theorem snap_never_up (n d tps : Nat) : snapNum n d tps * d ≤ n * tps := snap_le n d tps

/-- `snap` moves an arrival by less than one tick: n/d < (snapNum+1)/tps -/
theorem snap_less_than_a_tick (n d tps : Nat) (hd : 0 < d) : n * tps < (snapNum n d tps + 1) * d := snap_gap n d tps hd

/-- times already on a tick boundary are unchanged -/
theorem snap_fixes_grid (k tps : Nat) (ht : 0 < tps) : snapNum k tps tps = k := snap_on_grid k tps ht

/-- snapping twice equals snapping once -/
theorem snap_idempotent (n d tps : Nat) (ht : 0 < tps) : snapNum (snapNum n d tps) tps tps = snapNum n d tps :=
  snap_idem n d tps ht

def leKey (a b : Nat × Nat) : Bool := decide (a.2 ≤ b.2)

theorem leKey_total (a b : Nat × Nat) : leKey a b = true ∨ leKey b a = true := by
  simp only [leKey, decide_eq_true_eq]; exact Nat.le_total _ _

theorem leKey_trans (a b c : Nat × Nat) (h1 : leKey a b = true) (h2 : leKey b c = true) : leKey a c = true := by
  simp only [leKey, decide_eq_true_eq] at *; omega

/-- `jitter` keeps every pipeline (its output is a permutation of the input pipelines, each with arrival
old + draw) and writes them in ascending order of the new arrival -/
theorem jitter_permutation_sorted (arr draws : List Nat) :
    (jitter arr draws).Perm ((List.range arr.length).zip (List.zipWith (· + ·) arr draws)) ∧
    (jitter arr draws).Pairwise (fun a b => a.2 ≤ b.2) := by
  constructor
  · exact SortP.sortDesc_perm _ _
  · have := SortP.sortDesc_sorted leKey leKey_total leKey_trans ((List.range arr.length).zip (List.zipWith (· + ·) arr draws))
    have e : jitter arr draws = SortP.sortDesc leKey ((List.range arr.length).zip (List.zipWith (· + ·) arr draws)) := rfl
    rw [e]
    simpa [leKey] using this

/-- each pipeline is moved by exactly its draw, which lies in [0, δ] when the draw does -/
theorem jitter_moves_by_draw (arr draws : List Nat) (δ : Nat) (hd : ∀ x ∈ draws, x ≤ δ) (i : Nat)
    (hi : i < (List.zipWith (· + ·) arr draws).length) :
    arr[i]'(by simp at hi; omega) ≤ (List.zipWith (· + ·) arr draws)[i] ∧
    (List.zipWith (· + ·) arr draws)[i] ≤ arr[i]'(by simp at hi; omega) + δ := by
  simp only [List.getElem_zipWith]
  have : draws[i]'(by simp at hi; omega) ≤ δ := hd _ (List.getElem_mem _)
  omega

/-- different samples get different seeds -/
theorem sample_seeds_distinct (start i j : Nat) (h : sampleSeed start i = sampleSeed start j) : i = j := by
  simp only [sampleSeed] at h; omega

example : snapNum 29 100 100 = 29 ∧ snapNum 295 1000 100 = 29 ∧ jitter [0, 10, 20] [15, 0, 3] = [(1, 10), (0, 15), (2, 23)] := by decide

end Eudoxia.C20
