import EudoxiaModel.Model.Pool
/-! `eudoxia/executor/executor.py` and `Assignment.__init__`: the world (operator table, pipelines, pools). -/
namespace Eudoxia
open OpState

structure PipeInfo where
  prio : Nat
  order : List Nat        -- global operator ids in iteration order (= order of `operator_states`)
  first : Nat := 0        -- global id of the first operator (creation order)
  n : Nat := 0            -- number of operators
deriving Repr, Inhabited

structure World where
  cfg : Cfg
  store : Store := {}
  pipes : Array PipeInfo := #[]
  pools : List Pool := []
  nextCid : Nat := 0
deriving Repr, Inhabited

/-- error of an executor step; `some` = the state the Python objects are left in -/
abbrev XErr := Err × Option World

/-- `Assignment.__init__`: asserts, then operators → ASSIGNED one by one
    (operators moved before a refusal stay ASSIGNED) -/
def assignOps (s : Store) : List Nat → Except (Err × Store) Store
  | [] => .ok s
  | r :: rs => match s.transition r assigned with
    | .error e => .error (e, s)
    | .ok s' => assignOps s' rs

def World.mkAssignment (w : World) (a : Asg) : Except (Err × World) World :=
  if a.ops.isEmpty then .error (.emptyAssign, w)
  else if a.cpu == 0 then .error (.nonPos, w)
  else if a.ram == 0 then .error (.nonPos, w)
  else match assignOps w.store a.ops with
    | .error (e, s) => .error (e, { w with store := s })
    | .ok s => .ok { w with store := s }

/-- the commands routed to pool `i` -/
def cmdsFor (i : Nat) (sus : List (Nat × Nat)) (asgs : List Asg) : Cmds :=
  { susp := (sus.filter (·.1 == i)).map (·.2), asgs := asgs.filter (·.pool == i) }

/-- run the pools in index order; `done` are the pools already ticked -/
def execPools (cfg : Cfg) (sus : List (Nat × Nat)) (asgs : List Asg) :
    Store → Nat → List Pool → List Pool → List Res →
    Except (Err × Option (Store × List Pool × Nat)) (Store × List Pool × Nat × List Res)
  | s, n, done, [], res => .ok (s, done, n, res)
  | s, n, done, p :: todo, res =>
    match poolTick cfg s p n (cmdsFor done.length sus asgs) with
    | .error (e, none) => .error (e, none)
    | .error (e, some (s1, p1, n1)) => .error (e, some (s1, done ++ p1 :: todo, n1))
    | .ok (s1, p1, n1, r) => execPools cfg sus asgs s1 n1 (done ++ [p1]) todo (res ++ r)

/-- `Executor.run_one_tick`; a command naming a pool that does not exist is rejected -/
def World.execTick (w : World) (sus : List (Nat × Nat)) (asgs : List Asg) : Except XErr (World × List Res) :=
  if sus.any (fun s => s.1 ≥ w.pools.length) || asgs.any (fun a => a.pool ≥ w.pools.length) then
    .error (.unknownPool, some w)
  else match execPools w.cfg sus asgs w.store w.nextCid [] w.pools [] with
    | .error (e, none) => .error (e, none)
    | .error (e, some (s, ps, n)) => .error (e, some { w with store := s, pools := ps, nextCid := n })
    | .ok (s, ps, n, res) => .ok ({ w with store := s, pools := ps, nextCid := n }, res)

/-- register a pipeline whose operators `first … first+n-1` were added to the store -/
def World.addPipe (w : World) (prio : Nat) (first n : Nat) (order : List Nat) : World :=
  { w with pipes := w.pipes.push { prio := prio, order := order, first := first, n := n } }

end Eudoxia
