import EudoxiaModel.Model.Container
import EudoxiaModel.Model.Sort
/-! `eudoxia/executor/resource_pool.py`: one function per phase of `ResourcePool.run_one_tick`. -/
namespace Eudoxia
open OpState

structure Pool where
  capC : Nat
  capR : Nat
  availC : Int
  availR : Int
  consumed : Int := 0
  active : List Ctr := []
  suspending : List Ctr := []
  suspended : List Ctr := []
  numCompleted : Nat := 0
  tickTimes : List Nat := []
  created : Nat := 0                                -- observer: containers this pool has created (one per accepted assignment)
  killSnap : List (Nat × Nat × Nat × Bool) := []   -- observer: (cid, usage, allocation, finished) of the running containers entering the OOM killer
  victims : List Nat := []                          -- observer: containers killed by it, in kill order
deriving Repr, Inhabited

def Pool.fresh (cpus ram : Nat) : Pool := { capC := cpus, capR := ram, availC := cpus, availR := ram }

/-- an `Assignment` object (its operators are already ASSIGNED) -/
structure Asg where
  ops : List Nat
  cpu : Nat
  ram : Nat
  prio : Nat := 3
  pool : Nat := 0
deriving Repr, Inhabited, DecidableEq

/-- an `ExecutionResult` -/
structure Res where
  cid : Nat
  ok : Bool
  ops : List Nat
  cpu : Nat
  ram : Nat
  prio : Nat
  pool : Nat
deriving Repr, Inhabited, DecidableEq

def memSum (l : List Ctr) : Int := (l.map (fun c => (c.mem : Int))).sum

def findCtr (l : List Ctr) (cid : Nat) : Option Ctr := l.find? (·.cid == cid)

/-- error of a pool tick; `some` = the (well-defined) state the Python code is left in -/
abbrev PErr := Err × Option (Store × Pool × Nat)

/-! ### phase 1: suspensions -/

/-- `verify_valid_suspend` -/
def verifySuspends (p : Pool) : List Nat → Except Err Unit
  | [] => .ok ()
  | cid :: rest => match findCtr p.active cid with
    | none => .error .noContainer
    | some c => if c.canSuspend then verifySuspends p rest else .error .cannotSuspend

def doSuspends (cfg : Cfg) (w : Store) (p : Pool) : List Nat → Except Err (Store × Pool)
  | [] => .ok (w, p)
  | cid :: rest => match findCtr p.active cid with
    | none => .error .noContainer
    | some c => match c.suspend cfg w with
      | .error e => .error e
      | .ok (w1, c1) =>
        doSuspends cfg w1 { p with suspending := p.suspending ++ [c1], active := p.active.filter (·.cid != cid) } rest

/-- `_reconcile_consumed_ram` -/
def Pool.reconcile (p : Pool) : Pool := { p with consumed := memSum p.active }

/-! ### phase 2: assignments -/

def cpuReq (as : List Asg) : Nat := (as.map (·.cpu)).sum
def ramReq (as : List Asg) : Nat := (as.map (·.ram)).sum

/-- `verify_valid_assignment` -/
def verifyAssignments (cfg : Cfg) (p : Pool) (as : List Asg) : Except Err Unit :=
  if (cpuReq as : Int) > p.availC then .error .overCpu
  else if !cfg.overcommit && (ramReq as : Int) > p.availR then .error .overRam
  else .ok ()

def opCountOk (cfg : Cfg) (a : Asg) : Bool :=
  if cfg.multiOp then a.ops.length ≥ 1 else a.ops.length == 1

def mkCtr (w : Store) (cid : Nat) (a : Asg) : Ctr :=
  { cid := cid, ops := a.ops, cpu := a.cpu, ram := a.ram, prio := a.prio, pool := a.pool, pos := mkPos w a.ops }

/-- create the containers; on a refused operator count the ones created before stay -/
def startAll (cfg : Cfg) (w : Store) (p : Pool) (nextCid : Nat) : List Asg → Except (Err × Pool × Nat) (Pool × Nat)
  | [] => .ok (p, nextCid)
  | a :: rest =>
    if !opCountOk cfg a then .error (.opCount, p, nextCid) else
    startAll cfg w { p with availC := p.availC - a.cpu, availR := p.availR - a.ram,
                            active := p.active ++ [mkCtr w nextCid a], created := p.created + 1 } (nextCid + 1) rest

/-! ### phase 3: suspending containers -/

/-- `suspend_container_tick` on every suspending container, in list order -/
def suspTickList (w : Store) : List Ctr → Except Err (Store × List Ctr)
  | [] => .ok (w, [])
  | c :: cs => match c.suspendTick w with
    | .error e => .error e
    | .ok (w1, c1) => match suspTickList w1 cs with
      | .error e => .error e
      | .ok (w2, cs2) => .ok (w2, c1 :: cs2)

def cpuSum (l : List Ctr) : Int := (l.map (fun c => (c.cpu : Int))).sum
def ramSum (l : List Ctr) : Int := (l.map (fun c => (c.ram : Int))).sum

/-- tick the suspending containers; those whose write-out is finished free their allocation and move to `suspended` -/
def suspTickAll (w : Store) (p : Pool) : Except Err (Store × Pool) :=
  match suspTickList w p.suspending with
  | .error e => .error e
  | .ok (w1, l) =>
    let done := l.filter (fun c => c.suspLeft == 0)
    .ok (w1, { p with availC := p.availC + cpuSum done, availR := p.availR + ramSum done,
                      suspending := l.filter (fun c => !(c.suspLeft == 0)),
                      suspended := p.suspended ++ done })

/-! ### phase 4: tick the active containers -/

def tickAll (cfg : Cfg) (w : Store) : List Ctr → Int → Except Err (Store × List Ctr × Int)
  | [], cons => .ok (w, [], cons)
  | c :: cs, cons => match c.tick cfg w cons with
    | .error e => .error e
    | .ok (w1, c1, cons1) => match tickAll cfg w1 cs cons1 with
      | .error e => .error e
      | .ok (w2, cs2, cons2) => .ok (w2, c1 :: cs2, cons2)

/-! ### phase 5: OOM killer -/

/-- step 1: every container over its own limit -/
def killIndividual (w : Store) : List Ctr → Int → Except Err (Store × List Ctr × Int)
  | [], cons => .ok (w, [], cons)
  | c :: cs, cons =>
    if c.mem > c.ram then
      match c.kill w cons with
      | .error e => .error e
      | .ok (w1, c1, cons1) => match killIndividual w1 cs cons1 with
        | .error e => .error e
        | .ok (w2, cs2, cons2) => .ok (w2, c1 :: cs2, cons2)
    else match killIndividual w cs cons with
      | .error e => .error e
      | .ok (w2, cs2, cons2) => .ok (w2, c :: cs2, cons2)

/-- score c1 ≥ score c2 where score = usage²/allocation (cross-multiplied) -/
def scoreGe (c1 c2 : Ctr) : Bool := c1.mem * c1.mem * c2.ram ≥ c2.mem * c2.mem * c1.ram

/-- stable descending sort by score (`scored.sort(key=lambda x: x[0], reverse=True)`) -/
def sortDesc (l : List Ctr) : List Ctr := SortP.sortDesc scoreGe l

def replaceCtr (l : List Ctr) (c : Ctr) : List Ctr := l.map (fun x => if x.cid == c.cid then c else x)

/-- step 2: kill in the given order while usage exceeds capacity -/
def killVictims (w : Store) (capR : Nat) (act : List Ctr) (cons : Int) : List Ctr → Except Err (Store × List Ctr × Int)
  | [] => .ok (w, act, cons)
  | v :: vs =>
    if cons ≤ capR then .ok (w, act, cons) else
    match v.kill w cons with
    | .error e => .error e
    | .ok (w1, v1, cons1) => killVictims w1 capR (replaceCtr act v1) cons1 vs

def oomCandidates (act : List Ctr) : List Ctr := act.filter (fun c => !c.completed && c.mem > 0)

def killSnapOf (act : List Ctr) : List (Nat × Nat × Nat × Bool) := act.map (fun c => (c.cid, c.mem, c.ram, c.completed))

def killedIn (act : List Ctr) (v : Ctr) : Bool := match findCtr act v.cid with | some c => c.err | none => false

/-- `_run_out_of_memory_killer` -/
def oomKiller (w : Store) (p : Pool) : Except Err (Store × Pool) :=
  let snap := killSnapOf p.active
  let v1 := (p.active.filter (fun c => c.mem > c.ram)).map (·.cid)
  match killIndividual w p.active p.consumed with
  | .error e => .error e
  | .ok (w1, act1, cons1) =>
    if cons1 ≤ p.capR then .ok (w1, { p with active := act1, consumed := cons1, killSnap := snap, victims := v1 }) else
    match killVictims w1 p.capR act1 cons1 (sortDesc (oomCandidates act1)) with
    | .error e => .error e
    | .ok (w2, act2, cons2) =>
      .ok (w2, { p with active := act2, consumed := cons2, killSnap := snap,
                        victims := v1 ++ ((sortDesc (oomCandidates act1)).filter (killedIn act2)).map (·.cid) })

/-! ### phase 6: collect finished containers -/

def mkRes (c : Ctr) : Res := { cid := c.cid, ok := !c.err, ops := c.ops, cpu := c.cpu, ram := c.ram, prio := c.prio, pool := c.pool }

def collect (p : Pool) : Pool × List Res :=
  let done := p.active.filter (·.completed)
  let rest := p.active.filter (!·.completed)
  let p1 := { p with availC := p.availC + cpuSum done, availR := p.availR + ramSum done,
                     active := rest,
                     numCompleted := p.numCompleted + (done.filter (!·.err)).length,
                     tickTimes := p.tickTimes ++ done.map (·.elapsed) }
  (if done.isEmpty then p1 else p1.reconcile, done.map mkRes)

/-! ### the whole tick -/

structure Cmds where
  susp : List Nat := []
  asgs : List Asg := []
deriving Repr, Inhabited

/-- phases 3–6 (errors here abort a real simulation) -/
def poolRun (cfg : Cfg) (w : Store) (p : Pool) : Except Err (Store × Pool × List Res) :=
  match suspTickAll w p with
  | .error e => .error e
  | .ok (w3, p3) =>
  match tickAll cfg w3 p3.active p3.consumed with
  | .error e => .error e
  | .ok (w4, act4, cons4) =>
  match oomKiller w4 { p3 with active := act4, consumed := cons4 } with
  | .error e => .error e
  | .ok (w5, p5) =>
    let (p6, res) := collect p5
    .ok (w5, p6, res)

/-- `ResourcePool.run_one_tick` -/
def poolTick (cfg : Cfg) (w : Store) (p : Pool) (nextCid : Nat) (cm : Cmds) : Except PErr (Store × Pool × Nat × List Res) :=
  -- 1. suspensions: verify all, then apply, then re-sum usage
  match (if cm.susp.isEmpty then .ok () else verifySuspends p cm.susp) with
  | .error e => .error (e, some (w, p, nextCid))
  | .ok () =>
  match (if cm.susp.isEmpty then .ok (w, p) else (doSuspends cfg w p cm.susp).map (fun (w1, p1) => (w1, p1.reconcile))) with
  | .error e => .error (e, none)
  | .ok (w1, p1) =>
  -- 2. assignments
  match (if cm.asgs.isEmpty then .ok () else verifyAssignments cfg p1 cm.asgs) with
  | .error e => .error (e, some (w1, p1, nextCid))
  | .ok () =>
  match startAll cfg w1 p1 nextCid cm.asgs with
  | .error (e, p2, n2) => .error (e, some (w1, p2, n2))
  | .ok (p2, n2) =>
  match poolRun cfg w1 p2 with
  | .error e => .error (e, none)
  | .ok (w6, p6, res) => .ok (w6, p6, n2, res)

end Eudoxia
