import EudoxiaModel.Model.Container
/-! The documented time and memory model of a container, as a *specification* that does not mention
    the tick generator: the list of per-tick memory demands and what follows from it (C05). -/
namespace Eudoxia

/-- demands of one segment given its tick counts -/
def segDemands (cfg : Cfg) (sg : Seg) (io cpu : Nat) : List Nat :=
  (List.range io).map (fun i => match sg.fixed with | some m => m | none => (i + 1) * cfg.g) ++
  List.replicate cpu sg.peak

def opDemands (cfg : Cfg) : List Seg → List (Nat × Nat) → List Nat
  | sg :: more, (io, c) :: ts => segDemands cfg sg io c ++ opDemands cfg more ts
  | _, _ => []

/-- flat list (operator index, demand) for the whole container, given the tick table of each operator -/
def ctrDemands (cfg : Cfg) (ops : List (List Seg)) (ticks : List (List (Nat × Nat))) : List (Nat × Nat) :=
  (List.range ops.length).flatMap (fun j => (opDemands cfg (ops.getD j []) (ticks.getD j [])).map (fun m => (j, m)))

structure SpecOut where
  mem : List Nat            -- memory after tick 1, 2, … while the container runs
  idx : List Nat            -- number of completed operators after each of those ticks
  endTick : Nat             -- tick in which the result is reported
  ok : Bool
  completedOps : Nat        -- operators completed when it ends
deriving Repr, Inhabited

/-- what a container alone in a pool does, according to the documented model -/
def specRunWith (cfg : Cfg) (ram : Nat) (ops : List (List Seg)) (ticks : List (List (Nat × Nat))) : SpecOut :=
  let d := ctrDemands cfg ops ticks
  let pre := d.takeWhile (fun x => x.2 ≤ ram)
  let doneAfter (k : Nat) : Nat :=   -- operators all of whose demands are among the first k
    ((List.range ops.length).filter (fun j => ((d.drop k).all (fun x => x.1 != j)) && (d.any (fun x => x.1 == j)))).length
  if pre.length == d.length then
    { mem := (pre.map (·.2)).dropLast, idx := (List.range (d.length - 1)).map (fun k => doneAfter (k + 1)),
      endTick := d.length, ok := true, completedOps := ops.length }
  else
    { mem := pre.map (·.2), idx := (List.range pre.length).map (fun k => doneAfter (k + 1)),
      endTick := pre.length + 1, ok := false, completedOps := (d.getD pre.length (0, 0)).1 }

def specTicks (cfg : Cfg) (cpu : Nat) (ops : List (List Seg)) : List (List (Nat × Nat)) :=
  ops.map (opTickTable cfg cpu)

def specRun (cfg : Cfg) (cpu ram : Nat) (ops : List (List Seg)) : SpecOut :=
  specRunWith cfg ram ops (specTicks cfg cpu ops)

end Eudoxia
