/-! Basic enumerations shared by the generated `Extracted.lean` and the hand-written model.
    Core Lean only. -/
namespace Eudoxia

/-- `eudoxia.workload.runtime_status.OperatorState` -/
inductive OpState | pending | assigned | running | suspending | completed | failed
deriving DecidableEq, Repr, Inhabited

def OpState.all : List OpState := [.pending, .assigned, .running, .suspending, .completed, .failed]

def OpState.idx : OpState → Nat
  | .pending => 0 | .assigned => 1 | .running => 2 | .suspending => 3 | .completed => 4 | .failed => 5

def OpState.letter : OpState → Char
  | .pending => 'P' | .assigned => 'A' | .running => 'R' | .suspending => 'S' | .completed => 'C' | .failed => 'F'

def OpState.ofLetter : Char → Option OpState
  | 'P' => some .pending | 'A' => some .assigned | 'R' => some .running
  | 'S' => some .suspending | 'C' => some .completed | 'F' => some .failed | _ => none

/-- the seven CPU scaling laws of `Segment.SCALING_FUNCS` -/
inductive Law | const | log | sqrt | linear3 | linear7 | squared | exp
deriving DecidableEq, Repr, Inhabited

def Law.all : List Law := [.const, .log, .sqrt, .linear3, .linear7, .squared, .exp]

def Law.name : Law → String
  | .const => "const" | .log => "log" | .sqrt => "sqrt" | .linear3 => "linear3"
  | .linear7 => "linear7" | .squared => "squared" | .exp => "exp"

def Law.ofName (s : String) : Option Law := Law.all.find? (fun l => l.name == s)

/-- every assertion / exception of the Python code that the model can raise -/
inductive Err
  | badTransition | deps | overCpu | overRam | cannotSuspend | noContainer | opCount
  | emptyAssign | nonPos | stopIter | unknownPool | schedAssert
deriving DecidableEq, Repr, Inhabited

def Err.name : Err → String
  | .badTransition => "badTransition" | .deps => "deps" | .overCpu => "overCpu" | .overRam => "overRam"
  | .cannotSuspend => "cannotSuspend" | .noContainer => "noContainer" | .opCount => "opCount"
  | .emptyAssign => "emptyAssign" | .nonPos => "nonPos" | .stopIter => "stopIter"
  | .unknownPool => "unknownPool" | .schedAssert => "schedAssert"

end Eudoxia
