import EudoxiaModel.Model.Exec
/-! Decidable forms of the hypotheses the whole-run theorems make about the registered workload; the driver evaluates them on every world the
    correspondence check builds (`hyp` command), so that the theorems' hypotheses are checked against what the generators and the trace reader produce. -/
namespace Eudoxia
open OpState

def World.orderOf (w : World) (pid : Nat) : List Nat := (w.pipes.getD pid default).order

/-- each pipeline lists existing operators, once -/
def World.wfpB (w : World) : Bool :=
  (List.range w.pipes.size).all (fun pid => decide (w.orderOf pid).Nodup && (w.orderOf pid).all (fun r => decide (r < w.store.st.size)))

/-- every listed operator has a segment -/
def World.segsB (w : World) : Bool :=
  (List.range w.pipes.size).all (fun pid => (w.orderOf pid).all (fun r => !(w.store.segsOf r).isEmpty))

/-- every listed operator knows its pipeline -/
def World.pidB (w : World) : Bool :=
  (List.range w.pipes.size).all (fun pid => (w.orderOf pid).all (fun r => w.store.pidOf r == pid))

/-- the listing is topological: every parent of an operator comes earlier in the listing -/
def topoListB (parentsOf : Nat → List Nat) : List Nat → List Nat → Bool
  | _, [] => true
  | pre, r :: post => (parentsOf r).all (fun q => pre.contains q) && topoListB parentsOf (pre ++ [r]) post

def World.topoB (w : World) : Bool :=
  (List.range w.pipes.size).all (fun pid => topoListB w.store.parentsOf [] (w.orderOf pid))

/-- the pipelines `F` are non-empty and untouched -/
def World.futureB (w : World) (F : List Nat) : Bool :=
  decide F.Nodup && F.all (fun pid => !(w.orderOf pid).isEmpty && (w.orderOf pid).all (fun o => w.store.stOf o == pending))

end Eudoxia
