import EudoxiaModel.Model.Basic
/-! The operator table: `PipelineRuntimeStatus` of all pipelines, flattened.

Operators are numbered globally in creation order; a pipeline is a contiguous block.
`st` holds `operator_states`, `cnt` holds `state_counts` (index `pid * 6 + state.idx`).
Operator states change only through `Store.transition`. -/
namespace Eudoxia
open Extracted OpState

structure OpInfo where
  pid : Nat
  parents : List Nat      -- global operator ids
  segs : List Seg
deriving Repr, Inhabited

structure Store where
  ops : Array OpInfo := #[]
  st : Array OpState := #[]
  cnt : Array Nat := #[]
deriving Repr, Inhabited

def Store.stOf (s : Store) (r : Nat) : OpState := s.st.getD r pending
def Store.parentsOf (s : Store) (r : Nat) : List Nat := (s.ops.getD r default).parents
def Store.pidOf (s : Store) (r : Nat) : Nat := (s.ops.getD r default).pid
def Store.segsOf (s : Store) (r : Nat) : List Seg := (s.ops.getD r default).segs
def Store.count (s : Store) (pid : Nat) (x : OpState) : Nat := s.cnt.getD (pid * 6 + x.idx) 0

/-- `PipelineRuntimeStatus.check_transition` -/
def Store.check (s : Store) (r : Nat) (t : OpState) : Except Err Unit :=
  if !(decide (r < s.st.size)) then .error .badTransition   -- no such operator (KeyError)
  else if !(validNext (s.stOf r)).contains t then .error .badTransition
  else if t == running && !(s.parentsOf r).all (fun p => s.stOf p == completed) then .error .deps
  else .ok ()

/-- the mutation part of `PipelineRuntimeStatus.transition` -/
def Store.setSt (s : Store) (r : Nat) (t : OpState) : Store :=
  let old := s.stOf r
  let pid := s.pidOf r
  { s with st := s.st.setIfInBounds r t,
           cnt := (s.cnt.modify (pid * 6 + old.idx) (· - 1)).modify (pid * 6 + t.idx) (· + 1) }

/-- `PipelineRuntimeStatus.transition`: assert, then mutate -/
def Store.transition (s : Store) (r : Nat) (t : OpState) : Except Err Store :=
  match s.check r t with
  | .error e => .error e
  | .ok () => .ok (s.setSt r t)

/-- transition a list of operators in order (stops at the first refusal) -/
def Store.transAll (s : Store) (t : OpState) : List Nat → Except Err Store
  | [] => .ok s
  | r :: rs => match s.transition r t with
    | .error e => .error e
    | .ok s' => s'.transAll t rs

/-- add a pipeline's operators (all PENDING) -/
def Store.addOp (s : Store) (pid : Nat) (parents : List Nat) (segs : List Seg) : Store :=
  let cnt := if s.cnt.size < (pid + 1) * 6 then s.cnt ++ Array.replicate ((pid + 1) * 6 - s.cnt.size) 0 else s.cnt
  { ops := s.ops.push { pid := pid, parents := parents, segs := segs },
    st := s.st.push pending,
    cnt := cnt.modify (pid * 6 + pending.idx) (· + 1) }

end Eudoxia
