import EudoxiaModel.Model.Types
/-! `csv_io.py` at the level of parsed rows: `WorkloadTraceGenerator._pipeline_to_rows` / `CSVWorkloadWriter`
    and `CSVWorkloadReader.batch_by_pipeline` / `create_pipeline_from_batch`.
    Numeric cells are opaque values `V` carried unchanged (their text form is CPython's `repr`, modelled not verified);
    pipeline and operator identifiers are numbers (the harness numbers distinct strings by first appearance). -/
namespace Eudoxia.Csv

abbrev V := String

structure COp where
  parents : List Nat        -- indices of earlier operators of the pipeline
  base : V
  law : String
  mem : Option V            -- `some "0"` (explicit zero) is different from `none` (unset)
  read : V
deriving Repr, Inhabited, DecidableEq

structure CPipe where
  prio : String
  arrival : V
  ops : List COp
deriving Repr, Inhabited, DecidableEq

structure Row where
  pid : Nat
  arrival : Option V
  prio : String             -- "" on all but a pipeline's first row
  opId : Nat
  parents : List Nat        -- operator ids
  base : V
  law : String
  mem : Option V
  read : V
deriving Repr, Inhabited, DecidableEq

inductive CsvErr
  | badPriority | missingArrival | extraPriority | extraArrival | unknownParent | unknownLaw
deriving Repr, DecidableEq, Inhabited

def validPrio (s : String) : Bool := s == "QUERY" || s == "INTERACTIVE" || s == "BATCH_PIPELINE"
def validLaw (s : String) : Bool := (Law.ofName s).isSome

/-! ### writer -/

/-- rows of pipeline number `k` (operators numbered from 1 in creation order, parents as back-references) -/
def opRows (k : Nat) (p : CPipe) : Nat → List COp → List Row
  | _, [] => []
  | i, o :: os =>
    { pid := k, arrival := if i == 0 then some p.arrival else none, prio := if i == 0 then p.prio else "",
      opId := i + 1, parents := o.parents.map (· + 1), base := o.base, law := o.law, mem := o.mem, read := o.read }
    :: opRows k p (i + 1) os

def pipeRows (k : Nat) (p : CPipe) : List Row := opRows k p 0 p.ops

/-- all rows of a workload: pipelines are numbered 1, 2, … in order -/
def toRowsFrom : Nat → List CPipe → List Row
  | _, [] => []
  | k, p :: ps => pipeRows k p ++ toRowsFrom (k + 1) ps

def toRows (ps : List CPipe) : List Row := toRowsFrom 1 ps

/-! ### reader -/

/-- `batch_by_pipeline`: consecutive rows with equal pipeline id -/
def groupRows : List Row → List (List Row)
  | [] => []
  | r :: rs => (r :: rs.takeWhile (fun x => x.pid == r.pid)) :: groupRows (rs.dropWhile (fun x => x.pid == r.pid))
termination_by l => l.length
decreasing_by
  have := (List.dropWhile_sublist (fun x => x.pid == r.pid) (l := rs)).length_le
  simp only [List.length_cons]
  omega

/-- resolve a parent id in the table of operators created so far (a later duplicate id shadows an earlier one) -/
def lookup (tbl : List (Nat × Nat)) (id : Nat) : Option Nat :=
  match tbl.reverse.find? (fun e => e.1 == id) with
  | some e => some e.2
  | none => none

def resolveAll (tbl : List (Nat × Nat)) : List Nat → Option (List Nat)
  | [] => some []
  | x :: xs => match lookup tbl x, resolveAll tbl xs with
    | some i, some is => some (i :: is)
    | _, _ => none

/-- build the operators of one batch -/
def buildOps (tbl : List (Nat × Nat)) (n : Nat) : List Row → Except CsvErr (List COp)
  | [] => .ok []
  | r :: rs =>
    match resolveAll tbl r.parents with
    | none => .error .unknownParent
    | some ps =>
      if !validLaw r.law then .error .unknownLaw else
      match buildOps (tbl ++ [(r.opId, n)]) (n + 1) rs with
      | .error e => .error e
      | .ok os => .ok ({ parents := ps, base := r.base, law := r.law, mem := r.mem, read := r.read } :: os)

def laterRowsOk : List Row → Except CsvErr Unit
  | [] => .ok ()
  | r :: rs => if r.prio != "" then .error .extraPriority
               else if r.arrival.isSome then .error .extraArrival
               else laterRowsOk rs

/-- `create_pipeline_from_batch` -/
def mkPipe : List Row → Except CsvErr CPipe
  | [] => .error .badPriority
  | r :: rs =>
    if !validPrio r.prio then .error .badPriority else
    match r.arrival with
    | none => .error .missingArrival
    | some a =>
      match laterRowsOk rs with
      | .error e => .error e
      | .ok () =>
        match buildOps [] 0 (r :: rs) with
        | .error e => .error e
        | .ok os => .ok { prio := r.prio, arrival := a, ops := os }

def mapM' : List (List Row) → Except CsvErr (List CPipe)
  | [] => .ok []
  | g :: gs => match mkPipe g with
    | .error e => .error e
    | .ok p => match mapM' gs with
      | .error e => .error e
      | .ok ps => .ok (p :: ps)

def fromRows (rows : List Row) : Except CsvErr (List CPipe) := mapM' (groupRows rows)

/-- well-formed pipeline: a valid priority, at least one operator, known laws, parents are earlier operators -/
def COpsWF : Nat → List COp → Prop
  | _, [] => True
  | i, o :: os => (∀ q ∈ o.parents, q < i) ∧ validLaw o.law = true ∧ COpsWF (i + 1) os

def CPipe.WF (p : CPipe) : Prop := validPrio p.prio = true ∧ p.ops ≠ [] ∧ COpsWF 0 p.ops

end Eudoxia.Csv
