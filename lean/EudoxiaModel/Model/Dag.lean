/-! `eudoxia/utils/dag.py`: DAG as parent lists (node `i` may only name earlier nodes), the
    children lists built by `add_node` (one entry per edge) and `DAGIterator`. Core Lean only. -/
namespace Eudoxia.Dag

abbrev Dag := List (List Nat)

def parentsOf (d : Dag) (i : Nat) : List Nat := d.getD i []

structure WF (d : Dag) : Prop where
  lt : ∀ i p, p ∈ parentsOf d i → p < i
  nodup : ∀ i, (parentsOf d i).Nodup

/-- children of `a` in insertion order; one entry per edge (mirrors `parent.children.append`) -/
def children (d : Dag) (a : Nat) : List Nat :=
  (List.range d.length).flatMap (fun i => List.replicate ((parentsOf d i).count a) i)

def roots (d : Dag) : List Nat :=
  (List.range d.length).filter (fun i => (parentsOf d i).isEmpty)

structure It where
  queue : List Nat
  returned : List Nat
deriving Repr

def ready (d : Dag) (ret : List Nat) (x : Nat) : Bool := (parentsOf d x).all (ret.contains ·)

/-- `DAGIterator.__next__` -/
def stepIt (d : Dag) (s : It) : Option (Nat × It) :=
  match s.queue with
  | [] => none
  | c :: q =>
    let ret := s.returned ++ [c]
    let add := (children d c).filter (fun ch => !ret.contains ch && ready d ret ch)
    some (c, { queue := q ++ add, returned := ret })

def runIt (d : Dag) : Nat → It → It
  | 0, s => s
  | fuel+1, s => match stepIt d s with
    | none => s
    | some (_, s') => runIt d fuel s'

/-- `list(dag)` -/
def iterOrder (d : Dag) : List Nat := (runIt d (d.length + 1) { queue := roots d, returned := [] }).returned

/-- a list is a topological order of `d` -/
def Topo (d : Dag) (l : List Nat) : Prop :=
  ∀ l1 x l2, l = l1 ++ x :: l2 → ∀ p ∈ parentsOf d x, p ∈ l1

/-- executable form: permutation of `0..n-1` with parents first -/
def topoPermB (d : Dag) (l : List Nat) : Bool :=
  l.length == d.length && (List.range d.length).all (fun i => l.count i == 1) &&
  (List.range l.length).all (fun k => (parentsOf d (l.getD k 0)).all (fun p => (l.take k).contains p))

end Eudoxia.Dag
