import EudoxiaModel.Extracted
/-! Configuration, segments and the documented time model (exact integer arithmetic).

Quantities: memory in *quanta* (`q` quanta per GB), time in ticks (`tps` ticks per second);
`g` = quanta scanned per tick of I/O, so `g * tps = diskScanGbSec * q`.  -/
namespace Eudoxia
open Extracted

structure Cfg where
  tps : Nat
  q : Nat
  g : Nat
  multiOp : Bool := true
  overcommit : Bool := false
deriving Repr, Inhabited, DecidableEq

def Cfg.WF (c : Cfg) : Prop := 0 < c.tps ∧ 0 < c.q ∧ 0 < c.g ∧ c.g * c.tps = diskScanGbSec * c.q

instance (c : Cfg) : Decidable c.WF := by unfold Cfg.WF; exact inferInstance

/-- one segment: CPU baseline as the rational `baseNum/baseDen` seconds, law, optional fixed memory, read size (quanta) -/
structure Seg where
  baseNum : Nat
  baseDen : Nat := 1
  law : Law := .const
  fixed : Option Nat := none
  read : Nat := 0
deriving Repr, Inhabited, DecidableEq

/-- I/O ticks: ⌊read_gb / 20 · tps⌋ = ⌊read / g⌋ -/
def Seg.ioTicks (cfg : Cfg) (s : Seg) : Nat := s.read / cfg.g

/-- the divisor `s(law, cpus)` of the rational laws -/
def Law.divisor (l : Law) (cpus : Nat) : Nat :=
  match l with
  | .const => 1
  | .linear3 => if cpus < linear3Cut then cpus else linear3Cut
  | .linear7 => if cpus < linear7Cut then cpus else linear7Cut
  | .squared => cpus ^ squaredExp
  | .exp => if cpus < expCut then expBase ^ cpus else expCap
  | .sqrt => 1   -- not rational: handled separately
  | .log => 1    -- not rational: handled separately

/-- CPU ticks ⌊cpu_time(cpus) · tps⌋.  `none` = the log law at a point where the rational
enclosure of `ln cpus` does not decide the floor (flagged as ambiguous by the driver). -/
def Seg.cpuTicks? (cfg : Cfg) (cpus : Nat) (s : Seg) : Option Nat :=
  let n := s.baseNum * cfg.tps      -- base·tps = n / d
  let d := s.baseDen
  match s.law with
  | .sqrt =>
    -- ⌊(n/d)/√c⌋ = max k with k²·c·d² ≤ n²
    some (Nat.sqrt (n * n / (cpus * d * d)))
  | .log =>
    match lnTable[cpus - 1]? with
    | none => none
    | some (lo, hi) =>
      -- (n/d) / (ln c + 1), with ln c ∈ [lo, hi] / lnDen
      let a := n * lnDen / (d * (hi + lnDen))
      let b := n * lnDen / (d * (lo + lnDen))
      if a == b then some a else none
  | l => some (n / (d * l.divisor cpus))

def Seg.cpuTicks (cfg : Cfg) (cpus : Nat) (s : Seg) : Nat := (s.cpuTicks? cfg cpus).getD 0

def Seg.total (cfg : Cfg) (cpus : Nat) (s : Seg) : Nat := s.ioTicks cfg + s.cpuTicks cfg cpus

def Seg.peak (s : Seg) : Nat := match s.fixed with | some m => m | none => s.read

/-- memory in iteration `i` (0-based) of a segment with `io` I/O ticks -/
def Seg.memAt (cfg : Cfg) (s : Seg) (i : Nat) : Nat :=
  if i < s.ioTicks cfg then (match s.fixed with | some m => m | none => (i + 1) * cfg.g) else s.peak

end Eudoxia
