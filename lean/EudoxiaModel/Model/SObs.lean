import EudoxiaModel.Model.Obs
/-! Closed-loop (scheduler + executor) traces and the decidable checkers of the scheduler properties
    C08, C12, C16, C17, C18 evaluated on them.  Core Lean only. -/
namespace Eudoxia
open OpState Extracted

structure JobObs where
  ops : List Nat
  prio : Nat
  retry : Option (Nat × Nat × Bool × Nat)     -- old cpu, old ram, failed?, container
deriving Repr, Inhabited

structure QObs where
  queue : List Nat := []                  -- naive / template: waiting pipelines
  opq : List Nat := []                    -- overbook: queued operators
  fails : List (Nat × Nat) := []          -- overbook: failed containers per pipeline
  qry : List JobObs := []
  inter : List JobObs := []
  batch : List JobObs := []
  susp : List Nat := []
deriving Repr, Inhabited

structure SRound where
  newP : List Nat
  sus : List (Nat × Nat)
  asgs : List Asg
  afterSched : List OpState
  q : QObs
  err : Option String            -- error kind, if the round raised
  phase : String                 -- "" | "sched" | "exec"
  post : Option WorldObs
  res : List ResObs
deriving Repr, Inhabited

structure STrace where
  cfg : Cfg
  algo : String
  ops : OpsObs
  prios : List Nat               -- priority of every pipeline
  init : WorldObs
  rounds : List SRound
deriving Repr, Inhabited

structure SChk where
  prev : WorldObs                     -- world before this round's scheduler phase
  prevRes : List ResObs := []
  firstAssigned : List Nat := []      -- pipelines in the order of their first container
  arrived : List Nat := []            -- pipelines in arrival order
  failCount : List (Nat × Nat) := []  -- failed containers per pipeline
  abandoned : List Nat := []          -- operators whose retry was abandoned (priority-pool)
  pendingRetry : List (List Nat) := []-- unfinished operator sets of failed containers awaiting their retry
  justSuspended : List (List Nat) := []-- unfinished operators of containers whose suspension ended in the previous executor tick
  fails : List String := []
  k : Nat := 0

def SChk.fail (s : SChk) (c : String) : SChk := { s with fails := s.fails ++ [s!"{c}@{s.k}"] }
def SChk.req (s : SChk) (b : Bool) (c : String) : SChk := if b then s else s.fail c

def pidOfOp (t : STrace) (r : Nat) : Nat := t.ops.pid.getD r 0
def prioOfOp (t : STrace) (r : Nat) : Nat := t.prios.getD (pidOfOp t r) 0
def readyB (t : STrace) (st : List OpState) (r : Nat) : Bool := (t.ops.parents.getD r []).all (fun p => stAt st p == completed)
def assignableB (s : OpState) : Bool := assignable.contains s

def getFailCount (f : List (Nat × Nat)) (pid : Nat) : Nat := match f.find? (fun x => x.1 == pid) with | some x => x.2 | none => 0
def bumpFail (f : List (Nat × Nat)) (pid : Nat) : List (Nat × Nat) :=
  if f.any (fun x => x.1 == pid) then f.map (fun x => if x.1 == pid then (x.1, x.2 + 1) else x) else f ++ [(pid, 1)]

/-- the scheduler's snapshot of a pool after this round's assignments -/
def snapAfter (pre : WorldObs) (asgs : List Asg) (i : Nat) : Int × Int :=
  let p := pre.pools.getD i default
  (p.ac - ((asgs.filter (fun a => a.pool == i)).map (fun a => (a.cpu : Int))).sum,
   p.ar - ((asgs.filter (fun a => a.pool == i)).map (fun a => (a.ram : Int))).sum)

def allAssigned (asgs : List Asg) : List Nat := asgs.flatMap (fun a => a.ops)

/-- operators that are pending (not failed), ready, of an arrived pipeline, after the scheduler phase -/
def waitingReady (t : STrace) (s : SChk) (r : SRound) : List Nat :=
  (List.range r.afterSched.length).filter (fun o =>
    stAt r.afterSched o == pending && readyB t r.afterSched o && (s.arrived ++ r.newP).contains (pidOfOp t o))

/-! ### admissibility (C08): the decision must not make the executor raise, and the scheduler must not raise -/
def chkC08 (_t : STrace) (s : SChk) (r : SRound) : SChk :=
  s.req r.err.isNone ("raised-" ++ r.phase ++ "-" ++ r.err.getD "")

/-! ### C17 naive / template -/
def chkC17 (t : STrace) (s : SChk) (r : SRound) : SChk :=
  let single := t.algo == "template" || !t.cfg.multiOp
  let s1 := s.req r.sus.isEmpty "never-suspends"
  let s2 := s1.req ((List.range s.prev.pools.length).all (fun i => decide ((r.asgs.filter (fun a => a.pool == i)).length ≤ 1))) "one-container-per-pool"
  let s3 := s2.req (r.asgs.all (fun a => let p := s.prev.pools.getD a.pool default; (a.cpu : Int) == p.ac && (a.ram : Int) == p.ar)) "all-free-resources"
  let s4 := s3.req (r.asgs.all (fun a => a.ops.all (fun o =>
      !((List.range s.prev.st.length).any (fun x => pidOfOp t x == pidOfOp t o && stAt s.prev.st x == failed))))) "no-retry-after-failure"
  let s5 := if single then s4.req (r.asgs.all (fun a => a.ops.length == 1 &&
      a.ops.all (fun o => readyB t s.prev.st o && assignableB (stAt s.prev.st o)))) "single-ready-operator" else s4
  s5

/-! ### C18 overbook -/
def chkC18 (t : STrace) (s : SChk) (r : SRound) : SChk :=
  let s1 := s.req r.sus.isEmpty "never-suspends"
  let s2 := s1.req (r.asgs.all (fun a => a.ops.length == 1 && a.cpu == 1 && a.ram == (s.prev.pools.getD a.pool default).capr &&
      a.ops.all (fun o => readyB t s.prev.st o && assignableB (stAt s.prev.st o)))) "one-ready-op-one-cpu-full-ram"
  let s3 := match r.post with
    | some w => s2.req (w.pools.all (fun p => decide (p.A.length + p.S.length ≤ p.capc))) "containers-bounded-by-cpus"
    | none => s2
  let s4 := s3.req (r.asgs.all (fun a => a.ops.all (fun o => decide (getFailCount s.failCount (pidOfOp t o) < maxFailures)))) "abandoned-after-max-failures"
  -- after a triggered round no ready assignable operator of a live pipeline waits while a pool has a free CPU
  let triggered := !r.newP.isEmpty || !s.prevRes.isEmpty
  let free := (List.range s.prev.pools.length).any (fun i => decide ((snapAfter s.prev r.asgs i).1 ≥ 1))
  let waiting := (List.range r.afterSched.length).filter (fun o =>
    assignableB (stAt r.afterSched o) && readyB t r.afterSched o && (s.arrived ++ r.newP).contains (pidOfOp t o) &&
    decide (getFailCount s.failCount (pidOfOp t o) < maxFailures))
  if triggered && r.err.isNone then s4.req (!free || waiting.isEmpty) "cpu-bound-work-conserving" else s4

/-! ### C16 priority-pool -/
def chkC16 (t : STrace) (s : SChk) (r : SRound) : SChk :=
  let s1 := s.req r.sus.isEmpty "never-suspends"
  let s2 := s1.req (r.asgs.all (fun a => a.ops.all (fun o => prioOfOp t o == a.prio) &&
      (if a.prio == prioBatch then a.pool == 1 else a.pool == 0))) "class-on-its-pool"
  -- after a failure only the unfinished operators of the failed container are retried, together
  let s3 := s2.req (r.asgs.all (fun a => s.pendingRetry.all (fun u => !(a.ops.any (fun o => u.contains o)) || (a.ops == u)))) "retry-exactly-the-unfinished-together"
  s3.req (r.asgs.all (fun a => a.ops.all (fun o => !s.abandoned.contains o))) "abandoned-retry-never-assigned"

/-! ### C12 priority (and the shared pool of priority-pool) -/
def poolsFor (t : STrace) (npools : Nat) (prio : Nat) : List Nat :=
  if t.algo == "priority-pool" then (if prio == prioBatch then [1] else [0]) else List.range npools

def chkC12 (t : STrace) (s : SChk) (r : SRound) : SChk :=
  if r.err.isSome then s else
  let npools := s.prev.pools.length
  let waiting := waitingReady t s r
  -- (1) strict priority order: lower-priority work is assigned only if no ready pending operator of a higher class waits
  --     (on pools both classes may use)
  let s1 := s.req (r.asgs.all (fun a => waiting.all (fun o =>
      !(decide (prioOfOp t o < a.prio) && (poolsFor t npools (prioOfOp t o)).contains a.pool)))) "priority-order"
  -- (3) a ready pending operator waits only if every pool it may use is out of free CPU or RAM
  let s2 := s1.req (waiting.all (fun o => (poolsFor t npools (prioOfOp t o)).all (fun i =>
      let sn := snapAfter s.prev r.asgs i; decide (sn.1 ≤ 0) || decide (sn.2 ≤ 0)))) "work-conserving"
  -- (4) preemption rules
  let s3 := if t.algo == "priority-pool" then s2.req r.sus.isEmpty "never-suspends" else
    (s2.req (r.sus.all (fun x => match findA (s.prev.pools.getD x.1 default) x.2 with
        | some c => c.canSuspend && (c.ops.all (fun o => prioOfOp t o != prioQuery))
        | none => false)) "suspends-only-suspendable-non-query").req
      (decide (r.sus.length ≤ r.q.qry.length) && nodupB (r.sus.map (fun x => x.2))) "at-most-one-per-waiting-query-job"
  -- (5) work whose suspension ended is offered again: queued or assigned in this round
  let queued := (r.q.qry ++ r.q.inter ++ r.q.batch).flatMap (fun j => j.ops)
  let s4 := s3.req (s.justSuspended.all (fun u => u.all (fun o => queued.contains o || (allAssigned r.asgs).contains o))) "suspended-work-offered-again"
  s4

/-- first containers in arrival order (C12 within a class, C17 overall) -/
def chkFifo (t : STrace) (which : String) (s : SChk) (r : SRound) : SChk :=
  -- pipelines receiving their first container in this round, in decision order
  let firsts := (r.asgs.map (fun a => pidOfOp t (a.ops.headD 0))).foldl (fun acc p => if acc.contains p || s.firstAssigned.contains p then acc else acc ++ [p]) []
  let ok := firsts.all (fun p =>
    -- no earlier-arrived pipeline (of the same class, for C12) is still without a container
    (s.arrived ++ r.newP).all (fun p' =>
      let before := ((s.arrived ++ r.newP).takeWhile (fun x => x != p)).contains p'
      !before || which == "C12" && t.prios.getD p' 0 != t.prios.getD p 0 ||
      s.firstAssigned.contains p' || (firsts.takeWhile (fun x => x != p)).contains p'))
  s.req ok "first-containers-in-arrival-order"

def unfinishedOf (w : List OpState) (ops : List Nat) : List Nat := ops.filter (fun o => stAt w o != completed)

/-- bookkeeping after a round -/
def advanceS (t : STrace) (s : SChk) (r : SRound) : SChk :=
  let firsts := (r.asgs.map (fun a => pidOfOp t (a.ops.headD 0))).foldl (fun acc p => if acc.contains p || s.firstAssigned.contains p then acc else acc ++ [p]) []
  let assigned := allAssigned r.asgs
  let pend := s.pendingRetry.filter (fun u => !(u.any (fun o => assigned.contains o)))
  match r.post with
  | none => { s with arrived := s.arrived ++ r.newP, firstAssigned := s.firstAssigned ++ firsts, prevRes := [], pendingRetry := pend }
  | some w =>
    let failed := r.res.filter (fun x => !x.ok)
    let fc := failed.foldl (fun f x => bumpFail f (pidOfOp t (x.ops.headD 0))) s.failCount
    let newRetry := failed.map (fun x => unfinishedOf w.st x.ops)
    let newAband := (failed.filter (fun x =>
        let p := w.pools.getD x.pool default
        decide (2 * (2 * x.cpu) ≥ p.capc) || decide (2 * (2 * x.ram) ≥ p.capr))).flatMap (fun x => unfinishedOf w.st x.ops)
    let ended := (List.range w.pools.length).flatMap (fun i =>
        ((s.prev.pools.getD i default).S.filter (fun c => (w.pools.getD i default).D.contains c.cid) ).map (fun c => c.ops.drop c.idx) ++
        ((s.prev.pools.getD i default).A.filter (fun c => (w.pools.getD i default).D.contains c.cid)).map (fun c => c.ops.drop c.idx))
    { s with prev := w, prevRes := r.res, arrived := s.arrived ++ r.newP, firstAssigned := s.firstAssigned ++ firsts,
             failCount := fc, pendingRetry := pend ++ newRetry,
             abandoned := if t.algo == "priority-pool" then s.abandoned ++ newAband else s.abandoned,
             justSuspended := ended }

def checkSRound (t : STrace) (which : String) (s : SChk) (r : SRound) : SChk :=
  let s : SChk := { s with k := s.k + 1 }
  let s1 : SChk :=
    if which == "C08" then chkC08 t s r
    else if which == "C17" then chkFifo t which (chkC17 t s r) r
    else if which == "C18" then chkC18 t s r
    else if which == "C16" then chkC16 t s r
    else if which == "C12" then chkFifo t which (chkC12 t s r) r
    else s
  advanceS t s1 r

def checkSTrace (which : String) (t : STrace) : List String :=
  (t.rounds.foldl (checkSRound t which) { prev := t.init }).fails

end Eudoxia
