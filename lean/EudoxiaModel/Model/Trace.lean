import EudoxiaModel.Model.Sort
/-! `WorkloadTrace` (trace replay) and the trace tools `snap` / `jitter`, over exact rationals.
    An arrival time is the fraction `n/d` seconds (the decimal written in the file). Core Lean only. -/
namespace Eudoxia.Trace

/-- first tick whose start `k/tps` is at or after `n/d` seconds: ⌈n·tps/d⌉ -/
def deliverTick (n d tps : Nat) : Nat := (n * tps + d - 1) / d

/-- one `run_one_tick` of the replay cursor over the remaining delivery ticks (file order) -/
def replayStep (rem : List Nat) (cur : Nat) : List Nat × List Nat :=
  (rem.takeWhile (· ≤ cur), rem.dropWhile (· ≤ cur))

/-- what `n` consecutive calls of `run_one_tick` return, starting at tick `cur` -/
def replay : List Nat → Nat → Nat → List (List Nat)
  | _, _, 0 => []
  | rem, cur, n+1 => let (out, rem') := replayStep rem cur; out :: replay rem' (cur + 1) n

/-- the same on indexed pipelines: returns for every tick the indices (file order) delivered in it -/
def replayIdx (ticks : List Nat) (nticks : Nat) : List (List Nat) :=
  let rec go (rem : List (Nat × Nat)) (cur : Nat) : Nat → List (List Nat)
    | 0 => []
    | n+1 => (rem.takeWhile (fun x => x.2 ≤ cur)).map (·.1) :: go (rem.dropWhile (fun x => x.2 ≤ cur)) (cur + 1) n
  go ((List.range ticks.length).zip ticks) 0 nticks

/-- `tools snap`: ⌊a·tps⌋/tps as the numerator over `tps` -/
def snapNum (n d tps : Nat) : Nat := n * tps / d

/-- stable ascending sort (`list.sort(key=…)`): insertion after all elements with key ≤ -/
def sortByKey {α : Type} (le : α → α → Bool) (l : List α) : List α := SortP.sortDesc le l

/-- `tools jitter`, given the draws: new arrival = old + draw (fractions over a common denominator `d`),
    pipelines (index, new numerator) in stable ascending order of the new arrival -/
def jitter (arr draws : List Nat) : List (Nat × Nat) :=
  sortByKey (fun a b => decide (a.2 ≤ b.2)) ((List.range arr.length).zip (List.zipWith (· + ·) arr draws))

/-- `tools sensitivity-sample`: the seed of workload `i` -/
def sampleSeed (start i : Nat) : Nat := start + i

end Eudoxia.Trace
