/-! Stable descending insertion sort (`list.sort(key=…, reverse=True)`), generic in the comparison. -/
namespace Eudoxia.SortP

variable {α : Type} (ge : α → α → Bool)

def insertDesc (x : α) : List α → List α
  | [] => [x]
  | y :: ys => if ge y x then y :: insertDesc x ys else x :: y :: ys

def sortDesc (l : List α) : List α := l.foldl (fun acc x => insertDesc ge x acc) []

end Eudoxia.SortP
