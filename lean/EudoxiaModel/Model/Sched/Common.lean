import EudoxiaModel.Model.Exec
/-! What the shipped schedulers share: `get_ops`, pipeline status queries, Assignment construction, jobs. -/
namespace Eudoxia
open OpState Extracted

/-- `PipelineRuntimeStatus.get_ops` (operators in the order of `operator_states`) -/
def World.getOps (w : World) (pid : Nat) (states : List OpState) (parentsComplete : Bool) : List Nat :=
  (w.pipes.getD pid default).order.filter (fun r =>
    states.contains (w.store.stOf r) &&
    (!parentsComplete || (w.store.parentsOf r).all (fun x => w.store.stOf x == completed)))

/-- `is_pipeline_successful` -/
def World.successful (w : World) (pid : Nat) : Bool :=
  w.store.count pid completed == (w.pipes.getD pid default).order.length

def World.hasFailures (w : World) (pid : Nat) : Bool := w.store.count pid failed > 0

def World.prioOf (w : World) (pid : Nat) : Nat := (w.pipes.getD pid default).prio

/-- error of a scheduler round: the kind and the world at that moment -/
abbrev SErr := Err × World

/-- `Assignment(ops=…, cpu=…, ram=…, priority=…, pool_id=…)` -/
def mkA (w : World) (ops : List Nat) (cpu ram prio pool : Nat) : Except SErr (World × Asg) :=
  match w.mkAssignment { ops := ops, cpu := cpu, ram := ram, prio := prio, pool := pool } with
  | .error e => .error e
  | .ok w' => .ok (w', { ops := ops, cpu := cpu, ram := ram, prio := prio, pool := pool })

theorem mkA_ok {w w' : World} {ops : List Nat} {cpu ram prio pool : Nat} {a : Asg} (h : mkA w ops cpu ram prio pool = .ok (w', a)) :
    a = { ops := ops, cpu := cpu, ram := ram, prio := prio, pool := pool } ∧ w.mkAssignment a = .ok w' := by
  unfold mkA at h
  split at h
  · cases h
  · rename_i w1 hw
    cases h
    exact ⟨rfl, hw⟩

/-- `RetryStats` -/
structure Retry where
  oldRam : Nat
  oldCpu : Nat
  hasErr : Bool
  cid : Nat
  pool : Nat
deriving Repr, Inhabited, DecidableEq

/-- `WaitingQueueJob` -/
structure Job where
  prio : Nat
  pid : Nat
  ops : List Nat
  retry : Option Retry := none
deriving Repr, Inhabited, DecidableEq

def dedupAppend (l : List Nat) (x : Nat) : List Nat := if l.contains x then l else l ++ [x]

/-- a scheduler's decision -/
structure Decision where
  sus : List (Nat × Nat) := []     -- (pool, container)
  asgs : List Asg := []
deriving Repr, Inhabited

end Eudoxia
