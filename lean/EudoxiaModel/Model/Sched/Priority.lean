import EudoxiaModel.Model.Sched.Common
/-! `scheduler/priority_pool.py` and `scheduler/priority.py` -/
namespace Eudoxia.Prio
open Eudoxia OpState Extracted

/-- the scheduler's per-round copy of a pool's figures (`pool_stats`) -/
structure Snap where
  availC : Int
  availR : Int
  totC : Nat
  totR : Nat
deriving Repr, Inhabited, DecidableEq

def snaps (w : World) : List Snap :=
  w.pools.map (fun p => { availC := p.availC, availR := p.availR, totC := p.capC, totR := p.capR })

def snapSub (sn : List Snap) (k : Nat) (cpu ram : Nat) : List Snap :=
  sn.set k (let s := sn.getD k default; { s with availC := s.availC - cpu, availR := s.availR - ram })

/-- size of a first container: a tenth of the pool (at least 1 CPU / 1 GB), or all that is left -/
def newSize (q : Nat) (s : Snap) : Nat × Nat :=
  let jc := max 1 (s.totC / 10)
  let jr := (max 1 (s.totR / (10 * q))) * q
  if (jc : Int) ≥ s.availC || (jr : Int) ≥ s.availR then (s.availC.toNat, s.availR.toNat) else (jc, jr)

/-- queues and remembered suspended jobs -/
structure St where
  qry : List Job := []
  inter : List Job := []
  batch : List Job := []
  susp : List (Nat × Job) := []      -- container ↦ its job (`s.suspending`)
deriving Repr, Inhabited

def St.push (s : St) (j : Job) (prio : Nat) : St :=
  if prio == prioQuery then { s with qry := s.qry ++ [j] }
  else if prio == prioInteractive then { s with inter := s.inter ++ [j] }
  else { s with batch := s.batch ++ [j] }

def nonCompleted (w : World) (ops : List Nat) : List Nat := ops.filter (fun r => w.store.stOf r != completed)

def retryOf (r : Res) : Retry := { oldRam := r.ram, oldCpu := r.cpu, hasErr := true, cid := r.cid, pool := r.pool }

/-! ### priority-pool -/

/-- size of the container for a job on priority-pool's pool with snapshot `s`; `none` = the retry is abandoned -/
def ppSize (q : Nat) (s : Snap) (job : Job) : Option (Nat × Nat) :=
  match job.retry with
  | some rs =>
    if rs.hasErr then
      if 2 * (2 * rs.oldCpu) ≥ s.totC || 2 * (2 * rs.oldRam) ≥ s.totR then none
      else if ((2 * rs.oldCpu : Nat) : Int) ≥ s.availC || ((2 * rs.oldRam : Nat) : Int) ≥ s.availR then some (s.availC.toNat, s.availR.toNat)
      else some (2 * rs.oldCpu, 2 * rs.oldRam)
    else if (rs.oldCpu : Int) ≤ s.availC && (rs.oldRam : Int) ≤ s.availR then
      (if (rs.oldCpu : Int) == s.availC || (rs.oldRam : Int) == s.availR then some (s.availC.toNat, s.availR.toNat)
       else some (rs.oldCpu, rs.oldRam))
    else some (newSize q s)
  | none => some (newSize q s)

/-- one queue on one pool; returns the number of jobs consumed from the head of the queue -/
def ppQueue (q : Nat) (pool : Nat) : World → List Job → List Snap → Nat → List Asg → Except SErr (World × List Snap × Nat × List Asg)
  | w, [], sn, k, acc => .ok (w, sn, k, acc)
  | w, job :: rest, sn, k, acc =>
    if (sn.getD pool default).availR == 0 || (sn.getD pool default).availC == 0 then
      if (sn.getD pool default).availR == 0 && (sn.getD pool default).availC == 0 then .ok (w, sn, k, acc) else .error (.schedAssert, w)
    else
      match ppSize q (sn.getD pool default) job with
      | none => ppQueue q pool w rest sn (k + 1) acc
      | some (jc, jr) =>
        match mkA w job.ops jc jr job.prio pool with
        | .error e => .error e
        | .ok (w', a) => ppQueue q pool w' rest (snapSub sn pool jc jr) (k + 1) (acc ++ [a])

def ppEnqueue (w : World) (st : St) (results : List Res) (newP : List Nat) : Except Err St :=
  let st1 := newP.foldl (fun st pid =>
      st.push { prio := w.prioOf pid, pid := pid, ops := (w.pipes.getD pid default).order } (w.prioOf pid)) st
  (results.filter (!·.ok)).foldlM (fun st f =>
      let ops := nonCompleted w f.ops
      match ops with
      | [] => .error .schedAssert
      | o :: _ => .ok (st.push { prio := f.prio, pid := w.store.pidOf o, ops := ops, retry := some (retryOf f) } f.prio)) st1

/-- `priority_pool_scheduler` (query and interactive work on pool 0, batch work on pool 1) -/
def ppRound (w : World) (st : St) (results : List Res) (newP : List Nat) : Except SErr (World × St × Decision) :=
  match ppEnqueue w st results newP with
  | .error e => .error (e, w)
  | .ok st =>
  let q := w.cfg.q
  match ppQueue q 0 w st.qry (snaps w) 0 [] with
  | .error e => .error e
  | .ok (w1, sn1, k1, a1) =>
  match ppQueue q 0 w1 st.inter sn1 0 [] with
  | .error e => .error e
  | .ok (w2, sn2, k2, a2) =>
  match ppQueue q 1 w2 st.batch sn2 0 [] with
  | .error e => .error e
  | .ok (w3, _, k3, a3) =>
    .ok (w3, { st with qry := st.qry.drop k1, inter := st.inter.drop k2, batch := st.batch.drop k3 }, { asgs := a1 ++ a2 ++ a3 })

/-! ### priority -/

/-- `get_pool_with_max_avail_ram`: most free RAM among the pools with a free CPU (first such) -/
def bestPool (sn : List Snap) : Option Nat :=
  let rec go (i : Nat) (l : List Snap) (best : Option Nat) (maxR : Int) : Option Nat :=
    match l with
    | [] => best
    | s :: rest => if s.availC > 0 && maxR < s.availR then go (i + 1) rest (some i) s.availR else go (i + 1) rest best maxR
  go 0 sn none 0

/-- size of the container for a job on the chosen pool with snapshot `s` (priority); `none` = the job is dropped -/
def prSize (q : Nat) (s : Snap) (job : Job) : Option (Nat × Nat) :=
  match job.retry with
  | some rs =>
    if rs.hasErr then
      if ((2 * rs.oldCpu : Nat) : Int) > s.availC || ((2 * rs.oldRam : Nat) : Int) > s.availR then none
      else if 2 * (2 * rs.oldCpu) ≥ s.totC || 2 * (2 * rs.oldRam) ≥ s.totR then none
      else some (2 * rs.oldCpu, 2 * rs.oldRam)
    else if (rs.oldCpu : Int) < s.availC && (rs.oldRam : Int) < s.availR then some (rs.oldCpu, rs.oldRam)
    else some (newSize q s)
  | none => some (newSize q s)

/-- one queue; returns the number of jobs consumed from its head -/
def prQueue (q : Nat) : World → List Job → List Snap → Nat → List Asg → Except SErr (World × List Snap × Nat × List Asg)
  | w, [], sn, k, acc => .ok (w, sn, k, acc)
  | w, job :: rest, sn, k, acc =>
    match bestPool sn with
    | none => .ok (w, sn, k, acc)
    | some pool =>
      match prSize q (sn.getD pool default) job with
      | none => prQueue q w rest sn (k + 1) acc
      | some (jc, jr) =>
        match mkA w job.ops jc jr job.prio pool with
        | .error e => .error e
        | .ok (w', a) => prQueue q w' rest (snapSub sn pool jc jr) (k + 1) (acc ++ [a])

/-- the round-robin scan for suspendable non-query containers -/
def prSuspend (pools : List (List Ctr)) (need : Nat) : List (Nat × Nat) :=
  let n := pools.length
  let rec go (fuel : Nat) (iters : List (List Ctr)) (exh : List Bool) (pid : Nat) (cnt : Nat) (acc : List (Nat × Nat)) : List (Nat × Nat) :=
    match fuel with
    | 0 => acc
    | fuel + 1 =>
      if cnt ≥ need then acc else
      if exh.all id then acc else
      let it' := (iters.getD pid []).dropWhile (fun c => c.prio == prioQuery)
      match it' with
      | [] => go fuel (iters.set pid []) (exh.set pid true) ((pid + 1) % n) cnt acc
      | c :: more =>
        if c.canSuspend then go fuel (iters.set pid more) exh ((pid + 1) % n) (cnt + 1) (acc ++ [(pid, c.cid)])
        else go fuel (iters.set pid more) exh ((pid + 1) % n) cnt acc
  if n == 0 then [] else go ((pools.map List.length).sum + 2 * n + 2) pools (List.replicate n false) 0 0 []

def dictSet (d : List (Nat × Job)) (k : Nat) (j : Job) : List (Nat × Job) :=
  if d.any (·.1 == k) then d.map (fun x => if x.1 == k then (k, j) else x) else d ++ [(k, j)]

def jobOfCtr (w : World) (pool : Nat) (c : Ctr) : Job :=
  let ops := nonCompleted w c.ops
  { prio := c.prio, pid := w.store.pidOf (ops.headD 0), ops := ops,
    retry := some { oldRam := c.ram, oldCpu := c.cpu, hasErr := c.err, cid := c.cid, pool := pool } }

/-- pipelines needing attention: new arrivals, then the pipelines of the results' operators, by first appearance -/
def prTouched (w : World) (results : List Res) (newP : List Nat) : List Nat :=
  results.foldl (fun acc r => r.ops.foldl (fun acc o => dedupAppend acc (w.store.pidOf o)) acc) newP

/-- retry statistics per operator of failed results (a later result overwrites an earlier one) -/
def prRetryInfo (w : World) (results : List Res) : List (Nat × Retry) :=
  results.foldl (fun acc r =>
    if r.ok then acc else r.ops.foldl (fun acc o =>
      if w.store.stOf o != completed then (acc.filter (·.1 != o)) ++ [(o, retryOf r)] else acc) acc) []

def prEnqueue (w : World) (st : St) (results : List Res) (newP : List Nat) : St :=
  let toProc := prTouched w results newP
  let info := prRetryInfo w results
  let lookup (o : Nat) : Option Retry := (info.find? (·.1 == o)).map (·.2)
  if toProc.isEmpty then st else
  let queued : List Nat := (st.qry ++ st.inter ++ st.batch).flatMap (·.ops)
  toProc.foldl (fun st pid =>
    let prio := w.prioOf pid
    let opl := (w.getOps pid assignable (!w.cfg.multiOp)).filter (fun o => !queued.contains o)
    if opl.isEmpty then st
    else if w.cfg.multiOp then st.push { prio := prio, pid := pid, ops := opl, retry := lookup (opl.headD 0) } prio
    else opl.foldl (fun st o => st.push { prio := prio, pid := pid, ops := [o], retry := lookup o } prio) st) st

def prNoteSuspending (w : World) (st : St) : St :=
  (List.range w.pools.length).foldl (fun st k =>
    (w.pools.getD k default).suspending.foldl (fun st c => { st with susp := dictSet st.susp c.cid (jobOfCtr w k c) }) st) st

def prRequeueSuspended (w : World) (st : St) : St :=
  (List.range w.pools.length).foldl (fun st k =>
    (w.pools.getD k default).suspended.foldl (fun st c =>
      match st.susp.find? (·.1 == c.cid) with
      | some (_, job) => ({ st with susp := st.susp.filter (·.1 != c.cid) }).push job job.prio
      | none => st) st) st

/-- `priority_scheduler` -/
def prRound (w : World) (st : St) (results : List Res) (newP : List Nat) : Except SErr (World × St × Decision) :=
  let st := prRequeueSuspended w (prNoteSuspending w (prEnqueue w st results newP))
  let q := w.cfg.q
  match prQueue q w st.qry (snaps w) 0 [] with
  | .error e => .error e
  | .ok (w1, sn1, k1, a1) =>
  match prQueue q w1 st.inter sn1 0 [] with
  | .error e => .error e
  | .ok (w2, sn2, k2, a2) =>
  match prQueue q w2 st.batch sn2 0 [] with
  | .error e => .error e
  | .ok (w3, _, k3, a3) =>
    let st' : St := { st with qry := st.qry.drop k1, inter := st.inter.drop k2, batch := st.batch.drop k3 }
    let sus := if st'.qry.isEmpty then [] else prSuspend (w.pools.map (·.active)) st'.qry.length
    -- the work of a container is remembered when its suspension is requested
    let st'' := sus.foldl (fun (s : St) (x : Nat × Nat) =>
        match findCtr (w.pools.getD x.1 default).active x.2 with
        | some c => { s with susp := dictSet s.susp c.cid (jobOfCtr w3 x.1 c) }
        | none => s) st'
    .ok (w3, st'', { sus := sus, asgs := a1 ++ a2 ++ a3 })

end Eudoxia.Prio
