import EudoxiaModel.Model.Sched.Common
/-! `scheduler/overbook.py` -/
namespace Eudoxia.Overbook
open Eudoxia OpState Extracted

structure St where
  opq : List Nat := []                -- queued operators
  fails : List (Nat × Nat) := []      -- pipeline ↦ failed containers
deriving Repr, Inhabited

def getFail (f : List (Nat × Nat)) (pid : Nat) : Nat := match f.find? (·.1 == pid) with | some x => x.2 | none => 0
def incFail (f : List (Nat × Nat)) (pid : Nat) : List (Nat × Nat) :=
  if f.any (·.1 == pid) then f.map (fun x => if x.1 == pid then (x.1, x.2 + 1) else x) else f ++ [(pid, 1)]

/-- first pool with a free CPU in the snapshot -/
def firstFree (avail : List Int) : Option Nat := (List.range avail.length).find? (fun k => avail.getD k 0 ≥ 1)

/-- `make_assignments` -/
def assign (fails : List (Nat × Nat)) : World → List Nat → List Int → List Asg → Except SErr (World × List Nat × List Asg)
  | w, [], _, acc => .ok (w, [], acc)
  | w, r :: rest, avail, acc =>
    if getFail fails (w.store.pidOf r) ≥ maxFailures then assign fails w rest avail acc
    else if !(assignable.contains (w.store.stOf r)) then .error (.schedAssert, w)
    else match firstFree avail with
      | none => .ok (w, r :: rest, acc)
      | some k =>
        match mkA w [r] 1 (w.pools.getD k default).capR (w.prioOf (w.store.pidOf r)) k with
        | .error e => .error e
        | .ok (w', a) => assign fails w' rest (avail.set k (avail.getD k 0 - 1)) (acc ++ [a])

/-- `update_state`: pipelines needing attention, failure counts, queue of ready operators without duplicates -/
def touched (w : World) (results : List Res) (newP : List Nat) : Except Err (List Nat) :=
  results.foldlM (fun acc r => match r.ops with
    | [o] => .ok (dedupAppend acc (w.store.pidOf o))
    | _ => .error .schedAssert) newP

def countFails (w : World) (results : List Res) (fails : List (Nat × Nat)) : List (Nat × Nat) :=
  results.foldl (fun f r => if r.ok then f else incFail f (w.store.pidOf (r.ops.headD 0))) fails

def enqueue (w : World) (opq : List Nat) (pids : List Nat) : List Nat :=
  pids.foldl (fun q pid => (w.getOps pid assignable true).foldl (fun q r => if q.contains r then q else q ++ [r]) q) opq

/-- `overbook_scheduler` -/
def round (w : World) (st : St) (results : List Res) (newP : List Nat) : Except SErr (World × St × Decision) :=
  if newP.isEmpty && results.isEmpty then .ok (w, st, {}) else
  match touched w results newP with
  | .error e => .error (e, w)
  | .ok pids =>
    match assign (countFails w results st.fails) w (enqueue w st.opq pids) (w.pools.map (·.availC)) [] with
    | .error e => .error e
    | .ok (w', opq', asgs) => .ok (w', { opq := opq', fails := countFails w results st.fails }, { asgs := asgs })

end Eudoxia.Overbook
