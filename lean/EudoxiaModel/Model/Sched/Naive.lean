import EudoxiaModel.Model.Sched.Common
/-! `scheduler/naive.py` and the starter scheduler written by `eudoxia init` (always single-operator). -/
namespace Eudoxia.Naive
open Eudoxia OpState Extracted

structure St where
  queue : List Nat := []      -- waiting pipelines
deriving Repr, Inhabited

/-- the operators handed to one container: all assignable ones, or the first ready one when containers hold one operator -/
def opsFor (w : World) (multi : Bool) (pid : Nat) : List Nat :=
  if multi then w.getOps pid assignable false else (w.getOps pid assignable true).take 1

/-- the inner `while s.waiting_queue:` for one pool with free amounts `cpu`, `ram` -/
def pop (w : World) (multi : Bool) (pool : Nat) (cpu ram : Nat) :
    List Nat → List Nat → Except SErr (World × List Nat × List Nat × Option Asg)
  | [], req => .ok (w, [], req, none)
  | pid :: rest, req =>
    if w.successful pid || w.hasFailures pid then pop w multi pool cpu ram rest req
    else if (opsFor w multi pid).isEmpty then pop w multi pool cpu ram rest (req ++ [pid])
    else match mkA w (opsFor w multi pid) cpu ram (w.prioOf pid) pool with
      | .error e => .error e
      | .ok (w', a) => .ok (w', rest, req ++ [pid], some a)

/-- the loop over pools -/
def pools (multi : Bool) : World → List (Nat × Pool) → List Nat → List Nat → List Asg →
    Except SErr (World × List Nat × List Nat × List Asg)
  | w, [], queue, req, acc => .ok (w, queue, req, acc)
  | w, (i, p) :: ps, queue, req, acc =>
    if p.availC ≤ 0 || p.availR ≤ 0 then pools multi w ps queue req acc
    else match pop w multi i p.availC.toNat p.availR.toNat queue req with
      | .error e => .error e
      | .ok (w', queue', req', oa) =>
        pools multi w' ps queue' req' (match oa with | some a => acc ++ [a] | none => acc)

def indexed (l : List Pool) : List (Nat × Pool) := (List.range l.length).zip l

/-- `naive_pipeline` (multi = the `multi_operator_containers` parameter); the template is `multi = false` -/
def round (multi : Bool) (w : World) (st : St) (results : List Res) (newP : List Nat) :
    Except SErr (World × St × Decision) :=
  if newP.isEmpty && results.isEmpty then .ok (w, st, {}) else
  match pools multi w (indexed w.pools) (st.queue ++ newP) [] [] with
  | .error e => .error e
  | .ok (w', queue', req, asgs) => .ok (w', { queue := queue' ++ req }, { asgs := asgs })

end Eudoxia.Naive
