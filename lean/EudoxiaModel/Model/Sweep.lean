import EudoxiaModel.Model.Exec
/-! The completion sweep of `run_simulator`'s main loop: after a tick that returned results, every outstanding pipeline whose
    operators are all COMPLETED gets its finish tick recorded and leaves the outstanding set. -/
namespace Eudoxia.Sweep
open Eudoxia OpState

/-- `is_pipeline_successful`: every operator of the pipeline is COMPLETED -/
def allCompleted (s : Store) (ops : List Nat) : Bool := ops.all (fun o => s.stOf o == completed)

/-- bookkeeping of the main loop: pipelines not yet finished (id, arrival tick, operators) and the recorded finishes (id, finish tick, latency) -/
structure Track where
  outstanding : List (Nat × Nat × List Nat) := []
  finished : List (Nat × Nat × Nat) := []
deriving Repr, Inhabited

/-- a pipeline arrives in tick `t` -/
def arrive (tr : Track) (pid t : Nat) (ops : List Nat) : Track := { tr with outstanding := tr.outstanding ++ [(pid, t, ops)] }

/-- the sweep at the end of tick `t` (`hasRes` = the executor returned at least one result in this tick) -/
def sweep (s : Store) (t : Nat) (hasRes : Bool) (tr : Track) : Track :=
  if !hasRes then tr else
  { outstanding := tr.outstanding.filter (fun p => !allCompleted s p.2.2),
    finished := tr.finished ++ (tr.outstanding.filter (fun p => allCompleted s p.2.2)).map (fun p => (p.1, t, t - p.2.1)) }

/-- one tick of a run's history, as the main loop sees it: who arrived (id, operators), whether the executor returned a result,
and which operators are COMPLETED after the tick -/
structure TickH where
  arr : List (Nat × List Nat) := []
  hasRes : Bool := false
  completed : List Nat := []
deriving Repr, Inhabited

/-- an operator table in which exactly the listed operators (of `n`) are COMPLETED -/
def storeOf (n : Nat) (completed : List Nat) : Store :=
  { st := completed.foldl (fun a o => a.setIfInBounds o OpState.completed) (Array.replicate n pending) }

/-- the bookkeeping over a whole history -/
def runSweep (n : Nat) (hist : List TickH) : Track :=
  (hist.foldl (fun (acc : Track × Nat) h =>
      (sweep (storeOf n h.completed) acc.2 h.hasRes (h.arr.foldl (fun tr a => arrive tr a.1 acc.2 a.2) acc.1), acc.2 + 1)) ({}, 0)).1

end Eudoxia.Sweep
