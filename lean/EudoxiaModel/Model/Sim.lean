import EudoxiaModel.Extracted
/-! The bookkeeping of `run_simulator`'s main loop (`Counters`, updated tick by tick exactly as the Python
    does) and an independent recount of the same run from its history of events.  Exact arithmetic. -/
namespace Eudoxia.Sim
open Extracted

/-- what happened in one tick, as seen from outside the simulator -/
structure TickEv where
  arrivals : List Nat := []              -- priority of every pipeline that arrived
  nAsg : Nat := 0                        -- assignments issued by the scheduler
  nSus : Nat := 0                        -- suspensions issued
  results : List (Bool × Nat) := []      -- (success?, ticks the container ran) of every result reported
  finished : List (Nat × Nat) := []      -- (priority, latency in ticks) of every pipeline whose last operator completed
deriving Repr, Inhabited

structure Counters where
  created : Nat := 0
  asg : Nat := 0
  sus : Nat := 0
  failures : Nat := 0
  okContainers : Nat := 0
  tickTimes : List Nat := []
  arrQ : Nat := 0
  arrI : Nat := 0
  arrB : Nat := 0
  latQ : List Nat := []
  latI : List Nat := []
  latB : List Nat := []
deriving Repr, Inhabited, DecidableEq

def countPrio (p : Nat) (l : List Nat) : Nat := (l.filter (· == p)).length
def latOf (p : Nat) (l : List (Nat × Nat)) : List Nat := (l.filter (·.1 == p)).map (·.2)

/-- one iteration of the main loop -/
def stepC (c : Counters) (e : TickEv) : Counters :=
  { created := c.created + e.arrivals.length,
    asg := c.asg + e.nAsg,
    sus := c.sus + e.nSus,
    failures := c.failures + (e.results.filter (!·.1)).length,
    okContainers := c.okContainers + (e.results.filter (·.1)).length,
    tickTimes := c.tickTimes ++ e.results.map (·.2),
    arrQ := c.arrQ + countPrio prioQuery e.arrivals,
    arrI := c.arrI + countPrio prioInteractive e.arrivals,
    arrB := c.arrB + countPrio prioBatch e.arrivals,
    latQ := c.latQ ++ latOf prioQuery e.finished,
    latI := c.latI ++ latOf prioInteractive e.finished,
    latB := c.latB ++ latOf prioBatch e.finished }

/-- the main loop -/
def loopC (es : List TickEv) : Counters := es.foldl stepC {}

/-- the independent recount: every figure computed from the whole history at once -/
def recount (es : List TickEv) : Counters :=
  { created := (es.map (·.arrivals.length)).sum,
    asg := (es.map (·.nAsg)).sum,
    sus := (es.map (·.nSus)).sum,
    failures := (es.flatMap (·.results)).countP (!·.1),
    okContainers := (es.flatMap (·.results)).countP (·.1),
    tickTimes := (es.flatMap (·.results)).map (·.2),
    arrQ := countPrio prioQuery (es.flatMap (·.arrivals)),
    arrI := countPrio prioInteractive (es.flatMap (·.arrivals)),
    arrB := countPrio prioBatch (es.flatMap (·.arrivals)),
    latQ := latOf prioQuery (es.flatMap (·.finished)),
    latI := latOf prioInteractive (es.flatMap (·.finished)),
    latB := latOf prioBatch (es.flatMap (·.finished)) }

/-! ### statistics: exact rationals as (numerator, denominator) -/

def insertAsc (x : Nat) : List Nat → List Nat
  | [] => [x]
  | y :: ys => if y ≤ x then y :: insertAsc x ys else x :: y :: ys
def sortAsc (l : List Nat) : List Nat := l.foldl (fun acc x => insertAsc x acc) []

/-- mean of a non-empty list -/
def mean? (l : List Nat) : Option (Nat × Nat) := if l.isEmpty then none else some (l.sum, l.length)

/-- numpy's default (linear interpolation) 99th percentile: position 0.99·(n−1) in the sorted data -/
def p99? (l : List Nat) : Option (Nat × Nat) :=
  if l.isEmpty then none else
  let s := sortAsc l
  let pos := 99 * (l.length - 1)            -- in hundredths
  let lo := pos / 100
  let fr := pos % 100
  let a := s.getD lo 0
  let b := s.getD (lo + 1) a
  some (a * 100 + (b - a) * fr, 100)

structure ClassStats where
  arrivals : Nat
  completions : Nat
  mean : Option (Nat × Nat)     -- latency in ticks
  p99 : Option (Nat × Nat)
deriving Repr, Inhabited, DecidableEq

def classStats (arr : Nat) (lat : List Nat) : ClassStats :=
  { arrivals := arr, completions := lat.length, mean := mean? lat, p99 := p99? lat }

structure Stats where
  created : Nat
  containersCompleted : Nat
  asg : Nat
  sus : Nat
  failures : Nat
  ctrP99 : Option (Nat × Nat)
  all : ClassStats
  query : ClassStats
  interactive : ClassStats
  batch : ClassStats
deriving Repr, Inhabited, DecidableEq

/-- `SimulatorStats` from the counters (times in ticks; division by ticks_per_second is left to the reader of the numbers) -/
def statsOf (c : Counters) : Stats :=
  { created := c.created, containersCompleted := c.okContainers, asg := c.asg, sus := c.sus, failures := c.failures,
    ctrP99 := p99? c.tickTimes,
    all := classStats (c.arrQ + c.arrI + c.arrB) (c.latQ ++ c.latI ++ c.latB),
    query := classStats c.arrQ c.latQ, interactive := classStats c.arrI c.latI, batch := classStats c.arrB c.latB }

end Eudoxia.Sim
