import EudoxiaModel.Model.Exec
/-! Observation records (what the harness can see of the real objects, and what the model shows of
    itself) and the decidable property checkers `check_Cxx` evaluated on them.  Core Lean only. -/
namespace Eudoxia
open OpState Extracted

structure CtrObs where
  cid : Nat
  cpu : Nat
  ram : Nat
  mem : Nat
  canSuspend : Bool
  idx : Nat
  elapsed : Nat
  ops : List Nat
deriving Repr, Inhabited, DecidableEq

structure SusObs where
  cid : Nat
  cpu : Nat
  ram : Nat
  left : Int
  idx : Nat
  ops : List Nat
deriving Repr, Inhabited, DecidableEq

structure PoolObs where
  ac : Int
  ar : Int
  cons : Int
  capc : Nat
  capr : Nat
  A : List CtrObs
  S : List SusObs
  D : List Nat
  done : Nat
  snap : List (Nat × Nat × Nat × Bool) := []
  victims : List Nat := []
deriving Repr, Inhabited, DecidableEq

structure WorldObs where
  st : List OpState            -- all operators, global creation order
  cnt : List (List Nat)        -- per pipeline, the six counts
  pools : List PoolObs
deriving Repr, Inhabited, DecidableEq

structure ResObs where
  cid : Nat
  ok : Bool
  pool : Nat
  cpu : Nat
  ram : Nat
  prio : Nat
  ops : List Nat
deriving Repr, Inhabited, DecidableEq

inductive StepObs
  | assign (a : Asg) (err : Option String) (st : List OpState) (cnt : List (List Nat))
  | suspend (pool : Nat) (cid : Nat)
  | tick (err : Option String) (state : Option WorldObs) (res : List ResObs)
deriving Repr, Inhabited

/-- static description of the operators: pipeline and parents (global ids) -/
structure OpsObs where
  pid : List Nat
  parents : List (List Nat)
deriving Repr, Inhabited

structure ETrace where
  cfg : Cfg
  ops : OpsObs
  init : WorldObs
  steps : List StepObs
deriving Repr, Inhabited

/-! ## model → observation -/

def Ctr.toObs (c : Ctr) : CtrObs :=
  { cid := c.cid, cpu := c.cpu, ram := c.ram, mem := c.mem, canSuspend := c.canSuspend, idx := c.curOpIdx,
    elapsed := c.elapsed, ops := c.ops }
def Ctr.toSusObs (c : Ctr) : SusObs :=
  { cid := c.cid, cpu := c.cpu, ram := c.ram, left := c.suspLeft, idx := c.curOpIdx, ops := c.ops }
def Pool.toObs (p : Pool) : PoolObs :=
  { ac := p.availC, ar := p.availR, cons := p.consumed, capc := p.capC, capr := p.capR,
    A := p.active.map Ctr.toObs, S := p.suspending.map Ctr.toSusObs, D := p.suspended.map (·.cid), done := p.numCompleted,
    snap := p.killSnap, victims := p.victims }
def World.toObs (w : World) : WorldObs :=
  { st := (List.range w.store.st.size).map w.store.stOf,
    cnt := (List.range w.pipes.size).map (fun pid => OpState.all.map (w.store.count pid)),
    pools := w.pools.map Pool.toObs }
def Res.toObs (r : Res) : ResObs :=
  { cid := r.cid, ok := r.ok, pool := r.pool, cpu := r.cpu, ram := r.ram, prio := r.prio, ops := r.ops }

/-! ## checkers: each returns the list of failed clauses (empty = the property holds on the trace) -/

def isum (l : List Int) : Int := l.sum
def nsum (l : List Nat) : Nat := l.sum

def stAt (st : List OpState) (r : Nat) : OpState := st.getD r pending

/-- C01 on one observed state: running/completed ⇒ all parents completed -/
def parentsOkB (ops : OpsObs) (st : List OpState) : Bool :=
  (List.range st.length).all (fun r =>
    !(stAt st r == running || stAt st r == completed) ||
    (ops.parents.getD r []).all (fun p => stAt st p == completed))

/-- states reachable from `x` by zero or more table arrows -/
def reachableStates : Nat → List OpState → List OpState
  | 0, acc => acc
  | n+1, acc =>
    let next := acc.flatMap validNext
    reachableStates n (acc ++ next.filter (fun y => !acc.contains y))

def lifecycleOkB (old new : OpState) : Bool := (reachableStates 6 [old]).contains new

/-- C02 between two consecutive observed states: every operator moved along table arrows only -/
def movesOkB (old new : List OpState) : Bool :=
  old.length == new.length && (List.range old.length).all (fun r => lifecycleOkB (stAt old r) (stAt new r))

/-- C02: counts are the histogram of the states -/
def countsOkB (ops : OpsObs) (st : List OpState) (cnt : List (List Nat)) : Bool :=
  (List.range cnt.length).all (fun pid =>
    OpState.all.all (fun x =>
      (cnt.getD pid []).getD x.idx 0 ==
        ((List.range st.length).filter (fun r => ops.pid.getD r 0 == pid && stAt st r == x)).length))

def liveOps (w : WorldObs) : List (List Nat) :=
  w.pools.flatMap (fun p => p.A.map (·.ops) ++ p.S.map (·.ops))

def pairwiseDisjointB : List (List Nat) → Bool
  | [] => true
  | l :: ls => ls.all (fun m => l.all (fun x => !m.contains x)) && pairwiseDisjointB ls

def nodupB : List Nat → Bool
  | [] => true
  | x :: xs => !xs.contains x && nodupB xs

/-- C02: operator lists of live containers are duplicate-free and pairwise disjoint; the finished prefix of a
    live container is COMPLETED, its unfinished suffix ASSIGNED/RUNNING (active) or SUSPENDING (suspending) -/
def liveOkB (w : WorldObs) : Bool :=
  (liveOps w).all nodupB && pairwiseDisjointB (liveOps w) &&
  w.pools.all (fun p =>
    p.A.all (fun c => (c.ops.take c.idx).all (fun r => stAt w.st r == completed) &&
                      (c.ops.drop c.idx).all (fun r => stAt w.st r == assigned || stAt w.st r == running)) &&
    p.S.all (fun c => (c.ops.take c.idx).all (fun r => stAt w.st r == completed) &&
                      (c.ops.drop c.idx).all (fun r => stAt w.st r == suspending)))

/-- C03 on one pool: conservation and non-negativity -/
def conservedB (over : Bool) (p : PoolObs) : Bool :=
  p.ac + isum (p.A.map (fun c => (c.cpu : Int))) + isum (p.S.map (fun c => (c.cpu : Int))) == (p.capc : Int) &&
  p.ar + isum (p.A.map (fun c => (c.ram : Int))) + isum (p.S.map (fun c => (c.ram : Int))) == (p.capr : Int) &&
  decide (0 ≤ p.ac) && (over || decide (0 ≤ p.ar))

/-- C04 on one pool after a tick -/
def memoryOkB (p : PoolObs) : Bool :=
  p.A.all (fun c => decide (c.mem ≤ c.ram)) &&
  p.cons == isum (p.A.map (fun c => (c.mem : Int))) &&
  decide (p.cons ≤ (p.capr : Int))

/-- C03, "a container's allocation is returned in the tick it completes": at a tick boundary every container that still holds an allocation as a running
container has an operator left to run -/
def unfinishedB (p : PoolObs) : Bool := p.A.all (fun c => decide (c.idx < c.ops.length))

def poolCids (p : PoolObs) : List Nat := p.A.map (·.cid) ++ p.S.map (·.cid)

structure ChkState where
  prev : WorldObs
  pendA : List Asg := []
  pendS : List (Nat × Nat) := []
  accepted : Nat := 0      -- assignments delivered in a tick that did not raise
  nOk : Nat := 0
  nFail : Nat := 0
  seenRes : List Nat := []
  tainted : Bool := false  -- a tick raised: containers may have started or ended unobserved; accounting stops
  fails : List String := []
  k : Nat := 0

def ChkState.fail (s : ChkState) (clause : String) : ChkState :=
  { s with fails := s.fails ++ [s!"{clause}@{s.k}"] }

def ChkState.req (s : ChkState) (b : Bool) (clause : String) : ChkState := if b then s else s.fail clause

def chkAssign (t : ETrace) (which : String) (s : ChkState) (a : Asg) (err : Option String)
    (st : List OpState) (cnt : List (List Nat)) : ChkState :=
  let s1 : ChkState := if which == "C01" then s.req (parentsOkB t.ops st) "parents-complete" else s
  let s2 : ChkState := if which == "C02" then
      ((s1.req (movesOkB s.prev.st st) "moves-follow-table").req (countsOkB t.ops st cnt) "counts-are-histogram").req
        (err.isSome || !(a.ops.any (fun r => stAt s.prev.st r == completed))) "completed-not-reassigned"
    else s1
  let s3 : ChkState := if which == "C02" && err.isSome then
      s2.req ((List.range st.length).all (fun r => stAt s.prev.st r != completed || stAt st r == completed)) "refused-keeps-completed"
    else s2
  { s3 with prev := { s.prev with st := st, cnt := cnt }, pendA := if err.isNone then s.pendA ++ [a] else s.pendA }

def chkOversell (t : ETrace) (err : Option String) (w : WorldObs) (s : ChkState) (i : Nat) : ChkState :=
  let batch : List Asg := s.pendA.filter (fun a => a.pool == i)
  let pp : PoolObs := s.prev.pools.getD i default
  let oversold : Bool := decide (((nsum (batch.map (fun a => a.cpu)) : Nat) : Int) > pp.ac) ||
                  (!t.cfg.overcommit && decide (((nsum (batch.map (fun a => a.ram)) : Nat) : Int) > pp.ar))
  if oversold then
    (s.req err.isSome "oversell-rejected").req
      ((poolCids (w.pools.getD i default)).all (fun c => (poolCids pp).contains c)) "oversell-no-container"
  else s

def chkC03 (t : ETrace) (err : Option String) (w : WorldObs) (s : ChkState) : ChkState :=
  let npools := s.prev.pools.length
  let s1 : ChkState := s.req (w.pools.all (conservedB t.cfg.overcommit)) "conserved-nonneg"
  let s1 : ChkState := if err.isNone then s1.req (w.pools.all unfinishedB) "returned-when-finished" else s1
  let s2 : ChkState := s1.req (w.pools.length == npools &&
      (List.range npools).all (fun i => (w.pools.getD i default).capc == (s.prev.pools.getD i default).capc &&
                                        (w.pools.getD i default).capr == (s.prev.pools.getD i default).capr)) "capacity-constant"
  (List.range npools).foldl (chkOversell t err w) s2

def chkC09 (err : Option String) (state : Option WorldObs) (res : List ResObs) (s : ChkState) : ChkState :=
  let npools := s.prev.pools.length
  let s0 : ChkState := s.req (!(s.pendA.any (fun a => decide (a.pool ≥ npools)) || s.pendS.any (fun x => decide (x.1 ≥ npools))) || err.isSome) "unknown-pool-rejected"
  -- a command naming a pool that does not exist is rejected *before* anything happens: pools, containers and operator states are as they were
  let s0 : ChkState := match err, state with
    | some "unknownPool", some w => s0.req (w.st == s.prev.st && w.pools.map (fun p => (p.ac, p.ar, p.A, p.S, p.D)) == s.prev.pools.map (fun p => (p.ac, p.ar, p.A, p.S, p.D))) "rejected-before-anything-happens"
    | _, _ => s0
  let s0 : ChkState := if err.isSome then { s0 with tainted := true } else s0
  match err, state, s0.tainted with
  | none, some w, false =>
    let nok : Nat := (res.filter (fun r => r.ok)).length
    let nfl : Nat := (res.filter (fun r => !r.ok)).length
    let s1 : ChkState := { s0 with accepted := s0.accepted + s0.pendA.length, nOk := s0.nOk + nok, nFail := s0.nFail + nfl }
    let live : Nat := nsum (w.pools.map (fun p => p.A.length + p.S.length))
    let susp : Nat := nsum (w.pools.map (fun p => p.D.length))
    let s2 : ChkState := s1.req (s1.accepted == s1.nOk + s1.nFail + susp + live) "accounting"
    let s3 : ChkState := s2.req (res.all (fun r => !s2.seenRes.contains r.cid) && nodupB (res.map (fun r => r.cid))) "one-result-per-container"
    let s4 : ChkState := s3.req (res.all (fun r => !(w.pools.any (fun p => (poolCids p).contains r.cid || p.D.contains r.cid)))) "result-means-gone"
    let s5 : ChkState := s4.req (res.all (fun r => r.ok == r.ops.all (fun o => stAt w.st o == completed))) "success-iff-all-completed"
    let s6 : ChkState := s5.req (res.all (fun r => r.ok ||
        (let k := (r.ops.takeWhile (fun o => stAt w.st o == completed)).length
         (r.ops.drop k).all (fun o => stAt w.st o == failed) && decide (k < r.ops.length)))) "failure-shape"
    { s6 with seenRes := s6.seenRes ++ res.map (fun r => r.cid) }
  | _, _, _ => s0

/-! ### C10: suspension -/

def findA (p : PoolObs) (cid : Nat) : Option CtrObs := p.A.find? (fun c => c.cid == cid)
def findS (p : PoolObs) (cid : Nat) : Option SusObs := p.S.find? (fun c => c.cid == cid)

def writeOut (cfg : Cfg) (ram : Nat) : Nat := max 1 (ram / cfg.g)

def chkSuspendReq (t : ETrace) (err : Option String) (w : WorldObs) (s : ChkState) (rq : Nat × Nat) : ChkState :=
  let pp : PoolObs := s.prev.pools.getD rq.1 default
  match findA pp rq.2 with
  | none => s.req err.isSome "suspend-of-non-running-rejected"
  | some c =>
    if !c.canSuspend then s.req err.isSome "suspend-off-boundary-rejected"
    else if err.isSome then s
    else
      let np : PoolObs := w.pools.getD rq.1 default
      let wo := writeOut t.cfg c.ram
      let s1 : ChkState := s.req ((findA np rq.2).isNone) "suspended-leaves-running"
      if wo == 1 then
        (s1.req (np.D.contains rq.2 && (findS np rq.2).isNone) "one-tick-suspension-ends-at-once").req
          ((c.ops.drop c.idx).all (fun o => stAt w.st o == pending) && (c.ops.take c.idx).all (fun o => stAt w.st o == completed)) "work-returned-intact"
      else
        match findS np rq.2 with
        | none => s1.fail "suspension-duration"
        | some so =>
          (s1.req (so.left == ((wo : Nat) : Int) - 1 && so.idx == c.idx && so.cpu == c.cpu && so.ram == c.ram && so.ops == c.ops) "suspension-duration").req
            ((c.ops.drop c.idx).all (fun o => stAt w.st o == suspending)) "suspending-state"

def chkSuspending (w : WorldObs) (i : Nat) (s : ChkState) (so : SusObs) : ChkState :=
  let np : PoolObs := w.pools.getD i default
  if so.left - 1 == 0 then
    (s.req (np.D.contains so.cid && (findS np so.cid).isNone && (findA np so.cid).isNone) "suspension-ends-on-time").req
      ((so.ops.drop so.idx).all (fun o => stAt w.st o == pending) && (so.ops.take so.idx).all (fun o => stAt w.st o == completed)) "work-returned-intact"
  else
    match findS np so.cid with
    | none => s.fail "suspension-no-progress"
    | some n => s.req (n.left == so.left - 1 && n.idx == so.idx && n.ops == so.ops && n.cpu == so.cpu && n.ram == so.ram) "suspension-no-progress"

def chkCanSuspendFlag (pp : PoolObs) (s : ChkState) (c : CtrObs) : ChkState :=
  let pidx : Nat := match findA pp c.cid with | some o => o.idx | none => 0
  s.req (c.canSuspend == (decide (c.idx > pidx) && decide (c.idx < c.ops.length))) "can-suspend-iff-boundary"

def chkC10 (t : ETrace) (err : Option String) (state : Option WorldObs) (res : List ResObs) (s : ChkState) : ChkState :=
  match state with
  | none => s
  | some w =>
    let s1 : ChkState := s.pendS.foldl (chkSuspendReq t err w) s
    if err.isSome then s1 else
    let npools := s.prev.pools.length
    let s2 : ChkState := (List.range npools).foldl (fun (a : ChkState) (i : Nat) =>
        (s.prev.pools.getD i default).S.foldl (chkSuspending w i) a) s1
    let s3 : ChkState := (List.range npools).foldl (fun (a : ChkState) (i : Nat) =>
        (w.pools.getD i default).A.foldl (chkCanSuspendFlag (s.prev.pools.getD i default)) a) s2
    let gone : List Nat := s.pendS.map (fun x => x.2) ++ s.prev.pools.flatMap (fun p => p.S.map (fun x => x.cid))
    -- a pool that had write-outs in progress: the allocations were held, and those that ended were freed exactly (pool balance)
    let s4 : ChkState := (List.range npools).foldl (fun (a : ChkState) (i : Nat) =>
        if (s.prev.pools.getD i default).S.isEmpty || s.tainted then a
        else a.req (conservedB true (w.pools.getD i default)) "allocation-held-then-freed-exactly") s3
    s4.req (res.all (fun r => !gone.contains r.cid)) "suspended-reports-no-result"

/-! ### C11 / C04: the OOM killer, from the snapshot taken when it is entered -/

def scoreGeObs (a b : Nat × Nat × Nat × Bool) : Bool := a.2.1 * a.2.1 * b.2.2.1 ≥ b.2.1 * b.2.1 * a.2.2.1

/-- one pool, one tick: `snap` = (cid, usage, allocation, finished) entering the killer, `victims` in kill order -/
def killsOkB (over : Bool) (capr : Nat) (snap : List (Nat × Nat × Nat × Bool)) (victims : List Nat) : List String :=
  let own := snap.filter (fun x => decide (x.2.1 > x.2.2.1))
  let ownIds := own.map (fun x => x.1)
  let total := nsum (snap.map (fun x => x.2.1))
  let afterOwn := total - nsum (own.map (fun x => x.2.1))
  let v2 := victims.filter (fun v => !ownIds.contains v)
  let cands := snap.filter (fun x => !x.2.2.2 && decide (x.2.1 > 0) && !ownIds.contains x.1)
  let usageOf (v : Nat) : Nat := match snap.find? (fun x => x.1 == v) with | some x => x.2.1 | none => 0
  let entry (v : Nat) : Nat × Nat × Nat × Bool := (snap.find? (fun x => x.1 == v)).getD (v, 0, 1, true)
  let c1 := if ownIds.all (fun v => victims.contains v) then [] else ["over-own-limit-killed"]
  let c2 := if v2.all (fun v => cands.any (fun x => x.1 == v)) then [] else ["finished-or-idle-never-chosen"]
  let c3 := if v2.isEmpty || (over && decide (afterOwn > capr)) then [] else ["kill-justified"]
  -- before each pool-level kill the usage exceeds the capacity (no kill that was not needed)
  let rec needed (vs : List Nat) (usage : Nat) : Bool :=
    match vs with
    | [] => true
    | v :: rest => decide (usage > capr) && needed rest (usage - usageOf v)
  let c4 := if needed v2 afterOwn then [] else ["kills-are-needed"]
  let remaining := afterOwn - nsum (v2.map usageOf)
  let survivors := cands.filter (fun x => !v2.contains x.1)
  let c5 := if decide (remaining ≤ capr) || survivors.isEmpty then [] else ["stops-only-when-usage-fits"]
  let c6 := if v2.all (fun v => survivors.all (fun x => scoreGeObs (entry v) x)) then [] else ["no-higher-scorer-survives"]
  let c7 := if nodupB victims && victims.all (fun v => snap.any (fun x => x.1 == v)) then [] else ["victims-are-running-containers"]
  c1 ++ c2 ++ c3 ++ c4 ++ c5 ++ c6 ++ c7

def chkKills (t : ETrace) (which : String) (err : Option String) (state : Option WorldObs) (res : List ResObs) (s : ChkState) : ChkState :=
  match err, state with
  | none, some w =>
    let s1 : ChkState := w.pools.foldl (fun (a : ChkState) (p : PoolObs) =>
        (killsOkB t.cfg.overcommit p.capr p.snap p.victims).foldl (fun (b : ChkState) (c : String) =>
          if which == "C11" || c == "kill-justified" || c == "over-own-limit-killed" then b.fail c else b) a) s
    -- every failed result is a victim of this tick's killer and vice versa
    let failed : List Nat := (res.filter (fun r => !r.ok)).map (fun r => r.cid)
    let vict : List Nat := w.pools.flatMap (fun p => p.victims)
    s1.req (failed.all (fun c => vict.contains c) && vict.all (fun c => failed.contains c)) "failed-results-are-the-victims"
  | _, _ => s

def chkTick (t : ETrace) (which : String) (s : ChkState) (err : Option String) (state : Option WorldObs)
    (res : List ResObs) : ChkState :=
  let s1 : ChkState := match state with
    | none => s
    | some w =>
      let a : ChkState := if which == "C01" then s.req (parentsOkB t.ops w.st) "parents-complete" else s
      let b : ChkState := if which == "C02" then
          (((a.req (movesOkB s.prev.st w.st) "moves-follow-table").req (countsOkB t.ops w.st w.cnt) "counts-are-histogram").req
            (liveOkB w) "live-containers-disjoint")
        else a
      let c : ChkState := if which == "C03" then chkC03 t err w b else b
      if which == "C04" && err.isNone then c.req (w.pools.all memoryOkB) "memory-limits" else c
  let s2 : ChkState := if which == "C09" then chkC09 err state res s1 else s1
  let s2 : ChkState := if which == "C10" then chkC10 t err state res s2 else s2
  let s2 : ChkState := if which == "C11" || which == "C04" then chkKills t which err state res s2 else s2
  match state with
  | some w => { s2 with prev := w, pendA := [], pendS := [] }
  | none => { s2 with pendA := [], pendS := [] }

/-- evaluate the executor-level properties on a trace; `which` selects the property -/
def checkStep (t : ETrace) (which : String) (s : ChkState) (o : StepObs) : ChkState :=
  let s : ChkState := { s with k := s.k + 1 }
  match o with
  | .assign a err st cnt => chkAssign t which s a err st cnt
  | .suspend pool cid => { s with pendS := s.pendS ++ [(pool, cid)] }
  | .tick err state res => chkTick t which s err state res

def checkETrace (which : String) (t : ETrace) : List String :=
  let s0 : ChkState := { prev := t.init }
  let s0 : ChkState := if which == "C01" then s0.req (parentsOkB t.ops t.init.st) "parents-complete" else s0
  (t.steps.foldl (checkStep t which) s0).fails

end Eudoxia
