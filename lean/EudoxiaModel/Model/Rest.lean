/-! `scheduler/rest.py`: the bookkeeping of the REST bridge (what it sends and when), payload as data.
    Sockets, JSON text and the HTTP peer are outside the model. Core Lean only. -/
namespace Eudoxia.Rest

structure Cfg where
  tps : Nat
  pollNum : Nat            -- poll interval = pollNum / pollDen simulated seconds
  pollDen : Nat
deriving Repr, Inhabited

structure St where
  tick : Nat := 0          -- `s.current_tick`
  lastCall : Nat := 0      -- tick of the last call (`last_call_sim_time` = lastCall / tps)
  known : List Nat := []   -- keys of `s.other_pipelines`, insertion order
deriving Repr, Inhabited, DecidableEq

structure Payload where
  tick : Nat
  newP : List Nat
  other : List (Nat × Bool)      -- (pipeline, is_complete)
deriving Repr, Inhabited, DecidableEq

/-- is the external scheduler called in this round? -/
def mustCall (c : Cfg) (st : St) (newP : List Nat) (hasResults : Bool) : Bool :=
  !newP.isEmpty || hasResults || !decide (((st.tick + 1) - st.lastCall) * c.pollDen < c.pollNum * c.tps)

/-- one `rest_scheduler` round; `complete p` = `is_pipeline_successful` of pipeline `p` right now -/
def step (c : Cfg) (st : St) (newP : List Nat) (hasResults : Bool) (complete : Nat → Bool) : St × Option Payload :=
  let t := st.tick + 1
  if mustCall c st newP hasResults then
    ({ tick := t, lastCall := t, known := (st.known ++ newP.filter (fun p => !st.known.contains p)).filter (fun p => !complete p) },
     some { tick := t, newP := newP, other := st.known.map (fun p => (p, complete p)) })
  else ({ st with tick := t }, none)

/-- one round's input -/
structure In where
  newP : List Nat
  hasResults : Bool
  complete : Nat → Bool

def run (c : Cfg) : St → List In → List (Option Payload)
  | _, [] => []
  | st, i :: is => let (st', p) := step c st i.newP i.hasResults i.complete; p :: run c st' is

def finalSt (c : Cfg) : St → List In → St
  | st, [] => st
  | st, i :: is => finalSt c (step c st i.newP i.hasResults i.complete).1 is

/-- a decision as sent back by the peer (operator ids are opaque tokens looked up in `operator_lookup`) -/
structure AsgMsg where
  opIds : List Nat
  cpu : Nat
  ram : Nat
  prio : Nat
  pool : Nat
deriving Repr, Inhabited, DecidableEq

structure SusMsg where
  cid : Nat
  pool : Nat
deriving Repr, Inhabited, DecidableEq

/-- `_parse_assignments`: every operator id must be registered -/
def decodeAsg (registered : List Nat) (m : AsgMsg) : Option AsgMsg :=
  if m.opIds.all (registered.contains ·) then some m else none

end Eudoxia.Rest
