import EudoxiaModel.Extracted
/-! `WorkloadGenerator` as a function of the recorded draw stream (numpy's generator is an input).
    A float draw is given as the exact rational it denotes. -/
namespace Eudoxia.Gen
open Extracted

def Q.le (a b : Q) : Bool := a.num * (b.den : Int) ≤ b.num * (a.den : Int)
def Q.lt (a b : Q) : Bool := a.num * (b.den : Int) < b.num * (a.den : Int)

/-- Python's `int(x)` on the rational `x`: truncation toward zero -/
def Q.trunc (a : Q) : Int := Int.tdiv a.num (a.den : Int)

/-- the if-chain of `generate_segment_from_val`: index of the first row whose interval contains `v` -/
def protoIdxChain (tbl : List Proto) (v : Q) : Option Nat :=
  let rec go (i : Nat) : List Proto → Option Nat
    | [] => none
    | p :: ps =>
      let okLo := match p.lo with | none => true | some l => Q.le l v
      let okHi := match p.hi with | none => true | some h => Q.lt v h
      if okLo && okHi then some i else go (i + 1) ps
  go 0 tbl

/-- the lower thresholds of the table -/
def thresholds (tbl : List Proto) : List Q := tbl.filterMap (·.lo)

/-- number of thresholds at or below `v` -/
def protoIdxCount (tbl : List Proto) (v : Q) : Nat := ((thresholds tbl).filter (fun l => Q.le l v)).length

inductive Draw
  | choice (k : Nat)                 -- index into [INTERACTIVE, QUERY, BATCH_PIPELINE]
  | normal (v : Q)                   -- a float drawn from rng.normal
deriving Repr, Inhabited, DecidableEq

structure Params where
  numPipelines : Nat
  waitMean : Nat          -- waiting_ticks_mean = int(waiting_seconds_mean * ticks_per_second)
deriving Repr, Inhabited

structure PipeOut where
  id : Nat
  prio : Nat
  protos : List Nat       -- prototype index of every operator, in chain order; the query prototype is `queryIdx`
deriving Repr, Inhabited, DecidableEq

def queryIdx : Nat := 99

def prioOfChoice : Nat → Nat
  | 0 => prioInteractive
  | 1 => prioQuery
  | _ => prioBatch

/-- `generate_segment_not_heavy_io`: clamp at the threshold, then the table -/
def notHeavy (v : Q) : Option Nat :=
  let v' := if Q.lt v notHeavyClamp then notHeavyClamp else v
  protoIdxChain protoTable v'

/-- the later operators of a chain: one normal draw each -/
def laterOps : Nat → List Draw → Option (List Nat × List Draw)
  | 0, ds => some ([], ds)
  | n+1, Draw.normal v :: ds =>
    match notHeavy v, laterOps n ds with
    | some i, some (is, rest) => some (i :: is, rest)
    | _, _ => none
  | _, _ => none

/-- operator count: `int(draw)`, at least one -/
def opCount (v : Q) : Nat := if Q.trunc v < 1 then 1 else (Q.trunc v).toNat

/-- a non-query pipeline: a chain of `max 1 ⌊draw⌋` operators, the first one the most I/O-heavy prototype -/
def genChain (counter prio : Nat) : List Draw → Option (PipeOut × List Draw)
  | Draw.normal v :: ds' =>
    (match protoIdxChain protoTable ⟨-2, 1⟩, laterOps (opCount v - 1) ds' with
     | some first, some (later, rest) => some ({ id := counter + 1, prio := prio, protos := first :: later }, rest)
     | _, _ => none)
  | _ => none

/-- one pipeline -/
def genPipeline (counter : Nat) : List Draw → Option (PipeOut × List Draw)
  | Draw.choice k :: ds =>
    if prioOfChoice k == prioQuery then some ({ id := counter + 1, prio := prioOfChoice k, protos := [queryIdx] }, ds)
    else genChain counter (prioOfChoice k) ds
  | _ => none

def genPipelines : Nat → Nat → List Draw → Option (List PipeOut × List Draw)
  | 0, _, ds => some ([], ds)
  | n+1, counter, ds =>
    match genPipeline counter ds with
    | none => none
    | some (p, ds') => match genPipelines n (counter + 1) ds' with
      | none => none
      | some (ps, rest) => some (p :: ps, rest)

structure State where
  sinceLast : Nat := 0
  curWait : Nat := 0
  counter : Nat := 0
deriving Repr, Inhabited

/-- gap draw: `int(draw)`, or the mean when that is not positive -/
def nextWait (P : Params) (v : Q) : Nat := if Q.trunc v ≤ 0 then P.waitMean else (Q.trunc v).toNat

/-- `WorkloadGenerator.run_one_tick` -/
def tick (P : Params) (s : State) (ds : List Draw) : Option (State × List PipeOut × List Draw) :=
  if s.sinceLast == s.curWait then
    match genPipelines P.numPipelines s.counter ds with
    | none => none
    | some (ps, ds') =>
      match ds' with
      | Draw.normal v :: rest =>
        some ({ sinceLast := 0, curWait := nextWait P v, counter := s.counter + P.numPipelines }, ps, rest)
      | _ => none
  else some ({ s with sinceLast := s.sinceLast + 1 }, [], ds)

/-- run `n` ticks; returns per tick the pipelines emitted (none if the draw stream does not fit) -/
def run (P : Params) : Nat → State → List Draw → Option (List (List PipeOut) × List Draw)
  | 0, _, ds => some ([], ds)
  | n+1, s, ds =>
    match tick P s ds with
    | none => none
    | some (s', ps, ds') => match run P n s' ds' with
      | none => none
      | some (rest, dsf) => some (ps :: rest, dsf)

end Eudoxia.Gen
