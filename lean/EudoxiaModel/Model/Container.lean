import EudoxiaModel.Model.Store
/-! `eudoxia/executor/container.py`: the tick generator as an explicit state machine. -/
namespace Eudoxia
open OpState

/-- (I/O ticks, CPU ticks) of every segment of an operator, from the documented formulas -/
def rawTickTable (cfg : Cfg) (cpu : Nat) (segs : List Seg) : List (Nat × Nat) :=
  segs.map (fun sg => (sg.ioTicks cfg, sg.cpuTicks cfg cpu))

def tickSum (t : List (Nat × Nat)) : Nat := (t.map (fun x => x.1 + x.2)).sum

/-- an operator occupies at least one tick: if all of its segments round down to zero ticks,
    the last one runs for a single (CPU phase) tick -/
def opTickTable (cfg : Cfg) (cpu : Nat) (segs : List Seg) : List (Nat × Nat) :=
  let t := rawTickTable cfg cpu segs
  if !segs.isEmpty && tickSum t == 0 then t.dropLast ++ [(0, 1)] else t

/-- position of the generator `_tick_generator`, between two `yield`s -/
structure Pos where
  ops : List (Nat × List Seg)            -- operators not yet finished, with their segments
  started : Bool := false                -- has the head operator's RUNNING transition happened
  segs : List (Seg × Nat × Nat) := []    -- remaining segments of the head operator with their (io, cpu) ticks
  i : Nat := 0                           -- next iteration of the current segment
  opDone : Nat := 0                      -- ticks of the head operator already executed
  opTotal : Nat := 0                     -- ticks the head operator takes in all
deriving Repr, Inhabited

structure Ctr where
  cid : Nat
  ops : List Nat
  cpu : Nat
  ram : Nat
  prio : Nat := 3
  pool : Nat := 0
  pos : Pos
  frozen : Bool := false        -- inside `while self._current_memory > self.assignment.ram: yield`
  mem : Nat := 0
  canSuspend : Bool := false
  completed : Bool := false
  err : Bool := false
  elapsed : Nat := 0
  curOpIdx : Nat := 0
  suspLeft : Int := 0
deriving Repr, Inhabited

/-- `set_current_memory_usage`: new container and the pool's updated usage counter -/
def Ctr.setMem (c : Ctr) (m : Nat) (cons : Int) : Ctr × Int :=
  ({ c with mem := m }, cons + ((m : Int) - (c.mem : Int)))

/-- memory demand in iteration `i` of a segment with `io` I/O ticks -/
def segMem (cfg : Cfg) (sg : Seg) (io : Nat) (i : Nat) : Nat :=
  if i < io then (match sg.fixed with | some m => m | none => (i + 1) * cfg.g) else sg.peak

/-- move the generator to the next position that has a tick to run, starting operators (→ RUNNING) on the way;
    operators and segments with nothing (left) to run are stepped over -/
def seek (w : Store) (cfg : Cfg) (c : Ctr) : Except Err (Store × Ctr) :=
  match h : c.pos.ops with
  | [] => .error .stopIter
  | (r, allsegs) :: rest =>
    if hs : !c.pos.started then
      match w.transition r running with
      | .error e => .error e
      | .ok w' =>
        seek w' cfg { c with pos := { c.pos with started := true, segs := allsegs.zip (opTickTable cfg c.cpu allsegs), i := 0, opDone := 0,
                                                   opTotal := tickSum (opTickTable cfg c.cpu allsegs) } }
    else match hsg : c.pos.segs with
      | [] => seek w cfg { c with pos := { ops := rest, started := false, segs := [], i := 0, opDone := 0, opTotal := 0 } }
      | (_, io, cpuT) :: more =>
        if c.pos.i < io + cpuT then .ok (w, c)
        else seek w cfg { c with pos := { c.pos with segs := more, i := 0 } }
termination_by (c.pos.ops.length, (if c.pos.started then 0 else 1), c.pos.segs.length)
decreasing_by
  all_goals simp_wf
  · simp [h] at *; right; simp_all; exact Prod.Lex.left _ _ (by omega)
  · simp [h]; left; omega
  · simp [h, hsg] at *; right; simp_all; exact Prod.Lex.right _ (by omega)

/-- one tick of operator `r` with memory demand `m` (`last` = no operator follows in this container) -/
def runAt (w : Store) (c : Ctr) (cons : Int) (r : Nat) (last : Bool) (m : Nat) : Except Err (Store × Ctr × Int) :=
  if m > c.ram then .ok (w, { c with mem := m, frozen := true }, cons + ((m : Int) - (c.mem : Int)))
  else if c.pos.opDone + 1 == c.pos.opTotal then
    match w.transition r completed with
    | .error e => .error e
    | .ok w' =>
      if last then
        .ok (w', { c with mem := 0, canSuspend := false, completed := true, curOpIdx := c.curOpIdx + 1,
                          pos := { c.pos with i := c.pos.i + 1, opDone := c.pos.opDone + 1 } }, cons + ((m : Int) - (c.mem : Int)) + ((0 : Int) - (m : Int)))
      else
        .ok (w', { c with mem := m, canSuspend := true, curOpIdx := c.curOpIdx + 1,
                          pos := { c.pos with i := c.pos.i + 1, opDone := c.pos.opDone + 1 } }, cons + ((m : Int) - (c.mem : Int)))
  else .ok (w, { c with mem := m, canSuspend := false, pos := { c.pos with i := c.pos.i + 1, opDone := c.pos.opDone + 1 } },
            cons + ((m : Int) - (c.mem : Int)))

/-- run the tick at the current position (which `seek` has made runnable) -/
def runTick (cfg : Cfg) (w : Store) (c : Ctr) (cons : Int) : Except Err (Store × Ctr × Int) :=
  match c.pos.ops, c.pos.segs with
  | (r, _) :: rest, (sg, io, _) :: _ => runAt w c cons r rest.isEmpty (segMem cfg sg io c.pos.i)
  | _, _ => .error .stopIter

/-- advance the generator to its next `yield` (`next(self._tick_iter)`) -/
def advance (cfg : Cfg) (w : Store) (c : Ctr) (cons : Int) : Except Err (Store × Ctr × Int) :=
  if c.frozen then .ok (w, c, cons) else
  match seek w cfg c with
  | .error e => .error e
  | .ok (w1, c1) => runTick cfg w1 c1 cons

/-- `Container.tick` -/
def Ctr.tick (cfg : Cfg) (w : Store) (c : Ctr) (cons : Int) : Except Err (Store × Ctr × Int) :=
  if c.completed then .ok (w, c, cons) else
  match advance cfg w c cons with
  | .error e => .error e
  | .ok (w', c', cons') => .ok (w', { c' with elapsed := c'.elapsed + 1 }, cons')

/-- operators from the current index on -/
def Ctr.unfinished (c : Ctr) : List Nat := c.ops.drop c.curOpIdx

/-- `Container.kill` -/
def Ctr.kill (w : Store) (c : Ctr) (cons : Int) : Except Err (Store × Ctr × Int) :=
  match w.transAll failed c.unfinished with
  | .error e => .error e
  | .ok w' =>
    let (c', cons') := { c with completed := true, err := true }.setMem 0 cons
    .ok (w', c', cons')

/-- write-out ticks of a suspension: ⌊ram/20 · tps⌋, at least one -/
def Ctr.writeOutTicks (cfg : Cfg) (c : Ctr) : Nat := max 1 (c.ram / cfg.g)

/-- `Container.suspend_container` -/
def Ctr.suspend (cfg : Cfg) (w : Store) (c : Ctr) : Except Err (Store × Ctr) :=
  match w.transAll suspending c.unfinished with
  | .error e => .error e
  | .ok w' => .ok (w', { c with suspLeft := (c.writeOutTicks cfg : Nat) })

/-- `Container.suspend_container_tick` -/
def Ctr.suspendTick (w : Store) (c : Ctr) : Except Err (Store × Ctr) :=
  if c.suspLeft - 1 == 0 then
    match w.transAll pending c.unfinished with
    | .error e => .error e
    | .ok w' => .ok (w', { c with suspLeft := c.suspLeft - 1 })
  else .ok (w, { c with suspLeft := c.suspLeft - 1 })

/-- the generator position of a fresh container -/
def mkPos (w : Store) (ops : List Nat) : Pos :=
  { ops := ops.map (fun r => (r, w.segsOf r)) }

end Eudoxia
