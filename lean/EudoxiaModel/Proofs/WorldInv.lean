import EudoxiaModel.Proofs.PoolInv
import EudoxiaModel.Proofs.Reach
/-! The C03 invariant for all pools of a world, through the executor step and every reachable world. -/
namespace Eudoxia

def World.PoolsGood (w : World) : Prop := ∀ p ∈ w.pools, p.Good w.cfg w.nextCid

theorem good_mono {cfg : Cfg} {p : Pool} {n n' : Nat} (g : p.Good cfg n) (h : n ≤ n') : p.Good cfg n' :=
  ⟨g.1.mono h, g.2⟩

theorem execPools_good (cfg : Cfg) (sus : List (Nat × Nat)) (asgs : List Asg) :
    ∀ (todo : List Pool) (s : Store) (n : Nat) (done : List Pool) (res : List Res),
    (∀ p ∈ done, p.Good cfg n) → (∀ p ∈ todo, p.Good cfg n) →
    (∀ s' ps n' res', execPools cfg sus asgs s n done todo res = .ok (s', ps, n', res') →
      (∀ p ∈ ps, p.Good cfg n') ∧ n ≤ n' ∧ ps.map (fun p => (p.capC, p.capR)) = (done ++ todo).map (fun p => (p.capC, p.capR))) ∧
    (∀ e s' ps n', execPools cfg sus asgs s n done todo res = .error (e, some (s', ps, n')) →
      (∀ p ∈ ps, p.Good cfg n') ∧ n ≤ n' ∧ ps.map (fun p => (p.capC, p.capR)) = (done ++ todo).map (fun p => (p.capC, p.capR))) := by
  intro todo
  induction todo with
  | nil =>
    intro s n done res hd _
    constructor
    · intro s' ps n' res' h; simp [execPools] at h; obtain ⟨_, rfl, rfl, _⟩ := h
      exact ⟨hd, Nat.le_refl _, by simp⟩
    · intro e s' ps n' h; simp [execPools] at h
  | cons p todo ih =>
    intro s n done res hd ht
    have gp : p.Good cfg n := ht p (by simp)
    obtain ⟨pok, perr⟩ := poolTick_good (w := s) (cm := cmdsFor done.length sus asgs) gp
    constructor
    · intro s' ps n' res' h
      unfold execPools at h
      split at h
      · cases h
      · cases h
      · rename_i s1 p1 n1 r hp
        obtain ⟨g1, hn1, c1, r1⟩ := pok _ _ _ _ hp
        obtain ⟨i1, i2, i3⟩ := (ih s1 n1 (done ++ [p1]) (res ++ r)
          (by intro q hq; rcases List.mem_append.mp hq with h1 | h1
              · exact good_mono (hd q h1) hn1
              · simp at h1; subst h1; exact g1)
          (by intro q hq; exact good_mono (ht q (by simp [hq])) hn1)).1 _ _ _ _ h
        refine ⟨i1, by omega, ?_⟩
        rw [i3]; simp [c1, r1]
    · intro e s' ps n' h
      unfold execPools at h
      split at h
      · simp at h
      · rename_i s1 p1 n1 hp
        simp at h; obtain ⟨_, rfl, rfl, rfl⟩ := h
        obtain ⟨g1, hn1, c1, r1⟩ := perr _ _ _ _ hp
        refine ⟨?_, hn1, by simp [c1, r1]⟩
        intro q hq
        rcases List.mem_append.mp hq with h1 | h1
        · exact good_mono (hd q h1) hn1
        · rcases List.mem_cons.mp h1 with rfl | h2
          · exact g1
          · exact good_mono (ht q (by simp [h2])) hn1
      · rename_i s1 p1 n1 r hp
        obtain ⟨g1, hn1, c1, r1⟩ := pok _ _ _ _ hp
        obtain ⟨i1, i2, i3⟩ := (ih s1 n1 (done ++ [p1]) (res ++ r)
          (by intro q hq; rcases List.mem_append.mp hq with h1 | h1
              · exact good_mono (hd q h1) hn1
              · simp at h1; subst h1; exact g1)
          (by intro q hq; exact good_mono (ht q (by simp [hq])) hn1)).2 _ _ _ _ h
        refine ⟨i1, by omega, ?_⟩
        rw [i3]; simp [c1, r1]

def World.caps (w : World) : List (Nat × Nat) := w.pools.map (fun p => (p.capC, p.capR))

theorem execTick_good_ok {w w' : World} {sus : List (Nat × Nat)} {asgs : List Asg} {res : List Res}
    (g : w.PoolsGood) (h : w.execTick sus asgs = .ok (w', res)) : w'.PoolsGood ∧ w'.caps = w.caps ∧ w'.cfg = w.cfg := by
  unfold World.execTick at h
  split at h
  · cases h
  · split at h
    · cases h
    · cases h
    · rename_i s ps n r hp
      simp at h; obtain ⟨rfl, _⟩ := h
      obtain ⟨i1, _, i3⟩ := (execPools_good w.cfg sus asgs w.pools w.store w.nextCid [] [] (by simp) g).1 _ _ _ _ hp
      exact ⟨i1, by simpa [World.caps] using i3, rfl⟩

theorem execTick_good_err {w w' : World} {sus : List (Nat × Nat)} {asgs : List Asg} {e : Err}
    (g : w.PoolsGood) (h : w.execTick sus asgs = .error (e, some w')) : w'.PoolsGood ∧ w'.caps = w.caps ∧ w'.cfg = w.cfg := by
  unfold World.execTick at h
  split at h
  · simp at h; obtain ⟨_, rfl⟩ := h; exact ⟨g, rfl, rfl⟩
  · split at h
    · simp at h
    · rename_i s ps n hp
      simp at h; obtain ⟨_, rfl⟩ := h
      obtain ⟨i1, _, i3⟩ := (execPools_good w.cfg sus asgs w.pools w.store w.nextCid [] [] (by simp) g).2 _ _ _ _ hp
      exact ⟨i1, by simpa [World.caps] using i3, rfl⟩
    · cases h

theorem mkAssignment_pools_ok {w w' : World} {a : Asg} (h : w.mkAssignment a = .ok w') :
    w'.pools = w.pools ∧ w'.cfg = w.cfg ∧ w'.nextCid = w.nextCid := by
  unfold World.mkAssignment at h
  split at h
  · cases h
  · split at h
    · cases h
    · split at h
      · cases h
      · split at h
        · cases h
        · simp at h; rw [← h]; exact ⟨rfl, rfl, rfl⟩

theorem mkAssignment_pools_err {w w' : World} {a : Asg} {e : Err} (h : w.mkAssignment a = .error (e, w')) :
    w'.pools = w.pools ∧ w'.cfg = w.cfg ∧ w'.nextCid = w.nextCid := by
  unfold World.mkAssignment at h
  split at h
  · simp at h; rw [← h.2]; exact ⟨rfl, rfl, rfl⟩
  · split at h
    · simp at h; rw [← h.2]; exact ⟨rfl, rfl, rfl⟩
    · split at h
      · simp at h; rw [← h.2]; exact ⟨rfl, rfl, rfl⟩
      · split at h
        · simp at h; rw [← h.2]; exact ⟨rfl, rfl, rfl⟩
        · cases h

theorem reach_good {w w' : World} (h : Reach w w') (g : w.PoolsGood) :
    w'.PoolsGood ∧ w'.caps = w.caps ∧ w'.cfg = w.cfg := by
  induction h with
  | refl => exact ⟨g, rfl, rfl⟩
  | assignOk a _ h2 ih =>
    obtain ⟨i1, i2, i3⟩ := ih
    obtain ⟨p1, p2, p3⟩ := mkAssignment_pools_ok h2
    refine ⟨?_, by simp [World.caps, p1] at *; exact i2, by rw [p2, i3]⟩
    intro p hp; rw [p1] at hp; rw [p2, p3]; exact i1 p hp
  | assignErr a e _ h2 ih =>
    obtain ⟨i1, i2, i3⟩ := ih
    obtain ⟨p1, p2, p3⟩ := mkAssignment_pools_err h2
    refine ⟨?_, by simp [World.caps, p1] at *; exact i2, by rw [p2, i3]⟩
    intro p hp; rw [p1] at hp; rw [p2, p3]; exact i1 p hp
  | tickOk sus asgs res _ h2 ih =>
    obtain ⟨i1, i2, i3⟩ := ih
    obtain ⟨j1, j2, j3⟩ := execTick_good_ok i1 h2
    exact ⟨j1, by rw [j2, i2], by rw [j3, i3]⟩
  | tickErr sus asgs e _ h2 ih =>
    obtain ⟨i1, i2, i3⟩ := ih
    obtain ⟨j1, j2, j3⟩ := execTick_good_err i1 h2
    exact ⟨j1, by rw [j2, i2], by rw [j3, i3]⟩

end Eudoxia
