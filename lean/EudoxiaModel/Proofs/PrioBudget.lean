import EudoxiaModel.Model.Sched.Priority
import EudoxiaModel.Proofs.BestPool
import EudoxiaModel.Proofs.Built
/-! Helper lemmas for the priority / priority-pool rounds (budget bookkeeping of the per-round pool snapshots; every assignment comes out of the checked
    constructor).  The property theorems built on them are in `Props/C08.lean`; the names stay in `Eudoxia.C08`. -/
namespace Eudoxia.C08
open Eudoxia Eudoxia.Prio OpState Extracted

def NonNegS (sn : List Snap) : Prop := ∀ s ∈ sn, 0 ≤ s.availC ∧ 0 ≤ s.availR

theorem getD_nonneg {sn : List Snap} (h : NonNegS sn) (p : Nat) : 0 ≤ (sn.getD p default).availC ∧ 0 ≤ (sn.getD p default).availR := by
  rw [List.getD_eq_getElem?_getD]
  cases hg : sn[p]? with
  | none => simp; decide
  | some s => simp; exact h s (List.mem_of_getElem? hg)

theorem snapSub_getD (sn : List Snap) (k p cpu ram : Nat) (hk : k < sn.length) :
    (snapSub sn k cpu ram).getD p default =
      if p = k then { sn.getD k default with availC := (sn.getD k default).availC - cpu, availR := (sn.getD k default).availR - ram }
      else sn.getD p default := by
  unfold snapSub
  rw [List.getD_eq_getElem?_getD, List.getElem?_set]
  by_cases e : k = p
  · subst e; simp [hk]
  · simp [e, List.getD_eq_getElem?_getD]
    intro h; exact absurd h.symm e

theorem snapSub_nonneg (sn : List Snap) (k cpu ram : Nat) (h : NonNegS sn)
    (hc : (cpu : Int) ≤ (sn.getD k default).availC) (hr : (ram : Int) ≤ (sn.getD k default).availR) : NonNegS (snapSub sn k cpu ram) := by
  intro s hs
  unfold snapSub at hs
  rcases List.mem_or_eq_of_mem_set hs with hs | rfl
  · exact h s hs
  · simp only; omega

theorem cpuReq_append (a b : List Asg) : cpuReq (a ++ b) = cpuReq a + cpuReq b := by simp [cpuReq]
theorem ramReq_append (a b : List Asg) : ramReq (a ++ b) = ramReq a + ramReq b := by simp [ramReq]

def on (as : List Asg) (p : Nat) : List Asg := as.filter (·.pool == p)

theorem on_cons (a : Asg) (as : List Asg) (p : Nat) : on (a :: as) p = if a.pool = p then a :: on as p else on as p := by
  unfold on; rw [List.filter_cons]; by_cases h : a.pool = p <;> simp [h]

theorem on_append (a b : List Asg) (p : Nat) : on (a ++ b) p = on a p ++ on b p := by simp [on]

/-- what the scheduler still shows free on pool `p` plus what it has handed out there equals what was free before -/
def Budget (sn sn' : List Snap) (new : List Asg) : Prop :=
  ∀ p, (sn'.getD p default).availC + cpuReq (on new p) = (sn.getD p default).availC ∧
       (sn'.getD p default).availR + ramReq (on new p) = (sn.getD p default).availR

theorem budget_refl (sn : List Snap) : Budget sn sn [] := by intro p; simp [on, cpuReq, ramReq]

theorem budget_step {sn sn' : List Snap} {new : List Asg} {k cpu ram : Nat} (a : Asg) (hk : k < sn.length)
    (ha : a.pool = k ∧ a.cpu = cpu ∧ a.ram = ram) (h : Budget (snapSub sn k cpu ram) sn' new) : Budget sn sn' (a :: new) := by
  intro p
  obtain ⟨h1, h2⟩ := h p
  rw [snapSub_getD _ _ _ _ _ hk] at h1 h2
  rw [on_cons, ha.1]
  by_cases e : k = p
  · subst e
    simp only [↓reduceIte] at h1 h2 ⊢
    simp only [cpuReq, ramReq, List.map_cons, List.sum_cons, ha.2.1, ha.2.2] at *
    omega
  · have e' : ¬ p = k := fun x => e x.symm
    simp only [e, e', ↓reduceIte] at h1 h2 ⊢
    exact ⟨h1, h2⟩

/-! ### sizes fit -/

theorem newSize_fits (q : Nat) (s : Snap) (h0 : 0 < s.availC) (h1 : 0 < s.availR) :
    ((newSize q s).1 : Int) ≤ s.availC ∧ ((newSize q s).2 : Int) ≤ s.availR := by
  simp only [newSize]
  split
  · refine ⟨?_, ?_⟩ <;> simp only <;> omega
  · rename_i h
    simp only [Bool.or_eq_true, decide_eq_true_eq, not_or, Int.not_le] at h
    exact ⟨Int.le_of_lt h.1, Int.le_of_lt h.2⟩

theorem fits_of_eq {q : Nat} {s : Snap} {jc jr : Nat} (h : some (newSize q s) = some (jc, jr))
    (hn : ((newSize q s).1 : Int) ≤ s.availC ∧ ((newSize q s).2 : Int) ≤ s.availR) :
    (jc : Int) ≤ s.availC ∧ (jr : Int) ≤ s.availR := by
  have e := Option.some.inj h
  have e1 : jc = (newSize q s).1 := by rw [e]
  have e2 : jr = (newSize q s).2 := by rw [e]
  subst e1 e2
  exact hn

theorem prSize_fits (q : Nat) (s : Snap) (job : Job) (jc jr : Nat) (h0 : 0 < s.availC) (h1 : 0 < s.availR)
    (h : prSize q s job = some (jc, jr)) : (jc : Int) ≤ s.availC ∧ (jr : Int) ≤ s.availR := by
  unfold prSize at h
  have hn := newSize_fits q s h0 h1
  split at h
  · split at h
    · split at h
      · cases h
      · rename_i hfit
        split at h
        · cases h
        · cases h
          simp only [Bool.or_eq_true, decide_eq_true_eq, not_or, Int.not_lt] at hfit
          exact hfit
    · split at h
      · rename_i hfit
        cases h
        simp only [Bool.and_eq_true, decide_eq_true_eq] at hfit
        omega
      · exact fits_of_eq h hn
  · exact fits_of_eq h hn

theorem ppSize_fits (q : Nat) (s : Snap) (job : Job) (jc jr : Nat) (h0 : 0 < s.availC) (h1 : 0 < s.availR)
    (h : ppSize q s job = some (jc, jr)) : (jc : Int) ≤ s.availC ∧ (jr : Int) ≤ s.availR := by
  unfold ppSize at h
  have hn := newSize_fits q s h0 h1
  split at h
  · split at h
    · split at h
      · cases h
      · split at h
        · cases h; exact ⟨by omega, by omega⟩
        · rename_i hfit
          cases h
          simp only [Bool.or_eq_true, decide_eq_true_eq, not_or, Int.not_le] at hfit
          omega
    · split at h
      · rename_i hfit
        simp only [Bool.and_eq_true, decide_eq_true_eq] at hfit
        split at h
        · cases h; exact ⟨by omega, by omega⟩
        · cases h; exact hfit
      · exact fits_of_eq h hn
  · exact fits_of_eq h hn

/-! ### one queue never asks a pool for more than it has -/

theorem prQueue_budget (q : Nat) : ∀ (jobs : List Job) (w : World) (sn : List Snap) (k : Nat) (acc : List Asg)
    (w' : World) (sn' : List Snap) (k' : Nat) (out : List Asg),
    prQueue q w jobs sn k acc = .ok (w', sn', k', out) → NonNegS sn →
    NonNegS sn' ∧ sn'.length = sn.length ∧ ∃ new, out = acc ++ new ∧ Budget sn sn' new := by
  intro jobs
  induction jobs with
  | nil =>
    intro w sn k acc w' sn' k' out h hn
    simp [prQueue] at h
    obtain ⟨_, rfl, _, rfl⟩ := h
    exact ⟨hn, rfl, [], by simp, budget_refl _⟩
  | cons job rest ih =>
    intro w sn k acc w' sn' k' out h hn
    unfold prQueue at h
    split at h
    · simp at h
      obtain ⟨_, rfl, _, rfl⟩ := h
      exact ⟨hn, rfl, [], by simp, budget_refl _⟩
    · rename_i pool hb
      obtain ⟨hp, hopen, _⟩ := C12.bestPool_spec sn pool hb
      split at h
      · exact ih _ _ _ _ _ _ _ _ h hn
      · rename_i jc jr hsz
        split at h
        · cases h
        · rename_i w1 a1 hmk
          obtain ⟨ea, _⟩ := mkA_ok hmk
          obtain ⟨fc, fr⟩ := prSize_fits q _ job jc jr hopen.1 hopen.2 hsz
          obtain ⟨n1, n2, new, e, b⟩ := ih _ _ _ _ _ _ _ _ h (snapSub_nonneg sn pool jc jr hn fc fr)
          refine ⟨n1, by rw [n2]; simp [snapSub], a1 :: new, by simp [e], budget_step a1 hp (by rw [ea]; exact ⟨rfl, rfl, rfl⟩) b⟩

theorem ppQueue_budget (q pool : Nat) : ∀ (jobs : List Job) (w : World) (sn : List Snap) (k : Nat) (acc : List Asg)
    (w' : World) (sn' : List Snap) (k' : Nat) (out : List Asg),
    ppQueue q pool w jobs sn k acc = .ok (w', sn', k', out) → NonNegS sn →
    NonNegS sn' ∧ sn'.length = sn.length ∧ ∃ new, out = acc ++ new ∧ Budget sn sn' new := by
  intro jobs
  induction jobs with
  | nil =>
    intro w sn k acc w' sn' k' out h hn
    simp [ppQueue] at h
    obtain ⟨_, rfl, _, rfl⟩ := h
    exact ⟨hn, rfl, [], by simp, budget_refl _⟩
  | cons job rest ih =>
    intro w sn k acc w' sn' k' out h hn
    unfold ppQueue at h
    split at h
    · split at h
      · simp at h
        obtain ⟨_, rfl, _, rfl⟩ := h
        exact ⟨hn, rfl, [], by simp, budget_refl _⟩
      · cases h
    · rename_i hz
      simp only [Bool.or_eq_true, beq_iff_eq, not_or] at hz
      have hnn := getD_nonneg hn pool
      have hp : pool < sn.length := by
        apply Decidable.byContradiction
        intro hge
        have : sn.getD pool default = default := by
          rw [List.getD_eq_getElem?_getD, List.getElem?_eq_none (by omega)]; rfl
        rw [this] at hz
        exact hz.1 rfl
      split at h
      · exact ih _ _ _ _ _ _ _ _ h hn
      · rename_i jc jr hsz
        split at h
        · cases h
        · rename_i w1 a1 hmk
          obtain ⟨ea, _⟩ := mkA_ok hmk
          obtain ⟨fc, fr⟩ := ppSize_fits q _ job jc jr (by omega) (by omega) hsz
          obtain ⟨n1, n2, new, e, b⟩ := ih _ _ _ _ _ _ _ _ h (snapSub_nonneg sn pool jc jr hn fc fr)
          refine ⟨n1, by rw [n2]; simp [snapSub], a1 :: new, by simp [e], budget_step a1 hp (by rw [ea]; exact ⟨rfl, rfl, rfl⟩) b⟩

theorem budget_trans {a b c : List Snap} {x y : List Asg} (h1 : Budget a b x) (h2 : Budget b c y) : Budget a c (x ++ y) := by
  intro p
  obtain ⟨p1, p2⟩ := h1 p
  obtain ⟨q1, q2⟩ := h2 p
  rw [on_append, cpuReq_append, ramReq_append]
  omega

theorem snaps_getD (w : World) (p : Nat) (hp : p < w.pools.length) :
    ((snaps w).getD p default).availC = (w.pools.getD p default).availC ∧ ((snaps w).getD p default).availR = (w.pools.getD p default).availR := by
  unfold snaps
  rw [List.getD_eq_getElem?_getD, List.getD_eq_getElem?_getD, List.getElem?_map]
  rw [List.getElem?_eq_getElem hp]
  simp

/-- what three chained queue runs hand out stays within what each pool had free, so the executor's `verify_valid_assignment` accepts it -/
theorem accepted_of_budget (w : World) (snEnd : List Snap) (asgs : List Asg) (hb : Budget (snaps w) snEnd asgs) (hn : NonNegS snEnd)
    (p : Nat) (hp : p < w.pools.length) : verifyAssignments w.cfg (w.pools.getD p default) (on asgs p) = .ok () := by
  obtain ⟨b1, b2⟩ := hb p
  obtain ⟨s1, s2⟩ := snaps_getD w p hp
  obtain ⟨n1, n2⟩ := getD_nonneg hn p
  unfold verifyAssignments
  rw [if_neg (by omega)]
  split
  · rename_i h
    simp only [Bool.and_eq_true, Bool.not_eq_true', decide_eq_true_eq] at h
    omega
  · rfl

theorem prQueue_built (q : Nat) : ∀ (jobs : List Job) (w : World) (sn : List Snap) (k : Nat) (acc : List Asg)
    (w' : World) (sn' : List Snap) (k' : Nat) (out : List Asg),
    prQueue q w jobs sn k acc = .ok (w', sn', k', out) → ∃ new, out = acc ++ new ∧ Built w new w' := by
  intro jobs
  induction jobs with
  | nil =>
    intro w sn k acc w' sn' k' out h
    simp [prQueue] at h
    obtain ⟨rfl, _, _, rfl⟩ := h
    exact ⟨[], by simp, .nil _⟩
  | cons job rest ih =>
    intro w sn k acc w' sn' k' out h
    unfold prQueue at h
    split at h
    · simp at h
      obtain ⟨rfl, _, _, rfl⟩ := h
      exact ⟨[], by simp, .nil _⟩
    · split at h
      · exact ih _ _ _ _ _ _ _ _ h
      · split at h
        · cases h
        · rename_i w1 a1 hmk
          obtain ⟨_, hm⟩ := mkA_ok hmk
          obtain ⟨new, e, b⟩ := ih _ _ _ _ _ _ _ _ h
          exact ⟨a1 :: new, by simp [e], .cons hm b⟩

theorem ppQueue_built (q pool : Nat) : ∀ (jobs : List Job) (w : World) (sn : List Snap) (k : Nat) (acc : List Asg)
    (w' : World) (sn' : List Snap) (k' : Nat) (out : List Asg),
    ppQueue q pool w jobs sn k acc = .ok (w', sn', k', out) → ∃ new, out = acc ++ new ∧ Built w new w' := by
  intro jobs
  induction jobs with
  | nil =>
    intro w sn k acc w' sn' k' out h
    simp [ppQueue] at h
    obtain ⟨rfl, _, _, rfl⟩ := h
    exact ⟨[], by simp, .nil _⟩
  | cons job rest ih =>
    intro w sn k acc w' sn' k' out h
    unfold ppQueue at h
    split at h
    · split at h
      · simp at h
        obtain ⟨rfl, _, _, rfl⟩ := h
        exact ⟨[], by simp, .nil _⟩
      · cases h
    · split at h
      · exact ih _ _ _ _ _ _ _ _ h
      · split at h
        · cases h
        · rename_i w1 a1 hmk
          obtain ⟨_, hm⟩ := mkA_ok hmk
          obtain ⟨new, e, b⟩ := ih _ _ _ _ _ _ _ _ h
          exact ⟨a1 :: new, by simp [e], .cons hm b⟩

theorem findCtr_of_mem_nodup : ∀ (l : List Ctr) (c : Ctr), c ∈ l → (l.map (·.cid)).Nodup → findCtr l c.cid = some c := by
  intro l
  induction l with
  | nil => intro c h; simp at h
  | cons x xs ih =>
    intro c hc hnd
    simp only [List.map_cons, List.nodup_cons] at hnd
    unfold findCtr
    rw [List.find?_cons]
    rcases List.mem_cons.mp hc with rfl | hc
    · simp
    · have : (x.cid == c.cid) = false := by
        simp only [beq_eq_false_iff_ne, ne_eq]
        intro e
        exact hnd.1 (e ▸ List.mem_map.mpr ⟨c, hc, rfl⟩)
      rw [this]
      exact ih c hc hnd.2

/-- the executor's `verify_valid_suspend` accepts a list of requests each of which names a suspendable active container (container numbers being
distinct within the pool — part of the pool invariant `PoolInv`, proved for every reachable world) -/
theorem verifySuspends_ok (p : Pool) (hnd : (p.active.map (·.cid)).Nodup) : ∀ (l : List Nat),
    (∀ cid ∈ l, ∃ c ∈ p.active, c.cid = cid ∧ c.canSuspend = true) → verifySuspends p l = .ok () := by
  intro l
  induction l with
  | nil => intro _; rfl
  | cons x xs ih =>
    intro h
    obtain ⟨c, hc, e, hs⟩ := h x (by simp)
    unfold verifySuspends
    rw [← e, findCtr_of_mem_nodup _ c hc hnd]
    simp only [hs, ↓reduceIte]
    exact ih (fun cid hcid => h cid (List.mem_cons_of_mem _ hcid))

end Eudoxia.C08
