import EudoxiaModel.Model.Dag
/-! The DAG iterator visits every node exactly once, parents first (C01, third sentence). Core Lean only. -/
namespace Eudoxia.Dag
open List

theorem topo_nil (d : Dag) : Topo d [] := by
  intro l1 x l2 h; simp at h

theorem topo_snoc {d : Dag} {l : List Nat} {x : Nat} (h : Topo d l)
    (hx : ∀ p ∈ parentsOf d x, p ∈ l) : Topo d (l ++ [x]) := by
  intro l1 y l2 e p hp
  rcases List.eq_nil_or_concat l2 with rfl | ⟨l2', z, rfl⟩
  · -- l ++ [x] = l1 ++ [y]
    have := List.append_inj' e (by simp)
    obtain ⟨h1, h2⟩ := this
    simp at h2; subst h2; subst h1; exact hx p hp
  · -- l ++ [x] = l1 ++ y :: (l2' ++ [z])
    have e' : l ++ [x] = (l1 ++ y :: l2') ++ [z] := by simpa using e
    have := List.append_inj' e' (by simp)
    obtain ⟨h1, _⟩ := this
    exact h l1 y l2' h1 p hp

structure Inv (d : Dag) (s : It) : Prop where
  nodup : (s.returned ++ s.queue).Nodup
  bound : ∀ x ∈ s.returned ++ s.queue, x < d.length
  qready : ∀ x ∈ s.queue, ∀ p ∈ parentsOf d x, p ∈ s.returned
  topo : Topo d s.returned
  complete : ∀ x, x < d.length → (∀ p ∈ parentsOf d x, p ∈ s.returned) → x ∈ s.returned ++ s.queue

theorem mem_children {d : Dag} {a x : Nat} : x ∈ children d a ↔ x < d.length ∧ a ∈ parentsOf d x := by
  unfold children
  simp only [List.mem_flatMap, List.mem_range, List.mem_replicate]
  constructor
  · rintro ⟨i, hi, hne, rfl⟩
    exact ⟨hi, List.count_pos_iff.mp (Nat.pos_of_ne_zero hne)⟩
  · rintro ⟨hx, ha⟩
    exact ⟨x, hx, Nat.ne_of_gt (List.count_pos_iff.mpr ha), rfl⟩

theorem children_nodup {d : Dag} (wf : WF d) (a : Nat) : (children d a).Nodup := by
  unfold children
  -- each replicate has length ≤ 1, so this is a sublist of range
  have hsub : ∀ (l : List Nat), (l.flatMap (fun i => List.replicate ((parentsOf d i).count a) i)).Sublist l := by
    intro l
    induction l with
    | nil => simp
    | cons i l ih =>
      simp only [List.flatMap_cons]
      have hc : (parentsOf d i).count a ≤ 1 := List.nodup_iff_count.mp (wf.nodup i) a
      rcases Nat.le_one_iff_eq_zero_or_eq_one.mp hc with h0 | h1
      · rw [h0]; simpa using ih.cons i
      · rw [h1]; simpa using ih.cons_cons i
  exact (hsub _).nodup List.nodup_range

theorem ready_iff {d : Dag} {ret : List Nat} {x : Nat} : ready d ret x = true ↔ ∀ p ∈ parentsOf d x, p ∈ ret := by
  simp [ready, List.all_eq_true]

theorem step_inv {d : Dag} (wf : WF d) {s : It} (h : Inv d s) {c : Nat} {s' : It}
    (hs : stepIt d s = some (c, s')) : Inv d s' ∧ s'.returned = s.returned ++ [c] := by
  unfold stepIt at hs
  cases hq : s.queue with
  | nil => simp [hq] at hs
  | cons c0 q =>
    simp only [hq, Option.some.injEq, Prod.mk.injEq] at hs
    obtain ⟨rfl, rfl⟩ := hs
    refine ⟨?_, rfl⟩
    have hnd := h.nodup; rw [hq] at hnd
    have hbd := h.bound; rw [hq] at hbd
    have hqr := h.qready; rw [hq] at hqr
    have hcm := h.complete; rw [hq] at hcm
    have hc_notret : c0 ∉ s.returned := by
      intro hmem
      have := (List.nodup_append.mp hnd).2.2 c0 hmem c0 (by simp)
      exact this rfl
    have hrq : (s.returned ++ [c0]) ++ q = s.returned ++ c0 :: q := by simp
    -- facts about the added elements
    have hadd : ∀ x, x ∈ (children d c0).filter (fun ch => !(s.returned ++ [c0]).contains ch && ready d (s.returned ++ [c0]) ch) →
        x < d.length ∧ c0 ∈ parentsOf d x ∧ x ∉ s.returned ++ [c0] ∧ (∀ p ∈ parentsOf d x, p ∈ s.returned ++ [c0]) := by
      intro x hx
      rw [List.mem_filter] at hx
      obtain ⟨hch, hf⟩ := hx
      rw [Bool.and_eq_true] at hf
      obtain ⟨hf1, hf2⟩ := hf
      have := mem_children.mp hch
      refine ⟨this.1, this.2, ?_, ready_iff.mp hf2⟩
      simpa using hf1
    constructor
    · -- nodup
      show ((s.returned ++ [c0]) ++ (q ++ _)).Nodup
      rw [← List.append_assoc, hrq]
      rw [List.nodup_append]
      refine ⟨hnd, (children_nodup wf c0).filter _, ?_⟩
      intro a ha b hb hab
      subst hab
      obtain ⟨_, hcp, hnr, _⟩ := hadd a hb
      rw [List.mem_append] at ha
      rcases ha with ha | ha
      · exact hnr (by simp [ha])
      · rw [List.mem_cons] at ha
        rcases ha with rfl | ha
        · exact hnr (by simp)
        · exact hc_notret (hqr a (by simp [ha]) c0 hcp)
    · -- bound
      intro x hx
      show x < d.length
      have hx' : x ∈ (s.returned ++ c0 :: q) ∨ x ∈ (children d c0).filter (fun ch => !(s.returned ++ [c0]).contains ch && ready d (s.returned ++ [c0]) ch) := by
        simp only [List.mem_append, List.mem_cons, List.not_mem_nil, or_false] at hx ⊢
        rcases hx with (h1 | h1) | h1 | h1
        · exact Or.inl (Or.inl h1)
        · exact Or.inl (Or.inr (Or.inl h1))
        · exact Or.inl (Or.inr (Or.inr h1))
        · exact Or.inr h1
      rcases hx' with h1 | h1
      · exact hbd x h1
      · exact (hadd x h1).1
    · -- qready
      intro x hx p hp
      show p ∈ s.returned ++ [c0]
      rw [List.mem_append] at hx
      rcases hx with hx | hx
      · have := hqr x (by simp [hx]) p hp
        simp [this]
      · exact (hadd x hx).2.2.2 p hp
    · -- topo
      exact topo_snoc h.topo (hqr c0 (by simp))
    · -- complete
      intro x hxn hpar
      show x ∈ (s.returned ++ [c0]) ++ (q ++ _)
      by_cases hold : ∀ p ∈ parentsOf d x, p ∈ s.returned
      · have := hcm x hxn hold
        simp only [List.mem_append, List.mem_cons, List.not_mem_nil, or_false] at this ⊢
        rcases this with h1 | h1 | h1
        · exact Or.inl (Or.inl h1)
        · exact Or.inl (Or.inr h1)
        · exact Or.inr (Or.inl h1)
      · -- some parent is c0
        have : c0 ∈ parentsOf d x := by
          apply Classical.byContradiction
          intro hnc
          apply hold
          intro p hp
          have := hpar p hp
          rw [List.mem_append] at this
          rcases this with h1 | h1
          · exact h1
          · simp at h1; subst h1; exact absurd hp hnc
        by_cases hxr : x ∈ s.returned ++ [c0]
        · simp only [List.mem_append] at hxr ⊢; exact Or.inl hxr
        · have hmem : x ∈ (children d c0).filter (fun ch => !(s.returned ++ [c0]).contains ch && ready d (s.returned ++ [c0]) ch) := by
            rw [List.mem_filter]
            refine ⟨mem_children.mpr ⟨hxn, this⟩, ?_⟩
            rw [Bool.and_eq_true]
            refine ⟨?_, ready_iff.mpr hpar⟩
            simpa using hxr
          simp only [List.mem_append] at hmem ⊢
          exact Or.inr (Or.inr hmem)

theorem init_inv (d : Dag) : Inv d { queue := roots d, returned := [] } := by
  constructor
  · simp only [List.nil_append]; exact List.nodup_range.filter _
  · intro x hx; simp [roots] at hx; exact hx.1
  · intro x hx p hp
    simp [roots] at hx
    rw [hx.2] at hp; simp at hp
  · exact topo_nil d
  · intro x hx hp
    simp only [List.nil_append, roots, List.mem_filter, List.mem_range]
    refine ⟨hx, ?_⟩
    cases hpx : parentsOf d x with
    | nil => rfl
    | cons p ps => have := hp p (by simp [hpx]); simp at this

theorem run_spec {d : Dag} (wf : WF d) : ∀ fuel s, Inv d s →
    Inv d (runIt d fuel s) ∧ ((runIt d fuel s).queue = [] ∨ (runIt d fuel s).returned.length = s.returned.length + fuel) := by
  intro fuel
  induction fuel with
  | zero => intro s h; exact ⟨h, Or.inr rfl⟩
  | succ n ih =>
    intro s h
    unfold runIt
    cases hs : stepIt d s with
    | none =>
      refine ⟨h, Or.inl ?_⟩
      unfold stepIt at hs
      cases hq : s.queue with
      | nil => rfl
      | cons c q => simp [hq] at hs
    | some cs =>
      obtain ⟨c, s'⟩ := cs
      obtain ⟨hi, hr⟩ := step_inv wf h hs
      obtain ⟨h1, h2⟩ := ih s' hi
      refine ⟨h1, ?_⟩
      rcases h2 with h2 | h2
      · exact Or.inl h2
      · right; simp only [] ; rw [h2, hr]; simp; omega

theorem returned_len_le {d : Dag} {s : It} (h : Inv d s) : s.returned.length ≤ d.length := by
  have hnd : s.returned.Nodup := (List.nodup_append.mp h.nodup).1
  have hsub : s.returned ⊆ List.range d.length := by
    intro x hx; rw [List.mem_range]; exact h.bound x (by simp [hx])
  simpa using hnd.length_le_of_subset hsub

/-- Main theorem: the iterator visits every node exactly once, parents first. -/
theorem iterOrder_perm_topo {d : Dag} (wf : WF d) :
    (iterOrder d).Perm (List.range d.length) ∧ Topo d (iterOrder d) := by
  unfold iterOrder
  obtain ⟨hinv, hend⟩ := run_spec wf (d.length + 1) _ (init_inv d)
  generalize runIt d (d.length + 1) { queue := roots d, returned := [] } = s at hinv hend
  have hq : s.queue = [] := by
    rcases hend with h | h
    · exact h
    · have := returned_len_le hinv; simp at h; omega
  refine ⟨?_, hinv.topo⟩
  have hnd : s.returned.Nodup := (List.nodup_append.mp hinv.nodup).1
  rw [List.perm_ext_iff_of_nodup hnd List.nodup_range]
  intro a
  rw [List.mem_range]
  constructor
  · intro ha; exact hinv.bound a (by simp [ha])
  · intro ha
    -- strong induction
    induction a using Nat.strongRecOn with
    | _ a ih =>
      have := hinv.complete a ha (fun p hp => ih p (wf.lt a p hp) (Nat.lt_trans (wf.lt a p hp) ha))
      simpa [hq] using this

end Eudoxia.Dag
