import EudoxiaModel.Proofs.Progress
import EudoxiaModel.Proofs.OpsKept
/-! What an executor tick leaves behind in containers that have ended: the operators a container has got through are COMPLETED, and a container that ended
    with an error has a non-empty unfinished suffix whose operators are all FAILED.  (The invariants of `Live`/`Progress` speak about live containers only.) -/
namespace Eudoxia
open OpState Extracted

/-- the operators before the current index are COMPLETED -/
def PrefixDone (s : Store) (c : Ctr) : Prop := ∀ o ∈ c.ops.take c.curOpIdx, s.stOf o = completed

/-- a container that ended with an error: a non-empty unfinished suffix, all FAILED -/
def DeadOK (s : Store) (c : Ctr) : Prop := c.completed = true → c.err = true → c.unfinished ≠ [] ∧ ∀ o ∈ c.unfinished, s.stOf o = failed

structure Fin (s : Store) (c : Ctr) : Prop where
  pre : PrefixDone s c
  dead : DeadOK s c
  noerr : c.completed = false → c.err = false
  done : c.completed = true → c.err = false → c.unfinished = []

theorem fin_frame {w w' : Store} {d : Ctr} (f : Fin w d) (hs : Steps w w') (hf : ∀ o ∈ d.unfinished, w'.stOf o = w.stOf o) : Fin w' d :=
  ⟨fun o ho => completed_final hs o (f.pre o ho),
   fun hc he => ⟨(f.dead hc he).1, fun o ho => by rw [hf o ho]; exact (f.dead hc he).2 o ho⟩, f.noerr, f.done⟩

theorem runAt_static {w w' : Store} {c c' : Ctr} {cons cons' : Int} {r : Nat} {last : Bool} {m : Nat}
    (h : runAt w c cons r last m = .ok (w', c', cons')) :
    c'.err = c.err ∧ (c'.curOpIdx = c.curOpIdx ∨ c'.curOpIdx = c.curOpIdx + 1) ∧ (c'.completed = false → c.completed = false) := by
  obtain ⟨_, _, e, _, _, _, _, _, hc, _, _, hi, _⟩ := runAt_spec h
  refine ⟨e, hi, fun hx => ?_⟩
  cases hcc : c.completed with
  | false => rfl
  | true => rw [hc hcc] at hx; cases hx

/-- the parts of a container that `tick` does not touch or only moves forward -/
theorem tick_static (cfg : Cfg) (w : Store) (c : Ctr) (cons : Int) (w' : Store) (c' : Ctr) (cons' : Int) (h : c.tick cfg w cons = .ok (w', c', cons')) :
    c'.err = c.err ∧ (c'.curOpIdx = c.curOpIdx ∨ c'.curOpIdx = c.curOpIdx + 1) ∧ (c'.completed = false → c.completed = false) ∧
    (c.completed = true → c' = c ∧ w' = w) := by
  unfold Ctr.tick at h
  split at h
  · rename_i hc
    simp only [Except.ok.injEq, Prod.mk.injEq] at h
    obtain ⟨rfl, rfl, _⟩ := h
    exact ⟨rfl, Or.inl rfl, fun hx => hx, fun _ => ⟨rfl, rfl⟩⟩
  · rename_i hc
    have hc' : c.completed = false := by simpa using hc
    split at h
    · cases h
    · rename_i w1 c1 cons1 hadv
      simp only [Except.ok.injEq, Prod.mk.injEq] at h
      obtain ⟨rfl, rfl, _⟩ := h
      show c1.err = c.err ∧ (c1.curOpIdx = c.curOpIdx ∨ c1.curOpIdx = c.curOpIdx + 1) ∧ (c1.completed = false → c.completed = false) ∧ _
      refine ⟨?_, ?_, fun _ => hc', fun hx => by rw [hc'] at hx; cases hx⟩
      all_goals
        unfold advance at hadv
        split at hadv
        · cases hadv; first | rfl | exact Or.inl rfl
        · split at hadv
          · cases hadv
          · rename_i w2 c2 hs
            obtain ⟨_, hsame, _⟩ := seek_spec _ _ _ _ _ hs
            have h2 : c2.err = c.err ∧ c2.curOpIdx = c.curOpIdx := by unfold Ctr.SameButPos at hsame; rw [hsame]; exact ⟨rfl, rfl⟩
            unfold runTick at hadv
            split at hadv
            · obtain ⟨a, b, _⟩ := runAt_static hadv
              first
                | exact a.trans h2.1
                | (rw [h2.2] at b; exact b)
            · cases hadv

/-- a container that still has demands to come still has an unfinished operator -/
theorem unfinished_ne_nil_of_rem {cfg : Cfg} {c : Ctr} (wf : CtrWF cfg c) (h : rem cfg c ≠ []) : c.unfinished ≠ [] := by
  intro hu
  apply h
  have hidx := wf.idx
  rw [← unfinished_eq, hu] at hidx
  unfold posUnf at hidx
  unfold rem remHead
  by_cases hd : (c.pos.started && c.pos.opDone == c.pos.opTotal) = true
  · simp only [hd, ↓reduceIte] at hidx
    have ht : c.pos.ops.tail = [] := by
      have := hidx.symm
      rw [List.map_eq_nil_iff] at this
      exact this
    simp only [Bool.and_eq_true, beq_iff_eq] at hd
    cases hops : c.pos.ops with
    | nil => simp [remOps]
    | cons o rest =>
      rw [hops] at ht
      simp only [List.tail_cons] at ht
      subst ht
      have hp := wf.pos hd.1
      have hlen : (remSegs cfg c.pos.segs c.pos.i).length = 0 := by omega
      simp [hd.1, List.length_eq_zero_iff.mp hlen, remOps]
  · have hd' : (c.pos.started && c.pos.opDone == c.pos.opTotal) = false := by simpa using hd
    simp only [hd', Bool.false_eq_true, ↓reduceIte] at hidx
    have ht : c.pos.ops = [] := by
      have := hidx.symm
      rw [List.map_eq_nil_iff] at this
      exact this
    simp [ht, remOps]

theorem take_succ_mem {l : List Nat} {i o : Nat} (h : o ∈ l.take (i + 1)) : o ∈ l.take i ∨ l[i]? = some o := by
  rw [List.take_add_one] at h
  rcases List.mem_append.mp h with h | h
  · exact Or.inl h
  · right
    cases hg : l[i]? with
    | none => simp [hg] at h
    | some x => simp [hg] at h; rw [h]

/-- **`Container.tick` keeps the record straight**: what the container has got through is COMPLETED -/
theorem tick_fin (cfg : Cfg) (w : Store) (c : Ctr) (cons : Int) (w' : Store) (c' : Ctr) (cons' : Int)
    (wf : CtrWF cfg c) (hnd : c.ops.Nodup) (hfc : c.completed = false → c.frozen = false) (h : c.tick cfg w cons = .ok (w', c', cons'))
    (f : Fin w c) : Fin w' c' := by
  obtain ⟨_, t2, _, t4, t5, t6⟩ := tick_live cfg w c cons w' c' cons' wf hnd hfc h
  obtain ⟨se, si, sc, sid⟩ := tick_static cfg w c cons w' c' cons' h
  refine ⟨?_, ?_, fun hx => by rw [se]; exact f.noerr (sc hx), fun hx he => ?_⟩
  rotate_left 2
  · cases hcc : c.completed with
    | true =>
      obtain ⟨e1, _⟩ := sid hcc
      rw [e1]; rw [e1] at he
      exact f.done hcc he
    | false => exact t6 hx hcc
  · intro o ho
    rw [t2] at ho
    rcases si with e | e
    · rw [e] at ho
      exact completed_final t5.steps o (f.pre o ho)
    · rw [e] at ho
      rcases take_succ_mem ho with ho | ho
      · exact completed_final t5.steps o (f.pre o ho)
      · -- the operator at the old index: it is the one that left the unfinished suffix, and it is COMPLETED now
        have hhead : c.unfinished.head? = some o := by rw [unfinished_eq, List.head?_drop]; exact ho
        rcases t4 with e4 | ⟨r, e4, hr⟩
        · exfalso
          have h1 : c'.unfinished = c.ops.drop (c.curOpIdx + 1) := by rw [unfinished_eq, t2, e]
          have h2 : (c.ops.drop (c.curOpIdx + 1)).length = (c.ops.drop c.curOpIdx).length := by rw [← h1, e4, unfinished_eq]
          have hlt : c.curOpIdx < c.ops.length := (List.getElem?_eq_some_iff.mp ho).1
          simp only [List.length_drop] at h2
          omega
        · rw [e4] at hhead
          simp at hhead
          rw [← hhead]; exact hr
  · intro hc he
    rw [se] at he
    have hcc : c.completed = true := by
      cases hx : c.completed with
      | true => rfl
      | false => rw [f.noerr hx] at he; cases he
    obtain ⟨rfl, rfl⟩ := sid hcc
    exact f.dead hc he

/-- **`Container.kill` on a live container**: the whole unfinished suffix, which is not empty, is FAILED afterwards -/
theorem kill_fin (cfg : Cfg) (w : Store) (c : Ctr) (cons : Int) (w' : Store) (c' : Ctr) (cons' : Int)
    (wf : CtrWF cfg c) (hnd : c.ops.Nodup) (hmore : rem cfg c ≠ []) (h : c.kill w cons = .ok (w', c', cons')) (f : Fin w c) :
    Fin w' c' ∧ c'.completed = true ∧ c'.err = true := by
  obtain ⟨k1, _, k3, k4, k5⟩ := kill_live w c cons w' c' cons' h
  have hidx : c'.curOpIdx = c.curOpIdx ∧ c'.err = true := by
    unfold Ctr.kill at h
    split at h
    · cases h
    · simp only [Ctr.setMem, Except.ok.injEq, Prod.mk.injEq] at h
      obtain ⟨_, rfl, _⟩ := h
      exact ⟨rfl, rfl⟩
  have hfailed : ∀ o ∈ c.unfinished, w'.stOf o = failed := by
    unfold Ctr.kill at h
    split at h
    · cases h
    · rename_i w1 hw
      simp only [Ctr.setMem, Except.ok.injEq, Prod.mk.injEq] at h
      obtain ⟨rfl, _, _⟩ := h
      exact transAll_sets_nodup failed _ _ _ hw (unfinished_nodup hnd)
  refine ⟨⟨?_, ?_, fun hx => (by rw [k3] at hx; cases hx), fun _ he => (by rw [hidx.2] at he; cases he)⟩, k3, hidx.2⟩
  · intro o ho
    rw [k1, hidx.1] at ho
    exact completed_final k5.steps o (f.pre o ho)
  · intro _ _
    rw [k4]
    exact ⟨unfinished_ne_nil_of_rem wf hmore, hfailed⟩

/-! ### passes over a list of containers -/

/-- the unfinished suffixes of all containers of a list, dead or alive -/
def allUnf (l : List Ctr) : List Nat := l.flatMap Ctr.unfinished

theorem allUnf_cons (c : Ctr) (l : List Ctr) : allUnf (c :: l) = c.unfinished ++ allUnf l := by simp [allUnf]

theorem mem_allUnf {l : List Ctr} {c : Ctr} {o : Nat} (hc : c ∈ l) (ho : o ∈ c.unfinished) : o ∈ allUnf l :=
  List.mem_flatMap.mpr ⟨c, hc, ho⟩

/-- what the static part of the hypotheses says about every container of a pass -/
def StaticOK (cfg : Cfg) (c : Ctr) : Prop :=
  CtrInv cfg c ∧ (c.completed = true → c.mem ≤ c.ram) ∧ (c.completed = false → rem cfg c ≠ [])

theorem tickAll_fin (cfg : Cfg) : ∀ (l : List Ctr) (w : Store) (cons : Int) (w' : Store) (l' : List Ctr) (cons' : Int),
    tickAll cfg w l cons = .ok (w', l', cons') → (∀ c ∈ l, CtrInv cfg c ∧ (c.completed = false → c.frozen = false)) →
    (allUnf l).Nodup → (∀ c ∈ l, Fin w c) →
    (∀ c' ∈ l', Fin w' c') ∧ (allUnf l').Sublist (allUnf l) ∧ StepsP (fun r _ => r ∈ allUnf l) w w' := by
  intro l
  induction l with
  | nil =>
    intro w cons w' l' cons' h _ _ _
    simp only [tickAll, Except.ok.injEq, Prod.mk.injEq] at h
    obtain ⟨rfl, rfl, _⟩ := h
    exact ⟨by simp, List.Sublist.refl _, .refl _⟩
  | cons c cs ih =>
    intro w cons w' l' cons' h hinv hnd hfin
    unfold tickAll at h
    split at h
    · cases h
    · rename_i w1 c1 cons1 ht
      split at h
      · cases h
      · rename_i w2 cs2 cons2 hrest
        simp only [Except.ok.injEq, Prod.mk.injEq] at h
        obtain ⟨rfl, rfl, _⟩ := h
        obtain ⟨ci, cf⟩ := hinv c (by simp)
        obtain ⟨_, t2, _, t4, t5, _⟩ := tick_live cfg w c cons w1 c1 cons1 ci.wf ci.nd cf ht
        rw [allUnf_cons, List.nodup_append] at hnd
        have hsuf : c1.unfinished.Sublist c.unfinished := by
          rcases t4 with e | ⟨r, e, _⟩
          · rw [e]; exact List.Sublist.refl _
          · rw [e]; exact List.sublist_cons_self _ _
        have f1 : Fin w1 c1 := tick_fin cfg w c cons w1 c1 cons1 ci.wf ci.nd cf ht (hfin c (by simp))
        have fcs : ∀ d ∈ cs, Fin w1 d := by
          intro d hd
          apply fin_frame (hfin d (List.mem_cons_of_mem _ hd)) t5.steps
          intro o ho
          apply t5.frame
          intro t hx
          exact hnd.2.2 o hx.1 o (mem_allUnf hd ho) rfl
        obtain ⟨i1, i2, i3⟩ := ih w1 cons1 w2 cs2 cons2 hrest (fun d hd => hinv d (List.mem_cons_of_mem _ hd)) hnd.2.1 fcs
        refine ⟨?_, ?_, ?_⟩
        · intro d hd
          rcases List.mem_cons.mp hd with rfl | hd
          · apply fin_frame f1 i3.steps
            intro o ho
            apply i3.frame
            intro t hx
            exact hnd.2.2 o (hsuf.subset ho) o hx rfl
          · exact i1 d hd
        · rw [allUnf_cons, allUnf_cons]; exact List.Sublist.append hsuf i2
        · refine (t5.mono (fun r t hx => ?_)).trans (i3.mono (fun r t hx => ?_))
          · rw [allUnf_cons]; exact List.mem_append_left _ hx.1
          · rw [allUnf_cons]; exact List.mem_append_right _ hx

theorem killIndividual_fin (cfg : Cfg) : ∀ (l : List Ctr) (w : Store) (cons : Int) (w' : Store) (l' : List Ctr) (cons' : Int),
    killIndividual w l cons = .ok (w', l', cons') → (∀ c ∈ l, StaticOK cfg c) → (allUnf l).Nodup → (∀ c ∈ l, Fin w c) →
    (∀ c' ∈ l', Fin w' c') ∧ allUnf l' = allUnf l ∧ StepsP (fun r _ => r ∈ allUnf l) w w' := by
  intro l
  induction l with
  | nil =>
    intro w cons w' l' cons' h _ _ _
    simp only [killIndividual, Except.ok.injEq, Prod.mk.injEq] at h
    obtain ⟨rfl, rfl, _⟩ := h
    exact ⟨by simp, rfl, .refl _⟩
  | cons c cs ih =>
    intro w cons w' l' cons' h hst hnd hfin
    rw [allUnf_cons, List.nodup_append] at hnd
    unfold killIndividual at h
    split at h
    · rename_i hgt
      split at h
      · cases h
      · rename_i w1 c1 cons1 hk
        split at h
        · cases h
        · rename_i w2 cs2 cons2 hrest
          simp only [Except.ok.injEq, Prod.mk.injEq] at h
          obtain ⟨rfl, rfl, _⟩ := h
          obtain ⟨ci, cm, cr⟩ := hst c (by simp)
          have hlive : c.completed = false := by
            cases hx : c.completed with
            | false => rfl
            | true => have := cm hx; omega
          obtain ⟨_, _, _, k4, k5⟩ := kill_live w c cons w1 c1 cons1 hk
          obtain ⟨f1, _, _⟩ := kill_fin cfg w c cons w1 c1 cons1 ci.wf ci.nd (cr hlive) hk (hfin c (by simp))
          have fcs : ∀ d ∈ cs, Fin w1 d := by
            intro d hd
            apply fin_frame (hfin d (List.mem_cons_of_mem _ hd)) k5.steps
            intro o ho
            apply k5.frame
            intro t hx
            exact hnd.2.2 o hx.1 o (mem_allUnf hd ho) rfl
          obtain ⟨i1, i2, i3⟩ := ih w1 cons1 w2 cs2 cons2 hrest (fun d hd => hst d (List.mem_cons_of_mem _ hd)) hnd.2.1 fcs
          refine ⟨?_, by rw [allUnf_cons, allUnf_cons, k4, i2], ?_⟩
          · intro d hd
            rcases List.mem_cons.mp hd with rfl | hd
            · apply fin_frame f1 i3.steps
              intro o ho
              apply i3.frame
              intro t hx
              rw [k4] at ho
              exact hnd.2.2 o ho o hx rfl
            · exact i1 d hd
          · refine (k5.mono (fun r t hx => ?_)).trans (i3.mono (fun r t hx => ?_))
            · rw [allUnf_cons]; exact List.mem_append_left _ hx.1
            · rw [allUnf_cons]; exact List.mem_append_right _ hx
    · split at h
      · cases h
      · rename_i w2 cs2 cons2 hrest
        simp only [Except.ok.injEq, Prod.mk.injEq] at h
        obtain ⟨rfl, rfl, _⟩ := h
        obtain ⟨i1, i2, i3⟩ := ih w cons w2 cs2 cons2 hrest (fun d hd => hst d (List.mem_cons_of_mem _ hd)) hnd.2.1
          (fun d hd => hfin d (List.mem_cons_of_mem _ hd))
        refine ⟨?_, by rw [allUnf_cons, allUnf_cons, i2], i3.mono (fun r t hx => by rw [allUnf_cons]; exact List.mem_append_right _ hx)⟩
        intro d hd
        rcases List.mem_cons.mp hd with rfl | hd
        · apply fin_frame (hfin d (by simp)) i3.steps
          intro o ho
          apply i3.frame
          intro t hx
          exact hnd.2.2 o ho o hx rfl
        · exact i1 d hd

theorem allUnf_disjoint : ∀ (l : List Ctr) (x v : Ctr), (allUnf l).Nodup → (cids l).Nodup → x ∈ l → v ∈ l → x.cid ≠ v.cid →
    ∀ o ∈ x.unfinished, o ∉ v.unfinished := by
  intro l
  induction l with
  | nil => intro x v _ _ hx; simp at hx
  | cons y ys ih =>
    intro x v hnd hcn hx hv hne o hox hov
    rw [allUnf_cons] at hnd
    simp only [cids_cons, List.nodup_cons] at hcn
    rcases List.mem_cons.mp hx with rfl | hx' <;> rcases List.mem_cons.mp hv with rfl | hv'
    · exact hne rfl
    · exact (List.nodup_append.mp hnd).2.2 o hox o (mem_allUnf hv' hov) rfl
    · exact (List.nodup_append.mp hnd).2.2 o hov o (mem_allUnf hx' hox) rfl
    · exact ih x v (List.nodup_append.mp hnd).2.1 hcn.2 hx' hv' hne o hox hov

theorem eq_of_cid : ∀ (l : List Ctr) (x v : Ctr), (cids l).Nodup → x ∈ l → v ∈ l → x.cid = v.cid → x = v := by
  intro l
  induction l with
  | nil => intro x v _ hx; simp at hx
  | cons y ys ih =>
    intro x v hcn hx hv he
    simp only [cids_cons, List.nodup_cons] at hcn
    rcases List.mem_cons.mp hx with rfl | hx' <;> rcases List.mem_cons.mp hv with rfl | hv'
    · rfl
    · exfalso; apply hcn.1; rw [he]; exact List.mem_map_of_mem hv'
    · exfalso; apply hcn.1; rw [← he]; exact List.mem_map_of_mem hx'
    · exact ih x v hcn.2 hx' hv' he

theorem allUnf_map_kill (P : Ctr → Bool) (l : List Ctr) : allUnf (l.map (fun x => if P x then killedCtr x else x)) = allUnf l := by
  induction l with
  | nil => rfl
  | cons y ys ih =>
    simp only [List.map_cons, allUnf_cons, ih]
    congr 1
    split <;> rfl

theorem killVictims_fin (cfg : Cfg) (capR : Nat) : ∀ (vs : List Ctr) (w : Store) (act : List Ctr) (cons : Int) (w' : Store) (act' : List Ctr) (cons' : Int),
    (cids act).Nodup → (cids vs).Nodup → (∀ v ∈ vs, v ∈ act ∧ v.completed = false) →
    killVictims w capR act cons vs = .ok (w', act', cons') →
    (∀ c ∈ act, StaticOK cfg c) → (allUnf act).Nodup → (∀ c ∈ act, Fin w c) →
    (∀ c ∈ act', Fin w' c) ∧ allUnf act' = allUnf act ∧ StepsP (fun r _ => r ∈ allUnf act) w w' := by
  intro vs
  induction vs with
  | nil =>
    intro w act cons w' act' cons' _ _ _ h _ _ hfin
    simp only [killVictims, Except.ok.injEq, Prod.mk.injEq] at h
    obtain ⟨rfl, rfl, _⟩ := h
    exact ⟨hfin, rfl, .refl _⟩
  | cons v vs ih =>
    intro w act cons w' act' cons' hcn hvnd hsub h hst hnd hfin
    unfold killVictims at h
    split at h
    · simp only [Except.ok.injEq, Prod.mk.injEq] at h
      obtain ⟨rfl, rfl, _⟩ := h
      exact ⟨hfin, rfl, .refl _⟩
    · split at h
      · cases h
      · rename_i w1 v1 cons1 hk
        obtain ⟨e1, _⟩ := kill_eq hk
        obtain ⟨hv, hvn⟩ := hsub v (by simp)
        simp only [cids_cons, List.nodup_cons] at hvnd
        rw [e1, replaceCtr_eq_map act v hcn hv] at h
        obtain ⟨vi, _, vr⟩ := hst v hv
        obtain ⟨_, _, _, _, k5⟩ := kill_live w v cons w1 v1 cons1 hk
        obtain ⟨f1, _, _⟩ := kill_fin cfg w v cons w1 v1 cons1 vi.wf vi.nd (vr hvn) hk (hfin v hv)
        have hcids1 : cids (act.map (fun x => if x.cid == v.cid then killedCtr x else x)) = cids act := by
          unfold cids; rw [List.map_map]; apply List.map_congr_left; intro x _
          simp only [Function.comp]; split <;> rfl
        have hsub1 : ∀ u ∈ vs, u ∈ act.map (fun x => if x.cid == v.cid then killedCtr x else x) ∧ u.completed = false := by
          intro u hu
          have hne : u.cid ≠ v.cid := by
            intro e; apply hvnd.1; rw [← e]; exact List.mem_map_of_mem hu
          refine ⟨List.mem_map.mpr ⟨u, (hsub u (by simp [hu])).1, by simp [hne]⟩, (hsub u (by simp [hu])).2⟩
        have hst1 : ∀ c ∈ act.map (fun x => if x.cid == v.cid then killedCtr x else x), StaticOK cfg c := by
          intro d hd
          obtain ⟨x, hx, rfl⟩ := List.mem_map.mp hd
          split
          · exact ⟨killedCtr_inv (hst x hx).1, fun _ => by simp [killedCtr], fun hc => by simp [killedCtr] at hc⟩
          · exact hst x hx
        have hfin1 : ∀ c ∈ act.map (fun x => if x.cid == v.cid then killedCtr x else x), Fin w1 c := by
          intro d hd
          obtain ⟨x, hx, rfl⟩ := List.mem_map.mp hd
          by_cases hxv : (x.cid == v.cid) = true
          · have : x = v := eq_of_cid act x v hcn hx hv (by simpa using hxv)
            subst this
            simp only [hxv, ↓reduceIte]
            rw [← e1]; exact f1
          · have hxf : (x.cid == v.cid) = false := by simpa using hxv
            simp only [hxf, Bool.false_eq_true, ↓reduceIte]
            have hne : x.cid ≠ v.cid := by simpa using hxv
            apply fin_frame (hfin x hx) k5.steps
            intro o ho
            apply k5.frame
            intro t hx'
            exact allUnf_disjoint act x v hnd hcn hx hv hne o ho hx'.1
        have hau := allUnf_map_kill (fun x => x.cid == v.cid) act
        obtain ⟨i1, i2, i3⟩ := ih w1 _ cons1 w' act' cons' (by rw [hcids1]; exact hcn) hvnd.2 hsub1 h hst1 (by rw [hau]; exact hnd) hfin1
        refine ⟨i1, by rw [i2, hau], ?_⟩
        refine (k5.mono (fun r t hx => mem_allUnf hv hx.1)).trans (i3.mono (fun r t hx => by rw [hau] at hx; exact hx))

theorem killIndividual_static (cfg : Cfg) : ∀ (l : List Ctr) (w : Store) (cons : Int) (w' : Store) (l' : List Ctr) (cons' : Int),
    killIndividual w l cons = .ok (w', l', cons') → (∀ c ∈ l, StaticOK cfg c) → ∀ c ∈ l', StaticOK cfg c := by
  intro l
  induction l with
  | nil => intro w cons w' l' cons' h _; simp only [killIndividual, Except.ok.injEq, Prod.mk.injEq] at h; rw [← h.2.1]; intro c hc; simp at hc
  | cons c cs ih =>
    intro w cons w' l' cons' h hst
    unfold killIndividual at h
    split at h
    · split at h
      · cases h
      · rename_i w1 c1 cons1 hk
        split at h
        · cases h
        · rename_i w2 cs2 cons2 hrest
          simp only [Except.ok.injEq, Prod.mk.injEq] at h
          rw [← h.2.1]
          obtain ⟨e1, _⟩ := kill_eq hk
          intro d hd
          rcases List.mem_cons.mp hd with rfl | hd
          · rw [e1]
            exact ⟨killedCtr_inv (hst c (by simp)).1, fun _ => by simp [killedCtr], fun hc => by simp [killedCtr] at hc⟩
          · exact ih _ _ _ _ _ hrest (fun x hx => hst x (List.mem_cons_of_mem _ hx)) d hd
    · split at h
      · cases h
      · rename_i w2 cs2 cons2 hrest
        simp only [Except.ok.injEq, Prod.mk.injEq] at h
        rw [← h.2.1]
        intro d hd
        rcases List.mem_cons.mp hd with rfl | hd
        · exact hst d (by simp)
        · exact ih _ _ _ _ _ hrest (fun x hx => hst x (List.mem_cons_of_mem _ hx)) d hd

theorem oomKiller_fin (cfg : Cfg) {w w' : Store} {p p' : Pool} (hcn : (cids p.active).Nodup)
    (hst : ∀ c ∈ p.active, StaticOK cfg c) (hnd : (allUnf p.active).Nodup) (hfin : ∀ c ∈ p.active, Fin w c) (h : oomKiller w p = .ok (w', p')) :
    (∀ c ∈ p'.active, Fin w' c) ∧ allUnf p'.active = allUnf p.active ∧ StepsP (fun r _ => r ∈ allUnf p.active) w w' := by
  unfold oomKiller at h
  split at h
  · cases h
  · rename_i w1 act1 cons1 hk
    obtain ⟨a1, a2, a3⟩ := killIndividual_fin cfg _ _ _ _ _ _ hk hst hnd hfin
    split at h
    · rw [← ok_snd2 h]
      simp only [Except.ok.injEq, Prod.mk.injEq] at h
      obtain ⟨rfl, _⟩ := h
      exact ⟨a1, a2, a3⟩
    · split at h
      · cases h
      · rename_i w2 act2 cons2 hv
        rw [← ok_snd2 h]
        simp only [Except.ok.injEq, Prod.mk.injEq] at h
        obtain ⟨rfl, _⟩ := h
        obtain ⟨ls, linv⟩ := killIndividual_live cfg _ _ _ _ _ _ hk (fun c hc => ⟨(hst c hc).1, (hst c hc).2.1⟩)
        have hk1 := killIndividual_keys _ _ _ _ _ _ hk
        have hcn1 : (cids act1).Nodup := by rw [cids_keys hk1]; exact hcn
        have hst1 : ∀ c ∈ act1, StaticOK cfg c := killIndividual_static cfg _ _ _ _ _ _ hk hst
        obtain ⟨b1, b2, b3⟩ := killVictims_fin cfg p.capR (sortDesc (oomCandidates act1)) w1 act1 cons1 w2 act2 cons2 hcn1
          ((List.Perm.map _ (SortP.sortDesc_perm scoreGe (oomCandidates act1))).nodup_iff.mpr ((cids_filter_sublist act1 _).nodup hcn1))
          (fun v hvv => by
            have := List.mem_filter.mp (mem_sortDesc hvv)
            exact ⟨this.1, by have := this.2; simp only [Bool.and_eq_true, Bool.not_eq_true', decide_eq_true_eq] at this; exact this.1⟩)
          hv hst1 (by rw [a2]; exact hnd) a1
        exact ⟨b1, by rw [b2, a2], a3.trans (b3.mono (fun r t hx => by rw [a2] at hx; exact hx))⟩

/-! ### a pool, the executor -/

theorem sublist_allUnf : ∀ {l : List Ctr} {c : Ctr}, c ∈ l → c.unfinished.Sublist (allUnf l) := by
  intro l
  induction l with
  | nil => intro c hc; simp at hc
  | cons y ys ih =>
    intro c hc
    rw [allUnf_cons]
    rcases List.mem_cons.mp hc with rfl | hc
    · exact List.sublist_append_left _ _
    · exact (ih hc).trans (List.sublist_append_right _ _)

theorem allUnf_sublist {l₁ l₂ : List Ctr} (h : l₁.Sublist l₂) : (allUnf l₁).Sublist (allUnf l₂) := by
  induction h with
  | slnil => exact List.Sublist.refl _
  | cons a _ ih => rw [allUnf_cons]; exact ih.trans (List.sublist_append_right _ _)
  | cons_cons a _ ih => rw [allUnf_cons, allUnf_cons]; exact List.Sublist.append (List.Sublist.refl _) ih

theorem allUnf_append (a b : List Ctr) : allUnf (a ++ b) = allUnf a ++ allUnf b := by simp [allUnf]

theorem own_eq_allUnf {l : List Ctr} (h : ∀ c ∈ l, c.completed = false) : own l = allUnf l := by
  unfold own allUnf
  rw [List.filter_eq_self.mpr (fun c hc => by simp [h c hc])]

/-- phases 3–6 on a pool without write-outs: every container that stays has its record straight, and so has the container behind every result -/
theorem poolRun_fin {cfg : Cfg} {w w' : Store} {p p' : Pool} {n : Nat} {res : List Res} (pinv : PoolInv p n) (m : MemOK p) (rd : PoolReady cfg w p)
    (hs : p.suspending = []) (hfin : ∀ c ∈ p.active, Fin w c) (h : poolRun cfg w p = .ok (w', p', res)) :
    (∀ c ∈ p'.active, Fin w' c) ∧ (∃ cs, res = cs.map mkRes ∧ (∀ c ∈ cs, Fin w' c ∧ c.completed = true) ∧ (allUnf cs).Sublist (ownP p)) ∧
    StepsP (fun r _ => r ∈ ownP p) w w' := by
  have hl := rd.live
  have hnc : ∀ c ∈ p.active, c.completed = false := fun c hc => hl.nc c (List.mem_append_left _ hc)
  have hown : ownP p = allUnf p.active := by simp only [ownP, hs, List.append_nil]; exact own_eq_allUnf hnc
  have hnd0 : (allUnf p.active).Nodup := by rw [← hown]; exact hl.nd
  unfold poolRun at h
  split at h
  · cases h
  · rename_i w3 p3 h3
    have h3' : w3 = w ∧ p3.active = p.active ∧ p3.suspending = [] := by
      unfold suspTickAll at h3
      rw [hs] at h3
      simp only [suspTickList, Except.ok.injEq, Prod.mk.injEq] at h3
      obtain ⟨rfl, rfl⟩ := h3
      exact ⟨rfl, rfl, by simp⟩
    obtain ⟨rfl, act3, sus3⟩ := h3'
    split at h
    · cases h
    · rename_i w4 act4 cons4 h4
      rw [act3] at h4
      have hinv0 : ∀ c ∈ p.active, CtrInv cfg c ∧ (c.completed = false → c.frozen = false) :=
        fun c hc => ⟨hl.inv c (List.mem_append_left _ hc), fun _ => (m.ok c hc).2.1⟩
      obtain ⟨a1, a2, a3⟩ := tickAll_fin cfg _ _ _ _ _ _ h4 hinv0 hnd0 hfin
      -- the static facts about the ticked containers, from the progress theorems
      have hnd1 : (own p.active).Nodup := by rw [own_eq_allUnf hnc]; exact hnd0
      obtain ⟨w4', act4', cons4', h4', r4⟩ := tickAll_succeeds cfg p.active w3 p3.consumed
        (fun c hc => ⟨rd.act c hc, hl.inv c (List.mem_append_left _ hc), fun _ => (m.ok c hc).2.1⟩) hnd1
      rw [h4] at h4'
      simp only [Except.ok.injEq, Prod.mk.injEq] at h4'
      obtain ⟨rfl, rfl, rfl⟩ := h4'
      obtain ⟨t1, _, _, _⟩ := tickAll_live cfg _ _ _ _ _ _ h4 hinv0 hnd1 (readyAll_busy rd.act)
      obtain ⟨_, tk⟩ := tickAll_mem _ _ _ _ _ _ _ m.ok h4
      have hk4 := tickAll_keys _ _ _ _ _ _ _ h4
      have hcn4 : (cids act4).Nodup := by rw [cids_keys hk4]; exact (List.nodup_append.mp pinv.nodup).1
      have hst4 : ∀ c ∈ act4, StaticOK cfg c :=
        fun c hc => ⟨t1 c hc, fun hcc => by have := (tk c hc).1 hcc; omega, fun hcn => (r4 c hc hcn).more hcn⟩
      split at h
      · cases h
      · rename_i w5 p5 h5
        obtain ⟨b1, b2, b3⟩ := oomKiller_fin cfg (p := { p3 with active := act4, consumed := cons4 }) hcn4 hst4 (a2.nodup hnd0) a1 h5
        simp only at b1 b2 b3
        simp only [Except.ok.injEq, Prod.mk.injEq] at h
        obtain ⟨rfl, hp', hr⟩ := h
        obtain ⟨f1, _, _⟩ := collect_fields p5
        refine ⟨?_, ?_, ?_⟩
        · rw [← hp', f1]; intro c hc; exact b1 c (List.mem_filter.mp hc).1
        · refine ⟨p5.active.filter (·.completed), by rw [← hr]; simp only [collect], ?_, ?_⟩
          · intro c hc
            obtain ⟨hc1, hc2⟩ := List.mem_filter.mp hc
            exact ⟨b1 c hc1, hc2⟩
          · rw [hown]
            have : (allUnf (p5.active.filter (·.completed))).Sublist (allUnf p5.active) := allUnf_sublist List.filter_sublist
            rw [b2] at this
            exact this.trans a2
        · rw [hown]
          exact a3.trans (b3.mono (fun r t hx => a2.subset hx))

theorem mkCtr_fin (w : Store) (k : Nat) (a : Asg) : Fin w (mkCtr w k a) :=
  ⟨fun o ho => by simp [mkCtr] at ho, fun hc => by simp [mkCtr] at hc, fun _ => rfl, fun hc => by simp [mkCtr] at hc⟩

theorem startAll_fin (cfg : Cfg) (w : Store) : ∀ (as : List Asg) (p : Pool) (n : Nat) (p' : Pool) (n' : Nat),
    startAll cfg w p n as = .ok (p', n') → (∀ c ∈ p.active, Fin w c) → ∀ c ∈ p'.active, Fin w c := by
  intro as
  induction as with
  | nil => intro p n p' n' h hp; simp only [startAll, Except.ok.injEq, Prod.mk.injEq] at h; rw [← h.1]; exact hp
  | cons a as ih =>
    intro p n p' n' h hp
    unfold startAll at h
    split at h
    · cases h
    · apply ih _ _ _ _ h
      intro c hc
      simp only [List.mem_append, List.mem_singleton] at hc
      rcases hc with hc | rfl
      · exact hp c hc
      · exact mkCtr_fin w n a

/-- a pool tick without suspension requests on a pool without write-outs -/
theorem poolTick_fin {cfg : Cfg} {w w' : Store} {p p' : Pool} {n n' : Nat} {asgs : List Asg} {res : List Res}
    (g : PoolGoodMem cfg p n) (rd : PoolReadyF cfg w p) (ha : AsgsReady w asgs) (hnd : (ownP p ++ asgs.flatMap (·.ops)).Nodup)
    (hs : p.suspending = []) (hfin : ∀ c ∈ p.active, Fin w c)
    (h : poolTick cfg w p n { susp := [], asgs := asgs } = .ok (w', p', n', res)) :
    (∀ c ∈ p'.active, Fin w' c) ∧
    (∃ cs, res = cs.map mkRes ∧ (∀ c ∈ cs, Fin w' c ∧ c.completed = true) ∧ (allUnf cs).Nodup ∧ ∀ o ∈ allUnf cs, o ∈ ownP p ++ asgs.flatMap (·.ops)) ∧
    StepsP (fun r _ => r ∈ ownP p ++ asgs.flatMap (·.ops)) w w' := by
  unfold poolTick at h
  simp only [List.isEmpty_nil, ↓reduceIte] at h
  split at h
  · cases h
  · split at h
    · cases h
    · rename_i p2 n2 hst
      split at h
      · cases h
      · rename_i w6 p6 res6 hr
        simp only [Except.ok.injEq, Prod.mk.injEq] at h
        obtain ⟨rfl, rfl, _, rfl⟩ := h
        have m2 := (startAll_mem cfg w asgs p n g.2).1 _ _ hst
        obtain ⟨i2, _⟩ := (startAll_inv cfg w asgs p n g.1.1).1 _ _ hst
        have r2 := startAll_ready cfg w asgs p n p2 n2 hst rd ha hnd
        obtain ⟨_, hperm⟩ := startAll_live cfg w asgs p n p2 n2 hst rd.rd.live
          (fun a haa => ⟨(ha a haa).2.1, fun r hr' => ⟨((ha a haa).2.2.1 r hr').1, by rw [((ha a haa).2.2.1 r hr').2.1]; exact Or.inl rfl⟩⟩) hnd
        obtain ⟨a1, a2, a3⟩ := poolRun_fin i2 m2 r2.rd (by rw [startAll_suspending' cfg w asgs p n p2 n2 hst, hs])
          (startAll_fin cfg w asgs p n p2 n2 hst hfin) hr
        obtain ⟨cs, e, f, hsub⟩ := a2
        exact ⟨a1, ⟨cs, e, f, hsub.nodup (hperm.nodup_iff.mpr hnd), fun o ho => hperm.subset (hsub.subset ho)⟩, a3.mono (fun r t hx => hperm.subset hx)⟩

/-- **the loop over the pools (no suspension requests, no write-outs in progress)**: afterwards every container still in a pool has its record straight, and
the results are exactly the results of a list of ended containers that have: their operators are COMPLETED up to where they got, and if a container ended
with an error the rest — at least one operator — is FAILED.  The unfinished operators of those containers are pairwise distinct and all come from what the
pools owned or were handed at the start of the tick (`S`). -/
theorem execPools_fin (cfg : Cfg) (asgs : List Asg) (S : Nat → Prop) (hSa : ∀ o ∈ opsOf asgs, S o) :
    ∀ (todo : List Pool) (s : Store) (n : Nat) (done : List Pool) (cs0 : List Ctr) (s' : Store) (ps : List Pool) (n' : Nat) (res' : List Res),
    PoolsReady cfg asgs s n done todo → (∀ p ∈ done ++ todo, p.suspending = [] ∧ ∀ c ∈ p.active, Fin s c) → (∀ p ∈ todo, ∀ o ∈ ownP p, S o) →
    (∀ c ∈ cs0, Fin s c ∧ c.completed = true) → (allUnf cs0).Nodup →
    (∀ o ∈ allUnf cs0, S o ∧ o ∉ todo.flatMap ownP ++ opsOf (pendFor asgs done.length)) →
    execPools cfg [] asgs s n done todo (cs0.map mkRes) = .ok (s', ps, n', res') →
    (∀ p ∈ ps, p.suspending = [] ∧ ∀ c ∈ p.active, Fin s' c) ∧
    ∃ cs, res' = cs.map mkRes ∧ (∀ c ∈ cs, Fin s' c ∧ c.completed = true) ∧ (allUnf cs).Nodup ∧ ∀ o ∈ allUnf cs, S o := by
  intro todo
  induction todo with
  | nil =>
    intro s n done cs0 s' ps n' res' _ hp _ hr hnd0 hS0 h
    simp only [execPools, Except.ok.injEq, Prod.mk.injEq] at h
    obtain ⟨rfl, rfl, _, rfl⟩ := h
    exact ⟨fun p hp' => hp p (by simpa using hp'), cs0, rfl, hr, hnd0, fun o ho => (hS0 o ho).1⟩
  | cons p rest ih =>
    intro s n done cs0 s' ps n' res' hJ hp hS hr hnd0 hS0 h
    unfold execPools at h
    split at h
    · cases h
    · cases h
    · rename_i s1 p1 n1 r hpt
      have hcm : cmdsFor done.length [] asgs = { susp := [], asgs := asgs.filter (·.pool == done.length) } := rfl
      obtain ⟨gp, _⟩ := hJ.live.pools p (by simp)
      obtain ⟨ha, hnd⟩ := poolsReady_head (sus := []) hJ
      rw [hcm] at ha hnd
      have hpt' := hpt
      rw [hcm] at hpt'
      -- the pool is ready again afterwards
      have r1 : PoolReadyF cfg s1 p1 := by
        rcases poolTick_raises_only_at_the_gates (cm := { susp := [], asgs := asgs.filter (·.pool == done.length) }) gp (hJ.rdy p (by simp)) ha (by simp) hnd
          with ⟨w', p', n'', res'', he, hr'⟩ | ⟨e, st, he, _⟩
        · rw [hpt'] at he
          simp only [Except.ok.injEq, Prod.mk.injEq] at he
          obtain ⟨rfl, rfl, _, _⟩ := he
          exact hr'
        · rw [hpt'] at he; cases he
      obtain ⟨a1, ⟨csk, ek, fk, ndk, ink⟩, a3⟩ := poolTick_fin gp (hJ.rdy p (by simp)) ha hnd (hp p (by simp)).1 (hp p (by simp)).2 hpt'
      obtain ⟨_, _, hsus1⟩ := poolTick_ops (fun _ => True) (hp p (by simp)).1 (fun _ _ => trivial) (fun _ _ => trivial) hpt'
      obtain ⟨_, _, fr⟩ := poolsLive_step hJ.live hpt
      have hJ1 := poolsReady_step hJ hpt r1
      -- counts: every operator occurs at most once among what the pools own and what is still to be started
      have hglob := (nodup_iff_count_le_one _).mp hJ.live.nd
      have hcount : ∀ o, (done.flatMap ownP).count o + (ownP p).count o + (rest.flatMap ownP).count o +
          ((opsOf (asgs.filter (·.pool == done.length))).count o + (opsOf (pendFor asgs (done.length + 1))).count o) ≤ 1 := by
        intro o
        have := hglob o
        simp only [List.flatMap_append, List.flatMap_cons, List.count_append, count_pend_split asgs done.length o] at this
        omega
      have hmine : ∀ o, o ∈ ownP p ++ (asgs.filter (·.pool == done.length)).flatMap (·.ops) →
          o ∉ rest.flatMap ownP ++ opsOf (pendFor asgs (done.length + 1)) := by
        intro o ho hx
        have h1 : 1 ≤ (ownP p).count o + (opsOf (asgs.filter (·.pool == done.length))).count o := by
          rcases List.mem_append.mp ho with h' | h'
          · have := List.one_le_count_iff.mpr h'; omega
          · have : 1 ≤ (opsOf (asgs.filter (·.pool == done.length))).count o := List.one_le_count_iff.mpr h'
            omega
        have h2 : 1 ≤ (rest.flatMap ownP).count o + (opsOf (pendFor asgs (done.length + 1))).count o := by
          rcases List.mem_append.mp hx with h' | h'
          · have := List.one_le_count_iff.mpr h'; omega
          · have := List.one_le_count_iff.mpr h'; omega
        have := hcount o
        omega
      -- operators of earlier results are outside what this pool touches
      have hearlier : ∀ o ∈ allUnf cs0, o ∉ ownP p ++ (asgs.filter (·.pool == done.length)).flatMap (·.ops) := by
        intro o ho hin
        apply (hS0 o ho).2
        rcases List.mem_append.mp hin with h' | h'
        · exact List.mem_append_left _ (by simp only [List.flatMap_cons]; exact List.mem_append_left _ h')
        · apply List.mem_append_right
          obtain ⟨a, haa, hoa⟩ := List.mem_flatMap.mp h'
          obtain ⟨ha1, ha2⟩ := List.mem_filter.mp haa
          have hpe : a.pool = done.length := by simpa using ha2
          exact List.mem_flatMap.mpr ⟨a, List.mem_filter.mpr ⟨ha1, by simp only [decide_eq_true_eq]; omega⟩, hoa⟩
      have hres : cs0.map mkRes ++ r = (cs0 ++ csk).map mkRes := by rw [ek, List.map_append]
      rw [hres] at h
      apply ih s1 n1 (done ++ [p1]) (cs0 ++ csk) s' ps n' res' hJ1 _ _ _ _ _ h
      · intro q hq
        have hq' : q ∈ done ∨ q = p1 ∨ q ∈ rest := by simpa [List.mem_append, or_assoc] using hq
        have other : ∀ q, (q ∈ done ∨ q ∈ rest) → q.suspending = [] ∧ ∀ c ∈ q.active, Fin s1 c := by
          intro q hq''
          have hqm : q ∈ done ++ p :: rest := by rcases hq'' with h' | h' <;> simp [h']
          refine ⟨(hp q hqm).1, fun c hc => ?_⟩
          obtain ⟨_, lq⟩ := hJ.live.pools q hqm
          apply fin_frame ((hp q hqm).2 c hc) a3.steps
          intro o ho
          apply fr
          have hoq : o ∈ ownP q := by
            simp only [ownP, (hp q hqm).1, List.append_nil]
            exact mem_own hc (lq.nc c (List.mem_append_left _ hc)) ho
          rcases hq'' with h' | h'
          · have := count_le_flatMap ownP done q h' o
            have : 1 ≤ (ownP q).count o := List.one_le_count_iff.mpr hoq
            omega
          · have := count_le_flatMap ownP rest q h' o
            have : 1 ≤ (ownP q).count o := List.one_le_count_iff.mpr hoq
            omega
        rcases hq' with hq' | rfl | hq'
        · exact other q (Or.inl hq')
        · exact ⟨hsus1, a1⟩
        · exact other q (Or.inr hq')
      · intro q hq o ho
        exact hS q (List.mem_cons_of_mem _ hq) o ho
      · intro c hc
        rcases List.mem_append.mp hc with hc | hc
        · refine ⟨fin_frame (hr c hc).1 a3.steps (fun o ho => a3.frame o (fun t hin => hearlier o (mem_allUnf hc ho) hin)), (hr c hc).2⟩
        · exact fk c hc
      · rw [allUnf_append, List.nodup_append]
        exact ⟨hnd0, ndk, fun a ha' b hb e => by subst e; exact hearlier a ha' (ink a hb)⟩
      · intro o ho
        simp only [List.length_append, List.length_cons, List.length_nil, Nat.zero_add]
        rw [allUnf_append] at ho
        rcases List.mem_append.mp ho with ho | ho
        · refine ⟨(hS0 o ho).1, fun hx' => (hS0 o ho).2 ?_⟩
          rcases List.mem_append.mp hx' with h' | h'
          · exact List.mem_append_left _ (by simp only [List.flatMap_cons]; exact List.mem_append_right _ h')
          · apply List.mem_append_right
            obtain ⟨a, haa, hoa⟩ := List.mem_flatMap.mp h'
            obtain ⟨ha1, ha2⟩ := List.mem_filter.mp haa
            have hle : done.length + 1 ≤ a.pool := by simpa using ha2
            exact List.mem_flatMap.mpr ⟨a, List.mem_filter.mpr ⟨ha1, by simp only [decide_eq_true_eq]; omega⟩, hoa⟩
        · refine ⟨?_, hmine o (ink o ho)⟩
          rcases List.mem_append.mp (ink o ho) with h' | h'
          · exact hS p (by simp) o h'
          · apply hSa
            obtain ⟨a, haa, hoa⟩ := List.mem_flatMap.mp h'
            exact List.mem_flatMap.mpr ⟨a, (List.mem_filter.mp haa).1, hoa⟩

end Eudoxia
