import EudoxiaModel.Proofs.Live
import EudoxiaModel.Proofs.Built
import EudoxiaModel.Proofs.Progress
/-! World-level helpers and the world-level "raises only at the gates" theorem. -/
namespace Eudoxia
open OpState Extracted

theorem built_frame {w w' : World} {as : List Asg} (hb : Built w as w') :
    w'.pools = w.pools ∧ w'.cfg = w.cfg ∧ w'.nextCid = w.nextCid ∧ Steps w.store w'.store := by
  induction hb with
  | nil => exact ⟨rfl, rfl, rfl, .refl _⟩
  | cons hm _ ih =>
    obtain ⟨p1, p2, p3⟩ := mkAssignment_pools_ok hm
    obtain ⟨i1, i2, i3, i4⟩ := ih
    exact ⟨by rw [i1, p1], by rw [i2, p2], by rw [i3, p3], (mkAssignment_steps_ok hm).trans i4⟩

theorem pendFor_zero (asgs : List Asg) : pendFor asgs 0 = asgs := by
  unfold pendFor
  exact List.filter_eq_self.mpr (fun a _ => by simp)

theorem ops_sublist_flatMap : ∀ (asgs : List Asg) (a : Asg), a ∈ asgs → a.ops.Sublist (asgs.flatMap (·.ops)) := by
  intro asgs
  induction asgs with
  | nil => intro a ha; simp at ha
  | cons x xs ih =>
    intro a ha
    rw [List.flatMap_cons]
    rcases List.mem_cons.mp ha with rfl | ha'
    · exact List.sublist_append_left _ _
    · exact (ih a ha').trans (List.sublist_append_right _ _)


/-- a world at a tick boundary, as the executor needs it -/
structure WorldReady (w : World) : Prop where
  pools : ∀ p ∈ w.pools, PoolGoodMem w.cfg p w.nextCid ∧ PoolLive w.cfg w.store p ∧ PoolReadyF w.cfg w.store p
  nd : (w.pools.flatMap ownP).Nodup

/-- the loop invariant holds when the executor starts on the pools, after a chain of accepted constructions from a ready world -/
theorem poolsReady_of_built (w0 w1 : World) (asgs : List Asg)
    (hr : WorldReady w0) (hb : Built w0 asgs w1) (hseg : ∀ a ∈ asgs, ∀ r ∈ a.ops, w0.store.segsOf r ≠ [])
    (hpar : ∀ a ∈ asgs, ParentsOK w1.store a.ops) : PoolsReady w1.cfg asgs w1.store w1.nextCid [] w1.pools := by
  obtain ⟨b1, b2, b3, b4⟩ := built_spec hb
  obtain ⟨e1, e2, e3, est⟩ := built_frame hb
  have hsegs : ∀ r, w1.store.segsOf r = w0.store.segsOf r := by
    intro r; unfold Store.segsOf; rw [est.ops]
  have howned : ∀ p ∈ w0.pools, ∀ o ∈ ownP p, Busy (w0.store.stOf o) ∧ o ∉ asgs.flatMap (·.ops) := by
    intro p hp o ho
    obtain ⟨_, lp, _⟩ := hr.pools p hp
    simp only [ownP, own] at ho
    obtain ⟨c, hc, hoc⟩ := List.mem_flatMap.mp ho
    obtain ⟨hc1, hc2⟩ := List.mem_filter.mp hc
    have hbusy := lp.busy c hc1 (by simpa using hc2) o hoc
    refine ⟨hbusy, fun hx => ?_⟩
    have := (b3 o hx).1
    rcases hbusy with e | e | e <;> (rw [e] at this; simp [assignable] at this)
  refine ⟨⟨?_, ?_, ?_⟩, ?_, ?_⟩
  · intro p hp
    simp only [List.nil_append] at hp
    rw [e1] at hp
    obtain ⟨gp, lp, _⟩ := hr.pools p hp
    rw [e2, e3]
    exact ⟨gp, poolLive_frame lp (fun o ho => b4 o (howned p hp o ho).2)⟩
  · simp only [List.nil_append, List.length_nil, pendFor_zero, opsOf]
    rw [e1]
    refine List.nodup_append.mpr ⟨hr.nd, b1, ?_⟩
    intro a ha b hb' e
    subst e
    obtain ⟨p, hp, hop⟩ := List.mem_flatMap.mp ha
    exact (howned p hp a hop).2 hb'
  · simp only [List.length_nil, pendFor_zero]
    intro a ha
    refine ⟨(ops_sublist_flatMap asgs a ha).nodup b1, fun r hr' => ⟨by rw [hsegs]; exact hseg a ha r hr', (b3 r (List.mem_flatMap.mpr ⟨a, ha, hr'⟩)).2⟩⟩
  · intro p hp
    simp only [List.nil_append] at hp
    rw [e1] at hp
    obtain ⟨_, _, rp⟩ := hr.pools p hp
    rw [e2]
    exact poolReadyF_frame rp est (fun o ho => b4 o (howned p hp o ho).2)
  · simp only [List.length_nil, pendFor_zero]
    intro a ha
    refine ⟨(b2 a ha).1, hpar a ha, fun r hr' => ?_⟩
    have hst := (b3 r (List.mem_flatMap.mpr ⟨a, ha, hr'⟩)).2
    apply Decidable.byContradiction
    intro hge
    have : w1.store.stOf r = pending := by
      unfold Store.stOf
      rw [Array.getD_eq_getD_getElem?, Array.getElem?_eq_none (by omega)]
      rfl
    rw [this] at hst; cases hst

theorem worldReady_of_poolsReady {w1 : World} {asgs : List Asg} {s : Store} {ps : List Pool} {n : Nat}
    (hfin : PoolsReady w1.cfg asgs s n ps []) : WorldReady { w1 with store := s, pools := ps, nextCid := n } := by
  refine ⟨?_, ?_⟩
  · intro p hp
    have h1 := hfin.live.pools p (by simpa using hp)
    have h2 := hfin.rdy p (by simpa using hp)
    exact ⟨h1.1, h1.2, h2⟩
  · have := hfin.live.nd
    simp only [List.append_nil] at this
    exact (List.nodup_append.mp this).1

/-- **`Executor.run_one_tick` raises only at its gates.**  From a ready world, after any chain of accepted `Assignment` constructions whose operator
lists are in dependency order (every parent COMPLETED or earlier in the list) and have segments, and with suspension requests that name each container
at most once, the executor tick either succeeds and leaves a ready world, or refuses the commands up front — unknown pool, unknown or unsuspendable
container, oversold CPU or RAM, wrong operator count — in a well-defined state.  Nothing fails in the middle of the tick. -/
theorem execTick_raises_only_at_the_gates (w0 w1 : World) (asgs : List Asg) (sus : List (Nat × Nat))
    (hr : WorldReady w0) (hb : Built w0 asgs w1) (hseg : ∀ a ∈ asgs, ∀ r ∈ a.ops, w0.store.segsOf r ≠ [])
    (hpar : ∀ a ∈ asgs, ParentsOK w1.store a.ops) (hsus : ∀ i, ((sus.filter (·.1 == i)).map (·.2)).Nodup) :
    (∃ w2 res, w1.execTick sus asgs = .ok (w2, res) ∧ WorldReady w2) ∨
    (∃ e st, w1.execTick sus asgs = .error (e, some st) ∧ (e.isGate = true ∨ e = .unknownPool)) := by
  have hJ := poolsReady_of_built w0 w1 asgs hr hb hseg hpar
  unfold World.execTick
  split
  · exact Or.inr ⟨.unknownPool, w1, rfl, Or.inr rfl⟩
  · rcases execPools_raises_only_at_the_gates w1.cfg sus asgs hsus w1.pools w1.store w1.nextCid [] [] hJ with ⟨s, ps, n, res, hex, hfin⟩ | ⟨e, st, hex, hg⟩
    · left
      rw [hex]
      exact ⟨_, res, rfl, worldReady_of_poolsReady hfin⟩
    · right
      obtain ⟨s, ps, n⟩ := st
      rw [hex]
      exact ⟨e, _, rfl, Or.inl hg⟩

/-- **if the gates let the commands through, the tick succeeds**: no suspensions, pools that exist, and per pool a batch that `verify_valid_assignment`
accepts with the right operator count -/
theorem execTick_succeeds_of_gates (w0 w1 : World) (asgs : List Asg)
    (hr : WorldReady w0) (hb : Built w0 asgs w1) (hseg : ∀ a ∈ asgs, ∀ r ∈ a.ops, w0.store.segsOf r ≠ [])
    (hpar : ∀ a ∈ asgs, ParentsOK w1.store a.ops) (hpool : ∀ a ∈ asgs, a.pool < w1.pools.length)
    (hv : ∀ k p, w1.pools[k]? = some p → (asgs.filter (·.pool == k)).isEmpty = true ∨ verifyAssignments w1.cfg p (asgs.filter (·.pool == k)) = .ok ())
    (hcnt : ∀ a ∈ asgs, opCountOk w1.cfg a = true) :
    ∃ w2 res, w1.execTick [] asgs = .ok (w2, res) ∧ WorldReady w2 ∧ w2.pipes = w1.pipes ∧ w2.cfg = w1.cfg ∧ Steps w1.store w2.store := by
  have hJ := poolsReady_of_built w0 w1 asgs hr hb hseg hpar
  obtain ⟨s, ps, n, res, hex, hfin⟩ := execPools_succeeds_of_gates w1.cfg asgs hcnt w1.pools w1.store w1.nextCid [] [] hJ
    (by intro k p hk; simpa using hv k p hk)
  have hno : (([] : List (Nat × Nat)).any (fun s => decide (s.1 ≥ w1.pools.length)) || asgs.any (fun a => decide (a.pool ≥ w1.pools.length))) = false := by
    simp only [List.any_nil, Bool.false_or, List.any_eq_false, decide_eq_true_eq]
    intro a ha; have := hpool a ha; omega
  refine ⟨{ w1 with store := s, pools := ps, nextCid := n }, res, ?_, worldReady_of_poolsReady hfin, rfl, rfl, execPools_steps_ok _ _ _ _ _ _ _ _ _ _ _ _ hex⟩
  unfold World.execTick
  rw [hno]
  simp only [Bool.false_eq_true, ↓reduceIte, hex]


/-- a world that has not started anything yet is ready (non-vacuity of `WorldReady`) -/
theorem fresh_world_ready (cfg : Cfg) (store : Store) (pipes : Array PipeInfo) (caps : List (Nat × Nat)) :
    WorldReady { cfg := cfg, store := store, pools := caps.map (fun c => Pool.fresh c.1 c.2), pipes := pipes } := by
  refine ⟨?_, ?_⟩
  · intro p hp
    simp only [List.mem_map] at hp
    obtain ⟨c, _, rfl⟩ := hp
    refine ⟨⟨⟨poolInv_fresh _ _ _, ?_⟩, memOK_fresh _ _⟩, ⟨by simp [Pool.fresh], by simp [Pool.fresh], by simp [ownP, own, Pool.fresh], by intro c hc; simp [Pool.fresh] at hc⟩, ?_⟩
    · simp [Pool.NonNeg, Pool.fresh]
    · exact ⟨⟨⟨by simp [Pool.fresh], by simp [Pool.fresh], by simp [ownP, own, Pool.fresh], by intro c hc; simp [Pool.fresh] at hc⟩,
        by intro c hc; simp [Pool.fresh] at hc, by intro c hc; simp [Pool.fresh] at hc⟩, by intro c hc; simp [Pool.fresh] at hc⟩
  · have : ∀ (l : List (Nat × Nat)), (l.map (fun c => Pool.fresh c.1 c.2)).flatMap ownP = [] := by
      intro l; induction l with
      | nil => rfl
      | cons x xs ih => simp only [List.map_cons, List.flatMap_cons, ih]; simp [ownP, own, Pool.fresh]
    simp only [this]
    exact List.nodup_nil

end Eudoxia
