import EudoxiaModel.Proofs.PrioMulti
import EudoxiaModel.Proofs.NaiveExample
/-! The concrete world of `NaiveExample` (a diamond DAG, two pools, nothing started, multi-operator containers) meets every hypothesis of the closed-loop
    theorem for `priority` with multi-operator containers and pre-emption, with its one pipeline still to arrive. -/
namespace Eudoxia.PrioMultiExample
open Eudoxia OpState Extracted

theorem inv : PM.PMInv (NaiveExample.world true) {} [] [] [0] := by
  have ni := NaiveExample.naiveInv true
  have nopool : ∀ p ∈ (NaiveExample.world true).pools, p.active = [] ∧ p.suspending = [] ∧ p.suspended = [] := by
    intro p hp
    simp only [NaiveExample.world, List.map_cons, List.map_nil, List.mem_cons, List.not_mem_nil, or_false] at hp
    rcases hp with rfl | rfl <;> simp [Pool.fresh]
  refine ⟨NaiveExample.ready true, NaiveExample.wfp true, NaiveExample.segsOK true, ni.pid, ni.topo, ?_, ?_, rfl, rfl, by decide,
    ⟨by simp [Prio.St.jobs], by intro j hj; simp [Prio.St.jobs] at hj⟩, by intro j hj; simp [Prio.St.jobs] at hj, by intro o ho; simp [Prio.St.jobs] at ho,
    by simp, ?_, ?_, ?_, ?_, by simp, by simp, by simp [allUnf], by intro o ho; simp [allUnf] at ho, by simp, ?_, ?_, by intro c hc; cases hc⟩
  · intro p hp c hc
    obtain ⟨a, b, _⟩ := nopool p hp
    rw [a, b] at hc; cases hc
  · exact fresh_world_cidsOK _ _ _ _
  · intro pid hp
    simp only [List.mem_singleton] at hp
    subst hp
    rw [NaiveExample.order_of]
    simp only [↓reduceIte]
    refine ⟨by simp, fun o ho => ?_⟩
    rw [NaiveExample.world_store]
    rcases NaiveExample.four o ho with rfl | rfl | rfl | rfl <;> decide
  · intro p hp c hc
    rw [(nopool p hp).1] at hc; cases hc
  · intro p hp c hc
    rw [(nopool p hp).2.1] at hc; cases hc
  · intro p hp c hc
    rw [(nopool p hp).2.1] at hc; cases hc
  · intro p hp c hc
    rw [(nopool p hp).2.2] at hc; cases hc
  · intro x hx
    cases hx

theorem flatten_arrivals (n : Nat) : (([0] : List Nat) :: List.replicate n []).flatten = [0] := by
  induction n with
  | zero => rfl
  | succ k ih => simp only [List.replicate_succ, List.flatten_cons, List.nil_append] at ih ⊢; exact ih

/-- the pipeline arrives in the first tick; however many ticks follow, the run does not raise -/
theorem runs (n : Nat) : ∃ out, Prio.loop (NaiveExample.world true) {} [] ([0] :: List.replicate n []) = .ok out := by
  have h := PM.run_never_raises ([0] :: List.replicate n []) (NaiveExample.world true) {} [] [] (by rw [flatten_arrivals]; exact inv)
  obtain ⟨w', st', cs', js', h', _⟩ := h
  exact ⟨_, h'⟩

end Eudoxia.PrioMultiExample
