import EudoxiaModel.Proofs.WorldLive
/-! Container numbers are never re-used: over a pool tick and over an executor tick, the numbers found in the active, suspending and suspended lists are
    numbers that were there before or fresh ones, each at most once. -/
namespace Eudoxia
open OpState Extracted

/-- all container numbers a pool knows -/
def cidsAll (p : Pool) : List Nat := cids p.active ++ cids p.suspending ++ cids p.suspended

theorem doSuspends_cids (cfg : Cfg) : ∀ (l : List Nat) (w : Store) (p : Pool) (n : Nat) (w' : Store) (p' : Pool),
    doSuspends cfg w p l = .ok (w', p') → PoolInv p n → (cidsAll p').Perm (cidsAll p) := by
  intro l
  induction l with
  | nil =>
    intro w p n w' p' h _
    simp only [doSuspends, Except.ok.injEq, Prod.mk.injEq] at h
    obtain ⟨_, rfl⟩ := h
    exact List.Perm.refl _
  | cons k ks ih =>
    intro w p n w' p' h pinv
    unfold doSuspends at h
    split at h
    · cases h
    · rename_i c hfind
      split at h
      · cases h
      · rename_i w1 c1 hsus
        obtain ⟨e1, _⟩ := suspend_live cfg w c w1 c1 hsus
        have hcn : (cids p.active).Nodup := (List.nodup_append.mp pinv.nodup).1
        obtain ⟨hck, _, _, hperm⟩ := find_remove p.active k c hfind hcn
        have hone : doSuspends cfg w p [k] = .ok (w1, { p with suspending := p.suspending ++ [c1], active := p.active.filter (·.cid != k) }) := by
          simp only [doSuspends, hfind, hsus]
        obtain ⟨pinv1, _⟩ := doSuspends_inv cfg [k] w p n w1 _ pinv hone
        refine (ih w1 _ n w' p' h pinv1).trans ?_
        have hc1 : c1.cid = c.cid := by rw [e1]
        simp only [cidsAll, cids_append, cids_cons, cids_nil, hc1]
        -- (A' ++ (S ++ [c])) ++ D  ~  (A ++ S) ++ D   where  c :: A' ~ A
        apply List.Perm.append_right
        have h1 : (cids (p.active.filter (·.cid != k)) ++ (cids p.suspending ++ [c.cid])).Perm (c.cid :: cids (p.active.filter (·.cid != k)) ++ cids p.suspending) := by
          rw [← List.append_assoc]
          exact (List.perm_append_singleton _ _).trans (by simp)
        exact h1.trans (List.Perm.append_right _ hperm)

theorem cids_filter_perm (l : List Ctr) (f : Ctr → Bool) : (cids (l.filter f) ++ cids (l.filter (fun c => !f c))).Perm (cids l) := by
  induction l with
  | nil => simp
  | cons c cs ih =>
    by_cases hf : f c = true
    · simp only [List.filter_cons, hf, ↓reduceIte, Bool.not_true, Bool.false_eq_true, cids_cons, List.cons_append]
      exact List.Perm.cons _ ih
    · have hf' : f c = false := by simpa using hf
      simp only [List.filter_cons, hf', Bool.false_eq_true, ↓reduceIte, Bool.not_false, cids_cons]
      exact (List.perm_middle).trans (List.Perm.cons _ ih)

theorem suspTickAll_cids {w w' : Store} {p p' : Pool} (h : suspTickAll w p = .ok (w', p')) : (cidsAll p').Perm (cidsAll p) := by
  unfold suspTickAll at h
  split at h
  · cases h
  · rename_i w1 l hl
    have hk := cids_keys (suspTickList_keys _ _ _ _ hl)
    simp only [Except.ok.injEq, Prod.mk.injEq] at h
    obtain ⟨_, rfl⟩ := h
    simp only [cidsAll, cids_append]
    -- A ++ Sf ++ (D ++ Sd)  ~  A ++ S ++ D
    rw [List.append_assoc, List.append_assoc]
    apply List.Perm.append_left
    have h1 : (cids (l.filter (fun c => !(c.suspLeft == 0))) ++ (cids p.suspended ++ cids (l.filter (fun c => c.suspLeft == 0)))).Perm
        ((cids (l.filter (fun c => !(c.suspLeft == 0))) ++ cids (l.filter (fun c => c.suspLeft == 0))) ++ cids p.suspended) := by
      rw [List.append_assoc]
      exact List.Perm.append_left _ List.perm_append_comm
    refine h1.trans (List.Perm.append_right _ ?_)
    rw [← hk]
    have := cids_filter_perm l (fun c => !(c.suspLeft == 0))
    simpa using this

theorem collect_cids (p : Pool) : (cidsAll (collect p).1).Sublist (cidsAll p) := by
  obtain ⟨f1, f2, _⟩ := collect_fields p
  have f3 : (collect p).1.suspended = p.suspended := by simp only [collect]; split <;> simp [Pool.reconcile]
  simp only [cidsAll, f1, f2, f3]
  exact List.Sublist.append (List.Sublist.append (cids_filter_sublist _ _) (List.Sublist.refl _)) (List.Sublist.refl _)

/-- phases 3–6 -/
theorem poolRun_cids {cfg : Cfg} {w w' : Store} {p p' : Pool} {n : Nat} {res : List Res} (pinv : PoolInv p n)
    (h : poolRun cfg w p = .ok (w', p', res)) : Shrinks (cidsAll p') (cidsAll p) := by
  unfold poolRun at h
  split at h
  · cases h
  · rename_i w3 p3 h3
    obtain ⟨pinv3, _, _, _, _, act3⟩ := suspTickAll_inv pinv h3
    have c3 := suspTickAll_cids h3
    split at h
    · cases h
    · rename_i w4 act4 cons4 h4
      have hk4 := tickAll_keys _ _ _ _ _ _ _ h4
      have hcn4 : (cids act4).Nodup := by rw [cids_keys hk4]; exact (List.nodup_append.mp pinv3.nodup).1
      split at h
      · cases h
      · rename_i w5 p5 h5
        obtain ⟨k1, k2, k3, _⟩ := oomKiller_keys (p := { p3 with active := act4, consumed := cons4 }) hcn4 h5
        simp only at k1 k2 k3
        simp only [Except.ok.injEq, Prod.mk.injEq] at h
        obtain ⟨_, hp', _⟩ := h
        rw [← hp']
        refine (Shrinks.of_sublist (collect_cids p5)).trans ?_
        have : cidsAll p5 = cidsAll p3 := by
          simp only [cidsAll, cids_keys k1, k2, k3, cids_keys hk4]
        rw [this]
        exact Shrinks.of_perm c3

theorem perm_insert (A S D R : List Nat) (n : Nat) : ((A ++ [n]) ++ S ++ D ++ R).Perm (A ++ S ++ D ++ (n :: R)) := by
  rw [List.perm_iff_count]
  intro x
  simp only [List.count_append, List.count_cons, List.count_nil]
  omega

theorem startAll_cids (cfg : Cfg) (w : Store) : ∀ (as : List Asg) (p : Pool) (n : Nat) (p' : Pool) (n' : Nat),
    startAll cfg w p n as = .ok (p', n') → n ≤ n' ∧ (cidsAll p').Perm (cidsAll p ++ List.range' n (n' - n)) := by
  intro as
  induction as with
  | nil =>
    intro p n p' n' h
    simp only [startAll, Except.ok.injEq, Prod.mk.injEq] at h
    obtain ⟨rfl, rfl⟩ := h
    simp
  | cons a as ih =>
    intro p n p' n' h
    unfold startAll at h
    split at h
    · cases h
    · obtain ⟨hle, hp⟩ := ih _ _ _ _ h
      refine ⟨by omega, hp.trans ?_⟩
      have hn : n' - n = (n' - (n + 1)) + 1 := by omega
      rw [hn, List.range'_succ]
      simp only [cidsAll, cids_append, cids_cons, cids_nil, mkCtr]
      exact perm_insert _ _ _ _ _

/-- a whole pool tick: every number the pool knows afterwards was known before or is one of the fresh ones `n … n'−1`, each at most as often as there -/
theorem poolTick_cids {cfg : Cfg} {w w' : Store} {p p' : Pool} {n n' : Nat} {cm : Cmds} {res : List Res} (g : PoolGoodMem cfg p n)
    (h : poolTick cfg w p n cm = .ok (w', p', n', res)) : n ≤ n' ∧ Shrinks (cidsAll p') (cidsAll p ++ List.range' n (n' - n)) := by
  unfold poolTick at h
  split at h
  · cases h
  · split at h
    · cases h
    · rename_i w1 p1 hph
      have hc1 : (cidsAll p1).Perm (cidsAll p) := by
        split at hph
        · simp only [Except.ok.injEq, Prod.mk.injEq] at hph
          obtain ⟨_, rfl⟩ := hph
          exact List.Perm.refl _
        · cases hd : doSuspends cfg w p cm.susp with
          | error e' => simp [hd, Except.map] at hph
          | ok v =>
            obtain ⟨w1', p1'⟩ := v
            simp only [hd, Except.map, Except.ok.injEq, Prod.mk.injEq] at hph
            obtain ⟨_, rfl⟩ := hph
            have := doSuspends_cids cfg _ _ _ _ _ _ hd g.1.1
            simpa [cidsAll, Pool.reconcile] using this
      obtain ⟨g1, _, _⟩ := susPhase_inv g.1 hph
      split at h
      · cases h
      · split at h
        · cases h
        · rename_i p2 n2 hst
          split at h
          · cases h
          · rename_i w6 p6 res6 hr
            simp only [Except.ok.injEq, Prod.mk.injEq] at h
            obtain ⟨_, rfl, rfl, _⟩ := h
            obtain ⟨hle, hp2⟩ := startAll_cids cfg w1 cm.asgs p1 n p2 n2 hst
            obtain ⟨i2, _⟩ := (startAll_inv cfg w1 cm.asgs p1 n g1.1).1 _ _ hst
            refine ⟨hle, (poolRun_cids i2 hr).trans ((Shrinks.of_perm hp2).trans ?_)⟩
            exact Shrinks.append (Shrinks.of_perm hc1) (Shrinks.refl _)

theorem range'_split (n a b : Nat) : List.range' n (a + b) = List.range' n a ++ List.range' (n + a) b := by
  rw [List.range'_append_1]

/-- the loop over the pools -/
theorem execPools_cids (cfg : Cfg) (sus : List (Nat × Nat)) (asgs : List Asg) :
    ∀ (todo : List Pool) (s : Store) (n : Nat) (done : List Pool) (res : List Res) (s' : Store) (ps : List Pool) (n' : Nat) (res' : List Res),
    (∀ p ∈ todo, ∃ m, m ≤ n ∧ PoolGoodMem cfg p m) → execPools cfg sus asgs s n done todo res = .ok (s', ps, n', res') →
    n ≤ n' ∧ Shrinks (ps.flatMap cidsAll) ((done ++ todo).flatMap cidsAll ++ List.range' n (n' - n)) := by
  intro todo
  induction todo with
  | nil =>
    intro s n done res s' ps n' res' _ h
    simp only [execPools, Except.ok.injEq, Prod.mk.injEq] at h
    obtain ⟨_, rfl, rfl, _⟩ := h
    simp [Shrinks.refl]
  | cons p rest ih =>
    intro s n done res s' ps n' res' hg h
    unfold execPools at h
    split at h
    · cases h
    · cases h
    · rename_i s1 p1 n1 r hpt
      obtain ⟨m, hm, gm⟩ := hg p (by simp)
      have gp : PoolGoodMem cfg p n := ⟨⟨gm.1.1.mono hm, gm.1.2⟩, gm.2⟩
      obtain ⟨hle1, sh1⟩ := poolTick_cids gp hpt
      obtain ⟨hle2, sh2⟩ := ih s1 n1 (done ++ [p1]) (res ++ r) s' ps n' res'
        (fun q hq => let ⟨m', hm', gm'⟩ := hg q (List.mem_cons_of_mem _ hq); ⟨m', by omega, gm'⟩) h
      refine ⟨by omega, sh2.trans ?_⟩
      intro x
      have h1 := sh1 x
      have hsplit : List.range' n (n' - n) = List.range' n (n1 - n) ++ List.range' n1 (n' - n1) := by
        have : n' - n = (n1 - n) + (n' - n1) := by omega
        rw [this, range'_split]
        congr 2
        omega
      simp only [List.flatMap_append, List.flatMap_cons, List.flatMap_nil, List.append_nil, List.count_append, hsplit] at h1 ⊢
      omega

/-- **container numbers are never re-used**: all numbers in the active, suspending and suspended lists of all pools are pairwise different and below the
counter — before the tick, hence after it -/
def World.CidsOK (w : World) : Prop := (w.pools.flatMap cidsAll).Nodup ∧ ∀ k ∈ w.pools.flatMap cidsAll, k < w.nextCid

theorem execTick_cids {w w2 : World} {sus : List (Nat × Nat)} {asgs : List Asg} {res : List Res} (hg : ∀ p ∈ w.pools, PoolGoodMem w.cfg p w.nextCid)
    (hc : w.CidsOK) (hx : w.execTick sus asgs = .ok (w2, res)) : w2.CidsOK := by
  unfold World.execTick at hx
  split at hx
  · cases hx
  · split at hx
    · cases hx
    · cases hx
    · rename_i s ps n rr hexp
      simp only [Except.ok.injEq, Prod.mk.injEq] at hx
      obtain ⟨rfl, _⟩ := hx
      obtain ⟨hle, sh⟩ := execPools_cids w.cfg sus asgs w.pools w.store w.nextCid [] [] s ps n rr
        (fun p hp => ⟨w.nextCid, Nat.le_refl _, hg p hp⟩) hexp
      simp only [List.nil_append] at sh
      have hbig : (w.pools.flatMap cidsAll ++ List.range' w.nextCid (n - w.nextCid)).Nodup := by
        rw [List.nodup_append]
        refine ⟨hc.1, List.nodup_range', fun a ha b hb e => ?_⟩
        subst e
        have := hc.2 a ha
        have := (List.mem_range'_1.mp hb).1
        omega
      refine ⟨sh.nodup hbig, fun k hk => ?_⟩
      rcases List.mem_append.mp (sh.mem hk) with h | h
      · have := hc.2 k h; show k < n; omega
      · have := (List.mem_range'_1.mp h).2; show k < n; omega

theorem fresh_world_cidsOK (cfg : Cfg) (store : Store) (pipes : Array PipeInfo) (caps : List (Nat × Nat)) :
    World.CidsOK { cfg := cfg, store := store, pools := caps.map (fun c => Pool.fresh c.1 c.2), pipes := pipes } := by
  have : ∀ (l : List (Nat × Nat)), (l.map (fun c => Pool.fresh c.1 c.2)).flatMap cidsAll = [] := by
    intro l; induction l with
    | nil => rfl
    | cons x xs ih => simp only [List.map_cons, List.flatMap_cons, ih]; simp [cidsAll, Pool.fresh]
  unfold World.CidsOK
  simp only [this]
  exact ⟨List.nodup_nil, by simp⟩

theorem count_cidsAll (pools : List Pool) (x : Nat) :
    (pools.flatMap cidsAll).count x = (cids (pools.flatMap (·.active))).count x + (cids (pools.flatMap (·.suspending))).count x +
      (cids (pools.flatMap (·.suspended))).count x := by
  induction pools with
  | nil => simp [cids]
  | cons p ps ih =>
    simp only [List.flatMap_cons, cidsAll, cids_append, List.count_append, ih]
    omega

/-- what "container numbers are never re-used" gives the scheduler -/
theorem cidsOK_facts {w : World} (h : w.CidsOK) :
    (cids (w.pools.flatMap (·.suspending))).Nodup ∧ (cids (w.pools.flatMap (·.suspended))).Nodup ∧ (cids (w.pools.flatMap (·.active))).Nodup ∧
    (∀ x, x ∈ cids (w.pools.flatMap (·.suspended)) → x ∉ cids (w.pools.flatMap (·.suspending)) ∧ x ∉ cids (w.pools.flatMap (·.active))) ∧
    (∀ x, x ∈ cids (w.pools.flatMap (·.suspending)) → x ∉ cids (w.pools.flatMap (·.active))) := by
  have hc := (nodup_iff_count_le_one _).mp h.1
  have key : ∀ x, (cids (w.pools.flatMap (·.active))).count x + (cids (w.pools.flatMap (·.suspending))).count x +
      (cids (w.pools.flatMap (·.suspended))).count x ≤ 1 := fun x => by rw [← count_cidsAll]; exact hc x
  refine ⟨(nodup_iff_count_le_one _).mpr (fun x => by have := key x; omega), (nodup_iff_count_le_one _).mpr (fun x => by have := key x; omega),
    (nodup_iff_count_le_one _).mpr (fun x => by have := key x; omega), fun x hx => ?_, fun x hx => ?_⟩
  · have h1 := List.one_le_count_iff.mpr hx
    have := key x
    exact ⟨fun h2 => by have := List.one_le_count_iff.mpr h2; omega, fun h2 => by have := List.one_le_count_iff.mpr h2; omega⟩
  · have h1 := List.one_le_count_iff.mpr hx
    have := key x
    exact fun h2 => by have := List.one_le_count_iff.mpr h2; omega

end Eudoxia
