import EudoxiaModel.Proofs.Profile
/-! The summary record of the specification run (`specRunWith`: memory per tick, end tick, verdict) is what `Container.tick`
    does, tick after tick, to the container the pool creates — derived from `run_follows_demands`, not only compared with the code. -/
namespace Eudoxia

theorem takeWhile_all {α} (p : α → Bool) : ∀ (l : List α) (n : Nat), n ≤ (l.takeWhile p).length → ∀ x ∈ l.take n, p x = true
  | [], _, _, x, hx => by simp at hx
  | a :: l, 0, _, x, hx => by simp at hx
  | a :: l, n + 1, hn, x, hx => by
    by_cases ha : p a = true
    · simp only [List.takeWhile_cons, ha, ↓reduceIte, List.length_cons] at hn
      simp only [List.take_succ_cons, List.mem_cons] at hx
      rcases hx with rfl | hx
      · exact ha
      · exact takeWhile_all p l n (by omega) x hx
    · simp [List.takeWhile_cons, ha] at hn

theorem takeWhile_stop {α} (p : α → Bool) (dflt : α) : ∀ (l : List α), (l.takeWhile p).length < l.length →
    p (l.getD (l.takeWhile p).length dflt) = false
  | [], h => by simp at h
  | a :: l, h => by
    by_cases ha : p a = true
    · simp only [List.takeWhile_cons, ha, ↓reduceIte, List.length_cons] at h ⊢
      rw [List.getD_cons_succ]
      exact takeWhile_stop p dflt l (by omega)
    · simp only [List.takeWhile_cons, ha, Bool.false_eq_true, ↓reduceIte, List.length_nil, List.getD_cons_zero]

theorem takeWhile_length_le {α} (p : α → Bool) (l : List α) : (l.takeWhile p).length ≤ l.length :=
  (List.takeWhile_sublist p).length_le

theorem takeWhile_getD {α} (p : α → Bool) (dflt : α) : ∀ (l : List α) (i : Nat), i < (l.takeWhile p).length →
    (l.takeWhile p).getD i dflt = l.getD i dflt
  | [], i, h => by simp at h
  | a :: l, i, h => by
    by_cases ha : p a = true
    · simp only [List.takeWhile_cons, ha, ↓reduceIte, List.length_cons] at h ⊢
      cases i with
      | zero => rfl
      | succ i => rw [List.getD_cons_succ, List.getD_cons_succ]; exact takeWhile_getD p dflt l i (by omega)
    · simp [List.takeWhile_cons, ha] at h

/-- relabelling the operator label leaves the demands alone -/
theorem relabel_takeWhile (L ram : Nat) (D : List (Nat × Nat)) :
    ((D.map (fun x => (L - 1 - x.1, x.2))).takeWhile (fun x => decide (x.2 ≤ ram))).length =
    (D.takeWhile (fun x => decide (x.2 ≤ ram))).length := by
  induction D with
  | nil => rfl
  | cons a D ih =>
    simp only [List.map_cons, List.takeWhile_cons]
    by_cases h : a.2 ≤ ram
    · simp [h, ih]
    · simp [h]

theorem relabel_getD_snd (L : Nat) (D : List (Nat × Nat)) (i : Nat) :
    ((D.map (fun x => (L - 1 - x.1, x.2))).getD i (0, 0)).2 = (D.getD i (0, 0)).2 := by
  induction D generalizing i with
  | nil => simp
  | cons a D ih =>
    cases i with
    | zero => simp
    | succ i => simpa using ih i

/-- the part of `specRunWith` that does not look at operator labels, in terms of the position-derived demand list `D` of the container -/
theorem specRunWith_summary (cfg : Cfg) (ram : Nat) (ops : List (List Seg)) (ticks : List (List (Nat × Nat))) (D : List (Nat × Nat))
    (hD : D.map (fun x => (ops.length - 1 - x.1, x.2)) = ctrDemands cfg ops ticks) :
    let S := specRunWith cfg ram ops ticks
    let k := (D.takeWhile (fun x => decide (x.2 ≤ ram))).length
    (S.ok = true ↔ k = D.length) ∧ S.endTick = (if k = D.length then D.length else k + 1) ∧ S.mem.length = S.endTick - 1 ∧
    (∀ i, i < S.mem.length → S.mem.getD i 0 = (D.getD i (0, 0)).2) := by
  intro S k
  have hk : ((ctrDemands cfg ops ticks).takeWhile (fun x => decide (x.2 ≤ ram))).length = k := by
    rw [← hD]; exact relabel_takeWhile _ _ _
  have hlen : (ctrDemands cfg ops ticks).length = D.length := by rw [← hD]; simp
  have hkle : k ≤ D.length := takeWhile_length_le _ _
  have hget : ∀ i, i < k → (((ctrDemands cfg ops ticks).takeWhile (fun x => decide (x.2 ≤ ram))).map (·.2)).getD i 0 = (D.getD i (0, 0)).2 := by
    intro i hi
    rw [List.getD_eq_getElem?_getD, List.getElem?_map]
    have h1 := takeWhile_getD (fun x : Nat × Nat => decide (x.2 ≤ ram)) (0, 0) (ctrDemands cfg ops ticks) i (by omega)
    rw [← relabel_getD_snd (ops.length) D i, hD, ← h1, List.getD_eq_getElem?_getD]
    cases ((ctrDemands cfg ops ticks).takeWhile (fun x => decide (x.2 ≤ ram)))[i]? <;> rfl
  by_cases hall : k = D.length
  · have hb : ((((ctrDemands cfg ops ticks).takeWhile (fun x => decide (x.2 ≤ ram))).length) == (ctrDemands cfg ops ticks).length) = true := by
      rw [hk, hlen]; simpa using hall
    obtain ⟨s1, s2, s3⟩ : S.mem = ((((ctrDemands cfg ops ticks).takeWhile (fun x => decide (x.2 ≤ ram))).map (·.2))).dropLast ∧
        S.endTick = (ctrDemands cfg ops ticks).length ∧ S.ok = true := by
      simp only [S, specRunWith]
      rw [hb]
      simp
    refine ⟨?_, ?_, ?_, ?_⟩
    · rw [s3]; simp [hall]
    · rw [s2]; simp [hall, hlen]
    · rw [s1, s2]; simp only [List.length_dropLast, List.length_map, hk, hlen, hall]
    · intro i hi
      rw [s1] at hi ⊢
      simp only [List.length_dropLast, List.length_map, hk] at hi
      rw [List.getD_eq_getElem?_getD, List.getElem?_dropLast]
      simp only [List.length_map, hk]
      rw [if_pos (by omega), ← List.getD_eq_getElem?_getD]
      exact hget i (by omega)
  · have hb : ((((ctrDemands cfg ops ticks).takeWhile (fun x => decide (x.2 ≤ ram))).length) == (ctrDemands cfg ops ticks).length) = false := by
      rw [hk, hlen]; simpa using hall
    obtain ⟨s1, s2, s3⟩ : S.mem = ((((ctrDemands cfg ops ticks).takeWhile (fun x => decide (x.2 ≤ ram))).map (·.2))) ∧
        S.endTick = ((ctrDemands cfg ops ticks).takeWhile (fun x => decide (x.2 ≤ ram))).length + 1 ∧ S.ok = false := by
      simp only [S, specRunWith]
      rw [hb]
      simp
    refine ⟨?_, ?_, ?_, ?_⟩
    · rw [s3]; simp [hall]
    · rw [s2, hk]; simp [hall]
    · rw [s1, s2]; simp
    · intro i hi
      rw [s1] at hi ⊢
      simp only [List.length_map, hk] at hi
      exact hget i hi

theorem relabel_getD_fst (L : Nat) (D : List (Nat × Nat)) (i : Nat) (hi : i < D.length) :
    ((D.map (fun x => (L - 1 - x.1, x.2))).getD i (0, 0)).1 = L - 1 - (D.getD i (0, 0)).1 := by
  induction D generalizing i with
  | nil => simp at hi
  | cons a D ih =>
    cases i with
    | zero => simp
    | succ i => simpa using ih i (by simpa using hi)

/-- the operators the specification counts as completed when the run ends: all of them after a success, otherwise the operator of the first demand
that does not fit -/
theorem specRunWith_completedOps (cfg : Cfg) (ram : Nat) (ops : List (List Seg)) (ticks : List (List (Nat × Nat))) (D : List (Nat × Nat))
    (hD : D.map (fun x => (ops.length - 1 - x.1, x.2)) = ctrDemands cfg ops ticks) :
    let S := specRunWith cfg ram ops ticks
    let k := (D.takeWhile (fun x => decide (x.2 ≤ ram))).length
    (k = D.length → S.completedOps = ops.length) ∧ (k < D.length → S.completedOps = ops.length - 1 - (D.getD k (0, 0)).1) := by
  intro S k
  have hk : ((ctrDemands cfg ops ticks).takeWhile (fun x => decide (x.2 ≤ ram))).length = k := by
    rw [← hD]; exact relabel_takeWhile _ _ _
  have hlen : (ctrDemands cfg ops ticks).length = D.length := by rw [← hD]; simp
  constructor
  · intro hall
    have hb : ((((ctrDemands cfg ops ticks).takeWhile (fun x => decide (x.2 ≤ ram))).length) == (ctrDemands cfg ops ticks).length) = true := by
      rw [hk, hlen]; simpa using hall
    simp only [S, specRunWith]
    rw [hb]
    simp
  · intro hlt
    have hb : ((((ctrDemands cfg ops ticks).takeWhile (fun x => decide (x.2 ≤ ram))).length) == (ctrDemands cfg ops ticks).length) = false := by
      rw [hk, hlen]; simp; omega
    simp only [S, specRunWith]
    rw [hb]
    simp only [Bool.false_eq_true, ↓reduceIte, hk]
    rw [← hD]
    exact relabel_getD_fst _ _ _ hlt

/-- `n + 1` ticks are `n` ticks and one more -/
theorem runN_snoc (cfg : Cfg) : ∀ (n : Nat) (w : Store) (c : Ctr) (cons : Int),
    runN cfg (n + 1) w c cons = (match runN cfg n w c cons with
      | .error e => .error e
      | .ok (w1, c1, cons1) => c1.tick cfg w1 cons1)
  | 0, w, c, cons => by
    simp only [runN]
    cases c.tick cfg w cons with
    | error e => rfl
    | ok r => rfl
  | n + 1, w, c, cons => by
    rw [runN]
    cases h : c.tick cfg w cons with
    | error e => simp only [runN, h]
    | ok r =>
      obtain ⟨w1, c1, cons1⟩ := r
      simp only
      rw [runN_snoc cfg n w1 c1 cons1]
      conv => rhs; rw [runN]
      simp only [h]

end Eudoxia
