import EudoxiaModel.Proofs.Store
/-! Every executor-side function relates its input and output operator table by `Steps`. -/
namespace Eudoxia
open OpState

theorem ok_fst {ε α β : Type} {a a' : α} {b b' : β}
    (h : (Except.ok (a, b) : Except ε (α × β)) = .ok (a', b')) : a = a' := by
  cases h; rfl

/-- `c'` differs from `c` at most in the generator position -/
def Ctr.SameButPos (c c' : Ctr) : Prop := c' = { c with pos := c'.pos }

theorem Ctr.SameButPos.refl (c : Ctr) : c.SameButPos c := rfl
theorem Ctr.SameButPos.mk (c : Ctr) (p : Pos) : c.SameButPos { c with pos := p } := rfl
theorem Ctr.SameButPos.trans {a b c : Ctr} (h1 : a.SameButPos b) (h2 : b.SameButPos c) : a.SameButPos c := by
  unfold Ctr.SameButPos at *
  rw [h2, h1]

/-- `seek` only starts operators and moves the position; it ends at a position with a tick to run -/
theorem seek_spec (cfg : Cfg) (w : Store) (c : Ctr) (w' : Store) (c' : Ctr) (h : seek w cfg c = .ok (w', c')) :
    Steps w w' ∧ c.SameButPos c' ∧
    ∃ r allsegs rest sg io cpuT more, c'.pos.ops = (r, allsegs) :: rest ∧ c'.pos.started = true ∧
      c'.pos.segs = (sg, io, cpuT) :: more ∧ c'.pos.i < io + cpuT := by
  fun_induction seek w cfg c
  case case1 => cases h
  case case2 => cases h
  case case3 ih =>
    rename_i hw
    obtain ⟨i1, i2, i3⟩ := ih h
    exact ⟨(Steps.single hw).trans i1, Ctr.SameButPos.trans (Ctr.SameButPos.mk _ _) i2, i3⟩
  case case4 ih =>
    obtain ⟨i1, i2, i3⟩ := ih h
    exact ⟨i1, Ctr.SameButPos.trans (Ctr.SameButPos.mk _ _) i2, i3⟩
  case case5 =>
    rename_i w0 c0 r allsegs rest hops hs sg io cpuT more hsg hlt
    cases h
    exact ⟨.refl _, rfl, r, allsegs, rest, sg, io, cpuT, more, hops, by simpa using hs, hsg, hlt⟩
  case case6 ih =>
    obtain ⟨i1, i2, i3⟩ := ih h
    exact ⟨i1, Ctr.SameButPos.trans (Ctr.SameButPos.mk _ _) i2, i3⟩

theorem runAt_steps {w w' : Store} {c c' : Ctr} {cons cons' : Int} {r : Nat} {last : Bool} {m : Nat}
    (h : runAt w c cons r last m = .ok (w', c', cons')) : Steps w w' := by
  unfold runAt at h
  split at h
  · rw [ok_fst h]; exact .refl _
  · split at h
    · split at h
      · cases h
      · rename_i hw
        split at h <;> (rw [← ok_fst h]; exact Steps.single hw)
    · rw [ok_fst h]; exact .refl _

theorem runTick_steps {cfg : Cfg} {w w' : Store} {c c' : Ctr} {cons cons' : Int}
    (h : runTick cfg w c cons = .ok (w', c', cons')) : Steps w w' := by
  unfold runTick at h
  split at h
  · exact runAt_steps h
  · cases h

theorem advance_steps (cfg : Cfg) (w : Store) (c : Ctr) (cons : Int) (w' : Store) (c' : Ctr) (cons' : Int)
    (h : advance cfg w c cons = .ok (w', c', cons')) : Steps w w' := by
  unfold advance at h
  split at h
  · rw [ok_fst h]; exact .refl _
  · split at h
    · cases h
    · rename_i hs
      exact (seek_spec _ _ _ _ _ hs).1.trans (runTick_steps h)

theorem tick_steps {cfg : Cfg} {w w' : Store} {c c' : Ctr} {cons cons' : Int}
    (h : c.tick cfg w cons = .ok (w', c', cons')) : Steps w w' := by
  unfold Ctr.tick at h
  split at h
  · rw [ok_fst h]; exact .refl _
  · split at h
    · cases h
    · rename_i w1 c1 cons1 hadv
      rw [← ok_fst h]
      exact advance_steps _ _ _ _ _ _ _ hadv

theorem kill_steps {w w' : Store} {c c' : Ctr} {cons cons' : Int}
    (h : c.kill w cons = .ok (w', c', cons')) : Steps w w' := by
  unfold Ctr.kill at h
  split at h
  · cases h
  · rename_i w1 hw1
    rw [← ok_fst h]
    exact transAll_steps _ _ _ _ hw1

theorem suspend_steps {cfg : Cfg} {w w' : Store} {c c' : Ctr}
    (h : c.suspend cfg w = .ok (w', c')) : Steps w w' := by
  unfold Ctr.suspend at h
  split at h
  · cases h
  · rename_i w1 hw1
    rw [← ok_fst h]
    exact transAll_steps _ _ _ _ hw1

theorem suspendTick_steps {w w' : Store} {c c' : Ctr}
    (h : c.suspendTick w = .ok (w', c')) : Steps w w' := by
  unfold Ctr.suspendTick at h
  split at h
  · split at h
    · cases h
    · rename_i w1 hw1
      rw [← ok_fst h]
      exact transAll_steps _ _ _ _ hw1
  · rw [ok_fst h]; exact .refl _

theorem doSuspends_steps (cfg : Cfg) : ∀ (l : List Nat) (w : Store) (p : Pool) (w' : Store) (p' : Pool),
    doSuspends cfg w p l = .ok (w', p') → Steps w w' := by
  intro l
  induction l with
  | nil => intro w p w' p' h; simp [doSuspends] at h; rw [h.1]; exact .refl _
  | cons cid rest ih =>
    intro w p w' p' h
    unfold doSuspends at h
    split at h
    · cases h
    · split at h
      · cases h
      · rename_i hs
        exact (suspend_steps hs).trans (ih _ _ _ _ h)

theorem suspTickList_steps : ∀ (l : List Ctr) (w : Store) (w' : Store) (l' : List Ctr),
    suspTickList w l = .ok (w', l') → Steps w w' := by
  intro l
  induction l with
  | nil => intro w w' l' h; simp [suspTickList] at h; rw [h.1]; exact .refl _
  | cons c cs ih =>
    intro w w' l' h
    unfold suspTickList at h
    split at h
    · cases h
    · rename_i hs
      split at h
      · cases h
      · rename_i hr
        rw [← ok_fst h]
        exact (suspendTick_steps hs).trans (ih _ _ _ hr)

theorem suspTickAll_steps {w w' : Store} {p p' : Pool} (h : suspTickAll w p = .ok (w', p')) : Steps w w' := by
  unfold suspTickAll at h
  split at h
  · cases h
  · rename_i hl
    rw [← ok_fst h]
    exact suspTickList_steps _ _ _ _ hl

theorem tickAll_steps (cfg : Cfg) : ∀ (l : List Ctr) (w : Store) (cons : Int) (w' : Store) (l' : List Ctr) (cons' : Int),
    tickAll cfg w l cons = .ok (w', l', cons') → Steps w w' := by
  intro l
  induction l with
  | nil => intro w cons w' l' cons' h; simp [tickAll] at h; rw [h.1]; exact .refl _
  | cons c cs ih =>
    intro w cons w' l' cons' h
    unfold tickAll at h
    split at h
    · cases h
    · rename_i ht
      split at h
      · cases h
      · rename_i hr
        rw [← ok_fst h]
        exact (tick_steps ht).trans (ih _ _ _ _ _ hr)

theorem killIndividual_steps : ∀ (l : List Ctr) (w : Store) (cons : Int) (w' : Store) (l' : List Ctr) (cons' : Int),
    killIndividual w l cons = .ok (w', l', cons') → Steps w w' := by
  intro l
  induction l with
  | nil => intro w cons w' l' cons' h; simp [killIndividual] at h; rw [h.1]; exact .refl _
  | cons c cs ih =>
    intro w cons w' l' cons' h
    unfold killIndividual at h
    split at h
    · split at h
      · cases h
      · rename_i hk
        split at h
        · cases h
        · rename_i hr
          rw [← ok_fst h]
          exact (kill_steps hk).trans (ih _ _ _ _ _ hr)
    · split at h
      · cases h
      · rename_i hr
        rw [← ok_fst h]
        exact ih _ _ _ _ _ hr

theorem killVictims_steps (capR : Nat) : ∀ (vs : List Ctr) (w : Store) (act : List Ctr) (cons : Int) (w' : Store) (act' : List Ctr) (cons' : Int),
    killVictims w capR act cons vs = .ok (w', act', cons') → Steps w w' := by
  intro vs
  induction vs with
  | nil => intro w act cons w' act' cons' h; simp [killVictims] at h; rw [h.1]; exact .refl _
  | cons v vs ih =>
    intro w act cons w' act' cons' h
    unfold killVictims at h
    split at h
    · rw [ok_fst h]; exact .refl _
    · split at h
      · cases h
      · rename_i hk
        exact (kill_steps hk).trans (ih _ _ _ _ _ _ h)

theorem oomKiller_steps {w w' : Store} {p p' : Pool} (h : oomKiller w p = .ok (w', p')) : Steps w w' := by
  unfold oomKiller at h
  split at h
  · cases h
  · rename_i w1 act1 cons1 hk
    split at h
    · rw [← ok_fst h]; exact killIndividual_steps _ _ _ _ _ _ hk
    · split at h
      · cases h
      · rename_i hv
        rw [← ok_fst h]
        exact (killIndividual_steps _ _ _ _ _ _ hk).trans (killVictims_steps _ _ _ _ _ _ _ _ hv)

theorem poolRun_steps {cfg : Cfg} {w w' : Store} {p p' : Pool} {res : List Res}
    (h : poolRun cfg w p = .ok (w', p', res)) : Steps w w' := by
  unfold poolRun at h
  split at h
  · cases h
  · rename_i w3 p3 h3
    split at h
    · cases h
    · rename_i w4 act4 cons4 h4
      split at h
      · cases h
      · rename_i w5 p5 h5
        rw [← ok_fst h]
        exact ((suspTickAll_steps h3).trans (tickAll_steps _ _ _ _ _ _ _ h4)).trans (oomKiller_steps h5)

end Eudoxia

namespace Eudoxia
open OpState

/-- phase 1 of the pool tick as used inside `poolTick` -/
theorem susPhase_steps {cfg : Cfg} {w w1 : Store} {p p1 : Pool} {l : List Nat}
    (h : (if l.isEmpty then (Except.ok (w, p) : Except Err (Store × Pool))
          else (doSuspends cfg w p l).map (fun (w1, p1) => (w1, p1.reconcile))) = .ok (w1, p1)) : Steps w w1 := by
  split at h
  · rw [ok_fst h]; exact .refl _
  · cases hd : doSuspends cfg w p l with
    | error e => simp [hd, Except.map] at h
    | ok v =>
      obtain ⟨w2, p2⟩ := v
      simp [hd, Except.map] at h
      rw [← h.1]
      exact doSuspends_steps _ _ _ _ _ _ hd

theorem poolTick_steps_ok {cfg : Cfg} {w w' : Store} {p p' : Pool} {n n' : Nat} {cm : Cmds} {res : List Res}
    (h : poolTick cfg w p n cm = .ok (w', p', n', res)) : Steps w w' := by
  unfold poolTick at h
  split at h
  · cases h
  · split at h
    · cases h
    · rename_i w1 p1 hs
      split at h
      · cases h
      · split at h
        · cases h
        · split at h
          · cases h
          · rename_i hr
            rw [← ok_fst h]
            exact (susPhase_steps hs).trans (poolRun_steps hr)

theorem poolTick_steps_err {cfg : Cfg} {w w' : Store} {p p' : Pool} {n n' : Nat} {cm : Cmds} {e : Err}
    (h : poolTick cfg w p n cm = .error (e, some (w', p', n'))) : Steps w w' := by
  unfold poolTick at h
  split at h
  · simp at h; rw [← h.2.1]; exact .refl _
  · split at h
    · simp at h
    · rename_i w1 p1 hs
      split at h
      · simp at h; rw [← h.2.1]; exact susPhase_steps hs
      · split at h
        · simp at h; rw [← h.2.1]; exact susPhase_steps hs
        · split at h
          · simp at h
          · simp at h

theorem execPools_steps_ok (cfg : Cfg) (sus : List (Nat × Nat)) (asgs : List Asg) :
    ∀ (todo : List Pool) (s : Store) (n : Nat) (done : List Pool) (res : List Res) (s' : Store) (ps : List Pool) (n' : Nat) (res' : List Res),
    execPools cfg sus asgs s n done todo res = .ok (s', ps, n', res') → Steps s s' := by
  intro todo
  induction todo with
  | nil => intro s n done res s' ps n' res' h; simp [execPools] at h; rw [h.1]; exact .refl _
  | cons p todo ih =>
    intro s n done res s' ps n' res' h
    unfold execPools at h
    split at h
    · cases h
    · cases h
    · rename_i hp
      exact (poolTick_steps_ok hp).trans (ih _ _ _ _ _ _ _ _ h)

theorem execPools_steps_err (cfg : Cfg) (sus : List (Nat × Nat)) (asgs : List Asg) :
    ∀ (todo : List Pool) (s : Store) (n : Nat) (done : List Pool) (res : List Res) (e : Err) (s' : Store) (ps : List Pool) (n' : Nat),
    execPools cfg sus asgs s n done todo res = .error (e, some (s', ps, n')) → Steps s s' := by
  intro todo
  induction todo with
  | nil => intro s n done res e s' ps n' h; simp [execPools] at h
  | cons p todo ih =>
    intro s n done res e s' ps n' h
    unfold execPools at h
    split at h
    · simp at h
    · rename_i hp
      simp at h
      rw [← h.2.1]
      exact poolTick_steps_err hp
    · rename_i hp
      exact (poolTick_steps_ok hp).trans (ih _ _ _ _ _ _ _ _ h)

/-- the executor step changes operator states only through accepted transitions -/
theorem execTick_steps_ok {w w' : World} {sus : List (Nat × Nat)} {asgs : List Asg} {res : List Res}
    (h : w.execTick sus asgs = .ok (w', res)) : Steps w.store w'.store := by
  unfold World.execTick at h
  split at h
  · cases h
  · split at h
    · cases h
    · cases h
    · rename_i hp
      simp at h
      rw [← h.1]
      exact execPools_steps_ok _ _ _ _ _ _ _ _ _ _ _ _ hp

theorem execTick_steps_err {w w' : World} {sus : List (Nat × Nat)} {asgs : List Asg} {e : Err}
    (h : w.execTick sus asgs = .error (e, some w')) : Steps w.store w'.store := by
  unfold World.execTick at h
  split at h
  · simp at h; rw [← h.2]; exact .refl _
  · split at h
    · simp at h
    · rename_i hp
      simp at h
      rw [← h.2]
      exact execPools_steps_err _ _ _ _ _ _ _ _ _ _ _ _ hp
    · cases h

/-- `Assignment.__init__`, accepted or refused, changes operator states only through accepted transitions -/
theorem mkAssignment_steps_ok {w w' : World} {a : Asg} (h : w.mkAssignment a = .ok w') : Steps w.store w'.store := by
  unfold World.mkAssignment at h
  split at h
  · cases h
  · split at h
    · cases h
    · split at h
      · cases h
      · split at h
        · cases h
        · rename_i hs
          simp at h; rw [← h]
          exact assignOps_steps _ _ _ hs

theorem mkAssignment_steps_err {w w' : World} {a : Asg} {e : Err} (h : w.mkAssignment a = .error (e, w')) :
    Steps w.store w'.store := by
  unfold World.mkAssignment at h
  split at h
  · simp at h; rw [← h.2]; exact .refl _
  · split at h
    · simp at h; rw [← h.2]; exact .refl _
    · split at h
      · simp at h; rw [← h.2]; exact .refl _
      · split at h
        · rename_i hs
          simp at h; rw [← h.2]
          exact assignOps_steps_err _ _ _ _ hs
        · cases h

end Eudoxia
