import EudoxiaModel.Proofs.Store
/-! `state_counts` is the histogram of `operator_states` (C02; makes `is_pipeline_successful` mean
    "every operator completed"). -/
namespace Eudoxia
open Extracted OpState

def Store.hist (s : Store) (pid : Nat) (x : OpState) : Nat :=
  (List.range s.st.size).countP (fun k => s.pidOf k == pid && s.stOf k == x)

structure CountsInv (s : Store) : Prop where
  size : ∀ r, r < s.st.size → (s.pidOf r + 1) * 6 ≤ s.cnt.size
  ok : ∀ pid x, s.count pid x = s.hist pid x

theorem idx_lt (x : OpState) : x.idx < 6 := by cases x <;> decide
theorem idx_inj {x y : OpState} (h : x.idx = y.idx) : x = y := by
  cases x <;> cases y <;> first | rfl | (simp [OpState.idx] at h)

/-- changing a predicate at one point of a duplicate-free list -/
theorem countP_update (p p' : Nat → Bool) (r : Nat) : ∀ (l : List Nat), l.Nodup → r ∈ l →
    (∀ k ∈ l, k ≠ r → p' k = p k) →
    l.countP p' + (if p r then 1 else 0) = l.countP p + (if p' r then 1 else 0) := by
  intro l
  induction l with
  | nil => intro _ h; cases h
  | cons a l ih =>
    intro hnd hr hag
    rw [List.nodup_cons] at hnd
    rw [List.countP_cons, List.countP_cons]
    by_cases har : a = r
    · subst har
      have : l.countP p' = l.countP p := by
        apply List.countP_congr
        intro k hk
        have hne : k ≠ a := by intro e; subst e; exact hnd.1 hk
        rw [hag k (List.mem_cons_of_mem _ hk) hne]
      rw [this]; omega
    · have hrl : r ∈ l := by
        rcases List.mem_cons.mp hr with e | e
        · exact absurd e.symm har
        · exact e
      have := ih hnd.2 hrl (fun k hk hne => hag k (List.mem_cons_of_mem _ hk) hne)
      rw [hag a (List.mem_cons_self) har]
      omega

theorem getD_modify2 (cnt : Array Nat) (i j k : Nat) (hk : k < cnt.size) :
    ((cnt.modify i (· - 1)).modify j (· + 1)).getD k 0 =
      (if j = k then 1 else 0) + (if i = k then cnt.getD k 0 - 1 else cnt.getD k 0) := by
  simp only [Array.getD_eq_getD_getElem?, Array.getElem?_modify, Array.getElem?_eq_getElem hk]
  by_cases h1 : j = k <;> by_cases h2 : i = k <;> simp [h1, h2] <;> omega

theorem getD_modify2_oob (cnt : Array Nat) (i j k : Nat) (hk : ¬ k < cnt.size) :
    ((cnt.modify i (· - 1)).modify j (· + 1)).getD k 0 = cnt.getD k 0 := by
  have h0 : cnt[k]? = none := Array.getElem?_eq_none (by omega)
  simp only [Array.getD_eq_getD_getElem?, Array.getElem?_modify, h0]
  by_cases h1 : j = k <;> by_cases h2 : i = k <;> simp [h1, h2]

theorem count_setSt (s : Store) (r : Nat) (t : OpState) (pid : Nat) (x : OpState)
    (hsz : (s.pidOf r + 1) * 6 ≤ s.cnt.size) :
    (s.setSt r t).count pid x =
      (if s.pidOf r = pid ∧ t = x then 1 else 0) +
      ((if s.pidOf r = pid ∧ s.stOf r = x then s.count pid x - 1 else s.count pid x)) := by
  have hx := idx_lt x; have ht := idx_lt t; have ho := idx_lt (s.stOf r)
  have hj : (s.pidOf r * 6 + t.idx = pid * 6 + x.idx) ↔ (s.pidOf r = pid ∧ t = x) := by
    constructor
    · intro e; exact ⟨by omega, idx_inj (by omega)⟩
    · rintro ⟨rfl, rfl⟩; rfl
  have hi : (s.pidOf r * 6 + (s.stOf r).idx = pid * 6 + x.idx) ↔ (s.pidOf r = pid ∧ s.stOf r = x) := by
    constructor
    · intro e; exact ⟨by omega, idx_inj (by omega)⟩
    · rintro ⟨e1, e2⟩; rw [e1, e2]
  show ((s.cnt.modify (s.pidOf r * 6 + (s.stOf r).idx) (· - 1)).modify (s.pidOf r * 6 + t.idx) (· + 1)).getD (pid * 6 + x.idx) 0 = _
  by_cases hk : pid * 6 + x.idx < s.cnt.size
  · rw [getD_modify2 _ _ _ _ hk]
    simp only [hj, hi, Store.count]
  · rw [getD_modify2_oob _ _ _ _ hk]
    have h1 : ¬ (s.pidOf r = pid ∧ t = x) := by rintro ⟨rfl, rfl⟩; omega
    have h2 : ¬ (s.pidOf r = pid ∧ s.stOf r = x) := by rintro ⟨e1, e2⟩; rw [← e1, ← e2] at hk; omega
    simp only [h1, h2, Store.count, ↓reduceIte, Nat.zero_add]

theorem hist_setSt (s : Store) (r : Nat) (t : OpState) (pid : Nat) (x : OpState) (hb : r < s.st.size) :
    (s.setSt r t).hist pid x + (if s.pidOf r = pid ∧ s.stOf r = x then 1 else 0) =
      s.hist pid x + (if s.pidOf r = pid ∧ t = x then 1 else 0) := by
  unfold Store.hist
  have hsz : (s.setSt r t).st.size = s.st.size := by simp [Store.setSt]
  rw [hsz]
  have hpid : ∀ k, (s.setSt r t).pidOf k = s.pidOf k := fun k => rfl
  have := countP_update (fun k => s.pidOf k == pid && s.stOf k == x)
    (fun k => (s.setSt r t).pidOf k == pid && (s.setSt r t).stOf k == x) r (List.range s.st.size)
    List.nodup_range (List.mem_range.mpr hb)
    (by intro k _ hne; simp only [hpid]; rw [stOf_setSt_ne s r k t (Ne.symm hne)])
  simp only [hpid, stOf_setSt_eq s r t hb] at this
  simp only [Bool.and_eq_true, beq_iff_eq] at this
  exact this

theorem countsInv_step {s s' : Store} {r : Nat} {t : OpState}
    (h : s.transition r t = .ok s') (inv : CountsInv s) : CountsInv s' := by
  obtain ⟨_, _, rfl, hb⟩ := transition_ok h
  constructor
  · intro k hk
    have : (s.setSt r t).cnt.size = s.cnt.size := by simp [Store.setSt]
    rw [this]
    have hk' : k < s.st.size := by simpa [Store.setSt] using hk
    exact inv.size k hk'
  · intro pid x
    rw [count_setSt s r t pid x (inv.size r hb)]
    have hh := hist_setSt s r t pid x hb
    rw [inv.ok pid x]
    by_cases h1 : s.pidOf r = pid ∧ s.stOf r = x
    · -- the moved operator is counted in the old histogram, so it is ≥ 1
      have hpos : 1 ≤ s.hist pid x := by
        unfold Store.hist
        apply List.countP_pos_iff.mpr
        exact ⟨r, List.mem_range.mpr hb, by simp [h1.1, h1.2]⟩
      simp only [h1, and_self, ↓reduceIte] at hh ⊢
      omega
    · simp only [h1, ↓reduceIte] at hh ⊢
      omega

theorem countsInv_steps {s s' : Store} (h : Steps s s') (inv : CountsInv s) : CountsInv s' := by
  induction h with
  | refl => exact inv
  | step r t h1 _ ih => exact ih (countsInv_step h1 inv)

end Eudoxia
