import EudoxiaModel.Proofs.CtrKept
import EudoxiaModel.Proofs.WorldLive
import EudoxiaModel.Proofs.Cids
/-! The `Kept` tower of `CtrKept.lean` for ticks with suspension requests: a property of running containers that ticks and kills preserve and that freshly
    made containers have is kept by a whole pool tick / executor tick, and every result reported comes from a container that had it. -/
namespace Eudoxia
open OpState Extracted

/-! ### properties of running containers kept by a tick with suspension requests -/

theorem doSuspends_active_mem (cfg : Cfg) : ∀ (l : List Nat) (w : Store) (p : Pool) (w' : Store) (p' : Pool),
    doSuspends cfg w p l = .ok (w', p') → ∀ c ∈ p'.active, c ∈ p.active := by
  intro l
  induction l with
  | nil => intro w p w' p' h c hc; simp only [doSuspends, Except.ok.injEq, Prod.mk.injEq] at h; rw [← h.2] at hc; exact hc
  | cons k ks ih =>
    intro w p w' p' h c hc
    unfold doSuspends at h
    split at h
    · cases h
    · split at h
      · cases h
      · exact (List.mem_filter.mp (ih _ _ _ _ h c hc)).1

theorem poolRun_keptS {cfg : Cfg} {w w' : Store} {p p' : Pool} {n : Nat} {res : List Res} {P : Ctr → Prop} (k : Kept cfg P) (pinv : PoolInv p n)
    (hp : AllC P p.active) (h : poolRun cfg w p = .ok (w', p', res)) : AllC P p'.active ∧ ∀ r ∈ res, ∃ c, P c ∧ r = mkRes c := by
  unfold poolRun at h
  split at h
  · cases h
  · rename_i w3 p3 h3
    obtain ⟨_, _, _, _, _, act3⟩ := suspTickAll_inv pinv h3
    split at h
    · cases h
    · rename_i w4 act4 cons4 h4
      rw [act3] at h4
      have h4' := tickAll_kept k _ _ _ _ _ _ h4 hp
      split at h
      · cases h
      · rename_i w5 p5 h5
        have h5' := oomKiller_kept k h5 (by exact h4')
        simp only [Except.ok.injEq, Prod.mk.injEq] at h
        obtain ⟨_, hp', hr⟩ := h
        obtain ⟨f1, _, _⟩ := collect_fields p5
        refine ⟨?_, ?_⟩
        · rw [← hp', f1]; intro c hc; exact h5' c (List.mem_filter.mp hc).1
        · intro r hrr
          rw [← hr] at hrr
          simp only [collect] at hrr
          obtain ⟨c, hc, rfl⟩ := List.mem_map.mp hrr
          exact ⟨c, h5' c (List.mem_filter.mp hc).1, rfl⟩

theorem poolTick_keptS {cfg : Cfg} {w w' : Store} {p p' : Pool} {n n' : Nat} {cm : Cmds} {res : List Res} {P : Ctr → Prop} (k : Kept cfg P)
    (g : PoolGoodMem cfg p n) (hp : AllC P p.active) (ha : ∀ a ∈ cm.asgs, ∀ (s : Store) j, P (mkCtr s j a))
    (h : poolTick cfg w p n cm = .ok (w', p', n', res)) : AllC P p'.active ∧ ∀ r ∈ res, ∃ c, P c ∧ r = mkRes c := by
  unfold poolTick at h
  split at h
  · cases h
  · split at h
    · cases h
    · rename_i w1 p1 hph
      have hsub : ∀ c ∈ p1.active, c ∈ p.active := by
        split at hph
        · simp only [Except.ok.injEq, Prod.mk.injEq] at hph
          obtain ⟨_, rfl⟩ := hph
          exact fun c hc => hc
        · cases hd : doSuspends cfg w p cm.susp with
          | error e' => simp [hd, Except.map] at hph
          | ok v =>
            obtain ⟨w1', p1'⟩ := v
            simp only [hd, Except.map, Except.ok.injEq, Prod.mk.injEq] at hph
            obtain ⟨_, rfl⟩ := hph
            intro c hc
            exact doSuspends_active_mem cfg _ _ _ _ _ hd c (by simpa [Pool.reconcile] using hc)
      obtain ⟨g1, _, _⟩ := susPhase_inv g.1 hph
      split at h
      · cases h
      · split at h
        · cases h
        · rename_i p2 n2 hst
          split at h
          · cases h
          · rename_i w6 p6 res6 hr
            simp only [Except.ok.injEq, Prod.mk.injEq] at h
            obtain ⟨_, rfl, _, rfl⟩ := h
            obtain ⟨i2, _⟩ := (startAll_inv cfg w1 cm.asgs p1 n g1.1).1 _ _ hst
            exact poolRun_keptS k i2 (startAll_kept cfg w1 P cm.asgs p1 n p2 n2 hst (fun c hc => hp c (hsub c hc)) (fun a haa j => ha a haa w1 j)) hr

theorem execPools_keptS (cfg : Cfg) (sus : List (Nat × Nat)) (asgs : List Asg) {P : Ctr → Prop} (k : Kept cfg P)
    (ha : ∀ a ∈ asgs, ∀ (s : Store) j, P (mkCtr s j a)) :
    ∀ (todo : List Pool) (s : Store) (n : Nat) (done : List Pool) (res : List Res) (s' : Store) (ps : List Pool) (n' : Nat) (res' : List Res),
    (∀ p ∈ todo, ∃ m, m ≤ n ∧ PoolGoodMem cfg p m) → (∀ p ∈ done ++ todo, AllC P p.active) → (∀ r ∈ res, ∃ c, P c ∧ r = mkRes c) →
    execPools cfg sus asgs s n done todo res = .ok (s', ps, n', res') →
    (∀ p ∈ ps, AllC P p.active) ∧ ∀ r ∈ res', ∃ c, P c ∧ r = mkRes c := by
  intro todo
  induction todo with
  | nil =>
    intro s n done res s' ps n' res' _ hp hr h
    simp only [execPools, Except.ok.injEq, Prod.mk.injEq] at h
    obtain ⟨_, rfl, _, rfl⟩ := h
    exact ⟨fun p hp' => hp p (by simpa using hp'), hr⟩
  | cons p rest ih =>
    intro s n done res s' ps n' res' hg hp hr h
    unfold execPools at h
    split at h
    · cases h
    · cases h
    · rename_i s1 p1 n1 r hpt
      obtain ⟨m, hm, gm⟩ := hg p (by simp)
      have gp : PoolGoodMem cfg p n := ⟨⟨gm.1.1.mono hm, gm.1.2⟩, gm.2⟩
      obtain ⟨a1, a2⟩ := poolTick_keptS k gp (hp p (by simp)) (fun a haa s j => ha a (List.mem_filter.mp haa).1 s j) hpt
      obtain ⟨hle, _⟩ := poolTick_cids gp hpt
      apply ih s1 n1 (done ++ [p1]) (res ++ r) s' ps n' res' _ _ _ h
      · intro q hq
        obtain ⟨m', hm', gm'⟩ := hg q (List.mem_cons_of_mem _ hq)
        exact ⟨m', by omega, gm'⟩
      · intro q hq
        have hq' : q ∈ done ∨ q = p1 ∨ q ∈ rest := by simpa [List.mem_append, or_assoc] using hq
        rcases hq' with hq' | rfl | hq'
        · exact hp q (by simp [hq'])
        · exact a1
        · exact hp q (by simp [hq'])
      · intro x hx
        rcases List.mem_append.mp hx with hx | hx
        · exact hr x hx
        · exact a2 x hx

theorem execTick_keptS {w1 w2 : World} {sus : List (Nat × Nat)} {asgs : List Asg} {res : List Res} {P : Ctr → Prop} (k : Kept w1.cfg P)
    (ha : ∀ a ∈ asgs, ∀ (s : Store) j, P (mkCtr s j a)) (hg : ∀ p ∈ w1.pools, PoolGoodMem w1.cfg p w1.nextCid) (hp : ∀ p ∈ w1.pools, AllC P p.active)
    (hx : w1.execTick sus asgs = .ok (w2, res)) : (∀ p ∈ w2.pools, AllC P p.active) ∧ ∀ r ∈ res, ∃ c, P c ∧ r = mkRes c := by
  unfold World.execTick at hx
  split at hx
  · cases hx
  · split at hx
    · cases hx
    · cases hx
    · rename_i s ps n rr hexp
      simp only [Except.ok.injEq, Prod.mk.injEq] at hx
      obtain ⟨rfl, rfl⟩ := hx
      exact execPools_keptS w1.cfg sus asgs k ha w1.pools w1.store w1.nextCid [] [] s ps n rr (fun p hp' => ⟨w1.nextCid, Nat.le_refl _, hg p hp'⟩)
        (by simpa using hp) (by simp) hexp


end Eudoxia
