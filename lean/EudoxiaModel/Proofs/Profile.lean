import EudoxiaModel.Model.Profile
import EudoxiaModel.Proofs.ExecSteps
/-! The tick generator consumes, one tick at a time, the list of memory demands that the documented model prescribes:
    `rem` (the demands still to come, computed from the generator position) loses exactly its head per executed tick. -/
namespace Eudoxia
open OpState

/-- demands of a segment from its iteration `i` on -/
def remSeg (cfg : Cfg) (s : Seg × Nat × Nat) (i : Nat) : List Nat :=
  (List.range' i (s.2.1 + s.2.2 - i)).map (segMem cfg s.1 s.2.1)

/-- demands of the remaining segments of an operator, the first of them being at iteration `i` -/
def remSegs (cfg : Cfg) : List (Seg × Nat × Nat) → Nat → List Nat
  | [], _ => []
  | s :: more, i => remSeg cfg s i ++ more.flatMap (fun s => remSeg cfg s 0)

def opRem (cfg : Cfg) (cpu : Nat) (allsegs : List Seg) : List Nat := remSegs cfg (allsegs.zip (opTickTable cfg cpu allsegs)) 0

def remOps (cfg : Cfg) (cpu : Nat) (ops : List (Nat × List Seg)) : List Nat := ops.flatMap (fun o => opRem cfg cpu o.2)

/-- demands of the head operator still to come -/
def remHead (cfg : Cfg) (c : Ctr) : List Nat :=
  match c.pos.ops with
  | [] => []
  | o :: _ => if c.pos.started then remSegs cfg c.pos.segs c.pos.i else opRem cfg c.cpu o.2

/-- all demands still to come -/
def rem (cfg : Cfg) (c : Ctr) : List Nat := remHead cfg c ++ remOps cfg c.cpu c.pos.ops.tail

/-- the position's tick counters agree with the demands still to come -/
def PosOK (cfg : Cfg) (c : Ctr) : Prop :=
  c.pos.started = true → c.pos.opDone + (remSegs cfg c.pos.segs c.pos.i).length = c.pos.opTotal

theorem remSeg_done (cfg : Cfg) (s : Seg × Nat × Nat) (i : Nat) (h : ¬ i < s.2.1 + s.2.2) : remSeg cfg s i = [] := by
  unfold remSeg
  have : s.2.1 + s.2.2 - i = 0 := by omega
  rw [this]; rfl

theorem remSeg_step (cfg : Cfg) (s : Seg × Nat × Nat) (i : Nat) (h : i < s.2.1 + s.2.2) :
    remSeg cfg s i = segMem cfg s.1 s.2.1 i :: remSeg cfg s (i + 1) := by
  unfold remSeg
  have : s.2.1 + s.2.2 - i = (s.2.1 + s.2.2 - (i + 1)) + 1 := by omega
  rw [this, List.range'_succ, List.map_cons]

theorem remSegs_zero (cfg : Cfg) (l : List (Seg × Nat × Nat)) : remSegs cfg l 0 = l.flatMap (fun s => remSeg cfg s 0) := by
  cases l <;> simp [remSegs]

theorem remSeg_length (cfg : Cfg) (s : Seg × Nat × Nat) : (remSeg cfg s 0).length = s.2.1 + s.2.2 := by simp [remSeg]

theorem flat_length (cfg : Cfg) : ∀ (segs : List Seg) (t : List (Nat × Nat)), segs.length = t.length →
    ((segs.zip t).flatMap (fun s => remSeg cfg s 0)).length = tickSum t := by
  intro segs
  induction segs with
  | nil => intro t h; cases t <;> simp_all [tickSum]
  | cons s ss ih =>
    intro t h
    cases t with
    | nil => simp at h
    | cons x xs =>
      simp only [List.zip_cons_cons, List.flatMap_cons, List.length_append, remSeg_length]
      rw [ih xs (by simpa using h)]
      simp [tickSum]

theorem opTickTable_length (cfg : Cfg) (cpu : Nat) (segs : List Seg) : (opTickTable cfg cpu segs).length = segs.length := by
  unfold opTickTable
  simp only
  split
  · rename_i h
    simp only [Bool.and_eq_true, Bool.not_eq_true', beq_iff_eq] at h
    have : segs ≠ [] := by intro e; rw [e] at h; simp at h
    simp [rawTickTable]
    cases segs with
    | nil => exact absurd rfl this
    | cons a b => simp
  · simp [rawTickTable]

/-- a started operator's remaining demands are as many as its tick table says -/
theorem opRem_length (cfg : Cfg) (cpu : Nat) (segs : List Seg) : (opRem cfg cpu segs).length = tickSum (opTickTable cfg cpu segs) := by
  unfold opRem
  rw [remSegs_zero]
  exact flat_length cfg segs _ (opTickTable_length cfg cpu segs).symm

/-- **`seek` does not change what is still to come**; it ends where the next demand is the head of `rem` -/
theorem seek_rem (cfg : Cfg) (w : Store) (c : Ctr) (w' : Store) (c' : Ctr) (h : seek w cfg c = .ok (w', c')) (hp : PosOK cfg c) :
    rem cfg c' = rem cfg c ∧ PosOK cfg c' := by
  fun_induction seek w cfg c
  case case1 => cases h
  case case2 => cases h
  case case3 w0 c0 r allsegs rest hops hs w1 hw ih =>
    have hns : c0.pos.started = false := by simpa using hs
    obtain ⟨i1, i2⟩ := ih h (by
      intro _
      simp only [Nat.zero_add]
      exact opRem_length cfg c0.cpu allsegs)
    refine ⟨?_, i2⟩
    rw [i1]
    simp only [rem, remHead, hops, hns, List.tail_cons, Bool.false_eq_true, ↓reduceIte]
    rfl
  case case4 w0 c0 r allsegs rest hops hs hsg ih =>
    have hst : c0.pos.started = true := by simpa using hs
    obtain ⟨i1, i2⟩ := ih h (by intro hx; simp at hx)
    refine ⟨?_, i2⟩
    rw [i1]
    simp only [rem, remHead, hops, hst, hsg, ↓reduceIte, List.tail_cons, remSegs, List.nil_append]
    cases rest with
    | nil => simp [remOps]
    | cons o os => simp [remOps, opRem]
  case case5 => cases h; exact ⟨rfl, hp⟩
  case case6 w0 c0 r allsegs rest hops hs sg io cpuT more hsg hlt ih =>
    have hst : c0.pos.started = true := by simpa using hs
    have hdone : remSeg cfg (sg, io, cpuT) c0.pos.i = [] := remSeg_done cfg _ _ (by simpa using hlt)
    have hp' := hp hst
    rw [hsg] at hp'
    simp only [remSegs, hdone, List.nil_append] at hp'
    obtain ⟨i1, i2⟩ := ih h (by
      intro _
      simp only
      rw [remSegs_zero]
      exact hp')
    refine ⟨?_, i2⟩
    rw [i1]
    simp only [rem, remHead, hops, hst, hsg, ↓reduceIte, List.tail_cons]
    rw [remSegs.eq_2, hdone, List.nil_append, remSegs_zero]


/-! ### the same with every demand labelled by the number of operators that follow its own -/

def labelOps (cfg : Cfg) (cpu : Nat) : List (Nat × List Seg) → List (Nat × Nat)
  | [] => []
  | o :: os => (opRem cfg cpu o.2).map (fun m => (os.length, m)) ++ labelOps cfg cpu os

def remL (cfg : Cfg) (c : Ctr) : List (Nat × Nat) :=
  (remHead cfg c).map (fun m => (c.pos.ops.tail.length, m)) ++ labelOps cfg c.cpu c.pos.ops.tail

theorem labelOps_snd (cfg : Cfg) (cpu : Nat) (os : List (Nat × List Seg)) : (labelOps cfg cpu os).map (·.2) = remOps cfg cpu os := by
  induction os with
  | nil => rfl
  | cons o os ih =>
    simp only [labelOps, List.map_append, List.map_map, ih, remOps, List.flatMap_cons]
    congr 1
    simp [Function.comp_def]

theorem remL_snd (cfg : Cfg) (c : Ctr) : (remL cfg c).map (·.2) = rem cfg c := by
  simp only [remL, rem, List.map_append, List.map_map, labelOps_snd]
  congr 1
  simp [Function.comp_def]

theorem labelOps_lt (cfg : Cfg) (cpu : Nat) (os : List (Nat × List Seg)) : ∀ x ∈ labelOps cfg cpu os, x.1 < os.length := by
  induction os with
  | nil => intro x hx; simp [labelOps] at hx
  | cons o os ih =>
    intro x hx
    simp only [labelOps, List.mem_append, List.mem_map] at hx
    rcases hx with ⟨m, _, rfl⟩ | hx
    · simp
    · have := ih x hx; simp; omega

theorem seek_remL (cfg : Cfg) (w : Store) (c : Ctr) (w' : Store) (c' : Ctr) (h : seek w cfg c = .ok (w', c')) (hp : PosOK cfg c) :
    remL cfg c' = remL cfg c := by
  fun_induction seek w cfg c
  case case1 => cases h
  case case2 => cases h
  case case3 w0 c0 r allsegs rest hops hs w1 hw ih =>
    have hns : c0.pos.started = false := by simpa using hs
    rw [ih h (by
      intro _
      simp only [Nat.zero_add]
      exact opRem_length cfg c0.cpu allsegs)]
    simp only [remL, remHead, hops, hns, List.tail_cons, Bool.false_eq_true, ↓reduceIte]
    rfl
  case case4 w0 c0 r allsegs rest hops hs hsg ih =>
    have hst : c0.pos.started = true := by simpa using hs
    rw [ih h (by intro hx; simp at hx)]
    simp only [remL, remHead, hops, hst, hsg, ↓reduceIte, List.tail_cons, remSegs, List.map_nil, List.nil_append]
    cases rest with
    | nil => simp [labelOps]
    | cons o os => simp [labelOps]
  case case5 => cases h; rfl
  case case6 w0 c0 r allsegs rest hops hs sg io cpuT more hsg hlt ih =>
    have hst : c0.pos.started = true := by simpa using hs
    have hdone : remSeg cfg (sg, io, cpuT) c0.pos.i = [] := remSeg_done cfg _ _ (by simpa using hlt)
    have hp' := hp hst
    rw [hsg] at hp'
    simp only [remSegs, hdone, List.nil_append] at hp'
    rw [ih h (by
      intro _
      simp only
      rw [remSegs_zero]
      exact hp')]
    simp only [remL, remHead, hops, hst, hsg, ↓reduceIte, List.tail_cons]
    rw [remSegs.eq_2, hdone, List.nil_append, remSegs_zero]

theorem seek_ops_suffix (cfg : Cfg) (w : Store) (c : Ctr) (w' : Store) (c' : Ctr) (h : seek w cfg c = .ok (w', c')) :
    c'.pos.ops <:+ c.pos.ops := by
  fun_induction seek w cfg c
  case case1 => cases h
  case case2 => cases h
  case case3 ih => exact ih h
  case case4 w0 c0 r allsegs rest hops hs hsg ih =>
    have := ih h
    simp only at this
    rw [hops]
    exact List.IsSuffix.trans this (List.suffix_cons _ _)
  case case5 => cases h; exact List.suffix_refl _
  case case6 ih => exact ih h

theorem opTickTable_pos (cfg : Cfg) (cpu : Nat) (segs : List Seg) (h : segs ≠ []) : 1 ≤ tickSum (opTickTable cfg cpu segs) := by
  unfold opTickTable
  have hne : segs.isEmpty = false := by cases segs <;> simp_all
  by_cases h0 : tickSum (rawTickTable cfg cpu segs) = 0
  · simp only [hne, Bool.not_false, h0, beq_self_eq_true, Bool.and_self, ↓reduceIte]
    simp [tickSum]
  · have : (tickSum (rawTickTable cfg cpu segs) == 0) = false := by simpa using h0
    simp only [hne, Bool.not_false, this, Bool.and_false, Bool.false_eq_true, ↓reduceIte]
    omega

theorem labelOps_ne_nil (cfg : Cfg) (cpu : Nat) (rest : List (Nat × List Seg)) (hr : rest ≠ []) (hseg : ∀ o ∈ rest, o.2 ≠ []) :
    labelOps cfg cpu rest ≠ [] := by
  cases rest with
  | nil => exact absurd rfl hr
  | cons o os =>
    intro e
    have hlen := congrArg List.length e
    simp only [labelOps, List.length_append, List.length_map, List.length_nil, opRem_length] at hlen
    have := opTickTable_pos cfg cpu o.2 (hseg o (by simp))
    omega

/-- the position after executing the tick at a runnable position -/
theorem remL_step (cfg : Cfg) (c1 c' : Ctr) (r : Nat) (allsegs : List Seg) (rest : List (Nat × List Seg)) (sg : Seg) (io cpuT : Nat)
    (more : List (Seg × Nat × Nat))
    (e1 : c1.pos.ops = (r, allsegs) :: rest) (e2 : c1.pos.started = true) (e3 : c1.pos.segs = (sg, io, cpuT) :: more)
    (hpos : c'.pos = { c1.pos with i := c1.pos.i + 1, opDone := c1.pos.opDone + 1 }) (hcpu : c'.cpu = c1.cpu)
    (hcnt : c1.pos.opDone + ((remSeg cfg (sg, io, cpuT) (c1.pos.i + 1)).length + 1 + (more.flatMap (fun s => remSeg cfg s 0)).length) = c1.pos.opTotal) :
    remL cfg c' = (remSeg cfg (sg, io, cpuT) (c1.pos.i + 1) ++ more.flatMap (fun s => remSeg cfg s 0)).map (fun m => (rest.length, m)) ++ labelOps cfg c1.cpu rest ∧
    PosOK cfg c' := by
  constructor
  · simp only [remL, remHead, hpos, hcpu, e1, e2, e3, ↓reduceIte, List.tail_cons, remSegs]
  · intro _
    simp only [hpos, e3, remSegs, List.length_append]
    omega

/-- **one tick consumes one demand.**  For a container that is not frozen and whose position counters are consistent, a successful `advance`
finds a next demand `m` (of an operator followed by `k` others) at the head of `remL`; if `m` exceeds the allocation the container freezes
holding `m` and nothing is consumed; otherwise the demand is consumed, the container holds `m` (or 0 if it has just finished), it is complete
exactly when nothing is left, and the operator index moves on (and suspension becomes possible) exactly when this was the operator's last demand. -/
theorem advance_consumes (cfg : Cfg) (w : Store) (c : Ctr) (cons : Int) (w' : Store) (c' : Ctr) (cons' : Int)
    (hf : c.frozen = false) (hc : c.completed = false) (hp : PosOK cfg c) (hseg : ∀ o ∈ c.pos.ops, o.2 ≠ [])
    (h : advance cfg w c cons = .ok (w', c', cons')) :
    ∃ k m tl, remL cfg c = (k, m) :: tl ∧ c'.ram = c.ram ∧ c'.cpu = c.cpu ∧ (∀ o ∈ c'.pos.ops, o.2 ≠ []) ∧
      (c.ram < m → c'.frozen = true ∧ c'.mem = m ∧ c'.completed = false ∧ c'.curOpIdx = c.curOpIdx) ∧
      (m ≤ c.ram → c'.frozen = false ∧ remL cfg c' = tl ∧ PosOK cfg c' ∧ (c'.completed = true ↔ tl = []) ∧
        c'.mem = (if tl = [] then 0 else m) ∧
        c'.curOpIdx = (if ∀ x ∈ tl, x.1 ≠ k then c.curOpIdx + 1 else c.curOpIdx) ∧
        (c'.canSuspend = true ↔ ((∀ x ∈ tl, x.1 ≠ k) ∧ tl ≠ []))) := by
  unfold advance at h
  rw [hf] at h
  simp only [Bool.false_eq_true, ↓reduceIte] at h
  split at h
  · cases h
  · rename_i w1 c1 hs
    obtain ⟨_, hsame, r, allsegs, rest, sg, io, cpuT, more, e1, e2, e3, e4⟩ := seek_spec _ _ _ _ _ hs
    obtain ⟨_, hp1⟩ := seek_rem cfg _ _ _ _ hs hp
    have hL := seek_remL cfg _ _ _ _ hs hp
    have hsuf := seek_ops_suffix cfg _ _ _ _ hs
    have hseg1 : ∀ o ∈ c1.pos.ops, o.2 ≠ [] := fun o ho => hseg o (hsuf.subset ho)
    have hsegr : ∀ o ∈ rest, o.2 ≠ [] := fun o ho => hseg1 o (by rw [e1]; exact List.mem_cons_of_mem _ ho)
    have hram : c1.ram = c.ram := by unfold Ctr.SameButPos at hsame; rw [hsame]
    have hcpu : c1.cpu = c.cpu := by unfold Ctr.SameButPos at hsame; rw [hsame]
    have hidx : c1.curOpIdx = c.curOpIdx := by unfold Ctr.SameButPos at hsame; rw [hsame]
    have hcomp : c1.completed = false := by unfold Ctr.SameButPos at hsame; rw [hsame]; exact hc
    have hfro : c1.frozen = false := by unfold Ctr.SameButPos at hsame; rw [hsame]; exact hf
    have hhead : remHead cfg c1 = segMem cfg sg io c1.pos.i :: (remSeg cfg (sg, io, cpuT) (c1.pos.i + 1) ++ more.flatMap (fun s => remSeg cfg s 0)) := by
      simp only [remHead, e1, e2, e3, ↓reduceIte, remSegs]
      rw [remSeg_step cfg (sg, io, cpuT) _ e4]
      rfl
    have hremL : remL cfg c1 = (rest.length, segMem cfg sg io c1.pos.i) ::
        ((remSeg cfg (sg, io, cpuT) (c1.pos.i + 1) ++ more.flatMap (fun s => remSeg cfg s 0)).map (fun m => (rest.length, m)) ++ labelOps cfg c1.cpu rest) := by
      simp only [remL, hhead, e1, List.tail_cons, List.map_cons, List.cons_append]
    have hpos1 := hp1 e2
    rw [e3] at hpos1
    simp only [remSegs] at hpos1
    rw [remSeg_step cfg (sg, io, cpuT) _ e4] at hpos1
    simp only [List.length_cons, List.length_append] at hpos1
    unfold runTick at h
    rw [e1, e3] at h
    simp only at h
    refine ⟨rest.length, segMem cfg sg io c1.pos.i, _, by rw [← hL, hremL], ?_⟩
    have hlabel : ∀ (hdtl : List Nat), (∀ x ∈ hdtl.map (fun m => (rest.length, m)) ++ labelOps cfg c1.cpu rest, x.1 ≠ rest.length) ↔ hdtl = [] := by
      intro hdtl
      constructor
      · intro hall
        cases hdtl with
        | nil => rfl
        | cons a as => exact absurd rfl (hall (rest.length, a) (by simp))
      · intro e x hx
        subst e
        simp only [List.map_nil, List.nil_append] at hx
        have := labelOps_lt cfg c1.cpu rest x hx
        omega
    unfold runAt at h
    split at h
    · rename_i hgt
      cases h
      refine ⟨hram, hcpu, hseg1, fun _ => ⟨rfl, rfl, hcomp, hidx⟩, fun hle => ?_⟩
      rw [hram] at hgt; omega
    · rename_i hle
      rw [hram] at hle
      split at h
      · rename_i hlast
        have hlast' : c1.pos.opDone + 1 = c1.pos.opTotal := by simpa using hlast
        have hnil : remSeg cfg (sg, io, cpuT) (c1.pos.i + 1) ++ more.flatMap (fun s => remSeg cfg s 0) = [] := by
          apply List.eq_nil_of_length_eq_zero; simp only [List.length_append]; omega
        split at h
        · cases h
        · split at h
          · rename_i hrest
            have hrest' : rest = [] := by simpa using hrest
            simp only [Except.ok.injEq, Prod.mk.injEq] at h
            obtain ⟨_, hc', _⟩ := h
            obtain ⟨q1, q2⟩ := remL_step cfg c1 c' r allsegs rest sg io cpuT more e1 e2 e3 (by rw [← hc']) (by rw [← hc']) hpos1
            subst hc'
            refine ⟨hram, hcpu, hseg1, fun hgt => by omega, fun _ => ?_⟩
            have htl : ((remSeg cfg (sg, io, cpuT) (c1.pos.i + 1) ++ more.flatMap (fun s => remSeg cfg s 0)).map (fun m => (rest.length, m)) ++ labelOps cfg c1.cpu rest) = [] := by
              rw [hnil, hrest']; rfl
            rw [htl] at q1 ⊢
            exact ⟨hfro, q1, q2, by simp, by simp, by simp [hidx], by simp⟩
          · rename_i hrest
            have hrest' : rest ≠ [] := by simpa using hrest
            simp only [Except.ok.injEq, Prod.mk.injEq] at h
            obtain ⟨_, hc', _⟩ := h
            obtain ⟨q1, q2⟩ := remL_step cfg c1 c' r allsegs rest sg io cpuT more e1 e2 e3 (by rw [← hc']) (by rw [← hc']) hpos1
            subst hc'
            refine ⟨hram, hcpu, hseg1, fun hgt => by omega, fun _ => ?_⟩
            have hall := (hlabel _).mpr hnil
            have hne : ((remSeg cfg (sg, io, cpuT) (c1.pos.i + 1) ++ more.flatMap (fun s => remSeg cfg s 0)).map (fun m => (rest.length, m)) ++ labelOps cfg c1.cpu rest) ≠ [] := by
              rw [hnil]; simpa using labelOps_ne_nil cfg c1.cpu rest hrest' hsegr
            refine ⟨hfro, q1, q2, ?_, ?_, ?_, ?_⟩
            · simp only [hcomp, Bool.false_eq_true, false_iff]; exact hne
            · simp only [if_neg hne]
            · simp only [if_pos hall, hidx]
            · simp only [true_iff]; exact ⟨hall, hne⟩
      · rename_i hlast
        have hlast' : c1.pos.opDone + 1 ≠ c1.pos.opTotal := by simpa using hlast
        simp only [Except.ok.injEq, Prod.mk.injEq] at h
        obtain ⟨_, hc', _⟩ := h
        obtain ⟨q1, q2⟩ := remL_step cfg c1 c' r allsegs rest sg io cpuT more e1 e2 e3 (by rw [← hc']) (by rw [← hc']) hpos1
        subst hc'
        refine ⟨hram, hcpu, hseg1, fun hgt => by omega, fun _ => ?_⟩
        have hnn : remSeg cfg (sg, io, cpuT) (c1.pos.i + 1) ++ more.flatMap (fun s => remSeg cfg s 0) ≠ [] := by
          intro e
          have := congrArg List.length e
          simp only [List.length_append, List.length_nil] at this
          omega
        have hall : ¬ ∀ x ∈ (remSeg cfg (sg, io, cpuT) (c1.pos.i + 1) ++ more.flatMap (fun s => remSeg cfg s 0)).map (fun m => (rest.length, m)) ++ labelOps cfg c1.cpu rest, x.1 ≠ rest.length :=
          fun hx => hnn ((hlabel _).mp hx)
        have hne : ((remSeg cfg (sg, io, cpuT) (c1.pos.i + 1) ++ more.flatMap (fun s => remSeg cfg s 0)).map (fun m => (rest.length, m)) ++ labelOps cfg c1.cpu rest) ≠ [] := by
          intro e
          exact hnn (by simpa using (List.append_eq_nil_iff.mp e).1)
        refine ⟨hfro, q1, q2, ?_, ?_, ?_, ?_⟩
        · simp only [hcomp, Bool.false_eq_true, false_iff]; exact hne
        · simp only [if_neg hne]
        · simp only [if_neg hall, hidx]
        · simp only [Bool.false_eq_true, false_iff, not_and]; intro hx; exact absurd hx hall


/-! ### what is still to come for a fresh container is the documented list of demands -/

theorem remSeg_zero_eq (cfg : Cfg) (sg : Seg) (io cpuT : Nat) : remSeg cfg (sg, io, cpuT) 0 = segDemands cfg sg io cpuT := by
  unfold remSeg segDemands
  simp only [Nat.sub_zero]
  rw [List.range'_eq_map_range]
  simp only [Nat.zero_add, List.map_id']
  induction cpuT with
  | zero =>
    simp only [Nat.add_zero, List.replicate_zero, List.append_nil]
    apply List.map_congr_left
    intro i hi
    simp only [segMem, List.mem_range.mp hi, ↓reduceIte]
    cases sg.fixed <;> rfl
  | succ n ih =>
    rw [← Nat.add_assoc, List.range_succ, List.map_append, ih, List.replicate_succ', ← List.append_assoc]
    congr 1
    simp [segMem]
    intro h; omega

theorem remSegs_eq_opDemands (cfg : Cfg) : ∀ (segs : List Seg) (t : List (Nat × Nat)),
    (segs.zip t).flatMap (fun s => remSeg cfg s 0) = opDemands cfg segs t := by
  intro segs
  induction segs with
  | nil => intro t; simp [opDemands]
  | cons s ss ih =>
    intro t
    cases t with
    | nil => simp [opDemands]
    | cons x xs =>
      obtain ⟨io, cp⟩ := x
      simp only [List.zip_cons_cons, List.flatMap_cons, opDemands, ih, remSeg_zero_eq]

theorem opRem_eq (cfg : Cfg) (cpu : Nat) (segs : List Seg) : opRem cfg cpu segs = opDemands cfg segs (opTickTable cfg cpu segs) := by
  unfold opRem; rw [remSegs_zero]; exact remSegs_eq_opDemands cfg segs _

/-- the labelled demands of a list of operators, written with the label "index from the front" that the specification uses -/
theorem labelOps_eq_ctrDemands (cfg : Cfg) (cpu : Nat) : ∀ (ops : List (Nat × List Seg)) (base : Nat),
    (labelOps cfg cpu ops).map (fun x => (base + (ops.length - 1 - x.1), x.2)) =
    (List.range ops.length).flatMap (fun j => (opDemands cfg ((ops.map (·.2)).getD j []) ((specTicks cfg cpu (ops.map (·.2))).getD j [])).map (fun m => (base + j, m))) := by
  intro ops
  induction ops with
  | nil => intro base; simp [labelOps]
  | cons o os ih =>
    intro base
    simp only [labelOps, List.map_append, List.map_map, List.length_cons]
    rw [List.range_succ_eq_map, List.flatMap_cons, List.flatMap_map]
    congr 1
    · simp only [specTicks, List.map_cons, List.getD_cons_zero, Nat.add_zero, opRem_eq]
      apply List.map_congr_left
      intro m _
      simp
    · have := ih (base + 1)
      simp only [specTicks] at this ⊢
      simp only [List.map_cons, List.getD_cons_succ]
      have e : (fun j => (opDemands cfg ((os.map (·.2)).getD j []) ((os.map (·.2) |>.map (opTickTable cfg cpu)).getD j [])).map (fun m => (base + (j + 1), m))) =
          (fun j => (opDemands cfg ((os.map (·.2)).getD j []) ((os.map (·.2) |>.map (opTickTable cfg cpu)).getD j [])).map (fun m => (base + 1 + j, m))) := by
        funext j; rw [show base + (j + 1) = base + 1 + j by omega]
      rw [e, ← this]
      apply List.map_congr_left
      intro x hx
      have hlt := labelOps_lt cfg cpu os x hx
      simp only [Prod.mk.injEq, and_true]
      omega


/-! ### many ticks -/

theorem runAt_spec_elapsed (cfg : Cfg) (w : Store) (c : Ctr) (cons : Int) (w' : Store) (c' : Ctr) (cons' : Int)
    (hf : c.frozen = false) (h : advance cfg w c cons = .ok (w', c', cons')) : c'.elapsed = c.elapsed := by
  unfold advance at h
  rw [hf] at h
  simp only [Bool.false_eq_true, ↓reduceIte] at h
  split at h
  · cases h
  · rename_i w1 c1 hs
    obtain ⟨_, hsame, _⟩ := seek_spec _ _ _ _ _ hs
    have h1 : c1.elapsed = c.elapsed := by unfold Ctr.SameButPos at hsame; rw [hsame]
    unfold runTick at h
    split at h
    · unfold runAt at h
      split at h
      · cases h; exact h1
      · split at h
        · split at h
          · cases h
          · split at h <;> (cases h; exact h1)
        · cases h; exact h1
    · cases h


/-- `n` consecutive `Container.tick`s -/
def runN (cfg : Cfg) : Nat → Store → Ctr → Int → Except Err (Store × Ctr × Int)
  | 0, w, c, cons => .ok (w, c, cons)
  | n + 1, w, c, cons =>
    match c.tick cfg w cons with
    | .error e => .error e
    | .ok (w1, c1, cons1) => runN cfg n w1 c1 cons1

theorem tick_consumes (cfg : Cfg) (w : Store) (c : Ctr) (cons : Int) (w' : Store) (c' : Ctr) (cons' : Int)
    (hf : c.frozen = false) (hc : c.completed = false) (hp : PosOK cfg c) (hseg : ∀ o ∈ c.pos.ops, o.2 ≠ [])
    (h : c.tick cfg w cons = .ok (w', c', cons')) :
    ∃ k m tl, remL cfg c = (k, m) :: tl ∧ c'.ram = c.ram ∧ c'.cpu = c.cpu ∧ (∀ o ∈ c'.pos.ops, o.2 ≠ []) ∧ c'.elapsed = c.elapsed + 1 ∧
      (c.ram < m → c'.frozen = true ∧ c'.mem = m ∧ c'.completed = false ∧ c'.curOpIdx = c.curOpIdx) ∧
      (m ≤ c.ram → c'.frozen = false ∧ remL cfg c' = tl ∧ PosOK cfg c' ∧ (c'.completed = true ↔ tl = []) ∧
        c'.mem = (if tl = [] then 0 else m) ∧
        c'.curOpIdx = (if ∀ x ∈ tl, x.1 ≠ k then c.curOpIdx + 1 else c.curOpIdx) ∧
        (c'.canSuspend = true ↔ ((∀ x ∈ tl, x.1 ≠ k) ∧ tl ≠ []))) := by
  unfold Ctr.tick at h
  rw [hc] at h
  simp only [Bool.false_eq_true, ↓reduceIte] at h
  split at h
  · cases h
  · rename_i w1 c1 cons1 hadv
    simp only [Except.ok.injEq, Prod.mk.injEq] at h
    obtain ⟨_, hc', _⟩ := h
    obtain ⟨k, m, tl, a1, a2, a3, a4, a5, a6⟩ := advance_consumes cfg w c cons w1 c1 cons1 hf hc hp hseg hadv
    have hel : c1.elapsed = c.elapsed := by
      have := (runAt_spec_elapsed cfg w c cons w1 c1 cons1 hf hadv)
      exact this
    subst hc'
    exact ⟨k, m, tl, a1, a2, a3, a4, by simp only [hel], a5, fun hle => by
      obtain ⟨b1, b2, b3, b4, b5, b6, b7⟩ := a6 hle
      exact ⟨b1, b2, b3, b4, b5, b6, b7⟩⟩


/-- **the run follows the list of demands.**  Starting from any consistent, running position with demands `D = remL c` still to come: if the first
`n ≤ |D|` demands all fit the allocation and the `n` ticks succeed, then afterwards exactly `D.drop n` is still to come, `n` ticks have elapsed, the
container is not frozen, it is complete iff nothing is left, and (for `n ≥ 1`) it holds the `n`-th demand — or nothing if it has just finished. -/
theorem run_follows_demands (cfg : Cfg) : ∀ (n : Nat) (w : Store) (c : Ctr) (cons : Int) (w' : Store) (c' : Ctr) (cons' : Int),
    c.frozen = false → c.completed = false → PosOK cfg c → (∀ o ∈ c.pos.ops, o.2 ≠ []) →
    n ≤ (remL cfg c).length → (∀ x ∈ (remL cfg c).take n, x.2 ≤ c.ram) →
    runN cfg n w c cons = .ok (w', c', cons') →
    remL cfg c' = (remL cfg c).drop n ∧ c'.elapsed = c.elapsed + n ∧ c'.frozen = false ∧ c'.ram = c.ram ∧ c'.cpu = c.cpu ∧ PosOK cfg c' ∧
    (∀ o ∈ c'.pos.ops, o.2 ≠ []) ∧
    (0 < n → (c'.completed = true ↔ n = (remL cfg c).length) ∧
      c'.mem = (if n = (remL cfg c).length then 0 else ((remL cfg c).getD (n - 1) (0, 0)).2)) := by
  intro n
  induction n with
  | zero =>
    intro w c cons w' c' cons' hf hc hp hseg _ _ h
    simp only [runN, Except.ok.injEq, Prod.mk.injEq] at h
    obtain ⟨_, rfl, _⟩ := h
    exact ⟨rfl, rfl, hf, rfl, rfl, hp, hseg, fun h0 => absurd h0 (by omega)⟩
  | succ n ih =>
    intro w c cons w' c' cons' hf hc hp hseg hn hfit h
    unfold runN at h
    split at h
    · cases h
    · rename_i w1 c1 cons1 ht
      obtain ⟨k, m, tl, a1, a2, a3, a4, a5, a6, a7⟩ := tick_consumes cfg w c cons w1 c1 cons1 hf hc hp hseg ht
      rw [a1] at hn hfit ⊢
      have hm : m ≤ c.ram := hfit (k, m) (by simp)
      obtain ⟨b1, b2, b3, b4, b5, b6, b7⟩ := a7 hm
      simp only [List.length_cons] at hn
      by_cases hn0 : n = 0
      · subst hn0
        simp only [runN, Except.ok.injEq, Prod.mk.injEq] at h
        obtain ⟨_, rfl, _⟩ := h
        refine ⟨by simpa using b2, by omega, b1, a2, a3, b3, a4, fun _ => ⟨?_, ?_⟩⟩
        · rw [b4]; simp only [List.length_cons]
          constructor
          · intro e; rw [e]; rfl
          · intro e; exact List.eq_nil_of_length_eq_zero (by omega)
        · rw [b5]
          by_cases htl : tl = []
          · simp [htl]
          · simp [htl]
      · have hnc : c1.completed = false := by
          cases hcc : c1.completed with
          | false => rfl
          | true =>
            have := b4.mp hcc
            rw [this] at hn
            simp at hn
            omega
        obtain ⟨i1, i2, i3, i4, i5, i6, i7, i8⟩ := ih w1 c1 cons1 w' c' cons' b1 hnc b3 a4 (by rw [b2]; omega)
          (by rw [b2, a2]; intro x hx; exact hfit x (by simp only [List.take_succ_cons]; exact List.mem_cons_of_mem _ hx)) h
        rw [b2] at i1 i8
        obtain ⟨j1, j2⟩ := i8 (by omega)
        refine ⟨by simpa using i1, by omega, i3, by rw [i4, a2], by rw [i5, a3], i6, i7, fun _ => ⟨?_, ?_⟩⟩
        · rw [j1]; simp only [List.length_cons]; omega
        · rw [j2]
          simp only [List.length_cons, Nat.add_right_cancel_iff]
          have : n + 1 - 1 = (n - 1) + 1 := by omega
          rw [this, List.getD_cons_succ]

end Eudoxia
