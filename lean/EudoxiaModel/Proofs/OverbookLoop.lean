import EudoxiaModel.Model.Sched.Overbook
import EudoxiaModel.Proofs.NaiveMulti
import EudoxiaModel.Proofs.OpsKept
/-! The overbook scheduler in closed loop with the executor (memory overcommit on): the loop never raises. -/
namespace Eudoxia
open OpState Extracted

/-- an operator that is PENDING, FAILED or COMPLETED is not touched by an executor tick without suspensions -/
theorem tickTargets_keep {a b : Store} (h : StepsP TickTarget a b) (o : Nat)
    (hs : a.stOf o = pending ∨ a.stOf o = failed ∨ a.stOf o = completed) : b.stOf o = a.stOf o := by
  induction h with
  | refl => rfl
  | @step w w1 w2 r t ht htr _ ih =>
    by_cases e : r = o
    · subst e
      obtain ⟨hv, _, _, _⟩ := transition_ok htr
      exfalso
      rcases hs with x | x | x <;> rw [x] at hv <;> rcases ht with y | y | y <;> subst y <;> simp [validNext] at hv
    · have h1 : w1.stOf o = w.stOf o := transition_other htr e
      rw [ih (by rw [h1]; exact hs), h1]

namespace Overbook

/-- the queue of the overbook scheduler holds distinct, existing, ready operators -/
structure QOK (w : World) (q : List Nat) : Prop where
  nd : q.Nodup
  ok : ∀ r ∈ q, r < w.store.st.size ∧ w.store.stOf r ∈ assignable ∧ (∀ p ∈ w.store.parentsOf r, w.store.stOf p = completed) ∧ w.store.segsOf r ≠ []

theorem enqueue_ok (w : World) (wf : w.WFP) (hs : w.SegsOK) : ∀ (pids : List Nat) (q : List Nat), QOK w q → QOK w (enqueue w q pids) := by
  intro pids
  induction pids with
  | nil => intro q h; exact h
  | cons pid rest ih =>
    intro q h
    unfold enqueue
    simp only [List.foldl_cons]
    apply ih
    -- the inner loop over the ready operators of one pipeline
    have inner : ∀ (l : List Nat) (q0 : List Nat), (∀ r ∈ l, r ∈ w.getOps pid assignable true) → QOK w q0 →
        QOK w (l.foldl (fun q r => if q.contains r then q else q ++ [r]) q0) := by
      intro l
      induction l with
      | nil => intro q0 _ h0; exact h0
      | cons r rs ihl =>
        intro q0 hl h0
        simp only [List.foldl_cons]
        apply ihl _ (fun x hx => hl x (List.mem_cons_of_mem _ hx))
        split
        · exact h0
        · rename_i hc
          have hr := hl r (by simp)
          unfold World.getOps at hr
          obtain ⟨hr1, hr2⟩ := List.mem_filter.mp hr
          simp only [Bool.and_eq_true, List.contains_iff_mem, Bool.not_true, Bool.false_or, List.all_eq_true, beq_iff_eq] at hr2
          have hnot : r ∉ q0 := by simpa using hc
          refine ⟨?_, ?_⟩
          · rw [List.nodup_append]
            exact ⟨h0.nd, by simp, fun a ha b hb => by simp at hb; subst hb; exact fun e => hnot (e ▸ ha)⟩
          · intro x hx
            rcases List.mem_append.mp hx with hx | hx
            · exact h0.ok x hx
            · simp at hx; subst hx
              exact ⟨(wf pid).2 x hr1, hr2.1, hr2.2, hs pid x hr1⟩
    exact inner _ q (fun r hr => hr) h

/-- `make_assignments` never raises on a good queue, and what it hands out is admissible -/
theorem assign_run (fails : List (Nat × Nat)) : ∀ (q : List Nat) (w : World) (avail : List Int) (acc : List Asg),
    QOK w q → (∀ k, 0 ≤ avail.getD k 0) → avail.length = w.pools.length → (∀ p ∈ w.pools, 0 < p.capR) →
    ∃ w' q' new, assign fails w q avail acc = .ok (w', q', acc ++ new) ∧ Built w new w' ∧ QOK w' q' ∧
      (∀ a ∈ new, a.cpu = 1 ∧ a.pool < w.pools.length ∧
        ∃ r, a.ops = [r] ∧ w'.store.segsOf r ≠ [] ∧ ∀ p ∈ w'.store.parentsOf r, w'.store.stOf p = completed) ∧
      (∀ k, ((cpuReq (new.filter (·.pool == k)) : Nat) : Int) ≤ avail.getD k 0) := by
  intro q
  induction q with
  | nil =>
    intro w avail acc hq hnn _ _
    exact ⟨w, [], [], by simp [assign], .nil _, hq, by simp, by intro k; simp [cpuReq]; exact hnn k⟩
  | cons r rest ih =>
    intro w avail acc hq hnn hlen hcap
    have hrest : QOK w rest := ⟨(List.nodup_cons.mp hq.nd).2, fun x hx => hq.ok x (List.mem_cons_of_mem _ hx)⟩
    unfold assign
    split
    · exact ih w avail acc hrest hnn hlen hcap
    · obtain ⟨rb, ra, rp, rs⟩ := hq.ok r (by simp)
      have hac : assignable.contains (w.store.stOf r) = true := by simpa using ra
      simp only [hac, Bool.not_true, Bool.false_eq_true, ↓reduceIte]
      cases hff : firstFree avail with
      | none =>
        simp only
        exact ⟨w, r :: rest, [], by simp, .nil _, hq, by simp, by intro k; simp [cpuReq]; exact hnn k⟩
      | some k =>
        simp only
        have hk : k < avail.length ∧ avail.getD k 0 ≥ 1 := by
          unfold firstFree at hff
          have h1 := List.find?_some hff
          have h2 := List.mem_of_find?_eq_some hff
          exact ⟨List.mem_range.mp h2, by simpa using h1⟩
        have hkp : k < w.pools.length := by rw [← hlen]; exact hk.1
        have hcapk : 0 < (w.pools.getD k default).capR := by
          rw [List.getD_eq_getElem?_getD, List.getElem?_eq_getElem hkp]
          exact hcap _ (List.getElem_mem hkp)
        obtain ⟨w1, hw1⟩ := mkAssignment_succeeds w { ops := [r], cpu := 1, ram := (w.pools.getD k default).capR, prio := w.prioOf (w.store.pidOf r), pool := k }
          (by simp) (by simp) hcapk (by simp) (by intro x hx; simp at hx; subst hx; exact ⟨rb, ra⟩)
        have hmk : mkA w [r] 1 (w.pools.getD k default).capR (w.prioOf (w.store.pidOf r)) k =
            .ok (w1, { ops := [r], cpu := 1, ram := (w.pools.getD k default).capR, prio := w.prioOf (w.store.pidOf r), pool := k }) := by
          unfold mkA; rw [hw1]
        rw [hmk]
        simp only
        obtain ⟨_, _, _, _, m5, m6⟩ := mkAssignment_spec hw1
        have hst1 : Steps w.store w1.store := mkAssignment_steps_ok hw1
        obtain ⟨hp1, _, _⟩ := mkAssignment_pools_ok hw1
        have hrn : r ∉ rest := (List.nodup_cons.mp hq.nd).1
        have hq1 : QOK w1 rest := by
          refine ⟨hrest.nd, fun x hx => ?_⟩
          obtain ⟨b1, b2, b3, b4⟩ := hrest.ok x hx
          have hxr : x ∉ [r] := by simp; exact fun e => hrn (e ▸ hx)
          refine ⟨by rw [hst1.size]; exact b1, by rw [m6 x hxr]; exact b2, ?_, by unfold Store.segsOf at b4 ⊢; rw [hst1.ops]; exact b4⟩
          intro p hp
          have hp' : p ∈ w.store.parentsOf x := by unfold Store.parentsOf at hp ⊢; rw [← hst1.ops]; exact hp
          exact completed_final hst1 p (b3 p hp')
        have hset : ∀ j, (avail.set k (avail.getD k 0 - 1)).getD j 0 = if j = k then avail.getD k 0 - 1 else avail.getD j 0 := by
          intro j
          by_cases hj : j = k
          · subst hj; simp [List.getD_eq_getElem?_getD, hk.1]
          · simp [List.getD_eq_getElem?_getD, List.getElem?_set_ne (Ne.symm hj), hj]
        obtain ⟨w', q', new, h1, h2, h3, h4, h5⟩ := ih w1 (avail.set k (avail.getD k 0 - 1)) (acc ++ [{ ops := [r], cpu := 1, ram := (w.pools.getD k default).capR, prio := w.prioOf (w.store.pidOf r), pool := k }]) hq1
          (by intro j; rw [hset j]; split; omega; exact hnn j) (by simp [hlen, hp1]) (by rw [hp1]; exact hcap)
        have hst2 : Steps w1.store w'.store := (built_frame h2).2.2.2
        refine ⟨w', q', { ops := [r], cpu := 1, ram := (w.pools.getD k default).capR, prio := w.prioOf (w.store.pidOf r), pool := k } :: new, ?_, .cons hw1 h2, h3, ?_, ?_⟩
        · rw [h1]; simp
        · intro a ha
          rcases List.mem_cons.mp ha with rfl | ha'
          · refine ⟨rfl, hkp, r, rfl, ?_, ?_⟩
            · unfold Store.segsOf at rs ⊢; rw [hst2.ops, hst1.ops]; exact rs
            · intro p hp
              have hp' : p ∈ w.store.parentsOf r := by unfold Store.parentsOf at hp ⊢; rw [← hst1.ops, ← hst2.ops]; exact hp
              exact completed_final hst2 p (completed_final hst1 p (rp p hp'))
          · obtain ⟨c1, c2, c3⟩ := h4 a ha'
            exact ⟨c1, by rw [hp1] at c2; exact c2, c3⟩
        · intro j
          have := h5 j
          rw [hset j] at this
          rw [List.filter_cons]
          by_cases hj : j = k
          · subst hj
            simp only [beq_self_eq_true, ↓reduceIte, cpuReq, List.map_cons, List.sum_cons] at this ⊢
            omega
          · have hjk : (k == j) = false := by simpa using fun e => hj e.symm
            simp only [hjk, Bool.false_eq_true, ↓reduceIte, hj] at this ⊢
            exact this


def Single (ops : List Nat) : Prop := ∃ o, ops = [o]

theorem touched_ok (w : World) : ∀ (results : List Res) (acc : List Nat), (∀ r ∈ results, Single r.ops) →
    ∃ pids, results.foldlM (fun acc r => match r.ops with
      | [o] => (Except.ok (dedupAppend acc (w.store.pidOf o)) : Except Err (List Nat))
      | _ => .error .schedAssert) acc = .ok pids := by
  intro results
  induction results with
  | nil => intro acc _; exact ⟨acc, rfl⟩
  | cons r rs ih =>
    intro acc h
    obtain ⟨o, ho⟩ := h r (by simp)
    simp only [List.foldlM, ho]
    exact ih _ (fun x hx => h x (List.mem_cons_of_mem _ hx))

/-- everything the closed loop of the overbook scheduler keeps true from tick to tick -/
structure OBInv (w : World) (st : St) (res : List Res) : Prop where
  ready : WorldReady w
  wfp : w.WFP
  segs : w.SegsOK
  nosusp : w.NoSusp
  q : QOK w st.opq
  rs : ∀ r ∈ res, Single r.ops
  over : w.cfg.overcommit = true
  caps : ∀ p ∈ w.pools, 0 < p.capR
  single : ∀ p ∈ w.pools, AllOps Single p.active

/-- **one scheduling round of overbook plus one executor tick never raise**, and everything needed for the next round holds again -/
theorem overbook_tick_never_raises (w : World) (st : St) (res : List Res) (newP : List Nat) (inv : OBInv w st res) :
    ∃ w1 st1 dec w2 res2, round w st res newP = .ok (w1, st1, dec) ∧ w1.execTick dec.sus dec.asgs = .ok (w2, res2) ∧ OBInv w2 st1 res2 := by
  -- the round
  have hround : ∃ w1 st1 asgs, round w st res newP = .ok (w1, st1, { asgs := asgs }) ∧ Built w asgs w1 ∧ QOK w1 st1.opq ∧
      (∀ a ∈ asgs, a.cpu = 1 ∧ a.pool < w.pools.length ∧
        ∃ r, a.ops = [r] ∧ w1.store.segsOf r ≠ [] ∧ ∀ p ∈ w1.store.parentsOf r, w1.store.stOf p = completed) ∧
      (∀ k, ((cpuReq (asgs.filter (·.pool == k)) : Nat) : Int) ≤ (w.pools.map (·.availC)).getD k 0) := by
    unfold round
    split
    · refine ⟨w, st, [], rfl, .nil _, inv.q, by simp, ?_⟩
      intro k
      simp only [List.filter_nil, cpuReq, List.map_nil, List.sum_nil]
      rw [List.getD_eq_getElem?_getD, List.getElem?_map]
      cases hk : w.pools[k]? with
      | none => simp
      | some p => simp; exact ((inv.ready.pools p (List.mem_of_getElem? hk)).1.1.2).1
    · obtain ⟨pids, hp⟩ := touched_ok w res newP inv.rs
      have ht : touched w res newP = .ok pids := hp
      rw [ht]
      simp only
      have hq := enqueue_ok w inv.wfp inv.segs pids st.opq inv.q
      obtain ⟨w', q', new, h1, h2, h3, h4, h5⟩ := assign_run (countFails w res st.fails) (enqueue w st.opq pids) w (w.pools.map (·.availC)) [] hq
        (by intro k
            rw [List.getD_eq_getElem?_getD, List.getElem?_map]
            cases hk : w.pools[k]? with
            | none => simp
            | some p => simp; exact ((inv.ready.pools p (List.mem_of_getElem? hk)).1.1.2).1)
        (by simp) inv.caps
      simp only [List.nil_append] at h1
      rw [h1]
      exact ⟨w', _, new, rfl, h2, h3, h4, h5⟩
  obtain ⟨w1, st1, asgs, hrd, hb, hq1, hall, hbud⟩ := hround
  obtain ⟨e1, e2, e3, est⟩ := built_frame hb
  have hseg0 : ∀ a ∈ asgs, ∀ r ∈ a.ops, w.store.segsOf r ≠ [] := by
    intro a ha r hrr
    obtain ⟨_, _, r0, er, sr, _⟩ := hall a ha
    rw [er] at hrr; simp at hrr; subst hrr
    unfold Store.segsOf at sr ⊢; rw [← est.ops]; exact sr
  have hpar : ∀ a ∈ asgs, ParentsOK w1.store a.ops := by
    intro a ha
    obtain ⟨_, _, r0, er, _, pr⟩ := hall a ha
    rw [er]
    intro pre o post e q hq
    have : pre = [] ∧ o = r0 := by
      cases pre with
      | nil => simp at e; exact ⟨rfl, e.1.symm⟩
      | cons x xs => simp at e
    obtain ⟨rfl, rfl⟩ := this
    exact Or.inl (pr q hq)
  obtain ⟨w2, res2, hex, r2, p2, c2, st2⟩ := execTick_succeeds_of_gates w w1 asgs inv.ready hb hseg0 hpar
    (by intro a ha; rw [e1]; exact (hall a ha).2.1)
    (by intro k p hk
        right
        rw [e1] at hk
        unfold verifyAssignments
        have hb' := hbud k
        rw [List.getD_eq_getElem?_getD, List.getElem?_map, hk] at hb'
        simp only [Option.map_some, Option.getD_some] at hb'
        rw [if_neg (by omega), e2, inv.over]
        simp)
    (by intro a ha
        obtain ⟨_, _, r0, er, _, _⟩ := hall a ha
        unfold opCountOk
        rw [er]
        split <;> simp)
  -- what the tick did: only RUNNING / COMPLETED / FAILED targets; results and containers still carry single operators; no write-outs
  have hJ := poolsReady_of_built w w1 asgs inv.ready hb hseg0 hpar
  have hpools1 : ∀ p ∈ w1.pools, AllOps Single p.active ∧ p.suspending = [] := by
    intro p hp; rw [e1] at hp; exact ⟨inv.single p hp, inv.nosusp p hp⟩
  have hfacts : StepsP TickTarget w1.store w2.store ∧ (∀ p ∈ w2.pools, AllOps Single p.active ∧ p.suspending = []) ∧ ∀ r ∈ res2, Single r.ops := by
    unfold World.execTick at hex
    split at hex
    · cases hex
    · split at hex
      · cases hex
      · cases hex
      · rename_i s ps n rr hexp
        simp only [Except.ok.injEq, Prod.mk.injEq] at hex
        obtain ⟨rfl, rfl⟩ := hex
        obtain ⟨t, _⟩ := execPools_targets w1.cfg asgs w1.pools w1.store w1.nextCid [] [] s ps n rr hJ.live
          (by intro p hp; simp only [List.nil_append] at hp; exact (hpools1 p hp).2) hexp
        obtain ⟨o1, o2⟩ := execPools_ops w1.cfg asgs Single (fun a ha => let ⟨_, _, r0, er, _⟩ := hall a ha; ⟨r0, er⟩)
          w1.pools w1.store w1.nextCid [] [] s ps n rr (by intro p hp; simp only [List.nil_append] at hp; exact hpools1 p hp) (by simp) hexp
        exact ⟨t, o1, o2⟩
  obtain ⟨tt, hp2, hr2⟩ := hfacts
  refine ⟨w1, st1, { asgs := asgs }, w2, res2, hrd, hex, ⟨r2, ?_, ?_, fun p hp => (hp2 p hp).2, ?_, hr2, by rw [c2, e2]; exact inv.over, ?_, fun p hp => (hp2 p hp).1⟩⟩
  · intro pid
    rw [p2, Naive.built_pipes hb, st2.size, est.size]
    exact inv.wfp pid
  · intro pid r hrr
    rw [p2, Naive.built_pipes hb] at hrr
    unfold Store.segsOf; rw [st2.ops, est.ops]; exact inv.segs pid r hrr
  · -- the queue after the tick: its operators are PENDING or FAILED, which a tick never moves
    refine ⟨hq1.nd, fun x hx => ?_⟩
    obtain ⟨b1, b2, b3, b4⟩ := hq1.ok x hx
    have hkeep : w2.store.stOf x = w1.store.stOf x := by
      apply tickTargets_keep tt
      simp only [assignable, List.mem_cons, List.not_mem_nil, or_false] at b2
      rcases b2 with e | e
      · exact Or.inl e
      · exact Or.inr (Or.inl e)
    refine ⟨by rw [st2.size]; exact b1, by rw [hkeep]; exact b2, ?_, by unfold Store.segsOf at b4 ⊢; rw [st2.ops]; exact b4⟩
    intro p hp
    have hp' : p ∈ w1.store.parentsOf x := by unfold Store.parentsOf at hp ⊢; rw [← st2.ops]; exact hp
    exact completed_final st2 p (b3 p hp')
  · -- pool sizes do not change
    have hg1 : w1.PoolsGood := by
      intro p hp; rw [e1] at hp; rw [e2, e3]; exact (inv.ready.pools p hp).1.1
    obtain ⟨_, hcaps, _⟩ := execTick_good_ok hg1 hex
    intro p hp
    have : (p.capC, p.capR) ∈ w2.caps := List.mem_map.mpr ⟨p, hp, rfl⟩
    rw [hcaps] at this
    obtain ⟨p1, hp1, e⟩ := List.mem_map.mp this
    have : p1.capR = p.capR := by injection e
    rw [← this]
    rw [e1] at hp1
    exact inv.caps p1 hp1

/-- the simulator's main loop for the overbook scheduler -/
def loop : World → St → List Res → List (List Nat) → Except Err (World × St × List Res)
  | w, st, res, [] => .ok (w, st, res)
  | w, st, res, newP :: rest =>
    match round w st res newP with
    | .error e => .error e.1
    | .ok (w1, st1, dec) =>
      match w1.execTick dec.sus dec.asgs with
      | .error e => .error e.1
      | .ok (w2, res2) => loop w2 st1 res2 rest

/-- **the overbook scheduler (with memory overcommit, as it is meant to be run) drives any run to its last tick without raising**, in both container modes -/
theorem run_never_raises : ∀ (arrivals : List (List Nat)) (w : World) (st : St) (res : List Res), OBInv w st res →
    ∃ w' st' res', loop w st res arrivals = .ok (w', st', res') ∧ OBInv w' st' res' := by
  intro arrivals
  induction arrivals with
  | nil => intro w st res inv; exact ⟨w, st, res, rfl, inv⟩
  | cons newP rest ih =>
    intro w st res inv
    obtain ⟨w1, st1, dec, w2, res2, h1, h2, inv2⟩ := overbook_tick_never_raises w st res newP inv
    obtain ⟨w', st', res', ho, inv'⟩ := ih w2 st1 res2 inv2
    exact ⟨w', st', res', by unfold loop; rw [h1]; simp only; rw [h2]; exact ho, inv'⟩

end Overbook
end Eudoxia
