import EudoxiaModel.Proofs.OpsKept
/-! A property of containers that ticks and kills preserve and that freshly made containers have is kept by a whole executor tick (without suspensions),
    and every result reported comes from a container that had it. -/
namespace Eudoxia
open OpState Extracted

/-- `P` survives the two things that happen to a running container -/
structure Kept (cfg : Cfg) (P : Ctr → Prop) : Prop where
  tick : ∀ (w : Store) (c : Ctr) (cons : Int) (w' : Store) (c' : Ctr) (cons' : Int), c.tick cfg w cons = .ok (w', c', cons') → P c → P c'
  kill : ∀ (w : Store) (c : Ctr) (cons : Int) (w' : Store) (c' : Ctr) (cons' : Int), c.kill w cons = .ok (w', c', cons') → P c → P c'

def AllC (P : Ctr → Prop) (l : List Ctr) : Prop := ∀ c ∈ l, P c

theorem tickAll_kept {cfg : Cfg} {P : Ctr → Prop} (k : Kept cfg P) : ∀ (l : List Ctr) (w : Store) (cons : Int) (w' : Store) (l' : List Ctr) (cons' : Int),
    tickAll cfg w l cons = .ok (w', l', cons') → AllC P l → AllC P l' := by
  intro l
  induction l with
  | nil => intro w cons w' l' cons' h _; simp only [tickAll, Except.ok.injEq, Prod.mk.injEq] at h; rw [← h.2.1]; intro c hc; simp at hc
  | cons c cs ih =>
    intro w cons w' l' cons' h hp
    unfold tickAll at h
    split at h
    · cases h
    · rename_i w1 c1 cons1 ht
      split at h
      · cases h
      · rename_i w2 cs2 cons2 hrest
        simp only [Except.ok.injEq, Prod.mk.injEq] at h
        rw [← h.2.1]
        intro d hd
        rcases List.mem_cons.mp hd with rfl | hd
        · exact k.tick _ _ _ _ _ _ ht (hp c (by simp))
        · exact ih _ _ _ _ _ hrest (fun x hx => hp x (List.mem_cons_of_mem _ hx)) d hd

theorem killIndividual_kept {cfg : Cfg} {P : Ctr → Prop} (k : Kept cfg P) : ∀ (l : List Ctr) (w : Store) (cons : Int) (w' : Store) (l' : List Ctr) (cons' : Int),
    killIndividual w l cons = .ok (w', l', cons') → AllC P l → AllC P l' := by
  intro l
  induction l with
  | nil => intro w cons w' l' cons' h _; simp only [killIndividual, Except.ok.injEq, Prod.mk.injEq] at h; rw [← h.2.1]; intro c hc; simp at hc
  | cons c cs ih =>
    intro w cons w' l' cons' h hp
    unfold killIndividual at h
    split at h
    · split at h
      · cases h
      · rename_i w1 c1 cons1 hk
        split at h
        · cases h
        · rename_i w2 cs2 cons2 hrest
          simp only [Except.ok.injEq, Prod.mk.injEq] at h
          rw [← h.2.1]
          intro d hd
          rcases List.mem_cons.mp hd with rfl | hd
          · exact k.kill _ _ _ _ _ _ hk (hp c (by simp))
          · exact ih _ _ _ _ _ hrest (fun x hx => hp x (List.mem_cons_of_mem _ hx)) d hd
    · split at h
      · cases h
      · rename_i w2 cs2 cons2 hrest
        simp only [Except.ok.injEq, Prod.mk.injEq] at h
        rw [← h.2.1]
        intro d hd
        rcases List.mem_cons.mp hd with rfl | hd
        · exact hp d (by simp)
        · exact ih _ _ _ _ _ hrest (fun x hx => hp x (List.mem_cons_of_mem _ hx)) d hd

theorem killVictims_kept {cfg : Cfg} {P : Ctr → Prop} (k : Kept cfg P) (capR : Nat) : ∀ (vs : List Ctr) (w : Store) (act : List Ctr) (cons : Int) (w' : Store) (act' : List Ctr) (cons' : Int),
    killVictims w capR act cons vs = .ok (w', act', cons') → AllC P vs → AllC P act → AllC P act' := by
  intro vs
  induction vs with
  | nil => intro w act cons w' act' cons' h _ hp; simp only [killVictims, Except.ok.injEq, Prod.mk.injEq] at h; rw [← h.2.1]; exact hp
  | cons v vs ih =>
    intro w act cons w' act' cons' h hv hp
    unfold killVictims at h
    split at h
    · simp only [Except.ok.injEq, Prod.mk.injEq] at h; rw [← h.2.1]; exact hp
    · split at h
      · cases h
      · rename_i w1 v1 cons1 hk
        apply ih _ _ _ _ _ _ h (fun x hx => hv x (List.mem_cons_of_mem _ hx))
        intro d hd
        unfold replaceCtr at hd
        obtain ⟨x, hx, e⟩ := List.mem_map.mp hd
        split at e
        · rw [← e]; exact k.kill _ _ _ _ _ _ hk (hv v (by simp))
        · rw [← e]; exact hp x hx

theorem oomKiller_kept {cfg : Cfg} {P : Ctr → Prop} (k : Kept cfg P) {w w' : Store} {p p' : Pool} (h : oomKiller w p = .ok (w', p')) (hp : AllC P p.active) : AllC P p'.active := by
  unfold oomKiller at h
  split at h
  · cases h
  · rename_i w1 act1 cons1 hk
    have h1 := killIndividual_kept k _ _ _ _ _ _ hk hp
    split at h
    · rw [← ok_snd2 h]; exact h1
    · split at h
      · cases h
      · rename_i w2 act2 cons2 hv
        rw [← ok_snd2 h]
        refine killVictims_kept k p.capR _ _ _ _ _ _ _ hv ?_ h1
        intro c hc
        exact h1 c (List.mem_filter.mp (mem_sortDesc hc)).1

theorem startAll_kept (cfg : Cfg) (w : Store) (P : Ctr → Prop) : ∀ (as : List Asg) (p : Pool) (n : Nat) (p' : Pool) (n' : Nat),
    startAll cfg w p n as = .ok (p', n') → AllC P p.active → (∀ a ∈ as, ∀ k, P (mkCtr w k a)) → AllC P p'.active := by
  intro as
  induction as with
  | nil => intro p n p' n' h hp _; simp only [startAll, Except.ok.injEq, Prod.mk.injEq] at h; rw [← h.1]; exact hp
  | cons a as ih =>
    intro p n p' n' h hp ha
    unfold startAll at h
    split at h
    · cases h
    · apply ih _ _ _ _ h _ (fun b hb => ha b (List.mem_cons_of_mem _ hb))
      intro c hc
      simp only [List.mem_append, List.mem_singleton] at hc
      rcases hc with hc | rfl
      · exact hp c hc
      · exact ha a (by simp) n

/-- phases 3–6 without write-outs -/
theorem poolRun_kept {cfg : Cfg} {w w' : Store} {p p' : Pool} {res : List Res} {P : Ctr → Prop} (k : Kept cfg P) (hs : p.suspending = [])
    (hp : AllC P p.active) (h : poolRun cfg w p = .ok (w', p', res)) : AllC P p'.active ∧ (∀ r ∈ res, ∃ c, P c ∧ r = mkRes c) ∧ p'.suspending = [] := by
  unfold poolRun at h
  split at h
  · cases h
  · rename_i w3 p3 h3
    have h3' : p3.active = p.active ∧ p3.suspending = [] := by
      unfold suspTickAll at h3
      rw [hs] at h3
      simp only [suspTickList, Except.ok.injEq, Prod.mk.injEq] at h3
      obtain ⟨_, rfl⟩ := h3
      exact ⟨rfl, by simp⟩
    obtain ⟨act3, sus3⟩ := h3'
    split at h
    · cases h
    · rename_i w4 act4 cons4 h4
      rw [act3] at h4
      have h4' := tickAll_kept k _ _ _ _ _ _ h4 hp
      split at h
      · cases h
      · rename_i w5 p5 h5
        have h5' := oomKiller_kept k h5 (by exact h4')
        simp only [Except.ok.injEq, Prod.mk.injEq] at h
        obtain ⟨_, hp', hr⟩ := h
        obtain ⟨f1, f2, _⟩ := collect_fields p5
        refine ⟨?_, ?_, ?_⟩
        · rw [← hp', f1]; intro c hc; exact h5' c (List.mem_filter.mp hc).1
        · intro r hrr
          rw [← hr] at hrr
          simp only [collect] at hrr
          obtain ⟨c, hc, rfl⟩ := List.mem_map.mp hrr
          exact ⟨c, h5' c (List.mem_filter.mp hc).1, rfl⟩
        · rw [← hp', f2]
          have : p5.suspending = p3.suspending := by
            unfold oomKiller at h5
            split at h5
            · cases h5
            · split at h5
              · rw [← ok_snd2 h5]
              · split at h5
                · cases h5
                · rw [← ok_snd2 h5]
          rw [this, sus3]

/-- a pool tick without suspension requests on a pool without write-outs -/
theorem poolTick_kept {cfg : Cfg} {w w' : Store} {p p' : Pool} {n n' : Nat} {asgs : List Asg} {res : List Res} {P : Ctr → Prop} (k : Kept cfg P)
    (hs : p.suspending = []) (hp : AllC P p.active) (ha : ∀ a ∈ asgs, ∀ j, P (mkCtr w j a))
    (h : poolTick cfg w p n { susp := [], asgs := asgs } = .ok (w', p', n', res)) :
    AllC P p'.active ∧ (∀ r ∈ res, ∃ c, P c ∧ r = mkRes c) ∧ p'.suspending = [] := by
  unfold poolTick at h
  simp only [List.isEmpty_nil, ↓reduceIte] at h
  split at h
  · cases h
  · split at h
    · cases h
    · rename_i p2 n2 hst
      split at h
      · cases h
      · rename_i w6 p6 res6 hr
        simp only [Except.ok.injEq, Prod.mk.injEq] at h
        obtain ⟨_, rfl, _, rfl⟩ := h
        exact poolRun_kept k (by rw [startAll_suspending' cfg w asgs p n p2 n2 hst, hs]) (startAll_kept cfg w P asgs p n p2 n2 hst hp ha) hr

/-- the loop over the pools, without suspension requests.  (`mkCtr` reads only the segment table of the store, which no tick changes, so the hypothesis on
fresh containers is asked for every store.) -/
theorem execPools_kept (cfg : Cfg) (asgs : List Asg) {P : Ctr → Prop} (k : Kept cfg P) (ha : ∀ a ∈ asgs, ∀ (s : Store) j, P (mkCtr s j a)) :
    ∀ (todo : List Pool) (s : Store) (n : Nat) (done : List Pool) (res : List Res) (s' : Store) (ps : List Pool) (n' : Nat) (res' : List Res),
    (∀ p ∈ done ++ todo, AllC P p.active ∧ p.suspending = []) → (∀ r ∈ res, ∃ c, P c ∧ r = mkRes c) →
    execPools cfg [] asgs s n done todo res = .ok (s', ps, n', res') →
    (∀ p ∈ ps, AllC P p.active ∧ p.suspending = []) ∧ ∀ r ∈ res', ∃ c, P c ∧ r = mkRes c := by
  intro todo
  induction todo with
  | nil =>
    intro s n done res s' ps n' res' hp hr h
    simp only [execPools, Except.ok.injEq, Prod.mk.injEq] at h
    obtain ⟨_, rfl, _, rfl⟩ := h
    exact ⟨fun p hp' => hp p (by simpa using hp'), hr⟩
  | cons p rest ih =>
    intro s n done res s' ps n' res' hp hr h
    unfold execPools at h
    split at h
    · cases h
    · cases h
    · rename_i s1 p1 n1 r hpt
      have hcm : cmdsFor done.length [] asgs = { susp := [], asgs := asgs.filter (·.pool == done.length) } := rfl
      rw [hcm] at hpt
      obtain ⟨a1, a2, a3⟩ := poolTick_kept k (hp p (by simp)).2 (hp p (by simp)).1 (fun a haa j => ha a (List.mem_filter.mp haa).1 s j) hpt
      apply ih s1 n1 (done ++ [p1]) (res ++ r) s' ps n' res' _ _ h
      · intro q hq
        have hq' : q ∈ done ∨ q = p1 ∨ q ∈ rest := by simpa [List.mem_append, or_assoc] using hq
        rcases hq' with hq' | rfl | hq'
        · exact hp q (by simp [hq'])
        · exact ⟨a1, a3⟩
        · exact hp q (by simp [hq'])
      · intro x hx
        rcases List.mem_append.mp hx with hx | hx
        · exact hr x hx
        · exact a2 x hx

/-! ### the instance used for single-operator containers: one operator, positive allocation, never suspendable -/

def SingleCtr (c : Ctr) : Prop := (∃ o, c.ops = [o]) ∧ 0 < c.cpu ∧ 0 < c.ram ∧ c.pos.ops.length ≤ 1 ∧ c.canSuspend = false

theorem seek_len (cfg : Cfg) (w : Store) (c : Ctr) (w' : Store) (c' : Ctr) (h : seek w cfg c = .ok (w', c')) : c'.pos.ops.length ≤ c.pos.ops.length := by
  fun_induction seek w cfg c
  case case1 => cases h
  case case2 => cases h
  case case3 w0 c0 r allsegs rest hops hs w1 hw ih => exact ih h
  case case4 w0 c0 r allsegs rest hops hs hsg ih =>
    have := ih h
    simp only at this
    rw [hops]; simp only [List.length_cons]; omega
  case case5 => cases h; exact Nat.le_refl _
  case case6 w0 c0 r allsegs rest hops hs sg io cpuT more hsg hlt ih => exact ih h

theorem runAt_single {w w' : Store} {c c' : Ctr} {cons cons' : Int} {r : Nat} {m : Nat}
    (h : runAt w c cons r true m = .ok (w', c', cons')) (hc : SingleCtr c) : SingleCtr c' := by
  obtain ⟨h1, h2, h3, h4, h5⟩ := hc
  unfold runAt at h
  split at h
  · cases h; exact ⟨h1, h2, h3, h4, h5⟩
  · split at h
    · split at h
      · cases h
      · simp only [↓reduceIte, Except.ok.injEq, Prod.mk.injEq] at h
        obtain ⟨_, rfl, _⟩ := h
        exact ⟨h1, h2, h3, h4, rfl⟩
    · cases h; exact ⟨h1, h2, h3, h4, rfl⟩

theorem tick_single (cfg : Cfg) (w : Store) (c : Ctr) (cons : Int) (w' : Store) (c' : Ctr) (cons' : Int)
    (h : c.tick cfg w cons = .ok (w', c', cons')) (hc : SingleCtr c) : SingleCtr c' := by
  unfold Ctr.tick at h
  split at h
  · cases h; exact hc
  · split at h
    · cases h
    · rename_i w1 c1 cons1 hadv
      simp only [Except.ok.injEq, Prod.mk.injEq] at h
      obtain ⟨_, rfl, _⟩ := h
      have : SingleCtr c1 := by
        unfold advance at hadv
        split at hadv
        · cases hadv; exact hc
        · split at hadv
          · cases hadv
          · rename_i w2 c2 hs
            have hlen := seek_len _ _ _ _ _ hs
            obtain ⟨_, hsame, _⟩ := seek_spec _ _ _ _ _ hs
            have hc2 : SingleCtr c2 := by
              obtain ⟨h1, h2, h3, h4, h5⟩ := hc
              unfold Ctr.SameButPos at hsame
              rw [hsame]
              exact ⟨h1, h2, h3, Nat.le_trans hlen h4, h5⟩
            unfold runTick at hadv
            split at hadv
            · rename_i r x rest sg io y z hops hsegs
              have hr : rest = [] := by
                have := hc2.2.2.2.1
                rw [hops] at this
                simp only [List.length_cons] at this
                exact List.length_eq_zero_iff.mp (by omega)
              subst hr
              exact runAt_single hadv hc2
            · cases hadv
      obtain ⟨h1, h2, h3, h4, h5⟩ := this
      exact ⟨h1, h2, h3, h4, h5⟩

theorem kill_single (w : Store) (c : Ctr) (cons : Int) (w' : Store) (c' : Ctr) (cons' : Int)
    (h : c.kill w cons = .ok (w', c', cons')) (hc : SingleCtr c) : SingleCtr c' := by
  unfold Ctr.kill at h
  split at h
  · cases h
  · simp only [Ctr.setMem, Except.ok.injEq, Prod.mk.injEq] at h
    obtain ⟨_, rfl, _⟩ := h
    exact hc

theorem single_kept (cfg : Cfg) : Kept cfg SingleCtr := ⟨tick_single cfg, kill_single⟩

theorem mkCtr_single (w : Store) (k : Nat) (a : Asg) (h1 : ∃ o, a.ops = [o]) (h2 : 0 < a.cpu) (h3 : 0 < a.ram) : SingleCtr (mkCtr w k a) := by
  obtain ⟨o, ho⟩ := h1
  exact ⟨⟨o, ho⟩, h2, h3, by simp [mkCtr, mkPos, ho], rfl⟩

end Eudoxia
