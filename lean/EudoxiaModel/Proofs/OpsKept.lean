import EudoxiaModel.Proofs.Live
/-! Containers keep their operator lists: every container in a pool after a tick, and every result reported, carries the operator list of a container
    that was there before or of an assignment started in this tick. -/
namespace Eudoxia
open OpState Extracted

/-- a property of operator lists that holds for all containers of a list -/
def AllOps (P : List Nat → Prop) (l : List Ctr) : Prop := ∀ c ∈ l, P c.ops

theorem tick_ops {cfg : Cfg} {w w' : Store} {c c' : Ctr} {cons cons' : Int} (h : c.tick cfg w cons = .ok (w', c', cons')) : c'.ops = c.ops := by
  unfold Ctr.tick at h
  split at h
  · simp only [Except.ok.injEq, Prod.mk.injEq] at h; rw [← h.2.1]
  · split at h
    · cases h
    · rename_i w1 c1 cons1 hadv
      simp only [Except.ok.injEq, Prod.mk.injEq] at h
      rw [← h.2.1]
      show c1.ops = c.ops
      unfold advance at hadv
      split at hadv
      · simp only [Except.ok.injEq, Prod.mk.injEq] at hadv; rw [← hadv.2.1]
      · split at hadv
        · cases hadv
        · rename_i w2 c2 hs
          obtain ⟨_, hsame, _⟩ := seek_spec _ _ _ _ _ hs
          have h2 : c2.ops = c.ops := by unfold Ctr.SameButPos at hsame; rw [hsame]
          unfold runTick at hadv
          split at hadv
          · exact ((runAt_spec hadv).2.1).trans h2
          · cases hadv

theorem tickAll_ops (cfg : Cfg) (P : List Nat → Prop) : ∀ (l : List Ctr) (w : Store) (cons : Int) (w' : Store) (l' : List Ctr) (cons' : Int),
    tickAll cfg w l cons = .ok (w', l', cons') → AllOps P l → AllOps P l' := by
  intro l
  induction l with
  | nil => intro w cons w' l' cons' h _; simp only [tickAll, Except.ok.injEq, Prod.mk.injEq] at h; rw [← h.2.1]; intro c hc; simp at hc
  | cons c cs ih =>
    intro w cons w' l' cons' h hp
    unfold tickAll at h
    split at h
    · cases h
    · rename_i w1 c1 cons1 ht
      split at h
      · cases h
      · rename_i w2 cs2 cons2 hrest
        simp only [Except.ok.injEq, Prod.mk.injEq] at h
        rw [← h.2.1]
        intro d hd
        rcases List.mem_cons.mp hd with rfl | hd
        · rw [tick_ops ht]; exact hp c (by simp)
        · exact ih _ _ _ _ _ hrest (fun x hx => hp x (List.mem_cons_of_mem _ hx)) d hd

theorem killIndividual_ops (P : List Nat → Prop) : ∀ (l : List Ctr) (w : Store) (cons : Int) (w' : Store) (l' : List Ctr) (cons' : Int),
    killIndividual w l cons = .ok (w', l', cons') → AllOps P l → AllOps P l' := by
  intro l
  induction l with
  | nil => intro w cons w' l' cons' h _; simp only [killIndividual, Except.ok.injEq, Prod.mk.injEq] at h; rw [← h.2.1]; intro c hc; simp at hc
  | cons c cs ih =>
    intro w cons w' l' cons' h hp
    unfold killIndividual at h
    split at h
    · split at h
      · cases h
      · rename_i w1 c1 cons1 hk
        split at h
        · cases h
        · rename_i w2 cs2 cons2 hrest
          simp only [Except.ok.injEq, Prod.mk.injEq] at h
          rw [← h.2.1]
          intro d hd
          rcases List.mem_cons.mp hd with rfl | hd
          · rw [(kill_live w c cons w1 d cons1 hk).1]; exact hp c (by simp)
          · exact ih _ _ _ _ _ hrest (fun x hx => hp x (List.mem_cons_of_mem _ hx)) d hd
    · split at h
      · cases h
      · rename_i w2 cs2 cons2 hrest
        simp only [Except.ok.injEq, Prod.mk.injEq] at h
        rw [← h.2.1]
        intro d hd
        rcases List.mem_cons.mp hd with rfl | hd
        · exact hp d (by simp)
        · exact ih _ _ _ _ _ hrest (fun x hx => hp x (List.mem_cons_of_mem _ hx)) d hd

theorem killVictims_ops (capR : Nat) (P : List Nat → Prop) : ∀ (vs : List Ctr) (w : Store) (act : List Ctr) (cons : Int) (w' : Store) (act' : List Ctr) (cons' : Int),
    killVictims w capR act cons vs = .ok (w', act', cons') → AllOps P vs → AllOps P act → AllOps P act' := by
  intro vs
  induction vs with
  | nil => intro w act cons w' act' cons' h _ hp; simp only [killVictims, Except.ok.injEq, Prod.mk.injEq] at h; rw [← h.2.1]; exact hp
  | cons v vs ih =>
    intro w act cons w' act' cons' h hv hp
    unfold killVictims at h
    split at h
    · simp only [Except.ok.injEq, Prod.mk.injEq] at h; rw [← h.2.1]; exact hp
    · split at h
      · cases h
      · rename_i w1 v1 cons1 hk
        apply ih _ _ _ _ _ _ h (fun x hx => hv x (List.mem_cons_of_mem _ hx))
        intro d hd
        unfold replaceCtr at hd
        obtain ⟨x, hx, e⟩ := List.mem_map.mp hd
        split at e
        · rw [← e, (kill_live w v cons w1 v1 cons1 hk).1]; exact hv v (by simp)
        · rw [← e]; exact hp x hx

theorem oomKiller_ops (P : List Nat → Prop) {w w' : Store} {p p' : Pool} (h : oomKiller w p = .ok (w', p')) (hp : AllOps P p.active) : AllOps P p'.active := by
  unfold oomKiller at h
  split at h
  · cases h
  · rename_i w1 act1 cons1 hk
    have h1 := killIndividual_ops P _ _ _ _ _ _ hk hp
    split at h
    · rw [← ok_snd2 h]; exact h1
    · split at h
      · cases h
      · rename_i w2 act2 cons2 hv
        rw [← ok_snd2 h]
        refine killVictims_ops p.capR P _ _ _ _ _ _ _ hv ?_ h1
        intro c hc
        exact h1 c (List.mem_filter.mp (mem_sortDesc hc)).1

theorem startAll_ops (cfg : Cfg) (w : Store) (P : List Nat → Prop) : ∀ (as : List Asg) (p : Pool) (n : Nat) (p' : Pool) (n' : Nat),
    startAll cfg w p n as = .ok (p', n') → AllOps P p.active → (∀ a ∈ as, P a.ops) → AllOps P p'.active := by
  intro as
  induction as with
  | nil => intro p n p' n' h hp _; simp only [startAll, Except.ok.injEq, Prod.mk.injEq] at h; rw [← h.1]; exact hp
  | cons a as ih =>
    intro p n p' n' h hp ha
    unfold startAll at h
    split at h
    · cases h
    · apply ih _ _ _ _ h _ (fun b hb => ha b (List.mem_cons_of_mem _ hb))
      intro c hc
      simp only [List.mem_append, List.mem_singleton] at hc
      rcases hc with hc | rfl
      · exact hp c hc
      · exact ha a (by simp)

/-- phases 3–6 without write-outs: the containers that remain and the results reported carry operator lists that satisfied `P` before -/
theorem poolRun_ops {cfg : Cfg} {w w' : Store} {p p' : Pool} {res : List Res} (P : List Nat → Prop) (hs : p.suspending = [])
    (hp : AllOps P p.active) (h : poolRun cfg w p = .ok (w', p', res)) : AllOps P p'.active ∧ (∀ r ∈ res, P r.ops) ∧ p'.suspending = [] := by
  unfold poolRun at h
  split at h
  · cases h
  · rename_i w3 p3 h3
    have h3' : p3.active = p.active ∧ p3.suspending = [] := by
      unfold suspTickAll at h3
      rw [hs] at h3
      simp only [suspTickList, Except.ok.injEq, Prod.mk.injEq] at h3
      obtain ⟨_, rfl⟩ := h3
      exact ⟨rfl, by simp⟩
    obtain ⟨act3, sus3⟩ := h3'
    split at h
    · cases h
    · rename_i w4 act4 cons4 h4
      rw [act3] at h4
      have h4' := tickAll_ops cfg P _ _ _ _ _ _ h4 hp
      split at h
      · cases h
      · rename_i w5 p5 h5
        have h5' := oomKiller_ops P h5 (by exact h4')
        simp only [Except.ok.injEq, Prod.mk.injEq] at h
        obtain ⟨_, hp', hr⟩ := h
        obtain ⟨f1, f2, _⟩ := collect_fields p5
        refine ⟨?_, ?_, ?_⟩
        · rw [← hp', f1]; intro c hc; exact h5' c (List.mem_filter.mp hc).1
        · intro r hrr
          rw [← hr] at hrr
          simp only [collect] at hrr
          obtain ⟨c, hc, rfl⟩ := List.mem_map.mp hrr
          exact h5' c (List.mem_filter.mp hc).1
        · rw [← hp', f2]
          have : p5.suspending = p3.suspending := by
            unfold oomKiller at h5
            split at h5
            · cases h5
            · split at h5
              · rw [← ok_snd2 h5]
              · split at h5
                · cases h5
                · rw [← ok_snd2 h5]
          rw [this, sus3]


theorem startAll_suspending' (cfg : Cfg) (w : Store) : ∀ (as : List Asg) (p : Pool) (n : Nat) (p' : Pool) (n' : Nat),
    startAll cfg w p n as = .ok (p', n') → p'.suspending = p.suspending := by
  intro as
  induction as with
  | nil => intro p n p' n' h; simp only [startAll, Except.ok.injEq, Prod.mk.injEq] at h; rw [← h.1]
  | cons a as ih =>
    intro p n p' n' h
    unfold startAll at h
    split at h
    · cases h
    · rw [ih _ _ _ _ h]

/-- a pool tick without suspension requests on a pool without write-outs -/
theorem poolTick_ops {cfg : Cfg} {w w' : Store} {p p' : Pool} {n n' : Nat} {asgs : List Asg} {res : List Res} (P : List Nat → Prop)
    (hs : p.suspending = []) (hp : AllOps P p.active) (ha : ∀ a ∈ asgs, P a.ops)
    (h : poolTick cfg w p n { susp := [], asgs := asgs } = .ok (w', p', n', res)) :
    AllOps P p'.active ∧ (∀ r ∈ res, P r.ops) ∧ p'.suspending = [] := by
  unfold poolTick at h
  simp only [List.isEmpty_nil, ↓reduceIte] at h
  split at h
  · cases h
  · split at h
    · cases h
    · rename_i p2 n2 hst
      split at h
      · cases h
      · rename_i w6 p6 res6 hr
        simp only [Except.ok.injEq, Prod.mk.injEq] at h
        obtain ⟨_, rfl, _, rfl⟩ := h
        exact poolRun_ops P (by rw [startAll_suspending' cfg w asgs p n p2 n2 hst, hs]) (startAll_ops cfg w P asgs p n p2 n2 hst hp ha) hr

/-- the loop over the pools, without suspension requests -/
theorem execPools_ops (cfg : Cfg) (asgs : List Asg) (P : List Nat → Prop) (ha : ∀ a ∈ asgs, P a.ops) :
    ∀ (todo : List Pool) (s : Store) (n : Nat) (done : List Pool) (res : List Res) (s' : Store) (ps : List Pool) (n' : Nat) (res' : List Res),
    (∀ p ∈ done ++ todo, AllOps P p.active ∧ p.suspending = []) → (∀ r ∈ res, P r.ops) →
    execPools cfg [] asgs s n done todo res = .ok (s', ps, n', res') →
    (∀ p ∈ ps, AllOps P p.active ∧ p.suspending = []) ∧ ∀ r ∈ res', P r.ops := by
  intro todo
  induction todo with
  | nil =>
    intro s n done res s' ps n' res' hp hr h
    simp only [execPools, Except.ok.injEq, Prod.mk.injEq] at h
    obtain ⟨_, rfl, _, rfl⟩ := h
    exact ⟨fun p hp' => hp p (by simpa using hp'), hr⟩
  | cons p rest ih =>
    intro s n done res s' ps n' res' hp hr h
    unfold execPools at h
    split at h
    · cases h
    · cases h
    · rename_i s1 p1 n1 r hpt
      have hcm : cmdsFor done.length [] asgs = { susp := [], asgs := asgs.filter (·.pool == done.length) } := rfl
      rw [hcm] at hpt
      obtain ⟨a1, a2, a3⟩ := poolTick_ops P (hp p (by simp)).2 (hp p (by simp)).1 (fun a haa => ha a (List.mem_filter.mp haa).1) hpt
      apply ih s1 n1 (done ++ [p1]) (res ++ r) s' ps n' res' _ _ h
      · intro q hq
        have hq' : q ∈ done ∨ q = p1 ∨ q ∈ rest := by simpa [List.mem_append, or_assoc] using hq
        rcases hq' with hq' | rfl | hq'
        · exact hp q (by simp [hq'])
        · exact ⟨a1, a3⟩
        · exact hp q (by simp [hq'])
      · intro x hx
        rcases List.mem_append.mp hx with hx | hx
        · exact hr x hx
        · exact a2 x hx

end Eudoxia
