import EudoxiaModel.Proofs.PoolLoop
import EudoxiaModel.Proofs.WorldDeadSusp
import EudoxiaModel.Proofs.GatesSusp
import EudoxiaModel.Proofs.Cids
import EudoxiaModel.Proofs.CtrKeptS
import EudoxiaModel.Proofs.TickFrame
import EudoxiaModel.Proofs.PriorityLoop
import EudoxiaModel.Proofs.Preempt
/-! The priority scheduler with multi-operator containers — the mode in which it pre-empts — in closed loop with the executor. -/
namespace Eudoxia.PM
open Eudoxia Eudoxia.Prio Eudoxia.PP OpState Extracted

/-- a list of operators that is *all* the unfinished work of one pipeline: they belong to it, and every other operator of that pipeline is COMPLETED -/
def WholeOps (pipes : Array PipeInfo) (s : Store) (ops : List Nat) : Prop :=
  ∃ P, (∀ o ∈ ops, o ∈ (pipes.getD P default).order) ∧ ∀ o ∈ (pipes.getD P default).order, o ∈ ops ∨ s.stOf o = completed

theorem wholeOps_mono {pipes : Array PipeInfo} {s s' : Store} {ops : List Nat} (h : WholeOps pipes s ops) (hs : Steps s s') : WholeOps pipes s' ops := by
  obtain ⟨P, h1, h2⟩ := h
  exact ⟨P, h1, fun o ho => (h2 o ho).imp id (fun hc => completed_final hs o hc)⟩

/-- dropping a COMPLETED prefix keeps "all the unfinished work" -/
theorem wholeOps_drop {pipes : Array PipeInfo} {s : Store} {l : List Nat} (h : WholeOps pipes s l) (i : Nat) (hp : ∀ o ∈ l.take i, s.stOf o = completed) :
    WholeOps pipes s (l.drop i) := by
  obtain ⟨P, h1, h2⟩ := h
  refine ⟨P, fun o ho => h1 o ((List.drop_sublist _ _).subset ho), fun o ho => ?_⟩
  rcases h2 o ho with h | h
  · rw [← List.take_append_drop i l] at h
    rcases List.mem_append.mp h with h | h
    · exact Or.inr (hp o h)
    · exact Or.inl h
  · exact Or.inr h

/-! ### `prEnqueue` with multi-operator containers -/

/-- what `prEnqueue` does for one pipeline when containers may hold several operators -/
def enqM (w : World) (queued : List Nat) (lookup : Nat → Option Retry) (st : St) (pid : Nat) : St :=
  if ((w.getOps pid assignable false).filter (fun o => !queued.contains o)).isEmpty then st
  else st.push { prio := w.prioOf pid, pid := pid, ops := (w.getOps pid assignable false).filter (fun o => !queued.contains o),
                 retry := lookup (((w.getOps pid assignable false).filter (fun o => !queued.contains o)).headD 0) } (w.prioOf pid)

theorem prEnqueue_multi (w : World) (st : St) (results : List Res) (newP : List Nat) (hm : w.cfg.multiOp = true) :
    prEnqueue w st results newP = (prTouched w results newP).foldl (enqM w (st.jobs.flatMap (·.ops)) (retryLookup w results)) st := by
  unfold prEnqueue
  simp only [hm, Bool.not_true, ↓reduceIte]
  split
  · rename_i he
    have : prTouched w results newP = [] := by simpa using he
    rw [this]; rfl
  · rfl

/-- nothing of pipeline `P` is in a container or in a queue: every operator is COMPLETED, or PENDING / FAILED and not queued -/
def QuietP (w : World) (Q0 : List Nat) (P : Nat) : Prop :=
  ∀ o ∈ (w.pipes.getD P default).order, w.store.stOf o = completed ∨ (w.store.stOf o ∈ assignable ∧ o ∉ Q0)

theorem getOps_filter (w : World) (pid : Nat) (Q0 : List Nat) :
    (w.getOps pid assignable false).filter (fun o => !Q0.contains o) =
      (w.pipes.getD pid default).order.filter (fun r => assignable.contains (w.store.stOf r) && !Q0.contains r) := by
  unfold World.getOps
  rw [List.filter_filter]
  congr 1
  funext r
  simp [Bool.and_comm]

/-- the job `prEnqueue` makes for a quiet pipeline: all its unfinished work, in dependency order -/
theorem enqM_job (w : World) (wf : w.WFP) (hs : w.SegsOK) (htopo : w.Topo) (Q0 : List Nat) (P : Nat) (hq : QuietP w Q0 P)
    (hne : (w.getOps P assignable false).filter (fun o => !Q0.contains o) ≠ []) (rt : Option Retry) (hrt : ∀ rs, rt = some rs → 0 < rs.oldCpu ∧ 0 < rs.oldRam) :
    JobOKm w { prio := w.prioOf P, pid := P, ops := (w.getOps P assignable false).filter (fun o => !Q0.contains o), retry := rt } ∧
    WholeOps w.pipes w.store ((w.getOps P assignable false).filter (fun o => !Q0.contains o)) := by
  have hmem : ∀ o, o ∈ (w.getOps P assignable false).filter (fun o => !Q0.contains o) ↔
      (o ∈ (w.pipes.getD P default).order ∧ w.store.stOf o ∈ assignable ∧ o ∉ Q0) := by
    intro o
    rw [getOps_filter]
    simp [List.mem_filter, and_assoc]
  refine ⟨⟨hne, ?_, fun o ho => ?_, ?_, hrt⟩, ⟨P, fun o ho => ((hmem o).mp ho).1, fun o ho => ?_⟩⟩
  · rw [getOps_filter]; exact (wf P).1.sublist List.filter_sublist
  · obtain ⟨h1, h2, _⟩ := (hmem o).mp ho
    exact ⟨(wf P).2 o h1, h2, hs P o h1⟩
  · intro pre' o post' hU q hq'
    rw [getOps_filter] at hU
    obtain ⟨pre, post, hord, hpre⟩ := filter_split _ _ _ _ _ hU
    have hqpre : q ∈ pre := htopo P pre o post hord q hq'
    have hqord : q ∈ (w.pipes.getD P default).order := by rw [hord]; exact List.mem_append_left _ hqpre
    rcases hq q hqord with h | ⟨h1, h2⟩
    · exact Or.inl h
    · right
      rw [hpre]
      exact List.mem_filter.mpr ⟨hqpre, by simp [h1, h2]⟩
  · rcases hq o ho with h | ⟨h1, h2⟩
    · exact Or.inr h
    · exact Or.inl ((hmem o).mpr ⟨ho, h1, h2⟩)

def JobsWhole (w : World) (js : List Job) : Prop := ∀ j ∈ js, WholeOps w.pipes w.store j.ops

theorem jobsWhole_push {w : World} {st : St} {j : Job} (p : Nat) (h : JobsWhole w st.jobs) (hj : WholeOps w.pipes w.store j.ops) :
    JobsWhole w (st.push j p).jobs := by
  intro x hx
  rcases (mem_push st j p x).mp hx with hx | rfl
  · exact h x hx
  · exact hj

/-- **what `prEnqueue` leaves in the queues** (multi-operator mode), when every pipeline it looks at is quiet: one job per such pipeline with all its
unfinished work, in dependency order -/
theorem prEnqueueM_ok (w : World) (st : St) (results : List Res) (newP : List Nat) (hm : w.cfg.multiOp = true)
    (wf : w.WFP) (hs : w.SegsOK) (hpid : w.PidOK) (htopo : w.Topo) (hj : JobsOKm w st.jobs) (hw : JobsWhole w st.jobs) (hnd : newP.Nodup)
    (hres : ∀ r ∈ results, 0 < r.cpu ∧ 0 < r.ram) (hquiet : ∀ pid ∈ prTouched w results newP, QuietP w (st.jobs.flatMap (·.ops)) pid) :
    JobsOKm w (prEnqueue w st results newP).jobs ∧ JobsWhole w (prEnqueue w st results newP).jobs ∧ (prEnqueue w st results newP).susp = st.susp ∧
    ∀ o ∈ (prEnqueue w st results newP).jobs.flatMap (·.ops), o ∈ st.jobs.flatMap (·.ops) ∨ w.store.pidOf o ∈ prTouched w results newP := by
  rw [prEnqueue_multi w st results newP hm]
  have outer : ∀ (pids done : List Nat) (s : St), pids.Nodup → (∀ x ∈ pids, x ∉ done) → (∀ pid ∈ pids, QuietP w (st.jobs.flatMap (·.ops)) pid) →
      JobsOKm w s.jobs → JobsWhole w s.jobs →
      (∀ o ∈ s.jobs.flatMap (·.ops), o ∈ st.jobs.flatMap (·.ops) ∨ w.store.pidOf o ∈ done) →
      JobsOKm w (pids.foldl (enqM w (st.jobs.flatMap (·.ops)) (retryLookup w results)) s).jobs ∧
      JobsWhole w (pids.foldl (enqM w (st.jobs.flatMap (·.ops)) (retryLookup w results)) s).jobs ∧
      (pids.foldl (enqM w (st.jobs.flatMap (·.ops)) (retryLookup w results)) s).susp = s.susp ∧
      ∀ o ∈ (pids.foldl (enqM w (st.jobs.flatMap (·.ops)) (retryLookup w results)) s).jobs.flatMap (·.ops),
        o ∈ st.jobs.flatMap (·.ops) ∨ w.store.pidOf o ∈ done ++ pids := by
    intro pids
    induction pids with
    | nil => intro done s _ _ _ h1 h2 h3; exact ⟨h1, h2, rfl, by simpa using h3⟩
    | cons pid rest ih =>
      intro done s hn hd hqt h1 h2 h3
      simp only [List.foldl_cons]
      have hstep : JobsOKm w (enqM w (st.jobs.flatMap (·.ops)) (retryLookup w results) s pid).jobs ∧
          JobsWhole w (enqM w (st.jobs.flatMap (·.ops)) (retryLookup w results) s pid).jobs ∧
          (enqM w (st.jobs.flatMap (·.ops)) (retryLookup w results) s pid).susp = s.susp ∧
          ∀ o ∈ (enqM w (st.jobs.flatMap (·.ops)) (retryLookup w results) s pid).jobs.flatMap (·.ops),
            o ∈ st.jobs.flatMap (·.ops) ∨ w.store.pidOf o ∈ done ++ [pid] := by
        unfold enqM
        split
        · exact ⟨h1, h2, rfl, fun o ho => (h3 o ho).imp id (fun h => List.mem_append_left _ h)⟩
        · rename_i hne
          have hne' : (w.getOps pid assignable false).filter (fun o => !(st.jobs.flatMap (·.ops)).contains o) ≠ [] := by simpa using hne
          obtain ⟨jok, jwh⟩ := enqM_job w wf hs htopo _ pid (hqt pid (by simp)) hne' _ (retryLookup_pos w results hres _)
          have hin : ∀ o ∈ (w.getOps pid assignable false).filter (fun o => !(st.jobs.flatMap (·.ops)).contains o),
              o ∈ (w.pipes.getD pid default).order ∧ o ∉ st.jobs.flatMap (·.ops) := by
            intro o ho
            obtain ⟨a, b⟩ := List.mem_filter.mp ho
            unfold World.getOps at a
            exact ⟨(List.mem_filter.mp a).1, by simpa using b⟩
          have hnew : ∀ o ∈ (w.getOps pid assignable false).filter (fun o => !(st.jobs.flatMap (·.ops)).contains o), o ∉ s.jobs.flatMap (·.ops) := by
            intro o ho hx
            obtain ⟨a, b⟩ := hin o ho
            rcases h3 o hx with h | h
            · exact b h
            · rw [hpid pid o a] at h; exact hd pid (by simp) h
          refine ⟨jobsOKm_push _ h1 jok hnew, jobsWhole_push _ h2 jwh, push_susp _ _ _, ?_⟩
          intro o ho
          rcases List.mem_append.mp ((push_ops_perm s _ _).mem_iff.mp ho) with h | h
          · exact (h3 o h).imp id (fun h' => List.mem_append_left _ h')
          · exact Or.inr (by rw [hpid pid o (hin o h).1]; simp)
      obtain ⟨a1, a2, a3, a4⟩ := hstep
      obtain ⟨b1, b2, b3, b4⟩ := ih (done ++ [pid]) _ (List.nodup_cons.mp hn).2 (by
        intro x hx hc
        rcases List.mem_append.mp hc with hc | hc
        · exact hd x (List.mem_cons_of_mem _ hx) hc
        · simp at hc; subst hc; exact (List.nodup_cons.mp hn).1 hx) (fun x hx => hqt x (List.mem_cons_of_mem _ hx)) a1 a2 a4
      exact ⟨b1, b2, by rw [b3, a3], fun o ho => by simpa [List.append_assoc] using b4 o ho⟩
  obtain ⟨r1, r2, r3, r4⟩ := outer _ [] st (prTouched_nodup w results newP hnd) (by simp) hquiet hj hw (fun o ho => Or.inl ho)
  exact ⟨r1, r2, r3, by simpa using r4⟩

/-! ### the dictionary of remembered jobs -/

theorem mem_dictSet {d : List (Nat × Job)} {k : Nat} {j : Job} {x : Nat × Job} (h : x ∈ dictSet d k j) : x = (k, j) ∨ (x ∈ d ∧ x.1 ≠ k) := by
  unfold dictSet at h
  split at h
  · obtain ⟨y, hy, e⟩ := List.mem_map.mp h
    split at e
    · exact Or.inl e.symm
    · rename_i hne
      subst e
      exact Or.inr ⟨hy, by simpa using hne⟩
  · rename_i hany
    rcases List.mem_append.mp h with h | h
    · refine Or.inr ⟨h, fun e => hany ?_⟩
      exact List.any_eq_true.mpr ⟨x, h, by simp [e]⟩
    · simp at h; exact Or.inl h

theorem dictSet_self (d : List (Nat × Job)) (k : Nat) (j : Job) : (k, j) ∈ dictSet d k j := by
  unfold dictSet
  split
  · rename_i hany
    obtain ⟨y, hy, hk⟩ := List.any_eq_true.mp hany
    exact List.mem_map.mpr ⟨y, hy, by simp [hk]⟩
  · simp

theorem dictSet_other {d : List (Nat × Job)} {k : Nat} {j : Job} {x : Nat × Job} (hx : x ∈ d) (hne : x.1 ≠ k) : x ∈ dictSet d k j := by
  unfold dictSet
  split
  · exact List.mem_map.mpr ⟨x, hx, by simp [hne]⟩
  · exact List.mem_append_left _ hx

theorem dictSet_keys (d : List (Nat × Job)) (k : Nat) (j : Job) (h : (d.map (·.1)).Nodup) : ((dictSet d k j).map (·.1)).Nodup := by
  unfold dictSet
  split
  · have : (d.map (fun x => if x.1 == k then (k, j) else x)).map (·.1) = d.map (·.1) := by
      rw [List.map_map]
      apply List.map_congr_left
      intro x _
      simp only [Function.comp]
      split
      · rename_i hk; simp at hk; simp [hk]
      · rfl
    rw [this]; exact h
  · rename_i hany
    rw [List.map_append, List.nodup_append]
    refine ⟨h, by simp, fun a ha b hb e => ?_⟩
    simp at hb; subst hb; subst e
    obtain ⟨y, hy, hya⟩ := List.mem_map.mp ha
    exact hany (List.any_eq_true.mpr ⟨y, hy, by simp [hya]⟩)

/-- setting a list of (number, job) pairs one after the other -/
def setAll (d : List (Nat × Job)) (L : List (Nat × Job)) : List (Nat × Job) := L.foldl (fun d x => dictSet d x.1 x.2) d

theorem setAll_spec : ∀ (L : List (Nat × Job)) (d : List (Nat × Job)), (d.map (·.1)).Nodup →
    ((setAll d L).map (·.1)).Nodup ∧ (∀ x ∈ setAll d L, (x ∈ d ∧ x.1 ∉ L.map (·.1)) ∨ x ∈ L) ∧
    (∀ x ∈ d, x.1 ∉ L.map (·.1) → x ∈ setAll d L) ∧ ((L.map (·.1)).Nodup → ∀ x ∈ L, x ∈ setAll d L) := by
  intro L
  induction L with
  | nil => intro d h; exact ⟨h, fun x hx => Or.inl ⟨hx, by simp⟩, fun x hx _ => hx, fun _ x hx => by cases hx⟩
  | cons y ys ih =>
    intro d h
    obtain ⟨i1, i2, i3, i4⟩ := ih (dictSet d y.1 y.2) (dictSet_keys d y.1 y.2 h)
    refine ⟨i1, fun x hx => ?_, fun x hx hn => ?_, fun hnd x hx => ?_⟩
    · rcases i2 x hx with ⟨h1, h2⟩ | h1
      · rcases mem_dictSet h1 with e | ⟨h3, h4⟩
        · exact Or.inr (by rw [e]; simp)
        · exact Or.inl ⟨h3, by simp only [List.map_cons, List.mem_cons, not_or]; exact ⟨h4, h2⟩⟩
      · exact Or.inr (List.mem_cons_of_mem _ h1)
    · simp only [List.map_cons, List.mem_cons, not_or] at hn
      exact i3 x (dictSet_other hx hn.1) hn.2
    · simp only [List.map_cons, List.nodup_cons] at hnd
      rcases List.mem_cons.mp hx with rfl | hx
      · exact i3 _ (dictSet_self d x.1 x.2) hnd.1
      · exact i4 hnd.2 x hx

theorem setAll_append (d : List (Nat × Job)) (a b : List (Nat × Job)) : setAll d (a ++ b) = setAll (setAll d a) b := by
  unfold setAll; rw [List.foldl_append]

/-- the (number, job) pairs `prNoteSuspending` writes: one for every container that is being written out -/
def noteList (w : World) : List (Nat × Job) :=
  (List.range w.pools.length).flatMap (fun k => (w.pools.getD k default).suspending.map (fun c => (c.cid, jobOfCtr w k c)))

theorem prNoteSuspending_eq (w : World) (st : St) : prNoteSuspending w st = { st with susp := setAll st.susp (noteList w) } := by
  unfold prNoteSuspending noteList
  have inner : ∀ (k : Nat) (cs : List Ctr) (s : St),
      cs.foldl (fun st c => { st with susp := dictSet st.susp c.cid (jobOfCtr w k c) }) s = { s with susp := setAll s.susp (cs.map (fun c => (c.cid, jobOfCtr w k c))) } := by
    intro k cs
    induction cs with
    | nil => intro s; rfl
    | cons c cs ih => intro s; simp only [List.foldl_cons, List.map_cons]; rw [ih]; rfl
  have outer : ∀ (ks : List Nat) (s : St),
      ks.foldl (fun st k => (w.pools.getD k default).suspending.foldl (fun st c => { st with susp := dictSet st.susp c.cid (jobOfCtr w k c) }) st) s =
      { s with susp := setAll s.susp (ks.flatMap (fun k => (w.pools.getD k default).suspending.map (fun c => (c.cid, jobOfCtr w k c)))) } := by
    intro ks
    induction ks with
    | nil => intro s; rfl
    | cons k ks ih =>
      intro s
      simp only [List.foldl_cons, List.flatMap_cons]
      rw [inner, ih, setAll_append]
  exact outer _ st

theorem mem_noteList {w : World} {x : Nat × Job} (h : x ∈ noteList w) :
    ∃ k c, w.pools[k]? = some (w.pools.getD k default) ∧ c ∈ (w.pools.getD k default).suspending ∧ x = (c.cid, jobOfCtr w k c) := by
  unfold noteList at h
  obtain ⟨k, hk, hx⟩ := List.mem_flatMap.mp h
  obtain ⟨c, hc, e⟩ := List.mem_map.mp hx
  have hlt : k < w.pools.length := List.mem_range.mp hk
  refine ⟨k, c, ?_, hc, e.symm⟩
  rw [List.getD_eq_getElem?_getD, List.getElem?_eq_getElem hlt]; rfl

theorem noteList_keys (w : World) : (noteList w).map (·.1) = (List.range w.pools.length).flatMap (fun k => cids (w.pools.getD k default).suspending) := by
  unfold noteList
  rw [List.map_flatMap]
  congr 1
  funext k
  simp [cids, List.map_map, Function.comp_def]

/-! ### re-queueing the work of containers whose write-out has ended -/

/-- the step of `prRequeueSuspended` for one container of a suspended list -/
def rqStep (st : St) (c : Ctr) : St :=
  match st.susp.find? (·.1 == c.cid) with
  | some (_, job) => ({ st with susp := st.susp.filter (·.1 != c.cid) }).push job job.prio
  | none => st

def allSuspended (w : World) : List Ctr := (List.range w.pools.length).flatMap (fun k => (w.pools.getD k default).suspended)

theorem prRequeueSuspended_eq (w : World) (st : St) : prRequeueSuspended w st = (allSuspended w).foldl rqStep st := by
  unfold prRequeueSuspended allSuspended
  rw [List.foldl_flatMap]
  rfl

/-- the jobs of `s.jobs` do not depend on the dictionary -/
theorem jobs_with_susp (s : St) (d : List (Nat × Job)) : ({ s with susp := d } : St).jobs = s.jobs := rfl

/-- **re-queueing never hurts the queues**: every container of a suspended list that still has a remembered job gets it queued — once — and that job is its
whole unfinished suffix, PENDING again; containers without a remembered job are passed over -/
theorem requeue_ok (w : World) (s0 : St) (Q0 : List Nat) :
    ∀ (L proc : List Ctr) (s : St), (cids (proc ++ L)).Nodup →
    (∀ c ∈ proc ++ L, ∀ job, (c.cid, job) ∈ s0.susp → JobOKm w job ∧ WholeOps w.pipes w.store job.ops ∧ job.ops = c.unfinished ∧ ∀ o ∈ c.unfinished, o ∉ Q0) →
    (∀ c1 ∈ proc ++ L, ∀ c2 ∈ proc ++ L, c1.cid ≠ c2.cid → (∃ j, (c1.cid, j) ∈ s0.susp) → (∃ j, (c2.cid, j) ∈ s0.susp) → ∀ o ∈ c1.unfinished, o ∉ c2.unfinished) →
    JobsOKm w s.jobs → JobsWhole w s.jobs → (s.susp.map (·.1)).Nodup → (∀ x ∈ s.susp, x ∈ s0.susp) →
    (∀ x ∈ s0.susp, x.1 ∉ cids proc → x ∈ s.susp) → (∀ c ∈ proc, c.cid ∉ s.susp.map (·.1)) →
    (∀ o ∈ s.jobs.flatMap (·.ops), o ∈ Q0 ∨ ∃ c ∈ proc, (∃ j, (c.cid, j) ∈ s0.susp) ∧ o ∈ c.unfinished) →
    JobsOKm w (L.foldl rqStep s).jobs ∧ JobsWhole w (L.foldl rqStep s).jobs ∧ ((L.foldl rqStep s).susp.map (·.1)).Nodup ∧
    (∀ x ∈ (L.foldl rqStep s).susp, x ∈ s0.susp) ∧ (∀ c ∈ proc ++ L, c.cid ∉ (L.foldl rqStep s).susp.map (·.1)) ∧
    (∀ x ∈ s0.susp, x.1 ∉ cids (proc ++ L) → x ∈ (L.foldl rqStep s).susp) ∧
    (∀ o ∈ (L.foldl rqStep s).jobs.flatMap (·.ops), o ∈ Q0 ∨ ∃ c ∈ proc ++ L, (∃ j, (c.cid, j) ∈ s0.susp) ∧ o ∈ c.unfinished) := by
  intro L
  induction L with
  | nil =>
    intro proc s _ _ _ h1 h2 h3 h4 h5 h6 h7
    simp only [List.foldl_nil, List.append_nil]
    exact ⟨h1, h2, h3, h4, h6, h5, h7⟩
  | cons c L ih =>
    intro proc s hcn hH hdis h1 h2 h3 h4 h5 h6 h7
    simp only [List.foldl_cons]
    have hassoc : proc ++ c :: L = (proc ++ [c]) ++ L := by simp
    have hcnot : c.cid ∉ cids proc := by
      rw [cids_append, cids_cons] at hcn
      have := (List.nodup_append.mp hcn).2.2
      intro hx
      exact this c.cid hx c.cid (by simp) rfl
    -- what the step does
    have hstep : JobsOKm w (rqStep s c).jobs ∧ JobsWhole w (rqStep s c).jobs ∧ ((rqStep s c).susp.map (·.1)).Nodup ∧
        (∀ x ∈ (rqStep s c).susp, x ∈ s0.susp) ∧ (∀ x ∈ s0.susp, x.1 ∉ cids (proc ++ [c]) → x ∈ (rqStep s c).susp) ∧
        (∀ d ∈ proc ++ [c], d.cid ∉ (rqStep s c).susp.map (·.1)) ∧
        (∀ o ∈ (rqStep s c).jobs.flatMap (·.ops), o ∈ Q0 ∨ ∃ d ∈ proc ++ [c], (∃ j, (d.cid, j) ∈ s0.susp) ∧ o ∈ d.unfinished) := by
      unfold rqStep
      cases hf : s.susp.find? (·.1 == c.cid) with
      | none =>
        simp only
        have hnk : c.cid ∉ s.susp.map (·.1) := by
          intro hx
          obtain ⟨y, hy, e⟩ := List.mem_map.mp hx
          have := List.find?_eq_none.mp hf y hy
          simp [e] at this
        refine ⟨h1, h2, h3, h4, fun x hx hn => h5 x hx (fun hc => hn (by rw [cids_append]; exact List.mem_append_left _ hc)), ?_, ?_⟩
        · intro d hd
          rcases List.mem_append.mp hd with hd | hd
          · exact h6 d hd
          · simp at hd; subst hd; exact hnk
        · intro o ho
          rcases h7 o ho with h | ⟨d, hd, he, ho'⟩
          · exact Or.inl h
          · exact Or.inr ⟨d, List.mem_append_left _ hd, he, ho'⟩
      | some x =>
        obtain ⟨k, job⟩ := x
        simp only
        have hmem : (k, job) ∈ s.susp := List.mem_of_find?_eq_some hf
        have hk : k = c.cid := by have := List.find?_some hf; simpa using this
        subst hk
        obtain ⟨jok, jwh, jops, jq⟩ := hH c (by simp) job (h4 _ hmem)
        have hnew : ∀ o ∈ job.ops, o ∉ ({ s with susp := s.susp.filter (·.1 != c.cid) } : St).jobs.flatMap (·.ops) := by
          intro o ho hx
          rw [jobs_with_susp] at hx
          rw [jops] at ho
          rcases h7 o hx with h | ⟨d, hd, he, ho'⟩
          · exact jq o ho h
          · have hne : c.cid ≠ d.cid := fun e => hcnot (by rw [e]; exact List.mem_map_of_mem hd)
            exact hdis c (by simp) d (List.mem_append_left _ hd) hne ⟨job, h4 _ hmem⟩ he o ho ho'
        refine ⟨jobsOKm_push _ (by rw [jobs_with_susp]; exact h1) jok hnew, jobsWhole_push _ (by rw [jobs_with_susp]; exact h2) jwh, ?_, ?_, ?_, ?_, ?_⟩
        · rw [push_susp]
          exact (List.Sublist.map _ List.filter_sublist).nodup h3
        · intro x hx
          rw [push_susp] at hx
          exact h4 x (List.mem_filter.mp hx).1
        · intro x hx hn
          rw [push_susp]
          rw [cids_append, cids_cons, cids_nil, List.mem_append, not_or] at hn
          exact List.mem_filter.mpr ⟨h5 x hx hn.1, by simpa using fun e => hn.2 (by simp [e])⟩
        · intro d hd
          rw [push_susp]
          rcases List.mem_append.mp hd with hd | hd
          · intro hx
            obtain ⟨y, hy, e⟩ := List.mem_map.mp hx
            exact h6 d hd (List.mem_map.mpr ⟨y, (List.mem_filter.mp hy).1, e⟩)
          · simp at hd; subst hd
            intro hx
            obtain ⟨y, hy, e⟩ := List.mem_map.mp hx
            have := (List.mem_filter.mp hy).2
            simp [e] at this
        · intro o ho
          rcases List.mem_append.mp ((push_ops_perm _ _ _).mem_iff.mp ho) with h | h
          · rw [jobs_with_susp] at h
            rcases h7 o h with h' | ⟨d, hd, he, ho'⟩
            · exact Or.inl h'
            · exact Or.inr ⟨d, List.mem_append_left _ hd, he, ho'⟩
          · exact Or.inr ⟨c, by simp, ⟨job, h4 _ hmem⟩, by rw [← jops]; exact h⟩
    obtain ⟨a1, a2, a3, a4, a5, a6, a7⟩ := hstep
    have := ih (proc ++ [c]) (rqStep s c) (by rw [← hassoc]; exact hcn) (by rw [← hassoc]; exact hH) (by rw [← hassoc]; exact hdis) a1 a2 a3 a4 a5 a6 a7
    rw [← hassoc] at this
    exact this

/-! ### one queue run, multi-operator jobs -/

theorem prQueue_runM (q : Nat) (hq : 0 < q) : ∀ (jobs : List Job) (w : World) (sn : List Snap) (k : Nat) (acc : List Asg),
    (jobs.flatMap (·.ops)).Nodup → (∀ j ∈ jobs, JobOKm w j) → sn.length = w.pools.length → C08.NonNegS sn →
    ∃ w' sn' k' m new, prQueue q w jobs sn k acc = .ok (w', sn', k', acc ++ new) ∧ k' = k + m ∧ m ≤ jobs.length ∧ Built w new w' ∧
      C08.NonNegS sn' ∧ sn'.length = sn.length ∧
      (∀ a ∈ new, a.pool < w.pools.length ∧ ∃ j ∈ jobs.take m, a.ops = j.ops) := by
  intro jobs
  induction jobs with
  | nil =>
    intro w sn k acc _ _ _ hn
    exact ⟨w, sn, k, 0, [], by simp [prQueue], rfl, by simp, .nil _, hn, rfl, by simp⟩
  | cons job rest ih =>
    intro w sn k acc hnd hok hlen hn
    have hndr : (rest.flatMap (·.ops)).Nodup := by
      rw [List.flatMap_cons, List.nodup_append] at hnd; exact hnd.2.1
    unfold prQueue
    cases hb : bestPool sn with
    | none =>
      simp only
      exact ⟨w, sn, k, 0, [], by simp, rfl, by simp, .nil _, hn, rfl, by simp⟩
    | some pool =>
      simp only
      obtain ⟨hp, hopen, _⟩ := C12.bestPool_spec sn pool hb
      cases hsz : prSize q (sn.getD pool default) job with
      | none =>
        simp only
        obtain ⟨w', sn', k', m, new, e1, e2, e3, e4, e5, e6, e7⟩ := ih w sn (k + 1) acc hndr (fun j hj => hok j (List.mem_cons_of_mem _ hj)) hlen hn
        refine ⟨w', sn', k', m + 1, new, e1, by omega, by simp; omega, e4, e5, e6, ?_⟩
        intro a ha
        obtain ⟨a1, j, hj, a2⟩ := e7 a ha
        exact ⟨a1, j, by simp only [List.take_succ_cons]; exact List.mem_cons_of_mem _ hj, a2⟩
      | some sz =>
        obtain ⟨jc, jr⟩ := sz
        simp only
        have hj := hok job (by simp)
        obtain ⟨pc, pr⟩ := prSize_pos q hq _ job jc jr hopen.1 hopen.2 hj.retry hsz
        obtain ⟨fc, fr⟩ := C08.prSize_fits q _ job jc jr hopen.1 hopen.2 hsz
        obtain ⟨w1, hw1⟩ := mkAssignment_succeeds w { ops := job.ops, cpu := jc, ram := jr, prio := job.prio, pool := pool }
          hj.ne pc pr hj.nd (fun x hx => ⟨(hj.ok x hx).1, (hj.ok x hx).2.1⟩)
        have hmk : mkA w job.ops jc jr job.prio pool = .ok (w1, { ops := job.ops, cpu := jc, ram := jr, prio := job.prio, pool := pool }) := by
          unfold mkA; rw [hw1]
        rw [hmk]
        simp only
        obtain ⟨_, _, _, _, _, m6⟩ := mkAssignment_spec hw1
        have hst1 : Steps w.store w1.store := mkAssignment_steps_ok hw1
        obtain ⟨hp1, _, _⟩ := mkAssignment_pools_ok hw1
        have hdisj : ∀ j ∈ rest, ∀ x ∈ j.ops, x ∉ job.ops := by
          intro j hj' x hx hc
          rw [List.flatMap_cons, List.nodup_append] at hnd
          exact hnd.2.2 x hc x (List.mem_flatMap.mpr ⟨j, hj', hx⟩) rfl
        obtain ⟨w', sn', k', m, new, e1, e2, e3, e4, e5, e6, e7⟩ := ih w1 (snapSub sn pool jc jr) (k + 1)
          (acc ++ [{ ops := job.ops, cpu := jc, ram := jr, prio := job.prio, pool := pool }]) hndr
          (fun j hj' => jobOKm_keep hst1 (fun x hx => m6 x (hdisj j hj' x hx)) (hok j (List.mem_cons_of_mem _ hj')))
          (by rw [snapSub_length, hp1]; exact hlen) (C08.snapSub_nonneg sn pool jc jr hn fc fr)
        refine ⟨w', sn', k', m + 1, { ops := job.ops, cpu := jc, ram := jr, prio := job.prio, pool := pool } :: new, ?_, by omega, by simp; omega,
          .cons hw1 e4, e5, by rw [e6, snapSub_length], ?_⟩
        · rw [e1]; simp
        · intro a ha
          rcases List.mem_cons.mp ha with rfl | ha
          · exact ⟨by rw [← hlen]; exact hp, job, by simp, rfl⟩
          · obtain ⟨a1, j, hj', a2⟩ := e7 a ha
            exact ⟨by rw [← hp1]; exact a1, j, by simp only [List.take_succ_cons]; exact List.mem_cons_of_mem _ hj', a2⟩

/-! ### the pre-emption scan names every container at most once -/

theorem getD_set_list (l : List (List Ctr)) (k i : Nat) (v : List Ctr) :
    (l.set k v).getD i [] = if i = k ∧ k < l.length then v else l.getD i [] := by
  rw [List.getD_eq_getElem?_getD, List.getD_eq_getElem?_getD]
  by_cases hik : i = k
  · subst hik
    by_cases hlt : i < l.length
    · simp [List.getElem?_set_self hlt, hlt]
    · have : l.set i v = l := List.set_eq_of_length_le (by omega)
      simp [this, hlt]
  · rw [List.getElem?_set_ne (Ne.symm hik)]
    simp [hik]

theorem prSuspend_go_nodup (pools : List (List Ctr)) (need n : Nat) (hcn : ∀ i, (cids (pools.getD i [])).Nodup) :
    ∀ (fuel : Nat) (iters : List (List Ctr)) (exh : List Bool) (pid cnt : Nat) (acc : List (Nat × Nat)),
    (∀ i, iters.getD i [] <:+ pools.getD i []) → acc.Nodup → (∀ x ∈ acc, x.2 ∉ cids (iters.getD x.1 [])) →
    (prSuspend.go need n fuel iters exh pid cnt acc).Nodup := by
  intro fuel
  induction fuel with
  | zero => intro iters exh pid cnt acc _ h _; simp only [prSuspend.go]; exact h
  | succ f ih =>
    intro iters exh pid cnt acc hsuf hnd hpast
    unfold prSuspend.go
    split
    · exact hnd
    · split
      · exact hnd
      · simp only
        have hdw : (iters.getD pid []).dropWhile (fun c => c.prio == prioQuery) <:+ iters.getD pid [] := List.dropWhile_suffix _
        -- replacing the iterator of `pid` by a suffix of itself keeps both invariants
        have keep : ∀ (v : List Ctr), v <:+ iters.getD pid [] →
            (∀ i, (iters.set pid v).getD i [] <:+ pools.getD i []) ∧ ∀ x ∈ acc, x.2 ∉ cids ((iters.set pid v).getD x.1 []) := by
          intro v hv
          refine ⟨fun i => ?_, fun x hx => ?_⟩
          · rw [getD_set_list]
            split
            · rename_i h; rw [h.1]; exact hv.trans (hsuf pid)
            · exact hsuf i
          · rw [getD_set_list]
            split
            · rename_i h
              intro hin
              apply hpast x hx
              rw [h.1]
              exact (List.Sublist.map _ hv.sublist).subset hin
            · exact hpast x hx
        split
        · obtain ⟨k1, k2⟩ := keep [] List.nil_suffix
          exact ih _ _ _ _ _ k1 hnd k2
        · rename_i c more hit
          have hcm : (c :: more) <:+ iters.getD pid [] := by rw [← hit]; exact hdw
          have hmore : more <:+ iters.getD pid [] := (List.suffix_cons c more).trans hcm
          obtain ⟨k1, k2⟩ := keep more hmore
          split
          · -- picked
            have hcin : c.cid ∈ cids (iters.getD pid []) := (List.Sublist.map _ hcm.sublist).subset (by simp)
            have hnew : (pid, c.cid) ∉ acc := fun hx => hpast _ hx hcin
            have hndsuf : (cids (c :: more)).Nodup := (List.Sublist.map _ (hcm.trans (hsuf pid)).sublist).nodup (hcn pid)
            apply ih _ _ _ _ _ k1
            · rw [List.nodup_append]
              exact ⟨hnd, by simp, fun a ha b hb e => by simp at hb; subst hb; subst e; exact hnew ha⟩
            · intro x hx
              rcases List.mem_append.mp hx with hx | hx
              · exact k2 x hx
              · simp at hx; subst hx
                simp only
                rw [getD_set_list]
                split
                · simp only [cids_cons, List.nodup_cons] at hndsuf
                  exact hndsuf.1
                · rename_i hno
                  -- `pid` is out of range: the iterator there is empty, impossible since it holds `c`
                  exfalso
                  have : iters.getD pid [] = [] := by
                    rw [List.getD_eq_getElem?_getD]
                    have hlt : ¬ pid < iters.length := fun h => hno ⟨rfl, h⟩
                    rw [List.getElem?_eq_none (by omega)]; rfl
                  rw [this] at hcm
                  have := hcm.sublist.length_le
                  simp at this
          · exact ih _ _ _ _ _ k1 hnd k2

theorem prSuspend_nodup (pools : List (List Ctr)) (need : Nat) (hcn : ∀ i, (cids (pools.getD i [])).Nodup) : (prSuspend pools need).Nodup := by
  unfold prSuspend
  simp only
  split
  · exact List.nodup_nil
  · exact prSuspend_go_nodup pools need pools.length hcn _ pools _ 0 0 [] (fun i => List.suffix_refl _) List.nodup_nil (by simp)

theorem filter_map_snd_nodup (sus : List (Nat × Nat)) (h : sus.Nodup) (i : Nat) : ((sus.filter (·.1 == i)).map (·.2)).Nodup := by
  induction sus with
  | nil => simp
  | cons x xs ih =>
    simp only [List.nodup_cons] at h
    rw [List.filter_cons]
    split
    · rename_i hx
      simp only [List.map_cons, List.nodup_cons]
      refine ⟨fun hin => ?_, ih h.2⟩
      obtain ⟨y, hy, e⟩ := List.mem_map.mp hin
      obtain ⟨hy1, hy2⟩ := List.mem_filter.mp hy
      have : y = x := by
        have h1 : y.1 = i := by simpa using hy2
        have h2 : x.1 = i := by simpa using hx
        exact Prod.ext (by rw [h1, h2]) e
      exact h.1 (this ▸ hy1)
    · exact ih h.2

/-! ### small facts used by the round -/

theorem mem_dedupAppend {l : List Nat} {x y : Nat} (h : y ∈ dedupAppend l x) : y ∈ l ∨ y = x := by
  unfold dedupAppend at h
  split at h
  · exact Or.inl h
  · rcases List.mem_append.mp h with h | h
    · exact Or.inl h
    · simp at h; exact Or.inr h

theorem mem_prTouched (w : World) (results : List Res) (newP : List Nat) (pid : Nat) (h : pid ∈ prTouched w results newP) :
    pid ∈ newP ∨ ∃ r ∈ results, ∃ o ∈ r.ops, w.store.pidOf o = pid := by
  unfold prTouched at h
  have inner : ∀ (ops : List Nat) (acc : List Nat), pid ∈ ops.foldl (fun acc o => dedupAppend acc (w.store.pidOf o)) acc →
      pid ∈ acc ∨ ∃ o ∈ ops, w.store.pidOf o = pid := by
    intro ops
    induction ops with
    | nil => intro acc h; exact Or.inl h
    | cons o os ih =>
      intro acc h
      simp only [List.foldl_cons] at h
      rcases ih _ h with h1 | ⟨o', ho', e⟩
      · rcases mem_dedupAppend h1 with h2 | h2
        · exact Or.inl h2
        · exact Or.inr ⟨o, by simp, h2.symm⟩
      · exact Or.inr ⟨o', List.mem_cons_of_mem _ ho', e⟩
  have outer : ∀ (rs : List Res) (acc : List Nat), pid ∈ rs.foldl (fun acc r => r.ops.foldl (fun acc o => dedupAppend acc (w.store.pidOf o)) acc) acc →
      pid ∈ acc ∨ ∃ r ∈ rs, ∃ o ∈ r.ops, w.store.pidOf o = pid := by
    intro rs
    induction rs with
    | nil => intro acc h; exact Or.inl h
    | cons r rs ih =>
      intro acc h
      simp only [List.foldl_cons] at h
      rcases ih _ h with h1 | ⟨r', hr', x⟩
      · rcases inner r.ops acc h1 with h2 | ⟨o, ho, e⟩
        · exact Or.inl h2
        · exact Or.inr ⟨r, by simp, o, ho, e⟩
      · exact Or.inr ⟨r', List.mem_cons_of_mem _ hr', x⟩
  exact outer results newP h

theorem range_getD_flatMap {β : Type} (l : List Pool) (f : Pool → List β) :
    (List.range l.length).flatMap (fun k => f (l.getD k default)) = l.flatMap f := by
  induction l with
  | nil => rfl
  | cons p ps ih =>
    rw [List.length_cons, List.range_succ_eq_map, List.flatMap_cons, List.flatMap_cons, List.flatMap_map]
    simp only [List.getD_cons_zero, List.getD_cons_succ, Function.comp_def]
    rw [ih]

theorem allSuspended_eq (w : World) : allSuspended w = w.pools.flatMap (·.suspended) := by
  unfold allSuspended; exact range_getD_flatMap w.pools (·.suspended)

/-- the job remembered for a container that is not finished and whose unfinished operators are all busy: its unfinished suffix, with its allocation -/
theorem jobOfCtr_ops (w : World) (k : Nat) (c : Ctr) (f : Fin w.store c) (hb : ∀ o ∈ c.unfinished, Busy (w.store.stOf o)) :
    (jobOfCtr w k c).ops = c.unfinished ∧ (jobOfCtr w k c).retry = some { oldRam := c.ram, oldCpu := c.cpu, hasErr := c.err, cid := c.cid, pool := k } := by
  refine ⟨?_, rfl⟩
  show nonCompleted w c.ops = c.unfinished
  unfold nonCompleted
  conv => lhs; rw [← List.take_append_drop c.curOpIdx c.ops]
  rw [List.filter_append]
  have h1 : (c.ops.take c.curOpIdx).filter (fun r => w.store.stOf r != completed) = [] := by
    rw [List.filter_eq_nil_iff]
    intro o ho
    simp [f.pre o ho]
  have h2 : (c.ops.drop c.curOpIdx).filter (fun r => w.store.stOf r != completed) = c.ops.drop c.curOpIdx := by
    rw [List.filter_eq_self]
    intro o ho
    rcases hb o ho with e | e | e <;> simp [e]
  rw [h1, h2]; rfl

/-! ### the invariant of the closed loop -/

/-- the static facts about a container the scheduler relies on: good operators (`Good`) that are all the unfinished work of one pipeline -/
def GoodW (F : List Nat) (pipes : Array PipeInfo) (s : Store) (c : Ctr) : Prop := PP.Good F s c ∧ WholeOps pipes s c.ops

theorem goodW_mono {F F' : List Nat} {pipes : Array PipeInfo} {s s' : Store} {c : Ctr} (h : GoodW F pipes s c) (hs : Steps s s') (hF : ∀ x ∈ F', x ∈ F) :
    GoodW F' pipes s' c := ⟨PP.good_mono h.1 hs hF, wholeOps_mono h.2 hs⟩

theorem goodW_of_same {F : List Nat} {pipes : Array PipeInfo} {s : Store} {c c' : Ctr} (ho : c'.ops = c.ops) (hk : key c' = key c) (h : GoodW F pipes s c) :
    GoodW F pipes s c' := ⟨PP.good_of_same ho hk h.1, by rw [ho]; exact h.2⟩

theorem goodW_same {F : List Nat} {pipes : Array PipeInfo} {s : Store} {c c' : Ctr} (hs : Same c c') (h : GoodW F pipes s c) : GoodW F pipes s c' :=
  goodW_of_same hs.2.1 (by unfold key; rw [hs.1, hs.2.2.2.1, hs.2.2.2.2.1]) h

theorem goodW_kept (cfg : Cfg) (F : List Nat) (pipes : Array PipeInfo) (s : Store) : Kept cfg (GoodW F pipes s) :=
  ⟨fun _ _ _ _ _ _ h hc => goodW_of_same (tick_ops h) (tick_key h) hc,
   fun w c cons w' c' cons' h hc => goodW_of_same (kill_live w c cons w' c' cons' h).1 (kill_key h) hc⟩

/-- everything the closed loop of `priority` with multi-operator containers keeps true from tick to tick.  `cs`: the containers behind the results the
scheduler is about to be handed; `js`: the containers whose write-out ended in the last tick; `F`: the pipelines still to arrive -/
structure PMInv (w : World) (st : St) (cs js : List Ctr) (F : List Nat) : Prop where
  ready : WorldReady w
  wfp : w.WFP
  segs : w.SegsOK
  pid : w.PidOK
  topo : w.Topo
  fins : w.FinS
  cids : w.CidsOK
  multi : w.cfg.multiOp = true
  over : w.cfg.overcommit = false
  q : 0 < w.cfg.q
  jobs : JobsOKm w st.jobs
  whole : JobsWhole w st.jobs
  jobsF : ∀ o ∈ st.jobs.flatMap (·.ops), w.store.pidOf o ∉ F
  fnd : F.Nodup
  fut : ∀ pid ∈ F, (w.pipes.getD pid default).order ≠ [] ∧ ∀ o ∈ (w.pipes.getD pid default).order, w.store.stOf o = pending
  goodA : ∀ p ∈ w.pools, AllC (GoodW F w.pipes w.store) p.active
  goodS : ∀ p ∈ w.pools, AllC (GoodW F w.pipes w.store) p.suspending
  sne : ∀ p ∈ w.pools, ∀ c ∈ p.suspending, c.unfinished ≠ []
  res : ∀ c ∈ cs, Fin w.store c ∧ c.completed = true ∧ GoodW F w.pipes w.store c
  park : ∀ c ∈ js, Fin w.store c ∧ c.completed = false ∧ Parked w.store c ∧ GoodW F w.pipes w.store c ∧ c.unfinished ≠ [] ∧ ∃ p ∈ w.pools, c ∈ p.suspended
  nd : (allUnf cs ++ allUnf js).Nodup
  resq : ∀ o ∈ allUnf cs ++ allUnf js, o ∉ st.jobs.flatMap (·.ops)
  keys : (st.susp.map (·.1)).Nodup
  nold : ∀ p ∈ w.pools, ∀ c ∈ p.suspended, c ∉ js → c.cid ∉ st.susp.map (·.1)
  ent : ∀ x ∈ st.susp, ∀ c, (c ∈ js ∨ ∃ p ∈ w.pools, c ∈ p.suspending) → c.cid = x.1 →
    x.2.ops = c.unfinished ∧ ∀ rs, x.2.retry = some rs → 0 < rs.oldCpu ∧ 0 < rs.oldRam
  has : ∀ c ∈ js, c.cid ∈ st.susp.map (·.1)

/-! ### the round, step by step -/

/-- every pipeline `prEnqueue` looks at is quiet: it has just arrived, or the container that held all its unfinished work has just ended -/
theorem quiet_touched (w : World) (st : St) (cs js : List Ctr) (newP F : List Nat) (inv : PMInv w st cs js (newP ++ F)) :
    ∀ pid ∈ prTouched w (cs.map mkRes) newP, QuietP w (st.jobs.flatMap (·.ops)) pid := by
  intro pid hpid o ho
  rcases mem_prTouched w _ newP pid hpid with h | ⟨r, hr, o', ho', e⟩
  · -- a pipeline that has just arrived: untouched, and nothing of it is queued
    right
    obtain ⟨_, hpend⟩ := inv.fut pid (List.mem_append_left _ h)
    refine ⟨by rw [hpend o ho]; simp [assignable], fun hin => inv.jobsF o hin ?_⟩
    rw [inv.pid pid o ho]; exact List.mem_append_left _ h
  · obtain ⟨c, hc, rfl⟩ := List.mem_map.mp hr
    obtain ⟨f, hcc, hg⟩ := inv.res c hc
    obtain ⟨P, hin, hwh⟩ := hg.2
    have hP : P = pid := by rw [← e, inv.pid P o' (hin o' ho')]
    subst hP
    rcases hwh o ho with h | h
    · -- an operator of the container that ended
      by_cases hcomp : w.store.stOf o = completed
      · exact Or.inl hcomp
      · right
        have hunf : o ∈ c.unfinished := by
          rw [← List.take_append_drop c.curOpIdx c.ops] at h
          rcases List.mem_append.mp h with h' | h'
          · exact absurd (f.pre o h') hcomp
          · exact h'
        have herr : c.err = true := by
          cases he : c.err with
          | true => rfl
          | false => have := f.done hcc he; rw [this] at hunf; cases hunf
        refine ⟨by rw [(f.dead hcc herr).2 o hunf]; simp [assignable], ?_⟩
        exact inv.resq o (List.mem_append_left _ (mem_allUnf hc hunf))
    · exact Or.inl h

theorem noteList_keys' (w : World) : (noteList w).map (·.1) = cids (w.pools.flatMap (·.suspending)) := by
  rw [noteList_keys]
  have := range_getD_flatMap w.pools (fun p => cids p.suspending)
  rw [this]
  simp [cids, List.map_flatMap]

/-- **remembering the containers that are being written out, then re-queueing the work of those whose write-out has ended**: the queues stay good; only the
containers that ended their write-out in the last tick (`js`) are re-queued, each with its whole unfinished suffix; afterwards no container of a suspended list
has a remembered job, and every container still being written out has a fresh one -/
theorem note_requeue_ok (w : World) (st : St) (cs js : List Ctr) (newP F : List Nat) (inv : PMInv w st cs js (newP ++ F)) (sa : St)
    (hja : JobsOKm w sa.jobs) (hwa : JobsWhole w sa.jobs) (hsa : sa.susp = st.susp)
    (horig : ∀ o ∈ sa.jobs.flatMap (·.ops), o ∈ st.jobs.flatMap (·.ops) ∨ w.store.pidOf o ∈ prTouched w (cs.map mkRes) newP) :
    JobsOKm w (prRequeueSuspended w (prNoteSuspending w sa)).jobs ∧ JobsWhole w (prRequeueSuspended w (prNoteSuspending w sa)).jobs ∧
    ((prRequeueSuspended w (prNoteSuspending w sa)).susp.map (·.1)).Nodup ∧
    (∀ c ∈ allSuspended w, c.cid ∉ (prRequeueSuspended w (prNoteSuspending w sa)).susp.map (·.1)) ∧
    (∀ x ∈ (prRequeueSuspended w (prNoteSuspending w sa)).susp, x ∈ st.susp ∨ x ∈ noteList w) ∧
    (∀ x ∈ noteList w, x ∈ (prRequeueSuspended w (prNoteSuspending w sa)).susp) ∧
    (∀ o ∈ (prRequeueSuspended w (prNoteSuspending w sa)).jobs.flatMap (·.ops), o ∈ sa.jobs.flatMap (·.ops) ∨ ∃ c ∈ js, o ∈ c.unfinished) := by
  obtain ⟨cS, cD, _, cDS, _⟩ := cidsOK_facts inv.cids
  rw [prNoteSuspending_eq, prRequeueSuspended_eq]
  have hk0 : (sa.susp.map (·.1)).Nodup := by rw [hsa]; exact inv.keys
  obtain ⟨n1, n2, n3, n4⟩ := setAll_spec (noteList w) sa.susp hk0
  have hnk : (noteList w).map (·.1) = cids (w.pools.flatMap (·.suspending)) := noteList_keys' w
  have hLD : cids (allSuspended w) = cids (w.pools.flatMap (·.suspended)) := by rw [allSuspended_eq]
  have hmemD : ∀ c ∈ allSuspended w, ∃ p ∈ w.pools, c ∈ p.suspended := by
    intro c hc; rw [allSuspended_eq] at hc; exact List.mem_flatMap.mp hc
  -- a container of a suspended list that has a remembered job is one of `js`, and the job is the one remembered before
  have hentry : ∀ c ∈ allSuspended w, ∀ job, (c.cid, job) ∈ setAll sa.susp (noteList w) → c ∈ js ∧ (c.cid, job) ∈ st.susp := by
    intro c hc job hx
    have hcD : c.cid ∈ cids (w.pools.flatMap (·.suspended)) := by rw [← hLD]; exact List.mem_map_of_mem hc
    rcases n2 _ hx with ⟨h1, _⟩ | h1
    · rw [hsa] at h1
      refine ⟨?_, h1⟩
      apply Classical.byContradiction
      intro hnj
      obtain ⟨p, hp, hcp⟩ := hmemD c hc
      exact inv.nold p hp c hcp hnj (List.mem_map.mpr ⟨_, h1, rfl⟩)
    · exfalso
      have : c.cid ∈ (noteList w).map (·.1) := List.mem_map.mpr ⟨_, h1, rfl⟩
      rw [hnk] at this
      exact (cDS c.cid hcD).1 this
  have hH : ∀ c ∈ [] ++ allSuspended w, ∀ job, (c.cid, job) ∈ ({ sa with susp := setAll sa.susp (noteList w) } : St).susp →
      JobOKm w job ∧ WholeOps w.pipes w.store job.ops ∧ job.ops = c.unfinished ∧ ∀ o ∈ c.unfinished, o ∉ sa.jobs.flatMap (·.ops) := by
    intro c hc job hx
    simp only [List.nil_append] at hc
    obtain ⟨hcj, hxs⟩ := hentry c hc job hx
    obtain ⟨f, hcc, hpk, hg, hne, _⟩ := inv.park c hcj
    obtain ⟨eops, eret⟩ := inv.ent _ hxs c (Or.inl hcj) rfl
    simp only at eops eret
    obtain ⟨g1, g2, g3, g4, g5⟩ := hg.1
    have hsub : ∀ x ∈ c.unfinished, x ∈ c.ops := fun x hx' => (List.drop_sublist _ _).subset hx'
    refine ⟨⟨by rw [eops]; exact hne, by rw [eops]; exact unfinished_nodup g1, fun x hx' => ?_, by rw [eops]; exact parentsOK_drop g3 c.curOpIdx f.pre, eret⟩,
      by rw [eops]; exact wholeOps_drop hg.2 c.curOpIdx f.pre, eops, fun o ho hin => ?_⟩
    · rw [eops] at hx'
      exact ⟨(g2 x (hsub x hx')).1, by rw [hpk x hx']; simp [assignable], (g2 x (hsub x hx')).2.1⟩
    · -- the operators of a container that has just ended its write-out are in no queue
      rcases horig o hin with h | h
      · exact inv.resq o (List.mem_append_right _ (mem_allUnf hcj ho)) h
      · rcases mem_prTouched w _ newP _ h with h' | ⟨r, hr, o', ho', e⟩
        · exact (g2 o (hsub o ho)).2.2 (List.mem_append_left _ h')
        · obtain ⟨c', hc', rfl⟩ := List.mem_map.mp hr
          obtain ⟨f', hcc', hg'⟩ := inv.res c' hc'
          obtain ⟨P', hin', hwh'⟩ := hg'.2
          obtain ⟨P, hinP, _⟩ := hg.2
          have e1 : w.store.pidOf o = P := inv.pid P o (hinP o (hsub o ho))
          have e2 : w.store.pidOf o' = P' := inv.pid P' o' (hin' o' ho')
          have hPP : P = P' := by rw [← e1, ← e2, e]
          have hoP' : o ∈ (w.pipes.getD P' default).order := by rw [← hPP]; exact hinP o (hsub o ho)
          rcases hwh' o hoP' with h2 | h2
          · have hunf' : o ∈ c'.unfinished := by
              rw [← List.take_append_drop c'.curOpIdx c'.ops] at h2
              rcases List.mem_append.mp h2 with h3 | h3
              · have := f'.pre o h3; rw [hpk o ho] at this; cases this
              · exact h3
            exact (List.nodup_append.mp inv.nd).2.2 o (mem_allUnf hc' hunf') o (mem_allUnf hcj ho) rfl
          · rw [hpk o ho] at h2; cases h2
  have hdis : ∀ c1 ∈ [] ++ allSuspended w, ∀ c2 ∈ [] ++ allSuspended w, c1.cid ≠ c2.cid →
      (∃ j, (c1.cid, j) ∈ ({ sa with susp := setAll sa.susp (noteList w) } : St).susp) →
      (∃ j, (c2.cid, j) ∈ ({ sa with susp := setAll sa.susp (noteList w) } : St).susp) → ∀ o ∈ c1.unfinished, o ∉ c2.unfinished := by
    intro c1 hc1 c2 hc2 hne ⟨j1, hj1⟩ ⟨j2, hj2⟩ o ho1 ho2
    simp only [List.nil_append] at hc1 hc2
    obtain ⟨hcj1, _⟩ := hentry c1 hc1 j1 hj1
    obtain ⟨hcj2, _⟩ := hentry c2 hc2 j2 hj2
    have hndj : (allUnf js).Nodup := (List.nodup_append.mp inv.nd).2.1
    -- two different containers of `js` share no unfinished operator
    have : ∀ (l : List Ctr), (allUnf l).Nodup → c1 ∈ l → c2 ∈ l → c1 ≠ c2 → False := by
      intro l
      induction l with
      | nil => intro _ h; simp at h
      | cons y ys ih =>
        intro hnd h1 h2 hne'
        rw [allUnf_cons, List.nodup_append] at hnd
        rcases List.mem_cons.mp h1 with rfl | h1' <;> rcases List.mem_cons.mp h2 with rfl | h2'
        · exact hne' rfl
        · exact hnd.2.2 o ho1 o (mem_allUnf h2' ho2) rfl
        · exact hnd.2.2 o ho2 o (mem_allUnf h1' ho1) rfl
        · exact ih hnd.2.1 h1' h2' hne'
    exact this js hndj hcj1 hcj2 (fun e => hne (by rw [e]))
  obtain ⟨r1, r2, r3, r4, r5, r6, r7⟩ := requeue_ok w { sa with susp := setAll sa.susp (noteList w) } (sa.jobs.flatMap (·.ops))
    (allSuspended w) [] { sa with susp := setAll sa.susp (noteList w) } (by simp only [List.nil_append]; rw [hLD]; exact cD) hH hdis
    (by rw [jobs_with_susp]; exact hja) (by rw [jobs_with_susp]; exact hwa) n1 (fun x hx => hx) (fun x hx _ => hx) (by simp)
    (fun o ho => Or.inl (by rw [jobs_with_susp] at ho; exact ho))
  simp only [List.nil_append] at r5 r6 r7
  refine ⟨r1, r2, r3, r5, fun x hx => ?_, fun x hx => ?_, fun o ho => ?_⟩
  · rcases n2 x (r4 x hx) with ⟨h1, _⟩ | h1
    · rw [hsa] at h1; exact Or.inl h1
    · exact Or.inr h1
  · apply r6 x (n4 (by rw [hnk]; exact cS) x hx)
    intro hin
    rw [hLD] at hin
    have : x.1 ∈ (noteList w).map (·.1) := List.mem_map_of_mem hx
    rw [hnk] at this
    exact (cDS x.1 hin).1 this
  · rcases r7 o ho with h | ⟨c, hc, ⟨j, hj⟩, hoc⟩
    · exact Or.inl h
    · exact Or.inr ⟨c, (hentry c hc j hj).1, hoc⟩

/-! ### remembering the work of the containers that are asked to suspend -/

def reqList (w w3 : World) (sus : List (Nat × Nat)) : List (Nat × Job) :=
  sus.filterMap (fun x => (findCtr (w.pools.getD x.1 default).active x.2).map (fun c => (c.cid, jobOfCtr w3 x.1 c)))

theorem requests_eq (w w3 : World) (sus : List (Nat × Nat)) (s : St) :
    sus.foldl (fun (s : St) (x : Nat × Nat) =>
        match findCtr (w.pools.getD x.1 default).active x.2 with
        | some c => { s with susp := dictSet s.susp c.cid (jobOfCtr w3 x.1 c) }
        | none => s) s = { s with susp := setAll s.susp (reqList w w3 sus) } := by
  induction sus generalizing s with
  | nil => rfl
  | cons x xs ih =>
    simp only [List.foldl_cons]
    unfold reqList
    rw [List.filterMap_cons]
    cases hf : findCtr (w.pools.getD x.1 default).active x.2 with
    | none => simp only [Option.map_none]; rw [ih]; rfl
    | some c =>
      simp only [Option.map_some]
      rw [ih]
      show _ = ({ s with susp := setAll s.susp ((c.cid, jobOfCtr w3 x.1 c) :: reqList w w3 xs) } : St)
      rfl

theorem findCtr_cid {l : List Ctr} {k : Nat} {c : Ctr} (h : findCtr l k = some c) : c ∈ l ∧ c.cid = k := by
  unfold findCtr at h
  exact ⟨List.mem_of_find?_eq_some h, by have := List.find?_some h; simpa using this⟩

theorem mem_reqList {w w3 : World} {sus : List (Nat × Nat)} {x : Nat × Job} (h : x ∈ reqList w w3 sus) :
    ∃ y ∈ sus, ∃ c ∈ (w.pools.getD y.1 default).active, c.cid = y.2 ∧ x = (c.cid, jobOfCtr w3 y.1 c) := by
  unfold reqList at h
  obtain ⟨y, hy, e⟩ := List.mem_filterMap.mp h
  cases hf : findCtr (w.pools.getD y.1 default).active y.2 with
  | none => rw [hf] at e; simp at e
  | some c =>
    rw [hf] at e
    simp only [Option.map_some, Option.some.injEq] at e
    obtain ⟨hc, hk⟩ := findCtr_cid hf
    exact ⟨y, hy, c, hc, hk, e.symm⟩

theorem reqList_keys_sub (w w3 : World) (sus : List (Nat × Nat)) : ((reqList w w3 sus).map (·.1)).Sublist (sus.map (·.2)) := by
  induction sus with
  | nil => simp [reqList]
  | cons x xs ih =>
    unfold reqList at ih ⊢
    rw [List.filterMap_cons]
    cases hf : findCtr (w.pools.getD x.1 default).active x.2 with
    | none => simp only [Option.map_none, List.map_cons]; exact ih.trans (List.sublist_cons_self _ _)
    | some c =>
      simp only [Option.map_some, List.map_cons]
      rw [(findCtr_cid hf).2]
      exact List.Sublist.cons_cons _ ih

theorem active_cid_pool : ∀ (pools : List Pool) (k1 k2 : Nat) (c1 c2 : Ctr), (cids (pools.flatMap (·.active))).Nodup →
    c1 ∈ (pools.getD k1 default).active → c2 ∈ (pools.getD k2 default).active → c1.cid = c2.cid → k1 = k2 := by
  intro pools
  induction pools with
  | nil =>
    intro k1 k2 c1 c2 _ h1
    simp [List.getD] at h1
    have e0 : (default : Pool).active = [] := rfl
    rw [e0] at h1; exact absurd h1 List.not_mem_nil
  | cons p ps ih =>
    intro k1 k2 c1 c2 hnd h1 h2 e
    simp only [List.flatMap_cons, cids_append] at hnd
    have hdis := (List.nodup_append.mp hnd).2.2
    have inrest : ∀ (k : Nat) (c : Ctr), c ∈ (ps.getD k default).active → c.cid ∈ cids (ps.flatMap (·.active)) := by
      intro k c hc
      by_cases hk : k < ps.length
      · have : ps.getD k default = ps[k] := by rw [List.getD_eq_getElem?_getD, List.getElem?_eq_getElem hk]; rfl
        rw [this] at hc
        exact List.mem_map_of_mem (List.mem_flatMap.mpr ⟨ps[k], List.getElem_mem hk, hc⟩)
      · have : ps.getD k default = default := by rw [List.getD_eq_getElem?_getD, List.getElem?_eq_none (by omega)]; rfl
        have e0 : (default : Pool).active = [] := rfl
        rw [this, e0] at hc
        exact absurd hc List.not_mem_nil
    cases k1 with
    | zero =>
      cases k2 with
      | zero => rfl
      | succ j =>
        exfalso
        simp only [List.getD_cons_zero] at h1
        simp only [List.getD_cons_succ] at h2
        exact hdis c1.cid (List.mem_map_of_mem h1) c2.cid (inrest j c2 h2) e
    | succ i =>
      cases k2 with
      | zero =>
        exfalso
        simp only [List.getD_cons_zero] at h2
        simp only [List.getD_cons_succ] at h1
        exact hdis c2.cid (List.mem_map_of_mem h2) c1.cid (inrest i c1 h1) e.symm
      | succ j =>
        simp only [List.getD_cons_succ] at h1 h2
        rw [ih i j c1 c2 (List.nodup_append.mp hnd).2.1 h1 h2 e]

/-- the containers a round asks to suspend carry pairwise different numbers -/
theorem sus_snd_nodup (pools : List Pool) (sus : List (Nat × Nat)) (hnd : sus.Nodup) (hca : (cids (pools.flatMap (·.active))).Nodup)
    (hok : ∀ x ∈ sus, ∃ c ∈ (pools.getD x.1 default).active, c.cid = x.2) : (sus.map (·.2)).Nodup := by
  induction sus with
  | nil => simp
  | cons x xs ih =>
    simp only [List.nodup_cons] at hnd
    simp only [List.map_cons, List.nodup_cons]
    refine ⟨fun hin => ?_, ih hnd.2 (fun y hy => hok y (List.mem_cons_of_mem _ hy))⟩
    obtain ⟨y, hy, e⟩ := List.mem_map.mp hin
    obtain ⟨c1, h1, e1⟩ := hok x (by simp)
    obtain ⟨c2, h2, e2⟩ := hok y (List.mem_cons_of_mem _ hy)
    have hk : x.1 = y.1 := active_cid_pool pools x.1 y.1 c1 c2 hca h1 h2 (by rw [e1, e2, e])
    exact hnd.1 (by have : x = y := Prod.ext hk e.symm; rw [this]; exact hy)

/-! ### the three queue runs of one round -/

/-- **the three queue runs of a `priority` round succeed** on good queues (multi-operator jobs): every assignment holds exactly the operators of one job of the
queues, the batches stay within what each pool had free, and what is left in the queues is good again and shares no operator with what was handed out -/
theorem prThree (w : World) (st0 : St) (hq : 0 < w.cfg.q) (hj0 : JobsOKm w st0.jobs) (hnn : ∀ p ∈ w.pools, 0 ≤ p.availC ∧ 0 ≤ p.availR) :
    ∃ w1 w2 w3 sn1 sn2 sn3 m1 m2 m3 new1 new2 new3,
      prQueue w.cfg.q w st0.qry (snaps w) 0 [] = .ok (w1, sn1, m1, new1) ∧
      prQueue w.cfg.q w1 st0.inter sn1 0 [] = .ok (w2, sn2, m2, new2) ∧
      prQueue w.cfg.q w2 st0.batch sn2 0 [] = .ok (w3, sn3, m3, new3) ∧
      Built w (new1 ++ new2 ++ new3) w3 ∧
      JobsOKm w3 ({ st0 with qry := st0.qry.drop m1, inter := st0.inter.drop m2, batch := st0.batch.drop m3 } : St).jobs ∧
      (∀ j ∈ ({ st0 with qry := st0.qry.drop m1, inter := st0.inter.drop m2, batch := st0.batch.drop m3 } : St).jobs, j ∈ st0.jobs) ∧
      (∀ a ∈ new1 ++ new2 ++ new3, a.pool < w.pools.length ∧ ∃ j ∈ st0.jobs, a.ops = j.ops) ∧
      C08.Budget (snaps w) sn3 (new1 ++ new2 ++ new3) ∧ C08.NonNegS sn3 ∧
      (∀ o ∈ (new1 ++ new2 ++ new3).flatMap (·.ops),
        ∀ j ∈ ({ st0 with qry := st0.qry.drop m1, inter := st0.inter.drop m2, batch := st0.batch.drop m3 } : St).jobs, o ∉ j.ops) := by
  have hsn : C08.NonNegS (snaps w) := by
    intro s hs'
    simp only [snaps, List.mem_map] at hs'
    obtain ⟨pl, hpl, rfl⟩ := hs'
    exact hnn pl hpl
  have hcount := (nodup_iff_count_le_one _).mp hj0.nd
  have hjq : ∀ j, j ∈ st0.qry → j ∈ st0.jobs := fun j h => by unfold St.jobs; simp [h]
  have hji : ∀ j, j ∈ st0.inter → j ∈ st0.jobs := fun j h => by unfold St.jobs; simp [h]
  have hjb : ∀ j, j ∈ st0.batch → j ∈ st0.jobs := fun j h => by unfold St.jobs; simp [h]
  have hndq : (st0.qry.flatMap (·.ops)).Nodup := by
    have := hj0.nd; unfold St.jobs at this; rw [List.flatMap_append, List.flatMap_append] at this
    exact (List.nodup_append.mp (List.nodup_append.mp this).1).1
  have hndi : (st0.inter.flatMap (·.ops)).Nodup := by
    have := hj0.nd; unfold St.jobs at this; rw [List.flatMap_append, List.flatMap_append] at this
    exact (List.nodup_append.mp (List.nodup_append.mp this).1).2.1
  have hndb : (st0.batch.flatMap (·.ops)).Nodup := by
    have := hj0.nd; unfold St.jobs at this; rw [List.flatMap_append, List.flatMap_append] at this
    exact (List.nodup_append.mp this).2.1
  have hC : ∀ (m1 m2 m3 x : Nat),
      ((st0.qry.take m1).flatMap (·.ops)).count x + ((st0.qry.drop m1).flatMap (·.ops)).count x +
      (((st0.inter.take m2).flatMap (·.ops)).count x + ((st0.inter.drop m2).flatMap (·.ops)).count x) +
      (((st0.batch.take m3).flatMap (·.ops)).count x + ((st0.batch.drop m3).flatMap (·.ops)).count x) ≤ 1 := by
    intro m1 m2 m3 x
    have := hcount x
    unfold St.jobs at this
    rw [List.flatMap_append, List.flatMap_append, List.count_append, List.count_append, count_split st0.qry m1, count_split st0.inter m2,
      count_split st0.batch m3] at this
    exact this
  obtain ⟨w1, sn1, k1, m1, new1, r1, rk1, rm1, b1, n1, l1, a1⟩ := prQueue_runM w.cfg.q hq st0.qry w (snaps w) 0 [] hndq
    (fun j hj' => hj0.ok j (hjq j hj')) (by simp [snaps]) hsn
  simp only [List.nil_append, Nat.zero_add] at r1 rk1
  rw [rk1] at r1
  obtain ⟨f1p, f1c, _, f1s⟩ := built_frame b1
  obtain ⟨_, _, _, s1⟩ := built_spec b1
  have hnew1 : ∀ x ∈ new1.flatMap (·.ops), x ∈ (st0.qry.take m1).flatMap (·.ops) := by
    intro x hx
    obtain ⟨a, ha, hxa⟩ := List.mem_flatMap.mp hx
    obtain ⟨_, j, hj', ho⟩ := a1 a ha
    rw [ho] at hxa; exact List.mem_flatMap.mpr ⟨j, hj', hxa⟩
  obtain ⟨w2, sn2, k2, m2, new2, r2, rk2, rm2, b2, n2, l2, a2⟩ := prQueue_runM w.cfg.q hq st0.inter w1 sn1 0 [] hndi
    (fun j hj' => jobOKm_keep f1s (fun x hx => s1 x (fun hc => by
        have c1 := count_flatMap_mem (hnew1 x hc)
        have c2 := count_flatMap_mem (List.mem_flatMap.mpr ⟨j, hj', hx⟩)
        have := hC m1 0 0 x
        simp only [List.take_zero, List.drop_zero, List.flatMap_nil, List.count_nil] at this
        omega)) (hj0.ok j (hji j hj')))
    (by rw [l1, f1p]; simp [snaps]) n1
  simp only [List.nil_append, Nat.zero_add] at r2 rk2
  rw [rk2] at r2
  obtain ⟨f2p, f2c, _, f2s⟩ := built_frame b2
  obtain ⟨_, _, _, s2⟩ := built_spec b2
  have hnew2 : ∀ x ∈ new2.flatMap (·.ops), x ∈ (st0.inter.take m2).flatMap (·.ops) := by
    intro x hx
    obtain ⟨a, ha, hxa⟩ := List.mem_flatMap.mp hx
    obtain ⟨_, j, hj', ho⟩ := a2 a ha
    rw [ho] at hxa; exact List.mem_flatMap.mpr ⟨j, hj', hxa⟩
  obtain ⟨w3, sn3, k3, m3, new3, r3, rk3, rm3, b3, n3, l3, a3⟩ := prQueue_runM w.cfg.q hq st0.batch w2 sn2 0 [] hndb
    (fun j hj' => jobOKm_keep (f1s.trans f2s) (fun x hx => by
        have c2 := count_flatMap_mem (List.mem_flatMap.mpr ⟨j, hj', hx⟩)
        have hh := hC m1 m2 0 x
        simp only [List.take_zero, List.drop_zero, List.flatMap_nil, List.count_nil] at hh
        rw [s2 x (fun hc => by have := count_flatMap_mem (hnew2 x hc); omega), s1 x (fun hc => by have := count_flatMap_mem (hnew1 x hc); omega)])
      (hj0.ok j (hjb j hj')))
    (by rw [l2, l1, f2p, f1p]; simp [snaps]) n2
  simp only [List.nil_append, Nat.zero_add] at r3 rk3
  rw [rk3] at r3
  obtain ⟨f3p, f3c, _, f3s⟩ := built_frame b3
  obtain ⟨_, _, _, s3⟩ := built_spec b3
  have hnew3 : ∀ x ∈ new3.flatMap (·.ops), x ∈ (st0.batch.take m3).flatMap (·.ops) := by
    intro x hx
    obtain ⟨a, ha, hxa⟩ := List.mem_flatMap.mp hx
    obtain ⟨_, j, hj', ho⟩ := a3 a ha
    rw [ho] at hxa; exact List.mem_flatMap.mpr ⟨j, hj', hxa⟩
  obtain ⟨_, _, x1, e1, bb1⟩ := C08.prQueue_budget _ _ _ _ _ _ _ _ _ _ r1 hsn
  obtain ⟨_, _, x2, e2, bb2⟩ := C08.prQueue_budget _ _ _ _ _ _ _ _ _ _ r2 n1
  obtain ⟨_, _, x3, e3, bb3⟩ := C08.prQueue_budget _ _ _ _ _ _ _ _ _ _ r3 n2
  simp only [List.nil_append] at e1 e2 e3
  subst e1 e2 e3
  have hdisj : ∀ x, (x ∈ new1.flatMap (·.ops) ∨ x ∈ new2.flatMap (·.ops) ∨ x ∈ new3.flatMap (·.ops)) →
      ∀ j, (j ∈ st0.qry.drop m1 ∨ j ∈ st0.inter.drop m2 ∨ j ∈ st0.batch.drop m3) → x ∉ j.ops := by
    intro x hx j hj' hxj
    have hh := hC m1 m2 m3 x
    have ct : 1 ≤ ((st0.qry.take m1).flatMap (·.ops)).count x + ((st0.inter.take m2).flatMap (·.ops)).count x + ((st0.batch.take m3).flatMap (·.ops)).count x := by
      rcases hx with h | h | h
      · have := count_flatMap_mem (hnew1 x h); omega
      · have := count_flatMap_mem (hnew2 x h); omega
      · have := count_flatMap_mem (hnew3 x h); omega
    have cd : 1 ≤ ((st0.qry.drop m1).flatMap (·.ops)).count x + ((st0.inter.drop m2).flatMap (·.ops)).count x + ((st0.batch.drop m3).flatMap (·.ops)).count x := by
      rcases hj' with h | h | h
      · have := count_flatMap_mem (List.mem_flatMap.mpr ⟨j, h, hxj⟩); omega
      · have := count_flatMap_mem (List.mem_flatMap.mpr ⟨j, h, hxj⟩); omega
      · have := count_flatMap_mem (List.mem_flatMap.mpr ⟨j, h, hxj⟩); omega
    omega
  have hmemdrop : ∀ j, j ∈ ({ st0 with qry := st0.qry.drop m1, inter := st0.inter.drop m2, batch := st0.batch.drop m3 } : St).jobs →
      (j ∈ st0.qry.drop m1 ∨ j ∈ st0.inter.drop m2 ∨ j ∈ st0.batch.drop m3) := by
    intro j hj'
    have : j ∈ st0.qry.drop m1 ++ st0.inter.drop m2 ++ st0.batch.drop m3 := hj'
    simpa [List.mem_append, or_assoc] using this
  have horig : ∀ j, (j ∈ st0.qry.drop m1 ∨ j ∈ st0.inter.drop m2 ∨ j ∈ st0.batch.drop m3) → j ∈ st0.jobs := by
    intro j hj''
    rcases hj'' with h | h | h
    · exact hjq j (List.mem_of_mem_drop h)
    · exact hji j (List.mem_of_mem_drop h)
    · exact hjb j (List.mem_of_mem_drop h)
  refine ⟨w1, w2, w3, sn1, sn2, sn3, m1, m2, m3, new1, new2, new3, r1, r2, r3, (b1.append b2).append b3, ⟨?_, ?_⟩, fun j hj' => horig j (hmemdrop j hj'), ?_,
    C08.budget_trans (C08.budget_trans bb1 bb2) bb3, n3, ?_⟩
  · apply (nodup_iff_count_le_one _).mpr
    intro x
    have := hC m1 m2 m3 x
    show ((st0.qry.drop m1 ++ st0.inter.drop m2 ++ st0.batch.drop m3).flatMap (·.ops)).count x ≤ 1
    rw [List.flatMap_append, List.flatMap_append, List.count_append, List.count_append]
    omega
  · intro j hj'
    have hj'' := hmemdrop j hj'
    apply jobOKm_keep ((f1s.trans f2s).trans f3s) _ (hj0.ok j (horig j hj''))
    intro x hx
    rw [s3 x (fun hc => hdisj x (Or.inr (Or.inr hc)) j hj'' hx), s2 x (fun hc => hdisj x (Or.inr (Or.inl hc)) j hj'' hx),
      s1 x (fun hc => hdisj x (Or.inl hc) j hj'' hx)]
  · intro a ha
    have ha' : a ∈ new1 ∨ a ∈ new2 ∨ a ∈ new3 := by simpa [List.mem_append, or_assoc] using ha
    have hp1 : w1.pools.length = w.pools.length := by rw [f1p]
    have hp2 : w2.pools.length = w.pools.length := by rw [f2p, f1p]
    rcases ha' with h | h | h
    · obtain ⟨p1, j, hj', ho⟩ := a1 a h
      exact ⟨p1, j, hjq j (List.mem_of_mem_take hj'), ho⟩
    · obtain ⟨p1, j, hj', ho⟩ := a2 a h
      exact ⟨by omega, j, hji j (List.mem_of_mem_take hj'), ho⟩
    · obtain ⟨p1, j, hj', ho⟩ := a3 a h
      exact ⟨by omega, j, hjb j (List.mem_of_mem_take hj'), ho⟩
  · intro o ho j hj'
    have ho' : o ∈ new1.flatMap (·.ops) ∨ o ∈ new2.flatMap (·.ops) ∨ o ∈ new3.flatMap (·.ops) := by
      simpa [List.flatMap_append, List.mem_append, or_assoc] using ho
    exact hdisj o ho' j (hmemdrop j hj')

theorem map_active_getD (pools : List Pool) (i : Nat) : (pools.map (·.active)).getD i [] = (pools.getD i default).active := by
  rw [List.getD_eq_getElem?_getD, List.getD_eq_getElem?_getD, List.getElem?_map]
  cases pools[i]? with
  | none => rfl
  | some p => rfl

/-- **one round of `priority` with multi-operator containers never raises** — with containers being written out, re-queued suspended work and new
suspension requests.  The assignments hold exactly the operators of good, whole jobs and stay within every pool's free amounts; the suspension requests are
pairwise distinct and name suspendable running containers; what stays queued is good; and the dictionary of remembered jobs has one entry per container,
none for a container that is already suspended, a fresh one for every container being written out and for every container asked to suspend now -/
theorem prRoundM_run (w : World) (st : St) (cs js : List Ctr) (newP F : List Nat) (inv : PMInv w st cs js (newP ++ F)) :
    ∃ w3 st2 sus asgs snE, prRound w st (cs.map mkRes) newP = .ok (w3, st2, { sus := sus, asgs := asgs }) ∧ Built w asgs w3 ∧
      JobsOKm w3 st2.jobs ∧ JobsWhole w st2.jobs ∧ (∀ o ∈ st2.jobs.flatMap (·.ops), w.store.pidOf o ∉ F) ∧
      (∀ a ∈ asgs, a.pool < w.pools.length ∧ ∃ j, JobOKm w j ∧ WholeOps w.pipes w.store j.ops ∧ a.ops = j.ops ∧ ∀ o ∈ a.ops, w.store.pidOf o ∉ F) ∧
      C08.Budget (snaps w) snE asgs ∧ C08.NonNegS snE ∧
      (∀ o ∈ asgs.flatMap (·.ops), ∀ j ∈ st2.jobs, o ∉ j.ops) ∧
      sus.Nodup ∧ (∀ x ∈ sus, x.1 < w.pools.length ∧ ∃ c ∈ (w.pools.getD x.1 default).active, c.cid = x.2 ∧ c.canSuspend = true) ∧
      (st2.susp.map (·.1)).Nodup ∧ (∀ c ∈ allSuspended w, c.cid ∉ st2.susp.map (·.1)) ∧ (∀ x ∈ noteList w, x ∈ st2.susp) ∧
      (∀ y ∈ sus, ∀ c ∈ (w.pools.getD y.1 default).active, c.cid = y.2 → (c.cid, jobOfCtr w3 y.1 c) ∈ st2.susp) := by
  obtain ⟨cS, cD, cA, cDS, cSA⟩ := cidsOK_facts inv.cids
  have hndN : newP.Nodup := (List.nodup_append.mp inv.fnd).1
  have hres : ∀ r ∈ cs.map mkRes, 0 < r.cpu ∧ 0 < r.ram := by
    intro r hr
    obtain ⟨c, hc, rfl⟩ := List.mem_map.mp hr
    obtain ⟨_, _, hg⟩ := inv.res c hc
    exact ⟨hg.1.2.2.2.1, hg.1.2.2.2.2⟩
  have hnn : ∀ p ∈ w.pools, 0 ≤ p.availC ∧ 0 ≤ p.availR := by
    intro p hp
    have g := (inv.ready.pools p hp).1.1.2
    exact ⟨g.1, g.2 inv.over⟩
  obtain ⟨ja, wa, sas, orig⟩ := prEnqueueM_ok w st (cs.map mkRes) newP inv.multi inv.wfp inv.segs inv.pid inv.topo inv.jobs inv.whole hndN hres
    (quiet_touched w st cs js newP F inv)
  generalize hsa : prEnqueue w st (cs.map mkRes) newP = sa at ja wa sas orig
  obtain ⟨j0, wh0, k0, no0, _, ent0, from0⟩ := note_requeue_ok w st cs js newP F inv sa ja wa sas orig
  have e0 : prRequeueSuspended w (prNoteSuspending w (prEnqueue w st (cs.map mkRes) newP)) = prRequeueSuspended w (prNoteSuspending w sa) := by rw [hsa]
  generalize hst0 : prRequeueSuspended w (prNoteSuspending w sa) = st0 at j0 wh0 k0 no0 ent0 from0 e0
  -- nothing queued belongs to a pipeline still to arrive
  have hF0 : ∀ o ∈ st0.jobs.flatMap (·.ops), w.store.pidOf o ∉ F := by
    intro o ho hin
    rcases from0 o ho with h | ⟨c, hc, hoc⟩
    · rcases orig o h with h' | h'
      · exact inv.jobsF o h' (List.mem_append_right _ hin)
      · rcases mem_prTouched w _ newP _ h' with h'' | ⟨r, hr, o', ho', e⟩
        · exact (List.nodup_append.mp inv.fnd).2.2 _ h'' _ hin rfl
        · obtain ⟨c, hc, rfl⟩ := List.mem_map.mp hr
          obtain ⟨_, _, hg⟩ := inv.res c hc
          have := (hg.1.2.1 o' ho').2.2
          rw [e] at this
          exact this (List.mem_append_right _ hin)
    · obtain ⟨_, _, _, hg, _, _⟩ := inv.park c hc
      exact (hg.1.2.1 o (List.mem_of_mem_drop hoc)).2.2 (List.mem_append_right _ hin)
  obtain ⟨w1, w2, w3, sn1, sn2, sn3, m1, m2, m3, new1, new2, new3, r1, r2, r3, hb, hj3, hsub, hall, hbud, hn3, hdisj⟩ := prThree w st0 inv.q j0 hnn
  obtain ⟨e1, e2, e3, est⟩ := built_frame hb
  -- the suspension requests
  generalize hsus : (if ({ st0 with qry := st0.qry.drop m1, inter := st0.inter.drop m2, batch := st0.batch.drop m3 } : St).qry.isEmpty then []
      else prSuspend (w.pools.map (·.active)) ({ st0 with qry := st0.qry.drop m1, inter := st0.inter.drop m2, batch := st0.batch.drop m3 } : St).qry.length) = sus
  have hcn : ∀ i, (cids ((w.pools.map (·.active)).getD i [])).Nodup := by
    intro i
    rw [map_active_getD]
    by_cases hi : i < w.pools.length
    · have hm : w.pools.getD i default ∈ w.pools := by
        rw [List.getD_eq_getElem?_getD, List.getElem?_eq_getElem hi]; exact List.getElem_mem hi
      have hsl : (cids (w.pools.getD i default).active).Sublist (cids (w.pools.flatMap (·.active))) := by
        unfold cids
        exact List.Sublist.map _ (List.sublist_flatten_of_mem (List.mem_map_of_mem hm) : _)
      exact hsl.nodup cA
    · have : w.pools.getD i default = default := by rw [List.getD_eq_getElem?_getD, List.getElem?_eq_none (by omega)]; rfl
      rw [this]
      have e0 : (default : Pool).active = [] := rfl
      rw [e0]; simp [cids]
  have hsusnd : sus.Nodup := by
    rw [← hsus]
    split
    · simp
    · exact prSuspend_nodup _ _ hcn
  have hsusok : ∀ x ∈ sus, x.1 < w.pools.length ∧ ∃ c ∈ (w.pools.getD x.1 default).active, c.cid = x.2 ∧ c.canSuspend = true := by
    intro x hx
    rw [← hsus] at hx
    split at hx
    · cases hx
    · obtain ⟨c, hc, h1, _, h3⟩ := (Preempt.prSuspend_spec (w.pools.map (·.active)) _).1 x hx
      rw [map_active_getD] at hc
      refine ⟨?_, c, hc, h1, h3⟩
      apply Classical.byContradiction
      intro hlt
      have : w.pools.getD x.1 default = default := by rw [List.getD_eq_getElem?_getD, List.getElem?_eq_none (by omega)]; rfl
      rw [this] at hc
      have e0 : (default : Pool).active = [] := rfl
      rw [e0] at hc; cases hc
  have hsnd2 : (sus.map (·.2)).Nodup := sus_snd_nodup w.pools sus hsusnd cA (fun x hx => by
    obtain ⟨_, c, hc, h1, _⟩ := hsusok x hx; exact ⟨c, hc, h1⟩)
  have hrk : ((reqList w w3 sus).map (·.1)).Nodup := (reqList_keys_sub w w3 sus).nodup hsnd2
  obtain ⟨q1, q2, q3, q4⟩ := setAll_spec (reqList w w3 sus) st0.susp k0
  -- the keys of the new requests are running containers
  have hreqA : ∀ k ∈ (reqList w w3 sus).map (·.1), k ∈ cids (w.pools.flatMap (·.active)) := by
    intro k hk
    obtain ⟨x, hx, rfl⟩ := List.mem_map.mp hk
    obtain ⟨y, hy, c, hc, _, rfl⟩ := mem_reqList hx
    obtain ⟨hlt, _⟩ := hsusok y hy
    have hm : w.pools.getD y.1 default ∈ w.pools := by
      rw [List.getD_eq_getElem?_getD, List.getElem?_eq_getElem hlt]; exact List.getElem_mem hlt
    exact List.mem_map_of_mem (List.mem_flatMap.mpr ⟨_, hm, hc⟩)
  refine ⟨w3, { st0 with qry := st0.qry.drop m1, inter := st0.inter.drop m2, batch := st0.batch.drop m3,
                          susp := setAll st0.susp (reqList w w3 sus) }, sus, new1 ++ new2 ++ new3, sn3, ?_, hb, hj3, ?_, ?_, ?_, hbud, hn3, hdisj, hsusnd, hsusok,
    q1, ?_, ?_, ?_⟩
  · unfold prRound
    simp only [e0, r1, r2, r3]
    rw [hsus]
    have h := requests_eq w w3 sus ({ st0 with qry := st0.qry.drop m1, inter := st0.inter.drop m2, batch := st0.batch.drop m3 } : St)
    exact congrArg (fun z => Except.ok (w3, z, ({ sus := sus, asgs := new1 ++ new2 ++ new3 } : Decision))) h
  · intro j hj
    exact wh0 j (hsub j hj)
  · intro o ho
    obtain ⟨j, hj, hoj⟩ := List.mem_flatMap.mp ho
    exact hF0 o (List.mem_flatMap.mpr ⟨j, hsub j hj, hoj⟩)
  · intro a ha
    obtain ⟨hp, j, hj, eo⟩ := hall a ha
    exact ⟨hp, j, j0.ok j hj, wh0 j hj, eo, fun o ho => hF0 o (List.mem_flatMap.mpr ⟨j, hj, by rw [← eo]; exact ho⟩)⟩
  · intro c hc hin
    obtain ⟨x, hx, e⟩ := List.mem_map.mp hin
    rcases q2 x hx with ⟨h1, _⟩ | h1
    · exact no0 c hc (by rw [← e]; exact List.mem_map_of_mem h1)
    · have hA := hreqA x.1 (List.mem_map_of_mem h1)
      rw [e] at hA
      have hD : c.cid ∈ cids (w.pools.flatMap (·.suspended)) := by
        rw [← allSuspended_eq]; exact List.mem_map_of_mem hc
      exact (cDS _ hD).2 hA
  · intro x hx
    apply q3 x (ent0 x hx)
    intro hin
    have hA := hreqA x.1 hin
    have hS : x.1 ∈ cids (w.pools.flatMap (·.suspending)) := by
      rw [← noteList_keys']; exact List.mem_map_of_mem hx
    exact cSA _ hS hA
  · intro y hy c hc hk
    apply q4 hrk
    unfold reqList
    apply List.mem_filterMap.mpr
    refine ⟨y, hy, ?_⟩
    have hlt := (hsusok y hy).1
    have hm : w.pools.getD y.1 default ∈ w.pools := by
      rw [List.getD_eq_getElem?_getD, List.getElem?_eq_getElem hlt]; exact List.getElem_mem hlt
    have hnd' : ((w.pools.getD y.1 default).active.map (·.cid)).Nodup := by
      have := hcn y.1
      rw [map_active_getD] at this
      exact this
    have := C08.findCtr_of_mem_nodup _ c hc hnd'
    rw [hk] at this
    rw [this]
    rfl

/-! ### world-level helpers for the tick -/

theorem pool_index {l : List Pool} {p : Pool} (h : p ∈ l) : ∃ k, k < l.length ∧ l.getD k default = p := by
  obtain ⟨k, hk, e⟩ := List.mem_iff_getElem.mp h
  exact ⟨k, hk, by rw [List.getD_eq_getElem?_getD, List.getElem?_eq_getElem hk]; exact e⟩

theorem getD_mem {l : List Pool} {k : Nat} (h : k < l.length) : l.getD k default ∈ l := by
  rw [List.getD_eq_getElem?_getD, List.getElem?_eq_getElem h]; exact List.getElem_mem h

theorem nodup_keys_eq {l : List (Nat × Job)} (h : (l.map (·.1)).Nodup) {x y : Nat × Job} (hx : x ∈ l) (hy : y ∈ l) (e : x.1 = y.1) : x = y := by
  induction l with
  | nil => cases hx
  | cons z zs ih =>
    simp only [List.map_cons, List.nodup_cons] at h
    rcases List.mem_cons.mp hx with rfl | hx' <;> rcases List.mem_cons.mp hy with rfl | hy'
    · rfl
    · exact absurd (by rw [e]; exact List.mem_map_of_mem hy') h.1
    · exact absurd (by rw [← e]; exact List.mem_map_of_mem hx') h.1
    · exact ih h.2 hx' hy'

theorem active_nodup {w : World} (h : w.CidsOK) {p : Pool} (hp : p ∈ w.pools) : (p.active.map (·.cid)).Nodup := by
  obtain ⟨_, _, cA, _, _⟩ := cidsOK_facts h
  have hsl : (cids p.active).Sublist (cids (w.pools.flatMap (·.active))) := by
    unfold cids
    exact List.Sublist.map _ (List.sublist_flatten_of_mem (List.mem_map_of_mem hp) : _)
  exact hsl.nodup cA

/-! ### the closed loop -/

/-- **one scheduling round of `priority` (multi-operator containers, pre-emption on) plus one executor tick never raise**, and everything needed for the
next round holds again -/
theorem pm_tick_never_raises (w : World) (st : St) (cs js : List Ctr) (newP F : List Nat) (inv : PMInv w st cs js (newP ++ F)) :
    ∃ w1 st1 dec w2 cs2 js2, prRound w st (cs.map mkRes) newP = .ok (w1, st1, dec) ∧ w1.execTick dec.sus dec.asgs = .ok (w2, cs2.map mkRes) ∧
      PMInv w2 st1 cs2 js2 F := by
  obtain ⟨w1, st1, sus, asgs, snE, hrd, hb, hj1, hwh1, hF1, hall, hbud, hnE, hdisj, hsnd, hsok, hkeys, hnold, hentS, hentR⟩ :=
    prRoundM_run w st cs js newP F inv
  obtain ⟨_, _, cA, _, _⟩ := cidsOK_facts inv.cids
  obtain ⟨e1, e2, e3, est⟩ := built_frame hb
  obtain ⟨_, bpos, b3, b4⟩ := built_spec hb
  have hseg0 : ∀ a ∈ asgs, ∀ r ∈ a.ops, w.store.segsOf r ≠ [] := by
    intro a ha r hrr
    obtain ⟨_, j, hjo, _, eo, _⟩ := hall a ha
    rw [eo] at hrr
    exact (hjo.ok r hrr).2.2
  have hpar : ∀ a ∈ asgs, ParentsOK w1.store a.ops := by
    intro a ha
    obtain ⟨_, j, hjo, _, eo, _⟩ := hall a ha
    rw [eo]
    exact parentsOK_frame hjo.par est.ops (fun q hq => completed_final est q hq)
  have hsusF : ∀ i, ((sus.filter (·.1 == i)).map (·.2)).Nodup := fun i => filter_map_snd_nodup sus hsnd i
  obtain ⟨w2, res2, hex, r2, p2, c2, st2⟩ := execTick_succeeds_of_gates_susp w w1 asgs sus inv.ready hb hseg0 hpar hsusF
    (by intro a ha; rw [e1]; exact (hall a ha).1)
    (by intro x hx; rw [e1]; exact (hsok x hx).1)
    (by intro k p hk
        rw [e1] at hk
        have hklt : k < w.pools.length := (List.getElem?_eq_some_iff.mp hk).1
        have hpd : w.pools.getD k default = p := by rw [List.getD_eq_getElem?_getD, hk]; rfl
        have hpm : p ∈ w.pools := by rw [← hpd]; exact getD_mem hklt
        refine ⟨Or.inr ?_, Or.inr ?_⟩
        · apply C08.verifySuspends_ok p (active_nodup inv.cids hpm)
          intro cid hcid
          have hcid' : cid ∈ (sus.filter (·.1 == k)).map (·.2) := hcid
          obtain ⟨x, hx, rfl⟩ := List.mem_map.mp hcid'
          obtain ⟨hx1, hx2⟩ := List.mem_filter.mp hx
          have hxk : x.1 = k := by simpa using hx2
          obtain ⟨_, c, hc, h1, h3⟩ := hsok x hx1
          rw [hxk, hpd] at hc
          exact ⟨c, hc, h1, h3⟩
        · have := C08.accepted_of_budget w snE asgs hbud hnE k hklt
          rw [hpd] at this
          rw [e2]; exact this)
    (by intro a ha
        obtain ⟨_, j, hjo, _, eo, _⟩ := hall a ha
        unfold opCountOk
        rw [e2, inv.multi]
        simp only [↓reduceIte, ge_iff_le, decide_eq_true_eq]
        rw [eo]
        cases hjj : j.ops with
        | nil => exact absurd hjj hjo.ne
        | cons x xs => simp)
  -- what the tick reports
  obtain ⟨hfin2, cs2, js2, hres2, hcs2, hjs2, hnd2, hbusy2, hsusp2, hsing2⟩ :=
    execTick_finS w w1 asgs sus inv.ready hb hseg0 hpar hsusF inv.fins hex
  subst hres2
  have hFsub : ∀ x ∈ F, x ∈ newP ++ F := fun x hx => List.mem_append_right _ hx
  have hJ := poolsReady_of_built w w1 asgs inv.ready hb hseg0 hpar
  have hg1 : ∀ p ∈ w1.pools, PoolGoodMem w1.cfg p w1.nextCid := by
    intro p hp; rw [e1] at hp; rw [e2, e3]; exact (inv.ready.pools p hp).1
  have hgood1 : ∀ p ∈ w1.pools, AllC (GoodW F w.pipes w1.store) p.active := by
    intro p hp c hc; rw [e1] at hp; exact goodW_mono (inv.goodA p hp c hc) est hFsub
  have hgoodA : ∀ a ∈ asgs, ∀ (s : Store) j, GoodW F w.pipes w1.store (mkCtr s j a) := by
    intro a ha s j
    obtain ⟨_, jb, hjo, hwj, eo, hpf⟩ := hall a ha
    refine ⟨?_, ?_⟩
    · unfold PP.Good mkCtr
      simp only
      refine ⟨by rw [eo]; exact hjo.nd, fun o ho => ?_, hpar a ha, (bpos a ha).2.1, (bpos a ha).2.2⟩
      have ho' : o ∈ jb.ops := by rw [← eo]; exact ho
      refine ⟨by rw [est.size]; exact (hjo.ok o ho').1, by unfold Store.segsOf; rw [est.ops]; exact (hjo.ok o ho').2.2, ?_⟩
      have := hpf o ho
      unfold Store.pidOf at this ⊢
      rw [est.ops]; exact this
    · show WholeOps w.pipes w1.store a.ops
      rw [eo]; exact wholeOps_mono hwj est
  obtain ⟨hp2, hr2⟩ := execTick_keptS (goodW_kept w1.cfg F w.pipes w1.store) hgoodA hg1 hgood1 hex
  have hfr := execTick_frame hJ.live hex
  have howned : ∀ p ∈ w.pools, ∀ o ∈ ownP p, Busy (w.store.stOf o) ∧ o ∉ asgs.flatMap (·.ops) := by
    intro p hp o ho
    obtain ⟨_, lp, _⟩ := inv.ready.pools p hp
    simp only [ownP, own] at ho
    obtain ⟨c, hc, hoc⟩ := List.mem_flatMap.mp ho
    obtain ⟨hc1, hc2⟩ := List.mem_filter.mp hc
    have hbusy := lp.busy c hc1 (by simpa using hc2) o hoc
    refine ⟨hbusy, fun hx' => ?_⟩
    have := (b3 o hx').1
    simp only [assignable, List.mem_cons, List.not_mem_nil, or_false] at this
    rcases hbusy with e | e | e <;> rcases this with f | f <;> rw [e] at f <;> cases f
  have hownedC : ∀ p ∈ w.pools, ∀ c ∈ p.active ++ p.suspending, ∀ o ∈ c.unfinished, Busy (w.store.stOf o) ∧ w1.store.stOf o = w.store.stOf o := by
    intro p hp c hc o ho
    obtain ⟨_, lp, _⟩ := inv.ready.pools p hp
    obtain ⟨h1, h2⟩ := howned p hp o (mem_own hc (lp.nc c hc) ho)
    exact ⟨h1, b4 o h2⟩
  have hkeep : ∀ o, (w1.store.stOf o = pending ∨ w1.store.stOf o = failed) → w2.store.stOf o = w1.store.stOf o := by
    intro o ho
    apply hfr o
    · intro hin
      obtain ⟨p, hp, hop⟩ := List.mem_flatMap.mp hin
      rw [e1] at hp
      obtain ⟨hb', hna⟩ := howned p hp o hop
      rw [← b4 o hna] at hb'
      rcases ho with e | e <;> rcases hb' with f | f | f <;> rw [e] at f <;> cases f
    · intro hin
      have := (b3 o hin).2
      rcases ho with e | e <;> rw [e] at this <;> cases this
  have hassignable : ∀ {o : Nat}, w1.store.stOf o ∈ assignable → (w1.store.stOf o = pending ∨ w1.store.stOf o = failed) := by
    intro o h
    simpa [assignable] using h
  -- the containers that were being written out, or have just been asked to
  have hpre : ∀ c0, (∃ q ∈ w1.pools, c0 ∈ q.suspending ∨ (c0 ∈ q.active ∧ c0.cid ∈ sus.map (·.2))) →
      GoodW (newP ++ F) w.pipes w.store c0 ∧ c0.unfinished ≠ [] ∧
      ∃ x ∈ st1.susp, x.1 = c0.cid ∧ x.2.ops = c0.unfinished ∧ ∀ rs, x.2.retry = some rs → 0 < rs.oldCpu ∧ 0 < rs.oldRam := by
    intro c0 hc0
    obtain ⟨q, hq, h⟩ := hc0
    rw [e1] at hq
    obtain ⟨k, hk, hkq⟩ := pool_index hq
    rcases h with h | ⟨h, hs⟩
    · have g := inv.goodS q hq c0 h
      refine ⟨g, inv.sne q hq c0 h, (c0.cid, jobOfCtr w k c0), ?_, rfl, ?_⟩
      · apply hentS
        unfold noteList
        exact List.mem_flatMap.mpr ⟨k, List.mem_range.mpr hk, List.mem_map.mpr ⟨c0, by rw [hkq]; exact h, rfl⟩⟩
      · obtain ⟨jo, jr⟩ := jobOfCtr_ops w k c0 (inv.fins q hq c0 (List.mem_append_right _ h)) (owned_busy inv.ready hq (List.mem_append_right _ h))
        refine ⟨jo, fun rs hrs => ?_⟩
        show 0 < rs.oldCpu ∧ 0 < rs.oldRam
        have hrs' : (jobOfCtr w k c0).retry = some rs := hrs
        rw [jr] at hrs'
        simp only [Option.some.injEq] at hrs'
        rw [← hrs']
        exact ⟨g.1.2.2.2.1, g.1.2.2.2.2⟩
    · have g := inv.goodA q hq c0 h
      obtain ⟨y, hy, ey⟩ := List.mem_map.mp hs
      obtain ⟨_, c', hc', h1, _⟩ := hsok y hy
      have hk' : k = y.1 := active_cid_pool w.pools k y.1 c0 c' cA (by rw [hkq]; exact h) hc' (by rw [h1, ey])
      have hmem : c0 ∈ (w.pools.getD y.1 default).active := by rw [← hk', hkq]; exact h
      have hin := List.mem_append_left q.suspending h
      refine ⟨g, active_unf_ne inv.ready hq h, (c0.cid, jobOfCtr w1 y.1 c0), hentR y hy c0 hmem ey.symm, rfl, ?_⟩
      have f1 : Fin w1.store c0 := fin_frame (inv.fins q hq c0 hin) est (fun o ho => (hownedC q hq c0 hin o ho).2)
      obtain ⟨jo, jr⟩ := jobOfCtr_ops w1 y.1 c0 f1 (fun o ho => by rw [(hownedC q hq c0 hin o ho).2]; exact (hownedC q hq c0 hin o ho).1)
      refine ⟨jo, fun rs hrs => ?_⟩
      show 0 < rs.oldCpu ∧ 0 < rs.oldRam
      have hrs' : (jobOfCtr w1 y.1 c0).retry = some rs := hrs
      rw [jr] at hrs'
      simp only [Option.some.injEq] at hrs'
      rw [← hrs']
      exact ⟨g.1.2.2.2.1, g.1.2.2.2.2⟩
  have hunf : ∀ {c0 c : Ctr}, Same c0 c → c.unfinished = c0.unfinished := by
    intro c0 c hs
    unfold Ctr.unfinished
    rw [hs.2.1, hs.2.2.1]
  have hent2 : ∀ x ∈ st1.susp, ∀ c, (∃ c0, (∃ q ∈ w1.pools, c0 ∈ q.suspending ∨ (c0 ∈ q.active ∧ c0.cid ∈ sus.map (·.2))) ∧ Same c0 c) → c.cid = x.1 →
      x.2.ops = c.unfinished ∧ ∀ rs, x.2.retry = some rs → 0 < rs.oldCpu ∧ 0 < rs.oldRam := by
    intro x hx c hc hcx
    obtain ⟨c0, hc0, hs⟩ := hc
    obtain ⟨_, _, x', hx', k1, k2, k3⟩ := hpre c0 hc0
    have : x = x' := nodup_keys_eq hkeys hx hx' (by rw [k1, ← hcx, hs.1])
    rw [this, hunf hs]
    exact ⟨k2, k3⟩
  have hstat : ∀ c, (∃ c0, (∃ q ∈ w1.pools, c0 ∈ q.suspending ∨ (c0 ∈ q.active ∧ c0.cid ∈ sus.map (·.2))) ∧ Same c0 c) →
      GoodW F w2.pipes w2.store c ∧ c.unfinished ≠ [] := by
    intro c hc
    obtain ⟨c0, hc0, hs⟩ := hc
    obtain ⟨g, ne, _⟩ := hpre c0 hc0
    refine ⟨?_, by rw [hunf hs]; exact ne⟩
    rw [p2, Naive.built_pipes hb]
    exact goodW_mono (goodW_same hs g) (est.trans st2) hFsub
  refine ⟨w1, st1, { sus := sus, asgs := asgs }, w2, cs2, js2, hrd, hex,
    ⟨r2, ?_, ?_, ?_, ?_, hfin2, ?_, by rw [c2, e2]; exact inv.multi, by rw [c2, e2]; exact inv.over, by rw [c2, e2]; exact inv.q, ?_, ?_, ?_,
      (List.nodup_append.mp inv.fnd).2.1, ?_, ?_, ?_, ?_, ?_, ?_, hnd2, ?_, hkeys, ?_, ?_, ?_⟩⟩
  · intro pid
    rw [p2, Naive.built_pipes hb, st2.size, est.size]
    exact inv.wfp pid
  · intro pid r hrr
    rw [p2, Naive.built_pipes hb] at hrr
    unfold Store.segsOf; rw [st2.ops, est.ops]; exact inv.segs pid r hrr
  · intro pid r hrr
    rw [p2, Naive.built_pipes hb] at hrr
    unfold Store.pidOf; rw [st2.ops, est.ops]; exact inv.pid pid r hrr
  · intro pid pre r post ho q hq
    rw [p2, Naive.built_pipes hb] at ho
    have hq' : q ∈ w.store.parentsOf r := by unfold Store.parentsOf at hq ⊢; rw [← est.ops, ← st2.ops]; exact hq
    exact inv.topo pid pre r post ho q hq'
  · -- container numbers
    apply execTick_cids hg1 _ hex
    unfold World.CidsOK
    rw [e1, e3]
    exact inv.cids
  · -- the queues after the tick
    refine ⟨hj1.nd, fun j hj => ?_⟩
    apply jobOKm_keep st2 _ (hj1.ok j hj)
    intro x hx
    exact hkeep x (hassignable ((hj1.ok j hj).ok x hx).2.1)
  · intro j hj
    rw [p2, Naive.built_pipes hb]
    exact wholeOps_mono (hwh1 j hj) (est.trans st2)
  · intro o ho
    have := hF1 o ho
    unfold Store.pidOf at this ⊢
    rw [st2.ops, est.ops]; exact this
  · -- the pipelines still to arrive are untouched
    intro pid hpidF
    rw [p2, Naive.built_pipes hb]
    obtain ⟨hne, hpend⟩ := inv.fut pid (List.mem_append_right _ hpidF)
    refine ⟨hne, fun o ho => ?_⟩
    have hnot : o ∉ asgs.flatMap (·.ops) := by
      intro hin
      obtain ⟨a, ha, hoa⟩ := List.mem_flatMap.mp hin
      obtain ⟨_, _, _, _, _, hpf⟩ := hall a ha
      exact hpf o hoa (by rw [inv.pid pid o ho]; exact hpidF)
    have h1 : w1.store.stOf o = pending := by rw [b4 o hnot]; exact hpend o ho
    rw [hkeep o (Or.inl h1)]; exact h1
  · intro p hp c hc
    rw [p2, Naive.built_pipes hb]
    exact goodW_mono (hp2 p hp c hc) st2 (fun x hx => hx)
  · intro p hp c hc
    exact (hstat c (hsing2 p hp c hc)).1
  · intro p hp c hc
    exact (hstat c (hsing2 p hp c hc)).2
  · intro c hc
    obtain ⟨f, hcc⟩ := hcs2 c hc
    obtain ⟨c', hg', e'⟩ := hr2 (mkRes c) (List.mem_map_of_mem hc)
    obtain ⟨eo, ek⟩ := PP.mkRes_same e'
    refine ⟨f, hcc, ?_⟩
    rw [p2, Naive.built_pipes hb]
    exact goodW_mono (goodW_of_same eo ek hg') st2 (fun x hx => hx)
  · intro c hc
    obtain ⟨f, hcc, hpk, hc0, hsd⟩ := hjs2 c hc
    obtain ⟨g, ne⟩ := hstat c hc0
    exact ⟨f, hcc, hpk, g, ne, hsd⟩
  · -- operators of the new results were busy when the tick began; the queued ones were not
    intro o ho hin
    obtain ⟨j, hj, hoj⟩ := List.mem_flatMap.mp hin
    have h1 := ((hj1.ok j hj).ok o hoj).2.1
    have h2 := hbusy2 o ho
    rcases hassignable h1 with e | e <;> rcases h2 with f | f | f <;> rw [e] at f <;> cases f
  · intro p hp c hc hnj
    rcases hsusp2 p hp c hc with ⟨q, hq, hcq⟩ | h
    · apply hnold c
      rw [allSuspended_eq]
      rw [e1] at hq
      exact List.mem_flatMap.mpr ⟨q, hq, hcq⟩
    · exact absurd h hnj
  · intro x hx c hc hcx
    rcases hc with hc | ⟨p, hp, hc⟩
    · obtain ⟨_, _, _, hc0, _⟩ := hjs2 c hc
      exact hent2 x hx c hc0 hcx
    · exact hent2 x hx c (hsing2 p hp c hc) hcx
  · intro c hc
    obtain ⟨_, _, _, hc0, _⟩ := hjs2 c hc
    obtain ⟨c0, hc0', hs⟩ := hc0
    obtain ⟨_, _, x', hx', k1, _, _⟩ := hpre c0 hc0'
    exact List.mem_map.mpr ⟨x', hx', by rw [k1, hs.1]⟩

/-- **the priority scheduler with multi-operator containers and pre-emption drives any run to its last tick without raising**: from a world that satisfies
`PMInv` (ready pools, container numbers never re-used, no memory overcommit; well-formed pipelines listed in dependency order; good queues of whole jobs; every
container with its record straight), for every sequence of arrival batches in which no pipeline arrives twice and every arriving pipeline is untouched -/
theorem run_never_raises : ∀ (arrivals : List (List Nat)) (w : World) (st : St) (cs js : List Ctr), PMInv w st cs js arrivals.flatten →
    ∃ w' st' cs' js', Prio.loop w st (cs.map mkRes) arrivals = .ok (w', st', cs'.map mkRes) ∧ PMInv w' st' cs' js' [] := by
  intro arrivals
  induction arrivals with
  | nil => intro w st cs js inv; exact ⟨w, st, cs, js, rfl, by simpa using inv⟩
  | cons newP rest ih =>
    intro w st cs js inv
    simp only [List.flatten_cons] at inv
    obtain ⟨w1, st1, dec, w2, cs2, js2, h1, h2, inv2⟩ := pm_tick_never_raises w st cs js newP rest.flatten inv
    obtain ⟨w', st', cs', js', ho, inv'⟩ := ih w2 st1 cs2 js2 inv2
    exact ⟨w', st', cs', js', by unfold Prio.loop; rw [h1]; simp only; rw [h2]; exact ho, inv'⟩

end Eudoxia.PM
