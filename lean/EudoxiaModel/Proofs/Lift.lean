import EudoxiaModel.Proofs.Mem
import EudoxiaModel.Proofs.WorldInv
/-! Lifting a per-pool invariant that every pool tick preserves to all pools of every reachable world. -/
namespace Eudoxia

/-- `Q cfg p n` is preserved by a pool tick (accepted, or refused with a well-defined state) and is monotone in the container counter -/
structure TickInvariant (Q : Cfg → Pool → Nat → Prop) : Prop where
  mono : ∀ cfg p n n', Q cfg p n → n ≤ n' → Q cfg p n'
  ok : ∀ cfg w p n cm w' p' n' res, Q cfg p n → poolTick cfg w p n cm = .ok (w', p', n', res) → Q cfg p' n' ∧ n ≤ n'
  err : ∀ cfg w p n cm e w' p' n', Q cfg p n → poolTick cfg w p n cm = .error (e, some (w', p', n')) → Q cfg p' n' ∧ n ≤ n'

theorem execPools_lift {Q : Cfg → Pool → Nat → Prop} (T : TickInvariant Q) (cfg : Cfg) (sus : List (Nat × Nat)) (asgs : List Asg) :
    ∀ (todo : List Pool) (s : Store) (n : Nat) (done : List Pool) (res : List Res),
    (∀ p ∈ done, Q cfg p n) → (∀ p ∈ todo, Q cfg p n) →
    (∀ s' ps n' res', execPools cfg sus asgs s n done todo res = .ok (s', ps, n', res') → (∀ p ∈ ps, Q cfg p n')) ∧
    (∀ e s' ps n', execPools cfg sus asgs s n done todo res = .error (e, some (s', ps, n')) → (∀ p ∈ ps, Q cfg p n')) := by
  intro todo
  induction todo with
  | nil =>
    intro s n done res hd _
    constructor
    · intro s' ps n' res' h; simp [execPools] at h; obtain ⟨_, rfl, rfl, _⟩ := h; exact hd
    · intro e s' ps n' h; simp [execPools] at h
  | cons p todo ih =>
    intro s n done res hd ht
    have gp := ht p (by simp)
    constructor
    · intro s' ps n' res' h
      unfold execPools at h
      split at h
      · cases h
      · cases h
      · rename_i s1 p1 n1 r hp
        obtain ⟨g1, hn1⟩ := T.ok _ _ _ _ _ _ _ _ _ gp hp
        exact (ih s1 n1 (done ++ [p1]) (res ++ r)
          (by intro q hq; rcases List.mem_append.mp hq with h1 | h1
              · exact T.mono _ _ _ _ (hd q h1) hn1
              · simp at h1; subst h1; exact g1)
          (by intro q hq; exact T.mono _ _ _ _ (ht q (by simp [hq])) hn1)).1 _ _ _ _ h
    · intro e s' ps n' h
      unfold execPools at h
      split at h
      · simp at h
      · rename_i s1 p1 n1 hp
        simp at h; obtain ⟨_, rfl, rfl, rfl⟩ := h
        obtain ⟨g1, hn1⟩ := T.err _ _ _ _ _ _ _ _ _ gp hp
        intro q hq
        rcases List.mem_append.mp hq with h1 | h1
        · exact T.mono _ _ _ _ (hd q h1) hn1
        · rcases List.mem_cons.mp h1 with rfl | h2
          · exact g1
          · exact T.mono _ _ _ _ (ht q (by simp [h2])) hn1
      · rename_i s1 p1 n1 r hp
        obtain ⟨g1, hn1⟩ := T.ok _ _ _ _ _ _ _ _ _ gp hp
        exact (ih s1 n1 (done ++ [p1]) (res ++ r)
          (by intro q hq; rcases List.mem_append.mp hq with h1 | h1
              · exact T.mono _ _ _ _ (hd q h1) hn1
              · simp at h1; subst h1; exact g1)
          (by intro q hq; exact T.mono _ _ _ _ (ht q (by simp [hq])) hn1)).2 _ _ _ _ h

def World.AllPools (Q : Cfg → Pool → Nat → Prop) (w : World) : Prop := ∀ p ∈ w.pools, Q w.cfg p w.nextCid

/-- **every world reachable under arbitrary commands satisfies a tick invariant in all of its pools** -/
theorem reach_lift {Q : Cfg → Pool → Nat → Prop} (T : TickInvariant Q) {w w' : World} (h : Reach w w') (g : w.AllPools Q) : w'.AllPools Q := by
  induction h with
  | refl => exact g
  | assignOk a _ h2 ih =>
    obtain ⟨p1, p2, p3⟩ := mkAssignment_pools_ok h2
    intro p hp; rw [p1] at hp; rw [p2, p3]; exact ih p hp
  | assignErr a e _ h2 ih =>
    obtain ⟨p1, p2, p3⟩ := mkAssignment_pools_err h2
    intro p hp; rw [p1] at hp; rw [p2, p3]; exact ih p hp
  | tickOk sus asgs res _ h2 ih =>
    unfold World.execTick at h2
    split at h2
    · cases h2
    · split at h2
      · cases h2
      · cases h2
      · rename_i s ps n r hp
        simp at h2; obtain ⟨rfl, _⟩ := h2
        exact (execPools_lift T _ sus asgs _ _ _ [] [] (by simp) ih).1 _ _ _ _ hp
  | tickErr sus asgs e _ h2 ih =>
    unfold World.execTick at h2
    split at h2
    · simp at h2; obtain ⟨_, rfl⟩ := h2; exact ih
    · split at h2
      · simp at h2
      · rename_i s ps n hp
        simp at h2; obtain ⟨_, rfl⟩ := h2
        exact (execPools_lift T _ sus asgs _ _ _ [] [] (by simp) ih).2 _ _ _ _ hp
      · cases h2

/-- the C03 + C04 pool invariant -/
def PoolGoodMem (cfg : Cfg) (p : Pool) (n : Nat) : Prop := p.Good cfg n ∧ MemOK p

theorem susPhase_mem {cfg : Cfg} {w w1 : Store} {p p1 : Pool} {l : List Nat} (m : MemOK p)
    (h : (if l.isEmpty then (Except.ok (w, p) : Except Err (Store × Pool))
          else (doSuspends cfg w p l).map (fun (w1, p1) => (w1, p1.reconcile))) = .ok (w1, p1)) : MemOK p1 := by
  split at h
  · rw [← ok_snd2 h]; exact m
  · cases hd : doSuspends cfg w p l with
    | error e => simp [hd, Except.map] at h
    | ok v =>
      obtain ⟨w2, p2⟩ := v
      simp [hd, Except.map] at h
      obtain ⟨a1, a2, a3⟩ := doSuspends_active _ _ _ _ _ _ hd
      rw [← h.2]
      constructor
      · rfl
      · intro c hc; exact m.ok c (a1 c hc)
      · show memSum p2.active ≤ (p2.capR : Int)
        rw [a2]
        have := memSum_sublist a3
        have := m.sum; have := m.cap
        omega

theorem poolGoodMem_tick : TickInvariant PoolGoodMem := by
  constructor
  · intro cfg p n n' g h; exact ⟨good_mono g.1 h, g.2⟩
  · intro cfg w p n cm w' p' n' res g h
    obtain ⟨gok, _⟩ := poolTick_good (w := w) (cm := cm) g.1
    obtain ⟨g', hn, _, _⟩ := gok _ _ _ _ h
    refine ⟨⟨g', ?_⟩, hn⟩
    unfold poolTick at h
    split at h
    · cases h
    · split at h
      · cases h
      · rename_i w1 p1 hs
        have m1 := susPhase_mem g.2 hs
        obtain ⟨g1, _, _⟩ := susPhase_inv g.1 hs
        split at h
        · cases h
        · split at h
          · cases h
          · rename_i p2 n2 hst
            have m2 := (startAll_mem cfg w1 cm.asgs p1 n m1).1 _ _ hst
            obtain ⟨i2, _⟩ := (startAll_inv cfg w1 cm.asgs p1 n g1.1).1 _ _ hst
            split at h
            · cases h
            · rename_i w6 p6 res6 hr
              simp at h; obtain ⟨_, rfl, _, _⟩ := h
              exact poolRun_mem i2 m2 hr
  · intro cfg w p n cm e w' p' n' g h
    obtain ⟨_, gerr⟩ := poolTick_good (w := w) (cm := cm) g.1
    obtain ⟨g', hn, _, _⟩ := gerr _ _ _ _ h
    refine ⟨⟨g', ?_⟩, hn⟩
    unfold poolTick at h
    split at h
    · simp at h; obtain ⟨_, _, rfl, _⟩ := h; exact g.2
    · split at h
      · simp at h
      · rename_i w1 p1 hs
        have m1 := susPhase_mem g.2 hs
        split at h
        · simp at h; obtain ⟨_, _, rfl, _⟩ := h; exact m1
        · split at h
          · rename_i e2 p2 n2 hst
            simp at h; obtain ⟨_, _, rfl, _⟩ := h
            exact (startAll_mem cfg w1 cm.asgs p1 n m1).2 _ _ _ hst
          · split at h
            · simp at h
            · simp at h

end Eudoxia
