import EudoxiaModel.Proofs.PoolInv
/-! The pool-level OOM killer: victims are a prefix of the score-sorted candidates, taken only while usage exceeds capacity (C11). -/
namespace Eudoxia
open OpState

/-- how many of the candidates (in the given order) are killed: as long as usage exceeds capacity -/
def nVictims (capR : Nat) : Int → List Ctr → Nat
  | _, [] => 0
  | cons, v :: vs => if cons ≤ capR then 0 else nVictims capR (cons - (v.mem : Int)) vs + 1

@[simp] theorem memSum_nil : memSum [] = 0 := rfl
@[simp] theorem memSum_cons (c : Ctr) (l : List Ctr) : memSum (c :: l) = c.mem + memSum l := by simp [memSum]

theorem nVictims_le (capR : Nat) : ∀ (vs : List Ctr) (cons : Int), nVictims capR cons vs ≤ vs.length := by
  intro vs
  induction vs with
  | nil => intro _; simp [nVictims]
  | cons v vs ih => intro cons; simp only [nVictims, List.length_cons]; split; omega; have := ih (cons - v.mem); omega

/-- **no kill that was not needed**: before each pool-level kill the usage exceeds the capacity -/
theorem kills_are_needed (capR : Nat) : ∀ (vs : List Ctr) (cons : Int) (j : Nat), j < nVictims capR cons vs →
    cons - memSum (vs.take j) > capR := by
  intro vs
  induction vs with
  | nil => intro cons j h; simp [nVictims] at h
  | cons v vs ih =>
    intro cons j h
    simp only [nVictims] at h
    split at h
    · omega
    · rename_i hgt
      cases j with
      | zero => simp; omega
      | succ j =>
        have := ih (cons - v.mem) j (by omega)
        simp only [List.take_succ_cons, memSum_cons]
        omega

/-- **killing stops as soon as the remaining usage fits**: either every candidate was killed or the usage now fits -/
theorem stops_once_usage_fits (capR : Nat) : ∀ (vs : List Ctr) (cons : Int),
    nVictims capR cons vs = vs.length ∨ cons - memSum (vs.take (nVictims capR cons vs)) ≤ capR := by
  intro vs
  induction vs with
  | nil => intro _; left; rfl
  | cons v vs ih =>
    intro cons
    simp only [nVictims]
    split
    · right; simp; assumption
    · rcases ih (cons - v.mem) with h | h
      · left; simp [h]
      · right; simp only [List.take_succ_cons, memSum_cons]; omega

theorem kill_cons {w w' : Store} {c c' : Ctr} {cons cons' : Int} (h : c.kill w cons = .ok (w', c', cons')) :
    cons' = cons - (c.mem : Int) ∧ c'.err = true ∧ c'.completed = true ∧ c'.mem = 0 ∧ c'.cid = c.cid := by
  unfold Ctr.kill at h
  split at h
  · cases h
  · simp only [Ctr.setMem] at h
    cases h
    refine ⟨by omega, rfl, rfl, rfl, rfl⟩

/-- the killer's loop kills exactly the first `nVictims` candidates and lowers the usage by their memory -/
theorem killVictims_usage (capR : Nat) : ∀ (vs : List Ctr) (w : Store) (act : List Ctr) (cons : Int) (w' : Store) (act' : List Ctr) (cons' : Int),
    killVictims w capR act cons vs = .ok (w', act', cons') →
    cons' = cons - memSum (vs.take (nVictims capR cons vs)) := by
  intro vs
  induction vs with
  | nil => intro w act cons w' act' cons' h; simp [killVictims] at h; simp [nVictims, h.2.2]
  | cons v vs ih =>
    intro w act cons w' act' cons' h
    unfold killVictims at h
    simp only [nVictims]
    split at h
    · rename_i hle
      simp only [hle, ↓reduceIte, List.take_zero, memSum_nil]
      cases h; omega
    · rename_i hgt
      simp only [hgt, ↓reduceIte]
      split at h
      · cases h
      · rename_i w1 v1 cons1 hk
        have hc := (kill_cons hk).1
        have := ih _ _ _ _ _ _ h
        rw [this, hc]
        simp only [List.take_succ_cons, memSum_cons]; omega

/-- score order is total -/
theorem scoreGe_total (a b : Ctr) : scoreGe a b = true ∨ scoreGe b a = true := by
  simp only [scoreGe, decide_eq_true_eq]; exact Nat.le_total _ _

/-- score order is transitive on containers with a positive allocation -/
theorem scoreGe_trans (a b c : Ctr) (hb : 0 < b.ram) (h1 : scoreGe a b = true) (h2 : scoreGe b c = true) : scoreGe a c = true := by
  simp only [scoreGe, decide_eq_true_eq, ge_iff_le] at *
  -- h1 : b.mem² · a.ram ≤ a.mem² · b.ram ; h2 : c.mem² · b.ram ≤ b.mem² · c.ram ; goal : c.mem² · a.ram ≤ a.mem² · c.ram
  apply Nat.le_of_mul_le_mul_right _ hb
  calc c.mem * c.mem * a.ram * b.ram = (c.mem * c.mem * b.ram) * a.ram := by rw [Nat.mul_right_comm]
    _ ≤ (b.mem * b.mem * c.ram) * a.ram := Nat.mul_le_mul_right _ h2
    _ = (b.mem * b.mem * a.ram) * c.ram := by rw [Nat.mul_right_comm]
    _ ≤ (a.mem * a.mem * b.ram) * c.ram := Nat.mul_le_mul_right _ h1
    _ = a.mem * a.mem * c.ram * b.ram := by rw [Nat.mul_right_comm]

end Eudoxia

namespace Eudoxia

theorem findCtr_replace (act : List Ctr) (c : Ctr) (k : Nat) :
    findCtr (replaceCtr act c) k = (findCtr act k).map (fun x => if x.cid == c.cid then c else x) := by
  unfold findCtr replaceCtr
  induction act with
  | nil => rfl
  | cons x xs ih =>
    simp only [List.map_cons, List.find?_cons]
    have hp : ((if x.cid == c.cid then c else x).cid == k) = (x.cid == k) := by
      by_cases h : x.cid == c.cid
      · simp only [h, ↓reduceIte]
        have : x.cid = c.cid := by simpa using h
        rw [this]
      · simp only [h]; rfl
    rw [hp]
    by_cases hk : x.cid == k
    · simp [hk]
    · simp only [hk]; exact ih

theorem killedIn_replace (act : List Ctr) (c : Ctr) (hc : c.err = true) (u : Ctr) (hu : (findCtr act u.cid).isSome) :
    killedIn (replaceCtr act c) u = (killedIn act u || (u.cid == c.cid)) := by
  unfold killedIn
  rw [findCtr_replace]
  cases hf : findCtr act u.cid with
  | none => rw [hf] at hu; cases hu
  | some x =>
    have hx : x.cid = u.cid := by
      unfold findCtr at hf
      have := List.find?_some hf
      simpa using this
    simp only [Option.map_some]
    by_cases h : x.cid == c.cid
    · simp only [h, ↓reduceIte, hc]
      have : (u.cid == c.cid) = true := by rw [← hx]; exact h
      simp [this]
    · have : (u.cid == c.cid) = false := by rw [← hx]; simpa using h
      simp [h, this]

theorem findCtr_replace_isSome (act : List Ctr) (c : Ctr) (k : Nat) :
    (findCtr (replaceCtr act c) k).isSome = (findCtr act k).isSome := by
  rw [findCtr_replace]; cases findCtr act k <;> rfl

/-- which containers the loop marks as killed: exactly the first `nVictims` of the given order -/
theorem killVictims_marks (capR : Nat) : ∀ (vs : List Ctr) (w : Store) (act : List Ctr) (cons : Int) (w' : Store) (act' : List Ctr) (cons' : Int),
    killVictims w capR act cons vs = .ok (w', act', cons') →
    ∀ u, (findCtr act u.cid).isSome →
      killedIn act' u = (killedIn act u || ((vs.take (nVictims capR cons vs)).map (·.cid)).contains u.cid) := by
  intro vs
  induction vs with
  | nil => intro w act cons w' act' cons' h u _; simp [killVictims] at h; simp [nVictims, h.2.1]
  | cons v vs ih =>
    intro w act cons w' act' cons' h u hu
    unfold killVictims at h
    simp only [nVictims]
    split at h
    · rename_i hle
      simp only [hle, ↓reduceIte, List.take_zero, List.map_nil, List.contains_nil, Bool.or_false]
      cases h; rfl
    · rename_i hgt
      simp only [hgt, ↓reduceIte]
      split at h
      · cases h
      · rename_i w1 v1 cons1 hk
        obtain ⟨hc, herr, _, _, hcid⟩ := kill_cons hk
        have hu1 : (findCtr (replaceCtr act v1) u.cid).isSome := by rw [findCtr_replace_isSome]; exact hu
        rw [ih _ _ _ _ _ _ h u hu1, killedIn_replace act v1 herr u hu, hc, hcid]
        simp only [List.take_succ_cons, List.map_cons, List.contains_cons, Bool.or_assoc]

end Eudoxia
