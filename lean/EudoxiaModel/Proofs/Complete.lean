import EudoxiaModel.Proofs.Cover
import EudoxiaModel.Proofs.NaiveMulti
import EudoxiaModel.Proofs.TickFrame
/-! When the last operator of a pipeline completes, the tick reports a success: an operator completes only inside a container; no container is lost by a tick
    (`Cover.lean`); and a container that still has work left holds operators that are not COMPLETED.  So if all operators of a pipeline are COMPLETED after a
    tick and one of them was not before, the container that completed it has nothing left — and such a container is reported, as a success, in that very
    tick.  This is what makes the simulator's completion sweep — which only looks when a tick has results — see every completion in the tick it happens. -/
namespace Eudoxia
open OpState Extracted

/-- all operators of the container belong to one pipeline -/
def InOne (pipes : Array PipeInfo) (ops : List Nat) : Prop := ∃ P, ∀ o ∈ ops, o ∈ (pipes.getD P default).order

/-- every container holds operators of one pipeline only, and a container being written out has work left -/
structure World.OnePipe (w : World) : Prop where
  one : ∀ p ∈ w.pools, ∀ c ∈ p.active ++ p.suspending, InOne w.pipes c.ops
  sne : ∀ p ∈ w.pools, ∀ c ∈ p.suspending, c.unfinished ≠ []

theorem execTick_static {w w2 : World} {sus : List (Nat × Nat)} {asgs : List Asg} {res : List Res} (hx : w.execTick sus asgs = .ok (w2, res)) :
    w2.pipes = w.pipes ∧ w2.cfg = w.cfg := by
  unfold World.execTick at hx
  split at hx
  · cases hx
  · split at hx
    · cases hx
    · cases hx
    · simp only [Except.ok.injEq, Prod.mk.injEq] at hx
      obtain ⟨rfl, _⟩ := hx
      exact ⟨rfl, rfl⟩

theorem inOne_kept (cfg : Cfg) (pipes : Array PipeInfo) : Kept cfg (fun c => InOne pipes c.ops) :=
  ⟨fun _ _ _ _ _ _ h hc => by rw [tick_ops h]; exact hc,
   fun w c cons w' c' cons' h hc => by rw [(kill_live w c cons w' c' cons' h).1]; exact hc⟩

/-- **the completion of a pipeline comes with a success result, in the same tick** -/
theorem execTick_completion (w0 w1 : World) (asgs : List Asg) (sus : List (Nat × Nat)) (hr : WorldReady w0) (hb : Built w0 asgs w1)
    (hseg : ∀ a ∈ asgs, ∀ r ∈ a.ops, w0.store.segsOf r ≠ []) (hpar : ∀ a ∈ asgs, ParentsOK w1.store a.ops)
    (hsus : ∀ i, ((sus.filter (·.1 == i)).map (·.2)).Nodup) (hf : w0.FinS) (hc : w0.CidsOK) (hpid : w0.PidOK) (h1 : w0.OnePipe)
    (ha1 : ∀ a ∈ asgs, InOne w0.pipes a.ops)
    {w2 : World} {res : List Res} (hx : w1.execTick sus asgs = .ok (w2, res)) :
    w2.OnePipe ∧ (∀ r ∈ res, InOne w0.pipes r.ops) ∧ ∀ pid, (∀ o ∈ (w0.pipes.getD pid default).order, w2.store.stOf o = completed) →
      (∃ o ∈ (w0.pipes.getD pid default).order, w1.store.stOf o ≠ completed) →
      ∃ r ∈ res, r.ok = true ∧ ∃ o ∈ r.ops, o ∈ (w0.pipes.getD pid default).order := by
  obtain ⟨e1, e2, e3, est⟩ := built_frame hb
  obtain ⟨_, _, b3, b4⟩ := built_spec hb
  obtain ⟨_, _, _, cDS, _⟩ := cidsOK_facts hc
  have hpipes1 : w1.pipes = w0.pipes := Naive.built_pipes hb
  obtain ⟨hp2, hcfg2⟩ := execTick_static hx
  have hJ := poolsReady_of_built w0 w1 asgs hr hb hseg hpar
  have hg1 : ∀ p ∈ w1.pools, PoolGoodMem w1.cfg p w1.nextCid := by
    intro p hp; rw [e1] at hp; rw [e2, e3]; exact (hr.pools p hp).1
  have r2 : WorldReady w2 := by
    rcases execTick_raises_only_at_the_gates w0 w1 asgs sus hr hb hseg hpar hsus with ⟨w2', res', h', hr'⟩ | ⟨e, st, h', _⟩
    · rw [hx] at h'
      simp only [Except.ok.injEq, Prod.mk.injEq] at h'
      rw [h'.1]; exact hr'
    · rw [hx] at h'; cases h'
  obtain ⟨hfin2, cs, js, hres, hcs, hjs, _, _, hsusp2, hsing2⟩ := execTick_finS w0 w1 asgs sus hr hb hseg hpar hsus hf hx
  obtain ⟨kA, kR⟩ := execTick_keptS (inOne_kept w1.cfg w0.pipes) (fun a ha _ _ => ha1 a ha) hg1
    (fun p hp c hc' => by rw [e1] at hp; exact h1.one p hp c (List.mem_append_left _ hc')) hx
  obtain ⟨cA, cB⟩ := execTick_cover hg1 hx
  -- the containers that are, or have just been, handed to the write-out
  have hpre : ∀ c, (∃ c0, (∃ q ∈ w1.pools, c0 ∈ q.suspending ∨ (c0 ∈ q.active ∧ c0.cid ∈ sus.map (·.2))) ∧ Same c0 c) →
      InOne w0.pipes c.ops ∧ c.unfinished ≠ [] := by
    intro c hc'
    obtain ⟨c0, ⟨q, hq, h⟩, hs⟩ := hc'
    rw [e1] at hq
    rw [hs.2.1, Same.unfinished hs]
    rcases h with h | ⟨h, _⟩
    · exact ⟨h1.one q hq c0 (List.mem_append_right _ h), h1.sne q hq c0 h⟩
    · refine ⟨h1.one q hq c0 (List.mem_append_left _ h), ?_⟩
      obtain ⟨_, lp, rf⟩ := hr.pools q hq
      have hn := lp.nc c0 (List.mem_append_left _ h)
      have rd := rf.rd.act c0 h hn
      exact unfinished_ne_nil_of_rem rd.inv.wf (rd.more hn)
  refine ⟨⟨fun p hp c hc' => ?_, fun p hp c hc' => (hpre c (hsing2 p hp c hc')).2⟩, fun r hrr => ?_, ?_⟩
  · rw [hp2, hpipes1]
    rcases List.mem_append.mp hc' with h | h
    · exact kA p hp c h
    · exact (hpre c (hsing2 p hp c h)).1
  · obtain ⟨c, hc', rfl⟩ := kR r hrr
    exact hc'
  intro pid hall hnew
  obtain ⟨r0, hr0, hr0n⟩ := hnew
  have hr0c := hall r0 hr0
  -- the operator that completed was owned by a container, or handed to a new one
  have howner : r0 ∈ w1.pools.flatMap ownP ∨ r0 ∈ opsOf asgs := by
    apply Classical.byContradiction
    intro hno
    have := execTick_frame hJ.live hx r0 (fun h => hno (Or.inl h)) (fun h => hno (Or.inr h))
    rw [this] at hr0c
    exact hr0n hr0c
  -- what a container with the operator list `L` (holding `r0`) can be at the end of the tick
  have key : ∀ L : List Nat, r0 ∈ L → InOne w0.pipes L →
      ((∃ q ∈ w2.pools, ∃ c ∈ q.active ++ q.suspending, c.ops = L) ∨ (∃ c ∈ js, c.ops = L) ∨ (∃ r ∈ res, r.ops = L)) →
      ∃ r ∈ res, r.ok = true ∧ ∃ o ∈ r.ops, o ∈ (w0.pipes.getD pid default).order := by
    intro L hL hone hwhere
    obtain ⟨P, hP⟩ := hone
    have hPp : P = pid := by rw [← hpid P r0 (hP r0 hL), hpid pid r0 hr0]
    subst hPp
    have hcomp : ∀ o ∈ L, w2.store.stOf o = completed := fun o ho => hall o (hP o ho)
    have absurdUnf : ∀ c : Ctr, c.ops = L → c.unfinished ≠ [] → (∀ o ∈ c.unfinished, w2.store.stOf o ≠ completed) → False := by
      intro c hcL hne hst
      cases hu : c.unfinished with
      | nil => exact hne hu
      | cons o rest =>
        have ho : o ∈ c.unfinished := by rw [hu]; simp
        exact hst o ho (hcomp o (by rw [← hcL]; exact List.mem_of_mem_drop ho))
    rcases hwhere with ⟨q, hq, c, hc', hcL⟩ | ⟨c, hc', hcL⟩ | ⟨r, hrr, hrL⟩
    · exfalso
      have hbusy := owned_busy r2 hq hc'
      have hne : c.unfinished ≠ [] := by
        rcases List.mem_append.mp hc' with h | h
        · obtain ⟨_, lp, rf⟩ := r2.pools q hq
          have hn := lp.nc c (List.mem_append_left _ h)
          have rd := rf.rd.act c h hn
          exact unfinished_ne_nil_of_rem rd.inv.wf (rd.more hn)
        · exact (hpre c (hsing2 q hq c h)).2
      exact absurdUnf c hcL hne (fun o ho e => by rcases hbusy o ho with f | f | f <;> rw [e] at f <;> cases f)
    · exfalso
      obtain ⟨_, _, hpk, hc0, _⟩ := hjs c hc'
      exact absurdUnf c hcL (hpre c hc0).2 (fun o ho e => by rw [hpk o ho] at e; cases e)
    · rw [hres] at hrr
      obtain ⟨c, hcm, rfl⟩ := List.mem_map.mp hrr
      obtain ⟨f, hcc⟩ := hcs c hcm
      have hcL : c.ops = L := hrL
      cases herr : c.err with
      | false => exact ⟨mkRes c, by rw [hres]; exact List.mem_map_of_mem hcm, by simp [mkRes, herr], r0, by show r0 ∈ c.ops; rw [hcL]; exact hL, hr0⟩
      | true =>
        exfalso
        obtain ⟨hne, hfail⟩ := f.dead hcc herr
        exact absurdUnf c hcL hne (fun o ho e => by rw [hfail o ho] at e; cases e)
  -- a suspended-list container with the number of a container that was running or being written out is one of `js`
  have notOld : ∀ (q : Pool), q ∈ w2.pools → ∀ c ∈ q.suspended, ∀ (p : Pool), p ∈ w0.pools → ∀ c0 ∈ p.active ++ p.suspending, c.cid = c0.cid → c ∈ js := by
    intro q hq c hc' p hp c0 hc0 e
    rcases hsusp2 q hq c hc' with ⟨q', hq', hcq⟩ | h
    · exfalso
      rw [e1] at hq'
      have hD : c.cid ∈ cids (w0.pools.flatMap (·.suspended)) := List.mem_map_of_mem (List.mem_flatMap.mpr ⟨q', hq', hcq⟩)
      obtain ⟨n1, n2⟩ := cDS _ hD
      rcases List.mem_append.mp hc0 with h | h
      · exact n2 (by rw [e]; exact List.mem_map_of_mem (List.mem_flatMap.mpr ⟨p, hp, h⟩))
      · exact n1 (by rw [e]; exact List.mem_map_of_mem (List.mem_flatMap.mpr ⟨p, hp, h⟩))
    · exact h
  rcases howner with hown | hasg
  · obtain ⟨p, hp, hop⟩ := List.mem_flatMap.mp hown
    simp only [ownP, own] at hop
    obtain ⟨c0, hc0, hoc⟩ := List.mem_flatMap.mp hop
    obtain ⟨hc0m, _⟩ := List.mem_filter.mp hc0
    have hp0 : p ∈ w0.pools := by rw [← e1]; exact hp
    have hL : r0 ∈ c0.ops := List.mem_of_mem_drop hoc
    apply key c0.ops hL (h1.one p hp0 c0 hc0m)
    rcases cA p hp c0 hc0m with ⟨q, hq, c, hc', c1, c2⟩ | ⟨r, hrr, _, r2'⟩
    · rcases List.mem_append.mp hc' with h | h
      · exact Or.inl ⟨q, hq, c, h, c2⟩
      · exact Or.inr (Or.inl ⟨c, notOld q hq c h p hp0 c0 hc0m c1, c2⟩)
    · exact Or.inr (Or.inr ⟨r, hrr, r2'⟩)
  · obtain ⟨a, ha, hoa⟩ := List.mem_flatMap.mp hasg
    apply key a.ops hoa (ha1 a ha)
    rcases cB a ha with ⟨q, hq, c, hc', e⟩ | ⟨r, hrr, e⟩
    · exact Or.inl ⟨q, hq, c, List.mem_append_left _ hc', e⟩
    · exact Or.inr (Or.inr ⟨r, hrr, e⟩)

end Eudoxia
