import EudoxiaModel.Proofs.PriorityLoop
import EudoxiaModel.Proofs.NaiveExample
/-! The concrete world of `NaiveExample` (a diamond DAG, two pools, nothing started), with single-operator containers, meets every hypothesis of the
    priority closed-loop theorem. -/
namespace Eudoxia.PriorityExample
open Eudoxia OpState Extracted

theorem inv : Prio.PRInv (NaiveExample.world false) {} [] := by
  refine ⟨NaiveExample.ready false, NaiveExample.wfp false, NaiveExample.segsOK false, (NaiveExample.naiveInv false).pid, NaiveExample.noSusp false,
    rfl, rfl, by decide, ⟨by simp [Prio.St.jobs], by intro j hj; simp [Prio.St.jobs] at hj⟩, rfl, by simp, ?_⟩
  intro p hp c hc
  simp only [NaiveExample.world, List.map_cons, List.map_nil, List.mem_cons, List.not_mem_nil, or_false] at hp
  rcases hp with rfl | rfl <;> simp [Pool.fresh] at hc

theorem runs (arrivals : List (List Nat)) (h : ∀ newP ∈ arrivals, newP.Nodup) : ∃ out, Prio.loop (NaiveExample.world false) {} [] arrivals = .ok out :=
  let ⟨w', st', res', h', _⟩ := Prio.run_single_never_raises arrivals _ _ _ h inv; ⟨(w', st', res'), h'⟩

end Eudoxia.PriorityExample
