import EudoxiaModel.Proofs.DeadSusp
import EudoxiaModel.Proofs.WorldDead
/-! The executor tick with suspension requests, seen from the scheduler's side. -/
namespace Eudoxia
open OpState Extracted

/-- every container of every pool — running or writing out — has its record straight -/
def World.FinS (w : World) : Prop := ∀ p ∈ w.pools, ∀ c ∈ p.active ++ p.suspending, Fin w.store c

/-- **what an executor tick reports, suspension requests included**: the results are those of ended containers `cs` whose operators are COMPLETED up to where they
got and, after an error, FAILED from there on; `js` are the containers whose write-out ended in this tick: they are now in a suspended list, not ended, their
whole unfinished suffix PENDING again; any other container of a suspended list was there before.  The unfinished operators of `cs` and `js` are pairwise
distinct and were ASSIGNED, RUNNING or SUSPENDING when the tick began. -/
theorem execTick_finS (w0 w1 : World) (asgs : List Asg) (sus : List (Nat × Nat)) (hr : WorldReady w0) (hb : Built w0 asgs w1)
    (hseg : ∀ a ∈ asgs, ∀ r ∈ a.ops, w0.store.segsOf r ≠ []) (hpar : ∀ a ∈ asgs, ParentsOK w1.store a.ops)
    (hsus : ∀ i, ((sus.filter (·.1 == i)).map (·.2)).Nodup) (hf : w0.FinS)
    {w2 : World} {res : List Res} (hx : w1.execTick sus asgs = .ok (w2, res)) :
    w2.FinS ∧ ∃ cs js, res = cs.map mkRes ∧ (∀ c ∈ cs, Fin w2.store c ∧ c.completed = true) ∧
      (∀ c ∈ js, Fin w2.store c ∧ c.completed = false ∧ Parked w2.store c ∧
        (∃ c0, (∃ q ∈ w1.pools, c0 ∈ q.suspending ∨ (c0 ∈ q.active ∧ c0.cid ∈ sus.map (·.2))) ∧ Same c0 c) ∧ ∃ p ∈ w2.pools, c ∈ p.suspended) ∧
      (allUnf cs ++ allUnf js).Nodup ∧
      (∀ o ∈ allUnf cs ++ allUnf js, Busy (w1.store.stOf o)) ∧
      (∀ p ∈ w2.pools, ∀ c ∈ p.suspended, (∃ q ∈ w1.pools, c ∈ q.suspended) ∨ c ∈ js) ∧
      (∀ p ∈ w2.pools, ∀ c ∈ p.suspending, ∃ c0, (∃ q ∈ w1.pools, c0 ∈ q.suspending ∨ (c0 ∈ q.active ∧ c0.cid ∈ sus.map (·.2))) ∧ Same c0 c) := by
  have hJ := poolsReady_of_built w0 w1 asgs hr hb hseg hpar
  obtain ⟨e1, _, _, est⟩ := built_frame hb
  obtain ⟨_, _, b3, b4⟩ := built_spec hb
  have howned : ∀ p ∈ w0.pools, ∀ o ∈ ownP p, Busy (w0.store.stOf o) ∧ o ∉ asgs.flatMap (·.ops) := by
    intro p hp o ho
    obtain ⟨_, lp, _⟩ := hr.pools p hp
    simp only [ownP, own] at ho
    obtain ⟨c, hc, hoc⟩ := List.mem_flatMap.mp ho
    obtain ⟨hc1, hc2⟩ := List.mem_filter.mp hc
    have hbusy := lp.busy c hc1 (by simpa using hc2) o hoc
    refine ⟨hbusy, fun hx' => ?_⟩
    have := (b3 o hx').1
    simp only [assignable, List.mem_cons, List.not_mem_nil, or_false] at this
    rcases hbusy with e | e | e <;> rcases this with f | f <;> rw [e] at f <;> cases f
  have hfin1 : ∀ p ∈ w1.pools, ∀ c ∈ p.active ++ p.suspending, Fin w1.store c := by
    intro p hp c hc
    rw [e1] at hp
    obtain ⟨_, lp, _⟩ := hr.pools p hp
    apply fin_frame (hf p hp c hc) est
    intro o ho
    apply b4
    exact (howned p hp o (mem_own hc (lp.nc c hc) ho)).2
  unfold World.execTick at hx
  split at hx
  · cases hx
  · split at hx
    · cases hx
    · cases hx
    · rename_i s ps n rr hexp
      simp only [Except.ok.injEq, Prod.mk.injEq] at hx
      obtain ⟨rfl, rfl⟩ := hx
      have := execPools_finS w1.cfg sus asgs hsus (fun o => Busy (w1.store.stOf o))
        (fun o ho => by rw [(b3 o ho).2]; exact Or.inl rfl) (fun c => ∃ q ∈ w1.pools, c ∈ q.suspended)
        (fun c0 => ∃ q ∈ w1.pools, c0 ∈ q.suspending ∨ (c0 ∈ q.active ∧ c0.cid ∈ sus.map (·.2)))
        w1.pools w1.store w1.nextCid [] [] [] s ps n rr hJ (by simpa using hfin1)
        (by intro p hp o ho
            rw [e1] at hp
            rw [b4 o (howned p hp o ho).2]
            exact (howned p hp o ho).1)
        (fun p hp c hc => ⟨p, hp, hc⟩) (by simp) (fun p hp c0 hc0 => ⟨p, hp, hc0⟩) (by simp) (by simp) (by simp) (by simp [allUnf]) (by simp [allUnf]) hexp
      exact this

end Eudoxia
