import EudoxiaModel.Proofs.Conserve
import EudoxiaModel.Proofs.Sort
/-! The pool invariant of C03 (conservation, unique container numbers) through every phase of a pool tick. -/
namespace Eudoxia
open OpState

def cids (l : List Ctr) : List Nat := l.map (·.cid)

theorem cids_keys {l l' : List Ctr} (h : l'.map key = l.map key) : cids l' = cids l := by
  have : ∀ m : List Ctr, cids m = (m.map key).map (·.1) := by
    intro m; simp [cids, key, List.map_map, Function.comp_def]
  rw [this, this, h]

@[simp] theorem cids_append (a b : List Ctr) : cids (a ++ b) = cids a ++ cids b := by simp [cids]
@[simp] theorem cids_cons (c : Ctr) (l : List Ctr) : cids (c :: l) = c.cid :: cids l := rfl
@[simp] theorem cids_nil : cids [] = [] := rfl

theorem cids_filter_sublist (l : List Ctr) (f : Ctr → Bool) : (cids (l.filter f)).Sublist (cids l) := by
  unfold cids; exact List.Sublist.map _ List.filter_sublist

structure PoolInv (p : Pool) (n : Nat) : Prop where
  cpu : p.availC + cpuSum p.active + cpuSum p.suspending = p.capC
  ram : p.availR + ramSum p.active + ramSum p.suspending = p.capR
  nodup : (cids p.active ++ cids p.suspending).Nodup
  fresh : ∀ k ∈ cids p.active ++ cids p.suspending, k < n

theorem PoolInv.mono {p : Pool} {n n' : Nat} (h : PoolInv p n) (hn : n ≤ n') : PoolInv p n' :=
  ⟨h.cpu, h.ram, h.nodup, fun k hk => Nat.lt_of_lt_of_le (h.fresh k hk) hn⟩

theorem poolInv_fresh (cpus ram n : Nat) : PoolInv (Pool.fresh cpus ram) n := by
  constructor <;> simp [Pool.fresh]

/-- removing the container found by number -/
theorem find_remove : ∀ (l : List Ctr) (k : Nat) (c : Ctr), findCtr l k = some c → (cids l).Nodup →
    c.cid = k ∧ cpuSum l = c.cpu + cpuSum (l.filter (·.cid != k)) ∧ ramSum l = c.ram + ramSum (l.filter (·.cid != k)) ∧
    (c.cid :: cids (l.filter (·.cid != k))).Perm (cids l) := by
  intro l
  induction l with
  | nil => intro k c h; simp [findCtr] at h
  | cons x l ih =>
    intro k c h hnd
    simp only [cids_cons, List.nodup_cons] at hnd
    unfold findCtr at h
    by_cases hx : x.cid == k
    · simp [List.find?_cons, hx] at h
      subst h
      have hk : x.cid = k := by simpa using hx
      have hfil : l.filter (·.cid != k) = l := by
        apply List.filter_eq_self.mpr
        intro y hy
        simp only [bne_iff_ne, ne_eq]
        intro heq
        apply hnd.1
        rw [hk, ← heq]
        exact List.mem_map_of_mem hy
      have hx' : (x.cid != k) = false := by simp [hk]
      refine ⟨hk, ?_, ?_, ?_⟩
      · simp [List.filter_cons, hx', hfil]
      · simp [List.filter_cons, hx', hfil]
      · simp [List.filter_cons, hx', hfil]
    · have hx' : (x.cid != k) = true := by simpa using hx
      simp [List.find?_cons, hx] at h
      obtain ⟨h1, h2, h3, h4⟩ := ih k c (by unfold findCtr; exact h) hnd.2
      refine ⟨h1, ?_, ?_, ?_⟩
      · simp [List.filter_cons, hx', h2]; omega
      · simp [List.filter_cons, hx', h3]; omega
      · simp only [List.filter_cons, hx', ↓reduceIte, cids_cons]
        exact (List.Perm.swap _ _ _).trans (List.Perm.cons _ h4)

theorem doSuspends_inv (cfg : Cfg) : ∀ (l : List Nat) (w : Store) (p : Pool) (n : Nat) (w' : Store) (p' : Pool),
    PoolInv p n → doSuspends cfg w p l = .ok (w', p') →
    PoolInv p' n ∧ p'.capC = p.capC ∧ p'.capR = p.capR ∧ p'.availC = p.availC ∧ p'.availR = p.availR := by
  intro l
  induction l with
  | nil =>
    intro w p n w' p' inv h
    simp [doSuspends] at h
    rw [← h.2]; exact ⟨inv, rfl, rfl, rfl, rfl⟩
  | cons cid rest ih =>
    intro w p n w' p' inv h
    unfold doSuspends at h
    split at h
    · cases h
    · rename_i c hfind
      split at h
      · cases h
      · rename_i w1 c1 hs
        have hk : key c1 = key c := suspend_key hs
        have hnd : (cids p.active).Nodup := (List.nodup_append.mp inv.nodup).1
        obtain ⟨hc, hcpu, hram, hperm⟩ := find_remove _ _ _ hfind hnd
        have hc1cpu : c1.cpu = c.cpu := by have := congrArg (·.2.1) hk; simpa [key] using this
        have hc1ram : c1.ram = c.ram := by have := congrArg (·.2.2) hk; simpa [key] using this
        have hc1cid : c1.cid = c.cid := by have := congrArg (·.1) hk; simpa [key] using this
        have inv1 : PoolInv { p with suspending := p.suspending ++ [c1], active := p.active.filter (·.cid != cid) } n := by
          constructor
          · simp only [cpuSum_append, cpuSum_cons, cpuSum_nil]
            have := inv.cpu; rw [hcpu] at this; rw [hc1cpu]; omega
          · simp only [ramSum_append, ramSum_cons, ramSum_nil]
            have := inv.ram; rw [hram] at this; rw [hc1ram]; omega
          · simp only [cids_append, cids_cons, cids_nil]
            have hp : (cids (p.active.filter (·.cid != cid)) ++ (cids p.suspending ++ [c1.cid])).Perm (cids p.active ++ cids p.suspending) := by
              rw [hc1cid]
              have h1 : (cids (p.active.filter (·.cid != cid)) ++ (cids p.suspending ++ [c.cid])).Perm
                  ((c.cid :: cids (p.active.filter (·.cid != cid))) ++ cids p.suspending) := by
                rw [← List.append_assoc]
                exact (List.perm_append_comm).trans (by simpa using List.perm_middle.symm)
              exact h1.trans (List.Perm.append_right _ hperm)
            exact hp.nodup_iff.mpr inv.nodup
          · intro k hk
            simp only [cids_append, cids_cons, cids_nil] at hk
            apply inv.fresh
            rcases List.mem_append.mp hk with h1 | h1
            · exact List.mem_append_left _ ((cids_filter_sublist _ _).subset h1)
            · rcases List.mem_append.mp h1 with h2 | h2
              · exact List.mem_append_right _ h2
              · simp at h2; subst h2; rw [hc1cid]
                exact List.mem_append_left _ (hperm.subset (by simp))
        obtain ⟨i1, i2, i3, i4, i5⟩ := ih _ _ _ _ _ inv1 h
        exact ⟨i1, i2, i3, i4, i5⟩

theorem cpuReq_cons (a : Asg) (as : List Asg) : cpuReq (a :: as) = a.cpu + cpuReq as := by simp [cpuReq]
theorem ramReq_cons (a : Asg) (as : List Asg) : ramReq (a :: as) = a.ram + ramReq as := by simp [ramReq]

/-- creating the containers of a batch -/
theorem startAll_inv (cfg : Cfg) (w : Store) : ∀ (as : List Asg) (p : Pool) (n : Nat),
    PoolInv p n →
    (∀ p' n', startAll cfg w p n as = .ok (p', n') →
      PoolInv p' n' ∧ n ≤ n' ∧ p'.capC = p.capC ∧ p'.capR = p.capR ∧
      p'.availC = p.availC - cpuReq as ∧ p'.availR = p.availR - ramReq as) ∧
    (∀ e p' n', startAll cfg w p n as = .error (e, p', n') →
      PoolInv p' n' ∧ n ≤ n' ∧ p'.capC = p.capC ∧ p'.capR = p.capR ∧
      p.availC - cpuReq as ≤ p'.availC ∧ p.availR - ramReq as ≤ p'.availR) := by
  intro as
  induction as with
  | nil =>
    intro p n inv
    constructor
    · intro p' n' h; simp [startAll] at h; obtain ⟨rfl, rfl⟩ := h
      simp [cpuReq, ramReq]; exact inv
    · intro e p' n' h; simp [startAll] at h
  | cons a rest ih =>
    intro p n inv
    have inv1 : PoolInv { p with availC := p.availC - a.cpu, availR := p.availR - a.ram,
                                 active := p.active ++ [mkCtr w n a], created := p.created + 1 } (n + 1) := by
      constructor
      · simp only [cpuSum_append, cpuSum_cons, cpuSum_nil, mkCtr]; have := inv.cpu; omega
      · simp only [ramSum_append, ramSum_cons, ramSum_nil, mkCtr]; have := inv.ram; omega
      · simp only [cids_append, cids_cons, cids_nil, mkCtr]
        have hp : ((cids p.active ++ [n]) ++ cids p.suspending).Perm (n :: (cids p.active ++ cids p.suspending)) := by
          simpa using (List.perm_middle (a := n) (l₁ := cids p.active) (l₂ := cids p.suspending))
        apply hp.nodup_iff.mpr
        rw [List.nodup_cons]
        exact ⟨fun hmem => Nat.lt_irrefl _ (inv.fresh n hmem), inv.nodup⟩
      · intro k hk
        simp only [cids_append, cids_cons, cids_nil, mkCtr] at hk
        rcases List.mem_append.mp hk with h1 | h1
        · rcases List.mem_append.mp h1 with h2 | h2
          · exact Nat.lt_succ_of_lt (inv.fresh k (List.mem_append_left _ h2))
          · simp at h2; omega
        · exact Nat.lt_succ_of_lt (inv.fresh k (List.mem_append_right _ h1))
    obtain ⟨ihok, iherr⟩ := ih _ _ inv1
    constructor
    · intro p' n' h
      unfold startAll at h
      split at h
      · cases h
      · obtain ⟨i1, i2, i3, i4, i5, i6⟩ := ihok _ _ h
        refine ⟨i1, by omega, i3, i4, ?_, ?_⟩
        · rw [i5, cpuReq_cons]; simp only; omega
        · rw [i6, ramReq_cons]; simp only; omega
    · intro e p' n' h
      unfold startAll at h
      split at h
      · simp at h; obtain ⟨_, rfl, rfl⟩ := h
        refine ⟨inv, Nat.le_refl _, rfl, rfl, ?_, ?_⟩
        · have : (0 : Int) ≤ (cpuReq (a :: rest) : Nat) := Int.natCast_nonneg _; omega
        · have : (0 : Int) ≤ (ramReq (a :: rest) : Nat) := Int.natCast_nonneg _; omega
      · obtain ⟨i1, i2, i3, i4, i5, i6⟩ := iherr _ _ _ h
        refine ⟨i1, by omega, i3, i4, ?_, ?_⟩
        · rw [cpuReq_cons]; simp only at i5; omega
        · rw [ramReq_cons]; simp only at i6; omega

theorem cpuSum_nonneg (l : List Ctr) : 0 ≤ cpuSum l := by
  induction l with
  | nil => simp
  | cons c l ih => simp; have : (0 : Int) ≤ (c.cpu : Nat) := Int.natCast_nonneg _; omega

theorem ramSum_nonneg (l : List Ctr) : 0 ≤ ramSum l := by
  induction l with
  | nil => simp
  | cons c l ih => simp; have : (0 : Int) ≤ (c.ram : Nat) := Int.natCast_nonneg _; omega

/-- phase 3 -/
theorem suspTickAll_inv {w w' : Store} {p p' : Pool} {n : Nat} (inv : PoolInv p n)
    (h : suspTickAll w p = .ok (w', p')) :
    PoolInv p' n ∧ p'.capC = p.capC ∧ p'.capR = p.capR ∧ p.availC ≤ p'.availC ∧ p.availR ≤ p'.availR ∧ p'.active = p.active := by
  unfold suspTickAll at h
  split at h
  · cases h
  · rename_i w1 l hl
    have hk := suspTickList_keys _ _ _ _ hl
    have hcpu : cpuSum l = cpuSum p.suspending := cpuSum_keys hk
    have hram : ramSum l = ramSum p.suspending := ramSum_keys hk
    have hc : cids l = cids p.suspending := cids_keys hk
    rw [← ok_snd2 h]
    have s1 := cpuSum_filter_split l (fun c => c.suspLeft == 0)
    have s2 := ramSum_filter_split l (fun c => c.suspLeft == 0)
    have nn1 : 0 ≤ cpuSum (l.filter (fun c => c.suspLeft == 0)) := cpuSum_nonneg _
    have nn2 : 0 ≤ ramSum (l.filter (fun c => c.suspLeft == 0)) := ramSum_nonneg _
    refine ⟨⟨?_, ?_, ?_, ?_⟩, rfl, rfl, ?_, ?_, rfl⟩
    · simp only; have := inv.cpu; omega
    · simp only; have := inv.ram; omega
    · simp only
      have hsub : (cids (l.filter (fun c => !(c.suspLeft == 0)))).Sublist (cids p.suspending) := by
        rw [← hc]; exact cids_filter_sublist _ _
      exact (List.Sublist.append (List.Sublist.refl _) hsub).nodup inv.nodup
    · intro k hk'
      simp only at hk'
      apply inv.fresh
      rcases List.mem_append.mp hk' with h1 | h1
      · exact List.mem_append_left _ h1
      · apply List.mem_append_right
        rw [← hc]; exact (cids_filter_sublist _ _).subset h1
    · simp only; omega
    · simp only; omega

theorem inj_of_nodup_map {α β : Type} (f : α → β) : ∀ (l : List α), (l.map f).Nodup → ∀ a ∈ l, ∀ b ∈ l, f a = f b → a = b := by
  intro l
  induction l with
  | nil => intro _ a ha; cases ha
  | cons x xs ih =>
    intro hnd a ha b hb hab
    simp only [List.map_cons, List.nodup_cons] at hnd
    rcases List.mem_cons.mp ha with rfl | ha' <;> rcases List.mem_cons.mp hb with rfl | hb'
    · rfl
    · exact absurd (hab ▸ List.mem_map_of_mem hb') hnd.1
    · exact absurd (hab.symm ▸ List.mem_map_of_mem ha') hnd.1
    · exact ih hnd.2 a ha' b hb' hab

theorem mem_sortDesc {v : Ctr} {l : List Ctr} (h : v ∈ sortDesc l) : v ∈ l :=
  (SortP.sortDesc_perm scoreGe l).subset h

/-- phase 5 keeps every container's number and allocation -/
theorem oomKiller_keys {w w' : Store} {p p' : Pool} (hnd : (cids p.active).Nodup) (h : oomKiller w p = .ok (w', p')) :
    p'.active.map key = p.active.map key ∧ p'.suspending = p.suspending ∧ p'.suspended = p.suspended ∧
    p'.availC = p.availC ∧ p'.availR = p.availR ∧ p'.capC = p.capC ∧ p'.capR = p.capR := by
  unfold oomKiller at h
  split at h
  · cases h
  · rename_i w1 act1 cons1 hk
    have hk1 := killIndividual_keys _ _ _ _ _ _ hk
    split at h
    · rw [← ok_snd2 h]; exact ⟨hk1, rfl, rfl, rfl, rfl, rfl, rfl⟩
    · split at h
      · cases h
      · rename_i w2 act2 cons2 hv
        have hnd1 : ((act1.map key).map (·.1)).Nodup := by
          rw [hk1]; simpa [cids, key, List.map_map, Function.comp_def] using hnd
        have hk2 := killVictims_keys _ _ _ _ _ _ _ _ (by
          intro v hvm k hkm hk1'
          have hv1 : v ∈ act1 := (List.mem_filter.mp (mem_sortDesc hvm)).1
          have : key v ∈ act1.map key := List.mem_map_of_mem hv1
          exact inj_of_nodup_map (·.1) _ hnd1 k hkm (key v) this (by simpa [key] using hk1')) hv
        rw [← ok_snd2 h]
        exact ⟨hk2.trans hk1, rfl, rfl, rfl, rfl, rfl, rfl⟩

theorem collect_fields (p : Pool) :
    (collect p).1.active = p.active.filter (fun c => !c.completed) ∧ (collect p).1.suspending = p.suspending ∧
    (collect p).1.availC = p.availC + cpuSum (p.active.filter (·.completed)) ∧
    (collect p).1.availR = p.availR + ramSum (p.active.filter (·.completed)) ∧
    (collect p).1.capC = p.capC ∧ (collect p).1.capR = p.capR := by
  simp only [collect]
  split <;> simp [Pool.reconcile]

/-- phase 6 -/
theorem collect_inv {p : Pool} {n : Nat} (inv : PoolInv p n) :
    PoolInv (collect p).1 n ∧ (collect p).1.capC = p.capC ∧ (collect p).1.capR = p.capR ∧
    p.availC ≤ (collect p).1.availC ∧ p.availR ≤ (collect p).1.availR := by
  have s1 := cpuSum_filter_split p.active (·.completed)
  have s2 := ramSum_filter_split p.active (·.completed)
  have n1 := cpuSum_nonneg (p.active.filter (·.completed))
  have n2 := ramSum_nonneg (p.active.filter (·.completed))
  have hsub : (cids (p.active.filter (fun c => !c.completed)) ++ cids p.suspending).Sublist (cids p.active ++ cids p.suspending) :=
    List.Sublist.append (cids_filter_sublist _ _) (List.Sublist.refl _)
  obtain ⟨f1, f2, f3, f4, f5, f6⟩ := collect_fields p
  refine ⟨⟨?_, ?_, ?_, ?_⟩, f5, f6, ?_, ?_⟩
  · rw [f1, f2, f3, f5]; have := inv.cpu; omega
  · rw [f1, f2, f4, f6]; have := inv.ram; omega
  · rw [f1, f2]; exact hsub.nodup inv.nodup
  · rw [f1, f2]; intro k hk; exact inv.fresh k (hsub.subset hk)
  · rw [f3]; omega
  · rw [f4]; omega

/-- phases 3–6 -/
theorem poolRun_inv {cfg : Cfg} {w w' : Store} {p p' : Pool} {n : Nat} {res : List Res} (inv : PoolInv p n)
    (h : poolRun cfg w p = .ok (w', p', res)) :
    PoolInv p' n ∧ p'.capC = p.capC ∧ p'.capR = p.capR ∧ p.availC ≤ p'.availC ∧ p.availR ≤ p'.availR := by
  unfold poolRun at h
  split at h
  · cases h
  · rename_i w3 p3 h3
    obtain ⟨i3, c3, r3, a3, b3, act3⟩ := suspTickAll_inv inv h3
    split at h
    · cases h
    · rename_i w4 act4 cons4 h4
      have hk4 := tickAll_keys _ _ _ _ _ _ _ h4
      have i4 : PoolInv { p3 with active := act4, consumed := cons4 } n := by
        constructor
        · simp only; rw [cpuSum_keys hk4]; exact i3.cpu
        · simp only; rw [ramSum_keys hk4]; exact i3.ram
        · simp only; rw [cids_keys hk4]; exact i3.nodup
        · simp only; rw [cids_keys hk4]; exact i3.fresh
      split at h
      · cases h
      · rename_i w5 p5 h5
        have hnd4 : (cids act4).Nodup := (List.nodup_append.mp i4.nodup).1
        obtain ⟨k5, s5, _, a5, b5, c5, r5⟩ := oomKiller_keys (p := { p3 with active := act4, consumed := cons4 }) hnd4 h5
        have i5 : PoolInv p5 n := by
          constructor
          · rw [a5, c5, s5, cpuSum_keys k5]; exact i4.cpu
          · rw [b5, r5, s5, ramSum_keys k5]; exact i4.ram
          · rw [s5, cids_keys k5]; exact i4.nodup
          · rw [s5, cids_keys k5]; exact i4.fresh
        obtain ⟨i6, c6, r6, a6, b6⟩ := collect_inv i5
        have hp' : p' = (collect p5).1 := by
          have := ok_snd h
          exact this.symm
        rw [hp']
        simp only at a5 b5 c5 r5
        exact ⟨i6, by rw [c6, c5, c3], by rw [r6, r5, r3], by omega, by omega⟩

def Pool.NonNeg (over : Bool) (p : Pool) : Prop := 0 ≤ p.availC ∧ (over = false → 0 ≤ p.availR)

/-- the full C03 pool invariant -/
def Pool.Good (cfg : Cfg) (p : Pool) (n : Nat) : Prop := PoolInv p n ∧ p.NonNeg cfg.overcommit

theorem susPhase_inv {cfg : Cfg} {w w1 : Store} {p p1 : Pool} {n : Nat} {l : List Nat} (g : p.Good cfg n)
    (h : (if l.isEmpty then (Except.ok (w, p) : Except Err (Store × Pool))
          else (doSuspends cfg w p l).map (fun (w1, p1) => (w1, p1.reconcile))) = .ok (w1, p1)) :
    p1.Good cfg n ∧ p1.capC = p.capC ∧ p1.capR = p.capR := by
  split at h
  · rw [← ok_snd2 h]; exact ⟨g, rfl, rfl⟩
  · cases hd : doSuspends cfg w p l with
    | error e => simp [hd, Except.map] at h
    | ok v =>
      obtain ⟨w2, p2⟩ := v
      simp [hd, Except.map] at h
      obtain ⟨i1, i2, i3, i4, i5⟩ := doSuspends_inv _ _ _ _ _ _ _ g.1 hd
      rw [← h.2]
      refine ⟨⟨⟨i1.cpu, i1.ram, i1.nodup, i1.fresh⟩, ?_⟩, i2, i3⟩
      show 0 ≤ p2.availC ∧ (cfg.overcommit = false → 0 ≤ p2.availR)
      rw [i4, i5]; exact g.2

theorem verify_ok {cfg : Cfg} {p : Pool} {as : List Asg} (h : verifyAssignments cfg p as = .ok ()) :
    (cpuReq as : Int) ≤ p.availC ∧ (cfg.overcommit = false → (ramReq as : Int) ≤ p.availR) := by
  unfold verifyAssignments at h
  split at h
  · cases h
  · rename_i h1
    split at h
    · cases h
    · rename_i h2
      refine ⟨by omega, ?_⟩
      intro ho
      simp [ho] at h2
      omega

/-- **one pool tick preserves conservation and non-negativity** (accepted or refused with a well-defined state) -/
theorem poolTick_good {cfg : Cfg} {w : Store} {p : Pool} {n : Nat} {cm : Cmds} (g : p.Good cfg n) :
    (∀ w' p' n' res, poolTick cfg w p n cm = .ok (w', p', n', res) →
      p'.Good cfg n' ∧ n ≤ n' ∧ p'.capC = p.capC ∧ p'.capR = p.capR) ∧
    (∀ e w' p' n', poolTick cfg w p n cm = .error (e, some (w', p', n')) →
      p'.Good cfg n' ∧ n ≤ n' ∧ p'.capC = p.capC ∧ p'.capR = p.capR) := by
  constructor
  · intro w' p' n' res h
    unfold poolTick at h
    split at h
    · cases h
    · split at h
      · cases h
      · rename_i w1 p1 hs
        obtain ⟨g1, c1, r1⟩ := susPhase_inv g hs
        split at h
        · cases h
        · rename_i hv
          split at h
          · cases h
          · rename_i p2 n2 hst
            obtain ⟨i2, hn2, c2, r2, a2, b2⟩ := (startAll_inv cfg w1 cm.asgs p1 n g1.1).1 _ _ hst
            split at h
            · cases h
            · rename_i w6 p6 res6 hr
              obtain ⟨i6, c6, r6, a6, b6⟩ := poolRun_inv i2 hr
              simp at h
              obtain ⟨_, rfl, rfl, _⟩ := h
              have hreq : (cpuReq cm.asgs : Int) ≤ p1.availC ∧ (cfg.overcommit = false → (ramReq cm.asgs : Int) ≤ p1.availR) := by
                by_cases he : cm.asgs.isEmpty
                · have : cm.asgs = [] := by simpa using he
                  rw [this]; simp [cpuReq, ramReq]; exact g1.2
                · simp [he] at hv; exact verify_ok hv
              refine ⟨⟨i6, ?_, ?_⟩, hn2, by rw [c6, c2, c1], by rw [r6, r2, r1]⟩
              · omega
              · intro ho; have := hreq.2 ho; omega
  · intro e w' p' n' h
    unfold poolTick at h
    split at h
    · simp at h; obtain ⟨_, _, rfl, rfl⟩ := h; exact ⟨g, Nat.le_refl _, rfl, rfl⟩
    · split at h
      · simp at h
      · rename_i w1 p1 hs
        obtain ⟨g1, c1, r1⟩ := susPhase_inv g hs
        split at h
        · simp at h; obtain ⟨_, _, rfl, rfl⟩ := h; exact ⟨g1, Nat.le_refl _, c1, r1⟩
        · rename_i hv
          split at h
          · rename_i e2 p2 n2 hst
            simp at h; obtain ⟨_, _, rfl, rfl⟩ := h
            obtain ⟨i2, hn2, c2, r2, a2, b2⟩ := (startAll_inv cfg w1 cm.asgs p1 n g1.1).2 _ _ _ hst
            have hreq : (cpuReq cm.asgs : Int) ≤ p1.availC ∧ (cfg.overcommit = false → (ramReq cm.asgs : Int) ≤ p1.availR) := by
              by_cases he : cm.asgs.isEmpty
              · have : cm.asgs = [] := by simpa using he
                rw [this]; simp [cpuReq, ramReq]; exact g1.2
              · simp [he] at hv; exact verify_ok hv
            refine ⟨⟨i2, ?_, ?_⟩, hn2, by rw [c2, c1], by rw [r2, r1]⟩
            · omega
            · intro ho; have := hreq.2 ho; omega
          · split at h
            · simp at h
            · simp at h

/-! ### an overselling batch is rejected as a whole -/

theorem oversell_cpu_refused (cfg : Cfg) (p : Pool) (as : List Asg) (h : (cpuReq as : Int) > p.availC) :
    verifyAssignments cfg p as = .error .overCpu := by
  unfold verifyAssignments; simp [h]

theorem oversell_ram_refused (cfg : Cfg) (p : Pool) (as : List Asg) (hc : (cpuReq as : Int) ≤ p.availC)
    (ho : cfg.overcommit = false) (h : (ramReq as : Int) > p.availR) :
    verifyAssignments cfg p as = .error .overRam := by
  unfold verifyAssignments
  have : ¬ ((cpuReq as : Int) > p.availC) := by omega
  simp [this, ho, h]

theorem doSuspends_active_sub (cfg : Cfg) : ∀ (l : List Nat) (w : Store) (p : Pool) (w' : Store) (p' : Pool),
    doSuspends cfg w p l = .ok (w', p') → (cids p'.active).Sublist (cids p.active) := by
  intro l
  induction l with
  | nil => intro w p w' p' h; simp [doSuspends] at h; rw [← h.2]; exact List.Sublist.refl _
  | cons cid rest ih =>
    intro w p w' p' h
    unfold doSuspends at h
    split at h
    · cases h
    · split at h
      · cases h
      · exact (ih _ _ _ _ h).trans (cids_filter_sublist _ _)

/-- when the admission check refuses the batch, no container of the batch exists afterwards:
    the container counter is unchanged and the running containers are among those that ran before -/
theorem rejected_batch_creates_nothing {cfg : Cfg} {w w' : Store} {p p' : Pool} {n n' : Nat} {cm : Cmds} {e : Err}
    (he : e = .overCpu ∨ e = .overRam) (h : poolTick cfg w p n cm = .error (e, some (w', p', n'))) :
    n' = n ∧ (cids p'.active).Sublist (cids p.active) := by
  unfold poolTick at h
  split at h
  · simp at h; obtain ⟨_, _, rfl, rfl⟩ := h; exact ⟨rfl, List.Sublist.refl _⟩
  · split at h
    · simp at h
    · rename_i w1 p1 hs
      have hsub : (cids p1.active).Sublist (cids p.active) := by
        split at hs
        · rw [← ok_snd2 hs]; exact List.Sublist.refl _
        · cases hd : doSuspends cfg w p cm.susp with
          | error e => simp [hd, Except.map] at hs
          | ok v =>
            obtain ⟨w2, p2⟩ := v
            simp [hd, Except.map] at hs
            rw [← hs.2]
            show (cids p2.active).Sublist (cids p.active)
            exact doSuspends_active_sub _ _ _ _ _ _ hd
      split at h
      · simp at h; obtain ⟨_, _, rfl, rfl⟩ := h; exact ⟨rfl, hsub⟩
      · split at h
        · rename_i e2 p2 n2 hst
          simp at h
          -- startAll only ever fails with opCount
          exfalso
          have : e2 = .opCount := by
            clear h
            revert hst
            generalize n = m
            generalize p1 = q
            induction cm.asgs generalizing q m with
            | nil => intro hst; simp [startAll] at hst
            | cons a rest ih =>
              intro hst
              unfold startAll at hst
              split at hst
              · simp at hst; exact hst.1.symm
              · exact ih _ _ hst
          rw [this] at h
          rcases he with rfl | rfl <;> simp at h
        · split at h
          · simp at h
          · simp at h

end Eudoxia
