import EudoxiaModel.Model.Sched.Naive
import EudoxiaModel.Proofs.Built
import EudoxiaModel.Proofs.WorldInv
/-! The naive scheduler's round never raises in a well-formed world. -/
namespace Eudoxia
open OpState Extracted

/-- every pipeline lists each of its operators once, and they exist -/
def World.WFP (w : World) : Prop :=
  ∀ pid, ((w.pipes.getD pid default).order).Nodup ∧ ∀ r ∈ (w.pipes.getD pid default).order, r < w.store.st.size

theorem assignOps_succeeds : ∀ (l : List Nat) (s : Store), l.Nodup → (∀ r ∈ l, r < s.st.size ∧ s.stOf r ∈ assignable) →
    ∃ s', assignOps s l = .ok s' := by
  intro l
  induction l with
  | nil => intro s _ _; exact ⟨s, rfl⟩
  | cons r rs ih =>
    intro s hnd h
    obtain ⟨hb, hst⟩ := h r (by simp)
    simp only [List.nodup_cons] at hnd
    have hcheck : s.check r assigned = .ok () := by
      unfold Store.check
      have h1 : (decide (r < s.st.size)) = true := by simpa using hb
      have h2 : assigned ∈ validNext (s.stOf r) := by
        revert hst; cases s.stOf r <;> simp [assignable, validNext]
      simp [h1, h2]
    have htr : s.transition r assigned = .ok (s.setSt r assigned) := by
      unfold Store.transition; rw [hcheck]
    unfold assignOps
    rw [htr]
    apply ih (s.setSt r assigned) hnd.2
    intro x hx
    have hne : r ≠ x := fun e => hnd.1 (e ▸ hx)
    obtain ⟨hbx, hstx⟩ := h x (List.mem_cons_of_mem _ hx)
    refine ⟨by rw [transition_size htr]; exact hbx, ?_⟩
    rw [transition_other htr hne]; exact hstx

theorem mkAssignment_succeeds (w : World) (a : Asg) (h1 : a.ops ≠ []) (h2 : 0 < a.cpu) (h3 : 0 < a.ram) (hnd : a.ops.Nodup)
    (hst : ∀ r ∈ a.ops, r < w.store.st.size ∧ w.store.stOf r ∈ assignable) : ∃ w', w.mkAssignment a = .ok w' := by
  obtain ⟨s', hs⟩ := assignOps_succeeds a.ops w.store hnd hst
  unfold World.mkAssignment
  have e1 : a.ops.isEmpty = false := by cases hh : a.ops <;> simp_all
  have e2 : (a.cpu == 0) = false := by simp; omega
  have e3 : (a.ram == 0) = false := by simp; omega
  simp only [e1, e2, e3, Bool.false_eq_true, ↓reduceIte, hs]
  exact ⟨_, rfl⟩

theorem mkAssignment_wfp {w w' : World} {a : Asg} (h : w.mkAssignment a = .ok w') (wf : w.WFP) : w'.WFP := by
  obtain ⟨p1, _, _⟩ := mkAssignment_pools_ok h
  have hs := (mkAssignment_steps_ok h).size
  have hp : w'.pipes = w.pipes := by
    unfold World.mkAssignment at h
    split at h
    · cases h
    · split at h
      · cases h
      · split at h
        · cases h
        · split at h
          · cases h
          · cases h; rfl
  intro pid
  rw [hp, hs]
  exact wf pid

theorem getOps_spec (w : World) (pid : Nat) (pc : Bool) (wf : w.WFP) :
    (w.getOps pid assignable pc).Nodup ∧ ∀ r ∈ w.getOps pid assignable pc, r < w.store.st.size ∧ w.store.stOf r ∈ assignable := by
  obtain ⟨nd, hb⟩ := wf pid
  unfold World.getOps
  refine ⟨(List.filter_sublist).nodup nd, ?_⟩
  intro r hr
  obtain ⟨h1, h2⟩ := List.mem_filter.mp hr
  simp only [Bool.and_eq_true, List.contains_iff_mem] at h2
  exact ⟨hb r h1, h2.1⟩

namespace Naive

theorem opsFor_spec (w : World) (multi : Bool) (pid : Nat) (wf : w.WFP) :
    (opsFor w multi pid).Nodup ∧ ∀ r ∈ opsFor w multi pid, r < w.store.st.size ∧ w.store.stOf r ∈ assignable := by
  unfold opsFor
  split
  · exact getOps_spec w pid false wf
  · obtain ⟨n, h⟩ := getOps_spec w pid true wf
    exact ⟨(List.take_sublist _ _).nodup n, fun r hr => h r (List.mem_of_mem_take hr)⟩

/-- the inner loop for one pool never raises -/
theorem pop_succeeds (multi : Bool) (pool cpu ram : Nat) (hc : 0 < cpu) (hr : 0 < ram) : ∀ (queue : List Nat) (w : World) (req : List Nat), w.WFP →
    ∃ w' rest req' oa, pop w multi pool cpu ram queue req = .ok (w', rest, req', oa) ∧ w'.WFP := by
  intro queue
  induction queue with
  | nil => intro w req wf; exact ⟨w, [], req, none, rfl, wf⟩
  | cons pid rest ih =>
    intro w req wf
    unfold pop
    split
    · exact ih w req wf
    · split
      · exact ih w _ wf
      · rename_i hne
        obtain ⟨nd, hst⟩ := opsFor_spec w multi pid wf
        obtain ⟨w1, hw1⟩ := mkAssignment_succeeds w { ops := opsFor w multi pid, cpu := cpu, ram := ram, prio := w.prioOf pid, pool := pool }
          (by intro e; simp only at e; rw [e] at hne; simp at hne) hc hr nd hst
        have hmk : mkA w (opsFor w multi pid) cpu ram (w.prioOf pid) pool = .ok (w1, { ops := opsFor w multi pid, cpu := cpu, ram := ram, prio := w.prioOf pid, pool := pool }) := by
          unfold mkA; rw [hw1]
        rw [hmk]
        exact ⟨w1, rest, req ++ [pid], some _, rfl, mkAssignment_wfp hw1 wf⟩

theorem pools_succeeds (multi : Bool) : ∀ (ips : List (Nat × Pool)) (w : World) (queue req : List Nat) (acc : List Asg), w.WFP →
    ∃ w' queue' req' asgs, pools multi w ips queue req acc = .ok (w', queue', req', asgs) ∧ w'.WFP := by
  intro ips
  induction ips with
  | nil => intro w queue req acc wf; exact ⟨w, queue, req, acc, rfl, wf⟩
  | cons ip ips ih =>
    intro w queue req acc wf
    obtain ⟨i, p⟩ := ip
    unfold pools
    split
    · exact ih w queue req acc wf
    · rename_i hfree
      simp only [Bool.or_eq_true, decide_eq_true_eq, not_or, Int.not_le] at hfree
      obtain ⟨w1, q1, r1, oa, h1, wf1⟩ := pop_succeeds multi i p.availC.toNat p.availR.toNat (by omega) (by omega) queue w req wf
      rw [h1]
      exact ih w1 q1 r1 _ wf1

/-- **the naive scheduler (and the `eudoxia init` starter, `multi = false`) never raises**: in any world whose pipelines list existing
operators without repetition, a round returns a decision — whatever the queue, the results and the arrivals are -/
theorem round_never_raises (multi : Bool) (w : World) (st : St) (results : List Res) (newP : List Nat) (wf : w.WFP) :
    ∃ w' st' dec, round multi w st results newP = .ok (w', st', dec) ∧ w'.WFP := by
  unfold round
  split
  · exact ⟨w, st, {}, rfl, wf⟩
  · obtain ⟨w1, q1, r1, asgs, h1, wf1⟩ := pools_succeeds multi (indexed w.pools) w (st.queue ++ newP) [] [] wf
    rw [h1]
    exact ⟨w1, _, _, rfl, wf1⟩

end Naive
end Eudoxia
