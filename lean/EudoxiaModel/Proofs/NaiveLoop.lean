import EudoxiaModel.Proofs.NaiveSafe
import EudoxiaModel.Proofs.WorldLive
/-! The naive scheduler (single-operator containers — also the starter scheduler written by `eudoxia init`) in closed loop with the executor:
    the loop never raises. -/
namespace Eudoxia
open OpState Extracted

/-- every operator of every pipeline has at least one segment -/
def World.SegsOK (w : World) : Prop := ∀ pid, ∀ r ∈ (w.pipes.getD pid default).order, w.store.segsOf r ≠ []

namespace Naive

/-- what one scan of the queue hands out in single-operator mode -/
theorem pop_single (pool cpu ram : Nat) : ∀ (queue : List Nat) (w : World) (req : List Nat) (w' : World) (rest req' : List Nat) (oa : Option Asg),
    pop w false pool cpu ram queue req = .ok (w', rest, req', oa) → w.SegsOK →
    match oa with
    | none => w' = w
    | some a => w.mkAssignment a = .ok w' ∧ a.pool = pool ∧ a.cpu = cpu ∧ a.ram = ram ∧
        ∃ r, a.ops = [r] ∧ w.store.segsOf r ≠ [] ∧ ∀ q ∈ w.store.parentsOf r, w.store.stOf q = completed := by
  intro queue
  induction queue with
  | nil =>
    intro w req w' rest req' oa h _
    simp only [pop, Except.ok.injEq, Prod.mk.injEq] at h
    obtain ⟨rfl, _, _, rfl⟩ := h
    rfl
  | cons pid q ih =>
    intro w req w' rest req' oa h hs
    unfold pop at h
    split at h
    · exact ih _ _ _ _ _ _ h hs
    · split at h
      · exact ih _ _ _ _ _ _ h hs
      · rename_i hne
        split at h
        · cases h
        · rename_i w1 a1 hmk
          simp only [Except.ok.injEq, Prod.mk.injEq] at h
          obtain ⟨rfl, _, _, rfl⟩ := h
          obtain ⟨ea, hm⟩ := mkA_ok hmk
          -- the single ready operator
          have hops : opsFor w false pid = (w.getOps pid assignable true).take 1 := by simp [opsFor]
          cases hg : w.getOps pid assignable true with
          | nil => rw [hops, hg] at hne; simp at hne
          | cons r rs =>
            have hr : r ∈ w.getOps pid assignable true := by rw [hg]; simp
            unfold World.getOps at hr
            obtain ⟨hr1, hr2⟩ := List.mem_filter.mp hr
            simp only [Bool.and_eq_true, Bool.not_true, Bool.false_or, List.all_eq_true, beq_iff_eq] at hr2
            refine ⟨hm, by rw [ea], by rw [ea], by rw [ea], r, by rw [ea]; simp only; rw [hops, hg]; rfl, hs pid r hr1, hr2.2⟩

theorem segsOK_step {w w' : World} {a : Asg} (h : w.mkAssignment a = .ok w') (hs : w.SegsOK) : w'.SegsOK := by
  obtain ⟨p1, _, _⟩ := mkAssignment_pools_ok h
  have hst := mkAssignment_steps_ok h
  have hp : w'.pipes = w.pipes := by
    unfold World.mkAssignment at h
    split at h
    · cases h
    · split at h
      · cases h
      · split at h
        · cases h
        · split at h
          · cases h
          · cases h; rfl
  intro pid r hr
  rw [hp] at hr
  unfold Store.segsOf; rw [hst.ops]; exact hs pid r hr

/-- the loop over the pools in single-operator mode: a chain of accepted constructions, one per pool at most, each a single ready operator
with all of its pool's free resources -/
theorem pools_single : ∀ (ips : List (Nat × Pool)) (w : World) (queue req : List Nat) (acc : List Asg) (w' : World) (queue' req' : List Nat) (out : List Asg),
    pools false w ips queue req acc = .ok (w', queue', req', out) → w.SegsOK →
    ∃ new, out = acc ++ new ∧ Built w new w' ∧ (new.map (·.pool)).Sublist (ips.map (·.1)) ∧
      ∀ a ∈ new, (∃ ip ∈ ips, ip.1 = a.pool ∧ 0 < ip.2.availC ∧ 0 < ip.2.availR ∧ (a.cpu : Int) = ip.2.availC ∧ (a.ram : Int) = ip.2.availR) ∧
        ∃ r, a.ops = [r] ∧ w'.store.segsOf r ≠ [] ∧ ∀ q ∈ w'.store.parentsOf r, w'.store.stOf q = completed := by
  intro ips
  induction ips with
  | nil =>
    intro w queue req acc w' queue' req' out h _
    simp only [pools, Except.ok.injEq, Prod.mk.injEq] at h
    obtain ⟨rfl, _, _, rfl⟩ := h
    exact ⟨[], by simp, .nil _, by simp, by simp⟩
  | cons ip ips ih =>
    intro w queue req acc w' queue' req' out h hs
    obtain ⟨i, p⟩ := ip
    unfold pools at h
    split at h
    · obtain ⟨new, h1, h2, h3, h4⟩ := ih _ _ _ _ _ _ _ _ h hs
      exact ⟨new, h1, h2, h3.trans (by simp), fun a ha => ⟨let ⟨x, hx, r⟩ := (h4 a ha).1; ⟨x, List.mem_cons_of_mem _ hx, r⟩, (h4 a ha).2⟩⟩
    · rename_i hfree
      simp only [Bool.or_eq_true, decide_eq_true_eq, not_or, Int.not_le] at hfree
      split at h
      · cases h
      · rename_i w1 q1 r1 oa hp
        have hpop := pop_single i _ _ _ _ _ _ _ _ _ hp hs
        cases oa with
        | none =>
          simp only at hpop
          subst hpop
          obtain ⟨new, h1, h2, h3, h4⟩ := ih _ _ _ _ _ _ _ _ h hs
          exact ⟨new, h1, h2, h3.trans (by simp), fun a ha => ⟨let ⟨x, hx, r⟩ := (h4 a ha).1; ⟨x, List.mem_cons_of_mem _ hx, r⟩, (h4 a ha).2⟩⟩
        | some a0 =>
          simp only at hpop
          obtain ⟨hm, e1, e2, e3, r, er, sr, pr⟩ := hpop
          obtain ⟨new, h1, h2, h3, h4⟩ := ih _ _ _ _ _ _ _ _ h (segsOK_step hm hs)
          have hst1 : Steps w.store w1.store := mkAssignment_steps_ok hm
          have hst2 : Steps w1.store w'.store := (built_frame h2).2.2.2
          refine ⟨a0 :: new, by simp [h1], .cons hm h2, by simp only [List.map_cons, e1]; exact h3.cons_cons i, ?_⟩
          intro a ha
          rcases List.mem_cons.mp ha with rfl | ha'
          · refine ⟨⟨(i, p), by simp, e1.symm, hfree.1, hfree.2, by rw [e2]; exact Int.toNat_of_nonneg (by omega), by rw [e3]; exact Int.toNat_of_nonneg (by omega)⟩,
              r, er, ?_, ?_⟩
            · unfold Store.segsOf at sr ⊢; rw [hst2.ops, hst1.ops]; exact sr
            · intro q hq
              have hq' : q ∈ w.store.parentsOf r := by unfold Store.parentsOf at hq ⊢; rw [← hst1.ops, ← hst2.ops]; exact hq
              exact completed_final hst2 q (completed_final hst1 q (pr q hq'))
          · exact ⟨let ⟨x, hx, rr⟩ := (h4 a ha').1; ⟨x, List.mem_cons_of_mem _ hx, rr⟩, (h4 a ha').2⟩


theorem mkAssignment_pipes {w w' : World} {a : Asg} (h : w.mkAssignment a = .ok w') : w'.pipes = w.pipes := by
  unfold World.mkAssignment at h
  split at h
  · cases h
  · split at h
    · cases h
    · split at h
      · cases h
      · split at h
        · cases h
        · cases h; rfl

theorem built_pipes {w w' : World} {as : List Asg} (hb : Built w as w') : w'.pipes = w.pipes := by
  induction hb with
  | nil => rfl
  | cons hm _ ih => rw [ih, mkAssignment_pipes hm]

theorem indexed_mem' {l : List Pool} {ip : Nat × Pool} (h : ip ∈ indexed l) : l[ip.1]? = some ip.2 := by
  unfold indexed at h
  obtain ⟨i, hi⟩ := List.mem_iff_getElem.mp h
  obtain ⟨hlt, he⟩ := hi
  simp only [List.getElem_zip, List.getElem_range] at he
  rw [← he]
  simp only [List.length_zip, List.length_range, Nat.min_self] at hlt
  simp [hlt]

theorem indexed_fst' (l : List Pool) : (indexed l).map (·.1) = List.range l.length := by
  unfold indexed
  rw [List.map_fst_zip]
  simp

theorem filter_le_one_of_nodup_map : ∀ (l : List Asg) (k : Nat), (l.map (·.pool)).Nodup →
    l.filter (·.pool == k) = [] ∨ ∃ a ∈ l, l.filter (·.pool == k) = [a] := by
  intro l
  induction l with
  | nil => intro k _; exact Or.inl rfl
  | cons x xs ih =>
    intro k hnd
    simp only [List.map_cons, List.nodup_cons] at hnd
    by_cases hx : x.pool = k
    · right
      refine ⟨x, by simp, ?_⟩
      have hrest : xs.filter (·.pool == k) = [] := by
        apply List.filter_eq_nil_iff.mpr
        intro y hy
        simp only [beq_iff_eq]
        intro e
        exact hnd.1 (by rw [hx, ← e]; exact List.mem_map_of_mem hy)
      simp [List.filter_cons, hx, hrest]
    · have hxf : (x.pool == k) = false := by simpa using hx
      rcases ih k hnd.2 with h | ⟨a, ha, h⟩
      · left; simp [List.filter_cons, hxf, h]
      · right; exact ⟨a, List.mem_cons_of_mem _ ha, by simp [List.filter_cons, hxf, h]⟩

/-- **one scheduling round plus one executor tick never raise** (single-operator containers: the naive scheduler with `multi_operator_containers = false`
and the starter scheduler written by `eudoxia init`), and everything needed for the next round holds again -/
theorem naive_tick_never_raises (w : World) (st : St) (results : List Res) (newP : List Nat)
    (hr : WorldReady w) (wf : w.WFP) (hs : w.SegsOK) (hm : w.cfg.multiOp = false) :
    ∃ w1 st1 dec w2 res, round false w st results newP = .ok (w1, st1, dec) ∧ w1.execTick dec.sus dec.asgs = .ok (w2, res) ∧
      WorldReady w2 ∧ w2.WFP ∧ w2.SegsOK ∧ w2.cfg.multiOp = false := by
  -- the round: a chain of accepted constructions with the properties the gates ask for
  have hround : ∃ w1 st1 asgs, round false w st results newP = .ok (w1, st1, { asgs := asgs }) ∧ Built w asgs w1 ∧
      (asgs.map (·.pool)).Sublist (List.range w.pools.length) ∧
      ∀ a ∈ asgs, (∃ p, w.pools[a.pool]? = some p ∧ 0 < p.availC ∧ 0 < p.availR ∧ (a.cpu : Int) = p.availC ∧ (a.ram : Int) = p.availR) ∧
        ∃ r, a.ops = [r] ∧ w1.store.segsOf r ≠ [] ∧ ∀ q ∈ w1.store.parentsOf r, w1.store.stOf q = completed := by
    unfold round
    split
    · exact ⟨w, st, [], rfl, .nil _, by simp, by simp⟩
    · obtain ⟨w1, q1, r1, asgs, h1, _⟩ := pools_succeeds false (indexed w.pools) w (st.queue ++ newP) [] [] wf
      obtain ⟨new, e, hb, hsub, hall⟩ := pools_single _ _ _ _ _ _ _ _ _ h1 hs
      simp only [List.nil_append] at e
      subst e
      rw [h1]
      refine ⟨w1, _, asgs, rfl, hb, by rw [← indexed_fst']; exact hsub, ?_⟩
      intro a ha
      obtain ⟨⟨ip, hip, e1, c1, c2, c3, c4⟩, hrest⟩ := hall a ha
      exact ⟨⟨ip.2, by rw [← e1]; exact indexed_mem' hip, c1, c2, c3, c4⟩, hrest⟩
  obtain ⟨w1, st1, asgs, hrd, hb, hsub, hall⟩ := hround
  obtain ⟨e1, e2, e3, est⟩ := built_frame hb
  have hndp : (asgs.map (·.pool)).Nodup := hsub.nodup List.nodup_range
  obtain ⟨w2, res, hex, r2, p2, c2, st2⟩ := execTick_succeeds_of_gates w w1 asgs hr hb
    (by intro a ha r hrr
        obtain ⟨_, r0, er, sr, _⟩ := hall a ha
        rw [er] at hrr; simp at hrr; subst hrr
        unfold Store.segsOf at sr ⊢; rw [← est.ops]; exact sr)
    (by intro a ha
        obtain ⟨_, r0, er, _, pr⟩ := hall a ha
        rw [er]
        intro pre o post e q hq
        have : pre = [] ∧ o = r0 := by
          cases pre with
          | nil => simp at e; exact ⟨rfl, e.1.symm⟩
          | cons x xs => simp at e
        obtain ⟨rfl, rfl⟩ := this
        exact Or.inl (pr q hq))
    (by intro a ha
        have : a.pool ∈ List.range w.pools.length := hsub.subset (List.mem_map_of_mem ha)
        rw [e1]; exact List.mem_range.mp this)
    (by intro k p hk
        rw [e1] at hk
        rcases filter_le_one_of_nodup_map asgs k hndp with h | ⟨a, ha, h⟩
        · left; rw [h]; rfl
        · right
          rw [h]
          obtain ⟨⟨p', hp', _, _, c3, c4⟩, _⟩ := hall a ha
          have hak : a.pool = k := by
            have : a ∈ asgs.filter (·.pool == k) := by rw [h]; simp
            simpa using (List.mem_filter.mp this).2
          rw [hak, hk] at hp'
          cases hp'
          unfold verifyAssignments
          simp only [cpuReq, ramReq, List.map_cons, List.map_nil, List.sum_cons, List.sum_nil, Nat.add_zero]
          rw [if_neg (by omega)]
          split
          · rename_i hx
            simp only [Bool.and_eq_true, Bool.not_eq_true', decide_eq_true_eq] at hx
            omega
          · rfl)
    (by intro a ha
        obtain ⟨_, r0, er, _, _⟩ := hall a ha
        unfold opCountOk
        rw [e2, hm, er]
        simp)
  refine ⟨w1, st1, { asgs := asgs }, w2, res, hrd, hex, r2, ?_, ?_, by rw [c2, e2]; exact hm⟩
  · intro pid
    rw [p2, built_pipes hb, st2.size, est.size]
    exact wf pid
  · intro pid r hrr
    rw [p2, built_pipes hb] at hrr
    unfold Store.segsOf; rw [st2.ops, est.ops]; exact hs pid r hrr


/-- the simulator's main loop for the naive scheduler with single-operator containers: per tick a scheduling round on the previous tick's results and
the new arrivals, then the executor tick on its decision -/
def loop : World → St → List Res → List (List Nat) → Except Err (World × St × List Res)
  | w, st, res, [] => .ok (w, st, res)
  | w, st, res, newP :: rest =>
    match round false w st res newP with
    | .error e => .error e.1
    | .ok (w1, st1, dec) =>
      match w1.execTick dec.sus dec.asgs with
      | .error e => .error e.1
      | .ok (w2, res2) => loop w2 st1 res2 rest

/-- **the naive scheduler (single-operator containers) and the starter scheduler of `eudoxia init` drive any run to its last tick without raising**:
from a ready world whose pipelines are well-formed (existing operators, listed once, each with a segment), for every sequence of arrival batches,
every queue state and whatever the results are -/
theorem run_never_raises : ∀ (arrivals : List (List Nat)) (w : World) (st : St) (res : List Res),
    WorldReady w → w.WFP → w.SegsOK → w.cfg.multiOp = false → ∃ out, loop w st res arrivals = .ok out := by
  intro arrivals
  induction arrivals with
  | nil => intro w st res _ _ _ _; exact ⟨_, rfl⟩
  | cons newP rest ih =>
    intro w st res hr wf hs hm
    obtain ⟨w1, st1, dec, w2, res2, h1, h2, r2, wf2, hs2, hm2⟩ := naive_tick_never_raises w st res newP hr wf hs hm
    obtain ⟨out, ho⟩ := ih w2 st1 res2 r2 wf2 hs2 hm2
    exact ⟨out, by unfold loop; rw [h1]; simp only; rw [h2]; exact ho⟩

end Naive
end Eudoxia
