import EudoxiaModel.Proofs.Oom
/-! Memory accounting of a pool tick (C04): after the tick every running container is within its allocation,
    the reported usage is the sum over the running containers and does not exceed the capacity. -/
namespace Eudoxia
open OpState

/-- what one `Container.tick` does to the container, as far as memory accounting is concerned -/
structure TickRel (c c' : Ctr) (cons cons' : Int) : Prop where
  key : key c' = key c
  cons : cons' = cons + ((c'.mem : Int) - (c.mem : Int))
  doneZero : c'.completed = true → c.completed = false → c'.mem = 0
  doneMono : c.completed = true → c'.completed = true
  within : c'.frozen = false → c'.mem ≤ c'.ram
  err : c'.err = c.err

theorem advance_rel {cfg : Cfg} {w w' : Store} {c c' : Ctr} {cons cons' : Int} (hf : c.frozen = false)
    (h : advance cfg w c cons = .ok (w', c', cons')) : TickRel c c' cons cons' ∧ (c'.frozen = true → c'.mem > c'.ram) := by
  unfold advance at h
  simp only [hf, Bool.false_eq_true, ↓reduceIte] at h
  split at h
  · cases h
  · rename_i w1 c1 hs
    obtain ⟨_, hsame, _⟩ := seek_spec _ _ _ _ _ hs
    have e1 : c1.mem = c.mem := by unfold Ctr.SameButPos at hsame; rw [hsame]
    have e2 : c1.completed = c.completed := by unfold Ctr.SameButPos at hsame; rw [hsame]
    have e3 : c1.err = c.err := by unfold Ctr.SameButPos at hsame; rw [hsame]
    have e4 : c1.frozen = c.frozen := by unfold Ctr.SameButPos at hsame; rw [hsame]
    unfold runTick at h
    split at h
    · obtain ⟨k, _, he, _, _, _, hcons, hz, hm, hw, hfr, _, _⟩ := runAt_spec h
      constructor
      · constructor
        · rw [k, sameButPos_key hsame]
        · rw [hcons, e1]
        · rw [← e2]; exact hz
        · rw [← e2]; exact hm
        · exact hw
        · rw [he, e3]
      · intro hf'
        exact hfr hf' (by rw [e4]; exact hf)
    · cases h

theorem tick_rel {cfg : Cfg} {w w' : Store} {c c' : Ctr} {cons cons' : Int} (hf : c.frozen = false) (hc : c.completed = false)
    (h : c.tick cfg w cons = .ok (w', c', cons')) : TickRel c c' cons cons' ∧ (c'.frozen = true → c'.mem > c'.ram) := by
  unfold Ctr.tick at h
  simp only [hc, Bool.false_eq_true, ↓reduceIte] at h
  split at h
  · cases h
  · rename_i w1 c1 cons1 hadv
    obtain ⟨r, hfz⟩ := advance_rel hf hadv
    cases h
    exact ⟨⟨r.key, r.cons, r.doneZero, r.doneMono, r.within, r.err⟩, hfz⟩

/-- a running container at a tick boundary: not finished, not frozen, within its allocation -/
def CtrOK (c : Ctr) : Prop := c.completed = false ∧ c.frozen = false ∧ c.mem ≤ c.ram

/-- a container after the tick phase: finished ones use no memory, frozen ones exceed their allocation, the others are within it -/
def CtrTicked (c : Ctr) : Prop :=
  (c.completed = true → c.mem = 0) ∧ (c.frozen = true → c.completed = false → c.mem > c.ram) ∧ (c.frozen = false → c.mem ≤ c.ram)

theorem tickAll_mem (cfg : Cfg) : ∀ (l : List Ctr) (w : Store) (cons : Int) (w' : Store) (l' : List Ctr) (cons' : Int),
    (∀ c ∈ l, CtrOK c) → tickAll cfg w l cons = .ok (w', l', cons') →
    cons' = cons + (memSum l' - memSum l) ∧ (∀ c ∈ l', CtrTicked c) := by
  intro l
  induction l with
  | nil => intro w cons w' l' cons' _ h; simp [tickAll] at h; obtain ⟨_, rfl, rfl⟩ := h; simp
  | cons c cs ih =>
    intro w cons w' l' cons' hok h
    unfold tickAll at h
    split at h
    · cases h
    · rename_i w1 c1 cons1 ht
      split at h
      · cases h
      · rename_i w2 cs2 cons2 hr
        obtain ⟨hc0, hf0, _⟩ := hok c (by simp)
        obtain ⟨r, hfz⟩ := tick_rel hf0 hc0 ht
        obtain ⟨i1, i2⟩ := ih _ _ _ _ _ (fun x hx => hok x (by simp [hx])) hr
        cases h
        constructor
        · simp only [memSum_cons]; rw [i1, r.cons]; omega
        · intro x hx
          rcases List.mem_cons.mp hx with rfl | hx'
          · exact ⟨fun h1 => r.doneZero h1 hc0, fun h1 _ => hfz h1, r.within⟩
          · exact i2 x hx'

/-- what `kill` makes of a container -/
def killedCtr (c : Ctr) : Ctr := { c with completed := true, err := true, mem := 0 }

theorem kill_eq {w w' : Store} {c c' : Ctr} {cons cons' : Int} (h : c.kill w cons = .ok (w', c', cons')) :
    c' = killedCtr c ∧ cons' = cons - (c.mem : Int) := by
  unfold Ctr.kill at h
  split at h
  · cases h
  · simp only [Ctr.setMem] at h
    cases h
    exact ⟨rfl, by omega⟩

/-- safe after the killer's first step: within the allocation, and finished containers use nothing -/
def CtrSafe (c : Ctr) : Prop := c.mem ≤ c.ram ∧ (c.completed = true → c.mem = 0) ∧ (c.completed = false → c.frozen = false)

theorem killedCtr_safe (c : Ctr) : CtrSafe (killedCtr c) := ⟨Nat.zero_le _, fun _ => rfl, fun h => by simp [killedCtr] at h⟩

/-- step 1 of the killer: every container over its own limit is killed; afterwards all are safe and the usage counter follows -/
theorem killIndividual_mem : ∀ (l : List Ctr) (w : Store) (cons : Int) (w' : Store) (l' : List Ctr) (cons' : Int),
    (∀ c ∈ l, CtrTicked c) → killIndividual w l cons = .ok (w', l', cons') →
    cons' = cons + (memSum l' - memSum l) ∧ (∀ c ∈ l', CtrSafe c) ∧
    l' = l.map (fun c => if c.mem > c.ram then killedCtr c else c) := by
  intro l
  induction l with
  | nil => intro w cons w' l' cons' _ h; simp [killIndividual] at h; obtain ⟨_, rfl, rfl⟩ := h; simp
  | cons c cs ih =>
    intro w cons w' l' cons' hok h
    have hc := hok c (by simp)
    unfold killIndividual at h
    split at h
    · rename_i hgt
      split at h
      · cases h
      · rename_i w1 c1 cons1 hk
        split at h
        · cases h
        · rename_i w2 cs2 cons2 hr
          obtain ⟨e1, e2⟩ := kill_eq hk
          obtain ⟨i1, i2, i3⟩ := ih _ _ _ _ _ (fun x hx => hok x (by simp [hx])) hr
          cases h
          refine ⟨?_, ?_, ?_⟩
          · simp only [memSum_cons]; rw [i1, e2, e1]; simp only [killedCtr]; omega
          · intro x hx
            rcases List.mem_cons.mp hx with rfl | hx'
            · rw [e1]; exact killedCtr_safe c
            · exact i2 x hx'
          · simp only [List.map_cons, hgt, ↓reduceIte, e1, i3]
    · rename_i hle
      split at h
      · cases h
      · rename_i w2 cs2 cons2 hr
        obtain ⟨i1, i2, i3⟩ := ih _ _ _ _ _ (fun x hx => hok x (by simp [hx])) hr
        cases h
        refine ⟨?_, ?_, ?_⟩
        · simp only [memSum_cons]; rw [i1]; omega
        · intro x hx
          rcases List.mem_cons.mp hx with rfl | hx'
          · refine ⟨by omega, hc.1, ?_⟩
            intro hnc
            apply Bool.eq_false_iff.mpr
            intro hfz
            have := hc.2.1 hfz hnc; omega
          · exact i2 x hx'
        · simp only [List.map_cons, hle, ↓reduceIte, i3]

theorem replaceCtr_eq_map (act : List Ctr) (v : Ctr) (hnd : (cids act).Nodup) (hv : v ∈ act) :
    replaceCtr act (killedCtr v) = act.map (fun x => if x.cid == v.cid then killedCtr x else x) := by
  unfold replaceCtr
  apply List.map_congr_left
  intro x hx
  show (if x.cid == (killedCtr v).cid then killedCtr v else x) = _
  have : (killedCtr v).cid = v.cid := rfl
  rw [this]
  by_cases h : x.cid == v.cid
  · simp only [h, ↓reduceIte]
    have hx' : x = v := inj_of_nodup_map (fun (c : Ctr) => c.cid) act (by simpa [cids] using hnd) x hx v hv (by simpa using h)
    rw [hx']
  · simp only [h]; rfl

/-- **the killer's second step, as a map**: the containers whose number is among the first `nVictims` of the order become killed, the others are untouched -/
theorem killVictims_act (capR : Nat) : ∀ (vs : List Ctr) (w : Store) (act : List Ctr) (cons : Int) (w' : Store) (act' : List Ctr) (cons' : Int),
    (cids act).Nodup → (cids vs).Nodup → (∀ v ∈ vs, v ∈ act) →
    killVictims w capR act cons vs = .ok (w', act', cons') →
    act' = act.map (fun x => if ((vs.take (nVictims capR cons vs)).map (·.cid)).contains x.cid then killedCtr x else x) := by
  intro vs
  induction vs with
  | nil => intro w act cons w' act' cons' _ _ _ h; simp [killVictims] at h; simp [nVictims, h.2.1]
  | cons v vs ih =>
    intro w act cons w' act' cons' hnd hvnd hsub h
    unfold killVictims at h
    simp only [nVictims]
    split at h
    · rename_i hle
      simp only [hle, ↓reduceIte, List.take_zero, List.map_nil, List.contains_nil, Bool.false_eq_true]
      cases h; simp
    · rename_i hgt
      simp only [hgt, ↓reduceIte]
      split at h
      · cases h
      · rename_i w1 v1 cons1 hk
        obtain ⟨e1, e2⟩ := kill_eq hk
        have hv : v ∈ act := hsub v (by simp)
        simp only [cids_cons, List.nodup_cons] at hvnd
        rw [e1, replaceCtr_eq_map act v hnd hv] at h
        have hnd1 : (cids (act.map (fun x => if x.cid == v.cid then killedCtr x else x))).Nodup := by
          have : cids (act.map (fun x => if x.cid == v.cid then killedCtr x else x)) = cids act := by
            unfold cids; rw [List.map_map]; apply List.map_congr_left; intro x _
            simp only [Function.comp]; split <;> rfl
          rw [this]; exact hnd
        have hsub1 : ∀ u ∈ vs, u ∈ act.map (fun x => if x.cid == v.cid then killedCtr x else x) := by
          intro u hu
          have hne : u.cid ≠ v.cid := by
            intro e; apply hvnd.1; rw [← e]; exact List.mem_map_of_mem hu
          apply List.mem_map.mpr
          exact ⟨u, hsub u (by simp [hu]), by simp [hne]⟩
        rw [ih _ _ _ _ _ _ hnd1 hvnd.2 hsub1 h, List.map_map, e2]
        apply List.map_congr_left
        intro x hx
        simp only [Function.comp, List.take_succ_cons, List.map_cons, List.contains_cons]
        by_cases hxv : x.cid == v.cid
        · have hvc : (killedCtr x).cid = x.cid := rfl
          simp only [hxv, ↓reduceIte, hvc, Bool.true_or]
          -- already killed; its number is not among the remaining victims, and killing twice is the same
          split <;> rfl
        · simp only [hxv, Bool.false_or]
          rfl

theorem memSum_map_noop (f : Ctr → Ctr) : ∀ (l : List Ctr), (∀ y ∈ l, (f y).mem = y.mem) → memSum (l.map f) = memSum l := by
  intro l
  induction l with
  | nil => intro _; rfl
  | cons y ys ih =>
    intro h
    simp only [List.map_cons, memSum_cons]
    rw [h y (by simp), ih (fun z hz => h z (by simp [hz]))]

theorem memSum_kill_one (v : Ctr) : ∀ (act : List Ctr), (cids act).Nodup → v ∈ act →
    memSum (act.map (fun x => if x.cid == v.cid then killedCtr x else x)) = memSum act - (v.mem : Int) := by
  intro act
  induction act with
  | nil => intro _ h; cases h
  | cons x xs ih =>
    intro hnd hv
    simp only [cids_cons, List.nodup_cons] at hnd
    simp only [List.map_cons, memSum_cons]
    by_cases hx : x.cid == v.cid
    · have hxv : x = v := by
        rcases List.mem_cons.mp hv with e | e
        · exact e.symm
        · exfalso; apply hnd.1
          have : x.cid = v.cid := by simpa using hx
          rw [this]; exact List.mem_map_of_mem e
      have htail : memSum (xs.map (fun y => if y.cid == v.cid then killedCtr y else y)) = memSum xs := by
        apply memSum_map_noop
        intro y hy
        have : (y.cid == v.cid) = false := by
          simp only [beq_eq_false_iff_ne, ne_eq]
          intro e; apply hnd.1
          have : x.cid = v.cid := by simpa using hx
          rw [this, ← e]; exact List.mem_map_of_mem hy
        simp [this]
      simp only [hx, ↓reduceIte]
      rw [htail, hxv]; simp only [killedCtr]; omega
    · have hv' : v ∈ xs := by
        rcases List.mem_cons.mp hv with e | e
        · subst e; simp at hx
        · exact e
      simp only [hx, Bool.false_eq_true, ↓reduceIte]
      rw [ih hnd.2 hv']; omega

/-- the usage counter follows the containers through the killer's second step -/
theorem killVictims_sum (capR : Nat) : ∀ (vs : List Ctr) (w : Store) (act : List Ctr) (cons : Int) (w' : Store) (act' : List Ctr) (cons' : Int),
    (cids act).Nodup → (cids vs).Nodup → (∀ v ∈ vs, v ∈ act) → cons = memSum act →
    killVictims w capR act cons vs = .ok (w', act', cons') → cons' = memSum act' := by
  intro vs
  induction vs with
  | nil => intro w act cons w' act' cons' _ _ _ hs h; simp [killVictims] at h; rw [← h.2.1, ← h.2.2]; exact hs
  | cons v vs ih =>
    intro w act cons w' act' cons' hnd hvnd hsub hs h
    unfold killVictims at h
    split at h
    · cases h; exact hs
    · split at h
      · cases h
      · rename_i w1 v1 cons1 hk
        obtain ⟨e1, e2⟩ := kill_eq hk
        have hv : v ∈ act := hsub v (by simp)
        simp only [cids_cons, List.nodup_cons] at hvnd
        rw [e1, replaceCtr_eq_map act v hnd hv] at h
        have hnd1 : (cids (act.map (fun x => if x.cid == v.cid then killedCtr x else x))).Nodup := by
          have : cids (act.map (fun x => if x.cid == v.cid then killedCtr x else x)) = cids act := by
            unfold cids; rw [List.map_map]; apply List.map_congr_left; intro x _
            simp only [Function.comp]; split <;> rfl
          rw [this]; exact hnd
        have hsub1 : ∀ u ∈ vs, u ∈ act.map (fun x => if x.cid == v.cid then killedCtr x else x) := by
          intro u hu
          have hne : u.cid ≠ v.cid := by
            intro e; apply hvnd.1; rw [← e]; exact List.mem_map_of_mem hu
          apply List.mem_map.mpr
          exact ⟨u, hsub u (by simp [hu]), by simp [hne]⟩
        exact ih _ _ _ _ _ _ hnd1 hvnd.2 hsub1 (by rw [e2, hs, memSum_kill_one v act hnd hv]) h

theorem memSum_nonneg (l : List Ctr) : 0 ≤ memSum l := by
  induction l with
  | nil => simp
  | cons c l ih => simp; have : (0 : Int) ≤ (c.mem : Nat) := Int.natCast_nonneg _; omega

theorem memSum_filter_le (l : List Ctr) (f : Ctr → Bool) : memSum (l.filter f) ≤ memSum l := by
  induction l with
  | nil => simp
  | cons c l ih =>
    by_cases h : f c <;> simp [List.filter_cons, h]
    · omega
    · have : (0 : Int) ≤ (c.mem : Nat) := Int.natCast_nonneg _; omega

theorem memSum_zero (l : List Ctr) (h : ∀ c ∈ l, c.mem = 0) : memSum l = 0 := by
  induction l with
  | nil => rfl
  | cons c l ih => simp [h c (by simp), ih (fun x hx => h x (by simp [hx]))]

theorem memSum_le_ramSum (l : List Ctr) (h : ∀ c ∈ l, c.mem ≤ c.ram) : memSum l ≤ ramSum l := by
  induction l with
  | nil => simp
  | cons c l ih =>
    simp only [memSum_cons, ramSum_cons]
    have := h c (by simp)
    have := ih (fun x hx => h x (by simp [hx]))
    omega

/-- **the OOM killer**: afterwards every container is safe, the usage counter is the sum over the containers, and the
usage of the containers that go on running fits into the pool -/
theorem oomKiller_mem {w w' : Store} {p p' : Pool} (hnd : (cids p.active).Nodup) (hT : ∀ c ∈ p.active, CtrTicked c)
    (hs : p.consumed = memSum p.active) (h : oomKiller w p = .ok (w', p')) :
    p'.consumed = memSum p'.active ∧ (∀ c ∈ p'.active, CtrSafe c) ∧
    memSum (p'.active.filter (fun c => !c.completed)) ≤ p.capR ∧
    -- justification of the kills: step 1 kills exactly the containers over their own limit; step 2 runs only if the usage left exceeds the capacity
    (∃ act1, act1 = p.active.map (fun c => if c.mem > c.ram then killedCtr c else c) ∧ (memSum act1 ≤ p.capR → p'.active = act1)) := by
  unfold oomKiller at h
  split at h
  · cases h
  · rename_i w1 act1 cons1 hk
    obtain ⟨k1, k2, k3⟩ := killIndividual_mem _ _ _ _ _ _ hT hk
    have hc1 : cons1 = memSum act1 := by rw [k1, hs]; omega
    have hk1 := killIndividual_keys _ _ _ _ _ _ hk
    have hnd1 : (cids act1).Nodup := by rw [cids_keys hk1]; exact hnd
    split at h
    · rename_i hle
      have e := ok_snd2 h
      rw [← e]
      refine ⟨hc1, k2, ?_, act1, k3, fun _ => rfl⟩
      have := memSum_filter_le act1 (fun c => !c.completed)
      simp only; omega
    · rename_i hgt
      split at h
      · cases h
      · rename_i w2 act2 cons2 hv
        have hperm := SortP.sortDesc_perm scoreGe (oomCandidates act1)
        have hsub : ∀ v ∈ sortDesc (oomCandidates act1), v ∈ act1 := fun v hv' => (List.mem_filter.mp (mem_sortDesc hv')).1
        have hvnd : (cids (sortDesc (oomCandidates act1))).Nodup := by
          have hp : (cids (sortDesc (oomCandidates act1))).Perm (cids (oomCandidates act1)) := List.Perm.map _ hperm
          exact hp.nodup_iff.mpr ((cids_filter_sublist act1 _).nodup hnd1)
        have hsum := killVictims_sum _ _ _ _ _ _ _ _ hnd1 hvnd hsub hc1 hv
        have hact := killVictims_act _ _ _ _ _ _ _ _ hnd1 hvnd hsub hv
        have husage := killVictims_usage _ _ _ _ _ _ _ _ hv
        have e := ok_snd2 h
        rw [← e]
        refine ⟨hsum, ?_, ?_, act1, k3, fun hle => absurd (hc1 ▸ hle) (by omega)⟩
        · intro c hc
          simp only at hc
          rw [hact] at hc
          obtain ⟨x, hx, rfl⟩ := List.mem_map.mp hc
          split
          · exact killedCtr_safe x
          · exact k2 x hx
        · simp only
          rcases stops_once_usage_fits p.capR (sortDesc (oomCandidates act1)) cons1 with hall | hfit
          · -- every candidate was killed: whoever goes on running uses no memory
            have hz : memSum (act2.filter (fun c => !c.completed)) = 0 := by
              apply memSum_zero
              intro c hc
              obtain ⟨hc2, hnc⟩ := List.mem_filter.mp hc
              rw [hact] at hc2
              obtain ⟨x, hx, rfl⟩ := List.mem_map.mp hc2
              rw [hall, List.take_length] at hnc ⊢
              split at hnc
              · simp [killedCtr] at hnc
              · rename_i hcond
                simp only [hcond, ↓reduceIte]
                -- x is not a candidate, and it is not finished: so it uses no memory
                have hxc : x ∉ oomCandidates act1 := by
                  intro hmem
                  apply hcond
                  have : x ∈ sortDesc (oomCandidates act1) := hperm.symm.subset hmem
                  simp only [List.contains_iff_mem, List.mem_map]
                  exact ⟨x, this, rfl⟩
                have : ¬ ((!x.completed && decide (x.mem > 0)) = true) := fun hp => hxc (List.mem_filter.mpr ⟨hx, hp⟩)
                simp only [Bool.and_eq_true, Bool.not_eq_true', decide_eq_true_eq, not_and, Nat.not_lt, Nat.le_zero] at this
                exact this (by simpa using hnc)
            rw [hz]; exact Int.natCast_nonneg _
          · have := memSum_filter_le act2 (fun c => !c.completed)
            rw [husage] at hsum
            omega

/-- the C04 invariant of a pool at a tick boundary -/
structure MemOK (p : Pool) : Prop where
  sum : p.consumed = memSum p.active
  ok : ∀ c ∈ p.active, CtrOK c
  cap : p.consumed ≤ p.capR

theorem memOK_fresh (cpus ram : Nat) : MemOK (Pool.fresh cpus ram) := by
  constructor <;> simp [Pool.fresh]

theorem doSuspends_active : ∀ (cfg : Cfg) (l : List Nat) (w : Store) (p : Pool) (w' : Store) (p' : Pool),
    doSuspends cfg w p l = .ok (w', p') → (∀ c ∈ p'.active, c ∈ p.active) ∧ p'.capR = p.capR ∧ (p'.active).Sublist p.active := by
  intro cfg l
  induction l with
  | nil => intro w p w' p' h; simp [doSuspends] at h; rw [← h.2]; exact ⟨fun c hc => hc, rfl, List.Sublist.refl _⟩
  | cons cid rest ih =>
    intro w p w' p' h
    unfold doSuspends at h
    split at h
    · cases h
    · split at h
      · cases h
      · obtain ⟨i1, i2, i3⟩ := ih _ _ _ _ h
        exact ⟨fun c hc => (List.mem_filter.mp (i1 c hc)).1, i2, i3.trans List.filter_sublist⟩

theorem memSum_sublist {l l' : List Ctr} (h : l'.Sublist l) : memSum l' ≤ memSum l := by
  induction h with
  | slnil => simp
  | cons a _ ih => simp; have : (0 : Int) ≤ (a.mem : Nat) := Int.natCast_nonneg _; omega
  | cons_cons a _ ih => simp; omega

theorem startAll_mem (cfg : Cfg) (w : Store) : ∀ (as : List Asg) (p : Pool) (n : Nat), MemOK p →
    (∀ p' n', startAll cfg w p n as = .ok (p', n') → MemOK p') ∧
    (∀ e p' n', startAll cfg w p n as = .error (e, p', n') → MemOK p') := by
  intro as
  induction as with
  | nil =>
    intro p n m
    exact ⟨fun p' n' h => by simp [startAll] at h; rw [← h.1]; exact m, fun e p' n' h => by simp [startAll] at h⟩
  | cons a rest ih =>
    intro p n m
    have m1 : MemOK { p with availC := p.availC - a.cpu, availR := p.availR - a.ram, active := p.active ++ [mkCtr w n a], created := p.created + 1 } := by
      constructor
      · simp only [memSum, List.map_append, List.sum_append]
        have := m.sum; simp only [memSum] at this
        simp [mkCtr, this]
      · intro c hc
        rcases List.mem_append.mp hc with h1 | h1
        · exact m.ok c h1
        · simp at h1; subst h1; exact ⟨rfl, rfl, Nat.zero_le _⟩
      · exact m.cap
    obtain ⟨i1, i2⟩ := ih _ (n + 1) m1
    constructor
    · intro p' n' h
      unfold startAll at h
      split at h
      · cases h
      · exact i1 _ _ h
    · intro e p' n' h
      unfold startAll at h
      split at h
      · simp at h; rw [← h.2.1]; exact m
      · exact i2 _ _ _ h

/-- **phases 3–6 keep the memory invariant** -/
theorem poolRun_mem {cfg : Cfg} {w w' : Store} {p p' : Pool} {n : Nat} {res : List Res} (inv : PoolInv p n) (m : MemOK p)
    (h : poolRun cfg w p = .ok (w', p', res)) : MemOK p' := by
  unfold poolRun at h
  split at h
  · cases h
  · rename_i w3 p3 h3
    obtain ⟨i3, c3, r3, _, _, act3⟩ := suspTickAll_inv inv h3
    have cons3 : p3.consumed = p.consumed := by
      unfold suspTickAll at h3
      split at h3
      · cases h3
      · rw [← ok_snd2 h3]
    split at h
    · cases h
    · rename_i w4 act4 cons4 h4
      have hok3 : ∀ c ∈ p3.active, CtrOK c := by rw [act3]; exact m.ok
      obtain ⟨t1, t2⟩ := tickAll_mem _ _ _ _ _ _ _ hok3 h4
      have hk4 := tickAll_keys _ _ _ _ _ _ _ h4
      have hnd4 : (cids act4).Nodup := by
        rw [cids_keys hk4]; exact (List.nodup_append.mp i3.nodup).1
      have hs4 : cons4 = memSum act4 := by rw [t1, cons3, m.sum, act3]; omega
      split at h
      · cases h
      · rename_i w5 p5 h5
        obtain ⟨o1, o2, o3, _⟩ := oomKiller_mem (p := { p3 with active := act4, consumed := cons4 }) hnd4 t2 hs4 h5
        have hcap5 : p5.capR = p3.capR := (oomKiller_keys (p := { p3 with active := act4, consumed := cons4 }) hnd4 h5).2.2.2.2.2.2
        have hp' : p' = (collect p5).1 := (ok_snd h).symm
        rw [hp']
        -- what collect leaves
        have hact : (collect p5).1.active = p5.active.filter (fun c => !c.completed) := (collect_fields p5).1
        have hcapc : (collect p5).1.capR = p5.capR := (collect_fields p5).2.2.2.2.2
        have hcons : (collect p5).1.consumed = memSum (p5.active.filter (fun c => !c.completed)) := by
          simp only [collect]
          split
          · rename_i hd
            -- nothing finished: the filter keeps everything
            have hall : p5.active.filter (fun c => !c.completed) = p5.active := by
              apply List.filter_eq_self.mpr
              intro c hc
              have : c ∉ p5.active.filter (·.completed) := by
                have : p5.active.filter (·.completed) = [] := by simpa using hd
                rw [this]; simp
              cases hcc : c.completed with
              | false => rfl
              | true => exact absurd (List.mem_filter.mpr ⟨hc, hcc⟩) this
            simp only [hall]; exact o1
          · simp [Pool.reconcile]
        constructor
        · rw [hcons, hact]
        · intro c hc
          rw [hact] at hc
          obtain ⟨hc5, hnc⟩ := List.mem_filter.mp hc
          have hncomp : c.completed = false := by simpa using hnc
          obtain ⟨s1, _, s3⟩ := o2 c hc5
          exact ⟨hncomp, s3 hncomp, s1⟩
        · rw [hcons, hcapc, hcap5]; exact o3

end Eudoxia
