import EudoxiaModel.Proofs.Dead
/-! The record of containers through the suspension phases: a container whose write-out ends hands its whole unfinished suffix back as PENDING. -/
namespace Eudoxia
open OpState Extracted

/-- the same container at a later moment of its write-out: number, operators, progress, allocation, class unchanged -/
def Same (c c' : Ctr) : Prop :=
  c'.cid = c.cid ∧ c'.ops = c.ops ∧ c'.curOpIdx = c.curOpIdx ∧ c'.cpu = c.cpu ∧ c'.ram = c.ram ∧ c'.prio = c.prio ∧ c'.err = c.err

theorem Same.refl (c : Ctr) : Same c c := ⟨rfl, rfl, rfl, rfl, rfl, rfl, rfl⟩
theorem Same.trans {a b c : Ctr} (h1 : Same a b) (h2 : Same b c) : Same a c :=
  ⟨h2.1.trans h1.1, h2.2.1.trans h1.2.1, h2.2.2.1.trans h1.2.2.1, h2.2.2.2.1.trans h1.2.2.2.1, h2.2.2.2.2.1.trans h1.2.2.2.2.1,
   h2.2.2.2.2.2.1.trans h1.2.2.2.2.2.1, h2.2.2.2.2.2.2.trans h1.2.2.2.2.2.2⟩
theorem Same.unfinished {c c' : Ctr} (h : Same c c') : c'.unfinished = c.unfinished := by
  unfold Ctr.unfinished; rw [h.2.1, h.2.2.1]

/-- the unfinished operators of a container whose write-out has just ended: all PENDING -/
def Parked (s : Store) (c : Ctr) : Prop := ∀ o ∈ c.unfinished, s.stOf o = pending

theorem suspendTick_parks (w : Store) (c : Ctr) (w' : Store) (c' : Ctr) (hnd : c.ops.Nodup) (h : c.suspendTick w = .ok (w', c')) :
    c'.suspLeft = 0 → Parked w' c' := by
  obtain ⟨e, _⟩ := suspendTick_live w c w' c' h
  intro hz
  unfold Ctr.suspendTick at h
  split at h
  · split at h
    · cases h
    · rename_i w1 hw
      simp only [Except.ok.injEq, Prod.mk.injEq] at h
      obtain ⟨rfl, _⟩ := h
      have hu : c'.unfinished = c.unfinished := by rw [e]; rfl
      intro o ho
      rw [hu] at ho
      exact transAll_sets_nodup pending _ _ _ hw (unfinished_nodup hnd) o ho
  · rename_i hnz
    exfalso
    rw [e] at hz
    simp only at hz
    simp only [beq_iff_eq] at hnz
    exact hnz hz

theorem suspTickList_fin (cfg : Cfg) : ∀ (l : List Ctr) (w : Store) (w' : Store) (l' : List Ctr),
    suspTickList w l = .ok (w', l') → (∀ c ∈ l, CtrInv cfg c ∧ c.completed = false) → (allUnf l).Nodup → (∀ c ∈ l, Fin w c) →
    (∀ c' ∈ l', Fin w' c' ∧ c'.completed = false ∧ (c'.suspLeft = 0 → Parked w' c') ∧ ∃ c ∈ l, Same c c') ∧ allUnf l' = allUnf l ∧
      StepsP (fun r _ => r ∈ allUnf l) w w' := by
  intro l
  induction l with
  | nil =>
    intro w w' l' h _ _ _
    simp only [suspTickList, Except.ok.injEq, Prod.mk.injEq] at h
    obtain ⟨rfl, rfl⟩ := h
    exact ⟨by simp, rfl, .refl _⟩
  | cons c cs ih =>
    intro w w' l' h hinv hnd hfin
    rw [allUnf_cons, List.nodup_append] at hnd
    unfold suspTickList at h
    split at h
    · cases h
    · rename_i w1 c1 hk
      split at h
      · cases h
      · rename_i w2 cs2 hrest
        simp only [Except.ok.injEq, Prod.mk.injEq] at h
        obtain ⟨rfl, rfl⟩ := h
        obtain ⟨ci, cn⟩ := hinv c (by simp)
        obtain ⟨e, st⟩ := suspendTick_live w c w1 c1 hk
        have hu : c1.unfinished = c.unfinished := by rw [e]; rfl
        have f1 : Fin w1 c1 := by
          have f := hfin c (by simp)
          have hc1 : c1.completed = false := by rw [e]; exact cn
          have he1 : c1.err = c.err := by rw [e]
          refine ⟨fun o ho => ?_, fun hc => (by rw [hc1] at hc; cases hc), fun _ => (by rw [he1]; exact f.noerr cn), fun hc => (by rw [hc1] at hc; cases hc)⟩
          have : o ∈ c.ops.take c.curOpIdx := by rw [e] at ho; exact ho
          exact completed_final st.steps o (f.pre o this)
        have hpark := suspendTick_parks w c w1 c1 ci.nd hk
        have fcs : ∀ d ∈ cs, Fin w1 d := by
          intro d hd
          apply fin_frame (hfin d (List.mem_cons_of_mem _ hd)) st.steps
          intro o ho
          apply st.frame
          intro t hx
          exact hnd.2.2 o hx.1 o (mem_allUnf hd ho) rfl
        obtain ⟨i1, i2, i3⟩ := ih w1 w2 cs2 hrest (fun d hd => hinv d (List.mem_cons_of_mem _ hd)) hnd.2.1 fcs
        have hframe2 : ∀ o ∈ c1.unfinished, w2.stOf o = w1.stOf o := by
          intro o ho
          apply i3.frame
          intro t hx
          rw [hu] at ho
          exact hnd.2.2 o ho o hx rfl
        refine ⟨?_, by rw [allUnf_cons, allUnf_cons, hu, i2], ?_⟩
        · intro d hd
          rcases List.mem_cons.mp hd with rfl | hd
          · refine ⟨fin_frame f1 i3.steps hframe2, by rw [e]; exact cn, fun hz o ho => ?_, c, by simp, by rw [e]; exact Same.refl _⟩
            rw [hframe2 o ho]; exact hpark hz o ho
          · obtain ⟨x1, x2, x3, c0, hc0, hs0⟩ := i1 d hd
            exact ⟨x1, x2, x3, c0, List.mem_cons_of_mem _ hc0, hs0⟩
        · refine (st.mono (fun r t hx => ?_)).trans (i3.mono (fun r t hx => ?_))
          · rw [allUnf_cons]; exact List.mem_append_left _ hx.1
          · rw [allUnf_cons]; exact List.mem_append_right _ hx

/-- phase 1 (carrying out the suspension requests) keeps every container's record straight -/
theorem doSuspends_fin (cfg : Cfg) : ∀ (l : List Nat) (w : Store) (p : Pool) (n : Nat) (w' : Store) (p' : Pool),
    doSuspends cfg w p l = .ok (w', p') → PoolInv p n → PoolLive cfg w p → (∀ c ∈ p.active ++ p.suspending, Fin w c) →
    ∀ c ∈ p'.active ++ p'.suspending, Fin w' c := by
  intro l
  induction l with
  | nil =>
    intro w p n w' p' h _ _ hfin
    simp only [doSuspends, Except.ok.injEq, Prod.mk.injEq] at h
    obtain ⟨rfl, rfl⟩ := h
    exact hfin
  | cons k ks ih =>
    intro w p n w' p' h pinv hl hfin
    have hstep := h
    unfold doSuspends at h
    split at h
    · cases h
    · rename_i c hfind
      split at h
      · cases h
      · rename_i w1 c1 hsus
        obtain ⟨e1, st⟩ := suspend_live cfg w c w1 c1 hsus
        have hcn : (cids p.active).Nodup := (List.nodup_append.mp pinv.nodup).1
        obtain ⟨hck, _, _, _⟩ := find_remove p.active k c hfind hcn
        have hcmem : c ∈ p.active := List.mem_of_find?_eq_some hfind
        have hcn' : c.completed = false := hl.nc c (List.mem_append_left _ hcmem)
        have hcnall : (cids (p.active ++ p.suspending)).Nodup := by rw [cids_append]; exact pinv.nodup
        have hone : doSuspends cfg w p [k] = .ok (w1, { p with suspending := p.suspending ++ [c1], active := p.active.filter (·.cid != k) }) := by
          simp only [doSuspends, hfind, hsus]
        obtain ⟨pinv1, _⟩ := doSuspends_inv cfg [k] w p n w1 _ pinv hone
        obtain ⟨hl1, _, _⟩ := doSuspends_live cfg [k] w p n w1 _ hone pinv hl
        apply ih w1 _ n w' p' h pinv1 hl1
        intro d hd
        simp only [List.mem_append, List.mem_filter, List.mem_singleton] at hd
        have other : ∀ (x : Ctr), x ∈ p.active ++ p.suspending → x.cid ≠ c.cid → Fin w1 x := by
          intro x hx hne
          apply fin_frame (hfin x hx) st.steps
          intro o ho
          apply st.frame
          intro t hx'
          have hxn := hl.nc x hx
          have : o ∈ ownOf x := by simp only [ownOf, hxn, Bool.false_eq_true, ↓reduceIte]; exact ho
          have hoc : o ∈ ownOf c := by simp only [ownOf, hcn', Bool.false_eq_true, ↓reduceIte]; exact hx'.1
          exact own_disjoint _ x c hl.nd hcnall hx (List.mem_append_left _ hcmem) hne o this hoc
        rcases hd with ⟨hd, hne⟩ | hd | rfl
        · exact other d (List.mem_append_left _ hd) (by rw [hck]; simpa using hne)
        · refine other d (List.mem_append_right _ hd) ?_
          intro e
          have := (List.nodup_append.mp pinv.nodup).2.2 c.cid (List.mem_map_of_mem hcmem) d.cid (List.mem_map_of_mem hd)
          exact this e.symm
        · have f := hfin c (List.mem_append_left _ hcmem)
          have hc1 : d.completed = false := by rw [e1]; exact hcn'
          have he1 : d.err = c.err := by rw [e1]
          refine ⟨fun o ho => ?_, fun hc => (by rw [hc1] at hc; cases hc), fun _ => (by rw [he1]; exact f.noerr hcn'), fun hc => (by rw [hc1] at hc; cases hc)⟩
          have : o ∈ c.ops.take c.curOpIdx := by rw [e1] at ho; exact ho
          exact completed_final st.steps o (f.pre o this)

theorem collect_suspended (p : Pool) : (collect p).1.suspended = p.suspended ∧ (collect p).1.suspending = p.suspending := by
  simp only [collect]
  split <;> simp [Pool.reconcile]

theorem ownP_eq_allUnf {cfg : Cfg} {w : Store} {p : Pool} (hl : PoolLive cfg w p) : ownP p = allUnf p.active ++ allUnf p.suspending := by
  simp only [ownP, own_append]
  rw [own_eq_allUnf (fun c hc => hl.nc c (List.mem_append_left _ hc)), own_eq_allUnf (fun c hc => hl.nc c (List.mem_append_right _ hc))]

/-- phases 3–6 in general (write-outs in progress): what stays in the pool has its record straight; the results come from ended containers (`cs`) with
their record straight; the containers whose write-out ended in this tick (`js`) join the suspended list with their whole unfinished suffix PENDING -/
theorem poolRun_finS {cfg : Cfg} {w w' : Store} {p p' : Pool} {n : Nat} {res : List Res} (pinv : PoolInv p n) (m : MemOK p) (rd : PoolReady cfg w p)
    (hfin : ∀ c ∈ p.active ++ p.suspending, Fin w c) (h : poolRun cfg w p = .ok (w', p', res)) :
    (∀ c ∈ p'.active ++ p'.suspending, Fin w' c) ∧
    (∃ cs js, res = cs.map mkRes ∧ p'.suspended = p.suspended ++ js ∧ (∀ c ∈ cs, Fin w' c ∧ c.completed = true) ∧
      (∀ c ∈ js, Fin w' c ∧ c.completed = false ∧ Parked w' c ∧ ∃ c0 ∈ p.suspending, Same c0 c) ∧ (allUnf cs ++ allUnf js).Sublist (ownP p)) ∧
    StepsP (fun r _ => r ∈ ownP p) w w' ∧ (∀ c ∈ p'.suspending, ∃ c0 ∈ p.suspending, Same c0 c) := by
  have hl := rd.live
  have hown := ownP_eq_allUnf hl
  have hnd0 : (allUnf p.active ++ allUnf p.suspending).Nodup := by rw [← hown]; exact hl.nd
  have hndA := (List.nodup_append.mp hnd0).1
  have hndS := (List.nodup_append.mp hnd0).2.1
  have hdisj : ∀ o, o ∈ allUnf p.active → o ∉ allUnf p.suspending := fun o ho hx => (List.nodup_append.mp hnd0).2.2 o ho o hx rfl
  have hncA : ∀ c ∈ p.active, c.completed = false := fun c hc => hl.nc c (List.mem_append_left _ hc)
  unfold poolRun at h
  split at h
  · cases h
  · rename_i w3 p3 h3
    obtain ⟨pinv3, _, _, _, _, act3⟩ := suspTickAll_inv pinv h3
    unfold suspTickAll at h3
    split at h3
    · cases h3
    · rename_i w3' l3 hl3
      simp only [Except.ok.injEq, Prod.mk.injEq] at h3
      obtain ⟨rfl, hp3⟩ := h3
      obtain ⟨s1, s2, s3⟩ := suspTickList_fin cfg _ _ _ _ hl3 (fun c hc => ⟨hl.inv c (List.mem_append_right _ hc), hl.nc c (List.mem_append_right _ hc)⟩)
        hndS (fun c hc => hfin c (List.mem_append_right _ hc))
      have hsus3 : p3.suspending = l3.filter (fun c => !(c.suspLeft == 0)) := by rw [← hp3]
      have hsusd3 : p3.suspended = p.suspended ++ l3.filter (fun c => c.suspLeft == 0) := by rw [← hp3]
      have hcons3 : p3.consumed = p.consumed := by rw [← hp3]
      -- the running containers are not touched by the write-outs
      have hfinA3 : ∀ c ∈ p.active, Fin w3' c := by
        intro c hc
        apply fin_frame (hfin c (List.mem_append_left _ hc)) s3.steps
        intro o ho
        apply s3.frame
        intro t hx
        exact hdisj o (mem_allUnf hc ho) hx
      have hst3 : Steps w w3' := s3.steps
      have hownA : own p.active = allUnf p.active := own_eq_allUnf hncA
      have hrd3 : ReadyAll cfg w3' p.active := readyAll_frame rd.act hst3 (fun o ho => s3.frame o (fun t hx => hdisj o (by rw [← hownA]; exact ho) hx))
      split at h
      · cases h
      · rename_i w4 act4 cons4 h4
        rw [act3] at h4
        have hinv0 : ∀ c ∈ p.active, CtrInv cfg c ∧ (c.completed = false → c.frozen = false) :=
          fun c hc => ⟨hl.inv c (List.mem_append_left _ hc), fun _ => (m.ok c hc).2.1⟩
        obtain ⟨a1, a2, a3⟩ := tickAll_fin cfg _ _ _ _ _ _ h4 hinv0 hndA hfinA3
        have hnd1 : (own p.active).Nodup := by rw [hownA]; exact hndA
        obtain ⟨w4', act4', cons4', h4', r4⟩ := tickAll_succeeds cfg p.active w3' p3.consumed
          (fun c hc => ⟨hrd3 c hc, hl.inv c (List.mem_append_left _ hc), fun _ => (m.ok c hc).2.1⟩) hnd1
        rw [h4] at h4'
        simp only [Except.ok.injEq, Prod.mk.injEq] at h4'
        obtain ⟨rfl, rfl, rfl⟩ := h4'
        obtain ⟨t1, _, _, _⟩ := tickAll_live cfg _ _ _ _ _ _ h4 hinv0 hnd1 (readyAll_busy hrd3)
        obtain ⟨_, tk⟩ := tickAll_mem _ _ _ _ _ _ _ m.ok h4
        have hk4 := tickAll_keys _ _ _ _ _ _ _ h4
        have hcn4 : (cids act4).Nodup := by rw [cids_keys hk4]; exact (List.nodup_append.mp pinv.nodup).1
        have hst4 : ∀ c ∈ act4, StaticOK cfg c :=
          fun c hc => ⟨t1 c hc, fun hcc => by have := (tk c hc).1 hcc; omega, fun hcn => (r4 c hc hcn).more hcn⟩
        split at h
        · cases h
        · rename_i w5 p5 h5
          obtain ⟨b1, b2, b3⟩ := oomKiller_fin cfg (p := { p3 with active := act4, consumed := cons4 }) hcn4 hst4 (a2.nodup hndA) a1 h5
          obtain ⟨_, ks, ksd, _⟩ := oomKiller_keys (p := { p3 with active := act4, consumed := cons4 }) hcn4 h5
          simp only at b1 b2 b3 ks ksd
          simp only [Except.ok.injEq, Prod.mk.injEq] at h
          obtain ⟨rfl, hp', hr⟩ := h
          obtain ⟨f1, _, _⟩ := collect_fields p5
          obtain ⟨fsd, fsg⟩ := collect_suspended p5
          -- what phases 4 and 5 touch lies inside the running containers
          have hAfoot : StepsP (fun r _ => r ∈ allUnf p.active) w3' w5 := a3.trans (b3.mono (fun r t hx => a2.subset hx))
          have hfinL3 : ∀ c ∈ l3, Fin w5 c ∧ c.completed = false ∧ (c.suspLeft = 0 → Parked w5 c) ∧ ∃ c0 ∈ p.suspending, Same c0 c := by
            intro c hc
            obtain ⟨x1, x2, x3, x4⟩ := s1 c hc
            have hfr : ∀ o ∈ c.unfinished, w5.stOf o = w3'.stOf o := by
              intro o ho
              apply hAfoot.frame
              intro t hx
              exact hdisj o hx (by rw [← s2]; exact mem_allUnf hc ho)
            exact ⟨fin_frame x1 hAfoot.steps hfr, x2, fun hz o ho => (by rw [hfr o ho]; exact x3 hz o ho), x4⟩
          refine ⟨?_, ⟨p5.active.filter (·.completed), l3.filter (fun c => c.suspLeft == 0), by rw [← hr]; simp only [collect], ?_, ?_, ?_, ?_⟩, ?_⟩
          · intro c hc
            rcases List.mem_append.mp hc with hc | hc
            · rw [← hp', f1] at hc; exact b1 c (List.mem_filter.mp hc).1
            · rw [← hp', fsg, ks, hsus3] at hc
              exact (hfinL3 c (List.mem_filter.mp hc).1).1
          · rw [← hp', fsd, ksd, hsusd3]
          · intro c hc
            obtain ⟨hc1, hc2⟩ := List.mem_filter.mp hc
            exact ⟨b1 c hc1, hc2⟩
          · intro c hc
            obtain ⟨hc1, hc2⟩ := List.mem_filter.mp hc
            obtain ⟨x1, x2, x3, x4⟩ := hfinL3 c hc1
            exact ⟨x1, x2, x3 (by simpa using hc2), x4⟩
          · rw [hown]
            apply List.Sublist.append
            · have : (allUnf (p5.active.filter (·.completed))).Sublist (allUnf p5.active) := allUnf_sublist List.filter_sublist
              rw [b2] at this
              exact this.trans a2
            · have : (allUnf (l3.filter (fun c => c.suspLeft == 0))).Sublist (allUnf l3) := allUnf_sublist List.filter_sublist
              rw [s2] at this
              exact this
          · rw [hown]
            refine ⟨(s3.mono (fun r t hx => List.mem_append_right _ hx)).trans (hAfoot.mono (fun r t hx => List.mem_append_left _ hx)), ?_⟩
            intro c hc
            rw [← hp', fsg, ks, hsus3] at hc
            exact (hfinL3 c (List.mem_filter.mp hc).1).2.2.2

/-- phase 1 only touches operators the pool owns -/
theorem doSuspends_foot (cfg : Cfg) : ∀ (l : List Nat) (w : Store) (p : Pool) (n : Nat) (w' : Store) (p' : Pool),
    doSuspends cfg w p l = .ok (w', p') → PoolInv p n → PoolLive cfg w p → StepsP (fun r _ => r ∈ ownP p) w w' := by
  intro l
  induction l with
  | nil =>
    intro w p n w' p' h _ _
    simp only [doSuspends, Except.ok.injEq, Prod.mk.injEq] at h
    obtain ⟨rfl, rfl⟩ := h
    exact .refl _
  | cons k ks ih =>
    intro w p n w' p' h pinv hl
    unfold doSuspends at h
    split at h
    · cases h
    · rename_i c hfind
      split at h
      · cases h
      · rename_i w1 c1 hsus
        obtain ⟨e1, st⟩ := suspend_live cfg w c w1 c1 hsus
        have hcmem : c ∈ p.active := List.mem_of_find?_eq_some hfind
        have hcn' : c.completed = false := hl.nc c (List.mem_append_left _ hcmem)
        have hone : doSuspends cfg w p [k] = .ok (w1, { p with suspending := p.suspending ++ [c1], active := p.active.filter (·.cid != k) }) := by
          simp only [doSuspends, hfind, hsus]
        obtain ⟨pinv1, _⟩ := doSuspends_inv cfg [k] w p n w1 _ pinv hone
        obtain ⟨hl1, sh1, _⟩ := doSuspends_live cfg [k] w p n w1 _ hone pinv hl
        have i := ih w1 _ n w' p' h pinv1 hl1
        refine (st.mono (fun r t hx => ?_)).trans (i.mono (fun r t hx => sh1.mem hx))
        simp only [ownP, own_append, List.mem_append]
        exact Or.inl (mem_own hcmem hcn' hx.1)

theorem doSuspends_suspended (cfg : Cfg) : ∀ (l : List Nat) (w : Store) (p : Pool) (w' : Store) (p' : Pool),
    doSuspends cfg w p l = .ok (w', p') → p'.suspended = p.suspended := by
  intro l
  induction l with
  | nil => intro w p w' p' h; simp only [doSuspends, Except.ok.injEq, Prod.mk.injEq] at h; rw [← h.2]
  | cons k ks ih =>
    intro w p w' p' h
    unfold doSuspends at h
    split at h
    · cases h
    · split at h
      · cases h
      · rw [ih _ _ _ _ h]

theorem startAll_suspended (cfg : Cfg) (w : Store) : ∀ (as : List Asg) (p : Pool) (n : Nat) (p' : Pool) (n' : Nat),
    startAll cfg w p n as = .ok (p', n') → p'.suspended = p.suspended := by
  intro as
  induction as with
  | nil => intro p n p' n' h; simp only [startAll, Except.ok.injEq, Prod.mk.injEq] at h; rw [← h.1]
  | cons a as ih =>
    intro p n p' n' h
    unfold startAll at h
    split at h
    · cases h
    · rw [ih _ _ _ _ h]

theorem startAll_finS (cfg : Cfg) (w : Store) (as : List Asg) (p : Pool) (n : Nat) (p' : Pool) (n' : Nat)
    (h : startAll cfg w p n as = .ok (p', n')) (hp : ∀ c ∈ p.active ++ p.suspending, Fin w c) : ∀ c ∈ p'.active ++ p'.suspending, Fin w c := by
  intro c hc
  rcases List.mem_append.mp hc with hc | hc
  · exact startAll_fin cfg w as p n p' n' h (fun d hd => hp d (List.mem_append_left _ hd)) c hc
  · rw [startAll_suspending' cfg w as p n p' n' h] at hc
    exact hp c (List.mem_append_right _ hc)

/-- where the containers of the suspending list come from after phase 1 -/
theorem doSuspends_same (cfg : Cfg) : ∀ (l : List Nat) (w : Store) (p : Pool) (w' : Store) (p' : Pool),
    doSuspends cfg w p l = .ok (w', p') →
    ∀ c' ∈ p'.suspending, (∃ c ∈ p.suspending, Same c c') ∨ (∃ c ∈ p.active, c.cid ∈ l ∧ Same c c') := by
  intro l
  induction l with
  | nil =>
    intro w p w' p' h c' hc'
    simp only [doSuspends, Except.ok.injEq, Prod.mk.injEq] at h
    obtain ⟨_, rfl⟩ := h
    exact Or.inl ⟨c', hc', Same.refl _⟩
  | cons k ks ih =>
    intro w p w' p' h c' hc'
    unfold doSuspends at h
    split at h
    · cases h
    · rename_i c hfind
      split at h
      · cases h
      · rename_i w1 c1 hsus
        obtain ⟨e1, _⟩ := suspend_live cfg w c w1 c1 hsus
        have hcmem : c ∈ p.active := List.mem_of_find?_eq_some hfind
        have hck : c.cid = k := by
          have := List.find?_some hfind
          simpa using this
        have hs1 : Same c c1 := by rw [e1]; exact ⟨rfl, rfl, rfl, rfl, rfl, rfl, rfl⟩
        rcases ih w1 _ w' p' h c' hc' with ⟨c0, hc0, hs0⟩ | ⟨c0, hc0, hk0, hs0⟩
        · simp only [List.mem_append, List.mem_singleton] at hc0
          rcases hc0 with hc0 | rfl
          · exact Or.inl ⟨c0, hc0, hs0⟩
          · exact Or.inr ⟨c, hcmem, by rw [hck]; simp, hs1.trans hs0⟩
        · exact Or.inr ⟨c0, (List.mem_filter.mp hc0).1, List.mem_cons_of_mem _ hk0, hs0⟩

/-- **a whole pool tick, suspension requests included**: afterwards every container in the pool has its record straight; the results are those of ended
containers `cs` with their record straight; the containers `js` whose write-out ended in this tick have joined the suspended list with their whole unfinished
suffix PENDING; the unfinished operators of `cs` and `js` are pairwise distinct and were owned by the pool, or handed to it, when the tick began -/
theorem poolTick_finS {cfg : Cfg} {w w' : Store} {p p' : Pool} {n n' : Nat} {cm : Cmds} {res : List Res}
    (g : PoolGoodMem cfg p n) (rd : PoolReadyF cfg w p) (ha : AsgsReady w cm.asgs) (hs : cm.susp.Nodup)
    (hnd : (ownP p ++ cm.asgs.flatMap (·.ops)).Nodup) (hfin : ∀ c ∈ p.active ++ p.suspending, Fin w c)
    (h : poolTick cfg w p n cm = .ok (w', p', n', res)) :
    (∀ c ∈ p'.active ++ p'.suspending, Fin w' c) ∧
    (∃ cs js, res = cs.map mkRes ∧ p'.suspended = p.suspended ++ js ∧ (∀ c ∈ cs, Fin w' c ∧ c.completed = true) ∧
      (∀ c ∈ js, Fin w' c ∧ c.completed = false ∧ Parked w' c ∧ ∃ c0, (c0 ∈ p.suspending ∨ (c0 ∈ p.active ∧ c0.cid ∈ cm.susp)) ∧ Same c0 c) ∧
      (allUnf cs ++ allUnf js).Nodup ∧ ∀ o ∈ allUnf cs ++ allUnf js, o ∈ ownP p ++ cm.asgs.flatMap (·.ops)) ∧
    StepsP (fun r _ => r ∈ ownP p ++ cm.asgs.flatMap (·.ops)) w w' ∧
    (∀ c ∈ p'.suspending, ∃ c0, (c0 ∈ p.suspending ∨ (c0 ∈ p.active ∧ c0.cid ∈ cm.susp)) ∧ Same c0 c) := by
  unfold poolTick at h
  split at h
  · cases h
  · rename_i hv
    have hreq : ∀ cid ∈ cm.susp, ∃ c, findCtr p.active cid = some c ∧ c.canSuspend = true := by
      split at hv
      · rename_i he
        intro cid hc
        have : cm.susp = [] := by simpa using he
        rw [this] at hc; simp at hc
      · exact verifySuspends_ok_iff p cm.susp hv
    obtain ⟨w1, p1, hd, r1, pinv1, _⟩ := doSuspends_succeeds cfg n cm.susp w p hs hreq g.1.1 rd (fun c hc => (g.2.ok c hc).2.1)
    have hph1 : ∃ p1', (if cm.susp.isEmpty then (Except.ok (w, p) : Except Err (Store × Pool)) else (doSuspends cfg w p cm.susp).map (fun (w1, p1) => (w1, p1.reconcile))) = .ok (w1, p1') ∧
        PoolReadyF cfg w1 p1' ∧ ownP p1' = ownP p1 ∧ p1'.active = p1.active ∧ p1'.suspending = p1.suspending ∧ p1'.suspended = p1.suspended := by
      split
      · rename_i he
        have : cm.susp = [] := by simpa using he
        rw [this] at hd
        simp only [doSuspends, Except.ok.injEq, Prod.mk.injEq] at hd
        obtain ⟨rfl, rfl⟩ := hd
        exact ⟨p, rfl, rd, rfl, rfl, rfl, rfl⟩
      · rw [hd]
        refine ⟨p1.reconcile, rfl, ?_, rfl, rfl, rfl, rfl⟩
        exact ⟨⟨⟨r1.rd.live.inv, r1.rd.live.nc, r1.rd.live.nd, r1.rd.live.busy⟩, r1.rd.act, r1.rd.sus⟩, r1.flag⟩
    obtain ⟨p1', hs1, r1', hown1, hact1, hsusg1, hsusd1⟩ := hph1
    rw [hs1] at h
    simp only at h
    have m1 := susPhase_mem g.2 hs1
    obtain ⟨g1, _, _⟩ := susPhase_inv g.1 hs1
    obtain ⟨_, sh1, fr1⟩ := doSuspends_live cfg cm.susp w p n w1 p1 hd g.1.1 rd.rd.live
    have hfin1 : ∀ c ∈ p1'.active ++ p1'.suspending, Fin w1 c := by
      rw [hact1, hsusg1]
      exact doSuspends_fin cfg cm.susp w p n w1 p1 hd g.1.1 rd.rd.live hfin
    have hsd1 : p1'.suspended = p.suspended := by rw [hsusd1]; exact doSuspends_suspended cfg _ _ _ _ _ hd
    split at h
    · cases h
    · split at h
      · cases h
      · rename_i p2 n2 hst
        split at h
        · cases h
        · rename_i w6 p6 res6 hr
          simp only [Except.ok.injEq, Prod.mk.injEq] at h
          obtain ⟨rfl, rfl, _, rfl⟩ := h
          have m2 := (startAll_mem cfg w1 cm.asgs p1' n m1).1 _ _ hst
          obtain ⟨i2, _⟩ := (startAll_inv cfg w1 cm.asgs p1' n g1.1).1 _ _ hst
          have hdisjA : ∀ o ∈ cm.asgs.flatMap (·.ops), o ∉ ownP p := fun o ho hx => (List.nodup_append.mp hnd).2.2 o hx o ho rfl
          have hst1 : Steps w w1 := doSuspends_steps cfg _ _ _ _ _ hd
          have ha1 : AsgsReady w1 cm.asgs := by
            intro a haa
            obtain ⟨x1, x2, x3, x4⟩ := ha a haa
            refine ⟨x1, x2, fun r hr' => ?_, parentsOK_frame x4 hst1.ops (fun q hq => completed_final hst1 q hq)⟩
            obtain ⟨y1, y2, y3⟩ := x3 r hr'
            refine ⟨by unfold Store.segsOf at y1 ⊢; rw [hst1.ops]; exact y1, ?_, by rw [hst1.size]; exact y3⟩
            rw [fr1 r (hdisjA r (List.mem_flatMap.mpr ⟨a, haa, hr'⟩))]; exact y2
          have hnd1 : (ownP p1' ++ cm.asgs.flatMap (·.ops)).Nodup := by
            rw [hown1]
            exact (Shrinks.append sh1 (Shrinks.refl _)).nodup hnd
          have r2 := startAll_ready cfg w1 cm.asgs p1' n p2 n2 hst r1' ha1 hnd1
          obtain ⟨_, hperm⟩ := startAll_live cfg w1 cm.asgs p1' n p2 n2 hst r1'.rd.live
            (fun a haa => ⟨(ha1 a haa).2.1, fun r hr' => ⟨((ha1 a haa).2.2.1 r hr').1, by rw [((ha1 a haa).2.2.1 r hr').2.1]; exact Or.inl rfl⟩⟩) hnd1
          obtain ⟨a1, ⟨cs, js, e, esd, fc, fj, hsub⟩, a3, a4⟩ := poolRun_finS i2 m2 r2.rd (startAll_finS cfg w1 cm.asgs p1' n p2 n2 hst hfin1) hr
          -- everything the pool owns once the containers are started was owned before or has just been handed over
          have hin : ∀ o, o ∈ ownP p2 → o ∈ ownP p ++ cm.asgs.flatMap (·.ops) := by
            intro o ho
            rcases List.mem_append.mp (hperm.subset ho) with h' | h'
            · rw [hown1] at h'
              exact List.mem_append_left _ (sh1.mem h')
            · exact List.mem_append_right _ h'
          have hnd2 : (ownP p2).Nodup := hperm.nodup_iff.mpr hnd1
          -- the steps of phase 1 stay inside what the pool owned
          have hfoot1 : StepsP (fun r _ => r ∈ ownP p ++ cm.asgs.flatMap (·.ops)) w w1 := by
            have := doSuspends_foot cfg cm.susp w p n w1 p1 hd g.1.1 rd.rd.live
            exact this.mono (fun r t hx => List.mem_append_left _ hx)
          have hsame1 := doSuspends_same cfg cm.susp w p w1 p1 hd
          have hback : ∀ c0 ∈ p2.suspending, ∀ c, Same c0 c → ∃ c00, (c00 ∈ p.suspending ∨ (c00 ∈ p.active ∧ c00.cid ∈ cm.susp)) ∧ Same c00 c := by
            intro c0 hc0 c hs0
            rw [startAll_suspending' cfg w1 cm.asgs p1' n p2 n2 hst, hsusg1] at hc0
            rcases hsame1 c0 hc0 with ⟨c00, h00, s00⟩ | ⟨c00, h00, k00, s00⟩
            · exact ⟨c00, Or.inl h00, s00.trans hs0⟩
            · exact ⟨c00, Or.inr ⟨h00, k00⟩, s00.trans hs0⟩
          refine ⟨a1, ⟨cs, js, e, by rw [esd, startAll_suspended cfg w1 cm.asgs p1' n p2 n2 hst, hsd1], fc, ?_, hsub.nodup hnd2,
            fun o ho => hin o (hsub.subset ho)⟩, hfoot1.trans (a3.mono (fun r t hx => hin r hx)), ?_⟩
          · intro c hc
            obtain ⟨x1, x2, x3, c0, hc0, hs0⟩ := fj c hc
            exact ⟨x1, x2, x3, hback c0 hc0 c hs0⟩
          · intro c hc
            obtain ⟨c0, hc0, hs0⟩ := a4 c hc
            exact hback c0 hc0 c hs0

/-! ### the loop over the pools, the executor tick -/

/-- **the loop over the pools, in general**: the results are those of ended containers `cs` with their record straight; `js` are the containers whose write-out
ended in this tick, now in some pool's suspended list with their whole unfinished suffix PENDING; every container in a suspended list was there before or is one
of `js`; the unfinished operators of `cs` and `js` are pairwise distinct and come from what the pools owned or were handed when the tick began (`S`) -/
theorem execPools_finS (cfg : Cfg) (sus : List (Nat × Nat)) (asgs : List Asg) (hsus : ∀ i, ((sus.filter (·.1 == i)).map (·.2)).Nodup)
    (S : Nat → Prop) (hSa : ∀ o ∈ opsOf asgs, S o) (old pre : Ctr → Prop) :
    ∀ (todo : List Pool) (s : Store) (n : Nat) (done : List Pool) (cs0 js0 : List Ctr) (s' : Store) (ps : List Pool) (n' : Nat) (res' : List Res),
    PoolsReady cfg asgs s n done todo → (∀ p ∈ done ++ todo, ∀ c ∈ p.active ++ p.suspending, Fin s c) → (∀ p ∈ todo, ∀ o ∈ ownP p, S o) →
    (∀ p ∈ todo, ∀ c ∈ p.suspended, old c) → (∀ p ∈ done, ∀ c ∈ p.suspended, old c ∨ c ∈ js0) →
    (∀ p ∈ todo, ∀ c0, (c0 ∈ p.suspending ∨ (c0 ∈ p.active ∧ c0.cid ∈ sus.map (·.2))) → pre c0) →
    (∀ p ∈ done, ∀ c ∈ p.suspending, ∃ c0, pre c0 ∧ Same c0 c) →
    (∀ c ∈ cs0, Fin s c ∧ c.completed = true) →
    (∀ c ∈ js0, Fin s c ∧ c.completed = false ∧ Parked s c ∧ (∃ c0, pre c0 ∧ Same c0 c) ∧ ∃ p ∈ done, c ∈ p.suspended) → (allUnf cs0 ++ allUnf js0).Nodup →
    (∀ o ∈ allUnf cs0 ++ allUnf js0, S o ∧ o ∉ todo.flatMap ownP ++ opsOf (pendFor asgs done.length)) →
    execPools cfg sus asgs s n done todo (cs0.map mkRes) = .ok (s', ps, n', res') →
    (∀ p ∈ ps, ∀ c ∈ p.active ++ p.suspending, Fin s' c) ∧
    ∃ cs js, res' = cs.map mkRes ∧ (∀ c ∈ cs, Fin s' c ∧ c.completed = true) ∧
      (∀ c ∈ js, Fin s' c ∧ c.completed = false ∧ Parked s' c ∧ (∃ c0, pre c0 ∧ Same c0 c) ∧ ∃ p ∈ ps, c ∈ p.suspended) ∧
      (allUnf cs ++ allUnf js).Nodup ∧ (∀ o ∈ allUnf cs ++ allUnf js, S o) ∧ (∀ p ∈ ps, ∀ c ∈ p.suspended, old c ∨ c ∈ js) ∧
      (∀ p ∈ ps, ∀ c ∈ p.suspending, ∃ c0, pre c0 ∧ Same c0 c) := by
  intro todo
  induction todo with
  | nil =>
    intro s n done cs0 js0 s' ps n' res' _ hp _ _ hold _ hsg hr hj hnd0 hS0 h
    simp only [execPools, Except.ok.injEq, Prod.mk.injEq] at h
    obtain ⟨rfl, rfl, _, rfl⟩ := h
    exact ⟨fun p hp' => hp p (by simpa using hp'), cs0, js0, rfl, hr, hj, hnd0, fun o ho => (hS0 o ho).1, hold, hsg⟩
  | cons p rest ih =>
    intro s n done cs0 js0 s' ps n' res' hJ hp hS holdT holdD hpre hsg hr hj hnd0 hS0 h
    unfold execPools at h
    split at h
    · cases h
    · cases h
    · rename_i s1 p1 n1 r hpt
      have hcm : (cmdsFor done.length sus asgs).asgs = asgs.filter (·.pool == done.length) := rfl
      obtain ⟨gp, _⟩ := hJ.live.pools p (by simp)
      obtain ⟨ha, hnd⟩ := poolsReady_head (sus := sus) hJ
      have r1 : PoolReadyF cfg s1 p1 := by
        rcases poolTick_raises_only_at_the_gates gp (hJ.rdy p (by simp)) ha (hsus done.length) hnd
          with ⟨w', p', n'', res'', he, hr'⟩ | ⟨e, st, he, _⟩
        · rw [hpt] at he
          simp only [Except.ok.injEq, Prod.mk.injEq] at he
          obtain ⟨rfl, rfl, _, _⟩ := he
          exact hr'
        · rw [hpt] at he; cases he
      obtain ⟨a1, ⟨csk, jsk, ek, esd, fk, fjk, ndk, ink⟩, a3, a5⟩ := poolTick_finS gp (hJ.rdy p (by simp)) ha (hsus done.length) hnd (hp p (by simp)) hpt
      rw [hcm] at ink a3
      obtain ⟨_, _, fr⟩ := poolsLive_step hJ.live hpt
      have hJ1 := poolsReady_step hJ hpt r1
      have hglob := (nodup_iff_count_le_one _).mp hJ.live.nd
      have hcount : ∀ o, (done.flatMap ownP).count o + (ownP p).count o + (rest.flatMap ownP).count o +
          ((opsOf (asgs.filter (·.pool == done.length))).count o + (opsOf (pendFor asgs (done.length + 1))).count o) ≤ 1 := by
        intro o
        have := hglob o
        simp only [List.flatMap_append, List.flatMap_cons, List.count_append, count_pend_split asgs done.length o] at this
        omega
      have hmine : ∀ o, o ∈ ownP p ++ (asgs.filter (·.pool == done.length)).flatMap (·.ops) →
          o ∉ rest.flatMap ownP ++ opsOf (pendFor asgs (done.length + 1)) := by
        intro o ho hx
        have h1 : 1 ≤ (ownP p).count o + (opsOf (asgs.filter (·.pool == done.length))).count o := by
          rcases List.mem_append.mp ho with h' | h'
          · have := List.one_le_count_iff.mpr h'; omega
          · have : 1 ≤ (opsOf (asgs.filter (·.pool == done.length))).count o := List.one_le_count_iff.mpr h'
            omega
        have h2 : 1 ≤ (rest.flatMap ownP).count o + (opsOf (pendFor asgs (done.length + 1))).count o := by
          rcases List.mem_append.mp hx with h' | h'
          · have := List.one_le_count_iff.mpr h'; omega
          · have := List.one_le_count_iff.mpr h'; omega
        have := hcount o
        omega
      have hearlier : ∀ o ∈ allUnf cs0 ++ allUnf js0, o ∉ ownP p ++ (asgs.filter (·.pool == done.length)).flatMap (·.ops) := by
        intro o ho hin
        apply (hS0 o ho).2
        rcases List.mem_append.mp hin with h' | h'
        · exact List.mem_append_left _ (by simp only [List.flatMap_cons]; exact List.mem_append_left _ h')
        · apply List.mem_append_right
          obtain ⟨a, haa, hoa⟩ := List.mem_flatMap.mp h'
          obtain ⟨ha1, ha2⟩ := List.mem_filter.mp haa
          have hpe : a.pool = done.length := by simpa using ha2
          exact List.mem_flatMap.mpr ⟨a, List.mem_filter.mpr ⟨ha1, by simp only [decide_eq_true_eq]; omega⟩, hoa⟩
      have hres : cs0.map mkRes ++ r = (cs0 ++ csk).map mkRes := by rw [ek, List.map_append]
      rw [hres] at h
      have hframe0 : ∀ o ∈ allUnf cs0 ++ allUnf js0, s1.stOf o = s.stOf o := fun o ho => a3.frame o (fun t hin => hearlier o ho hin)
      have hreq : ∀ c0, (c0 ∈ p.suspending ∨ (c0 ∈ p.active ∧ c0.cid ∈ (cmdsFor done.length sus asgs).susp)) → pre c0 := by
        intro c0 hc0
        apply hpre p (by simp) c0
        rcases hc0 with h' | ⟨h1, h2⟩
        · exact Or.inl h'
        · refine Or.inr ⟨h1, ?_⟩
          have : (cmdsFor done.length sus asgs).susp = (sus.filter (·.1 == done.length)).map (·.2) := rfl
          rw [this] at h2
          obtain ⟨x, hx, hxe⟩ := List.mem_map.mp h2
          exact List.mem_map.mpr ⟨x, (List.mem_filter.mp hx).1, hxe⟩
      apply ih s1 n1 (done ++ [p1]) (cs0 ++ csk) (js0 ++ jsk) s' ps n' res' hJ1 _ _ _ _ _ _ _ _ _ _ h
      · intro q hq
        have hq' : q ∈ done ∨ q = p1 ∨ q ∈ rest := by simpa [List.mem_append, or_assoc] using hq
        have other : ∀ q, (q ∈ done ∨ q ∈ rest) → ∀ c ∈ q.active ++ q.suspending, Fin s1 c := by
          intro q hq'' c hc
          have hqm : q ∈ done ++ p :: rest := by rcases hq'' with h' | h' <;> simp [h']
          obtain ⟨_, lq⟩ := hJ.live.pools q hqm
          apply fin_frame (hp q hqm c hc) a3.steps
          intro o ho
          apply fr
          have hoq : o ∈ ownP q := mem_own hc (lq.nc c hc) ho
          rcases hq'' with h' | h'
          · have := count_le_flatMap ownP done q h' o
            have : 1 ≤ (ownP q).count o := List.one_le_count_iff.mpr hoq
            omega
          · have := count_le_flatMap ownP rest q h' o
            have : 1 ≤ (ownP q).count o := List.one_le_count_iff.mpr hoq
            omega
        rcases hq' with hq' | rfl | hq'
        · exact other q (Or.inl hq')
        · exact a1
        · exact other q (Or.inr hq')
      · intro q hq o ho
        exact hS q (List.mem_cons_of_mem _ hq) o ho
      · intro q hq c hc
        exact holdT q (List.mem_cons_of_mem _ hq) c hc
      · intro q hq c hc
        rcases List.mem_append.mp hq with hq | hq
        · rcases holdD q hq c hc with h' | h'
          · exact Or.inl h'
          · exact Or.inr (List.mem_append_left _ h')
        · simp at hq; subst hq
          rw [esd] at hc
          rcases List.mem_append.mp hc with hc | hc
          · exact Or.inl (holdT p (by simp) c hc)
          · exact Or.inr (List.mem_append_right _ hc)
      · intro q hq c0 hc0
        exact hpre q (List.mem_cons_of_mem _ hq) c0 hc0
      · intro q hq c hc
        rcases List.mem_append.mp hq with hq | hq
        · exact hsg q hq c hc
        · simp at hq; subst hq
          obtain ⟨c0, hc0, hs0⟩ := a5 c hc
          exact ⟨c0, hreq c0 hc0, hs0⟩
      · intro c hc
        rcases List.mem_append.mp hc with hc | hc
        · exact ⟨fin_frame (hr c hc).1 a3.steps (fun o ho => hframe0 o (List.mem_append_left _ (mem_allUnf hc ho))), (hr c hc).2⟩
        · exact fk c hc
      · intro c hc
        rcases List.mem_append.mp hc with hc | hc
        · obtain ⟨x1, x2, x3, x4, q, hq, hcq⟩ := hj c hc
          have hfr : ∀ o ∈ c.unfinished, s1.stOf o = s.stOf o := fun o ho => hframe0 o (List.mem_append_right _ (mem_allUnf hc ho))
          exact ⟨fin_frame x1 a3.steps hfr, x2, fun o ho => (by rw [hfr o ho]; exact x3 o ho), x4, q, List.mem_append_left _ hq, hcq⟩
        · obtain ⟨x1, x2, x3, c0, hc0, hs0⟩ := fjk c hc
          exact ⟨x1, x2, x3, ⟨c0, hreq c0 hc0, hs0⟩, p1, by simp, by rw [esd]; exact List.mem_append_right _ hc⟩
      · -- the four lists together
        rw [allUnf_append, allUnf_append]
        have hperm : ((allUnf cs0 ++ allUnf csk) ++ (allUnf js0 ++ allUnf jsk)).Perm ((allUnf cs0 ++ allUnf js0) ++ (allUnf csk ++ allUnf jsk)) := by
          rw [List.append_assoc, List.append_assoc]
          apply List.Perm.append_left
          rw [← List.append_assoc, ← List.append_assoc]
          exact List.Perm.append_right _ List.perm_append_comm
        apply hperm.nodup_iff.mpr
        rw [List.nodup_append]
        exact ⟨hnd0, ndk, fun a ha' b hb e => by subst e; exact hearlier a ha' (ink a hb)⟩
      · intro o ho
        simp only [List.length_append, List.length_cons, List.length_nil, Nat.zero_add]
        have ho' : o ∈ (allUnf cs0 ++ allUnf js0) ∨ o ∈ (allUnf csk ++ allUnf jsk) := by
          rw [allUnf_append, allUnf_append] at ho
          simp only [List.mem_append] at ho ⊢
          grind
        rcases ho' with ho' | ho'
        · refine ⟨(hS0 o ho').1, fun hx' => (hS0 o ho').2 ?_⟩
          rcases List.mem_append.mp hx' with h' | h'
          · exact List.mem_append_left _ (by simp only [List.flatMap_cons]; exact List.mem_append_right _ h')
          · apply List.mem_append_right
            obtain ⟨a, haa, hoa⟩ := List.mem_flatMap.mp h'
            obtain ⟨ha1, ha2⟩ := List.mem_filter.mp haa
            have hle : done.length + 1 ≤ a.pool := by simpa using ha2
            exact List.mem_flatMap.mpr ⟨a, List.mem_filter.mpr ⟨ha1, by simp only [decide_eq_true_eq]; omega⟩, hoa⟩
        · refine ⟨?_, hmine o (ink o ho')⟩
          rcases List.mem_append.mp (ink o ho') with h' | h'
          · exact hS p (by simp) o h'
          · apply hSa
            obtain ⟨a, haa, hoa⟩ := List.mem_flatMap.mp h'
            exact List.mem_flatMap.mpr ⟨a, (List.mem_filter.mp haa).1, hoa⟩

end Eudoxia
