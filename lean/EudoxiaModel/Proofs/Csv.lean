import EudoxiaModel.Model.Csv
/-! Reading back what was written yields the same pipelines (C14). Core Lean only. -/
namespace Eudoxia.Csv

def tblUpTo (i : Nat) : List (Nat × Nat) := (List.range i).map (fun j => (j + 1, j))

theorem tblUpTo_succ (i : Nat) : tblUpTo (i + 1) = tblUpTo i ++ [(i + 1, i)] := by
  simp [tblUpTo, List.range_succ]

theorem lookup_tblUpTo : ∀ (i q : Nat), q < i → lookup (tblUpTo i) (q + 1) = some q := by
  intro i
  induction i with
  | zero => intro q h; omega
  | succ i ih =>
    intro q h
    rw [tblUpTo_succ]
    unfold lookup
    simp only [List.reverse_append, List.reverse_cons, List.reverse_nil, List.nil_append, List.singleton_append, List.find?_cons]
    by_cases hq : i + 1 = q + 1
    · have : q = i := by omega
      subst this; simp
    · have hlt : q < i := by omega
      have := ih q hlt
      unfold lookup at this
      have hne : ((i + 1 == q + 1) = false) := by simp; omega
      simp only [hne]
      exact this

theorem resolveAll_tblUpTo (i : Nat) : ∀ (ps : List Nat), (∀ q ∈ ps, q < i) →
    resolveAll (tblUpTo i) (ps.map (· + 1)) = some ps := by
  intro ps
  induction ps with
  | nil => intro _; rfl
  | cons q qs ih =>
    intro h
    simp only [List.map_cons, resolveAll]
    rw [lookup_tblUpTo i q (h q (by simp)), ih (fun x hx => h x (by simp [hx]))]

theorem build_opRows (k : Nat) (p : CPipe) : ∀ (os : List COp) (i : Nat), COpsWF i os →
    buildOps (tblUpTo i) i (opRows k p i os) = .ok os := by
  intro os
  induction os with
  | nil => intro i _; rfl
  | cons o os ih =>
    intro i hwf
    obtain ⟨hp, hl, hrest⟩ := hwf
    simp only [opRows, buildOps]
    rw [resolveAll_tblUpTo i o.parents hp]
    simp only [hl, Bool.not_true, Bool.false_eq_true, ↓reduceIte]
    rw [← tblUpTo_succ, ih (i + 1) hrest]

theorem laterRows_opRows (k : Nat) (p : CPipe) : ∀ (os : List COp) (i : Nat), 0 < i → laterRowsOk (opRows k p i os) = .ok () := by
  intro os
  induction os with
  | nil => intro i _; rfl
  | cons o os ih =>
    intro i hi
    have h0 : (i == 0) = false := by simp; omega
    simp only [opRows, laterRowsOk, h0, Bool.false_eq_true, ↓reduceIte, bne_self_eq_false, Option.isSome_none]
    exact ih (i + 1) (by omega)

theorem mkPipe_pipeRows (k : Nat) (p : CPipe) (h : p.WF) : mkPipe (pipeRows k p) = .ok p := by
  obtain ⟨hp, hne, hwf⟩ := h
  unfold pipeRows
  cases hops : p.ops with
  | nil => exact absurd hops hne
  | cons o os =>
    have hb := build_opRows k p p.ops 0 hwf
    rw [hops] at hb
    have hl := laterRows_opRows k p os 1 (by omega)
    simp only [opRows] at hb ⊢
    simp only [mkPipe, beq_self_eq_true, ↓reduceIte, hp, Bool.not_true, Bool.false_eq_true]
    have e : tblUpTo 0 = [] := rfl
    rw [e] at hb
    simp only [Nat.zero_add] at hb hl ⊢
    rw [hl]
    simp only [hb]
    cases p; simp_all

/-- a block of rows with one pipeline id, followed by rows that start with a different id, is one group -/
theorem group_block (k : Nat) (r : Row) (g : List Row) (hr : r.pid = k) (hk : ∀ x ∈ g, x.pid = k) (rest : List Row)
    (hrest : ∀ x ∈ rest.head?, x.pid ≠ k) : groupRows (r :: g ++ rest) = (r :: g) :: groupRows rest := by
  have htake : (g ++ rest).takeWhile (fun x => x.pid == r.pid) = g := by
    induction g with
    | nil =>
      cases rest with
      | nil => rfl
      | cons x xs =>
        have : x.pid ≠ k := hrest x (by simp)
        have hf : (x.pid == r.pid) = false := by simp; omega
        simp [List.takeWhile_cons, hf]
    | cons y ys ih =>
      have hy : (y.pid == r.pid) = true := by simp; rw [hk y (by simp), hr]
      simp only [List.cons_append, List.takeWhile_cons, hy, ↓reduceIte]
      rw [ih (fun x hx => hk x (by simp [hx]))]
  have hdrop : (g ++ rest).dropWhile (fun x => x.pid == r.pid) = rest := by
    clear htake
    induction g with
    | nil =>
      cases rest with
      | nil => rfl
      | cons x xs =>
        have : x.pid ≠ k := hrest x (by simp)
        have hf : (x.pid == r.pid) = false := by simp; omega
        simp [List.dropWhile_cons, hf]
    | cons y ys ih =>
      have hy : (y.pid == r.pid) = true := by simp; rw [hk y (by simp), hr]
      simp only [List.cons_append, List.dropWhile_cons, hy, ↓reduceIte]
      exact ih (fun x hx => hk x (by simp [hx]))
  rw [List.cons_append, groupRows, htake, hdrop]

theorem pipeRows_pid (k : Nat) (p : CPipe) : ∀ r ∈ pipeRows k p, r.pid = k := by
  unfold pipeRows
  generalize 0 = i
  induction p.ops generalizing i with
  | nil => intro r hr; cases hr
  | cons o os ih =>
    intro r hr
    simp only [opRows, List.mem_cons] at hr
    rcases hr with rfl | hr
    · rfl
    · exact ih _ r hr

theorem pipeRows_ne_nil (k : Nat) (p : CPipe) (h : p.ops ≠ []) : pipeRows k p ≠ [] := by
  unfold pipeRows
  cases hops : p.ops with
  | nil => exact absurd hops h
  | cons o os => simp [opRows]

def blocks : Nat → List CPipe → List (List Row)
  | _, [] => []
  | k, p :: ps => pipeRows k p :: blocks (k + 1) ps

theorem group_toRows : ∀ (ps : List CPipe) (k : Nat), (∀ p ∈ ps, p.WF) →
    groupRows (toRowsFrom k ps) = blocks k ps ∧ (∀ r ∈ (toRowsFrom k ps).head?, r.pid = k) := by
  intro ps
  induction ps with
  | nil => intro k _; simp [toRowsFrom, groupRows, blocks]
  | cons p ps ih =>
    intro k hwf
    have hp := hwf p (by simp)
    obtain ⟨ih1, ih2⟩ := ih (k + 1) (fun q hq => hwf q (by simp [hq]))
    have hne := pipeRows_ne_nil k p hp.2.1
    have hpid := pipeRows_pid k p
    cases hpr : pipeRows k p with
    | nil => exact absurd hpr hne
    | cons r0 rs =>
      rw [hpr] at hpid
      constructor
      · simp only [toRowsFrom, blocks, hpr]
        rw [group_block k r0 rs (hpid r0 (by simp)) (fun x hx => hpid x (by simp [hx])) _
          (by intro r hr; have := ih2 r hr; omega), ih1]
      · intro r hr
        simp only [toRowsFrom, hpr] at hr
        simp at hr; subst hr
        exact hpid r0 (by simp)

theorem mapM'_blocks : ∀ (ps : List CPipe) (k : Nat), (∀ p ∈ ps, p.WF) → mapM' (blocks k ps) = .ok ps := by
  intro ps
  induction ps with
  | nil => intro k _; rfl
  | cons p ps ih =>
    intro k hwf
    simp only [blocks, mapM']
    rw [mkPipe_pipeRows k p (hwf p (by simp)), ih (k + 1) (fun q hq => hwf q (by simp [hq]))]

/-- **writing then reading yields the same pipelines** -/
theorem read_write_id (ps : List CPipe) (h : ∀ p ∈ ps, p.WF) : fromRows (toRows ps) = .ok ps := by
  unfold fromRows toRows
  rw [(group_toRows ps 1 h).1]
  exact mapM'_blocks ps 1 h

end Eudoxia.Csv
