import EudoxiaModel.Proofs.OverbookLoop
import EudoxiaModel.Proofs.NaiveExample
/-! The concrete world of `NaiveExample`, with memory overcommit switched on, meets every hypothesis of the overbook closed-loop theorem. -/
namespace Eudoxia.OverbookExample
open Eudoxia OpState Extracted

def world (multi : Bool) : World :=
  { NaiveExample.world multi with cfg := { tps := 1, q := 64, g := 1280, multiOp := multi, overcommit := true } }

theorem inv (multi : Bool) : Overbook.OBInv (world multi) {} [] := by
  refine ⟨fresh_world_ready _ _ _ _, NaiveExample.wfp multi, NaiveExample.segsOK multi, NaiveExample.noSusp multi,
    ⟨by simp, by intro r hr; simp at hr⟩, by simp, rfl, ?_, ?_⟩
  · intro p hp
    simp only [world, NaiveExample.world, List.map_cons, List.map_nil, List.mem_cons, List.not_mem_nil, or_false] at hp
    rcases hp with rfl | rfl <;> decide
  · intro p hp c hc
    simp only [world, NaiveExample.world, List.map_cons, List.map_nil, List.mem_cons, List.not_mem_nil, or_false] at hp
    rcases hp with rfl | rfl <;> simp [Pool.fresh] at hc

theorem runs (multi : Bool) (arrivals : List (List Nat)) : ∃ out, Overbook.loop (world multi) {} [] arrivals = .ok out :=
  let ⟨w', st', res', h, _⟩ := Overbook.run_never_raises arrivals _ _ _ (inv multi); ⟨(w', st', res'), h⟩

end Eudoxia.OverbookExample
