import EudoxiaModel.Proofs.Lift
/-! Container accounting (C09): every container created is running, suspending, suspended, or has reported exactly one result. -/
namespace Eudoxia
open OpState

/-- containers this pool has ever held: running + suspending + suspended + those that reported a result -/
def Pool.total (p : Pool) : Nat := p.active.length + p.suspending.length + p.suspended.length + p.tickTimes.length

theorem filter_split_length {α : Type} (f : α → Bool) : ∀ (l : List α), (l.filter f).length + (l.filter (fun x => !f x)).length = l.length := by
  intro l
  induction l with
  | nil => rfl
  | cons x xs ih =>
    cases hx : f x
    · simp only [List.filter_cons, hx, Bool.false_eq_true, ↓reduceIte, Bool.not_false, List.length_cons]; omega
    · simp only [List.filter_cons, hx, ↓reduceIte, Bool.not_true, Bool.false_eq_true, List.length_cons]; omega

theorem doSuspends_total (cfg : Cfg) : ∀ (l : List Nat) (w : Store) (p : Pool) (w' : Store) (p' : Pool),
    (cids p.active).Nodup → doSuspends cfg w p l = .ok (w', p') → p'.total = p.total ∧ (cids p'.active).Nodup := by
  intro l
  induction l with
  | nil => intro w p w' p' hnd h; simp [doSuspends] at h; rw [← h.2]; exact ⟨rfl, hnd⟩
  | cons cid rest ih =>
    intro w p w' p' hnd h
    unfold doSuspends at h
    split at h
    · cases h
    · rename_i c hfind
      split at h
      · cases h
      · rename_i w1 c1 hs
        obtain ⟨_, _, _, hperm⟩ := find_remove _ _ _ hfind hnd
        have hlen : (p.active.filter (·.cid != cid)).length + 1 = p.active.length := by
          have := hperm.length_eq
          simp [cids] at this; omega
        have hnd1 : (cids (p.active.filter (·.cid != cid))).Nodup := (cids_filter_sublist _ _).nodup hnd
        obtain ⟨i1, i2⟩ := ih _ _ _ _ hnd1 h
        refine ⟨?_, i2⟩
        rw [i1]; simp only [Pool.total, List.length_append, List.length_cons, List.length_nil]; omega

theorem startAll_total (cfg : Cfg) (w : Store) : ∀ (as : List Asg) (p : Pool) (n : Nat),
    (∀ p' n', startAll cfg w p n as = .ok (p', n') → p'.total + p.created = p.total + p'.created ∧ p'.numCompleted = p.numCompleted ∧ p'.tickTimes = p.tickTimes) ∧
    (∀ e p' n', startAll cfg w p n as = .error (e, p', n') → p'.total + p.created = p.total + p'.created ∧ p'.numCompleted = p.numCompleted ∧ p'.tickTimes = p.tickTimes) := by
  intro as
  induction as with
  | nil =>
    intro p n
    exact ⟨fun p' n' h => by simp [startAll] at h; obtain ⟨rfl, rfl⟩ := h; exact ⟨rfl, rfl, rfl⟩, fun e p' n' h => by simp [startAll] at h⟩
  | cons a rest ih =>
    intro p n
    obtain ⟨i1, i2⟩ := ih { p with availC := p.availC - a.cpu, availR := p.availR - a.ram, active := p.active ++ [mkCtr w n a], created := p.created + 1 } (n + 1)
    constructor
    · intro p' n' h
      unfold startAll at h
      split at h
      · cases h
      · obtain ⟨j1, j2, j3⟩ := i1 _ _ h
        simp only [Pool.total, List.length_append, List.length_cons, List.length_nil] at j1 j2 j3 ⊢
        exact ⟨by omega, j2, j3⟩
    · intro e p' n' h
      unfold startAll at h
      split at h
      · simp at h; obtain ⟨_, rfl, rfl⟩ := h; exact ⟨rfl, rfl, rfl⟩
      · obtain ⟨j1, j2, j3⟩ := i2 _ _ _ h
        simp only [Pool.total, List.length_append, List.length_cons, List.length_nil] at j1 j2 j3 ⊢
        exact ⟨by omega, j2, j3⟩

theorem length_of_keys {l l' : List Ctr} (h : l'.map key = l.map key) : l'.length = l.length := by
  have := congrArg List.length h; simpa using this

theorem poolRun_total {cfg : Cfg} {w w' : Store} {p p' : Pool} {res : List Res} (hnd : (cids p.active).Nodup)
    (h : poolRun cfg w p = .ok (w', p', res)) : p'.total = p.total ∧ res.length + p.tickTimes.length = p'.tickTimes.length := by
  unfold poolRun at h
  split at h
  · cases h
  · rename_i w3 p3 h3
    have e3 : p3.total = p.total ∧ p3.active = p.active ∧ p3.tickTimes = p.tickTimes := by
      unfold suspTickAll at h3
      split at h3
      · cases h3
      · rename_i w1 l hl
        rw [← ok_snd2 h3]
        have hk := length_of_keys (suspTickList_keys _ _ _ _ hl)
        have hsplit := filter_split_length (fun c : Ctr => c.suspLeft == 0) l
        refine ⟨?_, rfl, rfl⟩
        simp only [Pool.total, List.length_append]; omega
    split at h
    · cases h
    · rename_i w4 act4 cons4 h4
      have hk4 := tickAll_keys _ _ _ _ _ _ _ h4
      split at h
      · cases h
      · rename_i w5 p5 h5
        have hnd4 : (cids act4).Nodup := by rw [cids_keys hk4, e3.2.1]; exact hnd
        obtain ⟨k5, s5, d5, _⟩ := oomKiller_keys (p := { p3 with active := act4, consumed := cons4 }) hnd4 h5
        have ht5 : p5.tickTimes = p3.tickTimes := by
          unfold oomKiller at h5
          split at h5
          · cases h5
          · split at h5
            · rw [← ok_snd2 h5]
            · split at h5
              · cases h5
              · rw [← ok_snd2 h5]
        have hp' : p' = (collect p5).1 := (ok_snd h).symm
        have hres : res = (collect p5).2 := by
          have : (Except.ok (w5, (collect p5).1, (collect p5).2) : Except Err _) = .ok (w', p', res) := h
          cases this; rfl
        have hsplit := filter_split_length (fun c : Ctr => c.completed) p5.active
        have l5 : p5.active.length = p.active.length := by
          rw [length_of_keys k5]; simp only; rw [length_of_keys hk4, e3.2.1]
        rw [hp', hres]
        simp only [collect]
        split <;> simp only [Pool.total, Pool.reconcile, List.length_append, List.length_map, s5, d5, ht5, e3.2.2] <;>
          (have := e3.1; simp only [Pool.total, e3.2.1, e3.2.2] at this; constructor <;> omega)

end Eudoxia

namespace Eudoxia

theorem doSuspends_fields (cfg : Cfg) : ∀ (l : List Nat) (w : Store) (p : Pool) (w' : Store) (p' : Pool),
    doSuspends cfg w p l = .ok (w', p') → p'.created = p.created ∧ p'.numCompleted = p.numCompleted ∧ p'.tickTimes = p.tickTimes := by
  intro l
  induction l with
  | nil => intro w p w' p' h; simp [doSuspends] at h; rw [← h.2]; exact ⟨rfl, rfl, rfl⟩
  | cons cid rest ih =>
    intro w p w' p' h
    unfold doSuspends at h
    split at h
    · cases h
    · split at h
      · cases h
      · have := ih _ _ _ _ h
        exact this

theorem poolRun_fields {cfg : Cfg} {w w' : Store} {p p' : Pool} {res : List Res} (h : poolRun cfg w p = .ok (w', p', res)) :
    p'.created = p.created ∧ p'.numCompleted = p.numCompleted + (res.filter (·.ok)).length ∧ p'.tickTimes.length = p.tickTimes.length + res.length := by
  unfold poolRun at h
  split at h
  · cases h
  · rename_i w3 p3 h3
    have e3 : p3.created = p.created ∧ p3.numCompleted = p.numCompleted ∧ p3.tickTimes = p.tickTimes := by
      unfold suspTickAll at h3
      split at h3
      · cases h3
      · rw [← ok_snd2 h3]; exact ⟨rfl, rfl, rfl⟩
    split at h
    · cases h
    · rename_i w4 act4 cons4 h4
      split at h
      · cases h
      · rename_i w5 p5 h5
        have e5 : p5.created = p3.created ∧ p5.numCompleted = p3.numCompleted ∧ p5.tickTimes = p3.tickTimes := by
          unfold oomKiller at h5
          split at h5
          · cases h5
          · split at h5
            · rw [← ok_snd2 h5]; exact ⟨rfl, rfl, rfl⟩
            · split at h5
              · cases h5
              · rw [← ok_snd2 h5]; exact ⟨rfl, rfl, rfl⟩
        have hp' : p' = (collect p5).1 := (ok_snd h).symm
        have hres : res = (collect p5).2 := by
          have : (Except.ok (w5, (collect p5).1, (collect p5).2) : Except Err _) = .ok (w', p', res) := h
          cases this; rfl
        rw [hp', hres]
        have hokc : ((p5.active.filter (·.completed)).map mkRes |>.filter (·.ok)).length = ((p5.active.filter (·.completed)).filter (fun c => !c.err)).length := by
          rw [List.filter_map, List.length_map]
          rfl
        simp only [collect]
        split <;> simp only [Pool.reconcile, List.length_append, List.length_map, e5.1, e5.2.1, e5.2.2, e3.1, e3.2.1, e3.2.2, hokc] <;>
          simp

/-- **accounting invariant of a pool**: containers created = running + suspending + suspended + results reported, and successes are among the results -/
structure Acct (p : Pool) : Prop where
  total : p.created = p.total
  okLe : p.numCompleted ≤ p.tickTimes.length

def PoolAcct (cfg : Cfg) (p : Pool) (n : Nat) : Prop := PoolGoodMem cfg p n ∧ Acct p

theorem poolAcct_tick : TickInvariant PoolAcct := by
  constructor
  · intro cfg p n n' g h; exact ⟨poolGoodMem_tick.mono _ _ _ _ g.1 h, g.2⟩
  · intro cfg w p n cm w' p' n' res g h
    obtain ⟨g', hn⟩ := poolGoodMem_tick.ok _ _ _ _ _ _ _ _ _ g.1 h
    refine ⟨⟨g', ?_⟩, hn⟩
    have inv := g.1.1.1
    have hnd : (cids p.active).Nodup := (List.nodup_append.mp inv.nodup).1
    unfold poolTick at h
    split at h
    · cases h
    · split at h
      · cases h
      · rename_i w1 p1 hs
        have hs1 : p1.total = p.total ∧ p1.created = p.created ∧ p1.numCompleted = p.numCompleted ∧ p1.tickTimes = p.tickTimes ∧ PoolInv p1 n := by
          split at hs
          · rw [← ok_snd2 hs]; exact ⟨rfl, rfl, rfl, rfl, inv⟩
          · cases hd : doSuspends cfg w p cm.susp with
            | error e => simp [hd, Except.map] at hs
            | ok v =>
              obtain ⟨w2, p2⟩ := v
              simp [hd, Except.map] at hs
              obtain ⟨i1, _⟩ := doSuspends_total _ _ _ _ _ _ hnd hd
              obtain ⟨f1, f2, f3⟩ := doSuspends_fields _ _ _ _ _ _ hd
              obtain ⟨j1, _⟩ := doSuspends_inv _ _ _ _ _ _ _ inv hd
              rw [← hs.2]
              exact ⟨i1, f1, f2, f3, ⟨j1.cpu, j1.ram, j1.nodup, j1.fresh⟩⟩
        obtain ⟨t1, c1, k1, tt1, inv1⟩ := hs1
        split at h
        · cases h
        · split at h
          · cases h
          · rename_i p2 n2 hst
            obtain ⟨t2, k2, tt2⟩ := (startAll_total cfg w1 cm.asgs p1 n).1 _ _ hst
            obtain ⟨inv2, _⟩ := (startAll_inv cfg w1 cm.asgs p1 n inv1).1 _ _ hst
            split at h
            · cases h
            · rename_i w6 p6 res6 hr
              simp at h; obtain ⟨_, rfl, _, _⟩ := h
              obtain ⟨t6, _⟩ := poolRun_total (List.nodup_append.mp inv2.nodup).1 hr
              obtain ⟨f1, f2, f3⟩ := poolRun_fields hr
              have a := g.2.total; have b := g.2.okLe
              have hle : (res6.filter (·.ok)).length ≤ res6.length := List.length_filter_le _ _
              constructor
              · omega
              · rw [f2, f3, k2, k1, tt2, tt1]; omega
  · intro cfg w p n cm e w' p' n' g h
    obtain ⟨g', hn⟩ := poolGoodMem_tick.err _ _ _ _ _ _ _ _ _ g.1 h
    refine ⟨⟨g', ?_⟩, hn⟩
    have inv := g.1.1.1
    have hnd : (cids p.active).Nodup := (List.nodup_append.mp inv.nodup).1
    unfold poolTick at h
    split at h
    · simp at h; obtain ⟨_, _, rfl, _⟩ := h; exact g.2
    · split at h
      · simp at h
      · rename_i w1 p1 hs
        have hs1 : p1.total = p.total ∧ p1.created = p.created ∧ p1.numCompleted = p.numCompleted ∧ p1.tickTimes = p.tickTimes := by
          split at hs
          · rw [← ok_snd2 hs]; exact ⟨rfl, rfl, rfl, rfl⟩
          · cases hd : doSuspends cfg w p cm.susp with
            | error e => simp [hd, Except.map] at hs
            | ok v =>
              obtain ⟨w2, p2⟩ := v
              simp [hd, Except.map] at hs
              obtain ⟨i1, _⟩ := doSuspends_total _ _ _ _ _ _ hnd hd
              obtain ⟨f1, f2, f3⟩ := doSuspends_fields _ _ _ _ _ _ hd
              rw [← hs.2]
              exact ⟨i1, f1, f2, f3⟩
        obtain ⟨t1, c1, k1, tt1⟩ := hs1
        have a := g.2.total; have b := g.2.okLe
        split at h
        · simp at h; obtain ⟨_, _, rfl, _⟩ := h
          exact ⟨by omega, by rw [k1, tt1]; exact b⟩
        · split at h
          · rename_i e2 p2 n2 hst
            simp at h; obtain ⟨_, _, rfl, _⟩ := h
            obtain ⟨t2, k2, tt2⟩ := (startAll_total cfg w1 cm.asgs p1 n).2 _ _ _ hst
            exact ⟨by omega, by rw [k2, tt2, k1, tt1]; exact b⟩
          · split at h
            · simp at h
            · simp at h

end Eudoxia
