import EudoxiaModel.Model.Hyp
import EudoxiaModel.Proofs.NaiveMulti
/-! The decidable checks of `Model/Hyp.lean` imply the hypotheses of the whole-run theorems. -/
namespace Eudoxia
open OpState Extracted

theorem orderOf_out (w : World) (pid : Nat) (h : ¬ pid < w.pipes.size) : (w.pipes.getD pid default).order = [] := by
  rw [Array.getD_eq_getD_getElem?, Array.getElem?_eq_none (by omega)]
  rfl

theorem wfpB_sound (w : World) (h : w.wfpB = true) : w.WFP := by
  intro pid
  by_cases hp : pid < w.pipes.size
  · unfold World.wfpB at h
    have := List.all_eq_true.mp h pid (List.mem_range.mpr hp)
    simp only [World.orderOf, Bool.and_eq_true, decide_eq_true_eq, List.all_eq_true] at this
    exact ⟨of_decide_eq_true this.1, this.2⟩
  · rw [orderOf_out w pid hp]; exact ⟨List.nodup_nil, fun r hr => by cases hr⟩

theorem segsB_sound (w : World) (h : w.segsB = true) : w.SegsOK := by
  intro pid r hr
  by_cases hp : pid < w.pipes.size
  · unfold World.segsB at h
    have := List.all_eq_true.mp h pid (List.mem_range.mpr hp)
    simp only [World.orderOf, List.all_eq_true] at this
    have := this r hr
    intro e; rw [e] at this; simp at this
  · rw [orderOf_out w pid hp] at hr; cases hr

theorem pidB_sound (w : World) (h : w.pidB = true) : w.PidOK := by
  intro pid r hr
  by_cases hp : pid < w.pipes.size
  · unfold World.pidB at h
    have := List.all_eq_true.mp h pid (List.mem_range.mpr hp)
    simp only [World.orderOf, List.all_eq_true, beq_iff_eq] at this
    exact this r hr
  · rw [orderOf_out w pid hp] at hr; cases hr

theorem topoListB_sound (parentsOf : Nat → List Nat) : ∀ (l pre0 : List Nat), topoListB parentsOf pre0 l = true →
    ∀ pre r post, l = pre ++ r :: post → ∀ q ∈ parentsOf r, q ∈ pre0 ++ pre := by
  intro l
  induction l with
  | nil => intro pre0 _ pre r post e; cases pre <;> cases e
  | cons x xs ih =>
    intro pre0 h pre r post e q hq
    simp only [topoListB, Bool.and_eq_true, List.all_eq_true] at h
    cases pre with
    | nil =>
      simp only [List.nil_append, List.cons.injEq] at e
      obtain ⟨rfl, _⟩ := e
      have := h.1 q hq
      simpa using this
    | cons y ys =>
      simp only [List.cons_append, List.cons.injEq] at e
      obtain ⟨rfl, e'⟩ := e
      have := ih (pre0 ++ [x]) h.2 ys r post e' q hq
      simpa [List.append_assoc] using this

theorem topoB_sound (w : World) (h : w.topoB = true) : w.Topo := by
  intro pid pre r post e q hq
  by_cases hp : pid < w.pipes.size
  · unfold World.topoB at h
    have := List.all_eq_true.mp h pid (List.mem_range.mpr hp)
    have := topoListB_sound w.store.parentsOf _ [] this pre r post e q hq
    simpa using this
  · rw [orderOf_out w pid hp] at e; cases pre <;> cases e

theorem futureB_sound (w : World) (F : List Nat) (h : w.futureB F = true) :
    F.Nodup ∧ ∀ pid ∈ F, (w.pipes.getD pid default).order ≠ [] ∧ ∀ o ∈ (w.pipes.getD pid default).order, w.store.stOf o = pending := by
  unfold World.futureB at h
  simp only [Bool.and_eq_true, decide_eq_true_eq, List.all_eq_true, World.orderOf, Bool.not_eq_true', beq_iff_eq] at h
  refine ⟨h.1, fun pid hpid => ?_⟩
  obtain ⟨h1, h2⟩ := h.2 pid hpid
  exact ⟨fun e => by rw [e] at h1; simp at h1, h2⟩

end Eudoxia
