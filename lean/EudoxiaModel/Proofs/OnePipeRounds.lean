import EudoxiaModel.Proofs.Complete
import EudoxiaModel.Proofs.NaiveLoop
import EudoxiaModel.Model.Sched.Overbook
import EudoxiaModel.Model.Sched.Priority
import EudoxiaModel.Proofs.PriorityLoop
/-! Every container the naive scheduler builds holds operators of one pipeline. -/
namespace Eudoxia.Naive
open Eudoxia OpState Extracted

theorem opsFor_sub (w : World) (multi : Bool) (pid : Nat) : ∀ o ∈ opsFor w multi pid, o ∈ (w.pipes.getD pid default).order := by
  intro o ho
  unfold opsFor at ho
  have hmem : o ∈ w.getOps pid assignable false ∨ o ∈ w.getOps pid assignable true := by
    cases multi
    · right; simp only [Bool.false_eq_true, ↓reduceIte] at ho; exact List.mem_of_mem_take ho
    · left; simpa using ho
  rcases hmem with hm | hm <;>
  · unfold World.getOps at hm
    exact (List.mem_filter.mp hm).1

theorem pop_inOne (multi : Bool) (pool cpu ram : Nat) : ∀ (queue : List Nat) (w : World) (req : List Nat) (w' : World) (rest req' : List Nat) (oa : Option Asg),
    pop w multi pool cpu ram queue req = .ok (w', rest, req', oa) → w'.pipes = w.pipes ∧ ∀ a, oa = some a → InOne w.pipes a.ops := by
  intro queue
  induction queue with
  | nil =>
    intro w req w' rest req' oa h
    simp only [pop, Except.ok.injEq, Prod.mk.injEq] at h
    obtain ⟨rfl, _, _, rfl⟩ := h
    exact ⟨rfl, fun a ha => by cases ha⟩
  | cons pid q ih =>
    intro w req w' rest req' oa h
    unfold pop at h
    split at h
    · exact ih _ _ _ _ _ _ h
    · split at h
      · exact ih _ _ _ _ _ _ h
      · split at h
        · cases h
        · rename_i w1 a1 hmk
          simp only [Except.ok.injEq, Prod.mk.injEq] at h
          obtain ⟨rfl, _, _, rfl⟩ := h
          obtain ⟨rfl, hm⟩ := mkA_ok hmk
          refine ⟨mkAssignment_pipes hm, fun a ha => ?_⟩
          simp only [Option.some.injEq] at ha
          subst ha
          exact ⟨pid, opsFor_sub w multi pid⟩

theorem pools_inOne (multi : Bool) : ∀ (ips : List (Nat × Pool)) (w : World) (queue req : List Nat) (acc : List Asg)
    (w' : World) (queue' req' : List Nat) (out : List Asg),
    pools multi w ips queue req acc = .ok (w', queue', req', out) → (∀ a ∈ acc, InOne w.pipes a.ops) → ∀ a ∈ out, InOne w.pipes a.ops := by
  intro ips
  induction ips with
  | nil =>
    intro w queue req acc w' queue' req' out h hacc
    simp only [pools, Except.ok.injEq, Prod.mk.injEq] at h
    obtain ⟨_, _, _, rfl⟩ := h
    exact hacc
  | cons ip ips ih =>
    intro w queue req acc w' queue' req' out h hacc
    obtain ⟨i, p⟩ := ip
    unfold pools at h
    split at h
    · exact ih _ _ _ _ _ _ _ _ h hacc
    · split at h
      · cases h
      · rename_i w1 q1 r1 oa hp
        obtain ⟨hpp, hone⟩ := pop_inOne multi i _ _ _ _ _ _ _ _ _ hp
        have := ih _ _ _ _ _ _ _ _ h (by
          rw [hpp]
          intro a ha
          cases oa with
          | none => exact hacc a ha
          | some a0 =>
            rcases List.mem_append.mp ha with ha | ha
            · exact hacc a ha
            · simp only [List.mem_singleton] at ha; subst ha; exact hone a rfl)
        rw [hpp] at this
        exact this

/-- **every container the naive scheduler (and the `eudoxia init` starter) builds holds operators of one pipeline** -/
theorem round_inOne (multi : Bool) (w w' : World) (st st' : St) (res : List Res) (newP : List Nat) (dec : Decision)
    (h : round multi w st res newP = .ok (w', st', dec)) : ∀ a ∈ dec.asgs, InOne w.pipes a.ops := by
  unfold round at h
  split at h
  · simp only [Except.ok.injEq, Prod.mk.injEq] at h
    obtain ⟨_, _, rfl⟩ := h
    intro a ha; cases ha
  · split at h
    · cases h
    · rename_i w1 q1 req asgs hp
      simp only [Except.ok.injEq, Prod.mk.injEq] at h
      obtain ⟨_, _, rfl⟩ := h
      exact pools_inOne multi _ _ _ _ _ _ _ _ _ hp (by intro a ha; cases ha)

end Eudoxia.Naive

/-! ### overbook -/
namespace Eudoxia.Overbook
open Eudoxia OpState Extracted

/-- the operator is listed by some pipeline -/
def Reg (pipes : Array PipeInfo) (r : Nat) : Prop := ∃ P, r ∈ (pipes.getD P default).order

theorem enqueue_reg (w : World) : ∀ (pids : List Nat) (opq : List Nat), (∀ r ∈ opq, Reg w.pipes r) → ∀ r ∈ enqueue w opq pids, Reg w.pipes r := by
  intro pids
  induction pids with
  | nil => intro opq h; exact h
  | cons pid rest ih =>
    intro opq h
    unfold enqueue
    simp only [List.foldl_cons]
    apply ih
    have inner : ∀ (l : List Nat) (q : List Nat), (∀ r ∈ l, Reg w.pipes r) → (∀ r ∈ q, Reg w.pipes r) →
        ∀ r ∈ l.foldl (fun q r => if q.contains r then q else q ++ [r]) q, Reg w.pipes r := by
      intro l
      induction l with
      | nil => intro q _ hq; exact hq
      | cons x xs ihx =>
        intro q hl hq
        simp only [List.foldl_cons]
        apply ihx _ (fun r hr => hl r (List.mem_cons_of_mem _ hr))
        split
        · exact hq
        · intro r hr
          rcases List.mem_append.mp hr with hr | hr
          · exact hq r hr
          · simp only [List.mem_singleton] at hr; subst hr; exact hl r (by simp)
    apply inner _ _ _ h
    intro r hr
    unfold World.getOps at hr
    exact ⟨pid, (List.mem_filter.mp hr).1⟩

theorem assign_inOne (fails : List (Nat × Nat)) : ∀ (q : List Nat) (w : World) (avail : List Int) (acc : List Asg) (w' : World) (q' : List Nat) (out : List Asg),
    assign fails w q avail acc = .ok (w', q', out) → (∀ r ∈ q, Reg w.pipes r) → (∀ a ∈ acc, InOne w.pipes a.ops) →
    (∀ a ∈ out, InOne w.pipes a.ops) ∧ (∀ r ∈ q', Reg w.pipes r) ∧ w'.pipes = w.pipes := by
  intro q
  induction q with
  | nil =>
    intro w avail acc w' q' out h _ hacc
    simp only [assign, Except.ok.injEq, Prod.mk.injEq] at h
    obtain ⟨rfl, rfl, rfl⟩ := h
    exact ⟨hacc, fun r hr => (by cases hr), rfl⟩
  | cons r rest ih =>
    intro w avail acc w' q' out h hq hacc
    unfold assign at h
    split at h
    · exact ih _ _ _ _ _ _ h (fun x hx => hq x (List.mem_cons_of_mem _ hx)) hacc
    · split at h
      · cases h
      · split at h
        · simp only [Except.ok.injEq, Prod.mk.injEq] at h
          obtain ⟨rfl, rfl, rfl⟩ := h
          exact ⟨hacc, hq, rfl⟩
        · rename_i k hk
          split at h
          · cases h
          · rename_i w1 a hmk
            obtain ⟨rfl, hm⟩ := mkA_ok hmk
            have hp := Naive.mkAssignment_pipes hm
            obtain ⟨i1, i2, i3⟩ := ih _ _ _ _ _ _ h (by rw [hp]; exact fun x hx => hq x (List.mem_cons_of_mem _ hx)) (by
              rw [hp]
              intro b hb
              rcases List.mem_append.mp hb with hb | hb
              · exact hacc b hb
              · simp only [List.mem_singleton] at hb; subst hb
                obtain ⟨P, hP⟩ := hq r (by simp)
                exact ⟨P, fun o ho => by simp only [List.mem_singleton] at ho; subst ho; exact hP⟩)
            rw [hp] at i1 i2 i3
            exact ⟨i1, i2, i3⟩

/-- **every container overbook builds holds one operator of a registered pipeline**, and its queue keeps holding registered operators only -/
theorem round_inOne (w w' : World) (st st' : St) (res : List Res) (newP : List Nat) (dec : Decision)
    (h : round w st res newP = .ok (w', st', dec)) (hq : ∀ r ∈ st.opq, Reg w.pipes r) :
    (∀ a ∈ dec.asgs, InOne w.pipes a.ops) ∧ (∀ r ∈ st'.opq, Reg w.pipes r) := by
  unfold round at h
  split at h
  · simp only [Except.ok.injEq, Prod.mk.injEq] at h
    obtain ⟨_, rfl, rfl⟩ := h
    exact ⟨fun a ha => (by cases ha), hq⟩
  · split at h
    · cases h
    · rename_i pids _
      split at h
      · cases h
      · rename_i w1 opq' asgs hasg
        simp only [Except.ok.injEq, Prod.mk.injEq] at h
        obtain ⟨_, rfl, rfl⟩ := h
        obtain ⟨i1, i2, _⟩ := assign_inOne _ _ _ _ _ _ _ _ hasg (enqueue_reg w pids st.opq hq) (by intro a ha; cases ha)
        exact ⟨i1, i2⟩

end Eudoxia.Overbook

/-! ### priority-pool -/
namespace Eudoxia.PP
open Eudoxia Eudoxia.Prio OpState Extracted

theorem ppQueue_inOne (q pool : Nat) : ∀ (jobs : List Job) (w : World) (sn : List Snap) (k : Nat) (acc : List Asg) (w' : World) (sn' : List Snap) (k' : Nat) (out : List Asg),
    ppQueue q pool w jobs sn k acc = .ok (w', sn', k', out) → (∀ j ∈ jobs, InOne w.pipes j.ops) → (∀ a ∈ acc, InOne w.pipes a.ops) →
    (∀ a ∈ out, InOne w.pipes a.ops) ∧ w'.pipes = w.pipes := by
  intro jobs
  induction jobs with
  | nil =>
    intro w sn k acc w' sn' k' out h _ hacc
    simp only [ppQueue, Except.ok.injEq, Prod.mk.injEq] at h
    obtain ⟨rfl, _, _, rfl⟩ := h
    exact ⟨hacc, rfl⟩
  | cons job rest ih =>
    intro w sn k acc w' sn' k' out h hj hacc
    unfold ppQueue at h
    split at h
    · split at h
      · simp only [Except.ok.injEq, Prod.mk.injEq] at h
        obtain ⟨rfl, _, _, rfl⟩ := h
        exact ⟨hacc, rfl⟩
      · cases h
    · split at h
      · exact ih _ _ _ _ _ _ _ _ h (fun j hj' => hj j (List.mem_cons_of_mem _ hj')) hacc
      · split at h
        · cases h
        · rename_i jc jr _ w1 a hmk
          obtain ⟨rfl, hm⟩ := mkA_ok hmk
          have hp := Naive.mkAssignment_pipes hm
          obtain ⟨i1, i2⟩ := ih _ _ _ _ _ _ _ _ h (by rw [hp]; exact fun j hj' => hj j (List.mem_cons_of_mem _ hj')) (by
            rw [hp]
            intro b hb
            rcases List.mem_append.mp hb with hb | hb
            · exact hacc b hb
            · simp only [List.mem_singleton] at hb; subst hb; exact hj job (by simp))
          rw [hp] at i1 i2
          exact ⟨i1, i2⟩

def JobsOne (pipes : Array PipeInfo) (st : St) : Prop := ∀ j ∈ st.jobs, InOne pipes j.ops

theorem jobsOne_push {pipes : Array PipeInfo} {st : St} {j : Job} (p : Nat) (h : JobsOne pipes st) (hj : InOne pipes j.ops) : JobsOne pipes (st.push j p) := by
  intro x hx
  rcases (mem_push st j p x).mp hx with hx | rfl
  · exact h x hx
  · exact hj

theorem ppEnqueue_inOne (w : World) (st : St) (results : List Res) (newP : List Nat) (st' : St) (h : ppEnqueue w st results newP = .ok st')
    (hj : JobsOne w.pipes st) (hr : ∀ r ∈ results, InOne w.pipes r.ops) : JobsOne w.pipes st' := by
  unfold ppEnqueue at h
  have h1 : ∀ (l : List Nat) (s : St), JobsOne w.pipes s →
      JobsOne w.pipes (l.foldl (fun st pid => st.push { prio := w.prioOf pid, pid := pid, ops := (w.pipes.getD pid default).order } (w.prioOf pid)) s) := by
    intro l
    induction l with
    | nil => intro s hs; exact hs
    | cons pid rest ih =>
      intro s hs
      simp only [List.foldl_cons]
      exact ih _ (jobsOne_push _ hs ⟨pid, fun o ho => ho⟩)
  have h2 : ∀ (l : List Res) (s s' : St), (∀ r ∈ l, InOne w.pipes r.ops) → JobsOne w.pipes s →
      l.foldlM (fun st f =>
        let ops := nonCompleted w f.ops
        match ops with
        | [] => (.error .schedAssert : Except Err St)
        | o :: _ => .ok (st.push { prio := f.prio, pid := w.store.pidOf o, ops := ops, retry := some (retryOf f) } f.prio)) s = .ok s' → JobsOne w.pipes s' := by
    intro l
    induction l with
    | nil => intro s s' _ hs e; simp only [List.foldlM_nil, pure, Except.pure, Except.ok.injEq] at e; rw [← e]; exact hs
    | cons f rest ih =>
      intro s s' hl hs e
      simp only [List.foldlM_cons, bind, Except.bind] at e
      split at e
      · cases e
      · rename_i s1 hs1
        refine ih s1 s' (fun r hr' => hl r (List.mem_cons_of_mem _ hr')) ?_ e
        split at hs1
        · cases hs1
        · rename_i o os hops
          simp only [Except.ok.injEq] at hs1
          rw [← hs1]
          apply jobsOne_push _ hs
          obtain ⟨P, hP⟩ := hl f (by simp)
          refine ⟨P, fun x hx => hP x ?_⟩
          have : x ∈ nonCompleted w f.ops := hx
          unfold nonCompleted at this
          exact (List.mem_filter.mp this).1
  exact h2 _ _ _ (fun r hr' => hr r (List.mem_filter.mp hr').1) (h1 newP st hj) h

/-- **every container priority-pool builds holds operators of one pipeline**, and so does every job it keeps waiting -/
theorem ppRound_inOne (w w' : World) (st st' : St) (results : List Res) (newP : List Nat) (dec : Decision)
    (h : ppRound w st results newP = .ok (w', st', dec)) (hj : JobsOne w.pipes st) (hr : ∀ r ∈ results, InOne w.pipes r.ops) :
    (∀ a ∈ dec.asgs, InOne w.pipes a.ops) ∧ JobsOne w.pipes st' := by
  unfold ppRound at h
  split at h
  · cases h
  · rename_i st0 henq
    have hj0 := ppEnqueue_inOne w st results newP st0 henq hj hr
    have hq : ∀ j ∈ st0.qry, InOne w.pipes j.ops := fun j hj' => hj0 j (by unfold St.jobs; simp [hj'])
    have hi : ∀ j ∈ st0.inter, InOne w.pipes j.ops := fun j hj' => hj0 j (by unfold St.jobs; simp [hj'])
    have hb : ∀ j ∈ st0.batch, InOne w.pipes j.ops := fun j hj' => hj0 j (by unfold St.jobs; simp [hj'])
    simp only at h
    split at h
    · cases h
    · rename_i w1 sn1 k1 a1 r1
      obtain ⟨o1, p1⟩ := ppQueue_inOne _ _ _ _ _ _ _ _ _ _ _ r1 hq (by intro a ha; cases ha)
      split at h
      · cases h
      · rename_i w2 sn2 k2 a2 r2
        obtain ⟨o2, p2⟩ := ppQueue_inOne _ _ _ _ _ _ _ _ _ _ _ r2 (by rw [p1]; exact hi) (by intro a ha; cases ha)
        split at h
        · cases h
        · rename_i w3 sn3 k3 a3 r3
          obtain ⟨o3, p3⟩ := ppQueue_inOne _ _ _ _ _ _ _ _ _ _ _ r3 (by rw [p2, p1]; exact hb) (by intro a ha; cases ha)
          simp only [Except.ok.injEq, Prod.mk.injEq] at h
          obtain ⟨_, rfl, rfl⟩ := h
          rw [p1] at o2
          rw [p2, p1] at o3
          refine ⟨fun a ha => ?_, fun j hj' => ?_⟩
          · have ha' : a ∈ a1 ∨ a ∈ a2 ∨ a ∈ a3 := by simpa [List.mem_append, or_assoc] using ha
            rcases ha' with h' | h' | h'
            · exact o1 a h'
            · exact o2 a h'
            · exact o3 a h'
          · have : j ∈ st0.qry.drop k1 ++ st0.inter.drop k2 ++ st0.batch.drop k3 := hj'
            have hj'' : j ∈ st0.qry.drop k1 ∨ j ∈ st0.inter.drop k2 ∨ j ∈ st0.batch.drop k3 := by simpa [List.mem_append, or_assoc] using this
            rcases hj'' with h' | h' | h'
            · exact hq j (List.mem_of_mem_drop h')
            · exact hi j (List.mem_of_mem_drop h')
            · exact hb j (List.mem_of_mem_drop h')

end Eudoxia.PP
