import EudoxiaModel.Model.Trace
/-! Arithmetic of the arrival→tick map, snap, and the replay cursor (C13, C20). Core Lean only. -/
namespace Eudoxia.Trace

theorem deliver_ge (n d tps : Nat) (hd : 0 < d) : n * tps ≤ deliverTick n d tps * d := by
  unfold deliverTick
  have := Nat.lt_div_mul_add (a := n * tps + d - 1) hd
  have h2 := Nat.div_mul_le_self (n * tps + d - 1) d
  omega

theorem deliver_first (n d tps k : Nat) (hd : 0 < d) (hk : n * tps ≤ k * d) : deliverTick n d tps ≤ k := by
  unfold deliverTick
  rw [Nat.div_le_iff_le_mul_add_pred hd]
  have : k * d = d * k := Nat.mul_comm _ _
  omega

/-- on-grid arrival k/tps (written as the fraction k/tps) maps back to k -/
theorem deliver_on_grid (k tps : Nat) (ht : 0 < tps) : deliverTick k tps tps = k := by
  apply Nat.le_antisymm
  · exact deliver_first k tps tps k ht (Nat.le_refl _)
  · have := deliver_ge k tps tps ht
    exact Nat.le_of_mul_le_mul_right this ht

/-- never up: snap ≤ a, i.e. snapNum/tps ≤ n/d -/
theorem snap_le (n d tps : Nat) : snapNum n d tps * d ≤ n * tps := Nat.div_mul_le_self _ _

/-- by less than one tick: a - snap < 1/tps, i.e. n*tps < (snapNum+1)*d -/
theorem snap_gap (n d tps : Nat) (hd : 0 < d) : n * tps < (snapNum n d tps + 1) * d := by
  unfold snapNum
  have := Nat.lt_div_mul_add (a := n * tps) hd
  rw [Nat.add_mul]; omega

/-- on-grid values are fixed and snapping is idempotent: snap of (k/tps) is k/tps -/
theorem snap_on_grid (k tps : Nat) (ht : 0 < tps) : snapNum k tps tps = k := by
  unfold snapNum; exact Nat.mul_div_cancel k ht

theorem snap_idem (n d tps : Nat) (ht : 0 < tps) : snapNum (snapNum n d tps) tps tps = snapNum n d tps :=
  snap_on_grid _ _ ht

theorem replay_length (rem : List Nat) (cur n : Nat) : (replay rem cur n).length = n := by
  induction n generalizing rem cur with
  | zero => rfl
  | succ n ih => simp [replay, replayStep, ih]

theorem takeWhile_sorted (cur : Nat) : ∀ (rem : List Nat), rem.Pairwise (· ≤ ·) → (∀ t ∈ rem, cur ≤ t) →
    rem.takeWhile (· ≤ cur) = rem.filter (· == cur) := by
  intro rem
  induction rem with
  | nil => intros; rfl
  | cons t ts iht =>
    intro hs hlo
    rw [List.pairwise_cons] at hs
    have hct := hlo t (by simp)
    by_cases h : t ≤ cur
    · have : t = cur := by omega
      subst this
      simp
      exact iht hs.2 (fun x hx => hlo x (by simp [hx]))
    · have hne : (t == cur) = false := by simp; omega
      simp [h, hne]
      intro x hx; have := hs.1 x hx; omega

theorem dropWhile_sorted (cur : Nat) : ∀ (rem : List Nat), rem.Pairwise (· ≤ ·) →
    rem.dropWhile (· ≤ cur) = rem.filter (fun t => decide (cur < t)) := by
  intro rem
  induction rem with
  | nil => intros; rfl
  | cons t ts iht =>
    intro hs
    rw [List.pairwise_cons] at hs
    by_cases h : t ≤ cur
    · have hnc : ¬ cur < t := by omega
      simp [h, hnc]
      exact iht hs.2
    · have hc : cur < t := by omega
      simp [h, hc]
      symm; apply List.filter_eq_self.mpr
      intro x hx; have := hs.1 x hx; simp; omega

/-- with sorted delivery ticks, tick `cur+j` delivers exactly the entries equal to it (given all remaining are ≥ cur) -/
theorem replay_spec (n : Nat) : ∀ (rem : List Nat) (cur : Nat), rem.Pairwise (· ≤ ·) → (∀ t ∈ rem, cur ≤ t) →
    ∀ j (hj : j < n), (replay rem cur n)[j]'(by rw [replay_length]; exact hj) = rem.filter (· == cur + j) := by
  induction n with
  | zero => intro _ _ _ _ j hj; omega
  | succ n ih =>
    intro rem cur hs hlo j hj
    cases j with
    | zero => simp [replay, replayStep, takeWhile_sorted cur rem hs hlo]
    | succ j =>
      simp only [replay, replayStep, List.getElem_cons_succ]
      have := ih (rem.dropWhile (· ≤ cur)) (cur + 1)
        (by rw [dropWhile_sorted cur rem hs]; exact hs.filter _)
        (by rw [dropWhile_sorted cur rem hs]; intro t ht; simp at ht; omega) j (by omega)
      rw [this, dropWhile_sorted cur rem hs, List.filter_filter]
      apply List.filter_congr
      intro x _
      have e : cur + 1 + j = cur + (j + 1) := by omega
      rw [e]
      by_cases hx : x = cur + (j + 1)
      · subst hx; simp
      · simp [hx]

end Eudoxia.Trace

namespace Eudoxia.Trace

/-- later arrival, later (or equal) delivery tick -/
theorem deliverTick_mono (n1 d1 n2 d2 tps : Nat) (h1 : 0 < d1) (h2 : 0 < d2) (h : n1 * d2 ≤ n2 * d1) :
    deliverTick n1 d1 tps ≤ deliverTick n2 d2 tps := by
  apply deliver_first n1 d1 tps _ h1
  have hk := deliver_ge n2 d2 tps h2
  -- n1*tps*d2 ≤ n2*tps*d1 ≤ k*d2*d1
  apply Nat.le_of_mul_le_mul_right _ h2
  calc n1 * tps * d2 = (n1 * d2) * tps := by rw [Nat.mul_right_comm]
    _ ≤ (n2 * d1) * tps := Nat.mul_le_mul_right _ h
    _ = (n2 * tps) * d1 := by rw [Nat.mul_right_comm]
    _ ≤ (deliverTick n2 d2 tps * d2) * d1 := Nat.mul_le_mul_right _ hk
    _ = deliverTick n2 d2 tps * d1 * d2 := by rw [Nat.mul_right_comm]

/-- everything the replay returns in `n` ticks, in order: exactly the entries whose tick lies before the end -/
theorem replay_flatten (n : Nat) : ∀ (rem : List Nat) (cur : Nat), rem.Pairwise (· ≤ ·) → (∀ t ∈ rem, cur ≤ t) →
    (replay rem cur n).flatten = rem.filter (fun t => decide (t < cur + n)) := by
  induction n with
  | zero =>
    intro rem cur _ hlo
    simp only [replay, List.flatten_nil, Nat.add_zero]
    symm; apply List.filter_eq_nil_iff.mpr
    intro t ht; have := hlo t ht; simp; omega
  | succ n ih =>
    intro rem cur hs hlo
    simp only [replay, replayStep, List.flatten_cons]
    rw [ih (rem.dropWhile (· ≤ cur)) (cur + 1)
      (by rw [dropWhile_sorted cur rem hs]; exact hs.filter _)
      (by rw [dropWhile_sorted cur rem hs]; intro t ht; simp at ht; omega)]
    rw [takeWhile_sorted cur rem hs hlo, dropWhile_sorted cur rem hs, List.filter_filter]
    -- split the entries < cur+n+1 into those = cur and those > cur
    have : ∀ l : List Nat, (∀ t ∈ l, cur ≤ t) → l.Pairwise (· ≤ ·) →
        l.filter (· == cur) ++ l.filter (fun t => decide (t < cur + 1 + n) && decide (cur < t)) =
        l.filter (fun t => decide (t < cur + (n + 1))) := by
      intro l
      induction l with
      | nil => intros; rfl
      | cons t ts iht =>
        intro hlo' hs'
        rw [List.pairwise_cons] at hs'
        have hct := hlo' t (by simp)
        have ih' := iht (fun x hx => hlo' x (by simp [hx])) hs'.2
        by_cases h1 : t = cur
        · subst h1
          simp only [List.filter_cons, beq_self_eq_true, ↓reduceIte, Nat.lt_irrefl, decide_false, Bool.and_false,
            Bool.false_eq_true, List.cons_append]
          have : decide (t < t + (n + 1)) = true := by simp
          rw [this]; simp only [↓reduceIte]; rw [ih']
        · have hgt : cur < t := by omega
          have hne : (t == cur) = false := by simp [h1]
          -- all later entries are > cur too, so none equals cur
          have hnone : ts.filter (· == cur) = [] := by
            apply List.filter_eq_nil_iff.mpr
            intro x hx; have := hs'.1 x hx; simp; omega
          simp only [List.filter_cons, hne, Bool.false_eq_true, ↓reduceIte, hnone, List.nil_append] at ih' ⊢
          by_cases h2 : t < cur + (n + 1)
          · have h2' : t < cur + 1 + n := by omega
            simp [h2, h2', hgt, ih']
          · have h2' : ¬ t < cur + 1 + n := by omega
            simp [h2, h2', ih']
    exact this rem hlo hs

end Eudoxia.Trace
