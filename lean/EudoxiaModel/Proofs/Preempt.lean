import EudoxiaModel.Model.Sched.Priority
/-! Helper lemmas for the round-robin scan for suspendable containers (`prSuspend`): what a request may name.  The property theorems are in `Props/C12.lean`. -/
namespace Eudoxia.Preempt
open Eudoxia Eudoxia.Prio OpState Extracted

theorem dropWhile_head_false {α} (p : α → Bool) : ∀ (l : List α) (c : α) (more : List α), l.dropWhile p = c :: more → p c = false ∧ (c :: more) <:+ l := by
  intro l
  induction l with
  | nil => intro c more h; simp at h
  | cons x xs ih =>
    intro c more h
    rw [List.dropWhile_cons] at h
    split at h
    · obtain ⟨h1, h2⟩ := ih c more h
      exact ⟨h1, List.IsSuffix.trans h2 (List.suffix_cons _ _)⟩
    · rename_i hx
      cases h
      exact ⟨by simpa using hx, List.suffix_refl _⟩

theorem getD_set_suffix (iters pools : List (List Ctr)) (pid : Nat) (more : List Ctr)
    (h : ∀ i, iters.getD i [] <:+ pools.getD i []) (hm : more <:+ iters.getD pid []) :
    ∀ i, (iters.set pid more).getD i [] <:+ pools.getD i [] := by
  intro i
  rw [List.getD_eq_getElem?_getD, List.getElem?_set]
  split
  · rename_i e
    subst e
    split
    · exact List.IsSuffix.trans hm (h pid)
    · simp
  · rw [← List.getD_eq_getElem?_getD]; exact h i

/-- what a preemption request may name -/
def Preemptible (pools : List (List Ctr)) (x : Nat × Nat) : Prop :=
  ∃ c ∈ pools.getD x.1 [], c.cid = x.2 ∧ c.prio ≠ prioQuery ∧ c.canSuspend = true

theorem prSuspend_go_spec (pools : List (List Ctr)) (need n : Nat) : ∀ (fuel : Nat) (iters : List (List Ctr)) (exh : List Bool) (pid cnt : Nat)
    (acc : List (Nat × Nat)), (∀ i, iters.getD i [] <:+ pools.getD i []) → (∀ x ∈ acc, Preemptible pools x) → acc.length = cnt → cnt ≤ need →
    (∀ x ∈ prSuspend.go need n fuel iters exh pid cnt acc, Preemptible pools x) ∧ (prSuspend.go need n fuel iters exh pid cnt acc).length ≤ need := by
  intro fuel
  induction fuel with
  | zero => intro iters exh pid cnt acc _ h2 h3 h4; simp only [prSuspend.go]; exact ⟨h2, by omega⟩
  | succ fuel ih =>
    intro iters exh pid cnt acc h1 h2 h3 h4
    unfold prSuspend.go
    split
    · exact ⟨h2, by omega⟩
    · split
      · exact ⟨h2, by omega⟩
      · simp only
        split
        · exact ih _ _ _ _ _ (getD_set_suffix _ _ _ _ h1 (List.nil_suffix)) h2 h3 h4
        · rename_i c more hdw
          obtain ⟨hq, hsuf⟩ := dropWhile_head_false _ _ _ _ hdw
          have hmore : more <:+ iters.getD pid [] := List.IsSuffix.trans (List.suffix_cons c more) hsuf
          have hmem : c ∈ pools.getD pid [] := (h1 pid).subset (hsuf.subset (by simp))
          split
          · rename_i hcs
            refine ih _ _ _ _ _ (getD_set_suffix _ _ _ _ h1 hmore) ?_ (by simp [h3]) (by omega)
            intro x hx
            rcases List.mem_append.mp hx with hx | hx
            · exact h2 x hx
            · simp at hx; subst hx
              exact ⟨c, hmem, rfl, by simpa using hq, hcs⟩
          · exact ih _ _ _ _ _ (getD_set_suffix _ _ _ _ h1 hmore) h2 h3 h4

theorem prSuspend_spec (pools : List (List Ctr)) (need : Nat) :
    (∀ x ∈ prSuspend pools need, Preemptible pools x) ∧ (prSuspend pools need).length ≤ need := by
  unfold prSuspend
  simp only
  split
  · simp
  · exact prSuspend_go_spec pools need pools.length _ pools _ 0 0 [] (fun i => List.suffix_refl _) (by simp) rfl (by omega)

end Eudoxia.Preempt
