import EudoxiaModel.Proofs.SpecRun
/-! The operator index of a container (`_current_op_idx`: how many of its operators are done) along a run: it is always the operator of the next
    documented demand — so when the container ends it is the specification's `completedOps`. -/
namespace Eudoxia

/-- labels (operators still to follow) go down in steps of at most one and end at zero -/
def Desc : List (Nat × Nat) → Prop
  | [] => True
  | [x] => x.1 = 0
  | x :: y :: r => (x.1 = y.1 ∨ x.1 = y.1 + 1) ∧ Desc (y :: r)

theorem Desc.tail {x : Nat × Nat} {l : List (Nat × Nat)} (h : Desc (x :: l)) : Desc l := by
  cases l with
  | nil => trivial
  | cons y r => exact h.2

theorem Desc.le_head : ∀ {l : List (Nat × Nat)} {y : Nat × Nat}, Desc (y :: l) → ∀ x ∈ y :: l, x.1 ≤ y.1
  | [], y, _, x, hx => by simp at hx; rw [hx]; exact Nat.le_refl _
  | z :: r, y, h, x, hx => by
    simp only [List.mem_cons] at hx
    rcases hx with rfl | hx
    · exact Nat.le_refl _
    · have := Desc.le_head h.2 x (List.mem_cons.mpr hx)
      rcases h.1 with e | e <;> omega

/-- a block of one label in front of a list that starts one lower (or is empty, for label 0) -/
theorem desc_block (k : Nat) (l : List (Nat × Nat)) (hl : Desc l) (hhead : (l = [] ∧ k = 0) ∨ ∃ y r, l = y :: r ∧ k = y.1 + 1) :
    ∀ (ms : List Nat), Desc (ms.map (fun m => (k, m)) ++ l)
  | [] => hl
  | [m] => by
    rcases hhead with ⟨rfl, rfl⟩ | ⟨y, r, rfl, rfl⟩
    · simp [Desc]
    · exact ⟨Or.inr rfl, hl⟩
  | m :: m' :: ms => by
    have := desc_block k l hl hhead (m' :: ms)
    exact ⟨Or.inl rfl, this⟩

theorem labelOps_desc (cfg : Cfg) (cpu : Nat) : ∀ (os : List (Nat × List Seg)), (∀ o ∈ os, o.2 ≠ []) →
    Desc (labelOps cfg cpu os) ∧ (os ≠ [] → ∃ y r, labelOps cfg cpu os = y :: r ∧ y.1 + 1 = os.length)
  | [], _ => ⟨trivial, fun h => absurd rfl h⟩
  | o :: os, hseg => by
    obtain ⟨ih1, ih2⟩ := labelOps_desc cfg cpu os (fun x hx => hseg x (List.mem_cons_of_mem _ hx))
    have hne : opRem cfg cpu o.2 ≠ [] := by
      intro e
      have hlen := congrArg List.length e
      rw [opRem_length] at hlen
      have := opTickTable_pos cfg cpu o.2 (hseg o (by simp))
      simp at hlen; omega
    have hhead : (labelOps cfg cpu os = [] ∧ os.length = 0) ∨ ∃ y r, labelOps cfg cpu os = y :: r ∧ os.length = y.1 + 1 := by
      cases os with
      | nil => exact Or.inl ⟨rfl, rfl⟩
      | cons o' os' =>
        obtain ⟨y, r, e, hy⟩ := ih2 (by simp)
        exact Or.inr ⟨y, r, e, hy.symm⟩
    refine ⟨?_, fun _ => ?_⟩
    · simp only [labelOps]
      exact desc_block os.length _ ih1 hhead _
    · simp only [labelOps]
      cases hm : opRem cfg cpu o.2 with
      | nil => exact absurd hm hne
      | cons m ms => exact ⟨(os.length, m), _, rfl, by simp⟩

/-- the invariant: the operator index plus the label of the next demand is the number of operators (all done when nothing is left) -/
def IdxOK (cfg : Cfg) (L : Nat) (c : Ctr) : Prop :=
  Desc (remL cfg c) ∧ (remL cfg c = [] → c.curOpIdx = L) ∧ (∀ k m tl, remL cfg c = (k, m) :: tl → c.curOpIdx + k + 1 = L)

theorem idxOK_new (cfg : Cfg) (w : Store) (cid : Nat) (a : Asg) (hseg : ∀ r ∈ a.ops, w.segsOf r ≠ []) :
    IdxOK cfg a.ops.length (mkCtr w cid a) := by
  have hL : remL cfg (mkCtr w cid a) = labelOps cfg a.cpu (a.ops.map (fun r => (r, w.segsOf r))) := by
    simp only [remL, remHead, mkCtr, mkPos]
    cases a.ops with
    | nil => simp [labelOps]
    | cons r rs => simp [labelOps]
  have hs : ∀ o ∈ a.ops.map (fun r => (r, w.segsOf r)), o.2 ≠ [] := by
    intro o ho
    obtain ⟨r, hr, rfl⟩ := List.mem_map.mp ho
    exact hseg r hr
  obtain ⟨d1, d2⟩ := labelOps_desc cfg a.cpu _ hs
  refine ⟨by rw [hL]; exact d1, ?_, ?_⟩
  · intro e
    rw [hL] at e
    cases hops : a.ops with
    | nil => rfl
    | cons r rs =>
      rw [hops] at e d2
      obtain ⟨y, r', e', _⟩ := d2 (by simp)
      rw [e] at e'; cases e'
  · intro k m tl e
    rw [hL] at e
    cases hops : a.ops with
    | nil => rw [hops] at e; simp [labelOps] at e
    | cons r rs =>
      rw [hops] at e d2
      obtain ⟨y, r', e', hy⟩ := d2 (by simp)
      rw [e] at e'
      simp only [List.cons.injEq] at e'
      rw [← e'.1] at hy
      simp only [List.length_map, List.length_cons] at hy
      simp only [mkCtr, List.length_cons]
      omega

/-- a fitting tick keeps the invariant -/
theorem idxOK_step (cfg : Cfg) (L : Nat) (c c' : Ctr) (k m : Nat) (tl : List (Nat × Nat)) (h : IdxOK cfg L c)
    (e : remL cfg c = (k, m) :: tl) (e' : remL cfg c' = tl)
    (hi : c'.curOpIdx = (if ∀ x ∈ tl, x.1 ≠ k then c.curOpIdx + 1 else c.curOpIdx)) : IdxOK cfg L c' := by
  obtain ⟨h1, _, h3⟩ := h
  have hk := h3 k m tl e
  rw [e] at h1
  refine ⟨by rw [e']; exact h1.tail, ?_, ?_⟩
  · intro enil
    rw [e'] at enil
    subst enil
    have : k = 0 := h1
    rw [hi]; simp; omega
  · intro k2 m2 tl2 e2
    rw [e'] at e2
    subst e2
    rw [hi]
    rcases h1.1 with ek | ek
    · have : ¬ ∀ x ∈ (k2, m2) :: tl2, x.1 ≠ k := by
        intro hall; exact hall (k2, m2) (by simp) (by simpa using ek.symm)
      rw [if_neg this]; simp only at ek; omega
    · have : ∀ x ∈ (k2, m2) :: tl2, x.1 ≠ k := by
        intro x hx
        have := Desc.le_head h1.2 x hx
        simp only at ek this; omega
      rw [if_pos this]; simp only at ek; omega

/-- **the operator index along a run**: under the hypotheses of `run_follows_demands`, the invariant is kept by `n` fitting ticks -/
theorem run_keeps_idxOK (cfg : Cfg) (L : Nat) : ∀ (n : Nat) (w : Store) (c : Ctr) (cons : Int) (w' : Store) (c' : Ctr) (cons' : Int),
    c.frozen = false → c.completed = false → PosOK cfg c → (∀ o ∈ c.pos.ops, o.2 ≠ []) →
    n ≤ (remL cfg c).length → (∀ x ∈ (remL cfg c).take n, x.2 ≤ c.ram) → IdxOK cfg L c →
    runN cfg n w c cons = .ok (w', c', cons') → IdxOK cfg L c'
  | 0, w, c, cons, w', c', cons', _, _, _, _, _, _, hi, h => by
    simp only [runN, Except.ok.injEq, Prod.mk.injEq] at h
    obtain ⟨_, rfl, _⟩ := h
    exact hi
  | n + 1, w, c, cons, w', c', cons', hf, hc, hp, hseg, hn, hfit, hi, h => by
    unfold runN at h
    split at h
    · cases h
    · rename_i w1 c1 cons1 ht
      obtain ⟨k, m, tl, a1, a2, _, a4, _, _, a7⟩ := tick_consumes cfg w c cons w1 c1 cons1 hf hc hp hseg ht
      rw [a1] at hn hfit
      have hm : m ≤ c.ram := hfit (k, m) (by simp)
      obtain ⟨b1, b2, b3, b4, _, b6, _⟩ := a7 hm
      have hi1 : IdxOK cfg L c1 := idxOK_step cfg L c c1 k m tl hi a1 b2 b6
      simp only [List.length_cons] at hn
      by_cases hn0 : n = 0
      · subst hn0
        simp only [runN, Except.ok.injEq, Prod.mk.injEq] at h
        obtain ⟨_, rfl, _⟩ := h
        exact hi1
      · have hnc : c1.completed = false := by
          cases hcc : c1.completed with
          | false => rfl
          | true =>
            have := b4.mp hcc
            rw [this] at hn
            simp at hn
            omega
        exact run_keeps_idxOK cfg L n w1 c1 cons1 w' c' cons' b1 hnc b3 a4 (by rw [b2]; omega)
          (by rw [b2, a2]; intro x hx; exact hfit x (by simp only [List.take_succ_cons]; exact List.mem_cons_of_mem _ hx)) hi1 h

end Eudoxia
