import EudoxiaModel.Model.Sort
/-! Lemmas about the stable descending insertion sort (C11). Core Lean only. -/
namespace Eudoxia.SortP

variable {α : Type} (ge : α → α → Bool)

theorem insertDesc_perm (x : α) (l : List α) : (insertDesc ge x l).Perm (x :: l) := by
  induction l with
  | nil => simp [insertDesc]
  | cons y ys ih =>
    unfold insertDesc
    split
    · exact (List.Perm.cons y ih).trans (List.Perm.swap x y ys)
    · exact List.Perm.refl _

theorem foldl_insert_perm (l acc : List α) : (l.foldl (fun acc x => insertDesc ge x acc) acc).Perm (l ++ acc) := by
  induction l generalizing acc with
  | nil => simp
  | cons x xs ih =>
    simp only [List.foldl_cons]
    refine (ih _).trans ?_
    have := insertDesc_perm ge x acc
    exact (List.Perm.append_left xs this).trans (by simpa using (List.perm_middle (a := x) (l₁ := xs) (l₂ := acc)))

theorem sortDesc_perm (l : List α) : (sortDesc ge l).Perm l := by
  simpa [sortDesc] using foldl_insert_perm ge l []


theorem insertDesc_sorted (total : ∀ a b, ge a b = true ∨ ge b a = true) (trans : ∀ a b c, ge a b = true → ge b c = true → ge a c = true) (x : α) (l : List α) (h : l.Pairwise (fun a b => ge a b = true)) :
    (insertDesc ge x l).Pairwise (fun a b => ge a b = true) := by
  induction l with
  | nil => simp [insertDesc]
  | cons y ys ih =>
    rw [List.pairwise_cons] at h
    unfold insertDesc
    split
    · rename_i hyx
      rw [List.pairwise_cons]
      refine ⟨?_, ih h.2⟩
      intro z hz
      have := (insertDesc_perm ge x ys).mem_iff.mp hz
      rw [List.mem_cons] at this
      rcases this with rfl | hz'
      · exact hyx
      · exact h.1 z hz'
    · rename_i hyx
      have hxy : ge x y = true := by
        rcases total y x with h1 | h1
        · exact absurd h1 hyx
        · exact h1
      rw [List.pairwise_cons]
      refine ⟨?_, List.pairwise_cons.mpr h⟩
      intro z hz
      rw [List.mem_cons] at hz
      rcases hz with rfl | hz
      · exact hxy
      · exact trans x y z hxy (h.1 z hz)

theorem foldl_insert_sorted (total : ∀ a b, ge a b = true ∨ ge b a = true) (trans : ∀ a b c, ge a b = true → ge b c = true → ge a c = true) (l acc : List α) (h : acc.Pairwise (fun a b => ge a b = true)) :
    (l.foldl (fun acc x => insertDesc ge x acc) acc).Pairwise (fun a b => ge a b = true) := by
  induction l generalizing acc with
  | nil => simpa
  | cons x xs ih => exact ih _ (insertDesc_sorted ge total trans x acc h)

theorem sortDesc_sorted (total : ∀ a b, ge a b = true ∨ ge b a = true) (trans : ∀ a b c, ge a b = true → ge b c = true → ge a c = true) (l : List α) : (sortDesc ge l).Pairwise (fun a b => ge a b = true) :=
  foldl_insert_sorted ge total trans l [] List.Pairwise.nil

/-- C11 core: if victims are a prefix of the sorted order, no survivor has a strictly higher score -/
theorem prefix_victims_top (total : ∀ a b, ge a b = true ∨ ge b a = true) (trans : ∀ a b c, ge a b = true → ge b c = true → ge a c = true) (l : List α) (k : Nat) (v w : α)
    (hv : v ∈ (sortDesc ge l).take k) (hw : w ∈ (sortDesc ge l).drop k) : ge v w = true := by
  have hs := sortDesc_sorted ge total trans l
  rw [← List.take_append_drop k (sortDesc ge l)] at hs
  exact (List.pairwise_append.mp hs).2.2 v hv w hw

end Eudoxia.SortP

namespace Eudoxia.SortP
variable {α : Type} (ge : α → α → Bool)

/-- sortedness when the comparison is transitive only through elements satisfying `P` (here: positive allocation) -/
theorem insertDesc_sorted_on (P : α → Prop) (total : ∀ a b, ge a b = true ∨ ge b a = true)
    (trans : ∀ a b c, P b → ge a b = true → ge b c = true → ge a c = true) (x : α) (l : List α)
    (hP : ∀ a ∈ l, P a) (h : l.Pairwise (fun a b => ge a b = true)) :
    (insertDesc ge x l).Pairwise (fun a b => ge a b = true) := by
  induction l with
  | nil => simp [insertDesc]
  | cons y ys ih =>
    rw [List.pairwise_cons] at h
    unfold insertDesc
    split
    · rename_i hyx
      rw [List.pairwise_cons]
      refine ⟨?_, ih (fun a ha => hP a (by simp [ha])) h.2⟩
      intro z hz
      have := (insertDesc_perm ge x ys).mem_iff.mp hz
      rw [List.mem_cons] at this
      rcases this with rfl | hz'
      · exact hyx
      · exact h.1 z hz'
    · rename_i hyx
      have hxy : ge x y = true := by
        rcases total y x with h1 | h1
        · exact absurd h1 hyx
        · exact h1
      rw [List.pairwise_cons]
      refine ⟨?_, List.pairwise_cons.mpr h⟩
      intro z hz
      rw [List.mem_cons] at hz
      rcases hz with rfl | hz
      · exact hxy
      · exact trans x y z (hP y (by simp)) hxy (h.1 z hz)

theorem foldl_insert_sorted_on (P : α → Prop) (total : ∀ a b, ge a b = true ∨ ge b a = true)
    (trans : ∀ a b c, P b → ge a b = true → ge b c = true → ge a c = true) (l acc : List α)
    (hl : ∀ a ∈ l, P a) (hacc : ∀ a ∈ acc, P a) (h : acc.Pairwise (fun a b => ge a b = true)) :
    (l.foldl (fun acc x => insertDesc ge x acc) acc).Pairwise (fun a b => ge a b = true) := by
  induction l generalizing acc with
  | nil => simpa
  | cons x xs ih =>
    apply ih _ (fun a ha => hl a (by simp [ha]))
    · intro a ha
      have := (insertDesc_perm ge x acc).mem_iff.mp ha
      rcases List.mem_cons.mp this with rfl | h'
      · exact hl _ (by simp)
      · exact hacc a h'
    · exact insertDesc_sorted_on ge P total trans x acc hacc h

theorem sortDesc_sorted_on (P : α → Prop) (total : ∀ a b, ge a b = true ∨ ge b a = true)
    (trans : ∀ a b c, P b → ge a b = true → ge b c = true → ge a c = true) (l : List α) (hl : ∀ a ∈ l, P a) :
    (sortDesc ge l).Pairwise (fun a b => ge a b = true) :=
  foldl_insert_sorted_on ge P total trans l [] hl (by simp) List.Pairwise.nil

end Eudoxia.SortP
