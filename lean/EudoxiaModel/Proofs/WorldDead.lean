import EudoxiaModel.Proofs.Dead
import EudoxiaModel.Proofs.WorldLive
/-! The executor tick, seen from the scheduler's side: what the results it reports say about the operator table. -/
namespace Eudoxia
open OpState Extracted

/-- no write-out is in progress and every container has its record straight -/
def World.FinOK (w : World) : Prop := ∀ p ∈ w.pools, p.suspending = [] ∧ ∀ c ∈ p.active, Fin w.store c

theorem fresh_world_finOK (cfg : Cfg) (store : Store) (pipes : Array PipeInfo) (caps : List (Nat × Nat)) :
    World.FinOK { cfg := cfg, store := store, pools := caps.map (fun c => Pool.fresh c.1 c.2), pipes := pipes } := by
  intro p hp
  obtain ⟨x, _, rfl⟩ := List.mem_map.mp hp
  exact ⟨rfl, by intro c hc; simp [Pool.fresh] at hc⟩

/-- **what an executor tick (without suspension requests) reports**: the results are the results of ended containers whose operators are COMPLETED up to where
they got and, if the container ended with an error, FAILED from there on (at least one); the unfinished operators of all of them are pairwise distinct and were
ASSIGNED, RUNNING or SUSPENDING when the tick began -/
theorem execTick_fin (w0 w1 : World) (asgs : List Asg) (hr : WorldReady w0) (hb : Built w0 asgs w1)
    (hseg : ∀ a ∈ asgs, ∀ r ∈ a.ops, w0.store.segsOf r ≠ []) (hpar : ∀ a ∈ asgs, ParentsOK w1.store a.ops) (hf : w0.FinOK)
    {w2 : World} {res : List Res} (hx : w1.execTick [] asgs = .ok (w2, res)) :
    w2.FinOK ∧ ∃ cs, res = cs.map mkRes ∧ (∀ c ∈ cs, Fin w2.store c ∧ c.completed = true) ∧ (allUnf cs).Nodup ∧
      ∀ o ∈ allUnf cs, Busy (w1.store.stOf o) := by
  have hJ := poolsReady_of_built w0 w1 asgs hr hb hseg hpar
  obtain ⟨e1, _, _, est⟩ := built_frame hb
  obtain ⟨_, _, b3, b4⟩ := built_spec hb
  -- what the pools own is busy, before and after the constructions
  have howned : ∀ p ∈ w0.pools, ∀ o ∈ ownP p, Busy (w0.store.stOf o) ∧ o ∉ asgs.flatMap (·.ops) := by
    intro p hp o ho
    obtain ⟨_, lp, _⟩ := hr.pools p hp
    simp only [ownP, own] at ho
    obtain ⟨c, hc, hoc⟩ := List.mem_flatMap.mp ho
    obtain ⟨hc1, hc2⟩ := List.mem_filter.mp hc
    have hbusy := lp.busy c hc1 (by simpa using hc2) o hoc
    refine ⟨hbusy, fun hx' => ?_⟩
    have := (b3 o hx').1
    simp only [assignable, List.mem_cons, List.not_mem_nil, or_false] at this
    rcases hbusy with e | e | e <;> rcases this with f | f <;> rw [e] at f <;> cases f
  have hfin1 : ∀ p ∈ w1.pools, p.suspending = [] ∧ ∀ c ∈ p.active, Fin w1.store c := by
    intro p hp
    rw [e1] at hp
    refine ⟨(hf p hp).1, fun c hc => ?_⟩
    obtain ⟨_, lp, _⟩ := hr.pools p hp
    apply fin_frame ((hf p hp).2 c hc) est
    intro o ho
    apply b4
    have : o ∈ ownP p := by
      simp only [ownP, (hf p hp).1, List.append_nil]
      exact mem_own hc (lp.nc c (List.mem_append_left _ hc)) ho
    exact (howned p hp o this).2
  unfold World.execTick at hx
  split at hx
  · cases hx
  · split at hx
    · cases hx
    · cases hx
    · rename_i s ps n rr hexp
      simp only [Except.ok.injEq, Prod.mk.injEq] at hx
      obtain ⟨rfl, rfl⟩ := hx
      have := execPools_fin w1.cfg asgs (fun o => Busy (w1.store.stOf o))
        (fun o ho => by rw [(b3 o ho).2]; exact Or.inl rfl)
        w1.pools w1.store w1.nextCid [] [] s ps n rr hJ (by simpa using hfin1)
        (by intro p hp o ho
            rw [e1] at hp
            rw [b4 o (howned p hp o ho).2]
            exact (howned p hp o ho).1)
        (by simp) (by simp [allUnf]) (by simp [allUnf]) hexp
      exact this

end Eudoxia
