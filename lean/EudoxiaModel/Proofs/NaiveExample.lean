import EudoxiaModel.Proofs.NaiveMulti
/-! A concrete world that meets every hypothesis of the closed-loop theorems (non-vacuity): one pipeline, a diamond a → {b, c} → d,
    two pools, nothing started yet. -/
namespace Eudoxia.NaiveExample
open Eudoxia OpState Extracted

def seg : Seg := { baseNum := 1, read := 0 }

def store : Store :=
  ((((({} : Store).addOp 0 [] [seg]).addOp 0 [0] [seg]).addOp 0 [0] [seg]).addOp 0 [1, 2] [seg])

def world (multi : Bool) : World :=
  { cfg := { tps := 1, q := 64, g := 1280, multiOp := multi }, store := store,
    pools := [(4, 64 * 8), (4, 64 * 8)].map (fun c => Pool.fresh c.1 c.2),
    pipes := #[{ prio := 3, order := [0, 1, 2, 3], first := 0, n := 4 }] }

theorem world_store (multi : Bool) : (world multi).store = store := rfl

theorem order_of (multi : Bool) (pid : Nat) : ((world multi).pipes.getD pid default).order = if pid = 0 then [0, 1, 2, 3] else [] := by
  cases pid with
  | zero => rfl
  | succ k => rfl

theorem four (r : Nat) (h : r ∈ [0, 1, 2, 3]) : r = 0 ∨ r = 1 ∨ r = 2 ∨ r = 3 := by simpa using h

theorem wfp (multi : Bool) : (world multi).WFP := by
  intro pid
  rw [order_of, world_store]
  split
  · exact ⟨by decide, by intro r hr; rcases four r hr with rfl | rfl | rfl | rfl <;> decide⟩
  · exact ⟨by simp, by simp⟩

theorem segsOK (multi : Bool) : (world multi).SegsOK := by
  intro pid r hr
  rw [order_of] at hr
  rw [world_store]
  split at hr
  · rcases four r hr with rfl | rfl | rfl | rfl <;> decide
  · simp at hr

theorem split4 (pre : List Nat) (r : Nat) (post : List Nat) (h : [0, 1, 2, 3] = pre ++ r :: post) :
    (pre = [] ∧ r = 0) ∨ (pre = [0] ∧ r = 1) ∨ (pre = [0, 1] ∧ r = 2) ∨ (pre = [0, 1, 2] ∧ r = 3) := by
  match pre, h with
  | [], h => simp at h; exact Or.inl ⟨rfl, h.1.symm⟩
  | [a], h => simp at h; exact Or.inr (Or.inl ⟨by rw [← h.1], h.2.1.symm⟩)
  | [a, b], h => simp at h; exact Or.inr (Or.inr (Or.inl ⟨by rw [← h.1, ← h.2.1], h.2.2.1.symm⟩))
  | [a, b, c], h => simp at h; exact Or.inr (Or.inr (Or.inr ⟨by rw [← h.1, ← h.2.1, ← h.2.2.1], h.2.2.2.1.symm⟩))
  | a :: b :: c :: d :: more, h => simp at h

theorem naiveInv (multi : Bool) : NaiveInv (world multi) := by
  refine ⟨wfp multi, segsOK multi, ?_, ?_, ?_, ?_⟩
  · intro pid r hr
    rw [order_of] at hr
    rw [world_store]
    split at hr
    · rename_i h; subst h; rcases four r hr with rfl | rfl | rfl | rfl <;> rfl
    · simp at hr
  · intro pid pre r post ho q hq
    rw [order_of] at ho
    rw [world_store] at hq
    split at ho
    · rcases split4 pre r post ho with ⟨rfl, rfl⟩ | ⟨rfl, rfl⟩ | ⟨rfl, rfl⟩ | ⟨rfl, rfl⟩
      · have : q ∈ ([] : List Nat) := hq
        simp at this
      · have : q ∈ [0] := hq
        exact this
      · have : q ∈ [0] := hq
        simp at this; simp [this]
      · have : q ∈ [1, 2] := hq
        simp at this; rcases this with rfl | rfl <;> simp
    · simp at ho
  · intro pid ⟨o, ho, hb⟩
    rw [order_of] at ho
    rw [world_store] at hb
    split at ho
    · rcases four o ho with rfl | rfl | rfl | rfl <;> (rcases hb with e | e | e <;> exact absurd e (by decide))
    · simp at ho
  · rw [world_store]
    constructor
    · intro r hr
      have : r < 4 := hr
      have h4 : r = 0 ∨ r = 1 ∨ r = 2 ∨ r = 3 := by omega
      rcases h4 with rfl | rfl | rfl | rfl <;> decide
    · intro pid x
      cases pid with
      | zero => cases x <;> decide
      | succ k =>
        have h1 : store.hist (k + 1) x = 0 := by
          unfold Store.hist
          apply List.countP_eq_zero.mpr
          intro r hr
          have : r < 4 := List.mem_range.mp hr
          have h4 : r = 0 ∨ r = 1 ∨ r = 2 ∨ r = 3 := by omega
          rcases h4 with rfl | rfl | rfl | rfl <;> simp [store, Store.addOp, Store.pidOf]
        have h2 : store.count (k + 1) x = 0 := by
          unfold Store.count
          have hsz : store.cnt.size = 6 := by decide
          rw [Array.getD_eq_getD_getElem?, Array.getElem?_eq_none (by rw [hsz]; omega)]
          rfl
        rw [h1, h2]

theorem ready (multi : Bool) : WorldReady (world multi) :=
  fresh_world_ready _ _ _ _

theorem noSusp (multi : Bool) : (world multi).NoSusp := by
  intro p hp
  simp only [world, List.map_cons, List.map_nil, List.mem_cons, List.not_mem_nil, or_false] at hp
  rcases hp with rfl | rfl <;> rfl

/-- both closed-loop theorems apply to this world: whatever the arrival batches are, the run does not raise -/
theorem runs (arrivals : List (List Nat)) :
    (∃ out, Naive.loop (world false) {} [] arrivals = .ok out) ∧ (∃ out, Naive.loopM true (world true) {} [] arrivals = .ok out) :=
  ⟨Naive.run_never_raises arrivals _ _ _ (ready false) (wfp false) (segsOK false) rfl,
   Naive.run_multi_never_raises arrivals _ _ _ (ready true) (naiveInv true) (noSusp true) rfl⟩

end Eudoxia.NaiveExample
