import EudoxiaModel.Proofs.PrioMulti
import EudoxiaModel.Proofs.PoolLoop
import EudoxiaModel.Proofs.OverbookLoop
/-! Every world in which nothing has been started yet — any configuration, any pools, any registered workload of well-formed pipelines — meets the loop
    invariants of the whole-run theorems.  (The concrete `…Example` files are instances.) -/
namespace Eudoxia
open OpState Extracted

/-- a world in which nothing has been started -/
def freshWorld (cfg : Cfg) (store : Store) (pipes : Array PipeInfo) (caps : List (Nat × Nat)) : World :=
  { cfg := cfg, store := store, pools := caps.map (fun c => Pool.fresh c.1 c.2), pipes := pipes }

theorem fresh_nopool (cfg : Cfg) (store : Store) (pipes : Array PipeInfo) (caps : List (Nat × Nat)) :
    ∀ p ∈ (freshWorld cfg store pipes caps).pools, p.active = [] ∧ p.suspending = [] ∧ p.suspended = [] := by
  intro p hp
  obtain ⟨x, _, rfl⟩ := List.mem_map.mp hp
  simp [Pool.fresh]

/-- `priority`, multi-operator containers (pre-emption) -/
theorem PM.fresh_inv (cfg : Cfg) (store : Store) (pipes : Array PipeInfo) (caps : List (Nat × Nat)) (F : List Nat)
    (hm : cfg.multiOp = true) (ho : cfg.overcommit = false) (hq : 0 < cfg.q)
    (wf : (freshWorld cfg store pipes caps).WFP) (hs : (freshWorld cfg store pipes caps).SegsOK) (hp : (freshWorld cfg store pipes caps).PidOK)
    (ht : (freshWorld cfg store pipes caps).Topo) (hF : F.Nodup)
    (hfut : ∀ pid ∈ F, (pipes.getD pid default).order ≠ [] ∧ ∀ o ∈ (pipes.getD pid default).order, store.stOf o = pending) :
    PM.PMInv (freshWorld cfg store pipes caps) {} [] [] F := by
  have np := fresh_nopool cfg store pipes caps
  refine ⟨fresh_world_ready _ _ _ _, wf, hs, hp, ht, ?_, fresh_world_cidsOK _ _ _ _, hm, ho, hq,
    ⟨by simp [Prio.St.jobs], by intro j hj; simp [Prio.St.jobs] at hj⟩, by intro j hj; simp [Prio.St.jobs] at hj, by intro o ho'; simp [Prio.St.jobs] at ho',
    hF, hfut, ?_, ?_, ?_, by simp, by simp, by simp [allUnf], by intro o ho'; simp [allUnf] at ho', by simp, ?_, ?_, by intro c hc; cases hc⟩
  · intro p hp' c hc
    obtain ⟨a, b, _⟩ := np p hp'
    rw [a, b] at hc; cases hc
  · intro p hp' c hc
    rw [(np p hp').1] at hc; cases hc
  · intro p hp' c hc
    rw [(np p hp').2.1] at hc; cases hc
  · intro p hp' c hc
    rw [(np p hp').2.1] at hc; cases hc
  · intro p hp' c hc
    rw [(np p hp').2.2] at hc; cases hc
  · intro x hx
    cases hx

/-- `priority-pool`, multi-operator containers: two pools, each with some CPU and some RAM -/
theorem PP.fresh_inv (cfg : Cfg) (store : Store) (pipes : Array PipeInfo) (c0 c1 : Nat × Nat) (F : List Nat)
    (hm : cfg.multiOp = true) (hq : 0 < cfg.q) (h0 : 0 < c0.1 ∧ 0 < c0.2) (h1 : 0 < c1.1 ∧ 0 < c1.2)
    (wf : (freshWorld cfg store pipes [c0, c1]).WFP) (hs : (freshWorld cfg store pipes [c0, c1]).SegsOK) (hp : (freshWorld cfg store pipes [c0, c1]).PidOK)
    (ht : (freshWorld cfg store pipes [c0, c1]).Topo) (hF : F.Nodup)
    (hfut : ∀ pid ∈ F, (pipes.getD pid default).order ≠ [] ∧ ∀ o ∈ (pipes.getD pid default).order, store.stOf o = pending) :
    PP.PPInv (freshWorld cfg store pipes [c0, c1]) {} [] F := by
  have np := fresh_nopool cfg store pipes [c0, c1]
  refine ⟨fresh_world_ready _ _ _ _, wf, hs, hp, ht, fresh_world_finOK _ _ _ _, hm, hq, rfl, ?_,
    ⟨by simp [Prio.St.jobs], by intro j hj; simp [Prio.St.jobs] at hj⟩, by intro o ho'; simp [Prio.St.jobs] at ho', hF, hfut, ?_, by simp, by simp [allUnf],
    by intro o ho'; simp [allUnf] at ho'⟩
  · intro p hp'
    simp only [freshWorld, List.map_cons, List.map_nil, List.mem_cons, List.not_mem_nil, or_false] at hp'
    rcases hp' with rfl | rfl <;> (unfold PP.PoolZT Pool.fresh; simp; omega)
  · intro p hp' c hc
    rw [(np p hp').1] at hc; cases hc

/-- `priority`, single-operator containers -/
theorem Prio.fresh_inv_single (cfg : Cfg) (store : Store) (pipes : Array PipeInfo) (caps : List (Nat × Nat))
    (hm : cfg.multiOp = false) (ho : cfg.overcommit = false) (hq : 0 < cfg.q)
    (wf : (freshWorld cfg store pipes caps).WFP) (hs : (freshWorld cfg store pipes caps).SegsOK) (hp : (freshWorld cfg store pipes caps).PidOK) :
    Prio.PRInv (freshWorld cfg store pipes caps) {} [] := by
  have np := fresh_nopool cfg store pipes caps
  refine ⟨fresh_world_ready _ _ _ _, wf, hs, hp, fun p hp' => (np p hp').2.1, hm, ho, hq,
    ⟨by simp [Prio.St.jobs], by intro j hj; simp [Prio.St.jobs] at hj⟩, rfl, by simp, ?_⟩
  intro p hp' c hc
  rw [(np p hp').1] at hc; cases hc

/-- overbook (memory overcommit on), either container mode: pools with some RAM -/
theorem Overbook.fresh_inv (cfg : Cfg) (store : Store) (pipes : Array PipeInfo) (caps : List (Nat × Nat))
    (ho : cfg.overcommit = true) (hc : ∀ c ∈ caps, 0 < c.2)
    (wf : (freshWorld cfg store pipes caps).WFP) (hs : (freshWorld cfg store pipes caps).SegsOK) :
    Overbook.OBInv (freshWorld cfg store pipes caps) {} [] := by
  have np := fresh_nopool cfg store pipes caps
  refine ⟨fresh_world_ready _ _ _ _, wf, hs, fun p hp' => (np p hp').2.1, ⟨by simp, by intro r hr; simp at hr⟩, by simp, ho, ?_, ?_⟩
  · intro p hp'
    obtain ⟨x, hx, rfl⟩ := List.mem_map.mp hp'
    exact hc x hx
  · intro p hp' c hc'
    rw [(np p hp').1] at hc'; cases hc'

end Eudoxia
