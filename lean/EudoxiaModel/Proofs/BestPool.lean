import EudoxiaModel.Model.Sched.Priority
/-! Helper lemmas about `bestPool` (`get_pool_with_max_avail_ram`): the pool it picks is open and has the most free RAM among the pools with a free CPU.
    Kept in the namespace of the property they serve; the property theorems are in `Props/C12.lean`. -/
namespace Eudoxia.C12
open Eudoxia Eudoxia.Prio OpState Extracted

/-- a pool is *open* for the scheduler when its snapshot still shows free CPU and free RAM -/
def Snap.isOpen (s : Snap) : Prop := 0 < s.availC ∧ 0 < s.availR

theorem go_some (l : List Snap) : ∀ (i b : Nat) (m : Int), bestPool.go i l (some b) m ≠ none := by
  induction l with
  | nil => intro i b m; simp [bestPool.go]
  | cons s rest ih => intro i b m; unfold bestPool.go; split <;> exact ih _ _ _

theorem go_none (l : List Snap) : ∀ (i : Nat), bestPool.go i l none 0 = none ↔ ∀ s ∈ l, ¬ Snap.isOpen s := by
  induction l with
  | nil => intro i; simp [bestPool.go]
  | cons s rest ih =>
    intro i
    unfold bestPool.go
    split
    · rename_i h
      simp only [Bool.and_eq_true, decide_eq_true_eq] at h
      constructor
      · intro e; exact absurd e (go_some _ _ _ _)
      · intro hn; exact absurd (⟨h.1, h.2⟩ : Snap.isOpen s) (hn s (by simp))
    · rename_i h
      simp only [Bool.and_eq_true, decide_eq_true_eq, not_and] at h
      rw [ih]
      constructor
      · intro hn x hx
        rcases List.mem_cons.mp hx with rfl | hx
        · intro ho; exact h ho.1 ho.2
        · exact hn x hx
      · intro hn x hx; exact hn x (List.mem_cons_of_mem _ hx)

/-- **work conservation, at the level of the pool choice**: the scheduler finds no pool exactly when every pool has run out of free CPU or of free RAM -/
theorem bestPool_none_iff (sn : List Snap) : bestPool sn = none ↔ ∀ s ∈ sn, ¬ Snap.isOpen s := go_none sn 0

/-- the chosen pool exists, is open, and has the most free RAM among the pools with a free CPU -/
theorem go_spec (l : List Snap) : ∀ (i : Nat) (best : Option Nat) (m : Int) (pre : List Snap), pre.length = i → 0 ≤ m →
    (∀ b, best = some b → b < i ∧ (pre.getD b default).availC > 0 ∧ (pre.getD b default).availR = m ∧ 0 < m) →
    (∀ s ∈ pre, s.availC > 0 → s.availR ≤ m) →
    ∀ p, bestPool.go i l best m = some p →
      p < (pre ++ l).length ∧ Snap.isOpen ((pre ++ l).getD p default) ∧ ∀ s ∈ pre ++ l, s.availC > 0 → s.availR ≤ ((pre ++ l).getD p default).availR := by
  induction l with
  | nil =>
    intro i best m pre hl hm hb hmax p hp
    simp only [bestPool.go] at hp
    obtain ⟨h1, h2, h3, h4⟩ := hb p hp
    simp only [List.append_nil]
    exact ⟨by omega, ⟨h2, by omega⟩, fun s hs hc => by rw [h3]; exact hmax s hs hc⟩
  | cons s rest ih =>
    intro i best m pre hl hm hb hmax p hp
    unfold bestPool.go at hp
    have happ : pre ++ s :: rest = (pre ++ [s]) ++ rest := by simp
    rw [happ]
    split at hp
    · rename_i h
      simp only [Bool.and_eq_true, decide_eq_true_eq] at h
      refine ih (i + 1) (some i) s.availR (pre ++ [s]) (by simp [hl]) (by omega) ?_ ?_ p hp
      · intro b hb'
        cases hb'
        have : (pre ++ [s]).getD i default = s := by
          rw [List.getD_eq_getElem?_getD, List.getElem?_append_right (by omega)]; simp [hl]
        rw [this]
        exact ⟨by omega, h.1, rfl, by omega⟩
      · intro x hx hc
        rcases List.mem_append.mp hx with hx | hx
        · have := hmax x hx hc; omega
        · simp at hx; subst hx; omega
    · rename_i h
      simp only [Bool.and_eq_true, decide_eq_true_eq, not_and] at h
      refine ih (i + 1) best m (pre ++ [s]) (by simp [hl]) hm ?_ ?_ p hp
      · intro b hb'
        obtain ⟨h1, h2, h3, h4⟩ := hb b hb'
        have : (pre ++ [s]).getD b default = pre.getD b default := by
          rw [List.getD_eq_getElem?_getD, List.getD_eq_getElem?_getD, List.getElem?_append_left (by omega)]
        rw [this]
        exact ⟨by omega, h2, h3, h4⟩
      · intro x hx hc
        rcases List.mem_append.mp hx with hx | hx
        · exact hmax x hx hc
        · simp at hx; subst hx; have := h hc; omega

theorem bestPool_spec (sn : List Snap) (p : Nat) (h : bestPool sn = some p) :
    p < sn.length ∧ Snap.isOpen (sn.getD p default) ∧ ∀ s ∈ sn, s.availC > 0 → s.availR ≤ (sn.getD p default).availR := by
  have := go_spec sn 0 none 0 [] rfl (by omega) (by simp) (by simp) p h
  simpa using this

end Eudoxia.C12
