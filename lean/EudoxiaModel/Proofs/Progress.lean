import EudoxiaModel.Proofs.Live
/-! Execution never gets stuck: a container whose operators are in the states its position implies, and whose dependencies are
    satisfied inside the container or already completed, never raises in `Container.tick`. -/
namespace Eudoxia
open OpState Extracted

/-- the head operator of the unfinished suffix has been started and still has ticks to run -/
def headRunning (c : Ctr) : Bool := c.pos.started && !(c.pos.opDone == c.pos.opTotal)

/-- exact operator states of a live, running container: the head operator RUNNING if it has been started, everything else ASSIGNED -/
def ExactSt (s : Store) (c : Ctr) : Prop :=
  match c.unfinished with
  | [] => True
  | r :: rest => s.stOf r = (if headRunning c then running else assigned) ∧ ∀ o ∈ rest, s.stOf o = assigned

/-- every parent of an operator of the unfinished suffix is COMPLETED or comes earlier in that suffix -/
def ParentsOK (s : Store) (U : List Nat) : Prop :=
  ∀ (pre : List Nat) (o : Nat) (post : List Nat), U = pre ++ o :: post → ∀ q ∈ s.parentsOf o, s.stOf q = completed ∨ q ∈ pre

structure CtrReady (cfg : Cfg) (s : Store) (c : Ctr) : Prop where
  inv : CtrInv cfg c
  st : ExactSt s c
  par : ParentsOK s c.unfinished
  inb : ∀ o ∈ c.unfinished, o < s.st.size
  more : c.completed = false → rem cfg c ≠ []

theorem transition_succeeds (s : Store) (r : Nat) (t : OpState) (hb : r < s.st.size) (hv : t ∈ validNext (s.stOf r))
    (hp : t = running → ∀ p ∈ s.parentsOf r, s.stOf p = completed) : s.transition r t = .ok (s.setSt r t) := by
  have hcheck : s.check r t = .ok () := by
    unfold Store.check
    have h1 : (decide (r < s.st.size)) = true := by simpa using hb
    have h2 : (validNext (s.stOf r)).contains t = true := by simpa using hv
    simp only [h1, Bool.not_true, Bool.false_eq_true, ↓reduceIte, h2]
    by_cases ht : t = running
    · have hall : (s.parentsOf r).all (fun p => s.stOf p == completed) = true := by
        simp only [List.all_eq_true, beq_iff_eq]; exact hp ht
      simp [hall]
    · have : (t == running) = false := by simpa using ht
      simp [this]
  unfold Store.transition
  rw [hcheck]

theorem parentsOK_frame {s s' : Store} {U : List Nat} (h : ParentsOK s U) (hp : s'.ops = s.ops)
    (hc : ∀ q, s.stOf q = completed → s'.stOf q = completed) : ParentsOK s' U := by
  intro pre o post e q hq
  have hq' : q ∈ s.parentsOf o := by unfold Store.parentsOf at hq ⊢; rw [← hp]; exact hq
  rcases h pre o post e q hq' with h1 | h1
  · exact Or.inl (hc q h1)
  · exact Or.inr h1

theorem parentsOK_tail {s s' : Store} {r : Nat} {rest : List Nat} (h : ParentsOK s (r :: rest)) (hp : s'.ops = s.ops)
    (hc : ∀ q, s.stOf q = completed → s'.stOf q = completed) (hr : s'.stOf r = completed) : ParentsOK s' rest := by
  intro pre o post e q hq
  have hq' : q ∈ s.parentsOf o := by unfold Store.parentsOf at hq ⊢; rw [← hp]; exact hq
  rcases h (r :: pre) o post (by rw [e]; rfl) q hq' with h1 | h1
  · exact Or.inl (hc q h1)
  · rcases List.mem_cons.mp h1 with rfl | h2
    · exact Or.inl hr
    · exact Or.inr h2


theorem unfinished_pos (c : Ctr) (p : Pos) : ({ c with pos := p } : Ctr).unfinished = c.unfinished := rfl

theorem exactSt_of {s : Store} {c : Ctr} {r : Nat} {rest : List Nat} (hu : c.unfinished = r :: rest)
    (h1 : s.stOf r = (if headRunning c then running else assigned)) (h2 : ∀ o ∈ rest, s.stOf o = assigned) : ExactSt s c := by
  unfold ExactSt; rw [hu]; exact ⟨h1, h2⟩

theorem exactSt_cons {s : Store} {c : Ctr} {r : Nat} {rest : List Nat} (h : ExactSt s c) (hu : c.unfinished = r :: rest) :
    s.stOf r = (if headRunning c then running else assigned) ∧ ∀ o ∈ rest, s.stOf o = assigned := by
  unfold ExactSt at h; rw [hu] at h; exact h

/-- **`seek` never raises on a consistent container** and keeps it consistent -/
theorem seek_succeeds (cfg : Cfg) (w : Store) (c : Ctr) (wf : CtrWF cfg c) (hnd : c.ops.Nodup) (hst : ExactSt w c)
    (hpar : ParentsOK w c.unfinished) (hinb : ∀ o ∈ c.unfinished, o < w.st.size) (hmore : rem cfg c ≠ []) :
    ∃ w' c', seek w cfg c = .ok (w', c') ∧ ExactSt w' c' ∧ ParentsOK w' c'.unfinished ∧ (∀ o ∈ c'.unfinished, o < w'.st.size) := by
  fun_induction seek w cfg c
  case case1 w0 c0 hops =>
    exfalso; apply hmore
    simp [rem, remHead, hops, remOps]
  case case2 w0 c0 r allsegs rest hops hs e hw =>
    exfalso
    have hns : c0.pos.started = false := by simpa using hs
    have hu : c0.unfinished = r :: rest.map (·.1) := by
      rw [unfinished_eq, wf.idx]; simp [posUnf, hns, hops]
    obtain ⟨s1, _⟩ := exactSt_cons hst hu
    have hhr : headRunning c0 = false := by simp [headRunning, hns]
    rw [hhr] at s1
    have := transition_succeeds w0 r running (hinb r (by rw [hu]; simp)) (by rw [s1]; simp [validNext])
      (fun _ p hp => by
        rcases hpar [] r (rest.map (·.1)) (by rw [hu]; rfl) p hp with h | h
        · exact h
        · simp at h)
    rw [this] at hw; cases hw
  case case3 w0 c0 r allsegs rest hops hs w1 hw ih =>
    have hns : c0.pos.started = false := by simpa using hs
    have hu : c0.unfinished = r :: rest.map (·.1) := by
      rw [unfinished_eq, wf.idx]; simp [posUnf, hns, hops]
    obtain ⟨s1, s2⟩ := exactSt_cons hst hu
    have hpos : 1 ≤ tickSum (opTickTable cfg c0.cpu allsegs) := opTickTable_pos cfg c0.cpu allsegs (wf.segs (r, allsegs) (by rw [hops]; simp))
    have hrn : r ∉ rest.map (·.1) := by
      have hsub : (c0.ops.drop c0.curOpIdx).Nodup := (List.drop_sublist _ _).nodup hnd
      rw [← unfinished_eq, hu] at hsub
      exact (List.nodup_cons.mp hsub).1
    have hb := hinb r (by rw [hu]; simp)
    apply ih
    · -- CtrWF of the started container
      refine ⟨?_, by simpa using wf.segs, ?_⟩
      · intro _; simp only [Nat.zero_add]; exact opRem_length cfg c0.cpu allsegs
      · show c0.ops.drop c0.curOpIdx = _
        rw [wf.idx]
        have : ((0 : Nat) == tickSum (opTickTable cfg c0.cpu allsegs)) = false := by simp only [beq_eq_false_iff_ne, ne_eq]; omega
        simp only [posUnf, hns, Bool.false_and, Bool.false_eq_true, ↓reduceIte, Bool.true_and, this]
    · exact hnd
    · -- exact states after the start
      apply exactSt_of (r := r) (rest := rest.map (·.1))
      · rw [unfinished_pos]; exact hu
      · have : ((0 : Nat) == tickSum (opTickTable cfg c0.cpu allsegs)) = false := by simp only [beq_eq_false_iff_ne, ne_eq]; omega
        simp only [headRunning, Bool.true_and, this, Bool.not_false, ↓reduceIte]
        exact transition_self hw hb
      · intro o ho
        rw [transition_other hw (fun e => hrn (e ▸ ho))]
        exact s2 o ho
    · rw [unfinished_pos]
      exact parentsOK_frame hpar (transition_ops hw) (fun q hq => completed_final_step hw hq)
    · rw [unfinished_pos]
      intro o ho; rw [transition_size hw]; exact hinb o ho
    · -- what is still to come is unchanged
      intro e
      apply hmore
      refine Eq.trans ?_ e
      simp only [rem, remHead, hops, hns, List.tail_cons, Bool.false_eq_true, ↓reduceIte]
      rfl
  case case4 w0 c0 r allsegs rest hops hs hsg ih =>
    have hst0 : c0.pos.started = true := by simpa using hs
    have hfin := wf.pos hst0
    rw [hsg] at hfin
    simp only [remSegs, List.length_nil, Nat.add_zero] at hfin
    apply ih
    · refine ⟨fun hx => by simp at hx, fun o ho => wf.segs o (by rw [hops]; exact List.mem_cons_of_mem _ ho), ?_⟩
      show c0.ops.drop c0.curOpIdx = _
      rw [wf.idx]
      simp only [posUnf, Bool.false_and, Bool.false_eq_true, ↓reduceIte, hst0, hfin, beq_self_eq_true, Bool.and_self, hops, List.tail_cons]
    · exact hnd
    · -- the head of the suffix is the next operator, not started, in both positions
      unfold ExactSt at hst ⊢
      rw [unfinished_pos]
      have h1 : headRunning c0 = false := by simp [headRunning, hst0, hfin]
      have h2 : headRunning { c0 with pos := { ops := rest, started := false, segs := [], i := 0, opDone := 0, opTotal := 0 } } = false := by simp [headRunning]
      rw [h2]; rw [h1] at hst; exact hst
    · rw [unfinished_pos]; exact hpar
    · rw [unfinished_pos]; exact hinb
    · intro e
      apply hmore
      refine Eq.trans ?_ e
      simp only [rem, remHead, hops, hst0, hsg, ↓reduceIte, List.tail_cons, remSegs, List.nil_append]
      cases rest with
      | nil => simp [remOps]
      | cons o os => simp [remOps, opRem]
  case case5 w0 c0 r allsegs rest hops hs sg io cpuT more hsg hlt =>
    exact ⟨w0, c0, rfl, hst, hpar, hinb⟩
  case case6 w0 c0 r allsegs rest hops hs sg io cpuT more hsg hlt ih =>
    have hst0 : c0.pos.started = true := by simpa using hs
    have hdone : remSeg cfg (sg, io, cpuT) c0.pos.i = [] := remSeg_done cfg _ _ (by simpa using hlt)
    have hp' := wf.pos hst0
    rw [hsg] at hp'
    simp only [remSegs, hdone, List.nil_append] at hp'
    apply ih
    · refine ⟨fun _ => by simp only; rw [remSegs_zero]; exact hp', by simpa using wf.segs, ?_⟩
      show c0.ops.drop c0.curOpIdx = _
      rw [wf.idx]; simp only [posUnf]
    · exact hnd
    · unfold ExactSt at hst ⊢
      rw [unfinished_pos]
      have : headRunning { c0 with pos := { c0.pos with segs := more, i := 0 } } = headRunning c0 := rfl
      rw [this]; exact hst
    · rw [unfinished_pos]; exact hpar
    · rw [unfinished_pos]; exact hinb
    · intro e
      apply hmore
      refine Eq.trans ?_ e
      simp only [rem, remHead, hops, hst0, hsg, ↓reduceIte, List.tail_cons]
      rw [remSegs.eq_2, hdone, List.nil_append, remSegs_zero]


/-- **a generator step never raises on a consistent container**, and leaves it consistent (or finished) -/
theorem advance_succeeds (cfg : Cfg) (w : Store) (c : Ctr) (cons : Int) (rd : CtrReady cfg w c) (hf : c.frozen = false) (hc : c.completed = false) :
    ∃ w' c' cons', advance cfg w c cons = .ok (w', c', cons') ∧ (c'.completed = false → CtrReady cfg w' c') := by
  obtain ⟨w1, c1, hs, st1, par1, inb1⟩ := seek_succeeds cfg w c rd.inv.wf rd.inv.nd rd.st rd.par rd.inb (rd.more hc)
  obtain ⟨_, hsame, r, allsegs, rest, sg, io, cpuT, more, e1, e2, e3, e4⟩ := seek_spec _ _ _ _ _ hs
  obtain ⟨hrem1, hp1⟩ := seek_rem cfg _ _ _ _ hs rd.inv.wf.pos
  obtain ⟨hunf, _⟩ := seek_live cfg _ _ _ _ hs rd.inv.wf.pos rd.inv.wf.segs
  have hops : c1.ops = c.ops := by unfold Ctr.SameButPos at hsame; rw [hsame]
  have hidx : c1.curOpIdx = c.curOpIdx := by unfold Ctr.SameButPos at hsame; rw [hsame]
  have hcomp : c1.completed = false := by unfold Ctr.SameButPos at hsame; rw [hsame]; exact hc
  have hpos1 := hp1 e2
  rw [e3] at hpos1
  simp only [remSegs] at hpos1
  rw [remSeg_step cfg (sg, io, cpuT) _ e4] at hpos1
  simp only [List.length_cons, List.length_append] at hpos1
  have hnf : (c1.pos.opDone == c1.pos.opTotal) = false := by simp only [beq_eq_false_iff_ne, ne_eq]; omega
  have hU1 : c1.unfinished = r :: rest.map (·.1) := by
    have : c1.unfinished = c.unfinished := by simp only [unfinished_eq, hops, hidx]
    rw [this, unfinished_eq, rd.inv.wf.idx, ← hunf]
    simp only [posUnf, e2, hnf, Bool.and_false, Bool.false_eq_true, ↓reduceIte, e1, List.map_cons]
  have hhr1 : headRunning c1 = true := by simp [headRunning, e2, hnf]
  obtain ⟨sr, srest⟩ := exactSt_cons st1 hU1
  rw [hhr1] at sr
  simp only [↓reduceIte] at sr
  have hb := inb1 r (by rw [hU1]; simp)
  -- the step itself
  have hadv : advance cfg w c cons = runTick cfg w1 c1 cons := by
    unfold advance; rw [hf, hs]; rfl
  rw [hadv]
  unfold runTick
  rw [e1, e3]
  simp only
  unfold runAt
  split
  · -- over the allocation: the container stops where it is
    refine ⟨_, _, _, rfl, fun _ => ?_⟩
    have hwf1 : CtrWF cfg c1 := ⟨hp1, fun o ho => rd.inv.wf.segs o ((seek_ops_suffix cfg _ _ _ _ hs).subset ho), by
      rw [hops, hidx, rd.inv.wf.idx, ← hunf]⟩
    refine ⟨⟨⟨fun hx => hwf1.pos hx, hwf1.segs, hwf1.idx⟩, by rw [hops]; exact rd.inv.nd⟩, ?_, par1, inb1, fun _ => ?_⟩
    · unfold ExactSt at st1 ⊢; exact st1
    · show rem cfg c1 ≠ []
      rw [hrem1]; exact rd.more hc
  · split
    · rename_i hlast
      have hlast' : c1.pos.opDone + 1 = c1.pos.opTotal := by simpa using hlast
      have htr := transition_succeeds w1 r completed hb (by rw [sr]; simp [validNext]) (fun e => by cases e)
      rw [htr]
      simp only
      have hrn : r ∉ rest.map (·.1) := by
        have hsub : (c1.ops.drop c1.curOpIdx).Nodup := by rw [hops]; exact (List.drop_sublist _ _).nodup rd.inv.nd
        rw [← unfinished_eq, hU1] at hsub
        exact (List.nodup_cons.mp hsub).1
      have hdrop : c1.ops.drop (c1.curOpIdx + 1) = rest.map (·.1) := by
        rw [← List.drop_drop, ← unfinished_eq, hU1]; rfl
      have hnil : remSeg cfg (sg, io, cpuT) (c1.pos.i + 1) ++ more.flatMap (fun s => remSeg cfg s 0) = [] := by
        apply List.eq_nil_of_length_eq_zero; simp only [List.length_append]; omega
      -- readiness of the container after completing its head operator (any such container with more to do)
      have key : ∀ (c2 : Ctr), c2.ops = c1.ops → c2.curOpIdx = c1.curOpIdx + 1 → c2.cpu = c1.cpu →
          c2.pos = { c1.pos with i := c1.pos.i + 1, opDone := c1.pos.opDone + 1 } → rest ≠ [] → CtrReady cfg (w1.setSt r completed) c2 := by
        intro c2 h1 h2 h3 h5 hrest
        have hu2 : c2.unfinished = rest.map (·.1) := by rw [unfinished_eq, h1, h2, hdrop]
        refine ⟨⟨⟨?_, ?_, ?_⟩, by rw [h1, hops]; exact rd.inv.nd⟩, ?_, ?_, ?_, ?_⟩
        · intro _
          simp only [h5, e3, remSegs, List.length_append]
          omega
        · rw [h5]; simp only; intro o ho; exact rd.inv.wf.segs o ((seek_ops_suffix cfg _ _ _ _ hs).subset ho)
        · rw [← unfinished_eq, hu2]
          simp only [posUnf, h5, e2, hlast', beq_self_eq_true, Bool.and_self, ↓reduceIte, e1, List.tail_cons]
        · -- states: everything left is ASSIGNED, nothing is running
          cases hr : rest.map (·.1) with
          | nil => unfold ExactSt; rw [hu2, hr]; trivial
          | cons o os =>
            apply exactSt_of (r := o) (rest := os) (by rw [hu2, hr])
            · have : headRunning c2 = false := by simp [headRunning, h5, e2, hlast']
              rw [this]
              simp only [Bool.false_eq_true, ↓reduceIte]
              rw [transition_other htr (fun e => hrn (by rw [hr, e]; simp))]
              exact srest o (by rw [hr]; simp)
            · intro x hx
              rw [transition_other htr (fun e => hrn (by rw [hr, e]; exact List.mem_cons_of_mem _ hx))]
              exact srest x (by rw [hr]; exact List.mem_cons_of_mem _ hx)
        · rw [hu2]
          exact parentsOK_tail (by rw [← hU1]; exact par1) (transition_ops htr) (fun q hq => completed_final_step htr hq) (transition_self htr hb)
        · rw [hu2]; intro o ho; rw [transition_size htr]; exact inb1 o (by rw [hU1]; exact List.mem_cons_of_mem _ ho)
        · intro _
          -- the operators that follow have ticks to run
          have hq : rem cfg c2 = remOps cfg c1.cpu rest := by
            simp only [rem, remHead, h5, h3, e1, e2, e3, ↓reduceIte, List.tail_cons, remSegs]
            rw [hnil]; rfl
          rw [hq]
          cases rest with
          | nil => exact absurd rfl hrest
          | cons o os =>
            intro e
            have hlen := congrArg List.length e
            simp only [remOps, List.flatMap_cons, List.length_append, opRem_length, List.length_nil] at hlen
            have := opTickTable_pos cfg c1.cpu o.2 (rd.inv.wf.segs o ((seek_ops_suffix cfg _ _ _ _ hs).subset (by rw [e1]; simp)))
            omega
      split
      · -- it was the last operator: the container is finished
        refine ⟨_, _, _, rfl, fun hx => ?_⟩
        simp at hx
      · rename_i hrest
        have hrest' : rest ≠ [] := by simpa using hrest
        exact ⟨_, _, _, rfl, fun _ => key _ rfl rfl rfl rfl hrest'⟩
    · rename_i hlast
      have hlast' : c1.pos.opDone + 1 ≠ c1.pos.opTotal := by simpa using hlast
      have hnf2 : (c1.pos.opDone + 1 == c1.pos.opTotal) = false := by simpa using hlast'
      have key2 : ∀ (c2 : Ctr), c2.ops = c1.ops → c2.curOpIdx = c1.curOpIdx → c2.cpu = c1.cpu →
          c2.pos = { c1.pos with i := c1.pos.i + 1, opDone := c1.pos.opDone + 1 } → CtrReady cfg w1 c2 := by
        intro c2 h1 h2 h3 h5
        have hu2 : c2.unfinished = r :: rest.map (·.1) := by rw [unfinished_eq, h1, h2, ← unfinished_eq, hU1]
        refine ⟨⟨⟨?_, ?_, ?_⟩, by rw [h1, hops]; exact rd.inv.nd⟩, ?_, ?_, ?_, ?_⟩
        · intro _
          simp only [h5, e3, remSegs, List.length_append]
          omega
        · rw [h5]; simp only; intro o ho; exact rd.inv.wf.segs o ((seek_ops_suffix cfg _ _ _ _ hs).subset ho)
        · rw [← unfinished_eq, hu2]
          simp only [posUnf, h5, e2, hnf2, Bool.and_false, Bool.false_eq_true, ↓reduceIte, e1, List.map_cons]
        · apply exactSt_of (r := r) (rest := rest.map (·.1)) hu2
          · have : headRunning c2 = true := by simp [headRunning, h5, e2, hnf2]
            rw [this]; exact sr
          · exact srest
        · rw [hu2, ← hU1]; exact par1
        · rw [hu2, ← hU1]; exact inb1
        · intro _
          have hq : rem cfg c2 = (remSeg cfg (sg, io, cpuT) (c1.pos.i + 1) ++ more.flatMap (fun s => remSeg cfg s 0)) ++ remOps cfg c1.cpu rest := by
            simp only [rem, remHead, h5, h3, e1, e2, e3, ↓reduceIte, List.tail_cons, remSegs]
          rw [hq]
          intro e
          have hlen := congrArg List.length e
          simp only [List.length_append, List.length_nil] at hlen
          omega
      exact ⟨_, _, _, rfl, fun _ => key2 _ rfl rfl rfl rfl⟩


/-- **`Container.tick` never raises on a consistent container** -/
theorem tick_succeeds (cfg : Cfg) (w : Store) (c : Ctr) (cons : Int) (rd : CtrReady cfg w c) (hfc : c.completed = false → c.frozen = false) :
    ∃ w' c' cons', c.tick cfg w cons = .ok (w', c', cons') ∧ (c'.completed = false → CtrReady cfg w' c') := by
  unfold Ctr.tick
  by_cases hc : c.completed = true
  · simp only [hc, ↓reduceIte]
    exact ⟨w, c, cons, rfl, fun h => by rw [hc] at h; cases h⟩
  · have hc' : c.completed = false := by simpa using hc
    obtain ⟨w1, c1, cons1, h1, r1⟩ := advance_succeeds cfg w c cons rd (hfc hc') hc'
    simp only [hc', Bool.false_eq_true, ↓reduceIte, h1]
    refine ⟨_, _, _, rfl, fun hx => ?_⟩
    have r := r1 hx
    exact ⟨⟨⟨fun h => r.inv.wf.pos h, r.inv.wf.segs, r.inv.wf.idx⟩, r.inv.nd⟩, r.st, r.par, r.inb, fun h => r.more h⟩

theorem transAll_succeeds (t : OpState) : ∀ (l : List Nat) (s : Store), l.Nodup → (∀ r ∈ l, r < s.st.size ∧ t ∈ validNext (s.stOf r)) → t ≠ running →
    ∃ s', s.transAll t l = .ok s' := by
  intro l
  induction l with
  | nil => intro s _ _ _; exact ⟨s, rfl⟩
  | cons r rs ih =>
    intro s hnd h ht
    simp only [List.nodup_cons] at hnd
    obtain ⟨hb, hv⟩ := h r (by simp)
    have htr := transition_succeeds s r t hb hv (fun e => absurd e ht)
    unfold Store.transAll
    rw [htr]
    apply ih _ hnd.2 _ ht
    intro x hx
    have hne : r ≠ x := fun e => hnd.1 (e ▸ hx)
    obtain ⟨hbx, hvx⟩ := h x (List.mem_cons_of_mem _ hx)
    exact ⟨by rw [transition_size htr]; exact hbx, by rw [transition_other htr hne]; exact hvx⟩

theorem unfinished_nodup {c : Ctr} (h : c.ops.Nodup) : c.unfinished.Nodup := (List.drop_sublist _ _).nodup h

theorem exactSt_states {s : Store} {c : Ctr} (h : ExactSt s c) : ∀ o ∈ c.unfinished, s.stOf o = assigned ∨ s.stOf o = running := by
  intro o ho
  unfold ExactSt at h
  cases hu : c.unfinished with
  | nil => rw [hu] at ho; simp at ho
  | cons r rest =>
    rw [hu] at h ho
    rcases List.mem_cons.mp ho with rfl | ho
    · rw [h.1]; split <;> simp
    · exact Or.inl (h.2 o ho)

/-- **`Container.kill` never raises on a consistent container** (ASSIGNED → FAILED and RUNNING → FAILED are arrows of the table) -/
theorem kill_succeeds (cfg : Cfg) (w : Store) (c : Ctr) (cons : Int) (rd : CtrReady cfg w c) : ∃ w' c' cons', c.kill w cons = .ok (w', c', cons') := by
  obtain ⟨w1, h1⟩ := transAll_succeeds failed c.unfinished w (unfinished_nodup rd.inv.nd)
    (fun r hr => ⟨rd.inb r hr, by rcases exactSt_states rd.st r hr with e | e <;> (rw [e]; simp [validNext])⟩) (by simp)
  unfold Ctr.kill
  rw [h1]
  exact ⟨_, _, _, rfl⟩

/-- **`suspend_container` never raises on a container that may be suspended**: at an operator boundary every unfinished operator is ASSIGNED -/
theorem suspend_succeeds (cfg : Cfg) (w : Store) (c : Ctr) (rd : CtrReady cfg w c) (hb : headRunning c = false) : ∃ w' c', c.suspend cfg w = .ok (w', c') := by
  have hall : ∀ o ∈ c.unfinished, w.stOf o = assigned := by
    intro o ho
    have h := rd.st
    unfold ExactSt at h
    cases hu : c.unfinished with
    | nil => rw [hu] at ho; simp at ho
    | cons r rest =>
      rw [hu] at h ho
      rcases List.mem_cons.mp ho with rfl | ho
      · rw [h.1, hb]; simp
      · exact h.2 o ho
  obtain ⟨w1, h1⟩ := transAll_succeeds suspending c.unfinished w (unfinished_nodup rd.inv.nd)
    (fun r hr => ⟨rd.inb r hr, by rw [hall r hr]; simp [validNext]⟩) (by simp)
  unfold Ctr.suspend
  rw [h1]
  exact ⟨_, _, rfl⟩

/-- **the write-out tick never raises** when the unfinished operators are SUSPENDING -/
theorem suspendTick_succeeds (w : Store) (c : Ctr) (hnd : c.ops.Nodup) (hst : ∀ o ∈ c.unfinished, o < w.st.size ∧ w.stOf o = suspending) :
    ∃ w' c', c.suspendTick w = .ok (w', c') := by
  unfold Ctr.suspendTick
  split
  · obtain ⟨w1, h1⟩ := transAll_succeeds pending c.unfinished w (unfinished_nodup hnd)
      (fun r hr => ⟨(hst r hr).1, by rw [(hst r hr).2]; simp [validNext]⟩) (by simp)
    rw [h1]
    exact ⟨_, _, rfl⟩
  · exact ⟨_, _, rfl⟩


/-! ### lists of containers -/

/-- readiness only depends on the container's own operators (and on completed operators staying completed) -/
theorem ctrReady_frame {cfg : Cfg} {w w' : Store} {d : Ctr} (h : CtrReady cfg w d) (hs : Steps w w')
    (hf : ∀ o ∈ d.unfinished, w'.stOf o = w.stOf o) : CtrReady cfg w' d := by
  refine ⟨h.inv, ?_, parentsOK_frame h.par hs.ops (fun q hq => completed_final hs q hq), fun o ho => by rw [hs.size]; exact h.inb o ho, h.more⟩
  have hst := h.st
  unfold ExactSt at hst ⊢
  cases hu : d.unfinished with
  | nil => trivial
  | cons r rest =>
    rw [hu] at hst
    simp only
    refine ⟨by rw [hf r (by rw [hu]; simp)]; exact hst.1, fun o ho => by rw [hf o (by rw [hu]; exact List.mem_cons_of_mem _ ho)]; exact hst.2 o ho⟩

theorem mem_ownOf_of {c : Ctr} {o : Nat} (hn : c.completed = false) (ho : o ∈ c.unfinished) : o ∈ ownOf c := by
  simp only [ownOf, hn, Bool.false_eq_true, ↓reduceIte]; exact ho

/-- **ticking all running containers of a pool never raises** when each is consistent and no operator is owned twice -/
theorem tickAll_succeeds (cfg : Cfg) : ∀ (l : List Ctr) (w : Store) (cons : Int),
    (∀ c ∈ l, (c.completed = false → CtrReady cfg w c) ∧ CtrInv cfg c ∧ (c.completed = false → c.frozen = false)) → (own l).Nodup →
    ∃ w' l' cons', tickAll cfg w l cons = .ok (w', l', cons') ∧ (∀ c' ∈ l', c'.completed = false → CtrReady cfg w' c') := by
  intro l
  induction l with
  | nil => intro w cons _ _; exact ⟨w, [], cons, rfl, by simp⟩
  | cons c cs ih =>
    intro w cons hall hnd
    obtain ⟨hrd, hinv, hfc⟩ := hall c (by simp)
    rw [own_cons] at hnd
    have hdisj : ∀ o, o ∈ ownOf c → o ∉ own cs := fun o ho hx => (List.nodup_append.mp hnd).2.2 o ho o hx rfl
    -- the head container
    have htick : ∃ w1 c1 cons1, c.tick cfg w cons = .ok (w1, c1, cons1) ∧ (c1.completed = false → CtrReady cfg w1 c1) := by
      by_cases hc : c.completed = true
      · refine ⟨w, c, cons, by unfold Ctr.tick; simp [hc], fun h => by rw [hc] at h; cases h⟩
      · have hc' : c.completed = false := by simpa using hc
        exact tick_succeeds cfg w c cons (hrd hc') hfc
    obtain ⟨w1, c1, cons1, ht, r1⟩ := htick
    obtain ⟨t1, t2, t3, t4, t5, t6⟩ := tick_live cfg w c cons w1 c1 cons1 hinv.wf hinv.nd hfc ht
    have hcomp : c.completed = true → c1 = c ∧ w1 = w := by
      intro hcc
      unfold Ctr.tick at ht
      simp only [hcc, ↓reduceIte, Except.ok.injEq, Prod.mk.injEq] at ht
      exact ⟨ht.2.1.symm, ht.1.symm⟩
    have hfoot : ∀ o, o ∉ ownOf c → w1.stOf o = w.stOf o := by
      intro o ho
      by_cases hcc : c.completed = true
      · rw [(hcomp hcc).2]
      · have hn : c.completed = false := by simpa using hcc
        apply t5.frame
        intro t hx
        exact ho (mem_ownOf_of hn hx.1)
    -- the others are still consistent
    have hall1 : ∀ d ∈ cs, (d.completed = false → CtrReady cfg w1 d) ∧ CtrInv cfg d ∧ (d.completed = false → d.frozen = false) := by
      intro d hd
      obtain ⟨a1, a2, a3⟩ := hall d (List.mem_cons_of_mem _ hd)
      refine ⟨fun hn => ctrReady_frame (a1 hn) t5.steps (fun o ho => hfoot o (fun hx => hdisj o hx (mem_own hd hn ho))), a2, a3⟩
    obtain ⟨w2, cs2, cons2, hrest, r2⟩ := ih w1 cons1 hall1 (List.nodup_append.mp hnd).2.1
    have hbusy1 : BusyAll w1 cs := by
      intro d hd hn o ho
      rcases exactSt_states ((hall1 d hd).1 hn).st o ho with e | e <;> (rw [e]; simp [Busy])
    obtain ⟨_, _, fr2, _⟩ := tickAll_live cfg cs w1 cons1 w2 cs2 cons2 hrest (fun d hd => ⟨(hall1 d hd).2.1, (hall1 d hd).2.2⟩) (List.nodup_append.mp hnd).2.1 hbusy1
    refine ⟨w2, c1 :: cs2, cons2, by unfold tickAll; rw [ht]; simp only; rw [hrest], ?_⟩
    intro d hd hn
    rcases List.mem_cons.mp hd with rfl | hd
    · -- the head container's own operators were not touched by the others
      have hsteps : Steps w1 w2 := by
        have := tickAll_steps cfg cs w1 cons1 w2 cs2 cons2 hrest
        exact this
      refine ctrReady_frame (r1 hn) hsteps (fun o ho => fr2 o (fun hx => ?_))
      have hcn : c.completed = false := by
        cases hcc : c.completed with
        | false => rfl
        | true => rw [(hcomp hcc).1] at hn; rw [hcc] at hn; cases hn
      have hoc : o ∈ c.unfinished := by
        rcases t4 with e | ⟨r, e, _⟩
        · rw [← e]; exact ho
        · rw [e]; exact List.mem_cons_of_mem _ ho
      exact hdisj o (mem_ownOf_of hcn hoc) hx
    · exact r2 d hd hn


def ReadyAll (cfg : Cfg) (w : Store) (l : List Ctr) : Prop := ∀ c ∈ l, c.completed = false → CtrReady cfg w c

theorem readyAll_busy {cfg : Cfg} {w : Store} {l : List Ctr} (h : ReadyAll cfg w l) : BusyAll w l := by
  intro d hd hn o ho
  rcases exactSt_states (h d hd hn).st o ho with e | e <;> (rw [e]; simp [Busy])

theorem readyAll_frame {cfg : Cfg} {w w' : Store} {l : List Ctr} (h : ReadyAll cfg w l) (hs : Steps w w')
    (hf : ∀ o ∈ own l, w'.stOf o = w.stOf o) : ReadyAll cfg w' l :=
  fun d hd hn => ctrReady_frame (h d hd hn) hs (fun o ho => hf o (mem_own hd hn ho))

theorem kill_steps' {w w' : Store} {c c' : Ctr} {cons cons' : Int} (h : c.kill w cons = .ok (w', c', cons')) : Steps w w' :=
  (kill_live w c cons w' c' cons' h).2.2.2.2.steps

/-- the killer's first step never raises -/
theorem killIndividual_succeeds (cfg : Cfg) : ∀ (l : List Ctr) (w : Store) (cons : Int),
    ReadyAll cfg w l → (∀ c ∈ l, CtrInv cfg c ∧ (c.completed = true → c.mem ≤ c.ram)) → (own l).Nodup →
    ∃ w' l' cons', killIndividual w l cons = .ok (w', l', cons') ∧ ReadyAll cfg w' l' := by
  intro l
  induction l with
  | nil => intro w cons _ _ _; exact ⟨w, [], cons, rfl, by intro c hc; simp at hc⟩
  | cons c cs ih =>
    intro w cons hrd hinv hnd
    obtain ⟨ci, hcm⟩ := hinv c (by simp)
    rw [own_cons] at hnd
    have hdisj : ∀ o, o ∈ ownOf c → o ∉ own cs := fun o ho hx => (List.nodup_append.mp hnd).2.2 o ho o hx rfl
    by_cases hgt : c.mem > c.ram
    · have hn : c.completed = false := by
        cases hcc : c.completed with
        | false => rfl
        | true => have := hcm hcc; omega
      obtain ⟨w1, c1, cons1, hk⟩ := kill_succeeds cfg w c cons (hrd c (by simp) hn)
      have hs := kill_stepOK hn hk
      have hrd1 : ReadyAll cfg w1 cs := readyAll_frame (fun d hd => hrd d (List.mem_cons_of_mem _ hd)) (kill_steps' hk)
        (fun o ho => hs.frame o (fun hx => hdisj o hx ho))
      obtain ⟨w2, cs2, cons2, hrest, r2⟩ := ih w1 cons1 hrd1 (fun d hd => hinv d (List.mem_cons_of_mem _ hd)) (List.nodup_append.mp hnd).2.1
      refine ⟨w2, c1 :: cs2, cons2, by unfold killIndividual; simp only [hgt, ↓reduceIte, hk, hrest], ?_⟩
      intro d hd hdn
      rcases List.mem_cons.mp hd with rfl | hd
      · have := (kill_live w c cons w1 d cons1 hk).2.2.1
        rw [this] at hdn; cases hdn
      · exact r2 d hd hdn
    · obtain ⟨w2, cs2, cons2, hrest, r2⟩ := ih w cons (fun d hd => hrd d (List.mem_cons_of_mem _ hd)) (fun d hd => hinv d (List.mem_cons_of_mem _ hd)) (List.nodup_append.mp hnd).2.1
      refine ⟨w2, c :: cs2, cons2, by unfold killIndividual; simp only [hgt, ↓reduceIte, hrest], ?_⟩
      intro d hd hdn
      rcases List.mem_cons.mp hd with rfl | hd
      · -- untouched by the kills further down the list
        obtain ⟨ls, _⟩ := killIndividual_live cfg cs w cons w2 cs2 cons2 hrest (fun x hx => hinv x (List.mem_cons_of_mem _ hx))
        obtain ⟨_, fr, _⟩ := listStep_live ls (List.nodup_append.mp hnd).2.1 (readyAll_busy (fun x hx => hrd x (List.mem_cons_of_mem _ hx)))
        exact ctrReady_frame (hrd d (by simp) hdn) (killIndividual_steps cs w cons w2 cs2 cons2 hrest)
          (fun o ho => fr o (fun hx => hdisj o (mem_ownOf_of hdn ho) hx))
      · exact r2 d hd hdn


/-- the killer's second step never raises -/
theorem killVictims_succeeds (cfg : Cfg) (capR : Nat) : ∀ (vs : List Ctr) (w : Store) (act : List Ctr) (cons : Int),
    (cids act).Nodup → (cids vs).Nodup → (∀ v ∈ vs, v ∈ act ∧ v.completed = false) →
    (own act).Nodup → ReadyAll cfg w act → (∀ c ∈ act, CtrInv cfg c) →
    ∃ w' act' cons', killVictims w capR act cons vs = .ok (w', act', cons') ∧ ReadyAll cfg w' act' := by
  intro vs
  induction vs with
  | nil => intro w act cons _ _ _ _ hrd _; exact ⟨w, act, cons, rfl, hrd⟩
  | cons v vs ih =>
    intro w act cons hcn hvnd hsub hnd hrd hinv
    by_cases hle : cons ≤ capR
    · exact ⟨w, act, cons, by unfold killVictims; simp [hle], hrd⟩
    · obtain ⟨hv, hvn⟩ := hsub v (by simp)
      obtain ⟨w1, v1, cons1, hk⟩ := kill_succeeds cfg w v cons (hrd v hv hvn)
      obtain ⟨e1, _⟩ := kill_eq hk
      simp only [cids_cons, List.nodup_cons] at hvnd
      have hs := kill_stepOK hvn hk
      have hcids1 : cids (act.map (fun x => if x.cid == v.cid then killedCtr x else x)) = cids act := by
        unfold cids; rw [List.map_map]; apply List.map_congr_left; intro x _
        simp only [Function.comp]; split <;> rfl
      have hsub1 : ∀ u ∈ vs, u ∈ act.map (fun x => if x.cid == v.cid then killedCtr x else x) ∧ u.completed = false := by
        intro u hu
        have hne : u.cid ≠ v.cid := by
          intro e; apply hvnd.1; rw [← e]; exact List.mem_map_of_mem hu
        refine ⟨List.mem_map.mpr ⟨u, (hsub u (by simp [hu])).1, by simp [hne]⟩, (hsub u (by simp [hu])).2⟩
      have hsl := own_map_kill (fun x => x.cid == v.cid) act
      have hrd1 : ReadyAll cfg w1 (act.map (fun x => if x.cid == v.cid then killedCtr x else x)) := by
        intro d hd hdn
        obtain ⟨x, hx, rfl⟩ := List.mem_map.mp hd
        by_cases hxv : (x.cid == v.cid) = true
        · simp only [hxv, ↓reduceIte, killedCtr] at hdn; cases hdn
        · have hxf : (x.cid == v.cid) = false := by simpa using hxv
          simp only [hxf, Bool.false_eq_true, ↓reduceIte] at hdn ⊢
          have hne : x.cid ≠ v.cid := by simpa using hxv
          exact ctrReady_frame (hrd x hx hdn) (kill_steps' hk)
            (fun o ho => hs.frame o (own_disjoint act x v hnd hcn hx hv hne o (mem_ownOf_of hdn ho)))
      have hinv1 : ∀ c ∈ act.map (fun x => if x.cid == v.cid then killedCtr x else x), CtrInv cfg c := by
        intro d hd
        obtain ⟨x, hx, rfl⟩ := List.mem_map.mp hd
        split
        · exact killedCtr_inv (hinv x hx)
        · exact hinv x hx
      obtain ⟨w2, act2, cons2, h2, r2⟩ := ih w1 _ cons1 (by rw [hcids1]; exact hcn) hvnd.2 hsub1 (hsl.nodup hnd) hrd1 hinv1
      refine ⟨w2, act2, cons2, ?_, r2⟩
      unfold killVictims
      simp only [hle, ↓reduceIte, hk]
      rw [e1, replaceCtr_eq_map act v hcn hv]
      exact h2

/-- **the OOM killer never raises** on consistent containers -/
theorem oomKiller_succeeds (cfg : Cfg) (w : Store) (p : Pool) (hcn : (cids p.active).Nodup)
    (hrd : ReadyAll cfg w p.active) (hinv : ∀ c ∈ p.active, CtrInv cfg c ∧ (c.completed = true → c.mem ≤ c.ram)) (hnd : (own p.active).Nodup) :
    ∃ w' p', oomKiller w p = .ok (w', p') ∧ ReadyAll cfg w' p'.active := by
  obtain ⟨w1, act1, cons1, hk, r1⟩ := killIndividual_succeeds cfg p.active w p.consumed hrd hinv hnd
  obtain ⟨ls, linv⟩ := killIndividual_live cfg _ _ _ _ _ _ hk hinv
  obtain ⟨s1, _, _⟩ := listStep_live ls hnd (readyAll_busy hrd)
  rw [filter_allAlive] at s1
  have hk1 := killIndividual_keys _ _ _ _ _ _ hk
  have hcn1 : (cids act1).Nodup := by rw [cids_keys hk1]; exact hcn
  unfold oomKiller
  simp only [hk]
  by_cases hle : cons1 ≤ p.capR
  · simp only [hle, ↓reduceIte]
    exact ⟨_, _, rfl, r1⟩
  · simp only [hle, ↓reduceIte]
    have hperm := SortP.sortDesc_perm scoreGe (oomCandidates act1)
    have hsub : ∀ v ∈ sortDesc (oomCandidates act1), v ∈ act1 ∧ v.completed = false := by
      intro v hv'
      have := List.mem_filter.mp (mem_sortDesc hv')
      have h2 := this.2
      simp only [Bool.and_eq_true, Bool.not_eq_true', decide_eq_true_eq] at h2
      exact ⟨this.1, h2.1⟩
    have hvnd : (cids (sortDesc (oomCandidates act1))).Nodup := by
      have hp : (cids (sortDesc (oomCandidates act1))).Perm (cids (oomCandidates act1)) := List.Perm.map _ hperm
      exact hp.nodup_iff.mpr ((cids_filter_sublist act1 _).nodup hcn1)
    obtain ⟨w2, act2, cons2, hv, r2⟩ := killVictims_succeeds cfg p.capR _ w1 act1 cons1 hcn1 hvnd hsub (s1.nodup hnd) r1 linv
    rw [hv]
    exact ⟨_, _, rfl, r2⟩


/-! ### pools -/

def SuspOK (w : Store) (l : List Ctr) : Prop := ∀ c ∈ l, ∀ o ∈ c.unfinished, o < w.st.size ∧ w.stOf o = suspending

theorem suspTickList_succeeds (cfg : Cfg) : ∀ (l : List Ctr) (w : Store), (∀ c ∈ l, CtrInv cfg c ∧ c.completed = false) → SuspOK w l → (own l).Nodup →
    ∃ w' l', suspTickList w l = .ok (w', l') := by
  intro l
  induction l with
  | nil => intro w _ _ _; exact ⟨w, [], rfl⟩
  | cons c cs ih =>
    intro w hinv hs hnd
    obtain ⟨ci, hn⟩ := hinv c (by simp)
    rw [own_cons] at hnd
    obtain ⟨w1, c1, hk⟩ := suspendTick_succeeds w c ci.nd (hs c (by simp))
    have hst := suspendTick_stepOK hn hk
    have hs1 : SuspOK w1 cs := by
      intro d hd o ho
      have hdn := (hinv d (List.mem_cons_of_mem _ hd)).2
      have hfr : w1.stOf o = w.stOf o := hst.frame o (fun hx => (List.nodup_append.mp hnd).2.2 o hx o (mem_own hd hdn ho) rfl)
      obtain ⟨b1, b2⟩ := hs d (List.mem_cons_of_mem _ hd) o ho
      have hsz : w1.st.size = w.st.size := (suspendTick_live w c w1 c1 hk).2.steps.size
      exact ⟨by rw [hsz]; exact b1, by rw [hfr]; exact b2⟩
    obtain ⟨w2, cs2, h2⟩ := ih w1 (fun d hd => hinv d (List.mem_cons_of_mem _ hd)) hs1 (List.nodup_append.mp hnd).2.1
    exact ⟨w2, c1 :: cs2, by unfold suspTickList; rw [hk]; simp only; rw [h2]⟩

structure PoolReady (cfg : Cfg) (w : Store) (p : Pool) : Prop where
  live : PoolLive cfg w p
  act : ReadyAll cfg w p.active
  sus : SuspOK w p.suspending

/-- the pool between the tick phase and the OOM killer -/
def midPool (p : Pool) (l3 act4 : List Ctr) (cons4 : Int) : Pool :=
  { p with availC := p.availC + cpuSum (l3.filter (fun c => c.suspLeft == 0)), availR := p.availR + ramSum (l3.filter (fun c => c.suspLeft == 0)),
           suspending := l3.filter (fun c => !(c.suspLeft == 0)), suspended := p.suspended ++ l3.filter (fun c => c.suspLeft == 0),
           active := act4, consumed := cons4 }

/-- **phases 3–6 of a pool tick never raise** on a consistent pool, and leave it consistent -/
theorem poolRun_succeeds {cfg : Cfg} {w : Store} {p : Pool} {n : Nat} (pinv : PoolInv p n) (m : MemOK p) (rd : PoolReady cfg w p) :
    ∃ w' p' res, poolRun cfg w p = .ok (w', p', res) ∧ PoolReady cfg w' p' := by
  have hl := rd.live
  have hnd0 := hl.nd
  simp only [ownP, own_append] at hnd0
  have hdisj : ∀ o, o ∈ own p.active → o ∉ own p.suspending := fun o ho hx => (List.nodup_append.mp hnd0).2.2 o ho o hx rfl
  -- phase 3
  obtain ⟨w3, l3, hl3⟩ := suspTickList_succeeds cfg p.suspending w
    (fun c hc => ⟨hl.inv c (List.mem_append_right _ hc), hl.nc c (List.mem_append_right _ hc)⟩) rd.sus (List.nodup_append.mp hnd0).2.1
  obtain ⟨ls, linv⟩ := suspTickList_live cfg _ _ _ _ hl3 (fun c hc => ⟨hl.inv c (List.mem_append_right _ hc), hl.nc c (List.mem_append_right _ hc)⟩)
  obtain ⟨s1, s2, s3⟩ := listStep_live ls (List.nodup_append.mp hnd0).2.1 (fun c hc => hl.busy c (List.mem_append_right _ hc))
  have hst3 : Steps w w3 := suspTickList_steps _ _ _ _ hl3
  have hrd3 : ReadyAll cfg w3 p.active := readyAll_frame rd.act hst3 (fun o ho => s2 o (hdisj o ho))
  -- phase 4
  obtain ⟨w4, act4, cons4, h4, r4⟩ := tickAll_succeeds cfg p.active w3 p.consumed
    (fun c hc => ⟨hrd3 c hc, hl.inv c (List.mem_append_left _ hc), fun _ => (m.ok c hc).2.1⟩) (List.nodup_append.mp hnd0).1
  obtain ⟨t1, t2, t3, t4⟩ := tickAll_live cfg _ _ _ _ _ _ h4
    (fun c hc => ⟨hl.inv c (List.mem_append_left _ hc), fun _ => (m.ok c hc).2.1⟩) (List.nodup_append.mp hnd0).1 (readyAll_busy hrd3)
  obtain ⟨_, tk⟩ := tickAll_mem _ _ _ _ _ _ _ m.ok h4
  have hk4 := tickAll_keys _ _ _ _ _ _ _ h4
  have hcn4 : (cids act4).Nodup := by rw [cids_keys hk4]; exact (List.nodup_append.mp pinv.nodup).1
  -- phase 5
  obtain ⟨w5, p5, h5, r5⟩ := oomKiller_succeeds cfg w4
    (midPool p l3 act4 cons4)
    hcn4 r4 (fun c hc => ⟨t1 c hc, fun hcc => by have := (tk c hc).1 hcc; omega⟩) (t2.nodup (List.nodup_append.mp hnd0).1)
  have hrun : poolRun cfg w p = .ok (w5, (collect p5).1, (collect p5).2) := by
    unfold poolRun suspTickAll
    simp only [hl3, h4]
    have : oomKiller w4 (midPool p l3 act4 cons4) = .ok (w5, p5) := h5
    unfold midPool at this
    rw [this]
  refine ⟨w5, (collect p5).1, (collect p5).2, hrun, ?_⟩
  obtain ⟨pl, _, _⟩ := poolRun_live pinv m hl hrun
  obtain ⟨k1, k2, k3, k4, k5⟩ := oomKiller_live cfg (p := midPool p l3 act4 cons4) (by exact hcn4)
    (fun c hc => ⟨t1 c hc, fun hcc => by have := (tk c hc).1 hcc; omega⟩) (t2.nodup (List.nodup_append.mp hnd0).1) t4 h5
  simp only [midPool] at k1 k2 k5
  obtain ⟨f1, f2, _⟩ := collect_fields p5
  refine ⟨pl, ?_, ?_⟩
  · intro c hc hn
    rw [f1] at hc
    exact r5 c (List.mem_filter.mp hc).1 hn
  · -- the containers still writing out: their operators are SUSPENDING and nobody else touched them
    intro c hc o ho
    rw [f2, k5] at hc
    have hcl := (List.mem_filter.mp hc).1
    have halive := (List.mem_filter.mp hc).2
    have hcn := (linv c hcl).2
    have hos : o ∈ own p.suspending := s1.subset (mem_own hc hcn ho)
    have hoa : o ∉ own p.active := fun hx => hdisj o hx hos
    have hsame : w5.stOf o = w3.stOf o := by rw [k2 o (fun hx => hoa (t2.subset hx)), t3 o hoa]
    have hsz : w5.st.size = w.st.size := by
      rw [(oomKiller_steps h5).size, (tickAll_steps _ _ _ _ _ _ _ h4).size, hst3.size]
    -- at w3 the operators of a surviving write-out are still SUSPENDING
    have hstill : o < w.st.size ∧ w3.stOf o = suspending := by
      -- find the container it came from
      have key : ∀ (l : List Ctr) (w0 w1 : Store) (l' : List Ctr), suspTickList w0 l = .ok (w1, l') → (own l).Nodup →
          (∀ d ∈ l, CtrInv cfg d ∧ d.completed = false) → SuspOK w0 l →
          ∀ d' ∈ l', (d'.suspLeft == 0) = false → ∀ x ∈ d'.unfinished, x < w0.st.size ∧ w1.stOf x = suspending := by
        intro l
        induction l with
        | nil => intro w0 w1 l' h _ _ _ d' hd'; simp only [suspTickList, Except.ok.injEq, Prod.mk.injEq] at h; obtain ⟨_, rfl⟩ := h; simp at hd'
        | cons y ys ih =>
          intro w0 w1 l' h hnd hinv hso d' hd' hal x hx
          unfold suspTickList at h
          split at h
          · cases h
          · rename_i wa ya hya
            split at h
            · cases h
            · rename_i wb ysb hrest
              simp only [Except.ok.injEq, Prod.mk.injEq] at h
              obtain ⟨rfl, rfl⟩ := h
              rw [own_cons] at hnd
              obtain ⟨ey, sty⟩ := suspendTick_live w0 y wa ya hya
              have hyn := (hinv y (by simp)).2
              have hsty := suspendTick_stepOK hyn hya
              have hso1 : SuspOK wa ys := by
                intro d hd o' ho'
                have hdn := (hinv d (List.mem_cons_of_mem _ hd)).2
                have hfr : wa.stOf o' = w0.stOf o' := hsty.frame o' (fun hx' => (List.nodup_append.mp hnd).2.2 o' hx' o' (mem_own hd hdn ho') rfl)
                obtain ⟨b1, b2⟩ := hso d (List.mem_cons_of_mem _ hd) o' ho'
                exact ⟨by rw [sty.steps.size]; exact b1, by rw [hfr]; exact b2⟩
              rcases List.mem_cons.mp hd' with rfl | hd''
              · -- the head container itself: its write-out has not ended, so nothing moved; the rest of the pass does not touch it
                have hux : x ∈ y.unfinished := by rw [ey] at hx; exact hx
                obtain ⟨b1, b2⟩ := hso y (by simp) x hux
                have hne : d'.suspLeft ≠ 0 := by simpa using hal
                have h1 : wa.stOf x = w0.stOf x := by
                  apply sty.frame
                  intro t hxt
                  exact hne hxt.2.2
                obtain ⟨ls', _⟩ := suspTickList_live cfg ys wa wb ysb hrest (fun d hd => hinv d (List.mem_cons_of_mem _ hd))
                obtain ⟨_, fr', _⟩ := listStep_live ls' (List.nodup_append.mp hnd).2.1
                  (by intro d hd hdn o' ho'; rw [(hso1 d hd o' ho').2]; exact Or.inr (Or.inr rfl))
                have h2 : wb.stOf x = wa.stOf x := fr' x (fun hx' => (List.nodup_append.mp hnd).2.2 x (mem_ownOf_of hyn hux) x hx' rfl)
                exact ⟨b1, by rw [h2, h1]; exact b2⟩
              · have := ih wa wb ysb hrest (List.nodup_append.mp hnd).2.1 (fun d hd => hinv d (List.mem_cons_of_mem _ hd)) hso1 d' hd'' hal x hx
                exact ⟨by rw [← sty.steps.size]; exact this.1, this.2⟩
      exact key p.suspending w w3 l3 hl3 (List.nodup_append.mp hnd0).2.1
        (fun d hd => ⟨hl.inv d (List.mem_append_right _ hd), hl.nc d (List.mem_append_right _ hd)⟩) rd.sus c hcl (by simpa using halive) o ho
    exact ⟨by rw [hsz]; exact hstill.1, by rw [hsame]; exact hstill.2⟩


/-! ### the suspendable flag -/

/-- after a generator step that neither finished nor froze the container, `can_suspend` is set exactly at an operator boundary,
where no operator of the container is running -/
theorem advance_canSuspend (cfg : Cfg) (w : Store) (c : Ctr) (cons : Int) (w' : Store) (c' : Ctr) (cons' : Int)
    (hf : c.frozen = false) (wf : CtrWF cfg c) (h : advance cfg w c cons = .ok (w', c', cons')) :
    c'.frozen = false → c'.canSuspend = true → headRunning c' = false := by
  unfold advance at h
  rw [hf] at h
  simp only [Bool.false_eq_true, ↓reduceIte] at h
  split at h
  · cases h
  · rename_i w1 c1 hs
    obtain ⟨_, hsame, r, allsegs, rest, sg, io, cpuT, more, e1, e2, e3, e4⟩ := seek_spec _ _ _ _ _ hs
    unfold runTick at h
    rw [e1, e3] at h
    simp only at h
    unfold runAt at h
    split at h
    · simp only [Except.ok.injEq, Prod.mk.injEq] at h
      obtain ⟨_, hc', _⟩ := h
      intro hfr; rw [← hc'] at hfr; cases hfr
    · split at h
      · rename_i hlast
        have hlast' : c1.pos.opDone + 1 = c1.pos.opTotal := by simpa using hlast
        split at h
        · cases h
        · split at h
          · simp only [Except.ok.injEq, Prod.mk.injEq] at h
            obtain ⟨_, hc', _⟩ := h
            intro _ hcs; rw [← hc'] at hcs; cases hcs
          · simp only [Except.ok.injEq, Prod.mk.injEq] at h
            obtain ⟨_, hc', _⟩ := h
            intro _ _
            rw [← hc']
            simp [headRunning, e2, hlast']
      · simp only [Except.ok.injEq, Prod.mk.injEq] at h
        obtain ⟨_, hc', _⟩ := h
        intro _ hcs; rw [← hc'] at hcs; cases hcs

theorem tick_canSuspend (cfg : Cfg) (w : Store) (c : Ctr) (cons : Int) (w' : Store) (c' : Ctr) (cons' : Int)
    (hc : c.completed = false) (hf : c.frozen = false) (wf : CtrWF cfg c) (h : c.tick cfg w cons = .ok (w', c', cons')) :
    c'.frozen = false → c'.canSuspend = true → headRunning c' = false := by
  unfold Ctr.tick at h
  simp only [hc, Bool.false_eq_true, ↓reduceIte] at h
  split at h
  · cases h
  · rename_i w1 c1 cons1 hadv
    simp only [Except.ok.injEq, Prod.mk.injEq] at h
    obtain ⟨_, hc', _⟩ := h
    have := advance_canSuspend cfg w c cons w1 c1 cons1 hf wf hadv
    rw [← hc']
    exact this


/-- at a tick boundary: a container flagged suspendable sits at an operator boundary -/
def FlagOK (l : List Ctr) : Prop := ∀ c ∈ l, c.completed = false → c.frozen = false → c.canSuspend = true → headRunning c = false

theorem tickAll_flag (cfg : Cfg) : ∀ (l : List Ctr) (w : Store) (cons : Int) (w' : Store) (l' : List Ctr) (cons' : Int),
    tickAll cfg w l cons = .ok (w', l', cons') → (∀ c ∈ l, CtrInv cfg c ∧ (c.completed = false → c.frozen = false)) → FlagOK l' := by
  intro l
  induction l with
  | nil =>
    intro w cons w' l' cons' h _
    simp only [tickAll, Except.ok.injEq, Prod.mk.injEq] at h
    obtain ⟨_, rfl, _⟩ := h
    intro c hc; simp at hc
  | cons c cs ih =>
    intro w cons w' l' cons' h hinv
    unfold tickAll at h
    split at h
    · cases h
    · rename_i w1 c1 cons1 ht
      split at h
      · cases h
      · rename_i w2 cs2 cons2 hrest
        simp only [Except.ok.injEq, Prod.mk.injEq] at h
        obtain ⟨_, rfl, _⟩ := h
        intro d hd hn hf hcs
        rcases List.mem_cons.mp hd with rfl | hd
        · obtain ⟨ci, hfc⟩ := hinv c (by simp)
          by_cases hcc : c.completed = true
          · unfold Ctr.tick at ht
            simp only [hcc, ↓reduceIte, Except.ok.injEq, Prod.mk.injEq] at ht
            rw [← ht.2.1, hcc] at hn; cases hn
          · have hcn : c.completed = false := by simpa using hcc
            exact tick_canSuspend cfg w c cons w1 d cons1 hcn (hfc hcn) ci.wf ht hf hcs
        · exact ih w1 cons1 w2 cs2 cons2 hrest (fun x hx => hinv x (List.mem_cons_of_mem _ hx)) d hd hn hf hcs

theorem killIndividual_survivors : ∀ (l : List Ctr) (w : Store) (cons : Int) (w' : Store) (l' : List Ctr) (cons' : Int),
    killIndividual w l cons = .ok (w', l', cons') → ∀ c' ∈ l', c'.completed = false → c' ∈ l := by
  intro l
  induction l with
  | nil =>
    intro w cons w' l' cons' h c' hc'
    simp only [killIndividual, Except.ok.injEq, Prod.mk.injEq] at h
    obtain ⟨_, rfl, _⟩ := h
    simp at hc'
  | cons c cs ih =>
    intro w cons w' l' cons' h c' hc' hn
    unfold killIndividual at h
    split at h
    · split at h
      · cases h
      · rename_i w1 c1 cons1 hk
        split at h
        · cases h
        · rename_i w2 cs2 cons2 hrest
          simp only [Except.ok.injEq, Prod.mk.injEq] at h
          obtain ⟨_, rfl, _⟩ := h
          rcases List.mem_cons.mp hc' with rfl | hc'
          · rw [(kill_live w c cons w1 c' cons1 hk).2.2.1] at hn; cases hn
          · exact List.mem_cons_of_mem _ (ih w1 cons1 w2 cs2 cons2 hrest c' hc' hn)
    · split at h
      · cases h
      · rename_i w2 cs2 cons2 hrest
        simp only [Except.ok.injEq, Prod.mk.injEq] at h
        obtain ⟨_, rfl, _⟩ := h
        rcases List.mem_cons.mp hc' with rfl | hc'
        · simp
        · exact List.mem_cons_of_mem _ (ih w cons w2 cs2 cons2 hrest c' hc' hn)

theorem killVictims_survivors (capR : Nat) : ∀ (vs : List Ctr) (w : Store) (act : List Ctr) (cons : Int) (w' : Store) (act' : List Ctr) (cons' : Int),
    killVictims w capR act cons vs = .ok (w', act', cons') → ∀ c' ∈ act', c'.completed = false → c' ∈ act := by
  intro vs
  induction vs with
  | nil =>
    intro w act cons w' act' cons' h c' hc' _
    simp only [killVictims, Except.ok.injEq, Prod.mk.injEq] at h
    obtain ⟨_, rfl, _⟩ := h
    exact hc'
  | cons v vs ih =>
    intro w act cons w' act' cons' h c' hc' hn
    unfold killVictims at h
    split at h
    · simp only [Except.ok.injEq, Prod.mk.injEq] at h
      obtain ⟨_, rfl, _⟩ := h
      exact hc'
    · split at h
      · cases h
      · rename_i w1 v1 cons1 hk
        have hmem := ih w1 _ cons1 w' act' cons' h c' hc' hn
        unfold replaceCtr at hmem
        obtain ⟨x, hx, e⟩ := List.mem_map.mp hmem
        split at e
        · rw [← e, (kill_live w v cons w1 v1 cons1 hk).2.2.1] at hn; cases hn
        · rw [← e]; exact hx

theorem oomKiller_survivors {w w' : Store} {p p' : Pool} (h : oomKiller w p = .ok (w', p')) :
    ∀ c' ∈ p'.active, c'.completed = false → c' ∈ p.active := by
  unfold oomKiller at h
  split at h
  · cases h
  · rename_i w1 act1 cons1 hk
    split at h
    · rw [← ok_snd2 h]
      exact killIndividual_survivors _ _ _ _ _ _ hk
    · split at h
      · cases h
      · rename_i w2 act2 cons2 hv
        rw [← ok_snd2 h]
        intro c' hc' hn
        exact killIndividual_survivors _ _ _ _ _ _ hk c' (killVictims_survivors _ _ _ _ _ _ _ _ hv c' hc' hn) hn


/-- phases 3–6 also keep the suspendable flag truthful -/
theorem poolRun_flag {cfg : Cfg} {w w' : Store} {p p' : Pool} {n : Nat} {res : List Res} (m : MemOK p) (rd : PoolReady cfg w p)
    (h : poolRun cfg w p = .ok (w', p', res)) : FlagOK p'.active := by
  unfold poolRun at h
  split at h
  · cases h
  · rename_i w3 p3 h3
    have act3 : p3.active = p.active := by
      unfold suspTickAll at h3
      split at h3
      · cases h3
      · rw [← ok_snd2 h3]
    split at h
    · cases h
    · rename_i w4 act4 cons4 h4
      rw [act3] at h4
      have hf4 := tickAll_flag cfg _ _ _ _ _ _ h4 (fun c hc => ⟨rd.live.inv c (List.mem_append_left _ hc), fun _ => (m.ok c hc).2.1⟩)
      split at h
      · cases h
      · rename_i w5 p5 h5
        simp only [Except.ok.injEq, Prod.mk.injEq] at h
        obtain ⟨_, hp', _⟩ := h
        obtain ⟨f1, _⟩ := collect_fields p5
        intro c hc hn hfz hcs
        rw [← hp', f1] at hc
        have hc5 := (List.mem_filter.mp hc).1
        have := oomKiller_survivors h5 c hc5 hn
        exact hf4 c this hn hfz hcs

/-- a pool at a tick boundary, as the executor needs it -/
structure PoolReadyF (cfg : Cfg) (w : Store) (p : Pool) : Prop where
  rd : PoolReady cfg w p
  flag : FlagOK p.active

/-- **phases 3–6 never raise and keep the pool ready for the next tick** -/
theorem poolRun_succeedsF {cfg : Cfg} {w : Store} {p : Pool} {n : Nat} (pinv : PoolInv p n) (m : MemOK p) (rd : PoolReadyF cfg w p) :
    ∃ w' p' res, poolRun cfg w p = .ok (w', p', res) ∧ PoolReadyF cfg w' p' := by
  obtain ⟨w', p', res, h, r⟩ := poolRun_succeeds pinv m rd.rd
  exact ⟨w', p', res, h, r, poolRun_flag (n := n) m rd.rd h⟩


/-! ### phase 1: suspensions -/

theorem transAll_sets_nodup (t : OpState) : ∀ (l : List Nat) (w w' : Store), w.transAll t l = .ok w' → l.Nodup → ∀ r ∈ l, w'.stOf r = t := by
  intro l
  induction l with
  | nil => intro _ _ _ _ r hr; cases hr
  | cons x xs ih =>
    intro w w' h hnd r hr
    simp only [List.nodup_cons] at hnd
    unfold Store.transAll at h
    split at h
    · cases h
    · rename_i w1 hw1
      rcases List.mem_cons.mp hr with rfl | hr
      · have hself : w1.stOf r = t := transition_self hw1 (transition_ok hw1).2.2.2
        have hfr := (transAll_stepsP t xs w1 w' h).frame r (fun t' hx => hnd.1 hx.1)
        rw [hfr, hself]
      · exact ih w1 w' h hnd.2 r hr

theorem findCtr_filter_ne (l : List Ctr) (a b : Nat) (h : a ≠ b) : findCtr (l.filter (·.cid != b)) a = findCtr l a := by
  unfold findCtr
  induction l with
  | nil => rfl
  | cons x xs ih =>
    by_cases hx : x.cid = b
    · have hxa : (x.cid == a) = false := by rw [hx]; simpa using fun e => h e.symm
      rw [List.filter_cons, List.find?_cons, hxa]
      simp [hx, ih]
    · rw [List.filter_cons]
      have : (x.cid != b) = true := by simpa using hx
      rw [this]
      simp only [↓reduceIte, List.find?_cons, ih]

/-- **applying a verified list of suspensions never raises** on a ready pool (each request names a different running container that is flagged suspendable),
and leaves the pool ready -/
theorem doSuspends_succeeds (cfg : Cfg) (n : Nat) : ∀ (l : List Nat) (w : Store) (p : Pool), l.Nodup →
    (∀ cid ∈ l, ∃ c, findCtr p.active cid = some c ∧ c.canSuspend = true) → PoolInv p n → PoolReadyF cfg w p → (∀ c ∈ p.active, c.frozen = false) →
    ∃ w' p', doSuspends cfg w p l = .ok (w', p') ∧ PoolReadyF cfg w' p' ∧ PoolInv p' n ∧ (∀ c ∈ p'.active, c ∈ p.active) := by
  intro l
  induction l with
  | nil => intro w p _ _ pinv rd _; exact ⟨w, p, rfl, rd, pinv, fun _ h => h⟩
  | cons k ks ih =>
    intro w p hnd hreq pinv rd hnf
    simp only [List.nodup_cons] at hnd
    obtain ⟨c, hfind, hcs⟩ := hreq k (by simp)
    have hcmem : c ∈ p.active := List.mem_of_find?_eq_some hfind
    have hcn : c.completed = false := rd.rd.live.nc c (List.mem_append_left _ hcmem)
    have hhr : headRunning c = false := rd.flag c hcmem hcn (hnf c hcmem) hcs
    obtain ⟨w1, c1, hsus⟩ := suspend_succeeds cfg w c (rd.rd.act c hcmem hcn) hhr
    obtain ⟨e1, st⟩ := suspend_live cfg w c w1 c1 hsus
    have hone : doSuspends cfg w p [k] = .ok (w1, { p with suspending := p.suspending ++ [c1], active := p.active.filter (·.cid != k) }) := by
      simp only [doSuspends, hfind, hsus]
    obtain ⟨l1, sh1, fr1⟩ := doSuspends_live cfg [k] w p n w1 _ hone pinv rd.rd.live
    obtain ⟨pinv1, _⟩ := doSuspends_inv cfg [k] w p n w1 _ pinv hone
    have hcnall : (cids p.active).Nodup := (List.nodup_append.mp pinv.nodup).1
    obtain ⟨hck, _, _, _⟩ := find_remove p.active k c hfind hcnall
    have hown_c : ∀ o ∈ c.unfinished, o ∈ ownP p := by
      intro o ho
      simp only [ownP, own_append, List.mem_append]
      exact Or.inl (mem_own hcmem hcn ho)
    have hndP := rd.rd.live.nd
    have hcnAS : (cids (p.active ++ p.suspending)).Nodup := by rw [cids_append]; exact pinv.nodup
    have hfoot : ∀ (x : Ctr), x ∈ p.active ++ p.suspending → x.cid ≠ c.cid → x.completed = false → ∀ o ∈ x.unfinished, w1.stOf o = w.stOf o := by
      intro x hx hne hxn o ho
      apply st.frame
      intro t hxt
      exact own_disjoint _ x c hndP hcnAS hx (List.mem_append_left _ hcmem) hne o (mem_ownOf_of hxn ho) (mem_ownOf_of hcn hxt.1)
    have hrd1 : PoolReadyF cfg w1 { p with suspending := p.suspending ++ [c1], active := p.active.filter (·.cid != k) } := by
      refine ⟨⟨l1, ?_, ?_⟩, ?_⟩
      · intro d hd hdn
        obtain ⟨hd1, hd2⟩ := List.mem_filter.mp hd
        have hne : d.cid ≠ c.cid := by rw [hck]; simpa using hd2
        exact ctrReady_frame (rd.rd.act d hd1 hdn) st.steps (hfoot d (List.mem_append_left _ hd1) hne hdn)
      · intro d hd o ho
        simp only [List.mem_append, List.mem_singleton] at hd
        rcases hd with hd | rfl
        · have hdn := rd.rd.live.nc d (List.mem_append_right _ hd)
          have hne : d.cid ≠ c.cid := by
            intro e
            exact (List.nodup_append.mp pinv.nodup).2.2 c.cid (List.mem_map_of_mem hcmem) d.cid (List.mem_map_of_mem hd) e.symm
          obtain ⟨b1, b2⟩ := rd.rd.sus d hd o ho
          exact ⟨by rw [st.steps.size]; exact b1, by rw [hfoot d (List.mem_append_right _ hd) hne hdn o ho]; exact b2⟩
        · have hoc : o ∈ c.unfinished := by rw [e1] at ho; exact ho
          unfold Ctr.suspend at hsus
          split at hsus
          · cases hsus
          · rename_i w1' hw1
            simp only [Except.ok.injEq, Prod.mk.injEq] at hsus
            obtain ⟨rfl, _⟩ := hsus
            exact ⟨by rw [(transAll_steps _ _ _ _ hw1).size]; exact (rd.rd.act c hcmem hcn).inb o hoc,
              transAll_sets_nodup suspending _ _ _ hw1 (unfinished_nodup (rd.rd.act c hcmem hcn).inv.nd) o hoc⟩
      · intro d hd
        exact rd.flag d (List.mem_filter.mp hd).1
    have hreq1 : ∀ cid ∈ ks, ∃ c', findCtr (p.active.filter (·.cid != k)) cid = some c' ∧ c'.canSuspend = true := by
      intro cid hcid
      obtain ⟨c', h1, h2⟩ := hreq cid (List.mem_cons_of_mem _ hcid)
      have hne : cid ≠ k := fun e => hnd.1 (e ▸ hcid)
      exact ⟨c', by rw [findCtr_filter_ne _ _ _ hne]; exact h1, h2⟩
    obtain ⟨w2, p2, h2, r2, pinv2, hsub2⟩ := ih w1 _ hnd.2 hreq1 pinv1 hrd1 (fun d hd => hnf d (List.mem_filter.mp hd).1)
    refine ⟨w2, p2, ?_, r2, pinv2, fun d hd => (List.mem_filter.mp (hsub2 d hd)).1⟩
    unfold doSuspends
    simp only [hfind, hsus]
    exact h2


/-! ### phase 2: new containers, and the whole pool tick -/

/-- assignments as the executor needs them: built by the checked constructor (operators ASSIGNED, distinct, existing, with segments) and in
dependency order (every parent COMPLETED or earlier in the same assignment) -/
def AsgsReady (w : Store) (as : List Asg) : Prop :=
  ∀ a ∈ as, a.ops ≠ [] ∧ a.ops.Nodup ∧ (∀ r ∈ a.ops, w.segsOf r ≠ [] ∧ w.stOf r = assigned ∧ r < w.st.size) ∧ ParentsOK w a.ops

theorem remOps_ne_nil (cfg : Cfg) (cpu : Nat) (ops : List (Nat × List Seg)) (hne : ops ≠ []) (hseg : ∀ o ∈ ops, o.2 ≠ []) : remOps cfg cpu ops ≠ [] := by
  cases ops with
  | nil => exact absurd rfl hne
  | cons o os =>
    intro e
    have hlen := congrArg List.length e
    simp only [remOps, List.flatMap_cons, List.length_append, opRem_length, List.length_nil] at hlen
    have := opTickTable_pos cfg cpu o.2 (hseg o (by simp))
    omega

theorem mkCtr_ready (cfg : Cfg) (w : Store) (cid : Nat) (a : Asg) (h1 : a.ops ≠ []) (hnd : a.ops.Nodup)
    (hst : ∀ r ∈ a.ops, w.segsOf r ≠ [] ∧ w.stOf r = assigned ∧ r < w.st.size) (hpar : ParentsOK w a.ops) :
    CtrReady cfg w (mkCtr w cid a) ∧ (mkCtr w cid a).frozen = false ∧ (mkCtr w cid a).canSuspend = false := by
  obtain ⟨m1, _, _⟩ := mkCtr_inv cfg w cid a hnd (fun r hr => (hst r hr).1)
  refine ⟨⟨m1, ?_, hpar, fun o ho => (hst o ho).2.2, fun _ => ?_⟩, rfl, rfl⟩
  · unfold ExactSt
    show match a.ops.drop 0 with | [] => True | r :: rest => _
    simp only [List.drop_zero]
    cases ha : a.ops with
    | nil => trivial
    | cons r rest =>
      simp only
      have hh : headRunning (mkCtr w cid { a with ops := r :: rest }) = false := by simp [headRunning, mkCtr, mkPos]
      refine ⟨?_, fun o ho => (hst o (by rw [ha]; exact List.mem_cons_of_mem _ ho)).2.1⟩
      have : headRunning (mkCtr w cid a) = false := by simp [headRunning, mkCtr, mkPos]
      rw [this]
      exact (hst r (by rw [ha]; simp)).2.1
  · have : rem cfg (mkCtr w cid a) = remOps cfg a.cpu (a.ops.map (fun r => (r, w.segsOf r))) := by
      simp only [rem, remHead, mkCtr, mkPos]
      cases a.ops with
      | nil => simp [remOps]
      | cons r rs => simp [remOps]
    rw [this]
    apply remOps_ne_nil
    · intro e; exact h1 (by simpa using e)
    · intro o ho
      simp only [List.mem_map] at ho
      obtain ⟨r, hr, rfl⟩ := ho
      exact (hst r hr).1

theorem startAll_ready (cfg : Cfg) (w : Store) : ∀ (as : List Asg) (p : Pool) (n : Nat) (p' : Pool) (n' : Nat),
    startAll cfg w p n as = .ok (p', n') → PoolReadyF cfg w p → AsgsReady w as → (ownP p ++ as.flatMap (·.ops)).Nodup →
    PoolReadyF cfg w p' := by
  intro as p n p' n' h rd ha hnd
  obtain ⟨l', _⟩ := startAll_live cfg w as p n p' n' h rd.rd.live
    (fun a haa => ⟨(ha a haa).2.1, fun r hr => ⟨((ha a haa).2.2.1 r hr).1, by rw [((ha a haa).2.2.1 r hr).2.1]; exact Or.inl rfl⟩⟩) hnd
  -- what startAll adds to the active list
  have key : ∀ (as : List Asg) (p : Pool) (n : Nat) (p' : Pool) (n' : Nat), startAll cfg w p n as = .ok (p', n') → AsgsReady w as →
      p'.suspending = p.suspending ∧ ∀ c ∈ p'.active, c ∈ p.active ∨ (CtrReady cfg w c ∧ c.frozen = false ∧ c.canSuspend = false) := by
    intro as
    induction as with
    | nil =>
      intro p n p' n' h _
      simp only [startAll, Except.ok.injEq, Prod.mk.injEq] at h
      obtain ⟨rfl, _⟩ := h
      exact ⟨rfl, fun c hc => Or.inl hc⟩
    | cons a as ih =>
      intro p n p' n' h ha
      unfold startAll at h
      split at h
      · cases h
      · obtain ⟨a1, a2, a3, a4⟩ := ha a (by simp)
        obtain ⟨i1, i2⟩ := ih _ _ _ _ h (fun b hb => ha b (List.mem_cons_of_mem _ hb))
        refine ⟨i1, fun c hc => ?_⟩
        rcases i2 c hc with hc' | hc'
        · simp only [List.mem_append, List.mem_singleton] at hc'
          rcases hc' with hc' | rfl
          · exact Or.inl hc'
          · exact Or.inr (mkCtr_ready cfg w n a a1 a2 a3 a4)
        · exact Or.inr hc'
  obtain ⟨ks, ka⟩ := key as p n p' n' h ha
  refine ⟨⟨l', ?_, by rw [ks]; exact rd.rd.sus⟩, ?_⟩
  · intro c hc hn
    rcases ka c hc with h1 | h1
    · exact rd.rd.act c h1 hn
    · exact h1.1
  · intro c hc hn hf hcs
    rcases ka c hc with h1 | h1
    · exact rd.flag c h1 hn hf hcs
    · rw [h1.2.2] at hcs; cases hcs

theorem verifySuspends_ok_iff (p : Pool) : ∀ (l : List Nat), verifySuspends p l = .ok () →
    ∀ cid ∈ l, ∃ c, findCtr p.active cid = some c ∧ c.canSuspend = true := by
  intro l
  induction l with
  | nil => intro _ cid h; simp at h
  | cons k ks ih =>
    intro h cid hcid
    unfold verifySuspends at h
    split at h
    · cases h
    · rename_i c hf
      split at h
      · rename_i hcs
        rcases List.mem_cons.mp hcid with rfl | hcid
        · exact ⟨c, hf, hcs⟩
        · exact ih h cid hcid
      · cases h

/-- the errors with which a pool tick refuses its commands before doing anything irreversible -/
def Err.isGate (e : Err) : Bool := e == .noContainer || e == .cannotSuspend || e == .overCpu || e == .overRam || e == .opCount

/-- **a pool tick raises only at its gates.**  On a ready pool, with assignments built by the checked constructor in dependency order and with
distinct suspension requests, `ResourcePool.run_one_tick` either succeeds and leaves the pool ready for the next tick, or refuses the commands with
one of the gate errors (unknown or unsuspendable container, oversold CPU or RAM, wrong operator count) in a well-defined state.  It never fails
in the middle of the tick. -/
theorem poolTick_raises_only_at_the_gates {cfg : Cfg} {w : Store} {p : Pool} {n : Nat} {cm : Cmds}
    (g : PoolGoodMem cfg p n) (rd : PoolReadyF cfg w p) (ha : AsgsReady w cm.asgs) (hs : cm.susp.Nodup)
    (hnd : (ownP p ++ cm.asgs.flatMap (·.ops)).Nodup) :
    (∃ w' p' n' res, poolTick cfg w p n cm = .ok (w', p', n', res) ∧ PoolReadyF cfg w' p') ∨
    (∃ e st, poolTick cfg w p n cm = .error (e, some st) ∧ e.isGate = true) := by
  unfold poolTick
  -- gate 1
  cases hv : (if cm.susp.isEmpty then (Except.ok () : Except Err Unit) else verifySuspends p cm.susp) with
  | error e =>
    right
    refine ⟨e, (w, p, n), rfl, ?_⟩
    split at hv
    · cases hv
    · -- the only errors of verify_valid_suspend
      have : ∀ (l : List Nat), verifySuspends p l = .error e → e.isGate = true := by
        intro l
        induction l with
        | nil => intro h; simp [verifySuspends] at h
        | cons k ks ih =>
          intro h
          unfold verifySuspends at h
          split at h
          · cases h; rfl
          · split at h
            · exact ih h
            · cases h; rfl
      exact this _ hv
  | ok u =>
    simp only
    have hreq : ∀ cid ∈ cm.susp, ∃ c, findCtr p.active cid = some c ∧ c.canSuspend = true := by
      split at hv
      · rename_i he
        intro cid hc
        have : cm.susp = [] := by simpa using he
        rw [this] at hc; simp at hc
      · exact verifySuspends_ok_iff p cm.susp hv
    obtain ⟨w1, p1, hd, r1, pinv1, hsub1⟩ := doSuspends_succeeds cfg n cm.susp w p hs hreq g.1.1 rd (fun c hc => (g.2.ok c hc).2.1)
    -- phase 1 as the tick performs it (nothing at all for an empty list, else apply and re-sum the usage)
    have hph1 : ∃ p1', (if cm.susp.isEmpty then (Except.ok (w, p) : Except Err (Store × Pool)) else (doSuspends cfg w p cm.susp).map (fun (w1, p1) => (w1, p1.reconcile))) = .ok (w1, p1') ∧
        PoolReadyF cfg w1 p1' ∧ ownP p1' = ownP p1 := by
      split
      · rename_i he
        have : cm.susp = [] := by simpa using he
        rw [this] at hd
        simp only [doSuspends, Except.ok.injEq, Prod.mk.injEq] at hd
        obtain ⟨rfl, rfl⟩ := hd
        exact ⟨p, rfl, rd, rfl⟩
      · rw [hd]
        refine ⟨p1.reconcile, rfl, ?_, rfl⟩
        exact ⟨⟨⟨r1.rd.live.inv, r1.rd.live.nc, r1.rd.live.nd, r1.rd.live.busy⟩, r1.rd.act, r1.rd.sus⟩, r1.flag⟩
    obtain ⟨p1', hs1, r1', hown1⟩ := hph1
    rw [hs1]
    simp only
    have m1 := susPhase_mem g.2 hs1
    obtain ⟨g1, _, _⟩ := susPhase_inv g.1 hs1
    obtain ⟨_, sh1, fr1⟩ := doSuspends_live cfg cm.susp w p n w1 p1 hd g.1.1 rd.rd.live
    -- gate 2
    cases hva : (if cm.asgs.isEmpty then (Except.ok () : Except Err Unit) else verifyAssignments cfg p1' cm.asgs) with
    | error e =>
      right
      refine ⟨e, (w1, p1', n), rfl, ?_⟩
      split at hva
      · cases hva
      · unfold verifyAssignments at hva
        split at hva
        · cases hva; rfl
        · split at hva
          · cases hva; rfl
          · cases hva
    | ok u2 =>
      simp only
      cases hst : startAll cfg w1 p1' n cm.asgs with
      | error e3 =>
        right
        obtain ⟨e, p2, n2⟩ := e3
        refine ⟨e, (w1, p2, n2), rfl, ?_⟩
        -- startAll refuses only for the operator count
        have : ∀ (as : List Asg) (p0 : Pool) (n0 : Nat), startAll cfg w1 p0 n0 as = .error (e, p2, n2) → e.isGate = true := by
          intro as
          induction as with
          | nil => intro p0 n0 h; simp [startAll] at h
          | cons a as ih =>
            intro p0 n0 h
            unfold startAll at h
            split at h
            · cases h; rfl
            · exact ih _ _ h
        exact this _ _ _ hst
      | ok v =>
        obtain ⟨p2, n2⟩ := v
        simp only
        left
        have m2 := (startAll_mem cfg w1 cm.asgs p1' n m1).1 _ _ hst
        obtain ⟨i2, _⟩ := (startAll_inv cfg w1 cm.asgs p1' n g1.1).1 _ _ hst
        -- the assignments are still what they were, seen from the store after phase 1
        have hdisjA : ∀ o ∈ cm.asgs.flatMap (·.ops), o ∉ ownP p := fun o ho hx => (List.nodup_append.mp hnd).2.2 o hx o ho rfl
        have hst1 : Steps w w1 := doSuspends_steps cfg _ _ _ _ _ hd
        have ha1 : AsgsReady w1 cm.asgs := by
          intro a haa
          obtain ⟨x1, x2, x3, x4⟩ := ha a haa
          refine ⟨x1, x2, fun r hr => ?_, parentsOK_frame x4 hst1.ops (fun q hq => completed_final hst1 q hq)⟩
          obtain ⟨y1, y2, y3⟩ := x3 r hr
          refine ⟨by unfold Store.segsOf at y1 ⊢; rw [hst1.ops]; exact y1, ?_, by rw [hst1.size]; exact y3⟩
          rw [fr1 r (hdisjA r (List.mem_flatMap.mpr ⟨a, haa, hr⟩))]; exact y2
        have hnd1 : (ownP p1' ++ cm.asgs.flatMap (·.ops)).Nodup := by
          rw [hown1]
          exact (Shrinks.append sh1 (Shrinks.refl _)).nodup hnd
        have r2 := startAll_ready cfg w1 cm.asgs p1' n p2 n2 hst r1' ha1 hnd1
        obtain ⟨w6, p6, res, hr, r6⟩ := poolRun_succeedsF i2 m2 r2
        rw [hr]
        exact ⟨w6, p6, n2, res, rfl, r6⟩


/-! ### when the gates let the commands through, the tick succeeds -/

theorem startAll_no_error (cfg : Cfg) (w : Store) : ∀ (as : List Asg) (p : Pool) (n : Nat), (∀ a ∈ as, opCountOk cfg a = true) →
    ∃ p' n', startAll cfg w p n as = .ok (p', n') := by
  intro as
  induction as with
  | nil => intro p n _; exact ⟨p, n, rfl⟩
  | cons a as ih =>
    intro p n h
    unfold startAll
    simp only [h a (by simp), Bool.not_true, Bool.false_eq_true, ↓reduceIte]
    exact ih _ _ (fun b hb => h b (List.mem_cons_of_mem _ hb))

/-- **no suspensions, admissible assignments ⇒ the pool tick succeeds** (and the pool stays ready) -/
theorem poolTick_succeeds_of_gates {cfg : Cfg} {w : Store} {p : Pool} {n : Nat} {asgs : List Asg}
    (g : PoolGoodMem cfg p n) (rd : PoolReadyF cfg w p) (ha : AsgsReady w asgs) (hnd : (ownP p ++ asgs.flatMap (·.ops)).Nodup)
    (hv : asgs.isEmpty = true ∨ verifyAssignments cfg p asgs = .ok ()) (hcnt : ∀ a ∈ asgs, opCountOk cfg a = true) :
    ∃ w' p' n' res, poolTick cfg w p n { susp := [], asgs := asgs } = .ok (w', p', n', res) ∧ PoolReadyF cfg w' p' := by
  rcases poolTick_raises_only_at_the_gates (cm := { susp := [], asgs := asgs }) g rd ha (by simp) hnd with h | ⟨e, st, h, _⟩
  · exact h
  · exfalso
    unfold poolTick at h
    simp only [List.isEmpty_nil, ↓reduceIte] at h
    have hva : (if asgs.isEmpty then (Except.ok () : Except Err Unit) else verifyAssignments cfg p asgs) = .ok () := by
      rcases hv with hv | hv
      · simp [hv]
      · split
        · rfl
        · exact hv
    rw [hva] at h
    simp only at h
    obtain ⟨p2, n2, hs⟩ := startAll_no_error cfg w asgs p n hcnt
    rw [hs] at h
    simp only at h
    split at h
    · cases h
    · cases h

/-! ### all pools -/

theorem poolReadyF_frame {cfg : Cfg} {s s1 : Store} {q : Pool} (h : PoolReadyF cfg s q) (hs : Steps s s1)
    (hf : ∀ o ∈ ownP q, s1.stOf o = s.stOf o) : PoolReadyF cfg s1 q := by
  have hact : ∀ o ∈ own q.active, o ∈ ownP q := fun o ho => by simp only [ownP, own_append, List.mem_append]; exact Or.inl ho
  have hsus : ∀ o ∈ own q.suspending, o ∈ ownP q := fun o ho => by simp only [ownP, own_append, List.mem_append]; exact Or.inr ho
  refine ⟨⟨poolLive_frame h.rd.live hf, readyAll_frame h.rd.act hs (fun o ho => hf o (hact o ho)), ?_⟩, h.flag⟩
  intro c hc o ho
  obtain ⟨b1, b2⟩ := h.rd.sus c hc o ho
  have hcn := h.rd.live.nc c (List.mem_append_right _ hc)
  exact ⟨by rw [hs.size]; exact b1, by rw [hf o (hsus o (mem_own hc hcn ho))]; exact b2⟩

/-- the loop invariant of `execPools`, with readiness -/
structure PoolsReady (cfg : Cfg) (asgs : List Asg) (s : Store) (n : Nat) (done todo : List Pool) : Prop where
  live : PoolsLive cfg asgs s n done todo
  rdy : ∀ p ∈ done ++ todo, PoolReadyF cfg s p
  par : ∀ a ∈ pendFor asgs done.length, a.ops ≠ [] ∧ ParentsOK s a.ops ∧ ∀ r ∈ a.ops, r < s.st.size

theorem poolsReady_step {cfg : Cfg} {sus : List (Nat × Nat)} {asgs : List Asg} {s s1 : Store} {n n1 : Nat} {done rest : List Pool} {p p1 : Pool} {r : List Res}
    (hJ : PoolsReady cfg asgs s n done (p :: rest)) (hp : poolTick cfg s p n (cmdsFor done.length sus asgs) = .ok (s1, p1, n1, r))
    (r1 : PoolReadyF cfg s1 p1) : PoolsReady cfg asgs s1 n1 (done ++ [p1]) rest := by
  obtain ⟨l1, hn1, fr⟩ := poolsLive_step hJ.live hp
  have hst : Steps s s1 := poolTick_steps_ok hp
  refine ⟨l1, ?_, ?_⟩
  · intro q hq
    have hq' : q ∈ done ∨ q = p1 ∨ q ∈ rest := by simpa [List.mem_append, or_assoc] using hq
    rcases hq' with hq' | rfl | hq'
    · refine poolReadyF_frame (hJ.rdy q (by simp [hq'])) hst (fun o ho => fr o ?_)
      have := count_le_flatMap ownP done q hq' o
      have : 1 ≤ (ownP q).count o := List.one_le_count_iff.mpr ho
      omega
    · exact r1
    · refine poolReadyF_frame (hJ.rdy q (by simp [hq'])) hst (fun o ho => fr o ?_)
      have := count_le_flatMap ownP rest q hq' o
      have : 1 ≤ (ownP q).count o := List.one_le_count_iff.mpr ho
      omega
  · simp only [List.length_append, List.length_cons, List.length_nil, Nat.zero_add]
    intro a ha'
    obtain ⟨ha1, ha2⟩ := List.mem_filter.mp ha'
    have hle : done.length + 1 ≤ a.pool := by simpa using ha2
    obtain ⟨y1, y2, y3⟩ := hJ.par a (List.mem_filter.mpr ⟨ha1, by simp only [decide_eq_true_eq]; omega⟩)
    exact ⟨y1, parentsOK_frame y2 hst.ops (fun q hq => completed_final hst q hq), fun r hr => by rw [hst.size]; exact y3 r hr⟩

theorem poolsReady_head {cfg : Cfg} {sus : List (Nat × Nat)} {asgs : List Asg} {s : Store} {n : Nat} {done rest : List Pool} {p : Pool}
    (hJ : PoolsReady cfg asgs s n done (p :: rest)) :
    AsgsReady s (cmdsFor done.length sus asgs).asgs ∧ (ownP p ++ (cmdsFor done.length sus asgs).asgs.flatMap (·.ops)).Nodup := by
  obtain ⟨hnd, haok, hsub⟩ := poolsLive_head (sus := sus) hJ.live
  refine ⟨?_, hnd⟩
  intro a haa
  obtain ⟨x1, x2⟩ := haok a haa
  obtain ⟨y1, y2, y3⟩ := hJ.par a (hsub a haa)
  exact ⟨y1, x1, fun r hr => ⟨(x2 r hr).1, (x2 r hr).2, y3 r hr⟩, y2⟩

/-- **no suspensions and admissible assignments for every pool ⇒ the loop over the pools succeeds** -/
theorem execPools_succeeds_of_gates (cfg : Cfg) (asgs : List Asg) (hcnt : ∀ a ∈ asgs, opCountOk cfg a = true) :
    ∀ (todo : List Pool) (s : Store) (n : Nat) (done : List Pool) (res : List Res), PoolsReady cfg asgs s n done todo →
    (∀ k p, todo[k]? = some p → (asgs.filter (·.pool == done.length + k)).isEmpty = true ∨
        verifyAssignments cfg p (asgs.filter (·.pool == done.length + k)) = .ok ()) →
    ∃ s' ps n' res', execPools cfg [] asgs s n done todo res = .ok (s', ps, n', res') ∧ PoolsReady cfg asgs s' n' ps [] := by
  intro todo
  induction todo with
  | nil => intro s n done res hJ _; exact ⟨s, done, n, res, rfl, hJ⟩
  | cons p rest ih =>
    intro s n done res hJ hv
    obtain ⟨gp, _⟩ := hJ.live.pools p (by simp)
    obtain ⟨ha, hnd⟩ := poolsReady_head (sus := []) hJ
    have hcm : cmdsFor done.length [] asgs = { susp := [], asgs := asgs.filter (·.pool == done.length) } := rfl
    rw [hcm] at ha hnd
    obtain ⟨s1, p1, n1, r, hp, r1⟩ := poolTick_succeeds_of_gates gp (hJ.rdy p (by simp)) ha hnd
      (by have := hv 0 p (by simp); simpa using this) (fun a haa => hcnt a (List.mem_filter.mp haa).1)
    have hp' : poolTick cfg s p n (cmdsFor done.length [] asgs) = .ok (s1, p1, n1, r) := by rw [hcm]; exact hp
    have hJ1 := poolsReady_step hJ hp' r1
    obtain ⟨s', ps, n', res', h2, r2⟩ := ih s1 n1 (done ++ [p1]) (res ++ r) hJ1 (by
      intro k q hq
      have := hv (k + 1) q (by simpa using hq)
      simp only [List.length_append, List.length_cons, List.length_nil, Nat.zero_add]
      have e : done.length + 1 + k = done.length + (k + 1) := by omega
      rw [e]; exact this)
    refine ⟨s', ps, n', res', ?_, r2⟩
    unfold execPools; rw [hp']; exact h2

/-- **the executor's loop over the pools raises only at a pool's gates** -/
theorem execPools_raises_only_at_the_gates (cfg : Cfg) (sus : List (Nat × Nat)) (asgs : List Asg)
    (hsus : ∀ i, ((sus.filter (·.1 == i)).map (·.2)).Nodup) :
    ∀ (todo : List Pool) (s : Store) (n : Nat) (done : List Pool) (res : List Res), PoolsReady cfg asgs s n done todo →
    (∃ s' ps n' res', execPools cfg sus asgs s n done todo res = .ok (s', ps, n', res') ∧ PoolsReady cfg asgs s' n' ps []) ∨
    (∃ e st, execPools cfg sus asgs s n done todo res = .error (e, some st) ∧ e.isGate = true) := by
  intro todo
  induction todo with
  | nil => intro s n done res hJ; exact Or.inl ⟨s, done, n, res, rfl, hJ⟩
  | cons p rest ih =>
    intro s n done res hJ
    obtain ⟨gp, _⟩ := hJ.live.pools p (by simp)
    obtain ⟨hnd, haok, hsub⟩ := poolsLive_head (sus := sus) hJ.live
    have ha : AsgsReady s (cmdsFor done.length sus asgs).asgs := by
      intro a haa
      obtain ⟨x1, x2⟩ := haok a haa
      obtain ⟨y1, y2, y3⟩ := hJ.par a (hsub a haa)
      exact ⟨y1, x1, fun r hr => ⟨(x2 r hr).1, (x2 r hr).2, y3 r hr⟩, y2⟩
    rcases poolTick_raises_only_at_the_gates gp (hJ.rdy p (by simp)) ha (hsus done.length) hnd with ⟨s1, p1, n1, r, hp, r1⟩ | ⟨e, st, hp, hg⟩
    · -- the pool ticked; go on with the rest
      obtain ⟨l1, hn1, fr⟩ := poolsLive_step hJ.live hp
      have hst : Steps s s1 := poolTick_steps_ok hp
      have hglob := (nodup_iff_count_le_one _).mp hJ.live.nd
      have hJ1 : PoolsReady cfg asgs s1 n1 (done ++ [p1]) rest := by
        refine ⟨l1, ?_, ?_⟩
        · intro q hq
          have hq' : q ∈ done ∨ q = p1 ∨ q ∈ rest := by simpa [List.mem_append, or_assoc] using hq
          rcases hq' with hq' | rfl | hq'
          · refine poolReadyF_frame (hJ.rdy q (by simp [hq'])) hst (fun o ho => fr o ?_)
            have := count_le_flatMap ownP done q hq' o
            have : 1 ≤ (ownP q).count o := List.one_le_count_iff.mpr ho
            omega
          · exact r1
          · refine poolReadyF_frame (hJ.rdy q (by simp [hq'])) hst (fun o ho => fr o ?_)
            have := count_le_flatMap ownP rest q hq' o
            have : 1 ≤ (ownP q).count o := List.one_le_count_iff.mpr ho
            omega
        · simp only [List.length_append, List.length_cons, List.length_nil, Nat.zero_add]
          intro a ha'
          obtain ⟨ha1, ha2⟩ := List.mem_filter.mp ha'
          have hle : done.length + 1 ≤ a.pool := by simpa using ha2
          obtain ⟨y1, y2, y3⟩ := hJ.par a (List.mem_filter.mpr ⟨ha1, by simp only [decide_eq_true_eq]; omega⟩)
          exact ⟨y1, parentsOK_frame y2 hst.ops (fun q hq => completed_final hst q hq), fun r hr => by rw [hst.size]; exact y3 r hr⟩
      rcases ih s1 n1 (done ++ [p1]) (res ++ r) hJ1 with ⟨s', ps, n', res', h2, r2⟩ | ⟨e, st, h2, hg⟩
      · left
        refine ⟨s', ps, n', res', ?_, r2⟩
        unfold execPools; rw [hp]; exact h2
      · right
        refine ⟨e, st, ?_, hg⟩
        unfold execPools; rw [hp]; exact h2
    · right
      obtain ⟨s1, p1, n1⟩ := st
      exact ⟨e, (s1, done ++ p1 :: rest, n1), by unfold execPools; rw [hp], hg⟩

end Eudoxia
