import EudoxiaModel.Proofs.WorldLive
import EudoxiaModel.Proofs.Dead
/-! What an executor tick leaves alone: operators that no pool owns and no assignment of the tick names keep their state; and two facts about the containers
    of a ready world. -/
namespace Eudoxia
open OpState Extracted

/-- operators outside what the pools own and what is being started are not touched by the loop over the pools -/
theorem execPools_frame (cfg : Cfg) (sus : List (Nat × Nat)) (asgs : List Asg) :
    ∀ (todo : List Pool) (s : Store) (n : Nat) (done : List Pool) (res : List Res) (s' : Store) (ps : List Pool) (n' : Nat) (res' : List Res),
    PoolsLive cfg asgs s n done todo → execPools cfg sus asgs s n done todo res = .ok (s', ps, n', res') →
    ∀ o, o ∉ todo.flatMap ownP ++ opsOf (pendFor asgs done.length) → s'.stOf o = s.stOf o := by
  intro todo
  induction todo with
  | nil =>
    intro s n done res s' ps n' res' _ h o _
    simp only [execPools, Except.ok.injEq, Prod.mk.injEq] at h
    rw [h.1]
  | cons p rest ih =>
    intro s n done res s' ps n' res' hJ h o ho
    unfold execPools at h
    split at h
    · cases h
    · cases h
    · rename_i s1 p1 n1 r hpt
      obtain ⟨gp, lp⟩ := hJ.pools p (by simp)
      obtain ⟨hnd, haok, hsub⟩ := poolsLive_head (sus := sus) hJ
      obtain ⟨_, _, fr⟩ := poolTick_live gp lp haok hnd hpt
      obtain ⟨hJ1, _, _⟩ := poolsLive_step hJ hpt
      have h1 : s1.stOf o = s.stOf o := by
        apply fr
        intro hin
        apply ho
        rcases List.mem_append.mp hin with h' | h'
        · exact List.mem_append_left _ (by simp only [List.flatMap_cons]; exact List.mem_append_left _ h')
        · apply List.mem_append_right
          obtain ⟨a, haa, hoa⟩ := List.mem_flatMap.mp h'
          exact List.mem_flatMap.mpr ⟨a, hsub a haa, hoa⟩
      rw [← h1]
      apply ih s1 n1 (done ++ [p1]) (res ++ r) s' ps n' res' hJ1 h o
      intro hin
      apply ho
      simp only [List.length_append, List.length_cons, List.length_nil, Nat.zero_add] at hin
      rcases List.mem_append.mp hin with h' | h'
      · exact List.mem_append_left _ (by simp only [List.flatMap_cons]; exact List.mem_append_right _ h')
      · apply List.mem_append_right
        obtain ⟨a, haa, hoa⟩ := List.mem_flatMap.mp h'
        obtain ⟨ha1, ha2⟩ := List.mem_filter.mp haa
        have hle : done.length + 1 ≤ a.pool := by simpa using ha2
        exact List.mem_flatMap.mpr ⟨a, List.mem_filter.mpr ⟨ha1, by simp only [decide_eq_true_eq]; omega⟩, hoa⟩


theorem execTick_frame {w1 w2 : World} {sus : List (Nat × Nat)} {asgs : List Asg} {res : List Res}
    (hJ : PoolsLive w1.cfg asgs w1.store w1.nextCid [] w1.pools) (hx : w1.execTick sus asgs = .ok (w2, res)) :
    ∀ o, o ∉ w1.pools.flatMap ownP → o ∉ opsOf asgs → w2.store.stOf o = w1.store.stOf o := by
  unfold World.execTick at hx
  split at hx
  · cases hx
  · split at hx
    · cases hx
    · cases hx
    · rename_i s ps n rr hexp
      simp only [Except.ok.injEq, Prod.mk.injEq] at hx
      obtain ⟨rfl, _⟩ := hx
      intro o h1 h2
      apply execPools_frame w1.cfg sus asgs w1.pools w1.store w1.nextCid [] [] s ps n rr hJ hexp o
      intro hin
      rcases List.mem_append.mp hin with h | h
      · exact h1 h
      · apply h2
        unfold opsOf pendFor at h
        unfold opsOf
        obtain ⟨a, ha, hoa⟩ := List.mem_flatMap.mp h
        exact List.mem_flatMap.mpr ⟨a, (List.mem_filter.mp ha).1, hoa⟩


/-- every container a ready world holds — running or being written out — has unfinished operators, all of them busy -/
theorem owned_busy {w : World} (hr : WorldReady w) {p : Pool} (hp : p ∈ w.pools) {c : Ctr} (hc : c ∈ p.active ++ p.suspending) :
    ∀ o ∈ c.unfinished, Busy (w.store.stOf o) := by
  obtain ⟨_, lp, _⟩ := hr.pools p hp
  exact lp.busy c hc (lp.nc c hc)

theorem active_unf_ne {w : World} (hr : WorldReady w) {p : Pool} (hp : p ∈ w.pools) {c : Ctr} (hc : c ∈ p.active) : c.unfinished ≠ [] := by
  obtain ⟨_, lp, rf⟩ := hr.pools p hp
  have hn := lp.nc c (List.mem_append_left _ hc)
  have rd := rf.rd.act c hc hn
  exact unfinished_ne_nil_of_rem rd.inv.wf (rd.more hn)


end Eudoxia
